(* C01/GenProofs.v — the hand-written model against the definitions REGENERATED from the source
   (C01/Gen.v, printed by harness/props/c01_translate.py on every run of the check).

   A changed constant or a changed integer function in sfile.py / Util.py / records.cpp changes
   Gen.v; these statements are then re-checked against the new text (harness: overlay build). *)
From Coq Require Import ZArith List Bool NArith Lia ZifyBool.
From Coq.Strings Require Import Byte String.
From EsVerif.Common Require Import Base Bytes.
From EsVerif.C01 Require Import Framing Model Gen.
From EsVerif.C01 Require Import FramingProofs PyLib.
Import ListNotations.
Open Scope Z_scope.
Open Scope list_scope.
Notation length := List.length.

(* ---------------------------------------------------------------- constants *)
Theorem gen_consts :
  gen_sfile_version = sfile_version
  /\ gen_reserved = reserved_lower
  /\ gen_scan_pat = pat /\ gen_scan_incr = blank_extra
  /\ gen_update_prefix = gen_size_prefix /\ gen_update_width = gen_size_width
  /\ forall n, size_line n = gen_size_prefix ++ pad_left gen_size_width (dec n).
Proof. repeat split; reflexivity. Qed.

(* ---------------------------------------------------------------- SFile._make_header *)
(* the model's _make_header is the translation of the source's statement sequence *)
Lemma gen_strip_eq (pyval : Type) (h : hdict pyval) : gen_strip pyval h = strip_reserved pyval h.
Proof.
  induction h as [|[k v] t IH]; [reflexivity|]. cbn [gen_strip strip_reserved].
  change (gen_is_stripped k) with (is_stripped k). rewrite IH. reflexivity.
Qed.

Theorem gen_make_header_eq (pyval : Type) v_str v_descr hdr dt :
  gen_make_header pyval v_str v_descr hdr dt = make_header pyval v_str v_descr hdr dt.
Proof. unfold gen_make_header, make_header. rewrite gen_strip_eq. reflexivity. Qed.

(* the model's header framing is the translation of the list that SFile._write_header joins *)
Theorem gen_mk_header_eq n d : gen_mk_header n d = mk_header n d.
Proof. unfold gen_mk_header, mk_header. cbn [join app]. rewrite ?app_nil_r. reflexivity. Qed.

(* the model's choice of header lines (first line = size, lines 1 .. len-3 joined by blanks = the
   dict text) is the translation of the indices and the slice in SFile.read_header *)
Lemma pyslice_lines (l0 : list byte) rest :
  pyslice (l0 :: rest) 1 (Z.of_nat (length (l0 :: rest)) - 3) = firstn (length (l0 :: rest) - 3 - 1) rest.
Proof.
  unfold pyslice. cbn [length]. set (m := length rest).
  destruct (Z.of_nat (S m) - 3 <? 0) eqn:E1.
  - replace (Z.min 1 (Z.of_nat (S m))) with 1 by lia.
    destruct (1 <? Z.max 0 (Z.of_nat (S m) - 3 + Z.of_nat (S m))) eqn:E2; [lia|].
    replace (S m - 3 - 1)%nat with 0%nat by lia. reflexivity.
  - replace (Z.min (Z.of_nat (S m) - 3) (Z.of_nat (S m))) with (Z.of_nat (S m) - 3) by lia.
    replace (Z.min 1 (Z.of_nat (S m))) with 1 by lia.
    destruct (1 <? Z.of_nat (S m) - 3) eqn:E2.
    + change (Z.to_nat 1) with 1%nat. cbn [skipn]. f_equal. lia.
    + replace (S m - 3 - 1)%nat with 0%nat by lia. reflexivity.
Qed.

Theorem gen_parse_header_eq hs : gen_parse_header hs = parse_header hs.
Proof.
  unfold gen_parse_header, parse_header. change (split_on x0a hs) with (split_nl hs).
  destruct (split_nl hs) as [|l0 rest] eqn:E; [exfalso; exact (split_on_nonempty nl hs E)|].
  cbn [nth]. destruct (parse_size l0); cbn [bind]; [|reflexivity].
  rewrite pyslice_lines. reflexivity.
Qed.

(* ---------------------------------------------------------------- integer functions *)
Theorem gen_count_nrows_eq filelen offset rs :
  gen_count_nrows filelen offset rs = Ok (count_nrows filelen offset rs).
Proof. reflexivity. Qed.

(* C's truncating / and % (Records::process_slice) and Python's floor // and %
   (Recfile._get_slice_nrows) agree on every slice the reader accepts *)
Theorem gen_slice_agree n r1 r2 s : 0 <= r1 -> r1 <= r2 -> r2 <= n -> 0 < s ->
  gen_process_slice n r1 r2 s = gen_get_slice_nrows r1 r2 s.
Proof.
  intros H1 H2 H3 H4. unfold gen_process_slice, gen_get_slice_nrows.
  replace (r1 <? 0) with false by lia. replace (r2 >? n) with false by lia.
  replace (s <=? 0) with false by lia.
  rewrite Z.rem_mod_nonneg, Z.quot_div_nonneg by lia. reflexivity.
Qed.

(* a full read (slice(0, nrows, 1)) allocates and reads exactly nrows rows *)
Theorem gen_full_read m n : 1 <= n ->
  gen_process_nrows m n = Ok n /\ gen_get_slice_nrows 0 n 1 = Ok n /\ gen_process_slice n 0 n 1 = Ok n.
Proof.
  intro H. split; [|split].
  - unfold gen_process_nrows. replace (n <? 1) with false by lia. reflexivity.
  - unfold gen_get_slice_nrows. rewrite Z.sub_0_r, Z.mod_1_r, Z.div_1_r. cbn. f_equal. lia.
  - rewrite gen_slice_agree by lia. unfold gen_get_slice_nrows.
    rewrite Z.sub_0_r, Z.mod_1_r, Z.div_1_r. cbn. f_equal. lia.
Qed.

(* Recfile(mode='r', dtype, nrows, offset).read() composed from the regenerated functions:
   _count_nrows when nrows is None or negative; Records::process_nrows in the constructor;
   _get_slice_nrows sizes the output array; process_slice gives the number of rows to fread *)
Definition recfile_read_gen (f : file) (offset rs : Z) (nrows : option Z) : result (list (list byte)) :=
  do cnt <- gen_count_nrows (Z.of_nat (length f)) offset rs;
  let n := match nrows with Some n => if n <? 0 then cnt else n | None => cnt end in
  do m <- gen_process_nrows 0 n;
  do k0 <- gen_get_slice_nrows 0 m 1;
  do k <- gen_process_slice m 0 m 1;
  if k0 =? k then take_rows (Z.to_nat rs) (Z.to_nat k) (skipn (Z.to_nat offset) f)
  else Err EOther.

Theorem recfile_read_is_gen f offset rs nrows :
  recfile_read f offset rs nrows = recfile_read_gen f offset rs nrows.
Proof.
  unfold recfile_read, recfile_read_gen. rewrite gen_count_nrows_eq. cbn [bind].
  set (n := match nrows with
            | Some n => if n <? 0 then count_nrows (Z.of_nat (length f)) offset rs else n
            | None => count_nrows (Z.of_nat (length f)) offset rs
            end).
  destruct (n <? 1) eqn:E.
  - unfold gen_process_nrows. rewrite E. reflexivity.
  - destruct (gen_full_read 0 n ltac:(lia)) as [P [G S]].
    rewrite P. cbn [bind]. rewrite G. cbn [bind]. rewrite S. cbn [bind].
    rewrite Z.eqb_refl. reflexivity.
Qed.

(* C01/Pyval.v — a model of the Python side of the header: literal values, a printer
   (what pprint.pformat / repr do, up to layout) and a parser (what eval does) for the
   finite literals the property quantifies over.  NO proofs here (PyvalProofs.v).

   Values: int, float (kept as its repr token, e.g. 1e+300, -0.0), None, bool, str (as the
   UTF-8 bytes of its text), bytes, list, tuple, dict with str keys.
   Concrete syntax accepted by [pv_parse] (a subset of Python's expression syntax that contains
   everything pformat emits for such values): blanks and newlines between tokens, brackets,
   commas (trailing comma allowed), colons, decimal integers, float tokens, None/True/False,
   string literals in single or double quotes with the escapes backslash-backslash, -quote, -n, -r, -t,
   -xHH, -uHHHH, -UHHHHHHHH, bytes literals (prefix b), implicit concatenation of adjacent literals, parenthesised
   expressions ((v) is v, (v,) is a tuple).
   [pv_print] writes one line: every token followed by one blank, a comma after every element. *)
From Coq Require Import ZArith List Bool NArith.
From Coq.Strings Require Import Byte String.
From EsVerif.Common Require Import Base Bytes.
From EsVerif.C01 Require Import Framing.
Import ListNotations.
Open Scope Z_scope.
Open Scope list_scope.
Notation length := List.length.

Inductive pv :=
| PInt (z : Z)
| PFloat (t : list byte)
| PNone
| PBool (b : bool)
| PStr (s : list byte)
| PBytes (s : list byte)
| PList (l : list pv)
| PTuple (l : list pv)
| PDict (l : list (list byte * pv)).

Inductive tok :=
| TLB | TRB | TLP | TRP | TLC | TRC | TComma | TColon
| TStr (s : list byte) | TBytes (s : list byte) | TNum (t : list byte) | TName (n : list byte).

(* ------------------------------------------------------------------ numbers and names *)
Definition all_digits (l : list byte) : bool :=
  match l with [] => false | _ => forallb is_digit l end.

Definition minus : byte := "-"%byte.

(* text of an int: decimal digits, a leading - for negatives *)
Definition int_text (z : Z) : list byte := if z <? 0 then minus :: dec (- z) else dec z.

(* value of a numeric token: an int when it has int syntax, else the float token itself *)
Definition num_val (t : list byte) : pv :=
  match t with
  | c :: ds => if byte_eqb c minus && all_digits ds then PInt (- fst (read_digits 0 ds))
               else if all_digits t then PInt (fst (read_digits 0 t)) else PFloat t
  | [] => PFloat t
  end.

Definition name_val (n : list byte) : option pv :=
  if bytes_eqb n (B "None") then Some PNone
  else if bytes_eqb n (B "True") then Some (PBool true)
  else if bytes_eqb n (B "False") then Some (PBool false)
  else None.

(* ------------------------------------------------------------------ tokens -> value *)
Definition tok_is (close c : tok) : bool :=
  match close, c with TRB, TRB | TRP, TRP | TRC, TRC => true | _, _ => false end.

(* implicit concatenation of adjacent literals *)
Fixpoint absorb_str (s : list byte) (ts : list tok) : list byte * list tok :=
  match ts with TStr s2 :: r => absorb_str (s ++ s2) r | _ => (s, ts) end.
Fixpoint absorb_bytes (s : list byte) (ts : list tok) : list byte * list tok :=
  match ts with TBytes s2 :: r => absorb_bytes (s ++ s2) r | _ => (s, ts) end.

Fixpoint parse_val (fuel : nat) (ts : list tok) {struct fuel} : option (pv * list tok) :=
  match fuel with
  | O => None
  | S f =>
      match ts with
      | TNum t :: r => Some (num_val t, r)
      | TName n :: r => match name_val n with Some v => Some (v, r) | None => None end
      | TStr s :: r => let '(s', r') := absorb_str s r in Some (PStr s', r')
      | TBytes s :: r => let '(s', r') := absorb_bytes s r in Some (PBytes s', r')
      | TLB :: r => match parse_seq f r TRB with Some (l, _, r') => Some (PList l, r') | None => None end
      | TLP :: r => match parse_seq f r TRP with
                    | Some ([v], false, r') => Some (v, r')
                    | Some (l, _, r') => Some (PTuple l, r')
                    | None => None
                    end
      | TLC :: r => match parse_dict f r with Some (l, r') => Some (PDict l, r') | None => None end
      | _ => None
      end
  end
with parse_seq (fuel : nat) (ts : list tok) (close : tok) {struct fuel} : option (list pv * bool * list tok) :=
  match fuel with
  | O => None
  | S f =>
      match ts with
      | [] => None
      | c :: r =>
          if tok_is close c then Some ([], false, r)
          else match parse_val f ts with
               | Some (v, TComma :: r2) =>
                   match parse_seq f r2 close with Some (l, _, r3) => Some (v :: l, true, r3) | None => None end
               | Some (v, c2 :: r2) => if tok_is close c2 then Some ([v], false, r2) else None
               | _ => None
               end
      end
  end
with parse_dict (fuel : nat) (ts : list tok) {struct fuel} : option (list (list byte * pv) * list tok) :=
  match fuel with
  | O => None
  | S f =>
      match ts with
      | TRC :: r => Some ([], r)
      | TStr k :: r0 =>
          let '(k', r0') := absorb_str k r0 in
          match r0' with
          | TColon :: r =>
              match parse_val f r with
              | Some (v, TComma :: r2) =>
                  match parse_dict f r2 with Some (l, r3) => Some ((k', v) :: l, r3) | None => None end
              | Some (v, TRC :: r2) => Some ([(k', v)], r2)
              | _ => None
              end
          | _ => None
          end
      | _ => None
      end
  end.

Definition parse_toks (ts : list tok) : option pv :=
  match parse_val (S (length ts)) ts with Some (v, []) => Some v | _ => None end.

(* ------------------------------------------------------------------ value -> tokens *)
Fixpoint print_toks (v : pv) : list tok :=
  match v with
  | PInt z => [TNum (int_text z)]
  | PFloat t => [TNum t]
  | PNone => [TName (B "None")]
  | PBool true => [TName (B "True")]
  | PBool false => [TName (B "False")]
  | PStr s => [TStr s]
  | PBytes s => [TBytes s]
  | PList l => TLB :: (fix ps (l : list pv) : list tok :=
                         match l with [] => [TRB] | v :: t => print_toks v ++ TComma :: ps t end) l
  | PTuple l => TLP :: (fix ps (l : list pv) : list tok :=
                          match l with [] => [TRP] | v :: t => print_toks v ++ TComma :: ps t end) l
  | PDict l => TLC :: (fix pd (l : list (list byte * pv)) : list tok :=
                         match l with [] => [TRC] | (k, v) :: t => TStr k :: TColon :: print_toks v ++ TComma :: pd t end) l
  end.

Fixpoint print_seq (l : list pv) (close : tok) : list tok :=
  match l with [] => [close] | v :: t => print_toks v ++ TComma :: print_seq t close end.
Fixpoint print_items (l : list (list byte * pv)) : list tok :=
  match l with [] => [TRC] | (k, v) :: t => TStr k :: TColon :: print_toks v ++ TComma :: print_items t end.

(* ------------------------------------------------------------------ literals: escapes *)
Definition bslash : byte := x5c.
Definition q1 : byte := x27.      (* single quote *)
Definition q2 : byte := x22.      (* double quote *)
Definition hexd (n : Z) : byte := if n <? 10 then Zb (48 + n) else Zb (87 + n).
Definition hexv (b : byte) : option Z :=
  let z := bZ b in
  if (48 <=? z) && (z <=? 57) then Some (z - 48)
  else if (97 <=? z) && (z <=? 102) then Some (z - 87)
  else if (65 <=? z) && (z <=? 70) then Some (z - 55) else None.

(* bm = true: bytes literal (every byte >= 0x80 is escaped); false: str literal (text as UTF-8) *)
Definition esc_byte (bm : bool) (b : byte) : list byte :=
  let z := bZ b in
  if byte_eqb b bslash then [bslash; bslash]
  else if byte_eqb b q1 then [bslash; q1]
  else if byte_eqb b nl then [bslash; "n"%byte]
  else if (z <? 32) || (z =? 127) || (bm && (128 <=? z)) then [bslash; "x"%byte; hexd (z / 16); hexd (z mod 16)]
  else [b].
Definition esc (bm : bool) (s : list byte) : list byte := flat_map (esc_byte bm) s.

(* UTF-8 encoding of a code point *)
Definition utf8 (c : Z) : list byte :=
  if c <? 128 then [Zb c]
  else if c <? 2048 then [Zb (192 + c / 64); Zb (128 + c mod 64)]
  else if c <? 65536 then [Zb (224 + c / 4096); Zb (128 + (c / 64) mod 64); Zb (128 + c mod 64)]
  else [Zb (240 + c / 262144); Zb (128 + (c / 4096) mod 64); Zb (128 + (c / 64) mod 64); Zb (128 + c mod 64)].
Definition code (bm : bool) (c : Z) : list byte := if bm then [Zb c] else utf8 c.

Definition simple_esc (e : byte) : option byte :=
  if byte_eqb e "n"%byte then Some nl
  else if byte_eqb e "t"%byte then Some x09
  else if byte_eqb e "r"%byte then Some x0d
  else if byte_eqb e bslash then Some bslash
  else if byte_eqb e q1 then Some q1
  else if byte_eqb e q2 then Some q2
  else None.

Definition pre {A} (p : list A) (o : option (list A * list A)) : option (list A * list A) :=
  match o with Some (s, r) => Some (p ++ s, r) | None => None end.

Definition hex2 (a b : byte) : option Z :=
  match hexv a, hexv b with Some x, Some y => Some (16 * x + y) | _, _ => None end.

(* the literal after its opening quote [q]: (contents, text after the closing quote) *)
Fixpoint read_lit (bm : bool) (q : byte) (l : list byte) : option (list byte * list byte) :=
  match l with
  | [] => None
  | c :: r =>
      if byte_eqb c q then Some ([], r)
      else if byte_eqb c bslash then
        match r with
        | [] => None
        | e :: r2 =>
            if byte_eqb e "x"%byte then
              match r2 with
              | h1 :: h2 :: r3 => match hex2 h1 h2 with Some v => pre (code bm v) (read_lit bm q r3) | None => None end
              | _ => None
              end
            else if byte_eqb e "u"%byte && negb bm then
              match r2 with
              | h1 :: h2 :: h3 :: h4 :: r3 =>
                  match hex2 h1 h2, hex2 h3 h4 with
                  | Some a, Some b => pre (utf8 (256 * a + b)) (read_lit bm q r3)
                  | _, _ => None
                  end
              | _ => None
              end
            else if byte_eqb e "U"%byte && negb bm then
              match r2 with
              | h1 :: h2 :: h3 :: h4 :: h5 :: h6 :: h7 :: h8 :: r3 =>
                  match hex2 h1 h2, hex2 h3 h4, hex2 h5 h6, hex2 h7 h8 with
                  | Some a, Some b, Some c', Some d => pre (utf8 (16777216 * a + 65536 * b + 256 * c' + d)) (read_lit bm q r3)
                  | _, _, _, _ => None
                  end
              | _ => None
              end
            else match simple_esc e with Some b => pre [b] (read_lit bm q r2) | None => None end
        end
      else pre [c] (read_lit bm q r)
  end.

(* ------------------------------------------------------------------ tokens <-> text *)
Definition is_blank (c : byte) : bool := byte_eqb c sp || byte_eqb c nl || byte_eqb c x09 || byte_eqb c x0d.
Definition punct (c : byte) : option tok :=
  if byte_eqb c "["%byte then Some TLB else if byte_eqb c "]"%byte then Some TRB
  else if byte_eqb c "("%byte then Some TLP else if byte_eqb c ")"%byte then Some TRP
  else if byte_eqb c "{"%byte then Some TLC else if byte_eqb c "}"%byte then Some TRC
  else if byte_eqb c ","%byte then Some TComma else if byte_eqb c ":"%byte then Some TColon
  else None.
Definition is_quote (c : byte) : bool := byte_eqb c q1 || byte_eqb c q2.
Definition num_start (c : byte) : bool :=
  is_digit c || byte_eqb c minus || byte_eqb c "+"%byte || byte_eqb c "."%byte.
Definition num_char (c : byte) : bool :=
  num_start c || byte_eqb c "e"%byte || byte_eqb c "E"%byte.
Definition name_start (c : byte) : bool :=
  let z := bZ c in ((65 <=? z) && (z <=? 90)) || ((97 <=? z) && (z <=? 122)) || (z =? 95).
Definition name_char (c : byte) : bool := name_start c || is_digit c.

Fixpoint span (p : byte -> bool) (l : list byte) : list byte * list byte :=
  match l with
  | c :: r => if p c then let '(a, b) := span p r in (c :: a, b) else ([], l)
  | [] => ([], [])
  end.

Definition consT (t : tok) (o : option (list tok)) : option (list tok) :=
  match o with Some l => Some (t :: l) | None => None end.

Fixpoint lex (fuel : nat) (l : list byte) {struct fuel} : option (list tok) :=
  match fuel with
  | O => None
  | S f =>
      match l with
      | [] => Some []
      | c :: r =>
          if is_blank c then lex f r
          else match punct c with
               | Some t => consT t (lex f r)
               | None =>
                   if is_quote c then
                     match read_lit false c r with Some (s, r') => consT (TStr s) (lex f r') | None => None end
                   else if byte_eqb c "b"%byte && match r with q :: _ => is_quote q | [] => false end then
                     match r with
                     | q :: r1 => match read_lit true q r1 with Some (s, r') => consT (TBytes s) (lex f r') | None => None end
                     | [] => None
                     end
                   else if num_start c then let '(t, r') := span num_char l in consT (TNum t) (lex f r')
                   else if name_start c then let '(t, r') := span name_char l in consT (TName t) (lex f r')
                   else None
               end
      end
  end.

Definition tok_text (t : tok) : list byte :=
  match t with
  | TLB => B "[" | TRB => B "]" | TLP => B "(" | TRP => B ")" | TLC => B "{" | TRC => B "}"
  | TComma => B "," | TColon => B ":"
  | TStr s => q1 :: esc false s ++ [q1]
  | TBytes s => "b"%byte :: q1 :: esc true s ++ [q1]
  | TNum t => t
  | TName n => n
  end.
Definition unlex (ts : list tok) : list byte := flat_map (fun t => tok_text t ++ [sp]) ts.

(* ------------------------------------------------------------------ the two directions *)
Definition pv_print (v : pv) : list byte := unlex (print_toks v).
Definition pv_parse (l : list byte) : option pv :=
  match lex (S (length l)) l with Some ts => parse_toks ts | None => None end.

(* ------------------------------------------------------------------ well-formed values *)
(* a float token: what repr(float) of a finite float looks like as far as the lexer is concerned *)
Definition float_tok (t : list byte) : bool :=
  match t with
  | c :: _ => num_start c && forallb num_char t
              && negb (all_digits t) && negb (byte_eqb c minus && all_digits (tl t))
  | [] => false
  end.
Definition no_ff (s : list byte) : bool := forallb (fun b => negb (byte_eqb b xff)) s.

Fixpoint wf (v : pv) : bool :=
  match v with
  | PFloat t => float_tok t
  | PStr s => no_ff s
  | PList l | PTuple l => (fix wl (l : list pv) : bool := match l with [] => true | v :: t => wf v && wl t end) l
  | PDict l => (fix wd (l : list (list byte * pv)) : bool :=
                  match l with [] => true | (k, v) :: t => no_ff k && wf v && wd t end) l
  | _ => true
  end.
Definition wf_items (l : list (list byte * pv)) : bool := forallb (fun kv => no_ff (fst kv) && wf (snd kv)) l.

(* C01/PyLib.v — Python list operations used by the translated definitions of Gen.v.  NO proofs. *)
From Coq Require Import ZArith List.
Import ListNotations.
Open Scope Z_scope.

(* l[a:b] for a constant a >= 0; b may be negative (counted from the end) or beyond the end *)
Definition pyslice {A} (l : list A) (a b : Z) : list A :=
  let n := Z.of_nat (length l) in
  let b' := if b <? 0 then Z.max 0 (b + n) else Z.min b n in
  let a' := Z.min a n in
  if a' <? b' then firstn (Z.to_nat (b' - a')) (skipn (Z.to_nat a') l) else [].

(* C01/Entry.v — the entry points named by the property, as the code composes them.  NO proofs.

   esutil/sfile.py  write (835-937): `if isinstance(outfile, ndarray): outfile, data = data, outfile`;
                    mode "w" unless append; `with SFile(outfile, mode, delim=None, ...) as sf:
                    sf.write(data, header=header)`; header defaults to None, which _make_header
                    treats as {}.
                    read (939-981): `with SFile(filename) as sf: data = sf.read(keys...)`.
   esutil/io.py     write_rec (582-583): sfile.write(data, fileobj, keys...) — the swapped argument
                    order, undone by the isinstance test above;  read_rec (586-632): without dtype=
                    it is sfile.read(fileobj, header=..., rows=None, fields=None, columns=None).
   esutil/recfile/Util.py  write (15-24): `with Recfile(filename, mode="w") as robj: robj.write(data)`;
                    read (27-36): `with Recfile(filename, dtype=dtype, mode="r", keys...) as robj:
                    robj.read(keys...)`. *)
From Coq Require Import ZArith List Bool NArith.
From Coq.Strings Require Import Byte String.
From EsVerif.Common Require Import Base Bytes.
From EsVerif.C01 Require Import Framing Model Layout.
Import ListNotations.
Open Scope Z_scope.
Open Scope list_scope.

Section EntryPoints.
  Variable pyval : Type.
  Variable v_str : list byte -> pyval.
  Variable v_int : Z -> pyval.
  Variable v_descr : dtype -> pyval.
  Variable np_dtype : pyval -> option dtype.
  Variable pformat : hdict pyval -> list byte.
  Variable pyeval : list byte -> option (hdict pyval).

  (* header=None is the empty dict *)
  Definition hdr_arg (h : option (hdict pyval)) : hdict pyval := match h with Some h => h | None => [] end.

  (* SFile(f, "w").write(data, header=h) *)
  Definition SFile_write (h : option (hdict pyval)) (dt : dtype) (v : ndview) : file :=
    sfile_write_view pyval v_str v_descr pformat (hdr_arg h) dt v.
  (* sfile.write(f, data, header=h) and sfile.write(data, f, header=h) *)
  Definition sfile_write_fn (swapped : bool) (h : option (hdict pyval)) (dt : dtype) (v : ndview) : file :=
    SFile_write h dt v.
  (* io.write(f, data, header=h) for *.rec *)
  Definition io_write (h : option (hdict pyval)) (dt : dtype) (v : ndview) : file :=
    sfile_write_fn true h dt v.

  (* SFile(f).read(header=True), SFile(f)[:] + get_header() *)
  Definition SFile_read (f : file) := sfile_read pyval v_str v_int np_dtype pyeval f.
  (* sfile.read(f, header=True) *)
  Definition sfile_read_fn (f : file) := SFile_read f.
  (* io.read(f, header=True) for *.rec *)
  Definition io_read (f : file) := sfile_read_fn f.
End EntryPoints.

(* Recfile(f, "w").write(data) and recfile.write(f, data) *)
Definition Recfile_write (v : ndview) : file := recfile_write_view v.
Definition recfile_write_fn (v : ndview) : file := Recfile_write v.
(* Recfile(f, dtype=dt[, nrows=n]).read() / [:] and recfile.read(f, dt[, nrows=n]) *)
Definition Recfile_read (f : file) (dt : dtype) (nrows : option Z) := recfile_read0 f dt nrows.
Definition recfile_read_fn (f : file) (dt : dtype) (nrows : option Z) := Recfile_read f dt nrows.

(* C01/PyvalProofs.v — parse (print v) = v for the header-value model, and what the printed text
   looks like (one line, no NUL / 0xFF byte). *)
From Coq Require Import ZArith List Bool NArith Lia ZifyBool ZifyNat.
From Coq.Strings Require Import Byte String.
From EsVerif.Common Require Import Base Bytes.
From EsVerif.C01 Require Import Framing FramingProofs Pyval.
Import ListNotations.
Open Scope Z_scope.
Open Scope list_scope.
Notation length := List.length.

(* ------------------------------------------------------------------ unfolding, induction *)
Lemma print_list l : print_toks (PList l) = TLB :: print_seq l TRB.
Proof. cbn [print_toks]. apply f_equal. induction l as [|v t IH]; [reflexivity|]. cbn [print_seq]. rewrite <- IH. reflexivity. Qed.
Lemma print_tuple l : print_toks (PTuple l) = TLP :: print_seq l TRP.
Proof. cbn [print_toks]. apply f_equal. induction l as [|v t IH]; [reflexivity|]. cbn [print_seq]. rewrite <- IH. reflexivity. Qed.
Lemma print_dict l : print_toks (PDict l) = TLC :: print_items l.
Proof. cbn [print_toks]. apply f_equal. induction l as [|[k v] t IH]; [reflexivity|]. cbn [print_items]. rewrite <- IH. reflexivity. Qed.

Lemma wf_list l : wf (PList l) = forallb wf l.
Proof. cbn [wf]. induction l as [|v t IH]; [reflexivity|]. cbn [forallb]. rewrite <- IH. reflexivity. Qed.
Lemma wf_tuple l : wf (PTuple l) = forallb wf l.
Proof. cbn [wf]. induction l as [|v t IH]; [reflexivity|]. cbn [forallb]. rewrite <- IH. reflexivity. Qed.
Lemma wf_dict l : wf (PDict l) = wf_items l.
Proof.
  cbn [wf]. unfold wf_items. induction l as [|[k v] t IH]; [reflexivity|]. cbn [forallb fst snd]. rewrite <- IH. reflexivity.
Qed.

Section PvInd.
  Variable P : pv -> Prop.
  Hypothesis Hint : forall z, P (PInt z).
  Hypothesis Hfloat : forall t, P (PFloat t).
  Hypothesis Hnone : P PNone.
  Hypothesis Hbool : forall b, P (PBool b).
  Hypothesis Hstr : forall s, P (PStr s).
  Hypothesis Hbytes : forall s, P (PBytes s).
  Hypothesis Hlist : forall l, Forall P l -> P (PList l).
  Hypothesis Htuple : forall l, Forall P l -> P (PTuple l).
  Hypothesis Hdict : forall l, Forall (fun kv => P (snd kv)) l -> P (PDict l).
  Fixpoint pv_induct (v : pv) : P v :=
    match v with
    | PInt z => Hint z | PFloat t => Hfloat t | PNone => Hnone | PBool b => Hbool b
    | PStr s => Hstr s | PBytes s => Hbytes s
    | PList l => Hlist l ((fix go (l : list pv) : Forall P l :=
                             match l with [] => Forall_nil P | v :: t => Forall_cons v (pv_induct v) (go t) end) l)
    | PTuple l => Htuple l ((fix go (l : list pv) : Forall P l :=
                               match l with [] => Forall_nil P | v :: t => Forall_cons v (pv_induct v) (go t) end) l)
    | PDict l => Hdict l ((fix go (l : list (list byte * pv)) : Forall (fun kv => P (snd kv)) l :=
                             match l with
                             | [] => Forall_nil _
                             | kv :: t => Forall_cons kv (pv_induct (snd kv)) (go t)
                             end) l)
    end.
End PvInd.

(* ------------------------------------------------------------------ fuel *)
Fixpoint need (v : pv) : nat :=
  match v with
  | PList l | PTuple l => S ((fix ns (l : list pv) : nat := match l with [] => 1%nat | v :: t => S (Nat.max (need v) (ns t)) end) l)
  | PDict l => S ((fix nd (l : list (list byte * pv)) : nat :=
                     match l with [] => 1%nat | (k, v) :: t => S (Nat.max (need v) (nd t)) end) l)
  | _ => 1%nat
  end.
Fixpoint need_seq (l : list pv) : nat := match l with [] => 1%nat | v :: t => S (Nat.max (need v) (need_seq t)) end.
Fixpoint need_items (l : list (list byte * pv)) : nat :=
  match l with [] => 1%nat | (k, v) :: t => S (Nat.max (need v) (need_items t)) end.
Lemma need_list l : need (PList l) = S (need_seq l).
Proof. cbn [need]. apply f_equal. induction l as [|v t IH]; [reflexivity|]. cbn [need_seq]. rewrite <- IH. reflexivity. Qed.
Lemma need_tuple l : need (PTuple l) = S (need_seq l).
Proof. cbn [need]. apply f_equal. induction l as [|v t IH]; [reflexivity|]. cbn [need_seq]. rewrite <- IH. reflexivity. Qed.
Lemma need_dict l : need (PDict l) = S (need_items l).
Proof. cbn [need]. apply f_equal. induction l as [|[k v] t IH]; [reflexivity|]. cbn [need_items]. rewrite <- IH. reflexivity. Qed.

Lemma need_le_print v : (need v <= length (print_toks v))%nat.
Proof.
  induction v as [z|t| |b|s|s|l IH|l IH|l IH] using pv_induct; try (cbn; lia); try (destruct b; cbn; lia).
  - rewrite need_list, print_list. cbn [length]. apply le_n_S.
    induction IH as [|v t Hv _ IHt]; [cbn; lia|]. cbn [need_seq print_seq]. rewrite app_length. cbn [length]. lia.
  - rewrite need_tuple, print_tuple. cbn [length]. apply le_n_S.
    induction IH as [|v t Hv _ IHt]; [cbn; lia|]. cbn [need_seq print_seq]. rewrite app_length. cbn [length]. lia.
  - rewrite need_dict, print_dict. cbn [length]. apply le_n_S.
    induction IH as [|[k v] t Hv _ IHt]; [cbn; lia|]. cbn [need_items print_items snd] in *. cbn [length]. rewrite app_length. cbn [length]. lia.
Qed.

(* ------------------------------------------------------------------ numbers *)
Lemma read_digits_dec n : 0 <= n -> read_digits 0 (dec n) = (n, []).
Proof. intro H. destruct (dec_spec n H) as [_ [F V]]. rewrite read_digits_all by exact F. rewrite V. reflexivity. Qed.

Lemma all_digits_dec n : 0 <= n -> all_digits (dec n) = true.
Proof.
  intro H. destruct (dec_spec n H) as [N [F _]]. unfold all_digits. destruct (dec n) as [|b t]; [contradiction|].
  apply forallb_forall. intros x I. rewrite Forall_forall in F. exact (F x I).
Qed.

Lemma dec_head_not_minus n : 0 <= n -> forall c t, dec n = c :: t -> byte_eqb c minus = false.
Proof.
  intros H c t E. destruct (dec_spec n H) as [_ [F _]]. rewrite E in F. inversion F as [|x y Dx _]; subst.
  destruct (byte_eqb c minus) eqn:X; [|reflexivity]. apply byte_eqb_eq in X. subst c. discriminate Dx.
Qed.

Lemma num_val_int z : num_val (int_text z) = PInt z.
Proof.
  unfold int_text. destruct (z <? 0) eqn:E.
  - unfold num_val. rewrite byte_eqb_refl, all_digits_dec by lia. cbn [andb].
    rewrite read_digits_dec by lia. cbn [fst]. f_equal. lia.
  - assert (H : 0 <= z) by lia. unfold num_val. destruct (dec z) as [|c t] eqn:D.
    + destruct (dec_spec z H) as [N _]. contradiction.
    + rewrite (dec_head_not_minus z H c t D). cbn [andb]. rewrite <- D, all_digits_dec by exact H.
      rewrite read_digits_dec by exact H. reflexivity.
Qed.

Lemma num_val_float t : float_tok t = true -> num_val t = PFloat t.
Proof.
  unfold float_tok, num_val. destruct t as [|c r]; [discriminate|]. intro H.
  repeat (let X := fresh "X" in apply andb_true_iff in H as [H X]).
  cbn [tl] in X. apply negb_true_iff in X. apply negb_true_iff in X0. rewrite X, X0. reflexivity.
Qed.

(* ------------------------------------------------------------------ tokens: parse (print v) = v *)
Definition follow_ok (ts : list tok) : Prop :=
  match ts with TStr _ :: _ | TBytes _ :: _ => False | _ => True end.

Lemma absorb_str_stop s ts : follow_ok ts -> absorb_str s ts = (s, ts).
Proof. destruct ts as [|[] r]; cbn; intro H; try reflexivity; contradiction. Qed.
Lemma absorb_bytes_stop s ts : follow_ok ts -> absorb_bytes s ts = (s, ts).
Proof. destruct ts as [|[] r]; cbn; intro H; try reflexivity; contradiction. Qed.

Lemma print_head v : exists t r, print_toks v = t :: r /\ tok_is TRB t = false /\ tok_is TRP t = false /\ tok_is TRC t = false.
Proof.
  destruct v as [z|t| |b|s|s|l|l|l].
  1-3, 5-6: eexists; eexists; split; [reflexivity | repeat split].
  - destruct b; eexists; eexists; (split; [reflexivity | repeat split]).
  - rewrite print_list. eexists; eexists; split; [reflexivity | repeat split].
  - rewrite print_tuple. eexists; eexists; split; [reflexivity | repeat split].
  - rewrite print_dict. eexists; eexists; split; [reflexivity | repeat split].
Qed.

Definition Pval (v : pv) : Prop :=
  wf v = true -> forall fuel rest, (need v <= fuel)%nat -> follow_ok rest ->
  parse_val fuel (print_toks v ++ rest) = Some (v, rest).

Lemma parse_seq_print close : (close = TRB \/ close = TRP) ->
  forall l, Forall Pval l -> forallb wf l = true -> forall fuel rest, (need_seq l <= fuel)%nat ->
  parse_seq fuel (print_seq l close ++ rest) close = Some (l, negb (match l with [] => true | _ => false end), rest).
Proof.
  intros C l F. induction F as [|v t Hv _ IH]; intros W fuel rest N.
  - destruct fuel as [|f]; [cbn in N; lia|]. cbn [print_seq app parse_seq].
    destruct C as [-> | ->]; reflexivity.
  - cbn [forallb] in W. apply andb_true_iff in W as [Wv Wt]. cbn [need_seq] in N.
    destruct fuel as [|f]; [lia|]. cbn [print_seq]. rewrite <- app_assoc. cbn [app].
    destruct (print_head v) as [t0 [r0 [E [H1 [H2 _]]]]].
    remember (print_toks v ++ TComma :: print_seq t close ++ rest) as ts eqn:Ets.
    assert (Hts : ts = t0 :: (r0 ++ TComma :: print_seq t close ++ rest)) by (rewrite Ets, E; reflexivity).
    rewrite Hts. cbn [parse_seq].
    replace (tok_is close t0) with false by (destruct C as [-> | ->]; auto).
    rewrite <- Hts, Ets. rewrite (Hv Wv f (TComma :: print_seq t close ++ rest)) by (try lia; exact I).
    rewrite (IH Wt f rest) by lia. reflexivity.
Qed.

Lemma parse_dict_print : forall l, Forall (fun kv => Pval (snd kv)) l -> wf_items l = true ->
  forall fuel rest, (need_items l <= fuel)%nat ->
  parse_dict fuel (print_items l ++ rest) = Some (l, rest).
Proof.
  intros l F. induction F as [|[k v] t Hv _ IH]; intros W fuel rest N.
  - destruct fuel as [|f]; [cbn in N; lia|]. reflexivity.
  - unfold wf_items in W. cbn [forallb fst snd] in W. apply andb_true_iff in W as [Wkv Wt].
    apply andb_true_iff in Wkv as [_ Wv]. cbn [need_items] in N. cbn [snd] in Hv.
    destruct fuel as [|f]; [lia|]. cbn [print_items app parse_dict]. cbn [absorb_str].
    rewrite <- app_assoc. cbn [app].
    rewrite (Hv Wv f (TComma :: print_items t ++ rest)) by (try lia; exact I).
    rewrite (IH Wt f rest) by lia. reflexivity.
Qed.

Lemma parse_val_print v : Pval v.
Proof.
  induction v as [z|t| |b|s|s|l IH|l IH|l IH] using pv_induct; unfold Pval; intros W fuel rest N Fo;
    (destruct fuel as [|f]; [cbn in N; try lia; destruct b; cbn in N; lia|]).
  - cbn [print_toks app parse_val]. rewrite num_val_int. reflexivity.
  - cbn [print_toks app parse_val]. cbn [wf] in W. rewrite num_val_float by exact W. reflexivity.
  - reflexivity.
  - destruct b; reflexivity.
  - cbn [print_toks app parse_val]. rewrite absorb_str_stop by exact Fo. reflexivity.
  - cbn [print_toks app parse_val]. rewrite absorb_bytes_stop by exact Fo. reflexivity.
  - rewrite print_list. rewrite need_list in N. rewrite wf_list in W. cbn [app parse_val].
    rewrite (parse_seq_print TRB (or_introl eq_refl) l IH W f rest) by lia. reflexivity.
  - rewrite print_tuple. rewrite need_tuple in N. rewrite wf_tuple in W. cbn [app parse_val].
    rewrite (parse_seq_print TRP (or_intror eq_refl) l IH W f rest) by lia.
    destruct l as [|v [|v2 t]]; reflexivity.
  - rewrite print_dict. rewrite need_dict in N. rewrite wf_dict in W. cbn [app parse_val].
    rewrite (parse_dict_print l IH W f rest) by lia. reflexivity.
Qed.

Theorem parse_toks_print v : wf v = true -> parse_toks (print_toks v) = Some v.
Proof.
  intro W. unfold parse_toks.
  rewrite <- (app_nil_r (print_toks v)) at 2.
  rewrite (parse_val_print v W (S (length (print_toks v))) []); [reflexivity | | exact I].
  pose proof (need_le_print v). lia.
Qed.

(* ------------------------------------------------------------------ literals *)
Lemma read_lit_esc_byte bm b tail :
  read_lit bm q1 (esc_byte bm b ++ tail) = pre [b] (read_lit bm q1 tail).
Proof. destruct bm, b; reflexivity. Qed.

Lemma read_lit_esc bm s rest : read_lit bm q1 (esc bm s ++ q1 :: rest) = Some (s, rest).
Proof.
  induction s as [|b t IH]; [reflexivity|].
  unfold esc in *. cbn [flat_map]. rewrite <- app_assoc, read_lit_esc_byte, IH. reflexivity.
Qed.

(* ------------------------------------------------------------------ which tokens the printer emits *)
Definition num_tok (t : list byte) : bool :=
  match t with c :: _ => num_start c && forallb num_char t | [] => false end.
Definition tok_ok (t : tok) : Prop :=
  match t with
  | TNum t => num_tok t = true
  | TName n => n = B "None" \/ n = B "True" \/ n = B "False"
  | TStr s => no_ff s = true
  | _ => True
  end.

Lemma digit_num_char c : is_digit c = true -> num_char c = true.
Proof. intro H. unfold num_char, num_start. rewrite H. reflexivity. Qed.

Lemma num_tok_digits l : all_digits l = true -> num_tok l = true.
Proof.
  unfold all_digits, num_tok. destruct l as [|c r]; [discriminate|]. intro H.
  assert (F : forall x, In x (c :: r) -> is_digit x = true) by (apply forallb_forall; exact H).
  apply andb_true_iff. split.
  - unfold num_start. rewrite (F c (or_introl eq_refl)). reflexivity.
  - apply forallb_forall. intros x I. apply digit_num_char. exact (F x I).
Qed.

Lemma num_tok_int z : num_tok (int_text z) = true.
Proof.
  unfold int_text. destruct (z <? 0) eqn:E.
  - assert (D := all_digits_dec (- z) ltac:(lia)). apply num_tok_digits in D.
    unfold num_tok in *. destruct (dec (- z)) as [|c r] eqn:X; [discriminate|].
    apply andb_true_iff in D as [_ D].
    change (num_start minus && (num_char minus && forallb num_char (c :: r)) = true). rewrite D. reflexivity.
  - apply num_tok_digits, all_digits_dec. lia.
Qed.

Lemma num_tok_float t : float_tok t = true -> num_tok t = true.
Proof.
  unfold float_tok, num_tok. destruct t as [|c r]; [discriminate|]. intro H.
  repeat (let X := fresh "X" in apply andb_true_iff in H as [H X]). rewrite H, X1. reflexivity.
Qed.

Lemma Forall_app_intro {A} (P : A -> Prop) l1 l2 : Forall P l1 -> Forall P l2 -> Forall P (l1 ++ l2).
Proof. intros H1 H2. apply Forall_app. split; assumption. Qed.

Lemma print_toks_ok v : wf v = true -> Forall tok_ok (print_toks v).
Proof.
  induction v as [z|t| |b|s|s|l IH|l IH|l IH] using pv_induct; intro W.
  - repeat constructor. apply num_tok_int.
  - repeat constructor. apply num_tok_float. exact W.
  - constructor; [cbn; auto | constructor].
  - destruct b; (constructor; [cbn; auto | constructor]).
  - constructor; [exact W | constructor].
  - constructor; [exact I | constructor].
  - rewrite print_list. rewrite wf_list in W. constructor; [exact I|].
    induction IH as [|v t Hv _ IHt]; [repeat constructor|].
    cbn [forallb] in W. apply andb_true_iff in W as [Wv Wt]. cbn [print_seq].
    apply Forall_app_intro; [auto|]. constructor; [exact I | auto].
  - rewrite print_tuple. rewrite wf_tuple in W. constructor; [exact I|].
    induction IH as [|v t Hv _ IHt]; [repeat constructor|].
    cbn [forallb] in W. apply andb_true_iff in W as [Wv Wt]. cbn [print_seq].
    apply Forall_app_intro; [auto|]. constructor; [exact I | auto].
  - rewrite print_dict. rewrite wf_dict in W. constructor; [exact I|].
    induction IH as [|[k v] t Hv _ IHt]; [repeat constructor|].
    unfold wf_items in W. cbn [forallb fst snd] in W. apply andb_true_iff in W as [Wkv Wt].
    apply andb_true_iff in Wkv as [Wk Wv]. cbn [print_items snd] in *.
    constructor; [exact Wk|]. constructor; [exact I|].
    apply Forall_app_intro; [auto|]. constructor; [exact I | auto].
Qed.

(* ------------------------------------------------------------------ lexer: lex (unlex ts) = ts *)
Lemma num_start_dispatch c : num_start c = true ->
  is_blank c = false /\ punct c = None /\ is_quote c = false /\ byte_eqb c "b"%byte = false.
Proof. intro H. destruct c; try (vm_compute in H; discriminate H); repeat split; reflexivity. Qed.

Lemma span_all p t c rest : forallb p t = true -> p c = false -> span p (t ++ c :: rest) = (t, c :: rest).
Proof.
  intros H Hc. induction t as [|x r IH]; cbn [app span].
  - rewrite Hc. reflexivity.
  - cbn [forallb] in H. apply andb_true_iff in H as [Hx Hr]. rewrite Hx, (IH Hr). reflexivity.
Qed.

Lemma lex_blank f rest : lex (S f) (sp :: rest) = lex f rest.
Proof. reflexivity. Qed.

Lemma lex_tok t f rest : tok_ok t ->
  lex (S (S f)) (tok_text t ++ sp :: rest) = consT t (lex f rest).
Proof.
  intro K. destruct t as [| | | | | | | |s|s|n|n]; try reflexivity.
  - (* TStr *) cbn [tok_text]. cbn [app]. rewrite <- app_assoc. cbn [app].
    change (lex (S (S f)) (q1 :: esc false s ++ q1 :: sp :: rest))
      with (match read_lit false q1 (esc false s ++ q1 :: sp :: rest) with
            | Some (s0, r') => consT (TStr s0) (lex (S f) r') | None => None end).
    rewrite read_lit_esc. reflexivity.
  - (* TBytes *) cbn [tok_text]. cbn [app]. rewrite <- app_assoc. cbn [app].
    change (lex (S (S f)) ("b"%byte :: q1 :: esc true s ++ q1 :: sp :: rest))
      with (match read_lit true q1 (esc true s ++ q1 :: sp :: rest) with
            | Some (s0, r') => consT (TBytes s0) (lex (S f) r') | None => None end).
    rewrite read_lit_esc. reflexivity.
  - (* TNum *) cbn [tok_text tok_ok] in *. unfold num_tok in K. destruct n as [|c r]; [discriminate|].
    apply andb_true_iff in K as [K1 K2]. destruct (num_start_dispatch c K1) as [D1 [D2 [D3 D4]]].
    cbn [app]. cbn [lex]. rewrite D1, D2, D3, D4, K1. cbn [andb].
    change (c :: r ++ sp :: rest) with ((c :: r) ++ sp :: rest).
    rewrite (span_all num_char (c :: r) sp rest K2 eq_refl). reflexivity.
  - (* TName *) cbn [tok_ok] in K. destruct K as [-> | [-> | ->]]; reflexivity.
Qed.

Lemma tok_text_nonempty t : tok_ok t -> (1 <= length (tok_text t))%nat.
Proof.
  destruct t as [| | | | | | | |s|s|n|n]; cbn; intro K; try lia.
  - unfold num_tok in K. destruct n; [discriminate | cbn; lia].
  - destruct K as [-> | [-> | ->]]; cbn; lia.
Qed.

Lemma unlex_cons t ts : unlex (t :: ts) = tok_text t ++ sp :: unlex ts.
Proof. unfold unlex. cbn [flat_map]. rewrite <- app_assoc. reflexivity. Qed.

Lemma lex_unlex ts : Forall tok_ok ts -> forall fuel, (length (unlex ts) < fuel)%nat -> lex fuel (unlex ts) = Some ts.
Proof.
  intro F. induction F as [|t r Ht _ IH]; intros fuel N.
  - destruct fuel; [lia | reflexivity].
  - rewrite unlex_cons in *. rewrite app_length in N. cbn [length] in N.
    pose proof (tok_text_nonempty t Ht).
    destruct fuel as [|[|f]]; try lia.
    rewrite lex_tok by exact Ht. rewrite IH by lia. reflexivity.
Qed.

(* ------------------------------------------------------------------ the round trip on text *)
Theorem pv_parse_print v : wf v = true -> pv_parse (pv_print v) = Some v.
Proof.
  intro W. unfold pv_parse, pv_print.
  rewrite lex_unlex by (try apply print_toks_ok; try exact W; lia).
  apply parse_toks_print. exact W.
Qed.

Corollary pv_print_inj a b : wf a = true -> wf b = true -> pv_print a = pv_print b -> a = b.
Proof.
  intros Wa Wb E. apply (f_equal pv_parse) in E. rewrite !pv_parse_print in E by assumption. congruence.
Qed.

(* ------------------------------------------------------------------ the printed text: one clean line *)
Definition okb (b : byte) : bool := clean_b b && negb (byte_eqb b nl).

Lemma esc_ok_str b : byte_eqb b xff = false -> forallb okb (esc_byte false b) = true.
Proof. intro H. destruct b; try (vm_compute in H; discriminate H); reflexivity. Qed.
Lemma esc_ok_bytes b : forallb okb (esc_byte true b) = true.
Proof. destruct b; reflexivity. Qed.
Lemma num_char_ok c : num_char c = true -> okb c = true.
Proof. intro H. destruct c; try (vm_compute in H; discriminate H); reflexivity. Qed.

Lemma forallb_flat_map {A B} (p : B -> bool) (f : A -> list B) l :
  (forall x, In x l -> forallb p (f x) = true) -> forallb p (flat_map f l) = true.
Proof.
  induction l as [|x t IH]; intro H; [reflexivity|].
  cbn [flat_map]. rewrite forallb_app, (H x (or_introl eq_refl)), IH; [reflexivity|].
  intros y I. apply H. right. exact I.
Qed.

Lemma tok_text_ok t : tok_ok t -> forallb okb (tok_text t ++ [sp]) = true.
Proof.
  destruct t as [| | | | | | | |s|s|n|n]; intro K; try reflexivity.
  - cbn [tok_text tok_ok] in *. cbn [app forallb]. rewrite <- app_assoc, forallb_app.
    replace (okb q1) with true by reflexivity. cbn [andb].
    unfold esc. rewrite forallb_flat_map; [reflexivity|].
    intros b I. apply esc_ok_str. unfold no_ff in K. rewrite forallb_forall in K.
    specialize (K b I). apply negb_true_iff in K. exact K.
  - cbn [tok_text]. cbn [app forallb]. rewrite <- app_assoc, forallb_app.
    replace (okb "b"%byte) with true by reflexivity. replace (okb q1) with true by reflexivity. cbn [andb].
    unfold esc. rewrite forallb_flat_map; [reflexivity|]. intros b _. apply esc_ok_bytes.
  - cbn [tok_text tok_ok] in *. rewrite forallb_app. unfold num_tok in K. destruct n as [|c r]; [discriminate|].
    apply andb_true_iff in K as [_ K]. apply andb_true_iff. split; [|reflexivity].
    apply forallb_forall. intros x I. apply num_char_ok. rewrite forallb_forall in K. exact (K x I).
  - cbn [tok_ok] in K. destruct K as [-> | [-> | ->]]; reflexivity.
Qed.

Lemma pv_print_ok v : wf v = true -> forallb okb (pv_print v) = true.
Proof.
  intro W. unfold pv_print, unlex. apply forallb_flat_map. intros t I.
  apply tok_text_ok. pose proof (print_toks_ok v W) as F. rewrite Forall_forall in F. exact (F t I).
Qed.

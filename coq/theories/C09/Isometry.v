(* C09 -- separations at the level of the returned positions: the great-circle angle is a metric on
   the unit sphere (triangle inequality), every tabulated conversion is within 1e-10 (chord) of an
   exact rotation, hence the angle between two returned positions differs from the angle between
   the two inputs by less than 1e-5 degree (in fact < 1e-9). *)
From Coq Require Import Reals Lra Lia Nsatz Psatz List.
From Interval Require Import Tactic.
From EsVerif.Common Require Import Base.
From EsVerif.C09 Require Import Gen Model Spec Geometry Proofs Rows.
Open Scope R_scope.

Lemma angle_sym u v : angle u v = angle v u.
Proof. unfold angle. rewrite dot_sym. reflexivity. Qed.

Lemma angle_bound u v : 0 <= angle u v <= PI.
Proof. apply acos_bound. Qed.

(* Cauchy-Schwarz for the parts of a and c orthogonal to b *)
Lemma proj_cs a b c : is_unit a -> is_unit b -> is_unit c ->
  (dot a c - dot a b * dot b c)² <= (1 - (dot a b)²) * (1 - (dot b c)²).
Proof.
  unfold is_unit, norm2. intros Ha Hb Hc.
  set (p := dot a b). set (q := dot b c).
  set (a' := vsub a (scale p b)). set (c' := vsub c (scale q b)).
  pose proof (cauchy_schwarz a' c') as CS.
  assert (forall (k m : R) (x y : vec), dot (vsub x (scale k b)) (vsub y (scale m b))
            = dot x y - m * dot x b - k * dot b y + k * m * dot b b) as G.
  { intros k m x y. destruct x as [[x1 x2] x3]; destruct y as [[y1 y2] y3]; destruct b as [[b1 b2] b3].
    unfold dot, vsub, scale, vx, vy, vz; simpl. ring. }
  assert (dot a' c' = dot a c - p * q) as E1.
  { unfold a', c'. rewrite G, Hb. fold p q. ring. }
  assert (norm2 a' = 1 - p²) as E2.
  { unfold a', norm2. rewrite G, Hb, Ha. rewrite (dot_sym b a). fold p. unfold Rsqr. ring. }
  assert (norm2 c' = 1 - q²) as E3.
  { unfold c', norm2. rewrite G, Hb, Hc. rewrite (dot_sym c b). fold q. unfold Rsqr. ring. }
  rewrite E1, E2, E3 in CS. exact CS.
Qed.

(* the great-circle angle satisfies the triangle inequality *)
Lemma angle_triangle a b c : is_unit a -> is_unit b -> is_unit c -> angle a c <= angle a b + angle b c.
Proof.
  intros Ha Hb Hc. unfold angle.
  pose proof (dot_unit_bound a b Ha Hb) as Bab. pose proof (dot_unit_bound b c Hb Hc) as Bbc.
  pose proof (dot_unit_bound a c Ha Hc) as Bac.
  set (al := acos (dot a b)). set (be := acos (dot b c)).
  pose proof (acos_bound (dot a b)) as Hal. pose proof (acos_bound (dot b c)) as Hbe.
  pose proof (acos_bound (dot a c)) as Hac. fold al in Hal. fold be in Hbe.
  destruct (Rle_dec PI (al + be)) as [Hbig|Hsmall]; [lra|].
  assert (al + be < PI) as Hs by lra. clear Hsmall.
  assert (cos (al + be) <= dot a c) as Hcos.
  { rewrite cos_plus. unfold al, be. rewrite !cos_acos by assumption. rewrite !sin_acos by assumption.
    pose proof (proj_cs a b c Ha Hb Hc) as P.
    set (p := dot a b) in *. set (q := dot b c) in *. set (x := dot a c) in *.
    assert (0 <= 1 - p²) as Ap by (unfold Rsqr; nra). assert (0 <= 1 - q²) as Aq by (unfold Rsqr; nra).
    rewrite <- sqrt_mult by assumption.
    assert (Rabs (x - p * q) <= sqrt ((1 - p²) * (1 - q²))) as Habs.
    { rewrite <- sqrt_Rsqr_abs. apply sqrt_le_1_alt. exact P. }
    apply Rabs_le_inv in Habs. lra. }
  destruct (Rle_dec (acos (dot a c)) (al + be)) as [|Hn]; [assumption|exfalso].
  assert (cos (acos (dot a c)) < cos (al + be)) as Hlt by (apply cos_decreasing_1; lra).
  rewrite cos_acos in Hlt by assumption. lra.
Qed.

(* moving both points by at most t changes their angle by at most 2t *)
Lemma angle_perturb U V U' V' t : is_unit U -> is_unit V -> is_unit U' -> is_unit V' ->
  angle U U' <= t -> angle V V' <= t -> Rabs (angle U V - angle U' V') <= 2 * t.
Proof.
  intros HU HV HU' HV' H1 H2.
  pose proof (angle_triangle U U' V HU HU' HV) as T1. pose proof (angle_triangle U' V' V HU' HV' HV) as T2.
  pose proof (angle_triangle U' U V' HU' HU HV') as T3. pose proof (angle_triangle U V V' HU HV HV') as T4.
  rewrite (angle_sym V' V) in T2. rewrite (angle_sym U' U) in T3.
  apply Rabs_le. lra.
Qed.

(* ------------------------------------------------------------------ the nearest exact rotation *)
Definition rho (r : row) : R := sqrt (r_st r * r_st r + r_ct r * r_ct r).
Definition row_hat (r : row) : row := (r_psi r, r_st r / rho r, r_ct r / rho r, r_phi r).

Section Hat.
Variable r : row.
Hypothesis Heps : Rabs (eps_of r) <= eps_max.

Lemma rho_sq : rho r * rho r = r_st r * r_st r + r_ct r * r_ct r.
Proof. unfold rho. apply sqrt_sqrt. nra. Qed.

Lemma rho_bounds : 0 < rho r /\ Rabs (rho r - 1) <= eps_max.
Proof.
  pose proof rho_sq as Hs. pose proof Heps as He. unfold eps_of, eps_max in *. apply Rabs_le_inv in He.
  assert (0 <= rho r) as H0 by (unfold rho; apply sqrt_pos).
  assert (0 < rho r) as Hp by nra.
  split; [exact Hp|]. apply Rabs_le. split; nra.
Qed.

Lemma row_hat_rotation : r_st (row_hat r) * r_st (row_hat r) + r_ct (row_hat r) * r_ct (row_hat r) = 1.
Proof.
  destruct rho_bounds as [Hp _]. pose proof rho_sq as Hs.
  unfold row_hat, r_st, r_ct; simpl fst; simpl snd. fold (r_st r) (r_ct r).
  replace (r_st r / rho r * (r_st r / rho r) + r_ct r / rho r * (r_ct r / rho r))
    with ((r_st r * r_st r + r_ct r * r_ct r) / (rho r * rho r)) by (field; lra).
  rewrite <- Hs. field. lra.
Qed.

(* the conversion is within chord eps_max of that rotation at every point of the sphere *)
Lemma hat_close u : is_unit u -> chord2 (euler_lin r u) (euler_lin (row_hat r) u) <= eps_max * eps_max.
Proof.
  intro Hu. destruct rho_bounds as [Hp Hb]. pose proof rho_sq as Hs.
  unfold euler_lin.
  change (r_psi (row_hat r)) with (r_psi r). change (r_phi (row_hat r)) with (r_phi r).
  change (r_st (row_hat r)) with (r_st r / rho r). change (r_ct (row_hat r)) with (r_ct r / rho r).
  rewrite chord2_Rz.
  set (w := Rz (- r_phi r) u). assert (is_unit w) as Hw by (apply is_unit_Rz; exact Hu).
  destruct w as [[x y] z]. unfold is_unit, norm2, dot, vx, vy, vz in Hw; simpl in Hw.
  unfold chord2, Rx_sc, vx, vy, vz, Rsqr; simpl fst; simpl snd.
  set (s := r_st r) in *. set (c := r_ct r) in *. set (p := rho r) in *.
  replace ((x - x) * (x - x) + (c * y + s * z - (c / p * y + s / p * z)) * (c * y + s * z - (c / p * y + s / p * z)) +
           (- s * y + c * z - (- (s / p) * y + c / p * z)) * (- s * y + c * z - (- (s / p) * y + c / p * z)))
    with ((1 - / p) * (1 - / p) * (s * s + c * c) * (y * y + z * z)) by (field; lra).
  rewrite <- Hs.
  replace ((1 - / p) * (1 - / p) * (p * p) * (y * y + z * z)) with ((p - 1) * (p - 1) * (y * y + z * z)) by (field; lra).
  apply Rabs_le_inv in Hb. assert (0 <= eps_max) as He by (unfold eps_max; lra).
  assert ((p - 1) * (p - 1) <= eps_max * eps_max) as H1 by nra.
  pose proof (Rle_0_sqr x) as Qx. pose proof (Rle_0_sqr y) as Qy. pose proof (Rle_0_sqr z) as Qz. unfold Rsqr in Qx, Qy, Qz.
  assert (0 <= y * y + z * z <= 1) as H2 by lra.
  pose proof (Rle_0_sqr (p - 1)) as H3. unfold Rsqr in H3.
  set (A := (p - 1) * (p - 1)) in *. set (B := y * y + z * z) in *. clearbody A B. nra.
Qed.
End Hat.

Lemma half_tol5_ok : 0 <= tol5 / 2 <= PI /\ 2 * (eps_max * eps_max) <= (chord_of (tol5 / 2))².
Proof.
  split.
  - unfold tol5, D2R. split; interval.
  - unfold eps_max, chord_of, tol5, D2R, Rsqr. interval.
Qed.

(* every conversion preserves the angular separation of any two points to 1e-5 degree, measured
   between the returned positions *)
Lemma rows_preserve_angles b s a1 d1 a2 d2 : valid_sel s ->
  let p := euler_R (euler_row b s) a1 d1 in
  let q := euler_R (euler_row b s) a2 d2 in
  Rabs (angle (unit_deg (fst p) (snd p)) (unit_deg (fst q) (snd q)) - angle (unit_deg a1 d1) (unit_deg a2 d2)) <= tol5.
Proof.
  intros Hs. pose proof (rows_orthonormal b s Hs) as He.
  pose proof (rows_nonzero b s a1 d1 Hs) as Hn1. pose proof (rows_nonzero b s a2 d2 Hs) as Hn2.
  set (r := euler_row b s) in *. intros p q.
  pose proof (euler_extract r a1 d1 Hn1) as Hp. fold p in Hp. unfold represents_deg in Hp.
  pose proof (euler_extract r a2 d2 Hn2) as Hq. fold q in Hq. unfold represents_deg in Hq.
  rewrite Hp, Hq. unfold euler_vec.
  set (u := unit_deg a1 d1). set (v := unit_deg a2 d2).
  assert (is_unit u) as Hu by apply unit_deg_unit. assert (is_unit v) as Hv by apply unit_deg_unit.
  pose proof (row_hat_rotation r He) as Hrot.
  set (F := euler_lin (row_hat r)).
  assert (forall w, is_unit w -> is_unit (F w)) as HF.
  { intros w Hw. unfold is_unit, norm2, F. rewrite (euler_isometry _ Hrot). exact Hw. }
  assert (angle (F u) (F v) = angle u v) as Hiso by (unfold angle, F; rewrite (euler_isometry _ Hrot); reflexivity).
  rewrite <- Hiso.
  destruct half_tol5_ok as [Ht Hc].
  assert (0 <= eps_max <= 1 / 2) as Hem by (unfold eps_max; lra).
  assert (forall w, is_unit w -> is_unit (normalize (euler_lin r w)) /\ angle (normalize (euler_lin r w)) (F w) <= tol5 / 2) as Hnear.
  { intros w Hw. pose proof (hat_close r He w Hw) as Hcl. fold F in Hcl.
    destruct (direction_close _ _ _ (HF w Hw) Hem Hcl) as [Hn Hd].
    pose proof (normalize_is_unit _ Hn) as Hnu. split; [exact Hnu|].
    apply (within_sky_angle (tol5 / 2) _ _ Hnu (HF w Hw) Ht). unfold within_sky. lra. }
  destruct (Hnear u Hu) as [HU1 HU2]. destruct (Hnear v Hv) as [HV1 HV2].
  replace tol5 with (2 * (tol5 / 2)) by field.
  apply angle_perturb; auto.
Qed.

(* ------------------------------------------------------------------ exact isometries: rotate, unit vectors, SDSS *)
Lemma rotate_preserves_angles phi theta psi ra1 dec1 ra2 dec2 :
  let p := rotate_R phi theta psi ra1 dec1 in
  let q := rotate_R phi theta psi ra2 dec2 in
  angle (unit_deg (fst p) (snd p)) (unit_deg (fst q) (snd q)) = angle (unit_deg ra1 dec1) (unit_deg ra2 dec2).
Proof. intros p q. unfold angle. unfold p, q. rewrite rotate_isometry. reflexivity. Qed.

Lemma xyz_preserves_angles deg stomp ra1 dec1 ra2 dec2 :
  angle (eq2xyz_R deg stomp ra1 dec1) (eq2xyz_R deg stomp ra2 dec2)
  = angle (unit_rad (ang_in deg ra1) (ang_in deg dec1)) (unit_rad (ang_in deg ra2) (ang_in deg dec2)).
Proof. unfold angle. rewrite !eq2xyz_unit, dot_Rz. reflexivity. Qed.

Lemma eq2sdss_ok_inv ra dec cl ce : eq2sdss_R ra dec = Ok (cl, ce) ->
  in_range ra eq2sdss_range1 = true /\ in_range dec eq2sdss_range2 = true.
Proof.
  unfold eq2sdss_R, eq2sdss_R_gen.
  destruct (in_range ra eq2sdss_range1); destruct (in_range dec eq2sdss_range2); simpl; intro H; try discriminate; auto.
Qed.

Lemma sdss_preserves_angles ra1 dec1 ra2 dec2 cl1 ce1 cl2 ce2 :
  eq2sdss_R ra1 dec1 = Ok (cl1, ce1) -> eq2sdss_R ra2 dec2 = Ok (cl2, ce2) ->
  angle (sdss_unit (cl1 * D2R) (ce1 * D2R)) (sdss_unit (cl2 * D2R) (ce2 * D2R))
  = angle (unit_deg ra1 dec1) (unit_deg ra2 dec2).
Proof.
  intros H1 H2.
  destruct (eq2sdss_ok_inv _ _ _ _ H1) as [A1 B1]. destruct (eq2sdss_ok_inv _ _ _ _ H2) as [A2 B2].
  destruct (eq2sdss_correct ra1 dec1 A1 B1) as [c1 [e1 [E1 [V1 _]]]].
  destruct (eq2sdss_correct ra2 dec2 A2 B2) as [c2 [e2 [E2 [V2 _]]]].
  rewrite H1 in E1. rewrite H2 in E2. injection E1 as -> ->. injection E2 as -> ->.
  unfold angle. rewrite V1, V2, dot_Rz. reflexivity.
Qed.

(* ------------------------------------------------------------------ bundles (one statement each in Properties.v) *)
Lemma rows_orthonormal_nonzero b s : valid_sel s ->
  Rabs (eps_of (euler_row b s)) <= eps_max /\ forall a d, 0 < norm2 (euler_xyz (euler_row b s) a d).
Proof. intro H. split; [apply rows_orthonormal; exact H | intros a d; apply rows_nonzero; exact H]. Qed.

Lemma rows_vectors b s : valid_sel s ->
  isometry_to eps_max (euler_lin (euler_row b s)) /\
  forall u v, Rabs (chord2 (euler_lin (euler_row b s) u) (euler_lin (euler_row b s) v) - chord2 u v) <= eps_max * chord2 u v.
Proof. intro H. split; [apply rows_near_isometry; exact H | intros u v; apply rows_chord_preserved; exact H]. Qed.

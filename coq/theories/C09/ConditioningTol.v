(* C09 -- numeric corollary of Conditioning.v (the only part that needs interval arithmetic) *)
From Coq Require Import Reals Lra Psatz.
From Interval Require Import Tactic.
From EsVerif.Common Require Import Base.
From EsVerif.C09 Require Import Gen Model Spec Geometry Proofs Conditioning.
Open Scope R_scope.

(* with any error budget up to 1e-9 on each of d, e1, e2 (seven orders of magnitude above binary64 rounding) the
   returned position is within 1e-5 degree of the true one, at every point of the sphere *)
Lemma euler_conditioning_tol5 r a b v' d e1 e2 : 0 < norm2 (euler_xyz r a b) ->
  0 <= d <= 1 / 1000000000 -> Rabs e1 <= 1 / 1000000000 -> Rabs e2 <= 1 / 1000000000 ->
  chord2 v' (normalize (euler_xyz r a b)) <= d * d ->
  let lon' := Rmod (lon_of v' + e1 + r_psi r + fourpi) twopi * R2D in
  let lat' := (lat_of v' + e2) * R2D in
  within_sky tol5 (unit_deg lon' lat') (normalize (euler_vec r a b)).
Proof.
  intros Hn Hd H1 H2 Hv lon' lat'. unfold within_sky.
  pose proof (euler_conditioning r a b v' d e1 e2 Hn ltac:(lra) Hv) as H. cbv zeta in H. fold lon' lat' in H.
  apply Rabs_le_inv in H1. apply Rabs_le_inv in H2.
  assert (e1 * e1 <= 1 / 1000000000 * (1 / 1000000000)) by nra.
  assert (e2 * e2 <= 1 / 1000000000 * (1 / 1000000000)) by nra.
  assert (d * d <= 1 / 1000000000 * (1 / 1000000000)) by nra.
  assert (12 * (1 / 1000000000 * (1 / 1000000000)) <= (chord_of tol5)²) as Ht
    by (unfold chord_of, tol5, D2R, Rsqr; interval).
  lra.
Qed.

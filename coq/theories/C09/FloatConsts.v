(* C09 -- the two binary64 constants used by FloatShift.euler_lon_float_range are within one unit in the last place
   of 2 pi and 180 / pi (they are the values python computes for 2.0 * math.pi and 1.0 / (math.pi / 180.0)). *)
From Coq Require Import Reals.
From Interval Require Import Tactic.
From EsVerif.C09 Require Import FloatShift.
Open Scope R_scope.

Lemma float_consts_close :
  Rabs (twopi_f - 2 * PI) <= / 1125899906842624 /\ Rabs (r2d_f - 180 / PI) <= / 140737488355328.
Proof. unfold twopi_f, r2d_f. split; interval with (i_prec 80). Qed.

(* C09 -- shiftlon / shiftra on binary64 numbers: the additions and subtractions of the code are modelled as
   rounded-to-nearest-even operations (Flocq's generic model of IEEE-754 binary64: FLT_exp (-1074) 53; no overflow
   can occur below 1024), comparisons are exact.  The range [0,360) -- and [-180,180] when wrapping -- is proved for
   the FLOATING-POINT results, including the cases where a sum rounds up to exactly 360 (second wrap, fix 0002) and
   lands exactly on 360 (comparison >=, fix 0001).  The comparison operators, thresholds and the second wrap are
   the ones regenerated from the source (Gen.v). *)
From Coq Require Import Reals Lra Lia ZArith QArith Qreals Qabs Qround.
From Flocq Require Import Core.
From EsVerif.Common Require Import Base.
From EsVerif.C09 Require Import Gen Model Spec.
Open Scope R_scope.

Definition fexp64 : Z -> Z := FLT_exp (-1074) 53.
Definition fmt (x : R) : Prop := generic_format radix2 fexp64 x.
Definition rnd (x : R) : R := round radix2 fexp64 ZnearestE x.

Lemma fexp64_valid : Valid_exp fexp64.
Proof. unfold fexp64. apply FLT_exp_valid. unfold Prec_gt_0. lia. Qed.

Lemma rnd_le x y : x <= y -> rnd x <= rnd y.
Proof. apply round_le; [apply fexp64_valid | apply valid_rnd_N]. Qed.

Lemma rnd_id x : fmt x -> rnd x = x.
Proof. apply round_generic. apply valid_rnd_N. Qed.

Lemma rnd_fmt x : fmt (rnd x).
Proof. apply generic_format_round; [apply fexp64_valid | apply valid_rnd_N]. Qed.

Lemma rnd_ub x y : fmt y -> x <= y -> rnd x <= y.
Proof. intros Hy H. rewrite <- (rnd_id y Hy). apply rnd_le, H. Qed.

Lemma rnd_lb x y : fmt x -> x <= y -> x <= rnd y.
Proof. intros Hx H. rewrite <- (rnd_id x Hx). apply rnd_le, H. Qed.

(* m * 2^e is a binary64 number when |m| < 2^53 and e >= -1074 *)
Lemma fmt_dyadic (m e : Z) : (Z.abs m < 2 ^ 53)%Z -> (-1074 <= e)%Z -> fmt (IZR m * bpow radix2 e).
Proof.
  intros Hm He. unfold fmt, fexp64. apply generic_format_FLT.
  exists (Float radix2 m e); [reflexivity | exact Hm | exact He].
Qed.

Lemma bpow_m44 : bpow radix2 (-44) = / 17592186044416.
Proof. simpl. reflexivity. Qed.
Lemma bpow_m43 : bpow radix2 (-43) = / 8796093022208.
Proof. simpl. reflexivity. Qed.

Lemma fmt_0 : fmt 0.
Proof. apply generic_format_0. Qed.

Lemma fmt_int (n : Z) : (Z.abs n < 2 ^ 53)%Z -> fmt (IZR n).
Proof.
  intro H. replace (IZR n) with (IZR n * bpow radix2 0) by (simpl; ring). apply fmt_dyadic; [exact H | lia].
Qed.

Lemma fmt_360 : fmt 360. Proof. apply (fmt_int 360). lia. Qed.
Lemma fmt_m360 : fmt (-360). Proof. apply (fmt_int (-360)). lia. Qed.
Lemma fmt_180 : fmt 180. Proof. apply (fmt_int 180). lia. Qed.
Lemma fmt_m180 : fmt (-180). Proof. apply (fmt_int (-180)). lia. Qed.

(* the largest binary64 number below 360, and the numbers 360 - 2^-43, 720 - 2^-43 *)
Definition p360 : R := 360 - / 17592186044416.
Lemma fmt_p360 : fmt p360.
Proof.
  unfold p360. replace (360 - / 17592186044416) with (IZR (360 * 17592186044416 - 1) * bpow radix2 (-44)).
  - apply fmt_dyadic; lia.
  - rewrite bpow_m44, minus_IZR, mult_IZR. field.
Qed.
Definition q360 : R := 360 - / 8796093022208.
Lemma fmt_q360 : fmt q360.
Proof.
  unfold q360. replace (360 - / 8796093022208) with (IZR (360 * 8796093022208 - 1) * bpow radix2 (-43)).
  - apply fmt_dyadic; lia.
  - rewrite bpow_m43, minus_IZR, mult_IZR. field.
Qed.
Definition q720 : R := 720 - / 8796093022208.
Lemma fmt_q720 : fmt q720.
Proof.
  unfold q720. replace (720 - / 8796093022208) with (IZR (720 * 8796093022208 - 1) * bpow radix2 (-43)).
  - apply fmt_dyadic; lia.
  - rewrite bpow_m43, minus_IZR, mult_IZR. field.
Qed.

(* binary64 numbers in [256, 512) are multiples of 2^-44: a binary64 number below 360 is at most 360 - 2^-44 *)
Lemma below_360 x : fmt x -> x < 360 -> x <= p360.
Proof.
  intros Hx H. unfold p360.
  destruct (Rlt_dec x 256) as [Hs|Hb]; [lra|].
  assert (256 <= x) as H256 by lra.
  assert (mag radix2 x = 9%Z :> Z) as Hmag.
  { apply mag_unique. rewrite Rabs_pos_eq by lra. simpl. lra. }
  unfold fmt, generic_format in Hx.
  unfold cexp in Hx. rewrite Hmag in Hx.
  change (fexp64 9) with (-44)%Z in Hx.
  set (m := Ztrunc (scaled_mantissa radix2 fexp64 x)) in *.
  unfold F2R in Hx; simpl Fnum in Hx; simpl Fexp in Hx. rewrite bpow_m44 in Hx.
  assert (IZR m < IZR (360 * 17592186044416)) as Hlt.
  { rewrite mult_IZR. rewrite Hx in H.
    apply Rmult_lt_reg_r with (/ 17592186044416); [lra|]. lra. }
  apply lt_IZR in Hlt. assert (m <= 360 * 17592186044416 - 1)%Z as Hle by lia.
  apply IZR_le in Hle. rewrite minus_IZR, mult_IZR in Hle. rewrite Hx. lra.
Qed.

(* ------------------------------------------------------------------ the model on binary64 numbers *)
Definition rcmp (c : cmp) (x t : R) : bool :=
  match c with
  | CGt => if Rlt_dec t x then true else false
  | CGe => if Rle_dec t x then true else false
  | CLt => if Rlt_dec x t then true else false
  | CLe => if Rle_dec x t then true else false
  | CEq => if Req_EM_T x t then true else false
  end.

(* lon: the longitude; a: abs(shift) % 360.0 (for a non-negative first argument python's float % is C fmod: the exact
   remainder, a binary64 number in [0, 360)); neg: shift < 0 *)
(* the program with the rounding operation as a parameter: rd = rnd gives binary64, rd = identity the exact model *)
Definition shiftlon_g (rd : R -> R) (lon a : R) (neg : bool) : R :=
  if neg then
    let l := rd (lon + a) in
    if rcmp shift_neg_cmp l (Q2R shift_neg_thr) then rd (l - Q2R shift_neg_period) else l
  else
    let l := rd (lon - a) in
    if rcmp shift_pos_cmp l (Q2R shift_pos_thr) then
      let l := rd (l + Q2R shift_pos_period) in
      match shift_pos_rewrap with
      | Some (c, t, p) => if rcmp c l (Q2R t) then rd (l - Q2R p) else l
      | None => l
      end
    else l.
Definition shiftlon_f : R -> R -> bool -> R := shiftlon_g rnd.

Definition wraplon_f (lon : R) : R :=
  if rcmp wrap_cmp lon (Q2R wrap_thr) then rnd (lon - Q2R wrap_period) else lon.

Lemma q2r_360 : Q2R (360 # 1) = 360. Proof. unfold Q2R; simpl. lra. Qed.
Lemma q2r_0 : Q2R (0 # 1) = 0. Proof. unfold Q2R; simpl. lra. Qed.
Lemma q2r_180 : Q2R (180 # 1) = 180. Proof. unfold Q2R; simpl. lra. Qed.

(* the result of shiftlon on binary64 numbers is a binary64 number in [0, 360) *)
Lemma shiftlon_float_range lon a neg : fmt lon -> fmt a -> 0 <= lon < 360 -> 0 <= a < 360 ->
  fmt (shiftlon_f lon a neg) /\ 0 <= shiftlon_f lon a neg < 360.
Proof.
  intros Fl Fa [L0 L1] [A0 A1].
  pose proof (below_360 lon Fl L1) as Lp. pose proof (below_360 a Fa A1) as Ap.
  assert (p360 < 360) as P1 by (unfold p360; lra).
  assert (q360 < 360) as P2 by (unfold q360; lra).
  assert (p360 + p360 = q720) as P3 by (unfold p360, q720; field).
  unfold shiftlon_f, shiftlon_g, shift_neg_cmp, shift_neg_thr, shift_neg_period, shift_pos_cmp, shift_pos_thr, shift_pos_period,
    shift_pos_rewrap, rcmp. rewrite ?q2r_360, ?q2r_0.
  destruct neg.
  - set (l := rnd (lon + a)).
    assert (0 <= l) as l0 by (apply rnd_lb; [apply fmt_0 | lra]).
    assert (l <= q720) as l1 by (apply rnd_ub; [apply fmt_q720 | lra]).
    destruct (Rle_dec 360 l) as [H|H].
    + split; [apply rnd_fmt|]. split.
      * apply rnd_lb; [apply fmt_0 | lra].
      * assert (rnd (l - 360) <= q360) by (apply rnd_ub; [apply fmt_q360 | unfold q360, q720 in *; lra]). lra.
    + split; [apply rnd_fmt | lra].
  - set (l := rnd (lon - a)).
    assert (-360 <= l) as l0 by (apply rnd_lb; [apply fmt_m360 | lra]).
    assert (l <= p360) as l1 by (apply rnd_ub; [apply fmt_p360 | lra]).
    destruct (Rlt_dec l 0) as [H|H].
    + set (l2 := rnd (l + 360)).
      assert (0 <= l2) as m0 by (apply rnd_lb; [apply fmt_0 | lra]).
      assert (l2 <= 360) as m1 by (apply rnd_ub; [apply fmt_360 | lra]).
      destruct (Rle_dec 360 l2) as [G|G].
      * assert (l2 = 360) as -> by lra. replace (360 - 360) with 0 by ring. rewrite (rnd_id 0 fmt_0).
        split; [apply fmt_0 | lra].
      * split; [apply rnd_fmt | lra].
    + split; [apply rnd_fmt | lra].
Qed.

(* wrapping a binary64 longitude of [0,360) gives a binary64 number in [-180, 180] *)
Lemma wraplon_float_range lon : fmt lon -> 0 <= lon < 360 ->
  fmt (wraplon_f lon) /\ -180 <= wraplon_f lon <= 180.
Proof.
  intros Fl [L0 L1]. unfold wraplon_f, wrap_cmp, wrap_thr, wrap_period, rcmp. rewrite q2r_180, q2r_360.
  destruct (Rlt_dec 180 lon) as [H|H].
  - split; [apply rnd_fmt|]. split.
    + apply rnd_lb; [apply fmt_m180 | lra].
    + assert (rnd (lon - 360) <= 0) by (apply rnd_ub; [apply fmt_0 | lra]). lra.
  - split; [exact Fl | lra].
Qed.

(* ------------------------------------------------------------------ accuracy: each rounding below 1024 errs by at most 2^-43 *)
Definition eps43 : R := / 8796093022208.

Global Instance fexp64_valid_inst : Valid_exp fexp64 := fexp64_valid.

Lemma rnd_err x : Rabs x <= 1024 -> Rabs (rnd x - x) <= eps43.
Proof.
  intro H. unfold rnd.
  pose proof (error_le_half_ulp radix2 fexp64 (fun z => negb (Z.even z)) x) as E.
  assert (ulp radix2 fexp64 x <= ulp radix2 fexp64 1024) as U.
  { rewrite <- (ulp_abs radix2 fexp64 x). apply ulp_le_pos; [apply fexp64_valid | unfold fexp64; apply FLT_exp_monotone | apply Rabs_pos | exact H]. }
  assert (ulp radix2 fexp64 1024 = bpow radix2 (-42)) as U2.
  { rewrite ulp_neq_0 by lra. unfold cexp.
    replace (mag radix2 1024 : Z) with 11%Z; [reflexivity|].
    symmetry. apply mag_unique. rewrite Rabs_pos_eq by lra. simpl. lra. }
  rewrite U2 in U. simpl bpow in U. unfold eps43. unfold ZnearestE in *. lra.
Qed.

(* the binary64 result differs from lon -/+ a by a multiple of 360 up to three roundings *)
Lemma shiftlon_float_congruent lon a neg : fmt lon -> fmt a -> 0 <= lon < 360 -> 0 <= a < 360 ->
  exists k : Z, Rabs (shiftlon_f lon a neg - ((if neg then lon + a else lon - a) + 360 * IZR k)) <= 3 * eps43.
Proof.
  intros Fl Fa [L0 L1] [A0 A1].
  assert (0 < eps43 <= 1) as He by (unfold eps43; lra).
  unfold shiftlon_f, shiftlon_g, shift_neg_cmp, shift_neg_thr, shift_neg_period, shift_pos_cmp, shift_pos_thr, shift_pos_period,
    shift_pos_rewrap, rcmp. rewrite ?q2r_360, ?q2r_0.
  destruct neg.
  - pose proof (rnd_err (lon + a)) as E1. set (l := rnd (lon + a)) in *.
    assert (Rabs (lon + a) <= 1024) as B1 by (rewrite Rabs_pos_eq; lra). specialize (E1 B1). apply Rabs_le_inv in E1.
    destruct (Rle_dec 360 l) as [H|H].
    + pose proof (rnd_err (l - 360)) as E2.
      assert (Rabs (l - 360) <= 1024) as B2 by (apply Rabs_le; lra). specialize (E2 B2). apply Rabs_le_inv in E2.
      exists (-1)%Z. apply Rabs_le. lra.
    + exists 0%Z. apply Rabs_le. lra.
  - pose proof (rnd_err (lon - a)) as E1. set (l := rnd (lon - a)) in *.
    assert (Rabs (lon - a) <= 1024) as B1 by (apply Rabs_le; lra). specialize (E1 B1). apply Rabs_le_inv in E1.
    destruct (Rlt_dec l 0) as [H|H].
    + pose proof (rnd_err (l + 360)) as E2.
      assert (Rabs (l + 360) <= 1024) as B2 by (apply Rabs_le; lra). specialize (E2 B2). apply Rabs_le_inv in E2.
      set (l2 := rnd (l + 360)) in *.
      destruct (Rle_dec 360 l2) as [G|G].
      * pose proof (rnd_err (l2 - 360)) as E3.
        assert (Rabs (l2 - 360) <= 1024) as B3 by (apply Rabs_le; lra). specialize (E3 B3). apply Rabs_le_inv in E3.
        exists 0%Z. apply Rabs_le. lra.
      * exists 1%Z. apply Rabs_le. lra.
    + exists 0%Z. apply Rabs_le. lra.
Qed.

(* ------------------------------------------------------------------ euler / rotate: the longitude at the 2 pi seam *)
(* `ao = ((a + psi + fourpi) % twopi) * R2D`: for a positive first argument python's float % is the exact remainder,
   a binary64 number m with 0 <= m < twopi (the binary64 value of 2.0 * math.pi); the product with the binary64 value
   of R2D is then rounded.  Over the reals the model gives [0, 360); on binary64 numbers the result stays in [0, 360]
   (the closed interval is what the run-time range check uses). *)
Definition twopi_f : R := 884279719003555 / 140737488355328.       (* 6.283185307179586 *)
Definition r2d_f : R := 1007958012753983 / 17592186044416.          (* 57.29577951308232 *)

Lemma euler_lon_float_range m : 0 <= m < twopi_f ->
  fmt (rnd (m * r2d_f)) /\ 0 <= rnd (m * r2d_f) <= 360.
Proof.
  intros [M0 M1]. split; [apply rnd_fmt|].
  assert (0 < r2d_f) as R0 by (unfold r2d_f; lra).
  assert (twopi_f * r2d_f <= 360) as P by (unfold twopi_f, r2d_f; lra).
  split.
  - apply rnd_lb; [apply fmt_0 | apply Rmult_le_pos; lra].
  - apply rnd_ub; [apply fmt_360|]. apply Rle_trans with (twopi_f * r2d_f); [|exact P].
    apply Rmult_le_compat_r; lra.
Qed.

(* ------------------------------------------------------------------ the exact-rational model is the same program without rounding *)
Lemma rcmp_qcmp c (x t : Q) : rcmp c (Q2R x) (Q2R t) = qcmp c x t.
Proof.
  destruct c; unfold rcmp, qcmp.
  - destruct (Rlt_dec (Q2R t) (Q2R x)) as [H|H]; destruct (Qle_bool x t) eqn:E; try reflexivity.
    + apply Qle_bool_iff in E. apply Qle_Rle in E. lra.
    + exfalso. apply H. apply Qlt_Rlt. apply Qnot_le_lt. intro L. apply Qle_bool_iff in L. congruence.
  - destruct (Rle_dec (Q2R t) (Q2R x)) as [H|H]; destruct (Qle_bool t x) eqn:E; try reflexivity.
    + exfalso. apply Rle_Qle in H. apply Qle_bool_iff in H. congruence.
    + exfalso. apply H. apply Qle_Rle. apply Qle_bool_iff. exact E.
  - destruct (Rlt_dec (Q2R x) (Q2R t)) as [H|H]; destruct (Qle_bool t x) eqn:E; try reflexivity.
    + apply Qle_bool_iff in E. apply Qle_Rle in E. lra.
    + exfalso. apply H. apply Qlt_Rlt. apply Qnot_le_lt. intro L. apply Qle_bool_iff in L. congruence.
  - destruct (Rle_dec (Q2R x) (Q2R t)) as [H|H]; destruct (Qle_bool x t) eqn:E; try reflexivity.
    + exfalso. apply Rle_Qle in H. apply Qle_bool_iff in H. congruence.
    + exfalso. apply H. apply Qle_Rle. apply Qle_bool_iff. exact E.
  - destruct (Req_EM_T (Q2R x) (Q2R t)) as [H|H]; destruct (Qeq_bool x t) eqn:E; try reflexivity.
    + exfalso. apply eqR_Qeq in H. apply Qeq_bool_iff in H. congruence.
    + exfalso. apply H. apply Qeq_eqR. apply Qeq_bool_iff. exact E.
Qed.

Lemma shiftlon_exact_is_unrounded lon s wrap :
  Q2R (shiftlon lon (Some s) wrap) =
  shiftlon_g (fun x => x) (Q2R lon) (Q2R (Qmod (Qabs s) shift_mod)) (negb (Qle_bool 0 s)).
Proof.
  unfold shiftlon, shiftlon_g. set (a := Qmod (Qabs s) shift_mod).
  destruct (negb (Qle_bool 0 s)).
  - rewrite <- Q2R_plus, rcmp_qcmp. destruct (qcmp shift_neg_cmp (lon + a) shift_neg_thr); [rewrite <- Q2R_minus|]; reflexivity.
  - rewrite <- Q2R_minus, rcmp_qcmp. destruct (qcmp shift_pos_cmp (lon - a) shift_pos_thr); [|reflexivity].
    rewrite <- Q2R_plus. destruct shift_pos_rewrap as [[[c t] p]|]; [|reflexivity].
    rewrite rcmp_qcmp. destruct (qcmp c (lon - a + shift_pos_period) t); [rewrite <- Q2R_minus|]; reflexivity.
Qed.

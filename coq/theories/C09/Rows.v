(* C09 — obligations about the constants of the build under test (Gen.v), re-proved whenever the
   constants change: every tabulated (sin theta, cos theta) is on the unit circle to 1e-10, inverse
   selectors share their constants, the J2000 rows agree with the rotation defined by the
   documented pole/node constants, chained conversions agree with the direct one. *)
From Coq Require Import Reals Lra List.
From Interval Require Import Tactic.
From EsVerif.Common Require Import Base.
From EsVerif.C09 Require Import Gen Model Spec Geometry Proofs.
Import ListNotations.
Open Scope R_scope.

Definition eps_of (r : row) : R := r_st r * r_st r + r_ct r * r_ct r - 1.
Definition eps_max : R := 1 / 10000000000.          (* 1e-10 *)
Definition mat_tol2 : R := 1 / 100000000000000.     (* (1e-7)^2 *)

Definition valid_sel (s : nat) : Prop := (1 <= s <= 6)%nat.

Lemma valid_sel_cases s : valid_sel s -> s = 1%nat \/ s = 2%nat \/ s = 3%nat \/ s = 4%nat \/ s = 5%nat \/ s = 6%nat.
Proof. unfold valid_sel. lia. Qed.

Ltac sel_cases H := apply valid_sel_cases in H;
  destruct H as [H|[H|[H|[H|[H|H]]]]]; subst.

(* ONE reduction step (a chain of cbv steps makes the kernel's conversion check at Qed very slow) *)
Ltac expand := lazy [euler_row nth Nat.sub rows_J2000 rows_B1950 inv_select
  row_J2000_1 row_J2000_2 row_J2000_3 row_J2000_4 row_J2000_5 row_J2000_6
  row_B1950_1 row_B1950_2 row_B1950_3 row_B1950_4 row_B1950_5 row_B1950_6
  row_inv r_psi r_st r_ct r_phi eps_of fst snd
  frob2 msub mmul mcol euler_mat doc_row vsub norm2 dot mrow1 mrow2 mrow3 vx vy vz
  doc_eps doc_alphaG doc_deltaG doc_lomega doc_alphaE doc_deltaE doc_Eomega D2R mat_tol2 eps_max].

(* |sin^2 + cos^2 - 1| <= 1e-10 for each of the 12 rows *)
Lemma rows_orthonormal b s : valid_sel s -> Rabs (eps_of (euler_row b s)) <= eps_max.
Proof.
  intro H. sel_cases H; destruct b; expand; interval.
Qed.

(* selector pairs (1,2), (3,4), (5,6) use each other's constants: (psi, s, c, phi) <-> (phi, -s, c, psi) *)
Lemma rows_inverse_pairs b s : valid_sel s -> euler_row b (inv_select s) = row_inv (euler_row b s).
Proof.
  intro H. sel_cases H; destruct b; expand; repeat (f_equal; try lra).
Qed.

(* hence: converting there and back moves no point of the sphere by more than 1e-10 (chord) *)
Lemma rows_roundtrip b s u : valid_sel s -> is_unit u ->
  chord2 (euler_lin (euler_row b (inv_select s)) (euler_lin (euler_row b s) u)) u <= eps_max * eps_max.
Proof.
  intros Hs Hu. rewrite (rows_inverse_pairs b s Hs).
  pose proof (euler_inverse_chord (euler_row b s) u) as H. rewrite Hu in H.
  pose proof (rows_orthonormal b s Hs) as He. fold (eps_of (euler_row b s)) in H.
  set (e := eps_of (euler_row b s)) in *.
  assert (e * e <= eps_max * eps_max).
  { apply Rabs_le_inv in He. assert (0 <= eps_max) by (unfold eps_max; lra). nra. }
  lra.
Qed.

(* and separations change by at most 1e-10 (in the cosine) *)
Lemma rows_near_isometry b s : valid_sel s -> isometry_to eps_max (euler_lin (euler_row b s)).
Proof.
  intros Hs u v Hu Hv. pose proof (euler_near_isometry (euler_row b s) u v Hu Hv) as H.
  pose proof (rows_orthonormal b s Hs). unfold eps_of in *. lra.
Qed.

(* the computed vector is never zero, so the extracted angles always represent its direction *)
Lemma rows_nonzero b s a d : valid_sel s -> 0 < norm2 (euler_xyz (euler_row b s) a d).
Proof.
  intro Hs. rewrite <- (norm2_Rz (r_psi (euler_row b s))), <- euler_vec_xyz. unfold euler_vec.
  rewrite euler_norm2, (unit_deg_unit a d).
  pose proof (rows_orthonormal b s Hs) as He. unfold eps_of in He. apply Rabs_le_inv in He. unfold eps_max in He.
  set (e := r_st (euler_row b s) * r_st (euler_row b s) + r_ct (euler_row b s) * r_ct (euler_row b s) - 1) in *.
  set (w := Rz (- r_phi (euler_row b s)) (unit_deg a d)).
  assert (is_unit w) as Hw by (apply is_unit_Rz, unit_deg_unit).
  unfold is_unit, norm2, dot in Hw. pose proof (Rle_0_sqr (vx w)). pose proof (Rle_0_sqr (vy w)). pose proof (Rle_0_sqr (vz w)).
  unfold Rsqr in *. assert (0 <= 1 - vx w * vx w <= 1) by lra. nra.
Qed.

(* ------------------------------------------------------------------ documented constants (J2000) *)
Lemma doc_row_rotation s : r_st (doc_row s) * r_st (doc_row s) + r_ct (doc_row s) * r_ct (doc_row s) = 1.
Proof.
  unfold doc_row. destruct s as [|[|[|[|[|[|s]]]]]]; unfold row_inv, r_st, r_ct, r_psi, r_phi; simpl fst; simpl snd;
    try (rewrite Rmult_opp_opp); try apply sc1; try (rewrite Rplus_comm; apply sc1).
Qed.

Lemma rows_documented_mat s : valid_sel s ->
  frob2 (msub (euler_mat (euler_row false s)) (euler_mat (doc_row s))) <= mat_tol2.
Proof.
  intro H. sel_cases H; expand; interval.
Qed.

(* every J2000 conversion agrees, at every point of the sphere, with the exact rotation defined by
   the documented pole and node constants to 1e-7 rad (chord) < 1e-5 degree *)
Lemma rows_documented s u : valid_sel s -> is_unit u ->
  chord2 (euler_lin (euler_row false s) u) (euler_lin (doc_row s) u) <= mat_tol2.
Proof.
  intros Hs Hu. rewrite !euler_lin_mat. apply mat_close; [exact Hu | apply rows_documented_mat, Hs].
Qed.

Lemma mat_tol_below_tol5 : mat_tol2 <= (chord_of tol5)².
Proof. unfold mat_tol2, chord_of, tol5, D2R, Rsqr. interval. Qed.

(* ------------------------------------------------------------------ chained conversions *)
(* ecliptic -> galactic directly (5) versus via equatorial (1 after 4); galactic -> ecliptic (6)
   versus (3 after 2) *)
Lemma rows_chain_mat b :
  frob2 (msub (euler_mat (euler_row b 5)) (mmul (euler_mat (euler_row b 1)) (euler_mat (euler_row b 4)))) <= mat_tol2
  /\ frob2 (msub (euler_mat (euler_row b 6)) (mmul (euler_mat (euler_row b 3)) (euler_mat (euler_row b 2)))) <= mat_tol2.
Proof.
  destruct b; split; expand; interval.
Qed.

Lemma rows_chain b u : is_unit u ->
  chord2 (euler_lin (euler_row b 5) u) (euler_lin (euler_row b 1) (euler_lin (euler_row b 4) u)) <= mat_tol2
  /\ chord2 (euler_lin (euler_row b 6) u) (euler_lin (euler_row b 3) (euler_lin (euler_row b 2) u)) <= mat_tol2.
Proof.
  intro Hu. destruct (rows_chain_mat b) as [H1 H2].
  rewrite !euler_lin_mat, <- !mapply_mmul. split; apply mat_close; assumption.
Qed.

(* ------------------------------------------------------------------ the statements at the level of the returned angles *)
Lemma rows_chord_preserved b s u v : valid_sel s ->
  Rabs (chord2 (euler_lin (euler_row b s) u) (euler_lin (euler_row b s) v) - chord2 u v) <= eps_max * chord2 u v.
Proof.
  intro Hs. pose proof (euler_chord (euler_row b s) u v) as H.
  pose proof (rows_orthonormal b s Hs) as He. unfold eps_of in He. pose proof (chord2_nonneg u v).
  set (e := Rabs _) in He. fold e in H. nra.
Qed.

Lemma represents_unit p v : 0 < norm2 v -> represents_deg p v -> unit_deg (fst p) (snd p) = normalize v.
Proof. intros _ H. exact H. Qed.

Lemma chord_tol5_val : 2 * (mat_tol2) <= (chord_of tol5)² /\ 2 * (eps_max * eps_max) <= (chord_of tol5)².
Proof. unfold mat_tol2, eps_max, chord_of, tol5, D2R, Rsqr. split; interval. Qed.

(* every conversion followed by its inverse returns every point of the sphere (poles included)
   to within 1e-5 degree -- for the formulas as coded, over the reals *)
Lemma rows_invertible b s a d : valid_sel s ->
  let p := euler_R (euler_row b s) a d in
  let q := euler_R (euler_row b (inv_select s)) (fst p) (snd p) in
  within_sky tol5 (unit_deg (fst q) (snd q)) (unit_deg a d).
Proof.
  intros Hs p q. unfold within_sky.
  assert (valid_sel (inv_select s)) as Hs' by (sel_cases Hs; unfold valid_sel; simpl; lia).
  pose proof (euler_extract _ a d (rows_nonzero b s a d Hs)) as Hp. fold p in Hp. unfold represents_deg in Hp.
  pose proof (euler_extract _ (fst p) (snd p) (rows_nonzero b (inv_select s) (fst p) (snd p) Hs')) as Hq.
  fold q in Hq. unfold represents_deg in Hq. rewrite Hq.
  unfold euler_vec at 1. rewrite Hp. unfold normalize at 2. rewrite euler_lin_scale.
  set (u := unit_deg a d). assert (is_unit u) as Hu by apply unit_deg_unit.
  set (E := euler_lin (euler_row b s)). set (E' := euler_lin (euler_row b (inv_select s))).
  assert (0 < norm2 (E u)) as Hn.
  { change (0 < norm2 (euler_vec (euler_row b s) a d)). rewrite euler_vec_xyz, norm2_Rz. apply rows_nonzero, Hs. }
  pose proof (rows_roundtrip b s u Hs Hu) as Hr. fold E E' in Hr.
  assert (0 <= eps_max <= 1 / 2) as He by (unfold eps_max; lra).
  destruct (direction_close (E' (E u)) u eps_max Hu He Hr) as [Hn' Hc].
  rewrite normalize_scale; [| apply Rinv_0_lt_compat, norm_pos, Hn | exact Hn'].
  destruct chord_tol5_val as [_ Ht]. eapply Rle_trans; [exact Hc | exact Ht].
Qed.

(* every J2000 conversion agrees with the rotation defined by the documented pole and node
   constants to within 1e-5 degree at every point of the sphere *)
Lemma rows_agree_documented s a d : valid_sel s ->
  let p := euler_R (euler_row false s) a d in
  within_sky tol5 (unit_deg (fst p) (snd p)) (euler_lin (doc_row s) (unit_deg a d)).
Proof.
  intros Hs p. unfold within_sky.
  pose proof (euler_extract _ a d (rows_nonzero false s a d Hs)) as Hp. fold p in Hp. unfold represents_deg in Hp.
  rewrite Hp. unfold euler_vec.
  set (u := unit_deg a d). assert (is_unit u) as Hu by apply unit_deg_unit.
  assert (is_unit (euler_lin (doc_row s) u)) as HD.
  { unfold is_unit, norm2. rewrite (euler_isometry (doc_row s) (doc_row_rotation s)). exact Hu. }
  pose proof (rows_documented s u Hs Hu) as H.
  assert (0 <= 1 / 10000000 <= 1 / 2) as He by lra.
  assert (mat_tol2 = 1 / 10000000 * (1 / 10000000)) as Em by (unfold mat_tol2; lra).
  rewrite Em in H.
  destruct (direction_close _ _ _ HD He H) as [_ Hc]. rewrite <- Em in Hc.
  destruct chord_tol5_val as [Ht _]. eapply Rle_trans; [exact Hc | exact Ht].
Qed.


(* ------------------------------------------------------------------ directions of two nearby vectors *)
Lemma near_dirs a b t e : chord2 a b <= t -> Rabs (norm2 b - 1) <= e -> 0 <= e <= 1 / 2 ->
  2 * t + 2 * (e * e) <= 1 / 4 ->
  0 < norm2 a /\ 0 < norm2 b /\ chord2 (normalize a) (normalize b) <= 2 * (2 * t + 2 * (e * e)).
Proof.
  intros Hab Hb He Hsmall.
  assert (0 < norm2 b) as Hnb by (apply Rabs_le_inv in Hb; lra).
  pose proof (normalize_is_unit b Hnb) as Hub.
  pose proof (norm_near_one b e He Hb) as Hbb.
  pose proof (chord2_triangle2 a b (normalize b)) as Htri.
  pose proof (chord2_nonneg a b) as Hab0. pose proof (chord2_nonneg b (normalize b)) as Hbb0.
  set (D := 2 * t + 2 * (e * e)) in *.
  assert (0 <= D) as HD0 by (unfold D; nra).
  assert (chord2 a (normalize b) <= sqrt D * sqrt D) as Hd by (rewrite sqrt_sqrt by exact HD0; unfold D; lra).
  assert (0 <= sqrt D <= 1 / 2) as Hsd.
  { split; [apply sqrt_pos|]. rewrite <- (sqrt_square (1 / 2)) by lra. apply sqrt_le_1_alt. lra. }
  destruct (direction_close a (normalize b) (sqrt D) Hub Hsd Hd) as [Hna Hc].
  rewrite sqrt_sqrt in Hc by exact HD0. split; [exact Hna|]. split; [exact Hnb|exact Hc].
Qed.

Lemma euler_norm2_bound r w :
  Rabs (norm2 (euler_lin r w) - norm2 w) <= Rabs (eps_of r) * norm2 w.
Proof.
  rewrite euler_norm2. fold (eps_of r).
  replace (norm2 w + eps_of r * (norm2 w - (vx (Rz (- r_phi r) w))²) - norm2 w)
    with (eps_of r * (norm2 w - (vx (Rz (- r_phi r) w))²)) by ring.
  rewrite Rabs_mult. apply Rmult_le_compat_l; [apply Rabs_pos|].
  rewrite <- (norm2_Rz (- r_phi r) w). set (t := Rz (- r_phi r) w).
  unfold norm2, dot, Rsqr. apply Rabs_le.
  pose proof (Rle_0_sqr (vx t)); pose proof (Rle_0_sqr (vy t)); pose proof (Rle_0_sqr (vz t)).
  unfold Rsqr in *. lra.
Qed.

(* ------------------------------------------------------------------ chained conversions, returned angles *)
Definition chain_tol2 : R := 2 / 1000000000000000.     (* 2e-15 *)

Lemma rows_chain_mat_tight b :
  frob2 (msub (euler_mat (euler_row b 5)) (mmul (euler_mat (euler_row b 1)) (euler_mat (euler_row b 4)))) <= chain_tol2
  /\ frob2 (msub (euler_mat (euler_row b 6)) (mmul (euler_mat (euler_row b 3)) (euler_mat (euler_row b 2)))) <= chain_tol2.
Proof.
  unfold chain_tol2. destruct b; split; expand; interval.
Qed.

(* direct (sd) versus first s1 then s2, when the matrices agree to chain_tol2 *)
Lemma chain_angles b sd s1 s2 a d : valid_sel sd -> valid_sel s1 -> valid_sel s2 ->
  frob2 (msub (euler_mat (euler_row b sd)) (mmul (euler_mat (euler_row b s2)) (euler_mat (euler_row b s1)))) <= chain_tol2 ->
  let p1 := euler_R (euler_row b s1) a d in
  let p2 := euler_R (euler_row b s2) (fst p1) (snd p1) in
  let pd := euler_R (euler_row b sd) a d in
  within_sky tol5 (unit_deg (fst pd) (snd pd)) (unit_deg (fst p2) (snd p2)).
Proof.
  intros Hd H1 H2 Hm p1 p2 pd. unfold within_sky.
  pose proof (euler_extract _ a d (rows_nonzero b s1 a d H1)) as E1. fold p1 in E1. unfold represents_deg in E1.
  pose proof (euler_extract _ (fst p1) (snd p1) (rows_nonzero b s2 _ _ H2)) as E2. fold p2 in E2. unfold represents_deg in E2.
  pose proof (euler_extract _ a d (rows_nonzero b sd a d Hd)) as Ed. fold pd in Ed. unfold represents_deg in Ed.
  rewrite E2, Ed. unfold euler_vec. rewrite E1. unfold euler_vec.
  set (u := unit_deg a d). assert (is_unit u) as Hu by apply unit_deg_unit.
  set (F1 := euler_lin (euler_row b s1)). set (F2 := euler_lin (euler_row b s2)). set (Fd := euler_lin (euler_row b sd)).
  (* the intermediate vector and its norm *)
  pose proof (euler_norm2_bound (euler_row b s1) u) as N1. rewrite Hu, Rmult_1_r in N1. fold F1 in N1.
  pose proof (rows_orthonormal b s1 H1) as O1. pose proof (rows_orthonormal b s2 H2) as O2. unfold eps_max in *.
  assert (Rabs (norm2 (F1 u) - 1) <= 1 / 10000000000) as N1' by lra.
  pose proof N1' as N1b. apply Rabs_le_inv in N1b.
  assert (0 < norm2 (F1 u)) as P1 by lra.
  pose proof (euler_norm2_bound (euler_row b s2) (F1 u)) as N2. fold F2 in N2.
  assert (Rabs (norm2 (F2 (F1 u)) - 1) <= 3 / 10000000000) as N2'.
  { apply Rabs_le. apply Rabs_le_inv in N2. pose proof (Rabs_pos (eps_of (euler_row b s2))) as Q.
    set (E := Rabs (eps_of (euler_row b s2))) in *. set (n1 := norm2 (F1 u)) in *. split; nra. }
  (* normalisation of the intermediate point does not matter *)
  replace (F2 (normalize (F1 u))) with (scale (/ norm (F1 u)) (F2 (F1 u)))
    by (unfold normalize, F2; rewrite euler_lin_scale; reflexivity).
  assert (0 < norm2 (F2 (F1 u))) as P2 by (apply Rabs_le_inv in N2'; lra).
  rewrite (normalize_scale _ _ (Rinv_0_lt_compat _ (norm_pos _ P1)) P2).
  (* direct vs chained vectors *)
  assert (chord2 (Fd u) (F2 (F1 u)) <= chain_tol2) as Hc.
  { unfold Fd, F2, F1. rewrite !euler_lin_mat, <- mapply_mmul. apply mat_close; assumption. }
  assert (0 <= 3 / 10000000000 <= 1 / 2) as He by lra.
  destruct (near_dirs (Fd u) (F2 (F1 u)) chain_tol2 (3 / 10000000000) Hc N2' He) as [_ [_ Hfin]];
    [unfold chain_tol2; lra|].
  eapply Rle_trans; [exact Hfin|]. unfold chain_tol2, chord_of, tol5, D2R, Rsqr. interval.
Qed.

(* ecliptic -> galactic directly versus via equatorial; galactic -> ecliptic directly versus via equatorial *)
Lemma rows_chain_angles b a d :
  (let p1 := euler_R (euler_row b 4) a d in
   let p2 := euler_R (euler_row b 1) (fst p1) (snd p1) in
   let pd := euler_R (euler_row b 5) a d in
   within_sky tol5 (unit_deg (fst pd) (snd pd)) (unit_deg (fst p2) (snd p2)))
  /\
  (let p1 := euler_R (euler_row b 2) a d in
   let p2 := euler_R (euler_row b 3) (fst p1) (snd p1) in
   let pd := euler_R (euler_row b 6) a d in
   within_sky tol5 (unit_deg (fst pd) (snd pd)) (unit_deg (fst p2) (snd p2))).
Proof.
  destruct (rows_chain_mat_tight b) as [M5 M6].
  split; [apply (chain_angles b 5 4 1) | apply (chain_angles b 6 2 3)]; unfold valid_sel; try lia; assumption.
Qed.

(* ------------------------------------------------------------------ rotate (zxz Euler angles, degrees) *)
Lemma rotate_eps phi theta psi : eps_of (rotate_row phi theta psi) = 0.
Proof. unfold eps_of. rewrite rotate_row_sc. ring. Qed.

Lemma rotate_nonzero phi theta psi ra dec : norm2 (euler_xyz (rotate_row phi theta psi) ra dec) = 1.
Proof.
  rewrite <- (norm2_Rz (r_psi (rotate_row phi theta psi))), <- euler_vec_xyz. unfold euler_vec.
  rewrite euler_norm2. fold (eps_of (rotate_row phi theta psi)). rewrite rotate_eps, (unit_deg_unit ra dec). ring.
Qed.

Lemma rotate_represents phi theta psi ra dec :
  let p := rotate_R phi theta psi ra dec in
  unit_deg (fst p) (snd p) = rotate_vec phi theta psi ra dec.
Proof.
  intro p. unfold p. rewrite rotate_R_is.
  pose proof (euler_gen_extract (rotate_row phi theta psi) ra dec) as H. unfold represents_deg in H.
  rewrite H by (rewrite rotate_nonzero; lra).
  apply normalize_unit_id. unfold is_unit, rotate_vec, euler_vec, norm2.
  rewrite (euler_isometry _ (rotate_row_sc phi theta psi)). apply unit_deg_unit.
Qed.

Lemma rotate_range phi theta psi ra dec :
  0 <= fst (rotate_R phi theta psi ra dec) < 360 /\ -90 <= snd (rotate_R phi theta psi ra dec) <= 90.
Proof. rewrite rotate_R_is. apply euler_gen_range. Qed.

(* separations are preserved exactly *)
Lemma rotate_isometry phi theta psi ra1 dec1 ra2 dec2 :
  let p := rotate_R phi theta psi ra1 dec1 in
  let q := rotate_R phi theta psi ra2 dec2 in
  dot (unit_deg (fst p) (snd p)) (unit_deg (fst q) (snd q)) = dot (unit_deg ra1 dec1) (unit_deg ra2 dec2).
Proof.
  intros p q. unfold p, q. rewrite !rotate_represents. unfold rotate_vec, euler_vec.
  apply (euler_isometry _ (rotate_row_sc phi theta psi)).
Qed.

(* rotate(psi, -theta, phi) undoes rotate(phi, theta, psi) exactly (as points of the sphere) *)
Lemma rotate_inverse phi theta psi ra dec :
  let p := rotate_R phi theta psi ra dec in
  let q := rotate_R psi (- theta) phi (fst p) (snd p) in
  unit_deg (fst q) (snd q) = unit_deg ra dec.
Proof.
  intros p q. unfold q. rewrite rotate_represents. unfold rotate_vec, euler_vec.
  pose proof (rotate_represents phi theta psi ra dec) as Hp. fold p in Hp. cbv zeta in Hp. rewrite Hp.
  unfold rotate_vec, euler_vec. rewrite <- rotate_row_inv.
  apply (euler_inverse _ (rotate_row_sc phi theta psi)).
Qed.

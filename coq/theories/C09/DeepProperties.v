(* C09 -- theorems added in the proof-deepening round.  Only statements; every proof is `exact <lemma>`
   (FloatShift.v, FloatConsts.v, Conditioning.v, Loops.v).  Checked by the proof step of harness/props/C09.py next to
   Properties.v (same rules: Qed, Print Assumptions within the allow-list). *)
From Coq Require Import Reals QArith Qreals Qabs List Lra Lia.
From EsVerif.Common Require Import Base.
From EsVerif.C09 Require Import Gen Model Spec Geometry Proofs Rows Isometry Wrappers FloatShift FloatLon FloatConsts Conditioning ConditioningTol Loops.
Import ListNotations.
Open Scope R_scope.

(* ---------------------------------------------------------------- binary64: shiftlon / shiftra *)
(* the range [0,360) holds for the FLOATING-POINT results (rounded additions, exact comparisons; operators, thresholds
   and the second wrap from Gen.v), and the result is lon -/+ a + 360 k up to three roundings (3 * 2^-43) *)
Theorem C09_shiftlon_float_range : forall lon a neg, fmt lon -> fmt a -> 0 <= lon < 360 -> 0 <= a < 360 ->
  fmt (shiftlon_f lon a neg) /\ 0 <= shiftlon_f lon a neg < 360.
Proof. exact shiftlon_float_range. Qed.

Theorem C09_wraplon_float_range : forall lon, fmt lon -> 0 <= lon < 360 ->
  fmt (wraplon_f lon) /\ -180 <= wraplon_f lon <= 180.
Proof. exact wraplon_float_range. Qed.

Theorem C09_shiftlon_float_congruent : forall lon a neg, fmt lon -> fmt a -> 0 <= lon < 360 -> 0 <= a < 360 ->
  exists k : Z, Rabs (shiftlon_f lon a neg - ((if neg then lon + a else lon - a) + 360 * IZR k)) <= 3 * eps43.
Proof. exact shiftlon_float_congruent. Qed.

(* the exact-rational model of Model.v is the same program with the identity as rounding operation *)
Theorem C09_shiftlon_exact_is_unrounded : forall lon s wrap,
  Q2R (shiftlon lon (Some s) wrap) =
  shiftlon_g (fun x => x) (Q2R lon) (Q2R (Qmod (Qabs s) shift_mod)) (negb (Qle_bool 0 s)).
Proof. exact shiftlon_exact_is_unrounded. Qed.

(* binary64: the longitude of euler / rotate at the 2 pi seam stays in [0, 360] *)
Theorem C09_euler_lon_float_range : forall m, 0 <= m < twopi_f ->
  fmt (rnd (m * r2d_f)) /\ 0 <= rnd (m * r2d_f) <= 360.
Proof. exact euler_lon_float_range. Qed.

(* and strictly below 360 when the remainder m is itself a binary64 number (it is: C fmod is exact): the run-time value
   360.0 cannot come out of euler / rotate *)
Theorem C09_euler_lon_float_strict : forall m, fmt m -> 0 <= m < twopi_f ->
  0 <= rnd (m * r2d_f) <= p360 /\ p360 < 360.
Proof. exact euler_lon_float_strict. Qed.

Theorem C09_float_consts_close :
  Rabs (twopi_f - 2 * PI) <= / 1125899906842624 /\ Rabs (r2d_f - 180 / PI) <= / 140737488355328.
Proof. exact float_consts_close. Qed.

(* ---------------------------------------------------------------- conditioning of the arctan2 extraction *)
Theorem C09_extract_conditioning : forall v u d e1 e2, is_unit u -> 0 <= d <= 1 / 2 -> chord2 v u <= d * d ->
  chord2 (unit_rad (lon_of v + e1) (lat_of v + e2)) u <= 4 * (e1 * e1) + 4 * (e2 * e2) + 4 * (d * d).
Proof. exact extract_conditioning. Qed.

Theorem C09_euler_conditioning : forall r a b v' d e1 e2, 0 < norm2 (euler_xyz r a b) -> 0 <= d <= 1 / 2 ->
  chord2 v' (normalize (euler_xyz r a b)) <= d * d ->
  let lon' := Rmod (lon_of v' + e1 + r_psi r + fourpi) twopi * R2D in
  let lat' := (lat_of v' + e2) * R2D in
  chord2 (unit_deg lon' lat') (normalize (euler_vec r a b)) <= 4 * (e1 * e1) + 4 * (e2 * e2) + 4 * (d * d).
Proof. exact euler_conditioning. Qed.

Theorem C09_euler_conditioning_tol5 : forall r a b v' d e1 e2, 0 < norm2 (euler_xyz r a b) ->
  0 <= d <= 1 / 1000000000 -> Rabs e1 <= 1 / 1000000000 -> Rabs e2 <= 1 / 1000000000 ->
  chord2 v' (normalize (euler_xyz r a b)) <= d * d ->
  let lon' := Rmod (lon_of v' + e1 + r_psi r + fourpi) twopi * R2D in
  let lat' := (lat_of v' + e2) * R2D in
  within_sky tol5 (unit_deg lon' lat') (normalize (euler_vec r a b)).
Proof. exact euler_conditioning_tol5. Qed.

(* ---------------------------------------------------------------- source tie: output stages of rotate, eq2sdss, sdss2eq *)
Theorem C09_source_output_stage_rotate : forall phi theta psi ra dec,
  let v := euler_xyz (rotate_row phi theta psi) ra dec in
  rotate_out_src atan2 Rmod phi theta psi ra dec (vx v) (vy v) (vz v) = Some (rotate_R phi theta psi ra dec).
Proof. exact rotate_out_src_ok. Qed.

Theorem C09_source_output_stage_eq2sdss : forall ra dec,
  in_range ra eq2sdss_range1 = true -> in_range dec eq2sdss_range2 = true ->
  let v := eq2sdss_xyz ra dec in
  option_map Ok (eq2sdss_out_src atan2 (fun x lo hi => atbound atb_fuel x (lo, hi)) ra dec (vx v) (vy v) (vz v))
  = Some (eq2sdss_R ra dec).
Proof. exact eq2sdss_out_src_ok. Qed.

Theorem C09_source_output_stage_sdss2eq : forall cl ce,
  in_range cl sdss2eq_range1 = true -> in_range ce sdss2eq_range2 = true ->
  let v := sdss_unit (cl * D2R) (ce * D2R) in
  option_map Ok (sdss2eq_out_src atan2 atbound2 cl ce (vx v) (vy v) (vz v)) = Some (sdss2eq_R cl ce).
Proof. exact sdss2eq_out_src_ok. Qed.

(* eq2xyz / xyz2eq bodies (copy, deg2rad, stomp offset; stomp offset, rad2deg, atbound or 2 pi wrap), translated from the
   source for each (units, stomp) setting, and the error class of the range checks *)
Theorem C09_source_eq2xyz_arguments : forall (deg stomp : bool) (ra dec : R),
  thetaphi2xyz_xyz_src (fst (eq2xyz_args_src deg stomp ra dec)) (snd (eq2xyz_args_src deg stomp ra dec))
  = Some (eq2xyz_R deg stomp ra dec).
Proof. exact eq2xyz_args_ok. Qed.

Theorem C09_source_xyz2eq_body : forall (deg stomp : bool) (v : vec),
  xyz2eq_post_src (fun x lo hi => atbound atb_fuel x (lo, hi)) deg stomp (lon_of v) (lat_of v) = xyz2eq_R deg stomp v.
Proof. exact xyz2eq_post_ok. Qed.

Theorem C09_source_range_error_class : sdss_range_err = EValue.
Proof. exact sdss_range_err_is. Qed.

(* ---------------------------------------------------------------- the six wrappers by name *)
Theorem C09_wrapper_selectors :
  sel_eq2gal = 1%nat /\ sel_gal2eq = 2%nat /\ sel_eq2ec = 3%nat /\ sel_ec2eq = 4%nat /\ sel_ec2gal = 5%nat /\ sel_gal2ec = 6%nat.
Proof. exact wrapper_selectors. Qed.

Theorem C09_wrappers_invertible :
  undoes eq2gal_R gal2eq_R /\ undoes gal2eq_R eq2gal_R /\ undoes eq2ec_R ec2eq_R /\ undoes ec2eq_R eq2ec_R /\
  undoes ec2gal_R gal2ec_R /\ undoes gal2ec_R ec2gal_R.
Proof. exact wrappers_invertible. Qed.

Theorem C09_wrappers_isometric :
  keeps_separation eq2gal_R /\ keeps_separation gal2eq_R /\ keeps_separation eq2ec_R /\ keeps_separation ec2eq_R /\
  keeps_separation ec2gal_R /\ keeps_separation gal2ec_R.
Proof. exact wrappers_isometric. Qed.

(* ---------------------------------------------------------------- atbound: the loops, for every real input *)
Theorem C09_atbound_total : forall x lo, exists n : nat, forall m,
  atbound (n + m) x (lo, lo + 360) = atbound n x (lo, lo + 360) /\
  lo <= atbound n x (lo, lo + 360) <= lo + 360 /\
  exists k : Z, atbound n x (lo, lo + 360) = x + 360 * IZR k.
Proof. exact atbound_total. Qed.

(* ---------------------------------------------------------------- rejections: exactly which inputs, which error class *)
Theorem C09_eq2sdss_rejects_iff : forall ra dec,
  (eq2sdss_R ra dec = Err EValue <-> (ra < 0 \/ 360 < ra \/ dec < -90 \/ 90 < dec)) /\
  ((exists p, eq2sdss_R ra dec = Ok p) <-> (0 <= ra <= 360 /\ -90 <= dec <= 90)).
Proof. exact eq2sdss_rejects_iff. Qed.

Theorem C09_sdss2eq_rejects_iff : forall cl ce,
  (sdss2eq_R cl ce = Err EValue <-> (cl < -90 \/ 90 < cl \/ ce < -180 \/ 180 < ce)) /\
  ((exists p, sdss2eq_R cl ce = Ok p) <-> (-90 <= cl <= 90 /\ -180 <= ce <= 180)).
Proof. exact sdss2eq_rejects_iff. Qed.

(* ---------------------------------------------------------------- no state *)
Theorem C09_history_independent : forall pre c post h0,
  nth (length pre) (session h0 (pre ++ c :: post)) (AQ 0%Q) = answer c /\ session [] [c] = [answer c].
Proof. exact history_independent. Qed.

(* ---------------------------------------------------------------- the shiftlon checker decides the property *)
Theorem C09_shiftlon_check_complete : forall lon shift wrap out,
  shiftlon_ok lon shift wrap out -> shiftlon_check lon shift wrap out = true.
Proof. exact shiftlon_check_complete. Qed.

(* ---------------------------------------------------------------- non-vacuity *)
(* 350 and 10 are binary64 numbers in range; the negative-shift branch lands exactly on 360 and returns 0 *)
Example C09_float_boundary : fmt 350 /\ fmt 10 /\ shiftlon_f 350 10 true = 0.
Proof.
  split; [apply (fmt_int 350); lia | split; [apply (fmt_int 10); lia|]].
  unfold shiftlon_f, shiftlon_g, shift_neg_cmp, shift_neg_thr, shift_neg_period, rcmp. rewrite q2r_360.
  replace (350 + 10) with 360 by lra. rewrite (rnd_id 360 fmt_360).
  destruct (Rle_dec 360 360) as [_|H]; [|lra]. replace (360 - 360) with 0 by lra. apply (rnd_id 0 fmt_0).
Qed.

(* the conditioning hypotheses are satisfiable: exact components of a unit vector, no arctan2 error *)
Example C09_conditioning_instance : is_unit (unit_rad 1 1) /\ chord2 (unit_rad 1 1) (unit_rad 1 1) <= 0 * 0.
Proof. split; [apply unit_rad_unit|]. unfold chord2, Rsqr. lra. Qed.

Example C09_history_instance :
  nth 1 (session [] [CShiftlon (350 # 1) (Some (- 10 # 1)%Q) true; CEq2sdss 500 0; CShiftlon (10 # 1) None true]) (AQ 0%Q)
  = ARes (Err EValue).
Proof.
  destruct (history_independent [CShiftlon (350 # 1) (Some (- 10 # 1)%Q) true] (CEq2sdss 500 0) [CShiftlon (10 # 1) None true] []) as [H _].
  simpl length in H. simpl app in H. rewrite H. simpl. f_equal. apply sdss_rejects. lra.
Qed.

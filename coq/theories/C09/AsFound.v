(* C09 -- the defect of the as-found latitude formula (arcsin of the third component), stated about the
   model with the shape flag false; independent of the flags in Gen.v.  Documentation of repaired defect
   C09-euler-arcsin-pole-nan: at the documented galactic pole the arcsin formula puts the point more than
   1e-5 degree away from the direction of the rotated vector (the formula itself, not rounding). *)
From Coq Require Import Reals Lra Psatz.
From Interval Require Import Tactic.
From EsVerif.Common Require Import Base.
From EsVerif.C09 Require Import Gen Model Spec Geometry Proofs Rows.
Open Scope R_scope.

Definition hlen (v : vec) : R := sqrt (vx v * vx v + vy v * vy v).

(* the chord between two vectors is at least the difference of their horizontal lengths *)
Lemma horiz_chord U W : (hlen U - hlen W)² <= chord2 U W.
Proof.
  destruct U as [[a b] c]; destruct W as [[x y] z]. unfold hlen, chord2, vx, vy, vz; simpl fst; simpl snd.
  set (p := sqrt (a * a + b * b)). set (q := sqrt (x * x + y * y)).
  assert (p * p = a * a + b * b) as Hp by (apply sqrt_sqrt; nra).
  assert (q * q = x * x + y * y) as Hq by (apply sqrt_sqrt; nra).
  assert (0 <= p) as Hp0 by apply sqrt_pos. assert (0 <= q) as Hq0 by apply sqrt_pos.
  assert (a * x + b * y <= p * q) as CS.
  { assert ((a * x + b * y) * (a * x + b * y) <= (p * q) * (p * q)) as H2.
    { replace (p * q * (p * q)) with ((p * p) * (q * q)) by ring. rewrite Hp, Hq.
      pose proof (Rle_0_sqr (a * y - b * x)) as S. unfold Rsqr in S. nra. }
    assert (0 <= p * q) as Hpq by (apply Rmult_le_pos; assumption).
    destruct (Rle_dec (a * x + b * y) (p * q)) as [|Hn]; [assumption|]. exfalso. nra. }
  pose proof (Rle_0_sqr (c - z)) as Sz. unfold Rsqr in *. nra.
Qed.

Lemma hlen_Rz a v : hlen (Rz a v) = hlen v.
Proof.
  unfold hlen, Rz, vx, vy, vz; simpl fst; simpl snd. f_equal.
  pose proof (sc1 a) as H. generalize dependent (sin a); generalize dependent (cos a); intros c s H. nra.
Qed.

Lemma hlen_scale k v : 0 <= k -> hlen (scale k v) = k * hlen v.
Proof.
  intro Hk. unfold hlen, scale, vx, vy, vz; simpl fst; simpl snd.
  replace (k * fst (fst v) * (k * fst (fst v)) + k * snd (fst v) * (k * snd (fst v)))
    with (k * k * (fst (fst v) * fst (fst v) + snd (fst v) * snd (fst v))) by ring.
  rewrite sqrt_mult by nra. rewrite sqrt_square by exact Hk. reflexivity.
Qed.

Lemma hlen_unit_rad lon lat : 0 <= cos lat -> hlen (unit_rad lon lat) = cos lat.
Proof.
  intro Hc. unfold hlen, unit_rad, vx, vy, vz; simpl fst; simpl snd.
  replace (cos lat * cos lon * (cos lat * cos lon) + cos lat * sin lon * (cos lat * sin lon))
    with (cos lat * cos lat * (sin lon * sin lon + cos lon * cos lon)) by ring.
  rewrite sc1, Rmult_1_r. apply sqrt_square. exact Hc.
Qed.

Definition pole_row : row := euler_row false 1.
Definition pole_z : R := vz (euler_xyz pole_row doc_alphaG doc_deltaG).
Definition pole_h : R := hlen (euler_xyz pole_row doc_alphaG doc_deltaG).
Definition pole_n : R := euler_norm pole_row doc_alphaG doc_deltaG.

Ltac expand_pole := cbv [pole_z pole_h pole_n pole_row hlen euler_norm euler_xyz euler_row nth Nat.sub rows_J2000 row_J2000_1
  r_psi r_st r_ct r_phi vx vy vz fst snd doc_alphaG doc_deltaG D2R chord_of tol5 Rsqr].

Lemma pole_numbers : 0 < pole_z < 1 /\ 0 < pole_n /\ chord_of tol5 < sqrt (1 - pole_z * pole_z) - pole_h / pole_n.
Proof.
  repeat split; expand_pole; interval with (i_prec 120).
Qed.

(* eq2gal of the documented galactic pole, as-found formula: the returned position is more than 1e-5 degree
   away from the direction of the rotated vector *)
Lemma asfound_pole_refuted :
  let p := euler_R_gen false pole_row doc_alphaG doc_deltaG in
  ~ within_sky tol5 (unit_deg (fst p) (snd p)) (euler_dir pole_row doc_alphaG doc_deltaG).
Proof.
  intros p H. unfold within_sky in H.
  destruct pole_numbers as [[Hz0 Hz1] [Hn Hgap]].
  pose proof (horiz_chord (unit_deg (fst p) (snd p)) (euler_dir pole_row doc_alphaG doc_deltaG)) as HC.
  (* horizontal length of the returned position: cos(asin z) = sqrt(1 - z^2) *)
  assert (hlen (unit_deg (fst p) (snd p)) = sqrt (1 - pole_z * pole_z)) as HU.
  { unfold p, euler_R_gen, lat_by. cbv zeta.
    change (vz (euler_xyz pole_row doc_alphaG doc_deltaG)) with pole_z.
    cbn [fst snd]. unfold unit_deg. rewrite !D2R_R2D. rewrite Rmin_left by lra.
    assert (cos (asin pole_z) = sqrt (1 - pole_z²)) as Hc by (apply cos_asin; lra).
    rewrite hlen_unit_rad; [rewrite Hc; unfold Rsqr; reflexivity | rewrite Hc; apply sqrt_pos]. }
  assert (hlen (euler_dir pole_row doc_alphaG doc_deltaG) = pole_h / pole_n) as HW.
  { unfold euler_dir. fold pole_n. rewrite hlen_scale by (left; apply Rinv_0_lt_compat; exact Hn).
    rewrite hlen_Rz. fold pole_h. field. lra. }
  rewrite HU, HW in HC.
  assert (0 < chord_of tol5) as Ht by (unfold chord_of, tol5, D2R; interval).
  set (g := sqrt (1 - pole_z * pole_z) - pole_h / pole_n) in *. set (t := chord_of tol5) in *.
  unfold Rsqr in *. nra.
Qed.

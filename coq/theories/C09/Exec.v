(* C09 Exec -- glue used by the generated case files.
   (Q) verdict terms evaluated by vm_compute on exact rationals (binary64 values as n # d): output
       ranges, finiteness (a non-finite output arrives as None), unit length, container forms,
       shiftlon/shiftra (model on exact rationals + the property checker).
   (R) statements of the per-case interval certificates and the tactic that closes them.
   Depends on Gen/Model/Spec only (not on the proofs), so that failing inputs can still be searched
   for when a regenerated constant or shape flag breaks a proof. *)
From Coq Require Import Reals QArith Qround Qabs List.
From Interval Require Import Tactic.
From EsVerif.Common Require Import Base.
From EsVerif.C09 Require Import Gen Model Spec.
Import ListNotations.

(* ------------------------------------------------------------------ (Q) exact checks *)
Open Scope Q_scope.

Definition oq := option Q.     (* None: the implementation returned nan or +-inf *)

Definition both (f : Q -> Q -> bool) (a b : oq) : bool :=
  match a, b with Some x, Some y => f x y | _, _ => false end.

(* euler family, rotate, xyz2eq(deg), sdss2eq: finite, lon in [0,360], lat in [-90,90] *)
Definition lonlat_ok (p : oq * oq) : bool := both lonlat_range_check (fst p) (snd p).
(* xyz2eq(rad): finite, ra in [0, 2 pi], dec in [-pi/2, pi/2]; decided with rational bounds of pi
   that lie within 1e-15 of it on the safe side of every binary64 number near the bounds *)
Definition pi_hi : Q := 3141592653589794 # 1000000000000000.
Definition lonlat_rad_ok (p : oq * oq) : bool :=
  both (fun lon lat => q_in 0 (2 * pi_hi) lon && q_in (- (pi_hi / 2)) (pi_hi / 2) lat) (fst p) (snd p).
Definition sdss_ok (p : oq * oq) : bool := both sdss_range_check (fst p) (snd p).
Definition unit_ok (v : oq * oq * oq) : bool :=
  match v with (Some x, Some y, Some z) => unit_len_check x y z | _ => false end.

Definition oq_eqb (a b : oq) : bool :=
  match a, b with Some x, Some y => Qeq_bool x y | None, None => true | _, _ => false end.
Definition pair_same (p q : oq * oq) : bool := oq_eqb (fst p) (fst q) && oq_eqb (snd p) (snd q).
Definition triple_same (p q : oq * oq * oq) : bool :=
  oq_eqb (fst (fst p)) (fst (fst q)) && oq_eqb (snd (fst p)) (snd (fst q)) && oq_eqb (snd p) (snd q).

Fixpoint all_pairs (f : (oq * oq) -> bool) (l : list (oq * oq)) : bool :=
  match l with [] => true | p :: t => f p && all_pairs f t end.
Fixpoint all_same2 (l1 l2 : list (oq * oq)) : bool :=
  match l1, l2 with
  | [], [] => true
  | p :: t1, q :: t2 => pair_same p q && all_same2 t1 t2
  | _, _ => false
  end.

(* one array call [arr] and the same points one by one as scalars [sca]: every output accepted by
   [f], and both container forms return the same numbers *)
Definition forms_ok (f : (oq * oq) -> bool) (arr sca : list (oq * oq)) : bool :=
  all_pairs f arr && all_same2 arr sca.

(* the same call in another container form (list, strided view, long array, other dtype ...) may take another
   numpy inner loop (SIMD or scalar) and differ in the last bits: equal up to [tol], or -- for a periodic coordinate --
   a whole period [per] apart up to [tol] (per = 0: not periodic) *)
Definition q_close (tol per : Q) (x y : Q) : bool :=
  let d := Qabs (x - y) in
  Qle_bool d tol || (negb (Qeq_bool per 0) && Qle_bool (per - tol) d && Qle_bool d (per + tol)).
Definition oq_close (tol per : Q) (a b : oq) : bool :=
  match a, b with Some x, Some y => q_close tol per x y | None, None => true | _, _ => false end.
Definition pair_close (tol per1 per2 : Q) (p q : oq * oq) : bool :=
  oq_close tol per1 (fst p) (fst q) && oq_close tol per2 (snd p) (snd q).
Fixpoint all_close2 (tol per1 per2 : Q) (l1 l2 : list (oq * oq)) : bool :=
  match l1, l2 with
  | [], [] => true
  | p :: t1, q :: t2 => pair_close tol per1 per2 p q && all_close2 tol per1 per2 t1 t2
  | _, _ => false
  end.
Definition forms_close (f : (oq * oq) -> bool) (tol per1 per2 : Q) (arr sca : list (oq * oq)) : bool :=
  all_pairs f arr && all_close2 tol per1 per2 arr sca.
Definition triple_close (tol : Q) (p q : oq * oq * oq) : bool :=
  oq_close tol 0 (fst (fst p)) (fst (fst q)) && oq_close tol 0 (snd (fst p)) (snd (fst q)) && oq_close tol 0 (snd p) (snd q).

Fixpoint all_triples (l : list (oq * oq * oq)) : bool :=
  match l with [] => true | p :: t => unit_ok p && all_triples t end.
Fixpoint all_same3 (l1 l2 : list (oq * oq * oq)) : bool :=
  match l1, l2 with
  | [], [] => true
  | p :: t1, q :: t2 => triple_same p q && all_same3 t1 t2
  | _, _ => false
  end.
Definition xyz_forms_ok (arr sca : list (oq * oq * oq)) : bool := all_triples arr && all_same3 arr sca.
Fixpoint all_close3 (tol : Q) (l1 l2 : list (oq * oq * oq)) : bool :=
  match l1, l2 with
  | [], [] => true
  | p :: t1, q :: t2 => triple_close tol p q && all_close3 tol t1 t2
  | _, _ => false
  end.
Definition xyz_forms_close (tol : Q) (arr sca : list (oq * oq * oq)) : bool := all_triples arr && all_close3 tol arr sca.

(* range checks of eq2sdss / sdss2eq on exact rationals (the bounds are those of Gen.v: 0,360,-90,90,
   -180,180 -- Proofs.sdss_ranges_eq) *)
Definition eq2sdss_accepts (ra dec : Q) : bool := q_in 0 360 ra && q_in (-90) 90 dec.
Definition sdss2eq_accepts (cl ce : Q) : bool := q_in (-90) 90 cl && q_in (-180) 180 ce.
(* the implementation checks min/max of the whole array *)
Fixpoint all_accept (f : Q -> Q -> bool) (l : list (Q * Q)) : bool :=
  match l with [] => true | (a, b) :: t => f a b && all_accept f t end.

(* ------------------------------------------------------------------ shiftlon / shiftra *)
(* distance on the circle R/360 *)
Definition circ_dist (x y : Q) : Q :=
  let d := x - y in
  Qabs (d - 360 * inject_Z (Qfloor (d / 360 + (1 # 2)))).

(* the checker of the property with a tolerance for binary64 rounding of the sums: the result lies
   in the stated interval (decided exactly) and differs from lon - shift by a multiple of 360
   up to tol; tol = 0 is Spec.shiftlon_check *)
Definition shiftlon_check_tol (tol : Q) (lon : Q) (shift : option Q) (wrap : bool) (out : Q) : bool :=
  match shift with
  | Some s => Qle_bool (circ_dist out (lon - s)) tol && q_in_ho 0 360 out
  | None => if wrap then Qle_bool (circ_dist out lon) tol && q_in (-180) 180 out
            else Qeq_bool out lon
  end.

Definition shift_agree (tol : Q) (lon : Q) (shift : option Q) (wrap : bool) (out : Q) : bool :=
  Qle_bool (circ_dist out (shiftlon lon shift wrap)) tol.

Definition shift_verdict (exact : bool) (tol : Q) (lon : Q) (shift : option Q) (wrap : bool) (out : oq) : Z :=
  match out with
  | None => 3%Z
  | Some o =>
      verdict (shift_agree (if exact then 0 else tol) lon shift wrap o)
              (if exact then shiftlon_check lon shift wrap o else shiftlon_check_tol tol lon shift wrap o)
  end.

Fixpoint zmax_list (l : list Z) : Z := match l with [] => 0%Z | x :: t => Z.max x (zmax_list t) end.

(* ------------------------------------------------------------------ (R) certificates *)
Open Scope R_scope.

(* chord^2 between two vectors at most e2 *)
Definition near2 (e2 : R) (u v : vec) : Prop := chord2 u v <= e2.
(* model tie: 1e-12 rad on the sky / in space *)
Definition tie2 : R := 1 / 1000000000000000000000000.
Definition tie (u v : vec) : Prop := near2 tie2 u v.
(* the great-circle angle for pairs in the same / in opposite hemispheres (Geometry.sep_is_angle) *)
Definition sep_far (u v : vec) : R := PI - sep u (vopp v).

Definition sep_kept (far : bool) (t : R) (U1 U2 u1 u2 : vec) : Prop :=
  if far then Rabs (sep_far U1 U2 - sep_far u1 u2) <= t else Rabs (sep U1 U2 - sep u1 u2) <= t.

Definition xyzv (x y z : R) : vec := (x, y, z).

(* direction of survey coordinates given in degrees, rotated back to the equatorial frame *)
Definition sdss_dir (cl ce : R) : vec := sdss_unit (cl * D2R) (ce * D2R).
Definition eq_in_sdss_frame (ra dec : R) : vec := Rz (- sdss_node) (unit_deg ra dec).
(* eq2xyz in closed form *)
Definition xyz_model (deg stomp : bool) (ra dec : R) : vec := eq2xyz_R deg stomp ra dec.
Definition unit_of (deg : bool) (lon lat : R) : vec := if deg then unit_deg lon lat else unit_rad lon lat.

Ltac c09_unfold :=
  cbv [within_sky near2 tie tie2 sep_kept sep_far sep chord2 chord_of tol5 tol9 unit_deg unit_rad unit_of xyzv
       euler_dir euler_norm euler_xyz euler_lin Rz Rx_sc scale vopp doc_row row_inv rotate_row
       euler_row nth Nat.sub rows_J2000 rows_B1950
       row_J2000_1 row_J2000_2 row_J2000_3 row_J2000_4 row_J2000_5 row_J2000_6
       row_B1950_1 row_B1950_2 row_B1950_3 row_B1950_4 row_B1950_5 row_B1950_6
       r_psi r_st r_ct r_phi vx vy vz fst snd D2R R2D HALFPI
       doc_eps doc_alphaG doc_deltaG doc_lomega doc_alphaE doc_deltaE doc_Eomega
       sdss_dir eq_in_sdss_frame sdss_unit sdss_node sdss_etapole sdss_center_ra sdss_center_dec
       xyz_model eq2xyz_R ang_in Rsqr].

Ltac c09_cert := c09_unfold; interval with (i_prec 80).
Ltac c09_refute := c09_unfold; apply Rlt_not_le; interval with (i_prec 80).

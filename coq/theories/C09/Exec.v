(* C09 Exec — stub, being written *)
From EsVerif.C09 Require Import Gen Model Spec.

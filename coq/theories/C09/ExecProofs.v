(* C09 -- soundness of the checkers defined in Exec.v (those of Spec.v are proved sound in Proofs.v). *)
From Coq Require Import QArith Qround Qabs Lqa List.
From EsVerif.Common Require Import Base.
From EsVerif.C09 Require Import Gen Model Spec Proofs Exec.
Open Scope Q_scope.

(* what the tolerant shiftlon checker establishes *)
Definition shiftlon_ok_tol (tol : Q) (lon : Q) (shift : option Q) (wrap : bool) (out : Q) : Prop :=
  match shift with
  | Some s => (exists k : Z, Qabs (out - (lon - s) - 360 * inject_Z k) <= tol) /\ 0 <= out /\ out < 360
  | None => if wrap then (exists k : Z, Qabs (out - lon - 360 * inject_Z k) <= tol) /\ -180 <= out /\ out <= 180
            else out == lon
  end.

Lemma circ_dist_witness x y tol : Qle_bool (circ_dist x y) tol = true ->
  exists k : Z, Qabs (x - y - 360 * inject_Z k) <= tol.
Proof.
  unfold circ_dist. intro H. apply Qle_bool_iff in H.
  exists (Qfloor ((x - y) / 360 + (1 # 2))). exact H.
Qed.

Lemma shiftlon_check_tol_sound tol lon shift wrap out :
  shiftlon_check_tol tol lon shift wrap out = true -> shiftlon_ok_tol tol lon shift wrap out.
Proof.
  unfold shiftlon_check_tol, shiftlon_ok_tol. destruct shift as [s|].
  - intro H. apply andb_true_iff in H as [H1 H2]. split; [apply circ_dist_witness; exact H1 | apply q_in_ho_sound; exact H2].
  - destruct wrap.
    + intro H. apply andb_true_iff in H as [H1 H2]. split; [apply circ_dist_witness; exact H1 | apply q_in_sound; exact H2].
    + intro H. apply Qeq_bool_iff in H. exact H.
Qed.

(* with tolerance 0 the two statements coincide *)
Lemma shiftlon_ok_tol_0 lon shift wrap out : shiftlon_ok_tol 0 lon shift wrap out -> shiftlon_ok lon shift wrap out.
Proof.
  unfold shiftlon_ok_tol, shiftlon_ok. destruct shift as [s|].
  - intros [[k Hk] Hr]. split; [|exact Hr]. exists k.
    apply Qabs_Qle_condition in Hk. destruct Hk as [Hk1 Hk2]. Lqa.lra.
  - destruct wrap; [|auto]. intros [[k Hk] Hr]. split; [|exact Hr]. exists k.
    apply Qabs_Qle_condition in Hk. destruct Hk as [Hk1 Hk2]. Lqa.lra.
Qed.

Lemma lonlat_ok_sound lon lat : lonlat_ok (Some lon, Some lat) = true -> 0 <= lon <= 360 /\ -90 <= lat <= 90.
Proof.
  unfold lonlat_ok, both, lonlat_range_check; simpl. intro H. apply andb_true_iff in H as [H1 H2].
  apply q_in_sound in H1, H2. tauto.
Qed.

Lemma sdss_ok_sound cl ce : sdss_ok (Some cl, Some ce) = true -> -90 <= cl <= 90 /\ -180 <= ce <= 180.
Proof.
  unfold sdss_ok, both, sdss_range_check; simpl. intro H. apply andb_true_iff in H as [H1 H2].
  apply q_in_sound in H1, H2. tauto.
Qed.

(* C09 — the property as Props, and the boolean checkers run on the implementation's outputs. *)
From Coq Require Import Reals QArith Qround Qabs List.
From EsVerif.Common Require Import Base.
From EsVerif.C09 Require Import Gen Model.
Import ListNotations.
Open Scope R_scope.

(* tolerances of the statement, as angles in radians *)
Definition tol5 : R := 1 / 100000 * D2R.          (* 1e-5 degree *)
Definition tol9 : R := 1 / 1000000000 * D2R.      (* 1e-9 degree *)

Definition is_unit (v : vec) : Prop := norm2 v = 1.

(* great-circle angle between two unit vectors *)
Definition angle (u v : vec) : R := acos (dot u v).

(* "u and v are within the angle t on the sky", stated through the chord 2 sin(t/2) so that it
   can be evaluated by interval arithmetic (Geometry.within_sky_angle: equivalent to
   angle u v <= t for unit vectors and 0 <= t <= PI) *)
Definition chord_of (t : R) : R := 2 * sin (t / 2).
Definition within_sky (t : R) (u v : vec) : Prop := chord2 u v <= (chord_of t)².

(* the angle in a form interval arithmetic can evaluate everywhere except at antipodes
   (Geometry.sep_is_angle: sep u v = angle u v for unit vectors with u <> -v) *)
Definition sep (u v : vec) : R := 2 * atan (sqrt (chord2 u v) / sqrt (chord2 u (vopp v))).

(* a map of directions preserves separations / is undone by g, to tolerance t *)
Definition isometry_to (t : R) (f : vec -> vec) : Prop :=
  forall u v, is_unit u -> is_unit v -> Rabs (dot (f u) (f v) - dot u v) <= t.

(* (lon, lat) in degrees are coordinates of the direction of v *)
Definition represents_deg (p : R * R) (v : vec) : Prop := unit_deg (fst p) (snd p) = normalize v.

(* ------------------------------------------------------------------ exact (Q) checkers *)
Open Scope Q_scope.

Definition q_in (lo hi x : Q) : bool := Qle_bool lo x && Qle_bool x hi.
Definition q_in_ho (lo hi x : Q) : bool := Qle_bool lo x && negb (Qle_bool hi x).   (* [lo, hi) *)

(* longitude/latitude ranges of the euler family, xyz2eq (degrees): [0,360] x [-90,90] *)
Definition lonlat_range_check (lon lat : Q) : bool := q_in 0 360 lon && q_in (-90) 90 lat.
(* corrected survey coordinates: lambda in [-90,90], eta in [-180,180] *)
Definition sdss_range_check (clambda ceta : Q) : bool := q_in (-90) 90 clambda && q_in (-180) 180 ceta.

(* |x^2+y^2+z^2 - 1| <= 2e-11 * ... : the length differs from 1 by at most tol9 (as a fraction),
   decided on the squares: (1-t)^2 <= n2 <= (1+t)^2 with t = 1.7e-11 < tol9 *)
Definition unit_tol : Q := 17 # 1000000000000.
Definition unit_len_check (x y z : Q) : bool :=
  let n2 := x * x + y * y + z * z in
  Qle_bool ((1 - unit_tol) * (1 - unit_tol)) n2 && Qle_bool n2 ((1 + unit_tol) * (1 + unit_tol)).

Definition is_integer (q : Q) : bool := Qeq_bool (inject_Z (Qfloor q)) q.

(* shiftlon: the result differs from lon - shift by a multiple of 360 and lies in the documented
   interval: [0,360) when a shift is given, [-180,180] when wrapping, unchanged otherwise *)
Definition shiftlon_ok (lon : Q) (shift : option Q) (wrap : bool) (out : Q) : Prop :=
  match shift with
  | Some s => (exists k : Z, out == lon - s + 360 * inject_Z k) /\ 0 <= out /\ out < 360
  | None => if wrap then (exists k : Z, out == lon + 360 * inject_Z k) /\ -180 <= out /\ out <= 180
            else out == lon
  end.

Definition shiftlon_check (lon : Q) (shift : option Q) (wrap : bool) (out : Q) : bool :=
  match shift with
  | Some s => is_integer ((out - lon + s) / 360) && q_in_ho 0 360 out
  | None => if wrap then is_integer ((out - lon) / 360) && q_in (-180) 180 out
            else Qeq_bool out lon
  end.

(* valid input of shiftlon: "a longitude on the range [0,360)" *)
Definition lon_valid (lon : Q) : Prop := 0 <= lon /\ lon < 360.

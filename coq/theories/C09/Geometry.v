(* C09 — geometry of the unit sphere used by the proofs: rotations, arctan2-based extraction of
   longitude/latitude, chords and angles, matrix bounds, modulus, atbound. *)
From Coq Require Import Reals Lra Lia Nsatz Psatz List.
From EsVerif.Common Require Import Base.
From EsVerif.C09 Require Import Gen Model Spec.
Open Scope R_scope.

(* ------------------------------------------------------------------ small tools *)
Lemma sc1 a : sin a * sin a + cos a * cos a = 1.
Proof. pose proof (sin2_cos2 a) as H. unfold Rsqr in H. exact H. Qed.

Lemma vec_eq (a b c a' b' c' : R) : a = a' -> b = b' -> c = c' -> (a, b, c) = (a', b', c').
Proof. intros; subst; reflexivity. Qed.

Lemma vec_eta (v : vec) : v = (vx v, vy v, vz v).
Proof. destruct v as [[x y] z]; reflexivity. Qed.

Lemma PI_neq0' : PI <> 0.
Proof. apply PI_neq0. Qed.

Lemma D2R_pos : 0 < D2R.
Proof. unfold D2R. pose proof PI_RGT_0. apply Rdiv_lt_0_compat; lra. Qed.

Lemma D2R_R2D x : x * R2D * D2R = x.
Proof. unfold R2D. pose proof D2R_pos. field. lra. Qed.

Lemma R2D_D2R x : x * D2R * R2D = x.
Proof. unfold R2D. pose proof D2R_pos. field. lra. Qed.

Lemma R2D_pos : 0 < R2D.
Proof. unfold R2D. pose proof D2R_pos. apply Rdiv_lt_0_compat; lra. Qed.

Lemma Rabs_le_inv x y : Rabs x <= y -> - y <= x <= y.
Proof. unfold Rabs. destruct (Rcase_abs x); lra. Qed.

(* ------------------------------------------------------------------ rotations *)
Lemma dot_sym u v : dot u v = dot v u.
Proof. unfold dot; ring. Qed.

Lemma dot_Rz a u v : dot (Rz a u) (Rz a v) = dot u v.
Proof.
  unfold dot, Rz, vx, vy, vz; simpl. pose proof (sc1 a) as H.
  generalize dependent (sin a); generalize dependent (cos a); intros c s H. nsatz.
Qed.

Lemma Rz_add a b v : Rz a (Rz b v) = Rz (a + b) v.
Proof.
  unfold Rz, vx, vy, vz; simpl. rewrite cos_plus, sin_plus. apply vec_eq; ring.
Qed.

Lemma Rz_0 v : Rz 0 v = v.
Proof. destruct v as [[x y] z]. unfold Rz, vx, vy, vz; simpl. rewrite cos_0, sin_0. apply vec_eq; ring. Qed.

Lemma Rz_inv a v : Rz a (Rz (- a) v) = v.
Proof. rewrite Rz_add. replace (a + - a) with 0 by ring. apply Rz_0. Qed.

Lemma Rz_inv' a v : Rz (- a) (Rz a v) = v.
Proof. rewrite Rz_add. replace (- a + a) with 0 by ring. apply Rz_0. Qed.

Lemma Rz_scale a k v : Rz a (scale k v) = scale k (Rz a v).
Proof. unfold Rz, scale, vx, vy, vz; simpl. apply vec_eq; ring. Qed.

Lemma Rz_unit a lon lat : Rz a (unit_rad lon lat) = unit_rad (lon + a) lat.
Proof. unfold Rz, unit_rad, vx, vy, vz; simpl. rewrite cos_plus, sin_plus. apply vec_eq; ring. Qed.

Lemma norm2_Rz a v : norm2 (Rz a v) = norm2 v.
Proof. apply dot_Rz. Qed.

Lemma Rx_sc_inv s c v :
  Rx_sc (- s) c (Rx_sc s c v) = (vx v, (s * s + c * c) * vy v, (s * s + c * c) * vz v).
Proof. unfold Rx_sc, vx, vy, vz; simpl. apply vec_eq; ring. Qed.

Lemma dot_Rx_sc s c u v :
  dot (Rx_sc s c u) (Rx_sc s c v) = vx u * vx v + (s * s + c * c) * (vy u * vy v + vz u * vz v).
Proof. unfold dot, Rx_sc, vx, vy, vz; simpl. ring. Qed.

Lemma Rx_sc_scale s c k v : Rx_sc s c (scale k v) = scale k (Rx_sc s c v).
Proof. unfold Rx_sc, scale, vx, vy, vz; simpl. apply vec_eq; ring. Qed.

Lemma unit_rad_unit lon lat : is_unit (unit_rad lon lat).
Proof.
  unfold is_unit, norm2, dot, unit_rad, vx, vy, vz; simpl.
  pose proof (sc1 lon) as H1. pose proof (sc1 lat) as H2.
  generalize dependent (sin lon); generalize dependent (cos lon);
  generalize dependent (sin lat); generalize dependent (cos lat); intros. nsatz.
Qed.

Lemma unit_deg_unit lon lat : is_unit (unit_deg lon lat).
Proof. apply unit_rad_unit. Qed.

(* ------------------------------------------------------------------ norms, scaling *)
Lemma norm2_nonneg v : 0 <= norm2 v.
Proof. unfold norm2, dot. nra. Qed.

Lemma norm_nonneg v : 0 <= norm v.
Proof. apply sqrt_pos. Qed.

Lemma norm_sq v : norm v * norm v = norm2 v.
Proof. apply sqrt_sqrt, norm2_nonneg. Qed.

Lemma norm_pos v : 0 < norm2 v -> 0 < norm v.
Proof. intro H. apply sqrt_lt_R0; exact H. Qed.

Lemma norm_unit v : is_unit v -> norm v = 1.
Proof. unfold is_unit, norm. intros ->. apply sqrt_1. Qed.

Lemma normalize_unit_id v : is_unit v -> normalize v = v.
Proof.
  intro H. unfold normalize. rewrite (norm_unit v H). destruct v as [[x y] z].
  unfold scale, vx, vy, vz; simpl. apply vec_eq; field.
Qed.

Lemma norm2_scale k v : norm2 (scale k v) = k * k * norm2 v.
Proof. unfold norm2, dot, scale, vx, vy, vz; simpl; ring. Qed.

Lemma norm_scale k v : 0 <= k -> norm (scale k v) = k * norm v.
Proof.
  intro Hk. unfold norm. rewrite norm2_scale. rewrite sqrt_mult; [| nra | apply norm2_nonneg].
  rewrite sqrt_square; auto.
Qed.

Lemma scale_scale a b v : scale a (scale b v) = scale (a * b) v.
Proof. unfold scale, vx, vy, vz; simpl. apply vec_eq; ring. Qed.

Lemma scale_1 v : scale 1 v = v.
Proof. destruct v as [[x y] z]. unfold scale, vx, vy, vz; simpl. apply vec_eq; ring. Qed.

Lemma normalize_is_unit v : 0 < norm2 v -> is_unit (normalize v).
Proof.
  intro H. unfold is_unit, normalize. rewrite norm2_scale. pose proof (norm_pos v H) as Hn.
  rewrite <- (norm_sq v). field. lra.
Qed.

(* normalisation ignores positive factors *)
Lemma normalize_scale k v : 0 < k -> 0 < norm2 v -> normalize (scale k v) = normalize v.
Proof.
  intros Hk Hv. unfold normalize. rewrite norm_scale by lra. rewrite scale_scale.
  pose proof (norm_pos v Hv). f_equal. field. lra.
Qed.

Lemma normalize_Rz a v : normalize (Rz a v) = Rz a (normalize v).
Proof.
  unfold normalize. rewrite Rz_scale. unfold norm. rewrite norm2_Rz. reflexivity.
Qed.

(* ------------------------------------------------------------------ arctan2 *)
Lemma sqrt_sumsq_factor x y : x <> 0 -> sqrt (x * x + y * y) = Rabs x * sqrt (1 + (y / x)²).
Proof.
  intro Hx. replace (x * x + y * y) with (x² * (1 + (y / x)²)) by (unfold Rsqr; field; exact Hx).
  rewrite sqrt_mult; [| apply Rle_0_sqr | pose proof (Rle_0_sqr (y / x)); lra].
  rewrite sqrt_Rsqr_abs. reflexivity.
Qed.

Lemma sqrt_1p_pos t : 0 < sqrt (1 + t²).
Proof. apply sqrt_lt_R0. pose proof (Rle_0_sqr t). lra. Qed.

(* with r = sqrt(x^2+y^2):  x = r cos(atan2 y x)  and  y = r sin(atan2 y x) *)
Lemma atan2_spec y x :
  x = sqrt (x * x + y * y) * cos (atan2 y x) /\ y = sqrt (x * x + y * y) * sin (atan2 y x).
Proof.
  unfold atan2.
  destruct (Rlt_dec 0 x) as [Hx|Hx].
  - assert (x <> 0) as Hx0 by lra. rewrite (sqrt_sumsq_factor x y Hx0), cos_atan, sin_atan.
    rewrite Rabs_pos_eq by lra. pose proof (sqrt_1p_pos (y / x)). split; field; lra.
  - destruct (Rlt_dec x 0) as [Hx'|Hx'].
    + assert (x <> 0) as Hx0 by lra. rewrite (sqrt_sumsq_factor x y Hx0).
      rewrite Rabs_left by lra. pose proof (sqrt_1p_pos (y / x)).
      destruct (Rle_dec 0 y).
      * rewrite neg_cos, neg_sin, cos_atan, sin_atan. split; field; lra.
      * rewrite cos_minus, sin_minus, cos_PI, sin_PI, cos_atan, sin_atan. split; field; lra.
    + assert (x = 0) by lra. subst x.
      replace (0 * 0 + y * y) with (y²) by (unfold Rsqr; ring). rewrite sqrt_Rsqr_abs.
      destruct (Rlt_dec 0 y).
      * rewrite cos_PI2, sin_PI2, Rabs_pos_eq by lra. lra.
      * destruct (Rlt_dec y 0).
        -- rewrite cos_neg, sin_neg, cos_PI2, sin_PI2, Rabs_left by lra. lra.
        -- assert (y = 0) by lra. subst y. rewrite Rabs_R0. lra.
Qed.

Lemma atan_pos t : 0 < t -> 0 < atan t.
Proof. intro H. rewrite <- atan_0. apply atan_increasing; exact H. Qed.

Lemma atan_neg t : t < 0 -> atan t < 0.
Proof. intro H. rewrite <- atan_0. apply atan_increasing; exact H. Qed.

Lemma atan2_bound y x : - PI < atan2 y x <= PI.
Proof.
  unfold atan2. pose proof PI_RGT_0 as Hpi.
  destruct (Rlt_dec 0 x) as [Hx|Hx].
  - pose proof (atan_bound (y / x)). lra.
  - destruct (Rlt_dec x 0) as [Hx'|Hx'].
    + pose proof (atan_bound (y / x)) as Hb. destruct (Rle_dec 0 y) as [Hy|Hy].
      * assert (atan (y / x) <= 0).
        { destruct (Req_dec y 0) as [->|Hy0].
          - unfold Rdiv. rewrite Rmult_0_l, atan_0. lra.
          - left. apply atan_neg. assert (/ x < 0) by (apply Rinv_lt_0_compat; lra). unfold Rdiv. nra. }
        lra.
      * assert (0 < atan (y / x)).
        { apply atan_pos. assert (/ x < 0) by (apply Rinv_lt_0_compat; lra). unfold Rdiv. nra. }
        lra.
    + destruct (Rlt_dec 0 y); [lra|]. destruct (Rlt_dec y 0); lra.
Qed.

(* with a non-negative second argument (a latitude): [-pi/2, pi/2] *)
Lemma atan2_bound_lat y x : 0 <= x -> - (PI / 2) <= atan2 y x <= PI / 2.
Proof.
  intro H. unfold atan2. pose proof PI_RGT_0 as Hpi.
  destruct (Rlt_dec 0 x) as [Hx|Hx].
  - pose proof (atan_bound (y / x)). lra.
  - destruct (Rlt_dec x 0); [lra|]. destruct (Rlt_dec 0 y); [lra|]. destruct (Rlt_dec y 0); lra.
Qed.

(* extraction: the longitude and latitude every routine computes are coordinates of the
   direction of the vector *)
Lemma lonlat_extract v : 0 < norm2 v -> unit_rad (lon_of v) (lat_of v) = normalize v.
Proof.
  intro Hv. destruct v as [[x y] z]. unfold lon_of, lat_of, vx, vy, vz; simpl fst; simpl snd.
  set (rho := sqrt (x * x + y * y)).
  destruct (atan2_spec y x) as [Hx Hy]. fold rho in Hx, Hy.
  destruct (atan2_spec z rho) as [Hr Hz].
  assert (rho * rho = x * x + y * y) as Hrho by (apply sqrt_sqrt; nra).
  assert (sqrt (rho * rho + z * z) = norm (x, y, z)) as HN.
  { unfold norm, norm2, dot, vx, vy, vz; simpl. rewrite Hrho. reflexivity. }
  rewrite HN in Hr, Hz. pose proof (norm_pos _ Hv) as Hn.
  set (N := norm (x, y, z)) in *.
  unfold unit_rad, normalize, scale, vx, vy, vz; simpl fst; simpl snd. fold N.
  set (lat := atan2 z rho) in *. set (lon := atan2 y x) in *.
  assert (cos lat = rho / N) as Hc by (rewrite Hr at 1; field; lra).
  assert (sin lat = z / N) as Hs by (rewrite Hz at 1; field; lra).
  apply vec_eq.
  - rewrite Hc. transitivity (/ N * (rho * cos lon)); [field; lra | rewrite <- Hx; reflexivity].
  - rewrite Hc. transitivity (/ N * (rho * sin lon)); [field; lra | rewrite <- Hy; reflexivity].
  - rewrite Hs. field; lra.
Qed.

(* ------------------------------------------------------------------ chords and angles *)
Lemma chord2_dot u v : chord2 u v = norm2 u - 2 * dot u v + norm2 v.
Proof. unfold chord2, norm2, dot, Rsqr. ring. Qed.

Lemma chord2_unit u v : is_unit u -> is_unit v -> chord2 u v = 2 - 2 * dot u v.
Proof. unfold is_unit. intros Hu Hv. rewrite chord2_dot, Hu, Hv. ring. Qed.

Lemma chord2_nonneg u v : 0 <= chord2 u v.
Proof. unfold chord2. pose proof (Rle_0_sqr (vx u - vx v)). pose proof (Rle_0_sqr (vy u - vy v)).
  pose proof (Rle_0_sqr (vz u - vz v)). lra. Qed.

Lemma chord2_sym u v : chord2 u v = chord2 v u.
Proof. unfold chord2, Rsqr. ring. Qed.

Lemma chord2_vsub u v : chord2 u v = norm2 (vsub u v).
Proof. unfold chord2, norm2, dot, vsub, vx, vy, vz, Rsqr; simpl. ring. Qed.

Lemma chord2_Rz a u v : chord2 (Rz a u) (Rz a v) = chord2 u v.
Proof. rewrite !chord2_dot, !norm2_Rz, dot_Rz. reflexivity. Qed.

(* Cauchy-Schwarz (Lagrange's identity) *)
Lemma cauchy_schwarz u v : (dot u v)² <= norm2 u * norm2 v.
Proof.
  destruct u as [[a b] c]; destruct v as [[x y] z]. unfold norm2, dot, vx, vy, vz, Rsqr; simpl.
  assert ((a * a + b * b + c * c) * (x * x + y * y + z * z) - (a * x + b * y + c * z) * (a * x + b * y + c * z)
          = (a * y - b * x)² + (a * z - c * x)² + (b * z - c * y)²) as H by (unfold Rsqr; ring).
  pose proof (Rle_0_sqr (a * y - b * x)). pose proof (Rle_0_sqr (a * z - c * x)).
  pose proof (Rle_0_sqr (b * z - c * y)). lra.
Qed.

Lemma dot_unit_bound u v : is_unit u -> is_unit v -> -1 <= dot u v <= 1.
Proof.
  unfold is_unit. intros Hu Hv. pose proof (cauchy_schwarz u v) as H. rewrite Hu, Hv in H.
  unfold Rsqr in H. nra.
Qed.

Lemma chord_of_sq t : (chord_of t)² = 2 - 2 * cos t.
Proof.
  unfold chord_of, Rsqr. replace t with (2 * (t / 2)) at 3 by field.
  rewrite cos_2a_sin. ring.
Qed.

(* within_sky t is "the great-circle angle is at most t" *)
Lemma within_sky_angle t u v : is_unit u -> is_unit v -> 0 <= t <= PI ->
  (within_sky t u v <-> angle u v <= t).
Proof.
  intros Hu Hv Ht. unfold within_sky, angle. rewrite chord_of_sq, (chord2_unit u v Hu Hv).
  pose proof (dot_unit_bound u v Hu Hv) as Hd.
  pose proof (acos_bound (dot u v)) as Hb. pose proof (cos_acos (dot u v) Hd) as Hc.
  split; intro H.
  - destruct (Rle_dec (acos (dot u v)) t) as [|Hn]; [assumption|exfalso].
    assert (cos (acos (dot u v)) < cos t) by (apply cos_decreasing_1; lra). lra.
  - assert (cos t <= cos (acos (dot u v))) by (apply cos_decr_1; lra). lra.
Qed.

(* the atan form of the angle *)
Lemma sep_is_angle u v : is_unit u -> is_unit v -> 0 < chord2 u (vopp v) -> sep u v = angle u v.
Proof.
  intros Hu Hv Hne. unfold sep, angle.
  assert (is_unit (vopp v)) as Hv'.
  { unfold is_unit, norm2, dot, vopp, vx, vy, vz in *; simpl. rewrite <- Hv. ring. }
  assert (dot u (vopp v) = - dot u v) as Hdo by (unfold dot, vopp, vx, vy, vz; simpl; ring).
  rewrite (chord2_unit u v Hu Hv). rewrite (chord2_unit u _ Hu Hv') in *. rewrite Hdo in *.
  pose proof (dot_unit_bound u v Hu Hv) as Hd.
  set (p := dot u v) in *.
  set (t := sqrt (2 - 2 * p) / sqrt (2 - 2 * - p)).
  assert (0 < sqrt (2 - 2 * - p)) as Hs by (apply sqrt_lt_R0; lra).
  assert (0 <= sqrt (2 - 2 * p)) as Hs0 by apply sqrt_pos.
  assert (0 <= t) as Ht by (unfold t; apply Rmult_le_pos; [assumption | left; apply Rinv_0_lt_compat; assumption]).
  assert (t² = (2 - 2 * p) / (2 + 2 * p)) as Ht2.
  { unfold t, Rsqr. replace (sqrt (2 - 2 * p) / sqrt (2 - 2 * - p) * (sqrt (2 - 2 * p) / sqrt (2 - 2 * - p)))
      with ((sqrt (2 - 2 * p) * sqrt (2 - 2 * p)) / (sqrt (2 - 2 * - p) * sqrt (2 - 2 * - p))) by (field; lra).
    rewrite !sqrt_sqrt by lra. f_equal. ring. }
  assert (0 <= atan t < PI / 2) as Ha.
  { split; [| apply atan_bound]. destruct (Req_dec t 0) as [->|]; [rewrite atan_0; lra|].
    left; apply atan_pos; lra. }
  symmetry. rewrite <- (acos_cos (2 * atan t)) by lra. f_equal.
  rewrite cos_2a_cos, cos_atan.
  pose proof (sqrt_1p_pos t) as Hsp.
  assert (sqrt (1 + t²) * sqrt (1 + t²) = 1 + t²) as Hss by (apply sqrt_sqrt; pose proof (Rle_0_sqr t); lra).
  set (s := sqrt (1 + t²)) in *.
  replace (2 * (1 / s) * (1 / s) - 1) with (2 / (s * s) - 1) by (field; lra).
  rewrite Hss, Ht2. field. lra.
Qed.

(* a vector within chord d < 1 of a unit vector u makes an angle of at most asin d with it:
   dot u v >= sqrt(1 - d^2) |v|, stated on squares *)
Lemma chord_bounds_angle u v d : is_unit u -> 0 <= d < 1 -> chord2 u v <= d * d ->
  0 < dot u v /\ (1 - d * d) * norm2 v <= (dot u v)².
Proof.
  unfold is_unit. intros Hu Hd H. rewrite chord2_dot, Hu in H.
  pose proof (norm2_nonneg v) as Hn. set (p := dot u v) in *. set (N := norm2 v) in *.
  assert (d * d < 1) as Hdd by nra. assert (0 <= d * d) as Hdd0 by nra.
  set (e := d * d) in *. clearbody e p N. clear Hd.
  split; [lra|]. unfold Rsqr.
  pose proof (Rle_0_sqr (p - (1 - e))) as H1. unfold Rsqr in H1.
  assert (0 <= (1 - e) * (e - 1 + 2 * p - N)) as H2 by (apply Rmult_le_pos; lra).
  nra.
Qed.

(* ------------------------------------------------------------------ matrices *)
Lemma mapply_msub a b u : mapply (msub a b) u = vsub (mapply a u) (mapply b u).
Proof.
  destruct a as [[[[a1 a2] a3] [[a4 a5] a6]] [[a7 a8] a9]].
  destruct b as [[[[b1 b2] b3] [[b4 b5] b6]] [[b7 b8] b9]].
  unfold mapply, msub, vsub, dot, mrow1, mrow2, mrow3, vx, vy, vz; simpl. apply vec_eq; ring.
Qed.

Lemma frob_bound m u : norm2 (mapply m u) <= frob2 m * norm2 u.
Proof.
  unfold frob2, mapply. unfold norm2 at 1. unfold dot at 1. unfold vx, vy, vz; simpl fst; simpl snd.
  pose proof (cauchy_schwarz (mrow1 m) u) as H1. pose proof (cauchy_schwarz (mrow2 m) u) as H2.
  pose proof (cauchy_schwarz (mrow3 m) u) as H3. unfold Rsqr in *. lra.
Qed.

Lemma mat_close a b u e : is_unit u -> frob2 (msub a b) <= e -> chord2 (mapply a u) (mapply b u) <= e.
Proof.
  intros Hu H. rewrite chord2_vsub, <- mapply_msub. pose proof (frob_bound (msub a b) u) as Hb.
  rewrite Hu in Hb. lra.
Qed.

Lemma mapply_mmul a b u : mapply (mmul a b) u = mapply a (mapply b u).
Proof.
  destruct a as [[[[a1 a2] a3] [[a4 a5] a6]] [[a7 a8] a9]].
  destruct b as [[[[b1 b2] b3] [[b4 b5] b6]] [[b7 b8] b9]].
  destruct u as [[x y] z].
  unfold mapply, mmul, mcol, dot, mrow1, mrow2, mrow3, vx, vy, vz; simpl. apply vec_eq; ring.
Qed.

(* ------------------------------------------------------------------ x % m *)
Lemma Rmod_spec x m : 0 < m -> (exists k : Z, Rmod x m = x - IZR k * m) /\ 0 <= Rmod x m < m.
Proof.
  intro Hm. unfold Rmod. split; [eexists; reflexivity|].
  destruct (base_Int_part (x / m)) as [H1 H2].
  assert (x = x / m * m) as Hx by (field; lra).
  set (k := IZR (Int_part (x / m))) in *. set (q := x / m) in *. nra.
Qed.

Lemma cos_period_Z x (k : Z) : cos (x + 2 * IZR k * PI) = cos x.
Proof.
  destruct (Z_le_gt_dec 0 k) as [H|H].
  - rewrite <- (Z2Nat.id k H), <- INR_IZR_INZ. apply cos_period.
  - rewrite <- (cos_period (x + 2 * IZR k * PI) (Z.to_nat (- k))).
    rewrite INR_IZR_INZ, Z2Nat.id by lia. rewrite opp_IZR. f_equal. ring.
Qed.

Lemma sin_period_Z x (k : Z) : sin (x + 2 * IZR k * PI) = sin x.
Proof.
  destruct (Z_le_gt_dec 0 k) as [H|H].
  - rewrite <- (Z2Nat.id k H), <- INR_IZR_INZ. apply sin_period.
  - rewrite <- (sin_period (x + 2 * IZR k * PI) (Z.to_nat (- k))).
    rewrite INR_IZR_INZ, Z2Nat.id by lia. rewrite opp_IZR. f_equal. ring.
Qed.

Lemma unit_rad_period lon lat (k : Z) : unit_rad (lon + 2 * IZR k * PI) lat = unit_rad lon lat.
Proof. unfold unit_rad. rewrite cos_period_Z, sin_period_Z. reflexivity. Qed.

(* a longitude in degrees may be changed by whole turns *)
Lemma unit_deg_period lon lat (k : Z) : unit_deg (lon + 360 * IZR k) lat = unit_deg lon lat.
Proof.
  unfold unit_deg. replace ((lon + 360 * IZR k) * D2R) with (lon * D2R + 2 * IZR k * PI)
    by (unfold D2R; field).
  apply unit_rad_period.
Qed.

(* ------------------------------------------------------------------ atbound *)
Lemma atbound_period_val : atbound_period = 360.
Proof. unfold atbound_period. lra. Qed.

Lemma atb_up_spec fuel x lo :
  exists n : nat, atb_up fuel x lo = x + 360 * INR n /\
    (lo - 360 * INR fuel <= x -> lo <= atb_up fuel x lo /\ (atb_up fuel x lo = x \/ atb_up fuel x lo < lo + 360)).
Proof.
  revert x. induction fuel as [|f IH]; intro x.
  - exists 0%nat. simpl. split; [lra|]. intro H. lra.
  - cbn [atb_up]. destruct (Rlt_dec x lo) as [Hlt|Hge].
    + destruct (IH (x + atbound_period)) as [n [E R]]. exists (S n). rewrite E, atbound_period_val, S_INR.
      split; [lra|]. intro H. rewrite S_INR in H. rewrite atbound_period_val in *.
      destruct R as [R1 R2]; [lra|]. rewrite E in *. split; [lra|]. right.
      destruct R2 as [R2|R2]; lra.
    + exists 0%nat. simpl. split; [lra|]. intros _. lra.
Qed.

Lemma atb_down_spec fuel x hi :
  exists n : nat, atb_down fuel x hi = x - 360 * INR n /\
    (x <= hi + 360 * INR fuel -> atb_down fuel x hi <= hi /\ (atb_down fuel x hi = x \/ hi - 360 < atb_down fuel x hi)).
Proof.
  revert x. induction fuel as [|f IH]; intro x.
  - exists 0%nat. simpl. split; [lra|]. intro H. lra.
  - cbn [atb_down]. destruct (Rlt_dec hi x) as [Hlt|Hge].
    + destruct (IH (x - atbound_period)) as [n [E R]]. exists (S n). rewrite E, atbound_period_val, S_INR.
      split; [lra|]. intro H. rewrite S_INR in H. rewrite atbound_period_val in *.
      destruct R as [R1 R2]; [lra|]. rewrite E in *. split; [lra|]. right.
      destruct R2 as [R2|R2]; lra.
    + exists 0%nat. simpl. split; [lra|]. intros _. lra.
Qed.

(* for a window [lo, lo+360]: the result is the input moved by whole turns and lies in the
   window, provided the input is within [fuel] turns of it (then both loops have terminated) *)
Lemma atbound_spec fuel x lo :
  lo - 360 * INR fuel <= x <= lo + 360 + 360 * INR fuel ->
  (exists k : Z, atbound fuel x (lo, lo + 360) = x + 360 * IZR k) /\
  lo <= atbound fuel x (lo, lo + 360) <= lo + 360.
Proof.
  intros [H1 H2]. unfold atbound; simpl fst; simpl snd.
  destruct (atb_up_spec fuel x lo) as [n [E R]]. specialize (R H1). destruct R as [R1 R2].
  set (y := atb_up fuel x lo) in *.
  destruct (atb_down_spec fuel y (lo + 360)) as [m [E' R']].
  assert (y <= lo + 360 + 360 * INR fuel) as Hy by (destruct R2 as [->|]; [lra | pose proof (pos_INR fuel); lra]).
  specialize (R' Hy). destruct R' as [R1' R2'].
  split.
  - exists (Z.of_nat n - Z.of_nat m)%Z. rewrite E', E, minus_IZR, <- !INR_IZR_INZ. ring.
  - split; [|lra]. destruct R2' as [->|]; lra.
Qed.

(* ------------------------------------------------------------------ normalising a nearby vector *)
Lemma dot_scale_l k w u : dot (scale k w) u = k * dot w u.
Proof. unfold dot, scale, vx, vy, vz; simpl. ring. Qed.

(* if w is within chord d <= 1/2 of the unit vector u then w is not zero and its direction is
   within chord sqrt(2) d of u *)
Lemma direction_close w u d : is_unit u -> 0 <= d <= 1 / 2 -> chord2 w u <= d * d ->
  0 < norm2 w /\ chord2 (normalize w) u <= 2 * (d * d).
Proof.
  intros Hu Hd H. rewrite chord2_dot in H. unfold is_unit in Hu. rewrite Hu in H.
  pose proof (cauchy_schwarz w u) as CS. rewrite Hu, Rmult_1_r in CS. unfold Rsqr in CS.
  pose proof (norm_sq w) as Hr. pose proof (norm_nonneg w) as Hr0.
  set (r := norm w) in *. set (p := dot w u) in *. rewrite <- Hr in H, CS.
  assert (p <= r) as Hpr by nra.
  assert (d * d <= 1 / 4) as Hdd by nra.
  assert ((r - 1) * (r - 1) <= d * d) as Hr1 by nra.
  assert (1 / 2 <= r) as Hrl by nra.
  assert (0 < norm2 w) as Hn by (rewrite <- Hr; nra).
  split; [exact Hn|].
  rewrite chord2_dot, (normalize_is_unit w Hn), Hu. unfold normalize. rewrite dot_scale_l. fold r p.
  assert (/ r * p = p / r) as -> by (field; lra).
  apply Rmult_le_reg_r with r; [lra|].
  replace ((1 - 2 * (p / r) + 1) * r) with (2 * r - 2 * p) by (field; lra).
  assert (0 <= d * d * (2 * r - 1)) as Hprod by (apply Rmult_le_pos; nra).
  pose proof (Rle_0_sqr (r - 1)) as Hsq. unfold Rsqr in Hsq. clearbody r p. nra.
Qed.

Lemma chord2_triangle2 a b c : chord2 a c <= 2 * chord2 a b + 2 * chord2 b c.
Proof.
  unfold chord2, Rsqr.
  assert (forall p q r : R, (p - r) * (p - r) <= 2 * ((p - q) * (p - q)) + 2 * ((q - r) * (q - r))) as H.
  { intros p q r. pose proof (Rle_0_sqr ((p - q) - (q - r))) as S. unfold Rsqr in S. nra. }
  pose proof (H (vx a) (vx b) (vx c)). pose proof (H (vy a) (vy b) (vy c)). pose proof (H (vz a) (vz b) (vz c)). lra.
Qed.

(* a vector whose squared length is within e of 1 is within chord e of its direction *)
Lemma norm_near_one x e : 0 <= e <= 1 / 2 -> Rabs (norm2 x - 1) <= e -> chord2 x (normalize x) <= e * e.
Proof.
  intros He H. apply Rabs_le_inv in H.
  assert (0 < norm2 x) as Hn by lra. pose proof (norm_pos x Hn) as Hr. pose proof (norm_sq x) as Hs.
  assert (chord2 x (normalize x) = (norm x - 1) * (norm x - 1)) as ->.
  { destruct x as [[p q] t]. unfold chord2, normalize, scale, Rsqr, vx, vy, vz; simpl fst; simpl snd.
    set (r := norm (p, q, t)) in *.
    assert (norm2 (p, q, t) = p * p + q * q + t * t) as En by (unfold norm2, dot, vx, vy, vz; simpl; ring).
    rewrite En in Hs.
    replace ((p - / r * p) * (p - / r * p) + (q - / r * q) * (q - / r * q) + (t - / r * t) * (t - / r * t))
      with ((p * p + q * q + t * t) * ((1 - / r) * (1 - / r))) by ring.
    rewrite <- Hs. field. lra. }
  set (r := norm x) in *. clearbody r.
  assert (Rabs (r - 1) <= e) as Hb.
  { apply Rabs_le. rewrite <- Hs in H. split; nra. }
  apply Rabs_le_inv in Hb. nra.
Qed.

(* C09 — theorems about the modelled routines (for all inputs, over the reals). *)
From Coq Require Import QArith Qround Qabs Lqa Reals Lra Lia Nsatz Psatz List.
From EsVerif.Common Require Import Base.
From EsVerif.C09 Require Import Gen Model Spec Geometry.
Open Scope R_scope.

Lemma yz_part_bound u v : is_unit u -> is_unit v -> Rabs (vy u * vy v + vz u * vz v) <= 1.
Proof.
  unfold is_unit, norm2, dot. intros Hu Hv.
  set (a := vy u) in *; set (b := vz u) in *; set (x := vy v) in *; set (y := vz v) in *.
  set (p := vx u) in *; set (q := vx v) in *. clearbody a b x y p q.
  pose proof (Rle_0_sqr p) as P1. pose proof (Rle_0_sqr q) as P2.
  pose proof (Rle_0_sqr a) as P3. pose proof (Rle_0_sqr b) as P4.
  pose proof (Rle_0_sqr x) as P5. pose proof (Rle_0_sqr y) as P6.
  pose proof (Rle_0_sqr (a * y - b * x)) as P7. unfold Rsqr in *.
  assert ((a * x + b * y) * (a * x + b * y) <= 1) as Hsq.
  { assert ((a * x + b * y) * (a * x + b * y) = (a * a + b * b) * (x * x + y * y) - (a * y - b * x) * (a * y - b * x)) as E by ring.
    assert (0 <= a * a + b * b <= 1) as Q1 by lra. assert (0 <= x * x + y * y <= 1) as Q2 by lra.
    assert ((a * a + b * b) * (x * x + y * y) <= 1 * 1) as Q3 by (apply Rmult_le_compat; lra). lra. }
  set (t := a * x + b * y) in *. apply Rabs_le. split; nra.
Qed.

Lemma is_unit_Rz a u : is_unit u -> is_unit (Rz a u).
Proof. unfold is_unit. rewrite norm2_Rz. auto. Qed.

Lemma euler_lin_inv_unfold r x :
  euler_lin (row_inv r) x = Rz (r_phi r) (Rx_sc (- r_st r) (r_ct r) (Rz (- r_psi r) x)).
Proof. reflexivity. Qed.

(* ================================================================== euler *)
Section Euler.
Variable r : row.
Let psi := r_psi r.
Let s := r_st r.
Let c := r_ct r.
Let phi := r_phi r.
Let eps := s * s + c * c - 1.

(* the three components the code computes are Rx(theta) Rz(-phi) applied to the input direction *)
Lemma euler_xyz_lin a b : euler_xyz r a b = Rx_sc s c (Rz (- phi) (unit_deg a b)).
Proof.
  unfold euler_xyz, Rx_sc, Rz, unit_deg, unit_rad, vx, vy, vz; simpl fst; simpl snd.
  fold phi s c. rewrite cos_minus, sin_minus, cos_neg, sin_neg. apply vec_eq; ring.
Qed.

Lemma euler_vec_xyz a b : euler_vec r a b = Rz psi (euler_xyz r a b).
Proof. unfold euler_vec, euler_lin. rewrite euler_xyz_lin. reflexivity. Qed.

Lemma euler_lin_mat u : euler_lin r u = mapply (euler_mat r) u.
Proof.
  destruct u as [[x y] z].
  unfold euler_lin, euler_mat, mapply, Rz, Rx_sc, dot, mrow1, mrow2, mrow3, vx, vy, vz; simpl fst; simpl snd.
  fold psi phi s c. rewrite cos_neg, sin_neg. apply vec_eq; ring.
Qed.

Lemma euler_lin_scale k u : euler_lin r (scale k u) = scale k (euler_lin r u).
Proof. unfold euler_lin. rewrite Rz_scale, Rx_sc_scale, Rz_scale. reflexivity. Qed.

(* dot products: exact up to the defect eps = s^2 + c^2 - 1 of the tabulated sine/cosine *)
Lemma euler_dot u v :
  dot (euler_lin r u) (euler_lin r v) =
  dot u v + eps * (vy (Rz (- phi) u) * vy (Rz (- phi) v) + vz (Rz (- phi) u) * vz (Rz (- phi) v)).
Proof.
  unfold euler_lin. rewrite dot_Rz, dot_Rx_sc. fold s c phi.
  rewrite <- (dot_Rz (- phi) u v). unfold eps, dot. ring.
Qed.

Lemma euler_norm2 u : norm2 (euler_lin r u) = norm2 u + eps * (norm2 u - (vx (Rz (- phi) u))²).
Proof.
  unfold norm2. rewrite euler_dot. rewrite <- (dot_Rz (- phi) u u). unfold dot, Rsqr. ring.
Qed.

Lemma euler_lin_sub u v : euler_lin r (vsub u v) = vsub (euler_lin r u) (euler_lin r v).
Proof.
  destruct u as [[a b] d]; destruct v as [[x y] z].
  unfold euler_lin, vsub, Rz, Rx_sc, vx, vy, vz; simpl fst; simpl snd. apply vec_eq; ring.
Qed.

(* chords (hence small separations) are preserved multiplicatively *)
Lemma euler_chord u v :
  Rabs (chord2 (euler_lin r u) (euler_lin r v) - chord2 u v) <= Rabs eps * chord2 u v.
Proof.
  rewrite !chord2_vsub, <- euler_lin_sub, euler_norm2.
  set (w := vsub u v).
  replace (norm2 w + eps * (norm2 w - (vx (Rz (- phi) w))²) - norm2 w)
    with (eps * (norm2 w - (vx (Rz (- phi) w))²)) by ring.
  rewrite Rabs_mult. apply Rmult_le_compat_l; [apply Rabs_pos|].
  rewrite <- (norm2_Rz (- phi) w). set (t := Rz (- phi) w).
  unfold norm2, dot, Rsqr. apply Rabs_le.
  pose proof (Rle_0_sqr (vx t)); pose proof (Rle_0_sqr (vy t)); pose proof (Rle_0_sqr (vz t)).
  unfold Rsqr in *. lra.
Qed.

(* separations are preserved up to |eps| *)
Lemma euler_near_isometry : isometry_to (Rabs eps) (euler_lin r).
Proof.
  intros u v Hu Hv. rewrite euler_dot.
  replace (dot u v + eps * (vy (Rz (- phi) u) * vy (Rz (- phi) v) + vz (Rz (- phi) u) * vz (Rz (- phi) v)) - dot u v)
    with (eps * (vy (Rz (- phi) u) * vy (Rz (- phi) v) + vz (Rz (- phi) u) * vz (Rz (- phi) v))) by ring.
  rewrite Rabs_mult. pose proof (yz_part_bound _ _ (is_unit_Rz (- phi) u Hu) (is_unit_Rz (- phi) v Hv)).
  pose proof (Rabs_pos eps). nra.
Qed.

(* the inverse selector's row undoes the map up to |eps| *)
Lemma euler_inverse_chord u :
  chord2 (euler_lin (row_inv r) (euler_lin r u)) u <= eps * eps * norm2 u.
Proof.
  rewrite euler_lin_inv_unfold. unfold euler_lin.
  fold psi phi s c. rewrite Rz_inv'. rewrite Rx_sc_inv.
  set (w := Rz (- phi) u).
  assert (u = Rz phi w) as Hu by (unfold w; rewrite Rz_inv; reflexivity).
  assert (norm2 u = norm2 w) as Hn by (unfold w; rewrite norm2_Rz; reflexivity). rewrite Hn.
  match goal with |- chord2 (Rz phi ?a) u <= _ =>
    replace (chord2 (Rz phi a) u) with (chord2 (Rz phi a) (Rz phi w)) by (rewrite <- Hu; reflexivity) end.
  rewrite chord2_Rz.
  destruct w as [[x y] z]. unfold chord2, norm2, dot, vx, vy, vz, Rsqr, eps; simpl fst; simpl snd.
  assert (0 <= (s * s + c * c - 1) * (s * s + c * c - 1) * (x * x)) by
    (apply Rmult_le_pos; [apply Rle_0_sqr | nra]).
  nra.
Qed.

(* an exact rotation when s^2 + c^2 = 1 *)
Hypothesis Hsc : s * s + c * c = 1.

Lemma euler_isometry u v : dot (euler_lin r u) (euler_lin r v) = dot u v.
Proof. rewrite euler_dot. unfold eps. rewrite Hsc. ring. Qed.

Lemma euler_inverse u : euler_lin (row_inv r) (euler_lin r u) = u.
Proof.
  rewrite euler_lin_inv_unfold. unfold euler_lin.
  fold psi phi s c. rewrite Rz_inv'. rewrite Rx_sc_inv. rewrite Hsc.
  transitivity (Rz phi (Rz (- phi) u)); [| apply Rz_inv]. f_equal.
  destruct (Rz (- phi) u) as [[x y] z]. unfold vx, vy, vz; simpl. apply vec_eq; ring.
Qed.
End Euler.

Lemma row_inv_inv r : row_inv (row_inv r) = r.
Proof.
  destruct r as [[[p s] c] f]. unfold row_inv, r_psi, r_st, r_ct, r_phi; simpl.
  rewrite Ropp_involutive. reflexivity.
Qed.

Lemma euler_inverse' r u : r_st r * r_st r + r_ct r * r_ct r = 1 -> euler_lin r (euler_lin (row_inv r) u) = u.
Proof.
  intro H. rewrite <- (row_inv_inv r) at 1. apply euler_inverse.
  transitivity (r_st r * r_st r + r_ct r * r_ct r); [|exact H].
  unfold row_inv, r_st, r_ct; simpl. ring.
Qed.

Lemma euler_norm_ok r a b : euler_norm r a b = norm (euler_vec r a b).
Proof.
  unfold euler_norm, norm. f_equal. unfold euler_vec. rewrite euler_norm2.
  rewrite (unit_deg_unit a b). f_equal. f_equal. f_equal.
  unfold Rz, unit_deg, unit_rad, vx, vy, vz; simpl fst; simpl snd.
  rewrite cos_minus, cos_neg, sin_neg. unfold Rsqr. ring.
Qed.

Lemma euler_dir_ok r a b : euler_dir r a b = normalize (euler_vec r a b).
Proof. unfold euler_dir, normalize. rewrite euler_norm_ok, euler_vec_xyz. reflexivity. Qed.

Lemma Rmod_twopi_unit x lat : unit_rad (Rmod (x + fourpi) twopi) lat = unit_rad x lat.
Proof.
  pose proof PI_RGT_0. destruct (Rmod_spec (x + fourpi) twopi) as [[k E] _]; [unfold twopi; lra|].
  rewrite E. unfold fourpi, twopi.
  replace (x + 4 * PI - IZR k * (2 * PI)) with (x + 2 * IZR (2 - k) * PI) by (rewrite minus_IZR; ring).
  apply unit_rad_period.
Qed.

(* angle extraction: the returned (longitude, latitude) are coordinates of the direction of the
   rotated vector *)
Lemma euler_gen_extract r a b : 0 < norm2 (euler_xyz r a b) -> represents_deg (euler_R_gen true r a b) (euler_vec r a b).
Proof.
  intro H. unfold represents_deg, euler_R_gen, lat_by; simpl fst; simpl snd. unfold unit_deg.
  rewrite !D2R_R2D.
  replace (lon_of (euler_xyz r a b) + r_psi r + fourpi) with (lon_of (euler_xyz r a b) + r_psi r + fourpi) by reflexivity.
  rewrite Rmod_twopi_unit. rewrite <- Rz_unit. rewrite (lonlat_extract _ H).
  rewrite euler_vec_xyz, normalize_Rz. reflexivity.
Qed.

(* the range of the returned angles *)
(* the flag regenerated from the source says that euler computes the latitude by arctan2 *)
Lemma euler_R_is r a b : euler_R r a b = euler_R_gen true r a b.
Proof. reflexivity. Qed.

Lemma euler_extract r a b : 0 < norm2 (euler_xyz r a b) -> represents_deg (euler_R r a b) (euler_vec r a b).
Proof. rewrite euler_R_is. apply euler_gen_extract. Qed.

Lemma euler_gen_range r a b :
  0 <= fst (euler_R_gen true r a b) < 360 /\ -90 <= snd (euler_R_gen true r a b) <= 90.
Proof.
  unfold euler_R_gen, lat_by; simpl fst; simpl snd. pose proof PI_RGT_0 as Hpi. pose proof D2R_pos as Hd.
  split.
  - destruct (Rmod_spec (lon_of (euler_xyz r a b) + r_psi r + fourpi) twopi) as [_ Hm]; [unfold twopi; lra|].
    unfold R2D, D2R, twopi in *. set (m := Rmod _ _) in *.
    replace (m * (10 / 10 / (PI / (1800 / 10)))) with (m * 180 / PI) by (field; lra).
    split.
    + apply Rmult_le_pos; [lra | left; apply Rinv_0_lt_compat; lra].
    + apply Rmult_lt_reg_r with PI; [lra|]. unfold Rdiv. rewrite Rmult_assoc, Rinv_l by lra. lra.
  - unfold lat_of. pose proof (atan2_bound_lat (vz (euler_xyz r a b))
      (sqrt (vx (euler_xyz r a b) * vx (euler_xyz r a b) + vy (euler_xyz r a b) * vy (euler_xyz r a b))) (sqrt_pos _)) as Hb.
    set (l := atan2 _ _) in *. unfold R2D, D2R.
    replace (l * (10 / 10 / (PI / (1800 / 10)))) with (l * 180 / PI) by (field; lra).
    split.
    + apply Rmult_le_reg_r with PI; [lra|]. unfold Rdiv. rewrite Rmult_assoc, Rinv_l by lra. lra.
    + apply Rmult_le_reg_r with PI; [lra|]. unfold Rdiv. rewrite Rmult_assoc, Rinv_l by lra. lra.
Qed.

Lemma euler_range r a b :
  0 <= fst (euler_R r a b) < 360 /\ -90 <= snd (euler_R r a b) <= 90.
Proof. rewrite euler_R_is. apply euler_gen_range. Qed.

(* ================================================================== rotate *)
Lemma rotate_R_is phi theta psi ra dec :
  rotate_R phi theta psi ra dec = euler_R_gen true (rotate_row phi theta psi) ra dec.
Proof. reflexivity. Qed.

Lemma rotate_row_sc phi theta psi :
  r_st (rotate_row phi theta psi) * r_st (rotate_row phi theta psi)
  + r_ct (rotate_row phi theta psi) * r_ct (rotate_row phi theta psi) = 1.
Proof. unfold rotate_row, r_st, r_ct; simpl. apply sc1. Qed.

(* rotate(psi, -theta, phi) undoes rotate(phi, theta, psi) *)
Lemma rotate_row_inv phi theta psi : row_inv (rotate_row phi theta psi) = rotate_row psi (- theta) phi.
Proof.
  unfold row_inv, rotate_row, r_psi, r_st, r_ct, r_phi; simpl.
  replace (- - theta * D2R) with (- (- theta * D2R)) by ring.
  rewrite sin_neg, cos_neg. reflexivity.
Qed.

(* ================================================================== unit vectors *)
Lemma eq2xyz_unit deg stomp ra dec :
  eq2xyz_R deg stomp ra dec = Rz (- (if stomp then sdss_node else 0)) (unit_rad (ang_in deg ra) (ang_in deg dec)).
Proof.
  unfold eq2xyz_R. rewrite Rz_unit. unfold unit_rad. apply vec_eq; unfold Rminus; ring.
Qed.

Lemma xyz_unit_length deg stomp ra dec : is_unit (eq2xyz_R deg stomp ra dec).
Proof. rewrite eq2xyz_unit. apply is_unit_Rz, unit_rad_unit. Qed.

Lemma node_bounds : 0 < sdss_node < PI.
Proof.
  unfold sdss_node, sdss_center_ra, D2R. pose proof PI_RGT_0. split.
  - apply Rmult_lt_0_compat; [lra|]. apply Rdiv_lt_0_compat; lra.
  - replace ((1850 / 10 - 900 / 10) * (PI / (1800 / 10))) with (PI * (95 / 180)) by field. nra.
Qed.

Lemma xyz2eq_atbound_val : xyz2eq_atbound = (0, 0 + 360).
Proof. unfold xyz2eq_atbound. f_equal; lra. Qed.

Lemma deg_of_rad_bounds x lo hi : lo * PI <= x * 180 <= hi * PI -> lo <= x * R2D <= hi.
Proof.
  intros [H1 H2]. pose proof PI_RGT_0. unfold R2D, D2R.
  replace (x * (10 / 10 / (PI / (1800 / 10)))) with (x * 180 / PI) by (field; lra).
  split; apply Rmult_le_reg_r with PI; try lra; unfold Rdiv; rewrite Rmult_assoc, Rinv_l by lra; lra.
Qed.

(* xyz2eq followed by eq2xyz returns the direction of the vector (same units/stomp setting) *)
Lemma xyz_inverse deg stomp v : 0 < norm2 v ->
  eq2xyz_R deg stomp (fst (xyz2eq_R deg stomp v)) (snd (xyz2eq_R deg stomp v)) = normalize v.
Proof.
  intro Hv. rewrite eq2xyz_unit. rewrite <- (lonlat_extract v Hv).
  set (nd := if stomp then sdss_node else 0).
  assert (0 <= nd < PI) as Hnd by (unfold nd; pose proof node_bounds; pose proof PI_RGT_0; destruct stomp; lra).
  pose proof (atan2_bound (vy v) (vx v)) as Hl. fold (lon_of v) in Hl.
  pose proof PI_RGT_0 as Hpi.
  unfold xyz2eq_R. change xyz2eq_lat_atan2 with true. change xyz2eq_rad_wrap_2pi with true.
  unfold xyz2eq_R_gen, lat_by. fold nd. destruct deg; simpl fst; simpl snd; unfold ang_in.
  - rewrite D2R_R2D. rewrite xyz2eq_atbound_val.
    destruct (atbound_spec atb_fuel ((lon_of v + nd) * R2D) 0) as [[k E] _].
    { pose proof (deg_of_rad_bounds (lon_of v + nd) (-180) 360). unfold atb_fuel. simpl INR. lra. }
    rewrite E.
    replace (((lon_of v + nd) * R2D + 360 * IZR k) * D2R) with (lon_of v + nd + 2 * IZR k * PI)
      by (rewrite Rmult_plus_distr_r, D2R_R2D; unfold D2R; field).
    rewrite Rz_unit. rewrite <- (unit_rad_period (lon_of v) (lat_of v) k). f_equal. ring.
  - rewrite Rz_unit. destruct (Rlt_dec (lon_of v + nd) 0).
    + rewrite <- (unit_rad_period (lon_of v) (lat_of v) 1). f_equal. ring.
    + f_equal. ring.
Qed.

(* eq2xyz followed by xyz2eq gives coordinates of the same point *)
Lemma xyz_roundtrip deg stomp ra dec :
  let p := xyz2eq_R deg stomp (eq2xyz_R deg stomp ra dec) in
  eq2xyz_R deg stomp (fst p) (snd p) = eq2xyz_R deg stomp ra dec.
Proof.
  intro p. unfold p. pose proof (xyz_unit_length deg stomp ra dec) as Hu.
  rewrite xyz_inverse by (rewrite Hu; lra). apply normalize_unit_id, Hu.
Qed.

(* ranges of xyz2eq in degrees *)
Lemma xyz2eq_range stomp v :
  0 <= fst (xyz2eq_R true stomp v) <= 360 /\ -90 <= snd (xyz2eq_R true stomp v) <= 90.
Proof.
  unfold xyz2eq_R. change xyz2eq_lat_atan2 with true. unfold xyz2eq_R_gen, lat_by; simpl fst; simpl snd.
  set (nd := if stomp then sdss_node else 0).
  assert (0 <= nd < PI) as Hnd by (unfold nd; pose proof node_bounds; pose proof PI_RGT_0; destruct stomp; lra).
  pose proof (atan2_bound (vy v) (vx v)) as Hl. fold (lon_of v) in Hl. pose proof PI_RGT_0 as Hpi.
  split.
  - rewrite xyz2eq_atbound_val.
    destruct (atbound_spec atb_fuel ((lon_of v + nd) * R2D) 0) as [_ Hr].
    { pose proof (deg_of_rad_bounds (lon_of v + nd) (-180) 360). unfold atb_fuel. simpl INR. lra. }
    lra.
  - apply deg_of_rad_bounds. unfold lat_of.
    pose proof (atan2_bound_lat (vz v) (sqrt (vx v * vx v + vy v * vy v)) (sqrt_pos _)). lra.
Qed.

(* ================================================================== SDSS survey coordinates *)
Lemma eq2sdss_xyz_unit ra dec : eq2sdss_xyz ra dec = Rz (- sdss_node) (unit_deg ra dec).
Proof.
  unfold eq2sdss_xyz, unit_deg. rewrite Rz_unit. unfold unit_rad. apply vec_eq; unfold Rminus; ring.
Qed.

Lemma sdss_unit_unit cl ce : is_unit (sdss_unit cl ce).
Proof.
  unfold is_unit, norm2, dot, sdss_unit, vx, vy, vz; simpl fst; simpl snd.
  pose proof (sc1 cl) as H1. pose proof (sc1 (ce + sdss_etapole)) as H2.
  generalize dependent (sin cl); generalize dependent (cos cl);
  generalize dependent (sin (ce + sdss_etapole)); generalize dependent (cos (ce + sdss_etapole)); intros. nsatz.
Qed.

Lemma in_range_true x b : in_range x b = true -> fst b <= x <= snd b.
Proof.
  unfold in_range. destruct (Rlt_dec x (fst b)); [discriminate|]. destruct (Rlt_dec (snd b) x); [discriminate|].
  intros _. lra.
Qed.

Lemma in_range_intro x b : fst b <= x <= snd b -> in_range x b = true.
Proof.
  intro H. unfold in_range. destruct (Rlt_dec x (fst b)); [lra|]. destruct (Rlt_dec (snd b) x); [lra|]. reflexivity.
Qed.

Lemma eq2sdss_atbound_val : eq2sdss_atbound = (-180, -180 + 360).
Proof. unfold eq2sdss_atbound. f_equal; lra. Qed.

Lemma etapole_bounds : 0 < sdss_etapole < PI / 2.
Proof.
  unfold sdss_etapole, sdss_center_dec, D2R. pose proof PI_RGT_0.
  replace (325 / 10 * (PI / (1800 / 10))) with (PI * (325 / 1800)) by field. nra.
Qed.

(* forward: the survey coordinates returned for (ra, dec) are coordinates of its direction in
   the survey frame, and lie in the documented ranges *)
Lemma eq2sdss_correct ra dec :
  in_range ra eq2sdss_range1 = true -> in_range dec eq2sdss_range2 = true ->
  exists cl ce, eq2sdss_R ra dec = Ok (cl, ce) /\
    sdss_unit (cl * D2R) (ce * D2R) = Rz (- sdss_node) (unit_deg ra dec) /\
    -90 <= cl <= 90 /\ -180 <= ce <= 180.
Proof.
  intros Hra Hdec. unfold eq2sdss_R. change eq2sdss_lat_atan2 with true. unfold eq2sdss_R_gen.
  rewrite Hra, Hdec; simpl negb; cbv iota.
  eexists; eexists; split; [reflexivity|].
  rewrite <- eq2sdss_xyz_unit.
  assert (is_unit (eq2sdss_xyz ra dec)) as Hu by (rewrite eq2sdss_xyz_unit; apply is_unit_Rz, unit_deg_unit).
  destruct (eq2sdss_xyz ra dec) as [[x y] z] eqn:Ev. unfold vx, vy, vz; simpl fst; simpl snd.
  set (rho := sqrt (y * y + z * z)).
  assert (rho * rho = y * y + z * z) as Hrho by (apply sqrt_sqrt; nra).
  assert (x * x + y * y + z * z = 1) as Hn by (unfold is_unit, norm2, dot, vx, vy, vz in Hu; simpl in Hu; exact Hu).
  destruct (atan2_spec x rho) as [Hr Hx].
  replace (rho * rho + x * x) with 1 in Hr, Hx by lra. rewrite sqrt_1 in Hr, Hx.
  destruct (atan2_spec z y) as [Hy Hz]. fold rho in Hy, Hz.
  pose proof (atan2_bound_lat x rho (sqrt_pos _)) as Hlat.
  pose proof (atan2_bound z y) as Hlon. pose proof etapole_bounds as Hep. pose proof PI_RGT_0 as Hpi.
  set (th := atan2 x rho) in *. set (et := atan2 z y) in *.
  rewrite eq2sdss_atbound_val.
  destruct (atbound_spec atb_fuel ((et - sdss_etapole) * R2D) (-180)) as [[k E] Hrng].
  { pose proof (deg_of_rad_bounds (et - sdss_etapole) (-360) 180). unfold atb_fuel. simpl INR. lra. }
  split; [| split].
  - rewrite E. unfold sdss_unit.
    replace (((et - sdss_etapole) * R2D + 360 * IZR k) * D2R + sdss_etapole) with (et + 2 * IZR k * PI)
      by (rewrite Rmult_plus_distr_r, D2R_R2D; unfold D2R; field).
    rewrite D2R_R2D, cos_period_Z, sin_period_Z, sin_neg, cos_neg, Ropp_involutive.
    apply vec_eq; [lra | |].
    + transitivity (rho * cos et); [rewrite Hr at 1; ring | symmetry; exact Hy].
    + transitivity (rho * sin et); [rewrite Hr at 1; ring | symmetry; exact Hz].
  - apply deg_of_rad_bounds. lra.
  - lra.
Qed.

Lemma atbound_id fuel x lo hi : lo <= x <= hi -> atbound (S fuel) x (lo, hi) = x.
Proof.
  intro H. unfold atbound; simpl fst; simpl snd. cbn [atb_up]. destruct (Rlt_dec x lo); [lra|].
  cbn [atb_down]. destruct (Rlt_dec hi x); [lra|]. reflexivity.
Qed.

Lemma atbound2_b1 : atbound2_bound1 = (-180, 180). Proof. unfold atbound2_bound1; f_equal; lra. Qed.
Lemma atbound2_b2 : atbound2_bound2 = (-180, 180). Proof. unfold atbound2_bound2; f_equal; lra. Qed.
Lemma atbound2_b3 : atbound2_bound3 = (0, 0 + 360). Proof. unfold atbound2_bound3; f_equal; lra. Qed.

(* atbound2 on a latitude already in [-90,90]: latitude unchanged, longitude moved by whole
   turns into [0,360], set to 0 at the poles *)
Lemma atbound2_spec theta phi : -90 <= theta <= 90 -> -360 * 3 <= phi <= 360 * 4 ->
  fst (atbound2 theta phi) = theta /\
  0 <= snd (atbound2 theta phi) <= 360 /\
  ((exists k : Z, snd (atbound2 theta phi) = phi + 360 * IZR k) \/ (Rabs theta = 90 /\ snd (atbound2 theta phi) = 0)).
Proof.
  intros Ht Hp. unfold atbound2. rewrite atbound2_b1, atbound2_b2, atbound2_b3. unfold atb_fuel.
  rewrite (atbound_id 2 theta (-180) 180) by lra.
  destruct (Rlt_dec atbound2_fold (Rabs theta)) as [Hf|Hf].
  { exfalso. unfold atbound2_fold in Hf. assert (Rabs theta <= 90) by (apply Rabs_le; lra). lra. }
  rewrite (atbound_id 2 theta (-180) 180) by lra.
  destruct (atbound_spec 3 phi 0) as [[k E] Hr]; [simpl INR; lra|].
  simpl fst; simpl snd. destruct (Req_EM_T (Rabs theta) atbound2_pole) as [He|He].
  - split; [reflexivity|]. split; [lra|]. right. split; [|reflexivity]. rewrite He. unfold atbound2_pole. lra.
  - split; [reflexivity|]. split; [lra|]. left. exists k. exact E.
Qed.

Lemma unit_deg_pole lon lon' lat : Rabs lat = 90 -> unit_deg lon lat = unit_deg lon' lat.
Proof.
  intro H. unfold unit_deg, unit_rad.
  assert (cos (lat * D2R) = 0) as Hc.
  { unfold D2R. destruct (Rcase_abs lat) as [Hn|Hn].
    - rewrite Rabs_left in H by lra. replace (lat * (PI / (1800 / 10))) with (- (PI / 2)) by (replace lat with (-90) by lra; field).
      rewrite cos_neg. apply cos_PI2.
    - rewrite Rabs_right in H by lra. subst lat. replace (90 * (PI / (1800 / 10))) with (PI / 2) by field. apply cos_PI2. }
  rewrite Hc. apply vec_eq; ring.
Qed.

(* backward: (ra, dec) returned for survey coordinates are coordinates of the direction they
   denote, and lie in [0,360] x [-90,90] *)
Lemma sdss2eq_correct cl ce :
  in_range cl sdss2eq_range1 = true -> in_range ce sdss2eq_range2 = true ->
  exists ra dec, sdss2eq_R cl ce = Ok (ra, dec) /\
    unit_deg ra dec = Rz sdss_node (sdss_unit (cl * D2R) (ce * D2R)) /\
    0 <= ra <= 360 /\ -90 <= dec <= 90.
Proof.
  intros Hcl Hce. unfold sdss2eq_R. change sdss2eq_lat_atan2 with true. unfold sdss2eq_R_gen, lat_by.
  rewrite Hcl, Hce; simpl negb; cbv iota.
  set (v := sdss_unit (cl * D2R) (ce * D2R)).
  pose proof (sdss_unit_unit (cl * D2R) (ce * D2R)) as Hu. fold v in Hu.
  assert (0 < norm2 v) as Hv by (rewrite Hu; lra).
  pose proof (atan2_bound (vy v) (vx v)) as Hl. fold (lon_of v) in Hl.
  pose proof (atan2_bound_lat (vz v) (sqrt (vx v * vx v + vy v * vy v)) (sqrt_pos _)) as Hb. fold (lat_of v) in Hb.
  pose proof node_bounds as Hnd. pose proof PI_RGT_0 as Hpi.
  assert (-90 <= lat_of v * R2D <= 90) as Hdec by (apply deg_of_rad_bounds; lra).
  assert (-360 * 3 <= (lon_of v + sdss_node) * R2D <= 360 * 4) as Hra.
  { pose proof (deg_of_rad_bounds (lon_of v + sdss_node) (-180) 360). lra. }
  destruct (atbound2_spec _ _ Hdec Hra) as [E1 [R2 E2]].
  destruct (atbound2 (lat_of v * R2D) ((lon_of v + sdss_node) * R2D)) as [dec ra] eqn:EA.
  simpl fst in *; simpl snd in *. subst dec.
  eexists; eexists; split; [reflexivity|]. split; [|split; [lra|lra]].
  transitivity (Rz sdss_node (unit_rad (lon_of v) (lat_of v)));
    [| rewrite (lonlat_extract v Hv), (normalize_unit_id v Hu); reflexivity].
  rewrite Rz_unit.
  destruct E2 as [[k E]|[Hp E]].
  - rewrite E. rewrite unit_deg_period. unfold unit_deg. rewrite !D2R_R2D. reflexivity.
  - rewrite (unit_deg_pole ra ((lon_of v + sdss_node) * R2D) _ Hp). unfold unit_deg. rewrite !D2R_R2D. reflexivity.
Qed.

Lemma sdss_ranges_eq : eq2sdss_range1 = (0, 360) /\ eq2sdss_range2 = (-90, 90)
  /\ sdss2eq_range1 = (-90, 90) /\ sdss2eq_range2 = (-180, 180).
Proof.
  unfold eq2sdss_range1, eq2sdss_range2, sdss2eq_range1, sdss2eq_range2.
  repeat split; f_equal; lra.
Qed.

(* round trips: exact on the sphere *)
Lemma sdss_inverse_eq ra dec : 0 <= ra <= 360 -> -90 <= dec <= 90 ->
  exists cl ce ra' dec', eq2sdss_R ra dec = Ok (cl, ce) /\ sdss2eq_R cl ce = Ok (ra', dec') /\
    unit_deg ra' dec' = unit_deg ra dec.
Proof.
  intros Hra Hdec. destruct sdss_ranges_eq as [E1 [E2 [E3 E4]]].
  destruct (eq2sdss_correct ra dec) as [cl [ce [Ef [Hv [Rc Re]]]]];
    [apply in_range_intro; rewrite E1; simpl; lra | apply in_range_intro; rewrite E2; simpl; lra|].
  destruct (sdss2eq_correct cl ce) as [ra' [dec' [Eb [Hv' _]]]];
    [apply in_range_intro; rewrite E3; simpl; lra | apply in_range_intro; rewrite E4; simpl; lra|].
  exists cl, ce, ra', dec'. split; [exact Ef|]. split; [exact Eb|].
  rewrite Hv', Hv. apply Rz_inv.
Qed.

Lemma sdss_inverse_sdss cl ce : -90 <= cl <= 90 -> -180 <= ce <= 180 ->
  exists ra dec cl' ce', sdss2eq_R cl ce = Ok (ra, dec) /\ eq2sdss_R ra dec = Ok (cl', ce') /\
    sdss_unit (cl' * D2R) (ce' * D2R) = sdss_unit (cl * D2R) (ce * D2R).
Proof.
  intros Hcl Hce. destruct sdss_ranges_eq as [E1 [E2 [E3 E4]]].
  destruct (sdss2eq_correct cl ce) as [ra [dec [Eb [Hv [Rr Rd]]]]];
    [apply in_range_intro; rewrite E3; simpl; lra | apply in_range_intro; rewrite E4; simpl; lra|].
  destruct (eq2sdss_correct ra dec) as [cl' [ce' [Ef [Hv' _]]]];
    [apply in_range_intro; rewrite E1; simpl; lra | apply in_range_intro; rewrite E2; simpl; lra|].
  exists ra, dec, cl', ce'. split; [exact Eb|]. split; [exact Ef|].
  rewrite Hv', Hv. apply Rz_inv'.
Qed.

Lemma sdss_rejects ra dec : (ra < 0 \/ 360 < ra \/ dec < -90 \/ 90 < dec) -> eq2sdss_R ra dec = Err EValue.
Proof.
  intro H. destruct sdss_ranges_eq as [E1 [E2 _]]. unfold eq2sdss_R, eq2sdss_R_gen, in_range. rewrite E1, E2; simpl fst; simpl snd.
  destruct (Rlt_dec ra 0); [reflexivity|]. destruct (Rlt_dec 360 ra); [reflexivity|]. simpl.
  destruct (Rlt_dec dec (-90)); [reflexivity|]. destruct (Rlt_dec 90 dec); [reflexivity|]. lra.
Qed.

(* ================================================================== shiftlon (exact rationals) *)
Open Scope Q_scope.

Lemma qle_bool_false x y : Qle_bool x y = false -> y < x.
Proof. intro H. apply Qnot_le_lt. intro L. apply Qle_bool_iff in L. congruence. Qed.

Lemma Qmod_spec x m : 0 < m ->
  Qmod x m == x - inject_Z (Qfloor (x / m)) * m /\ 0 <= Qmod x m /\ Qmod x m < m.
Proof.
  intro Hm. unfold Qmod. split; [reflexivity|].
  pose proof (Qfloor_le (x / m)) as H1. pose proof (Qlt_floor (x / m)) as H2.
  rewrite inject_Z_plus in H2.
  assert (~ m == 0) as Hm0 by (intro E; rewrite E in Hm; apply (Qlt_irrefl 0 Hm)).
  assert (x == (x / m) * m) as Hx by (field; exact Hm0).
  set (f := inject_Z (Qfloor (x / m))) in *.
  pose proof (Qmult_le_compat_r _ _ m H1 (Qlt_le_weak _ _ Hm)) as G1.
  pose proof (Qmult_lt_compat_r _ _ m Hm H2) as G2.
  rewrite <- Hx in G1, G2. change (inject_Z 1) with 1 in G2.
  split; Lqa.lra.
Qed.

(* the full statement for shiftlon/shiftra on its documented inputs *)
Lemma shiftlon_spec lon shift wrap : lon_valid lon -> shiftlon_ok lon shift wrap (shiftlon lon shift wrap).
Proof.
  intros [L0 L1]. unfold shiftlon_ok, shiftlon. destruct shift as [s|].
  - destruct (Qmod_spec (Qabs s) shift_mod) as [E [M0 M1]]; [reflexivity|].
    set (a := Qmod (Qabs s) shift_mod) in *. set (k := Qfloor (Qabs s / shift_mod)) in *.
    unfold shift_mod in E, M1.
    destruct (Qle_bool 0 s) eqn:Hs; simpl negb; cbv iota.
    + apply Qle_bool_iff in Hs. rewrite (Qabs_pos s Hs) in E.
      unfold shift_pos_cmp, qcmp, shift_pos_thr, shift_pos_period.
      destruct (Qle_bool 0 (lon - a)) eqn:Hc; simpl negb; cbv iota.
      * apply Qle_bool_iff in Hc. split; [exists k; Lqa.lra | Lqa.lra].
      * apply qle_bool_false in Hc. unfold shift_pos_rewrap, qcmp.
        destruct (Qle_bool 360 (lon - a + 360)) eqn:Hr.
        { exfalso. apply Qle_bool_iff in Hr. Lqa.lra. }
        split; [exists (k + 1)%Z; rewrite inject_Z_plus; change (inject_Z 1) with 1; Lqa.lra | Lqa.lra].
    + apply qle_bool_false in Hs. rewrite (Qabs_neg s (Qlt_le_weak _ _ Hs)) in E.
      unfold shift_neg_cmp, qcmp, shift_neg_thr, shift_neg_period.
      destruct (Qle_bool 360 (lon + a)) eqn:Hc; cbv iota.
      * apply Qle_bool_iff in Hc. split; [exists (- k - 1)%Z; unfold Zminus; rewrite inject_Z_plus, inject_Z_opp; change (inject_Z (- (1))) with (- (1)); Lqa.lra | Lqa.lra].
      * apply qle_bool_false in Hc. split; [exists (- k)%Z; rewrite inject_Z_opp; Lqa.lra | Lqa.lra].
  - destruct wrap; [| reflexivity].
    unfold wrap_cmp, qcmp, wrap_thr, wrap_period.
    destruct (Qle_bool lon 180) eqn:Hc; simpl negb; cbv iota.
    + apply Qle_bool_iff in Hc. split; [exists 0%Z; change (inject_Z 0) with 0; Lqa.lra | Lqa.lra].
    + apply qle_bool_false in Hc. split; [exists (-1)%Z; change (inject_Z (-1)) with (- (1)); Lqa.lra | Lqa.lra].
Qed.

Lemma is_integer_sound q : is_integer q = true -> exists k : Z, q == inject_Z k.
Proof. unfold is_integer. intro H. apply Qeq_bool_iff in H. exists (Qfloor q). symmetry; exact H. Qed.

Lemma q_in_sound lo hi x : q_in lo hi x = true -> lo <= x /\ x <= hi.
Proof. unfold q_in. intro H. apply andb_true_iff in H as [H1 H2]. split; apply Qle_bool_iff; assumption. Qed.

Lemma q_in_ho_sound lo hi x : q_in_ho lo hi x = true -> lo <= x /\ x < hi.
Proof.
  unfold q_in_ho. intro H. apply andb_true_iff in H as [H1 H2]. split; [apply Qle_bool_iff; assumption|].
  apply qle_bool_false. destruct (Qle_bool hi x); [discriminate | reflexivity].
Qed.

(* soundness of the checker run on the implementation's outputs *)
Lemma shiftlon_check_sound lon shift wrap out :
  shiftlon_check lon shift wrap out = true -> shiftlon_ok lon shift wrap out.
Proof.
  unfold shiftlon_check, shiftlon_ok. destruct shift as [s|].
  - intro H. apply andb_true_iff in H as [H1 H2]. apply is_integer_sound in H1 as [k Hk].
    apply q_in_ho_sound in H2. split; [| exact H2]. exists k.
    assert (out - lon + s == (out - lon + s) / 360 * 360) as E by field. rewrite Hk in E. Lqa.lra.
  - destruct wrap.
    + intro H. apply andb_true_iff in H as [H1 H2]. apply is_integer_sound in H1 as [k Hk].
      apply q_in_sound in H2. split; [| exact H2]. exists k.
      assert (out - lon == (out - lon) / 360 * 360) as E by field. rewrite Hk in E. Lqa.lra.
    + intro H. apply Qeq_bool_iff in H. exact H.
Qed.

Lemma unit_len_check_sound x y z : unit_len_check x y z = true ->
  (1 - unit_tol) * (1 - unit_tol) <= x * x + y * y + z * z <= (1 + unit_tol) * (1 + unit_tol).
Proof. unfold unit_len_check. intro H. apply andb_true_iff in H as [H1 H2]. split; apply Qle_bool_iff; assumption. Qed.

(* ================================================================== source formulas = model formulas *)
(* Gen.v carries the three vector components of each routine translated expression by expression
   from the source under test; they are the components the model uses *)
Open Scope R_scope.

Lemma euler_src_ok r a b :
  euler_xyz_src (r_psi r) (r_st r) (r_ct r) (r_phi r) a b = Some (euler_xyz r a b).
Proof. unfold euler_xyz_src, euler_xyz. f_equal; try (apply vec_eq; ring). Qed.

Lemma rotate_src_ok phi theta psi ra dec :
  rotate_xyz_src phi theta psi ra dec = Some (euler_xyz (rotate_row phi theta psi) ra dec).
Proof.
  unfold rotate_xyz_src, euler_xyz, rotate_row, r_phi, r_st, r_ct; simpl fst; simpl snd.
  f_equal; try (apply vec_eq; ring).
Qed.

Lemma thetaphi_src_ok (deg stomp : bool) (ra dec : R) :
  thetaphi2xyz_xyz_src (ang_in deg ra - (if stomp then sdss_node else 0)) (ang_in deg dec)
  = Some (eq2xyz_R deg stomp ra dec).
Proof. unfold thetaphi2xyz_xyz_src, eq2xyz_R. f_equal; try (apply vec_eq; ring). Qed.

Lemma sdss2eq_src_ok cl ce : sdss2eq_xyz_src cl ce = Some (sdss_unit (cl * D2R) (ce * D2R)).
Proof. unfold sdss2eq_xyz_src, sdss_unit. f_equal; try (apply vec_eq; ring). Qed.

Lemma eq2sdss_src_ok ra dec : eq2sdss_xyz_src ra dec = Some (eq2sdss_xyz ra dec).
Proof. unfold eq2sdss_xyz_src, eq2sdss_xyz. f_equal; try (apply vec_eq; ring). Qed.

(* the output stage translated from the source (arctan2 := Model.atan2, % := Model.Rmod) is the model's *)
Lemma euler_out_src_ok r a b :
  let v := euler_xyz r a b in
  euler_out_src atan2 Rmod (r_psi r) (vx v) (vy v) (vz v) = Some (euler_R_gen true r a b).
Proof.
  intro v. unfold euler_out_src, euler_R_gen, lat_by, lat_of, lon_of, fourpi, twopi. fold v.
  f_equal. repeat (try reflexivity; try lra; f_equal).
Qed.

Lemma xyz2thetaphi_out_src_ok v :
  xyz2thetaphi_out_src atan2 Rmod (vx v) (vy v) (vz v) = Some (lon_of v, lat_of v).
Proof. reflexivity. Qed.

(* output stages of rotate, eq2sdss, sdss2eq translated from the source (arctan2 := Model.atan2, % := Model.Rmod,
   atbound / atbound2 := the models of the callees) are the model's *)
Lemma rotate_out_src_ok phi theta psi ra dec :
  let v := euler_xyz (rotate_row phi theta psi) ra dec in
  rotate_out_src atan2 Rmod phi theta psi ra dec (vx v) (vy v) (vz v) = Some (rotate_R phi theta psi ra dec).
Proof.
  intro v. rewrite rotate_R_is. unfold rotate_out_src, euler_R_gen, lat_by, lat_of, lon_of, fourpi, twopi. fold v.
  unfold rotate_row, r_psi; simpl fst; simpl snd.
  f_equal. repeat (try reflexivity; try lra; f_equal).
Qed.

Lemma eq2sdss_out_src_ok ra dec :
  in_range ra eq2sdss_range1 = true -> in_range dec eq2sdss_range2 = true ->
  let v := eq2sdss_xyz ra dec in
  option_map Ok (eq2sdss_out_src atan2 (fun x lo hi => atbound atb_fuel x (lo, hi)) ra dec (vx v) (vy v) (vz v))
  = Some (eq2sdss_R ra dec).
Proof.
  intros H1 H2 v. unfold eq2sdss_R. change eq2sdss_lat_atan2 with true. unfold eq2sdss_R_gen. rewrite H1, H2; simpl negb; cbv iota.
  fold v. unfold eq2sdss_out_src, option_map, eq2sdss_atbound. f_equal. f_equal. f_equal. ring.
Qed.

Lemma sdss2eq_out_src_ok cl ce :
  in_range cl sdss2eq_range1 = true -> in_range ce sdss2eq_range2 = true ->
  let v := sdss_unit (cl * D2R) (ce * D2R) in
  option_map Ok (sdss2eq_out_src atan2 atbound2 cl ce (vx v) (vy v) (vz v)) = Some (sdss2eq_R cl ce).
Proof.
  intros H1 H2 v. unfold sdss2eq_R. change sdss2eq_lat_atan2 with true. unfold sdss2eq_R_gen, lat_by. rewrite H1, H2; simpl negb; cbv iota.
  fold v. unfold sdss2eq_out_src, option_map, lat_of, lon_of.
  destruct (atbound2 (atan2 (vz v) (sqrt (vx v * vx v + vy v * vy v)) * R2D) ((atan2 (vy v) (vx v) + sdss_node) * R2D)) as [d r].
  reflexivity.
Qed.

(* eq2xyz and xyz2eq, specialised by the translator to each (units, stomp) setting, are the model's *)
Lemma eq2xyz_args_ok (deg stomp : bool) (ra dec : R) :
  thetaphi2xyz_xyz_src (fst (eq2xyz_args_src deg stomp ra dec)) (snd (eq2xyz_args_src deg stomp ra dec))
  = Some (eq2xyz_R deg stomp ra dec).
Proof.
  unfold eq2xyz_args_src, thetaphi2xyz_xyz_src, eq2xyz_R, ang_in.
  destruct deg, stomp; simpl fst; simpl snd; rewrite ?Rminus_0_r; reflexivity.
Qed.

Lemma xyz2eq_post_ok (deg stomp : bool) (v : vec) :
  xyz2eq_post_src (fun x lo hi => atbound atb_fuel x (lo, hi)) deg stomp (lon_of v) (lat_of v) = xyz2eq_R deg stomp v.
Proof.
  unfold xyz2eq_R. change xyz2eq_lat_atan2 with true. change xyz2eq_rad_wrap_2pi with true.
  unfold xyz2eq_post_src, xyz2eq_R_gen, lat_by, xyz2eq_atbound.
  destruct deg, stomp; rewrite ?Rplus_0_r; try reflexivity.
  - destruct (Rlt_dec (lon_of v + sdss_node) (0 / 10)); destruct (Rlt_dec (lon_of v + sdss_node) 0); try lra; f_equal; lra.
  - destruct (Rlt_dec (lon_of v) (0 / 10)); destruct (Rlt_dec (lon_of v) 0); try lra; f_equal; lra.
Qed.

Lemma sdss_range_err_is : sdss_range_err = EValue.
Proof. reflexivity. Qed.

(* C09 -- conditioning of the repaired (arctan2) extraction, uniformly over the sphere, poles included: if the three
   computed components are within chord d of the true direction and the two arctan2 evaluations (with the final
   conversion to degrees) err by e1, e2 radians, the returned position is within sqrt(4 d^2 + 4 e1^2 + 4 e2^2) of the
   true position.  No factor 1/cos(lat) appears -- that is what the arcsin form could not offer (AsFound.v).  This is
   the conditional rounding statement: whatever bounds libm/numpy give for d, e1, e2, they carry over to the sky. *)
From Coq Require Import Reals Lra Psatz.
From EsVerif.Common Require Import Base.
From EsVerif.C09 Require Import Gen Model Spec Geometry Proofs.
Open Scope R_scope.

Lemma sin_sq_le x : sin x * sin x <= x * x.
Proof.
  assert (forall y, 0 < y -> sin y * sin y <= y * y) as Hpos.
  { intros y Hy. pose proof (sin_lt_x y Hy) as H1. pose proof (SIN_bound y) as [B1 B2].
    destruct (Rle_dec y PI) as [Hp|Hp].
    - assert (0 <= sin y) by (apply sin_ge_0; lra). apply Rmult_le_compat; lra.
    - assert (3 < PI) as H3 by (pose proof PI2_3_2; lra).
      assert (sin y * sin y <= 1) as S1 by nra. assert (1 <= y * y) by nra. lra. }
  destruct (Rtotal_order x 0) as [H|[->|H]].
  - specialize (Hpos (- x) ltac:(lra)). rewrite sin_neg in Hpos. nra.
  - rewrite sin_0. lra.
  - apply Hpos, H.
Qed.

Lemma one_minus_cos e : 2 - 2 * cos e <= e * e.
Proof.
  replace e with (2 * (e / 2)) at 1 by field. rewrite cos_2a_sin.
  pose proof (sin_sq_le (e / 2)). nra.
Qed.

(* changing the latitude by e2 and the longitude by e1 moves the point by at most sqrt(2 e1^2 + 2 e2^2) (chord) *)
Lemma unit_rad_lipschitz l b e1 e2 :
  chord2 (unit_rad (l + e1) (b + e2)) (unit_rad l b) <= 2 * (e1 * e1) + 2 * (e2 * e2).
Proof.
  pose proof (chord2_triangle2 (unit_rad (l + e1) (b + e2)) (unit_rad (l + e1) b) (unit_rad l b)) as T.
  assert (chord2 (unit_rad (l + e1) (b + e2)) (unit_rad (l + e1) b) = 2 - 2 * cos e2) as E2.
  { rewrite (chord2_unit _ _ (unit_rad_unit _ _) (unit_rad_unit _ _)).
    unfold dot, unit_rad, vx, vy, vz; simpl fst; simpl snd.
    assert (cos e2 = cos (b + e2) * cos b + sin (b + e2) * sin b) as -> by (rewrite <- cos_minus; f_equal; ring).
    pose proof (sc1 (l + e1)) as S. generalize dependent (sin (l + e1)); generalize dependent (cos (l + e1)); intros c s S.
    replace (cos (b + e2) * c * (cos b * c) + cos (b + e2) * s * (cos b * s) + sin (b + e2) * sin b)
      with (cos (b + e2) * cos b * (s * s + c * c) + sin (b + e2) * sin b) by ring. rewrite S. ring. }
  assert (chord2 (unit_rad (l + e1) b) (unit_rad l b) = cos b * cos b * (2 - 2 * cos e1)) as E1.
  { rewrite (chord2_unit _ _ (unit_rad_unit _ _) (unit_rad_unit _ _)).
    unfold dot, unit_rad, vx, vy, vz; simpl fst; simpl snd.
    assert (cos e1 = cos (l + e1) * cos l + sin (l + e1) * sin l) as -> by (rewrite <- cos_minus; f_equal; ring).
    pose proof (sc1 b) as S.
    replace (cos b * cos (l + e1) * (cos b * cos l) + cos b * sin (l + e1) * (cos b * sin l) + sin b * sin b)
      with (cos b * cos b * (cos (l + e1) * cos l + sin (l + e1) * sin l) + sin b * sin b) by ring.
    replace (sin b * sin b) with (1 - cos b * cos b) by lra. ring. }
  pose proof (one_minus_cos e1) as C1. pose proof (one_minus_cos e2) as C2.
  pose proof (COS_bound b) as [B1 B2].
  assert (0 <= 2 - 2 * cos e1) as P1 by (pose proof (COS_bound e1); lra).
  assert (cos b * cos b <= 1) as Cb by nra.
  assert (cos b * cos b * (2 - 2 * cos e1) <= e1 * e1) as F1 by nra.
  rewrite E1, E2 in T. lra.
Qed.

(* extraction from a perturbed vector with perturbed arctan2 values *)
Lemma extract_conditioning v u d e1 e2 : is_unit u -> 0 <= d <= 1 / 2 -> chord2 v u <= d * d ->
  chord2 (unit_rad (lon_of v + e1) (lat_of v + e2)) u <= 4 * (e1 * e1) + 4 * (e2 * e2) + 4 * (d * d).
Proof.
  intros Hu Hd Hv. destruct (direction_close v u d Hu Hd Hv) as [Hn Hc].
  pose proof (lonlat_extract v Hn) as E. pose proof (unit_rad_lipschitz (lon_of v) (lat_of v) e1 e2) as L.
  rewrite E in L.
  pose proof (chord2_triangle2 (unit_rad (lon_of v + e1) (lat_of v + e2)) (normalize v) u) as T. lra.
Qed.

(* the same for what euler returns (degrees, psi added, wrapped to [0, 2 pi)): v' are the computed components *)
Lemma euler_conditioning r a b v' d e1 e2 : 0 < norm2 (euler_xyz r a b) -> 0 <= d <= 1 / 2 ->
  chord2 v' (normalize (euler_xyz r a b)) <= d * d ->
  let lon' := Rmod (lon_of v' + e1 + r_psi r + fourpi) twopi * R2D in
  let lat' := (lat_of v' + e2) * R2D in
  chord2 (unit_deg lon' lat') (normalize (euler_vec r a b)) <= 4 * (e1 * e1) + 4 * (e2 * e2) + 4 * (d * d).
Proof.
  intros Hn Hd Hv lon' lat'. unfold lon', lat', unit_deg. rewrite !D2R_R2D.
  replace (lon_of v' + e1 + r_psi r + fourpi) with ((lon_of v' + e1 + r_psi r) + fourpi) by ring.
  rewrite Rmod_twopi_unit. rewrite <- Rz_unit.
  rewrite euler_vec_xyz, normalize_Rz, chord2_Rz.
  apply extract_conditioning; [apply normalize_is_unit; exact Hn | exact Hd | exact Hv].
Qed.


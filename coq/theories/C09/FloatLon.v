(* C09 -- the longitude of euler / rotate on binary64 numbers is STRICTLY below 360: the largest binary64 remainder
   below twopi, times the binary64 R2D, lies below the midpoint of 360 - 2^-44 and 360 and is rounded down. *)
From Coq Require Import Reals Lra Lia ZArith.
From Flocq Require Import Core.
From EsVerif.Common Require Import Base.
From EsVerif.C09 Require Import Gen Model Spec FloatShift.
Open Scope R_scope.

Lemma bpow_m50 : bpow radix2 (-50) = / 1125899906842624.
Proof. simpl. reflexivity. Qed.

(* binary64 numbers in [4, 8) are multiples of 2^-50: below twopi_f means at most twopi_f - 2^-50 *)
Definition ptwopi : R := twopi_f - / 1125899906842624.

Lemma below_twopi m : fmt m -> 0 <= m < twopi_f -> m <= ptwopi.
Proof.
  intros Hm [M0 M1]. unfold ptwopi, twopi_f in *.
  destruct (Rlt_dec m 4) as [Hs|Hb]; [lra|].
  assert (mag radix2 m = 3%Z :> Z) as Hmag.
  { apply mag_unique. rewrite Rabs_pos_eq by lra. simpl. lra. }
  unfold fmt, generic_format in Hm. unfold cexp in Hm. rewrite Hmag in Hm.
  change (fexp64 3) with (-50)%Z in Hm.
  set (k := Ztrunc (scaled_mantissa radix2 fexp64 m)) in *.
  unfold F2R in Hm; simpl Fnum in Hm; simpl Fexp in Hm. rewrite bpow_m50 in Hm.
  assert (IZR k < IZR 7074237752028440) as Hlt.
  { rewrite Hm in M1. apply Rmult_lt_reg_r with (/ 1125899906842624); [lra|]. lra. }
  apply lt_IZR in Hlt. assert (k <= 7074237752028439)%Z as Hle by lia.
  apply IZR_le in Hle. rewrite Hm. lra.
Qed.

Lemma succ_p360 : succ radix2 fexp64 p360 = 360.
Proof.
  assert (0 <= p360) as P0 by (unfold p360; lra).
  rewrite succ_eq_pos by exact P0.
  rewrite ulp_neq_0 by (unfold p360; lra). unfold cexp.
  replace (mag radix2 p360 : Z) with 9%Z.
  - change (fexp64 9) with (-44)%Z. rewrite bpow_m44. unfold p360. lra.
  - symmetry. apply mag_unique. rewrite Rabs_pos_eq by exact P0. unfold p360. simpl. lra.
Qed.

Lemma euler_lon_float_strict m : fmt m -> 0 <= m < twopi_f ->
  0 <= rnd (m * r2d_f) <= p360 /\ p360 < 360.
Proof.
  intros Hm Hr. pose proof (below_twopi m Hm Hr) as Hp. destruct Hr as [M0 M1].
  assert (0 < r2d_f) as R0 by (unfold r2d_f; lra).
  split; [|unfold p360; lra]. split.
  - apply rnd_lb; [apply fmt_0 | apply Rmult_le_pos; lra].
  - unfold rnd. apply round_N_le_midp; [apply fexp64_valid | apply fmt_p360 |].
    rewrite succ_p360.
    apply Rle_lt_trans with (ptwopi * r2d_f); [apply Rmult_le_compat_r; lra|].
    unfold ptwopi, twopi_f, r2d_f, p360. lra.
Qed.

(* C09 — model of esutil/coords.py: euler and its six wrappers, eq2sdss/sdss2eq, eq2xyz/xyz2eq,
   rotate, atbound/atbound2 (style R: Coq reals) and shiftlon/shiftra (style Q: exact rationals).
   Definitions only; constants AND the shape flags (latitude by arctan2 or by arcsin, radian wrap of
   xyz2eq, comparison operators and second wrap of shiftlon) come from Gen.v, which is regenerated
   from the esutil/coords.py under test on every run.  With the flags of the repaired tree the
   latitudes are arctan2 of the rotated vector's components, shiftlon compares `>= 360`, xyz2eq
   wraps by 2*pi in radians; with the flags of the as-found tree the definitions below describe the
   as-found code (arcsin, clipped only from above in euler/rotate), and the proofs do not go through. *)
From Coq Require Import Reals QArith Qround Qabs List.
From EsVerif.Common Require Import Base.
From EsVerif.C09 Require Import Gen.
Import ListNotations.
Open Scope R_scope.

(* ---------------------------------------------------------------- vectors *)
Definition vec := (R * R * R)%type.
Definition vx (v : vec) : R := fst (fst v).
Definition vy (v : vec) : R := snd (fst v).
Definition vz (v : vec) : R := snd v.
Definition dot (u v : vec) : R := vx u * vx v + vy u * vy v + vz u * vz v.
Definition norm2 (v : vec) : R := dot v v.
Definition norm (v : vec) : R := sqrt (norm2 v).
Definition scale (k : R) (v : vec) : vec := (k * vx v, k * vy v, k * vz v).
Definition normalize (v : vec) : vec := scale (/ norm v) v.
Definition vopp (v : vec) : vec := (- vx v, - vy v, - vz v).
Definition chord2 (u v : vec) : R := (vx u - vx v)² + (vy u - vy v)² + (vz u - vz v)².

(* point of the unit sphere with longitude lon and latitude lat (radians / degrees) *)
Definition unit_rad (lon lat : R) : vec := (cos lat * cos lon, cos lat * sin lon, sin lat).
Definition unit_deg (lon lat : R) : vec := unit_rad (lon * D2R) (lat * D2R).

(* rotations: Rz a turns vectors by +a about z; Rx_sc s c is the coordinate rotation about x
   whose angle has sine s and cosine c (a rotation only when s^2 + c^2 = 1) *)
Definition Rz (a : R) (v : vec) : vec := (cos a * vx v - sin a * vy v, sin a * vx v + cos a * vy v, vz v).
Definition Rx_sc (s c : R) (v : vec) : vec := (vx v, c * vy v + s * vz v, - s * vy v + c * vz v).

(* 3x3 matrices as rows *)
Definition mat := (vec * vec * vec)%type.
Definition mrow1 (m : mat) : vec := fst (fst m).
Definition mrow2 (m : mat) : vec := snd (fst m).
Definition mrow3 (m : mat) : vec := snd m.
Definition mapply (m : mat) (u : vec) : vec := (dot (mrow1 m) u, dot (mrow2 m) u, dot (mrow3 m) u).
Definition vsub (u v : vec) : vec := (vx u - vx v, vy u - vy v, vz u - vz v).
Definition msub (a b : mat) : mat := (vsub (mrow1 a) (mrow1 b), vsub (mrow2 a) (mrow2 b), vsub (mrow3 a) (mrow3 b)).
Definition frob2 (m : mat) : R := norm2 (mrow1 m) + norm2 (mrow2 m) + norm2 (mrow3 m).
Definition mcol (m : mat) (k : nat) : vec :=
  match k with
  | O => (vx (mrow1 m), vx (mrow2 m), vx (mrow3 m))
  | S O => (vy (mrow1 m), vy (mrow2 m), vy (mrow3 m))
  | _ => (vz (mrow1 m), vz (mrow2 m), vz (mrow3 m))
  end.
Definition mmul (a b : mat) : mat :=
  ((dot (mrow1 a) (mcol b 0), dot (mrow1 a) (mcol b 1), dot (mrow1 a) (mcol b 2)),
   (dot (mrow2 a) (mcol b 0), dot (mrow2 a) (mcol b 1), dot (mrow2 a) (mcol b 2)),
   (dot (mrow3 a) (mcol b 0), dot (mrow3 a) (mcol b 1), dot (mrow3 a) (mcol b 2))).

(* ---------------------------------------------------------------- numpy primitives over R *)
(* arctan2 (without signed zeros: arctan2(0, x<0) = pi) *)
Definition atan2 (y x : R) : R :=
  if Rlt_dec 0 x then atan (y / x)
  else if Rlt_dec x 0 then (if Rle_dec 0 y then atan (y / x) + PI else atan (y / x) - PI)
  else if Rlt_dec 0 y then PI / 2
  else if Rlt_dec y 0 then - (PI / 2)
  else 0.

(* x % m for m > 0 (result in [0, m)) *)
Definition Rmod (x m : R) : R := x - IZR (Int_part (x / m)) * m.

Definition twopi : R := 2 * PI.
Definition fourpi : R := 4 * PI.

(* latitude and longitude of a vector as every fixed routine extracts them *)
Definition lat_of (v : vec) : R := atan2 (vz v) (sqrt (vx v * vx v + vy v * vy v)).
Definition lon_of (v : vec) : R := atan2 (vy v) (vx v).
(* the latitude as the code under test computes it: arctan2 (flag true) or arcsin of the third
   component, clipped from above only (euler, rotate) or not at all *)
Definition lat_by (atan2_flag clip : bool) (v : vec) : R :=
  if atan2_flag then lat_of v else asin (if clip then Rmin (vz v) 1 else vz v).

(* atbound: `while x < lo: x += 360` then `while x > hi: x -= 360`; loops unrolled [fuel] times
   (the theorems show the exit conditions hold, i.e. the fuel sufficed) *)
Fixpoint atb_up (fuel : nat) (x lo : R) : R :=
  match fuel with
  | O => x
  | S f => if Rlt_dec x lo then atb_up f (x + atbound_period) lo else x
  end.
Fixpoint atb_down (fuel : nat) (x hi : R) : R :=
  match fuel with
  | O => x
  | S f => if Rlt_dec hi x then atb_down f (x - atbound_period) hi else x
  end.
Definition atbound (fuel : nat) (x : R) (b : R * R) : R := atb_down fuel (atb_up fuel x (fst b)) (snd b).

Definition atb_fuel : nat := 3.

(* atbound2(theta, phi): returns (theta, phi) *)
Definition atbound2 (theta phi : R) : R * R :=
  let theta := atbound atb_fuel theta atbound2_bound1 in
  let '(theta, phi) := if Rlt_dec atbound2_fold (Rabs theta)
                       then (atbound2_reflect - theta, phi + atbound2_phishift) else (theta, phi) in
  let theta := atbound atb_fuel theta atbound2_bound2 in
  let phi := atbound atb_fuel phi atbound2_bound3 in
  let phi := if Req_EM_T (Rabs theta) atbound2_pole then 0 else phi in
  (theta, phi).

(* ---------------------------------------------------------------- euler *)
Definition r_psi (r : row) : R := fst (fst (fst r)).
Definition r_st (r : row) : R := snd (fst (fst r)).
Definition r_ct (r : row) : R := snd (fst r).
Definition r_phi (r : row) : R := snd r.

(* the three components the code computes before extracting angles (inputs in degrees) *)
Definition euler_xyz (r : row) (ai bi : R) : vec :=
  let a := ai * D2R - r_phi r in
  let b := bi * D2R in
  let sb := sin b in
  let cb := cos b in
  let cbsa := cb * sin a in
  (cb * cos a, r_ct r * cbsa + r_st r * sb, - r_st r * cbsa + r_ct r * sb).

(* (long_out, lat_out) in degrees, as coded *)
Definition euler_R_gen (lat_atan2 : bool) (r : row) (ai bi : R) : R * R :=
  let v := euler_xyz r ai bi in
  let bo := lat_by lat_atan2 true v * R2D in
  let a := lon_of v in
  let ao := Rmod (a + r_psi r + fourpi) twopi * R2D in
  (ao, bo).
Definition euler_R : row -> R -> R -> R * R := euler_R_gen euler_lat_atan2.

(* the same map on vectors: a linear map of the input direction *)
Definition euler_lin (r : row) (u : vec) : vec := Rz (r_psi r) (Rx_sc (r_st r) (r_ct r) (Rz (- r_phi r) u)).
Definition euler_vec (r : row) (ai bi : R) : vec := euler_lin r (unit_deg ai bi).

(* the norm of that vector in closed form, and its direction (used by the per-case certificates:
   Proofs.euler_norm_ok, euler_dir_ok) *)
Definition euler_norm (r : row) (a b : R) : R :=
  sqrt (1 + (r_st r * r_st r + r_ct r * r_ct r - 1) * (1 - (cos (b * D2R) * cos (a * D2R - r_phi r))²)).
Definition euler_dir (r : row) (a b : R) : vec := scale (/ euler_norm r a b) (Rz (r_psi r) (euler_xyz r a b)).

Definition euler_mat (r : row) : mat :=
  let cp := cos (r_psi r) in let sp := sin (r_psi r) in
  let cf := cos (r_phi r) in let sf := sin (r_phi r) in
  let s := r_st r in let c := r_ct r in
  ((cp * cf + sp * c * sf, cp * sf - sp * c * cf, - sp * s),
   (sp * cf - cp * c * sf, sp * sf + cp * c * cf, cp * s),
   (s * sf, - s * cf, c)).

(* the row used by the inverse selector: (psi, s, c, phi) |-> (phi, -s, c, psi) *)
Definition row_inv (r : row) : row := (r_phi r, - r_st r, r_ct r, r_psi r).
Definition inv_select (s : nat) : nat :=
  match s with 1 => 2 | 2 => 1 | 3 => 4 | 4 => 3 | 5 => 6 | 6 => 5 | _ => s end%nat.

(* the six wrappers *)
Definition eq2gal_R (b1950 : bool) := euler_R (euler_row b1950 sel_eq2gal).
Definition gal2eq_R (b1950 : bool) := euler_R (euler_row b1950 sel_gal2eq).
Definition eq2ec_R (b1950 : bool) := euler_R (euler_row b1950 sel_eq2ec).
Definition ec2eq_R (b1950 : bool) := euler_R (euler_row b1950 sel_ec2eq).
Definition ec2gal_R (b1950 : bool) := euler_R (euler_row b1950 sel_ec2gal).
Definition gal2ec_R (b1950 : bool) := euler_R (euler_row b1950 sel_gal2ec).

(* rotation defined by the documented constants (J2000): pole (alpha, delta), longitude of the node *)
Definition doc_row (sel : nat) : row :=
  let rG := (doc_lomega * D2R, cos (doc_deltaG * D2R), sin (doc_deltaG * D2R), (doc_alphaG + 90) * D2R) in
  let rE := (0, sin (doc_eps * D2R), cos (doc_eps * D2R), 0) in
  let rEG := (doc_Eomega * D2R, cos (doc_deltaE * D2R), sin (doc_deltaE * D2R), (doc_alphaE + 90) * D2R) in
  match sel with
  | 1 => rG | 2 => row_inv rG | 3 => rE | 4 => row_inv rE | 5 => rEG | _ => row_inv rEG
  end%nat.

(* ---------------------------------------------------------------- rotate (zxz, degrees) *)
Definition rotate_row (phi theta psi : R) : row :=
  (- psi * D2R, sin (- theta * D2R), cos (- theta * D2R), - phi * D2R).
Definition rotate_R (phi theta psi ra dec : R) : R * R :=
  euler_R_gen rotate_lat_atan2 (rotate_row phi theta psi) ra dec.
Definition rotate_vec (phi theta psi ra dec : R) : vec := euler_vec (rotate_row phi theta psi) ra dec.

(* ---------------------------------------------------------------- unit vectors *)
(* eq2xyz(ra, dec, units, stomp) *)
Definition ang_in (deg : bool) (x : R) : R := if deg then x * D2R else x.
Definition ang_out (deg : bool) (x : R) : R := if deg then x * R2D else x.
Definition eq2xyz_R (deg stomp : bool) (ra dec : R) : vec :=
  let theta := ang_in deg ra - (if stomp then sdss_node else 0) in
  let phi := ang_in deg dec in
  (cos theta * cos phi, sin theta * cos phi, sin phi).

(* xyz2eq(x, y, z, units, stomp) *)
Definition xyz2eq_R_gen (lat_atan2 rad_wrap : bool) (deg stomp : bool) (v : vec) : R * R :=
  let phi := lat_by lat_atan2 false v in
  let theta := lon_of v + (if stomp then sdss_node else 0) in
  if deg then (atbound atb_fuel (theta * R2D) xyz2eq_atbound, phi * R2D)
  else ((if rad_wrap then (if Rlt_dec theta 0 then theta + 2 * PI else theta)
         else atbound atb_fuel theta xyz2eq_atbound), phi).
Definition xyz2eq_R : bool -> bool -> vec -> R * R := xyz2eq_R_gen xyz2eq_lat_atan2 xyz2eq_rad_wrap_2pi.

(* ---------------------------------------------------------------- SDSS survey coordinates *)
Definition in_range (x : R) (b : R * R) : bool :=
  if Rlt_dec x (fst b) then false else if Rlt_dec (snd b) x then false else true.

(* direction (in the frame rotated to the survey node) of corrected survey coordinates, radians *)
Definition sdss_unit (clambda ceta : R) : vec :=
  (- sin clambda, cos (ceta + sdss_etapole) * cos clambda, sin (ceta + sdss_etapole) * cos clambda).

Definition eq2sdss_xyz (ra dec : R) : vec :=
  let ra' := ra * D2R - sdss_node in
  let dec' := dec * D2R in
  (cos ra' * cos dec', sin ra' * cos dec', sin dec').

Definition eq2sdss_R_gen (lat_atan2 : bool) (ra dec : R) : result (R * R) :=
  if negb (in_range ra eq2sdss_range1) then Err sdss_range_err
  else if negb (in_range dec eq2sdss_range2) then Err sdss_range_err
  else
    let v := eq2sdss_xyz ra dec in
    let clambda := - (if lat_atan2 then atan2 (vx v) (sqrt (vy v * vy v + vz v * vz v)) else asin (vx v)) in
    let ceta := atan2 (vz v) (vy v) - sdss_etapole in
    Ok (clambda * R2D, atbound atb_fuel (ceta * R2D) eq2sdss_atbound).
Definition eq2sdss_R : R -> R -> result (R * R) := eq2sdss_R_gen eq2sdss_lat_atan2.

Definition sdss2eq_R_gen (lat_atan2 : bool) (clambda ceta : R) : result (R * R) :=
  if negb (in_range clambda sdss2eq_range1) then Err sdss_range_err
  else if negb (in_range ceta sdss2eq_range2) then Err sdss_range_err
  else
    let v := sdss_unit (clambda * D2R) (ceta * D2R) in
    let ra := lon_of v + sdss_node in
    let dec := lat_by lat_atan2 false v in
    let '(dec, ra) := atbound2 (dec * R2D) (ra * R2D) in
    Ok (ra, dec).
Definition sdss2eq_R : R -> R -> result (R * R) := sdss2eq_R_gen sdss2eq_lat_atan2.

(* ---------------------------------------------------------------- shiftlon / shiftra (exact, Q) *)
Open Scope Q_scope.

Definition qcmp (c : cmp) (x t : Q) : bool :=
  match c with
  | CGt => negb (Qle_bool x t)
  | CGe => Qle_bool t x
  | CLt => negb (Qle_bool t x)
  | CLe => Qle_bool x t
  | CEq => Qeq_bool x t
  end.

(* python's float % for a positive modulus, on exact rationals *)
Definition Qmod (x m : Q) : Q := x - inject_Z (Qfloor (x / m)) * m.

(* shiftlon(lon, shift, wrap) for one element *)
Definition shiftlon (lon : Q) (shift : option Q) (wrap : bool) : Q :=
  match shift with
  | Some s =>
      let negshift := negb (Qle_bool 0 s) in
      let abs_shift := Qmod (Qabs s) shift_mod in
      if negshift then
        let l := lon + abs_shift in
        if qcmp shift_neg_cmp l shift_neg_thr then l - shift_neg_period else l
      else
        let l := lon - abs_shift in
        if qcmp shift_pos_cmp l shift_pos_thr then
          let l := l + shift_pos_period in
          match shift_pos_rewrap with
          | Some (c, t, p) => if qcmp c l t then l - p else l
          | None => l
          end
        else l
  | None =>
      if wrap then (if qcmp wrap_cmp lon wrap_thr then lon - wrap_period else lon) else lon
  end.
Definition shiftra := shiftlon.

(* C09 -- (1) the two `while` loops of atbound terminate for EVERY real input and give the value in the window
   (the model unrolls them with fuel; here: some number of iterations suffices, more fuel changes nothing, and the
   result is the closed form "x moved by whole turns into [lo, lo+360]"); (2) exactly which inputs eq2sdss / sdss2eq
   reject, and with which error class; (3) the model is a function of the call's own arguments: the answer to a call
   does not depend on the calls made before it. *)
From Coq Require Import Reals Lra Lia List QArith.
From EsVerif.Common Require Import Base.
From EsVerif.C09 Require Import Gen Model Spec Geometry Proofs.
Import ListNotations.
Open Scope R_scope.

(* ------------------------------------------------------------------ (1) atbound for all inputs *)
Lemma atb_up_stable fuel : forall x lo m, lo <= atb_up fuel x lo -> atb_up (fuel + m) x lo = atb_up fuel x lo.
Proof.
  induction fuel as [|f IH]; intros x lo m H.
  - simpl in *. destruct m; simpl; [reflexivity|]. destruct (Rlt_dec x lo); [lra | reflexivity].
  - simpl in *. destruct (Rlt_dec x lo) as [Hlt|Hge]; [apply IH; exact H | reflexivity].
Qed.

Lemma atb_down_stable fuel : forall x hi m, atb_down fuel x hi <= hi -> atb_down (fuel + m) x hi = atb_down fuel x hi.
Proof.
  induction fuel as [|f IH]; intros x hi m H.
  - simpl in *. destruct m; simpl; [reflexivity|]. destruct (Rlt_dec hi x); [lra | reflexivity].
  - simpl in *. destruct (Rlt_dec hi x) as [Hlt|Hge]; [apply IH; exact H | reflexivity].
Qed.

Lemma nat_above (y : R) : exists n : nat, y <= INR n.
Proof.
  destruct (archimed y) as [H _]. set (z := up y) in *.
  exists (Z.to_nat z). destruct (Z_le_gt_dec 0 z) as [Hz|Hz].
  - rewrite INR_IZR_INZ, Z2Nat.id by exact Hz. lra.
  - assert (IZR z <= 0) by (apply IZR_le; lia). replace (Z.to_nat z) with 0%nat by lia. simpl. lra.
Qed.

(* the first loop: after some number n of iterations the exit condition holds; more fuel changes nothing *)
Lemma atb_up_total x lo : exists n : nat,
  (forall m, atb_up (n + m) x lo = atb_up n x lo) /\ lo <= atb_up n x lo /\
  (atb_up n x lo = x \/ atb_up n x lo < lo + 360) /\ exists k : nat, atb_up n x lo = x + 360 * INR k.
Proof.
  destruct (nat_above ((lo - x) / 360)) as [n Hn].
  assert (lo - 360 * INR n <= x) as Hx by (apply Rmult_le_compat_r with (r := 360) in Hn; [|lra]; unfold Rdiv in Hn; rewrite Rmult_assoc, Rinv_l, Rmult_1_r in Hn; lra).
  destruct (atb_up_spec n x lo) as [k [E R]]. destruct (R Hx) as [R1 R2].
  exists n. split; [intro m; apply atb_up_stable; exact R1|]. split; [exact R1|]. split; [exact R2|]. exists k; exact E.
Qed.

Lemma atb_down_total x hi : exists n : nat,
  (forall m, atb_down (n + m) x hi = atb_down n x hi) /\ atb_down n x hi <= hi /\
  (atb_down n x hi = x \/ hi - 360 < atb_down n x hi) /\ exists k : nat, atb_down n x hi = x - 360 * INR k.
Proof.
  destruct (nat_above ((x - hi) / 360)) as [n Hn].
  assert (x <= hi + 360 * INR n) as Hx by (apply Rmult_le_compat_r with (r := 360) in Hn; [|lra]; unfold Rdiv in Hn; rewrite Rmult_assoc, Rinv_l, Rmult_1_r in Hn; lra).
  destruct (atb_down_spec n x hi) as [k [E R]]. destruct (R Hx) as [R1 R2].
  exists n. split; [intro m; apply atb_down_stable; exact R1|]. split; [exact R1|]. split; [exact R2|]. exists k; exact E.
Qed.

Lemma atb_up_fuel_indep n x lo m : lo <= atb_up n x lo -> atb_up (n + m) x lo = atb_up n x lo.
Proof. apply atb_up_stable. Qed.

(* atbound on a window of one turn, for every real input: enough fuel exists, the result does not depend on the fuel
   beyond that, lies in the window and differs from the input by whole turns *)
Lemma atbound_total x lo : exists n : nat, forall m,
  atbound (n + m) x (lo, lo + 360) = atbound n x (lo, lo + 360) /\
  lo <= atbound n x (lo, lo + 360) <= lo + 360 /\
  exists k : Z, atbound n x (lo, lo + 360) = x + 360 * IZR k.
Proof.
  destruct (atb_up_total x lo) as [n1 [S1 [L1 [W1 [k1 E1]]]]].
  remember (atb_up n1 x lo) as y eqn:Ey.
  destruct (atb_down_total y (lo + 360)) as [n2 [S2 [L2 [W2 [k2 E2]]]]].
  exists (n1 + n2)%nat. intro m.
  assert (forall j, atb_up (n1 + j) x lo = y) as U by (intro j; rewrite S1; reflexivity).
  assert (forall j, atb_down (n2 + j) y (lo + 360) = atb_down n2 y (lo + 360)) as D by (intro j; apply S2).
  assert (forall f, (n1 + n2 <= f)%nat -> atbound f x (lo, lo + 360) = atb_down n2 y (lo + 360)) as A.
  { intros f Hf. unfold atbound; simpl fst; simpl snd.
    replace f with (n1 + (f - n1))%nat at 2 by lia. rewrite U.
    replace f with (n2 + (f - n2))%nat by lia. apply D. }
  rewrite (A (n1 + n2 + m)%nat) by lia. rewrite (A (n1 + n2)%nat) by lia.
  split; [reflexivity|]. split.
  - split; [|exact L2]. destruct W2 as [W2|W2]; [rewrite W2; exact L1 | lra].
  - exists (Z.of_nat k1 - Z.of_nat k2)%Z. rewrite E2, E1, minus_IZR, <- !INR_IZR_INZ. ring.
Qed.

(* ------------------------------------------------------------------ (2) rejections *)
Lemma eq2sdss_rejects_iff ra dec :
  (eq2sdss_R ra dec = Err EValue <-> (ra < 0 \/ 360 < ra \/ dec < -90 \/ 90 < dec)) /\
  ((exists p, eq2sdss_R ra dec = Ok p) <-> (0 <= ra <= 360 /\ -90 <= dec <= 90)).
Proof.
  destruct sdss_ranges_eq as [E1 [E2 _]].
  assert ((0 <= ra <= 360 /\ -90 <= dec <= 90) -> exists p, eq2sdss_R ra dec = Ok p) as Hok.
  { intros [Hr Hd]. destruct (eq2sdss_correct ra dec) as [cl [ce [E _]]];
      [apply in_range_intro; rewrite E1; simpl; lra | apply in_range_intro; rewrite E2; simpl; lra|].
    exists (cl, ce); exact E. }
  split; split.
  - intro H. destruct (Rlt_dec ra 0); [tauto|]. destruct (Rlt_dec 360 ra); [tauto|].
    destruct (Rlt_dec dec (-90)); [tauto|]. destruct (Rlt_dec 90 dec); [tauto|].
    destruct Hok as [p Hp]; [lra|]. rewrite Hp in H. discriminate.
  - apply sdss_rejects.
  - intros [p Hp]. destruct (Rlt_dec ra 0) as [A|A]; [rewrite (sdss_rejects ra dec) in Hp by tauto; discriminate|].
    destruct (Rlt_dec 360 ra) as [B|B]; [rewrite (sdss_rejects ra dec) in Hp by tauto; discriminate|].
    destruct (Rlt_dec dec (-90)) as [C|C]; [rewrite (sdss_rejects ra dec) in Hp by tauto; discriminate|].
    destruct (Rlt_dec 90 dec) as [D|D]; [rewrite (sdss_rejects ra dec) in Hp by tauto; discriminate|]. lra.
  - exact Hok.
Qed.

Lemma sdss2eq_rejects cl ce : (cl < -90 \/ 90 < cl \/ ce < -180 \/ 180 < ce) -> sdss2eq_R cl ce = Err EValue.
Proof.
  intro H. destruct sdss_ranges_eq as [_ [_ [E3 E4]]]. unfold sdss2eq_R, sdss2eq_R_gen, in_range. rewrite E3, E4; simpl fst; simpl snd.
  destruct (Rlt_dec cl (-90)); [reflexivity|]. destruct (Rlt_dec 90 cl); [reflexivity|]. simpl.
  destruct (Rlt_dec ce (-180)); [reflexivity|]. destruct (Rlt_dec 180 ce); [reflexivity|]. lra.
Qed.

Lemma sdss2eq_rejects_iff cl ce :
  (sdss2eq_R cl ce = Err EValue <-> (cl < -90 \/ 90 < cl \/ ce < -180 \/ 180 < ce)) /\
  ((exists p, sdss2eq_R cl ce = Ok p) <-> (-90 <= cl <= 90 /\ -180 <= ce <= 180)).
Proof.
  destruct sdss_ranges_eq as [_ [_ [E3 E4]]].
  assert ((-90 <= cl <= 90 /\ -180 <= ce <= 180) -> exists p, sdss2eq_R cl ce = Ok p) as Hok.
  { intros [Hr Hd]. destruct (sdss2eq_correct cl ce) as [ra [dec [E _]]];
      [apply in_range_intro; rewrite E3; simpl; lra | apply in_range_intro; rewrite E4; simpl; lra|].
    exists (ra, dec); exact E. }
  split; split.
  - intro H. destruct (Rlt_dec cl (-90)); [tauto|]. destruct (Rlt_dec 90 cl); [tauto|].
    destruct (Rlt_dec ce (-180)); [tauto|]. destruct (Rlt_dec 180 ce); [tauto|].
    destruct Hok as [p Hp]; [lra|]. rewrite Hp in H. discriminate.
  - apply sdss2eq_rejects.
  - intros [p Hp]. destruct (Rlt_dec cl (-90)) as [A|A]; [rewrite (sdss2eq_rejects cl ce) in Hp by tauto; discriminate|].
    destruct (Rlt_dec 90 cl) as [B|B]; [rewrite (sdss2eq_rejects cl ce) in Hp by tauto; discriminate|].
    destruct (Rlt_dec ce (-180)) as [C|C]; [rewrite (sdss2eq_rejects cl ce) in Hp by tauto; discriminate|].
    destruct (Rlt_dec 180 ce) as [D|D]; [rewrite (sdss2eq_rejects cl ce) in Hp by tauto; discriminate|]. lra.
  - exact Hok.
Qed.

(* ------------------------------------------------------------------ (3) no state: answers do not depend on the history *)
Inductive call :=
| CEuler (b1950 : bool) (select : nat) (a d : R)
| CRotate (phi theta psi ra dec : R)
| CEq2xyz (deg stomp : bool) (ra dec : R)
| CXyz2eq (deg stomp : bool) (v : vec)
| CEq2sdss (ra dec : R)
| CSdss2eq (cl ce : R)
| CShiftlon (lon : Q) (shift : option Q) (wrap : bool).

Inductive answer_t :=
| APair (p : R * R) | AVec (v : vec) | ARes (r : result (R * R)) | AQ (q : Q).

Definition answer (c : call) : answer_t :=
  match c with
  | CEuler b s a d => APair (euler_R (euler_row b s) a d)
  | CRotate phi theta psi ra dec => APair (rotate_R phi theta psi ra dec)
  | CEq2xyz deg stomp ra dec => AVec (eq2xyz_R deg stomp ra dec)
  | CXyz2eq deg stomp v => APair (xyz2eq_R deg stomp v)
  | CEq2sdss ra dec => ARes (eq2sdss_R ra dec)
  | CSdss2eq cl ce => ARes (sdss2eq_R cl ce)
  | CShiftlon lon s w => AQ (shiftlon lon s w)
  end.

(* a session: the module as a state machine whose state is the list of calls made so far (the model keeps none) *)
Definition step (history : list call) (c : call) : list call * answer_t := (history ++ [c], answer c).

Fixpoint session (history : list call) (cs : list call) : list answer_t :=
  match cs with
  | [] => []
  | c :: t => let '(h, a) := step history c in a :: session h t
  end.

Lemma session_map h cs : session h cs = map answer cs.
Proof. revert h. induction cs as [|c t IH]; intro h; simpl; [reflexivity | rewrite IH; reflexivity]. Qed.

(* whatever was called before (and after), the answer to a call is the answer it gets as the only call of a session *)
Lemma history_independent pre c post h0 :
  nth (length pre) (session h0 (pre ++ c :: post)) (AQ 0%Q) = answer c /\ session [] [c] = [answer c].
Proof.
  split; [|reflexivity]. rewrite session_map, map_app. rewrite app_nth2; rewrite map_length; [|lia].
  rewrite Nat.sub_diag. reflexivity.
Qed.

(* ------------------------------------------------------------------ (4) the shiftlon checker is complete (it decides the property) *)
From Coq Require Import Qround Qabs Lqa.
Open Scope Q_scope.

Lemma is_integer_complete q k : q == inject_Z k -> is_integer q = true.
Proof.
  intro H. unfold is_integer. apply Qeq_bool_iff.
  assert (Qfloor q = k) as E by (rewrite <- (Qfloor_Z k); apply Qfloor_comp; exact H).
  rewrite E. symmetry. exact H.
Qed.

Lemma qle_bool_false_intro x y : y < x -> Qle_bool x y = false.
Proof.
  intro H. destruct (Qle_bool x y) eqn:E; [|reflexivity]. apply Qle_bool_iff in E. exfalso. apply (Qlt_not_le _ _ H E).
Qed.

Lemma shiftlon_check_complete lon shift wrap out :
  shiftlon_ok lon shift wrap out -> shiftlon_check lon shift wrap out = true.
Proof.
  unfold shiftlon_ok, shiftlon_check. destruct shift as [s|].
  - intros [[k Hk] [H0 H1]]. apply andb_true_iff. split.
    + apply (is_integer_complete _ k). rewrite Hk. field.
    + unfold q_in_ho. apply andb_true_iff. split; [apply Qle_bool_iff; exact H0|].
      rewrite (qle_bool_false_intro 360 out H1). reflexivity.
  - destruct wrap.
    + intros [[k Hk] [H0 H1]]. apply andb_true_iff. split.
      * apply (is_integer_complete _ k). rewrite Hk. field.
      * unfold q_in. apply andb_true_iff. split; apply Qle_bool_iff; assumption.
    + intro H. apply Qeq_bool_iff. exact H.
Qed.

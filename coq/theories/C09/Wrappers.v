(* C09 -- the six named wrappers: the selector each one passes to euler is regenerated from the source (the sel_... constants of Gen.v);
   here they are tied to the rows the theorems speak about, and the main statements are restated for the wrappers by
   name: gal2eq undoes eq2gal, ec2eq undoes eq2ec, gal2ec undoes ec2gal (and conversely), in both epochs. *)
From Coq Require Import Reals Lra Lia.
From EsVerif.Common Require Import Base.
From EsVerif.C09 Require Import Gen Model Spec Geometry Proofs Rows Isometry.
Open Scope R_scope.

Lemma wrapper_selectors :
  sel_eq2gal = 1%nat /\ sel_gal2eq = 2%nat /\ sel_eq2ec = 3%nat /\ sel_ec2eq = 4%nat /\ sel_ec2gal = 5%nat /\ sel_gal2ec = 6%nat.
Proof. repeat split; reflexivity. Qed.

Lemma wrapper_inverse_selectors :
  inv_select sel_eq2gal = sel_gal2eq /\ inv_select sel_gal2eq = sel_eq2gal /\
  inv_select sel_eq2ec = sel_ec2eq /\ inv_select sel_ec2eq = sel_eq2ec /\
  inv_select sel_ec2gal = sel_gal2ec /\ inv_select sel_gal2ec = sel_ec2gal.
Proof. repeat split; reflexivity. Qed.

Definition undoes (f g : bool -> R -> R -> R * R) : Prop :=
  forall b a d, let p := f b a d in let q := g b (fst p) (snd p) in
  within_sky tol5 (unit_deg (fst q) (snd q)) (unit_deg a d).

Lemma wrappers_invertible :
  undoes eq2gal_R gal2eq_R /\ undoes gal2eq_R eq2gal_R /\ undoes eq2ec_R ec2eq_R /\ undoes ec2eq_R eq2ec_R /\
  undoes ec2gal_R gal2ec_R /\ undoes gal2ec_R ec2gal_R.
Proof.
  unfold undoes, eq2gal_R, gal2eq_R, eq2ec_R, ec2eq_R, ec2gal_R, gal2ec_R.
  repeat split; intros b a d.
  - apply (rows_invertible b 1 a d). unfold valid_sel; lia.
  - apply (rows_invertible b 2 a d). unfold valid_sel; lia.
  - apply (rows_invertible b 3 a d). unfold valid_sel; lia.
  - apply (rows_invertible b 4 a d). unfold valid_sel; lia.
  - apply (rows_invertible b 5 a d). unfold valid_sel; lia.
  - apply (rows_invertible b 6 a d). unfold valid_sel; lia.
Qed.

(* each wrapper preserves separations to 1e-5 degree and returns angles in range *)
Definition keeps_separation (f : bool -> R -> R -> R * R) : Prop :=
  forall b a1 d1 a2 d2, let p := f b a1 d1 in let q := f b a2 d2 in
  Rabs (angle (unit_deg (fst p) (snd p)) (unit_deg (fst q) (snd q)) - angle (unit_deg a1 d1) (unit_deg a2 d2)) <= tol5.

Lemma wrappers_isometric :
  keeps_separation eq2gal_R /\ keeps_separation gal2eq_R /\ keeps_separation eq2ec_R /\ keeps_separation ec2eq_R /\
  keeps_separation ec2gal_R /\ keeps_separation gal2ec_R.
Proof.
  unfold keeps_separation, eq2gal_R, gal2eq_R, eq2ec_R, ec2eq_R, ec2gal_R, gal2ec_R.
  repeat split; intros b a1 d1 a2 d2.
  - apply (rows_preserve_angles b 1). unfold valid_sel; lia.
  - apply (rows_preserve_angles b 2). unfold valid_sel; lia.
  - apply (rows_preserve_angles b 3). unfold valid_sel; lia.
  - apply (rows_preserve_angles b 4). unfold valid_sel; lia.
  - apply (rows_preserve_angles b 5). unfold valid_sel; lia.
  - apply (rows_preserve_angles b 6). unfold valid_sel; lia.
Qed.

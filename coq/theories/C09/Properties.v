(* C09 -- celestial coordinate conversions are invertible isometries with correct poles.
   Only statements; every proof is `exact <lemma>` (Geometry.v, Proofs.v, Rows.v, ExecProofs.v).
   The model (Model.v) is over the reals; its constants AND shape flags come from Gen.v, regenerated
   from esutil/coords.py on every run, so the theorems below are re-proved for the constants and the
   formulas' shape of the tree under test.  Tolerances: tol5 = 1e-5 degree, tol9 = 1e-9 degree
   (radians); within_sky t u v  <->  great-circle angle(u, v) <= t  (C09_within_sky_is_angle). *)
From Coq Require Import Reals QArith List.
From EsVerif.Common Require Import Base.
From EsVerif.C09 Require Import Gen Model Spec Geometry Proofs Rows Isometry AsFound Exec ExecProofs.
Open Scope R_scope.

(* ---------------------------------------------------------------- meaning of the measured statements *)
Theorem C09_within_sky_is_angle : forall t u v, is_unit u -> is_unit v -> 0 <= t <= PI ->
  (within_sky t u v <-> angle u v <= t).
Proof. exact within_sky_angle. Qed.

Theorem C09_sep_is_angle : forall u v, is_unit u -> is_unit v -> 0 < chord2 u (vopp v) -> sep u v = angle u v.
Proof. exact sep_is_angle. Qed.

(* ---------------------------------------------------------------- euler: the general transformation *)
(* the computed vector is Rz(psi) Rx(theta) Rz(-phi) applied to the input direction *)
Theorem C09_euler_is_linear : forall r a b, euler_vec r a b = Rz (r_psi r) (euler_xyz r a b).
Proof. exact euler_vec_xyz. Qed.

(* an exact rotation -- isometry with the inverse (psi,s,c,phi) -> (phi,-s,c,psi) -- when s^2+c^2 = 1 *)
Theorem C09_euler_is_rotation : forall r, r_st r * r_st r + r_ct r * r_ct r = 1 ->
  forall u v, dot (euler_lin r u) (euler_lin r v) = dot u v.
Proof. exact euler_isometry. Qed.

Theorem C09_euler_rotation_inverse : forall r, r_st r * r_st r + r_ct r * r_ct r = 1 ->
  forall u, euler_lin (row_inv r) (euler_lin r u) = u.
Proof. exact euler_inverse. Qed.

(* the returned angles are coordinates of the direction of the computed vector, in range *)
Theorem C09_euler_extract : forall r a b, 0 < norm2 (euler_xyz r a b) ->
  represents_deg (euler_R r a b) (euler_vec r a b).
Proof. exact euler_extract. Qed.

Theorem C09_euler_range : forall r a b,
  0 <= fst (euler_R r a b) < 360 /\ -90 <= snd (euler_R r a b) <= 90.
Proof. exact euler_range. Qed.

(* ---------------------------------------------------------------- the 12 tabulated rows (regenerated) *)
(* |sin^2 + cos^2 - 1| <= 1e-10 for each tabulated row, and the computed vector is never zero *)
Theorem C09_rows_orthonormal : forall b s, valid_sel s ->
  Rabs (eps_of (euler_row b s)) <= eps_max /\ forall a d, 0 < norm2 (euler_xyz (euler_row b s) a d).
Proof. exact rows_orthonormal_nonzero. Qed.

Theorem C09_rows_inverse_pairs : forall b s, valid_sel s -> euler_row b (inv_select s) = row_inv (euler_row b s).
Proof. exact rows_inverse_pairs. Qed.

(* every conversion followed by its inverse returns every point (poles included) to within 1e-5 deg *)
Theorem C09_conversions_invertible : forall b s a d, valid_sel s ->
  let p := euler_R (euler_row b s) a d in
  let q := euler_R (euler_row b (inv_select s)) (fst p) (snd p) in
  within_sky tol5 (unit_deg (fst q) (snd q)) (unit_deg a d).
Proof. exact rows_invertible. Qed.

(* every conversion preserves the great-circle angle between any two points to 1e-5 degree,
   measured between the returned positions (poles, antipodes and coincident points included) *)
Theorem C09_conversions_preserve_separation : forall b s a1 d1 a2 d2, valid_sel s ->
  let p := euler_R (euler_row b s) a1 d1 in
  let q := euler_R (euler_row b s) a2 d2 in
  Rabs (angle (unit_deg (fst p) (snd p)) (unit_deg (fst q) (snd q)) - angle (unit_deg a1 d1) (unit_deg a2 d2)) <= tol5.
Proof. exact rows_preserve_angles. Qed.

(* the great-circle angle is a metric on the unit sphere *)
Theorem C09_angle_triangle : forall a b c, is_unit a -> is_unit b -> is_unit c -> angle a c <= angle a b + angle b c.
Proof. exact angle_triangle. Qed.

(* on the rotated vectors: cosines change by at most 1e-10, squared chords by a factor within 1 +- 1e-10 *)
Theorem C09_conversions_near_isometry : forall b s, valid_sel s ->
  isometry_to eps_max (euler_lin (euler_row b s)) /\
  forall u v, Rabs (chord2 (euler_lin (euler_row b s) u) (euler_lin (euler_row b s) v) - chord2 u v) <= eps_max * chord2 u v.
Proof. exact rows_vectors. Qed.

(* J2000: agreement with the exact rotation defined by the documented pole and node constants *)
Theorem C09_documented_rows_are_rotations : forall s,
  r_st (doc_row s) * r_st (doc_row s) + r_ct (doc_row s) * r_ct (doc_row s) = 1.
Proof. exact doc_row_rotation. Qed.

Theorem C09_agree_with_documented_constants : forall s a d, valid_sel s ->
  let p := euler_R (euler_row false s) a d in
  within_sky tol5 (unit_deg (fst p) (snd p)) (euler_lin (doc_row s) (unit_deg a d)).
Proof. exact rows_agree_documented. Qed.

(* chained conversions agree with the direct one (both epochs), on the returned positions *)
Theorem C09_chain_equals_direct : forall b a d,
  (let p1 := euler_R (euler_row b 4) a d in
   let p2 := euler_R (euler_row b 1) (fst p1) (snd p1) in
   let pd := euler_R (euler_row b 5) a d in
   within_sky tol5 (unit_deg (fst pd) (snd pd)) (unit_deg (fst p2) (snd p2)))
  /\
  (let p1 := euler_R (euler_row b 2) a d in
   let p2 := euler_R (euler_row b 3) (fst p1) (snd p1) in
   let pd := euler_R (euler_row b 6) a d in
   within_sky tol5 (unit_deg (fst pd) (snd pd)) (unit_deg (fst p2) (snd p2))).
Proof. exact rows_chain_angles. Qed.

(* ---------------------------------------------------------------- the repaired defect, for the record *)
(* the as-found latitude formula (arcsin of the third component; shape flag false) fails the statement
   at the documented galactic pole: eq2gal(192.85948, 27.12825) is returned more than 1e-5 degree away
   from the direction of the rotated vector -- a property of the formula over the reals, not of rounding.
   With the flag of the repaired tree (true) C09_agree_with_documented_constants holds at every point. *)
Theorem C09_asfound_arcsin_pole_refuted :
  let p := euler_R_gen false pole_row doc_alphaG doc_deltaG in
  ~ within_sky tol5 (unit_deg (fst p) (snd p)) (euler_dir pole_row doc_alphaG doc_deltaG).
Proof. exact asfound_pole_refuted. Qed.

(* ---------------------------------------------------------------- rotate *)
Theorem C09_rotate_range : forall phi theta psi ra dec,
  0 <= fst (rotate_R phi theta psi ra dec) < 360 /\ -90 <= snd (rotate_R phi theta psi ra dec) <= 90.
Proof. exact rotate_range. Qed.

Theorem C09_rotate_isometry : forall phi theta psi ra1 dec1 ra2 dec2,
  let p := rotate_R phi theta psi ra1 dec1 in
  let q := rotate_R phi theta psi ra2 dec2 in
  dot (unit_deg (fst p) (snd p)) (unit_deg (fst q) (snd q)) = dot (unit_deg ra1 dec1) (unit_deg ra2 dec2).
Proof. exact rotate_isometry. Qed.

Theorem C09_rotate_preserves_separation : forall phi theta psi ra1 dec1 ra2 dec2,
  let p := rotate_R phi theta psi ra1 dec1 in
  let q := rotate_R phi theta psi ra2 dec2 in
  angle (unit_deg (fst p) (snd p)) (unit_deg (fst q) (snd q)) = angle (unit_deg ra1 dec1) (unit_deg ra2 dec2).
Proof. exact rotate_preserves_angles. Qed.

Theorem C09_rotate_inverse : forall phi theta psi ra dec,
  let p := rotate_R phi theta psi ra dec in
  let q := rotate_R psi (- theta) phi (fst p) (snd p) in
  unit_deg (fst q) (snd q) = unit_deg ra dec.
Proof. exact rotate_inverse. Qed.

(* ---------------------------------------------------------------- unit vectors *)
Theorem C09_xyz_unit_length : forall deg stomp ra dec, is_unit (eq2xyz_R deg stomp ra dec).
Proof. exact xyz_unit_length. Qed.

(* eq2xyz is a rotation about z of the direction of (ra, dec): separations are preserved *)
Theorem C09_xyz_is_rotated_direction : forall deg stomp ra dec,
  eq2xyz_R deg stomp ra dec = Rz (- (if stomp then sdss_node else 0)) (unit_rad (ang_in deg ra) (ang_in deg dec)).
Proof. exact eq2xyz_unit. Qed.

Theorem C09_xyz_preserves_separation : forall deg stomp ra1 dec1 ra2 dec2,
  angle (eq2xyz_R deg stomp ra1 dec1) (eq2xyz_R deg stomp ra2 dec2)
  = angle (unit_rad (ang_in deg ra1) (ang_in deg dec1)) (unit_rad (ang_in deg ra2) (ang_in deg dec2)).
Proof. exact xyz_preserves_angles. Qed.

Theorem C09_xyz_inverse : forall deg stomp v, 0 < norm2 v ->
  eq2xyz_R deg stomp (fst (xyz2eq_R deg stomp v)) (snd (xyz2eq_R deg stomp v)) = normalize v.
Proof. exact xyz_inverse. Qed.

Theorem C09_xyz_roundtrip : forall deg stomp ra dec,
  let p := xyz2eq_R deg stomp (eq2xyz_R deg stomp ra dec) in
  eq2xyz_R deg stomp (fst p) (snd p) = eq2xyz_R deg stomp ra dec.
Proof. exact xyz_roundtrip. Qed.

Theorem C09_xyz2eq_range : forall stomp v,
  0 <= fst (xyz2eq_R true stomp v) <= 360 /\ -90 <= snd (xyz2eq_R true stomp v) <= 90.
Proof. exact xyz2eq_range. Qed.

(* ---------------------------------------------------------------- SDSS survey coordinates *)
Theorem C09_eq2sdss_correct : forall ra dec,
  in_range ra eq2sdss_range1 = true -> in_range dec eq2sdss_range2 = true ->
  exists cl ce, eq2sdss_R ra dec = Ok (cl, ce) /\
    sdss_unit (cl * D2R) (ce * D2R) = Rz (- sdss_node) (unit_deg ra dec) /\
    -90 <= cl <= 90 /\ -180 <= ce <= 180.
Proof. exact eq2sdss_correct. Qed.

Theorem C09_sdss2eq_correct : forall cl ce,
  in_range cl sdss2eq_range1 = true -> in_range ce sdss2eq_range2 = true ->
  exists ra dec, sdss2eq_R cl ce = Ok (ra, dec) /\
    unit_deg ra dec = Rz sdss_node (sdss_unit (cl * D2R) (ce * D2R)) /\
    0 <= ra <= 360 /\ -90 <= dec <= 90.
Proof. exact sdss2eq_correct. Qed.

Theorem C09_sdss_inverse_eq : forall ra dec, 0 <= ra <= 360 -> -90 <= dec <= 90 ->
  exists cl ce ra' dec', eq2sdss_R ra dec = Ok (cl, ce) /\ sdss2eq_R cl ce = Ok (ra', dec') /\
    unit_deg ra' dec' = unit_deg ra dec.
Proof. exact sdss_inverse_eq. Qed.

Theorem C09_sdss_inverse_sdss : forall cl ce, -90 <= cl <= 90 -> -180 <= ce <= 180 ->
  exists ra dec cl' ce', sdss2eq_R cl ce = Ok (ra, dec) /\ eq2sdss_R ra dec = Ok (cl', ce') /\
    sdss_unit (cl' * D2R) (ce' * D2R) = sdss_unit (cl * D2R) (ce * D2R).
Proof. exact sdss_inverse_sdss. Qed.

Theorem C09_sdss_preserves_separation : forall ra1 dec1 ra2 dec2 cl1 ce1 cl2 ce2,
  eq2sdss_R ra1 dec1 = Ok (cl1, ce1) -> eq2sdss_R ra2 dec2 = Ok (cl2, ce2) ->
  angle (sdss_unit (cl1 * D2R) (ce1 * D2R)) (sdss_unit (cl2 * D2R) (ce2 * D2R))
  = angle (unit_deg ra1 dec1) (unit_deg ra2 dec2).
Proof. exact sdss_preserves_angles. Qed.

Theorem C09_sdss_rejects_out_of_range : forall ra dec,
  (ra < 0 \/ 360 < ra \/ dec < -90 \/ 90 < dec) -> eq2sdss_R ra dec = Err EValue.
Proof. exact sdss_rejects. Qed.

(* rotations about z preserve separations (used with the two theorems above and C09_xyz_is_rotated_direction) *)
Theorem C09_Rz_isometry : forall a u v, dot (Rz a u) (Rz a v) = dot u v.
Proof. exact dot_Rz. Qed.

(* ---------------------------------------------------------------- the model's formulas are the source's *)
(* Gen.v carries the three vector components of each routine translated expression by expression
   from the esutil/coords.py under test (harness/translate/c09_consts.py, straightline) *)
Theorem C09_source_formula_euler : forall r a b,
  euler_xyz_src (r_psi r) (r_st r) (r_ct r) (r_phi r) a b = Some (euler_xyz r a b).
Proof. exact euler_src_ok. Qed.

Theorem C09_source_formula_rotate : forall phi theta psi ra dec,
  rotate_xyz_src phi theta psi ra dec = Some (euler_xyz (rotate_row phi theta psi) ra dec).
Proof. exact rotate_src_ok. Qed.

Theorem C09_source_formula_eq2xyz : forall (deg stomp : bool) (ra dec : R),
  thetaphi2xyz_xyz_src (ang_in deg ra - (if stomp then sdss_node else 0)) (ang_in deg dec)
  = Some (eq2xyz_R deg stomp ra dec).
Proof. exact thetaphi_src_ok. Qed.

Theorem C09_source_formula_sdss2eq : forall cl ce, sdss2eq_xyz_src cl ce = Some (sdss_unit (cl * D2R) (ce * D2R)).
Proof. exact sdss2eq_src_ok. Qed.

Theorem C09_source_formula_eq2sdss : forall ra dec, eq2sdss_xyz_src ra dec = Some (eq2sdss_xyz ra dec).
Proof. exact eq2sdss_src_ok. Qed.

(* the output stage (longitude and latitude extracted from x, y, z) translated from the source, with numpy's
   arctan2 and float % instantiated by Model.atan2 and Model.Rmod, is the model's *)
Theorem C09_source_output_stage_euler : forall r a b,
  let v := euler_xyz r a b in
  euler_out_src atan2 Rmod (r_psi r) (vx v) (vy v) (vz v) = Some (euler_R_gen true r a b).
Proof. exact euler_out_src_ok. Qed.

Theorem C09_source_output_stage_xyz2eq : forall v,
  xyz2thetaphi_out_src atan2 Rmod (vx v) (vy v) (vz v) = Some (lon_of v, lat_of v).
Proof. exact xyz2thetaphi_out_src_ok. Qed.

(* ---------------------------------------------------------------- shiftlon / shiftra (exact rationals) *)
Theorem C09_shiftlon_spec : forall lon shift wrap, lon_valid lon ->
  shiftlon_ok lon shift wrap (shiftlon lon shift wrap).
Proof. exact shiftlon_spec. Qed.

(* ---------------------------------------------------------------- soundness of the run-time checkers *)
Theorem C09_shiftlon_check_sound : forall lon shift wrap out,
  shiftlon_check lon shift wrap out = true -> shiftlon_ok lon shift wrap out.
Proof. exact shiftlon_check_sound. Qed.

Theorem C09_shiftlon_check_tol_sound : forall tol lon shift wrap out,
  shiftlon_check_tol tol lon shift wrap out = true -> shiftlon_ok_tol tol lon shift wrap out.
Proof. exact shiftlon_check_tol_sound. Qed.

Theorem C09_shiftlon_ok_tol_0 : forall lon shift wrap out,
  shiftlon_ok_tol 0 lon shift wrap out -> shiftlon_ok lon shift wrap out.
Proof. exact shiftlon_ok_tol_0. Qed.

Theorem C09_unit_len_check_sound : forall x y z, unit_len_check x y z = true ->
  ((1 - unit_tol) * (1 - unit_tol) <= x * x + y * y + z * z <= (1 + unit_tol) * (1 + unit_tol))%Q.
Proof. exact unit_len_check_sound. Qed.

Theorem C09_lonlat_ok_sound : forall lon lat, lonlat_ok (Some lon, Some lat) = true ->
  (0 <= lon <= 360 /\ -90 <= lat <= 90)%Q.
Proof. exact lonlat_ok_sound. Qed.

Theorem C09_sdss_ok_sound : forall cl ce, sdss_ok (Some cl, Some ce) = true ->
  (-90 <= cl <= 90 /\ -180 <= ce <= 180)%Q.
Proof. exact sdss_ok_sound. Qed.

(* ---------------------------------------------------------------- non-vacuity *)
Example C09_nonvacuous_selectors : valid_sel 1 /\ valid_sel 6 /\ lon_valid (350 # 1).
Proof. unfold valid_sel, lon_valid, Qle, Qlt. simpl. lia. Qed.

(* the boundary input of the repaired defect: shiftlon(350, shift=-10) is 0, not 360 *)
Example C09_shiftlon_boundary : (shiftlon (350 # 1) (Some (- 10 # 1)%Q) true == 0)%Q.
Proof. vm_compute. reflexivity. Qed.

Example C09_checker_rejects_360 : shiftlon_check (350 # 1) (Some (- 10 # 1)%Q) true (360 # 1) = false.
Proof. vm_compute. reflexivity. Qed.

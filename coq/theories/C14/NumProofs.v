(* C14 — rational-arithmetic lemmas: exact sums, permutation invariance, sorting, closeness. *)
From Coq Require Import PrimFloat FloatOps SpecFloat QArith Qabs Lia Sorting.Permutation Setoid.
From EsVerif.Common Require Import Base.
From EsVerif.C14 Require Import Model Spec.
Open Scope Q_scope.

(* ------------------------------------------------------------------ sums *)
Lemma qadd_eq p q : W.qadd p q == p + q.
Proof.
  unfold W.qadd. destruct (Pos.eqb (Qden p) (Qden q)) eqn:E.
  - apply Pos.eqb_eq in E. destruct p as [a d], q as [b e]. simpl in E. subst e.
    unfold Qeq, Qplus. simpl. rewrite Pos2Z.inj_mul. ring.
  - apply Qred_correct.
Qed.

Lemma fold_qadd t : forall a, fold_left W.qadd t a == a + Sum t.
Proof.
  induction t as [|b t IH]; intro a; simpl.
  - ring.
  - rewrite IH, qadd_eq. ring.
Qed.

Lemma qsum_Sum l : W.qsum l == Sum l.
Proof.
  destruct l as [|a t]; simpl.
  - reflexivity.
  - apply fold_qadd.
Qed.

Lemma Sum_perm l l' : Permutation l l' -> Sum l == Sum l'.
Proof.
  induction 1; simpl.
  - reflexivity.
  - rewrite IHPermutation. reflexivity.
  - ring.
  - rewrite IHPermutation1. assumption.
Qed.

Lemma Sum_map_ext {A} (f g : A -> Q) l : (forall a, f a == g a) -> Sum (map f l) == Sum (map g l).
Proof.
  intro H. induction l as [|a t IH]; simpl.
  - reflexivity.
  - rewrite IH, H. reflexivity.
Qed.

Lemma Sum_map2_ext (f g : Q -> Q -> Q) l l' :
  (forall a b, f a b == g a b) -> Sum (W.map2 f l l') == Sum (W.map2 g l l').
Proof.
  intro H. revert l'. induction l as [|a t IH]; intros [|b t']; simpl; try reflexivity.
  rewrite IH, H. reflexivity.
Qed.

Lemma map2_map {A} (f : Q -> Q -> Q) (g h : A -> Q) ks :
  W.map2 f (map g ks) (map h ks) = map (fun k => f (g k) (h k)) ks.
Proof. induction ks as [|k t IH]; simpl; [reflexivity | rewrite IH; reflexivity]. Qed.

Lemma Sum_nonneg l : (forall a, In a l -> 0 <= a) -> 0 <= Sum l.
Proof.
  induction l as [|a t IH]; intro H; simpl.
  - apply Qle_refl.
  - rewrite <- (Qplus_0_r 0). apply Qplus_le_compat.
    + apply H. left. reflexivity.
    + apply IH. intros b Hb. apply H. right. assumption.
Qed.

Lemma Sum_abs_nonneg l : 0 <= Sum (map Qabs l).
Proof.
  apply Sum_nonneg. intros a Ha. apply in_map_iff in Ha. destruct Ha as [b [Hb _]]. subst a.
  apply Qabs_nonneg.
Qed.

Lemma qn_pos {A} (l : list A) : l <> [] -> 0 < qn l.
Proof.
  intro H. unfold qn. destruct l as [|a t]; [contradiction|].
  unfold Qlt. simpl. lia.
Qed.

Lemma qn_nonneg {A} (l : list A) : 0 <= qn l.
Proof. unfold qn, Qle. simpl. lia. Qed.

Lemma qn_perm {A} (l l' : list A) : Permutation l l' -> qn l = qn l'.
Proof. intro H. unfold qn. rewrite (Permutation_length H). reflexivity. Qed.

Lemma div_nonneg a b : 0 <= a -> 0 <= b -> 0 <= a / b.
Proof.
  intros Ha Hb. unfold Qdiv.
  destruct (Qeq_dec b 0) as [E|E].
  - rewrite E. unfold Qinv. simpl. rewrite Qmult_0_r. apply Qle_refl.
  - apply Qmult_le_0_compat; [assumption|]. apply Qinv_le_0_compat. assumption.
Qed.

(* ------------------------------------------------------------------ boolean closeness *)
Lemma close_lin_b_sound y v tol : close_lin_b y v tol = true -> close_lin y v tol.
Proof. unfold close_lin_b, close_lin. apply Qle_bool_iff. Qed.

Lemma close_sqrt_b_sound s V tol : close_sqrt_b s V tol = true -> close_sqrt s V tol.
Proof.
  unfold close_sqrt_b, close_sqrt. intro H.
  apply andb_true_iff in H as [H H4]. apply andb_true_iff in H as [H H3].
  apply andb_true_iff in H as [H1 H2].
  apply Qle_bool_iff in H1. apply Qle_bool_iff in H2. apply Qle_bool_iff in H4.
  repeat split; try assumption.
  apply orb_true_iff in H3 as [H3|H3]; apply Qle_bool_iff in H3; [left|right]; assumption.
Qed.

Lemma meets_q_sound y t : meets_q y t = true -> Meets_q y t.
Proof.
  destruct t as [|q|q A|V A]; simpl; intro H.
  - exact I.
  - apply Qeq_bool_iff. assumption.
  - apply close_lin_b_sound. assumption.
  - apply close_sqrt_b_sound. assumption.
Qed.

Lemma meets_sound f t : meets f t = true -> Meets f t.
Proof.
  destruct t as [|q|q A|V A]; intro H; [exact I | | | ];
    unfold meets in H; apply andb_true_iff in H as [H1 H2];
    (split; [assumption | apply meets_q_sound; assumption]).
Qed.

(* closeness respects equality of the targets *)
Lemma close_lin_eq y v v' tol tol' : v == v' -> tol == tol' -> close_lin y v tol -> close_lin y v' tol'.
Proof. unfold close_lin. intros E1 E2 H. rewrite <- E1, <- E2. assumption. Qed.

Lemma close_sqrt_eq s V V' tol tol' : V == V' -> tol == tol' -> close_sqrt s V tol -> close_sqrt s V' tol'.
Proof.
  unfold close_sqrt. intros E1 E2 [H1 [H2 [H3 H4]]].
  repeat split.
  - assumption.
  - rewrite <- E2. assumption.
  - destruct H3 as [H3|H3]; [left|right].
    + rewrite <- E2. assumption.
    + rewrite <- E1, <- E2. assumption.
  - rewrite <- E1, <- E2. assumption.
Qed.

(* ------------------------------------------------------------------ sorting *)
Fixpoint ssorted (l : list Q) : Prop :=
  match l with
  | [] => True
  | a :: t => (forall b, In b t -> a <= b) /\ ssorted t
  end.

Lemma insert_perm a l : Permutation (insert_q a l) (a :: l).
Proof.
  induction l as [|b t IH]; simpl.
  - apply Permutation_refl.
  - destruct (Qle_bool a b).
    + apply Permutation_refl.
    + eapply Permutation_trans; [apply perm_skip; exact IH | apply perm_swap].
Qed.

Lemma isort_perm l : Permutation (isort_q l) l.
Proof.
  induction l as [|a t IH]; simpl.
  - apply Permutation_refl.
  - eapply Permutation_trans; [apply insert_perm | apply perm_skip; exact IH].
Qed.

Lemma insert_sorted a l : ssorted l -> ssorted (insert_q a l).
Proof.
  induction l as [|b t IH]; simpl; intro H.
  - split; [intros c []| exact I].
  - destruct H as [Hb Ht]. destruct (Qle_bool a b) eqn:E.
    + apply Qle_bool_iff in E. simpl. split.
      * intros c [Hc|Hc]; [subst c; assumption|]. eapply Qle_trans; [exact E | apply Hb; assumption].
      * split; assumption.
    + assert (Hba : b <= a).
      { apply Qlt_le_weak. apply Qnot_le_lt. intro H. apply Qle_bool_iff in H. congruence. }
      simpl. split.
      * intros c Hc. apply (Permutation_in _ (insert_perm a t)) in Hc. destruct Hc as [Hc|Hc].
        -- subst c. assumption.
        -- apply Hb. assumption.
      * apply IH. assumption.
Qed.

Lemma isort_sorted l : ssorted (isort_q l).
Proof.
  induction l as [|a t IH]; simpl; [exact I | apply insert_sorted; assumption].
Qed.

Definition dn (D : positive) (q : Q) : Prop := Qden q = D.

Lemma Qeq_same_den D a b : dn D a -> dn D b -> a == b -> a = b.
Proof.
  destruct a as [n d], b as [m e]. unfold dn, Qeq. simpl. intros -> -> H.
  f_equal. apply Z.mul_reg_r in H; [assumption | discriminate].
Qed.

Lemma sorted_unique D : forall l1 l2,
  ssorted l1 -> ssorted l2 -> Permutation l1 l2 -> Forall (dn D) l1 -> l1 = l2.
Proof.
  induction l1 as [|a t1 IH]; intros l2 S1 S2 P F.
  - apply Permutation_nil in P. subst. reflexivity.
  - destruct l2 as [|b t2].
    + apply Permutation_sym, Permutation_nil in P. discriminate.
    + destruct S1 as [Ha S1]. destruct S2 as [Hb S2].
      assert (F2 : Forall (dn D) (b :: t2)).
      { apply Forall_forall. intros c Hc. apply (Permutation_in _ (Permutation_sym P)) in Hc.
        rewrite Forall_forall in F. apply F. assumption. }
      assert (Eab : a = b).
      { apply (Qeq_same_den D).
        - inversion F; assumption.
        - inversion F2; assumption.
        - apply Qle_antisym.
          + assert (Hin : In b (a :: t1)) by (apply (Permutation_in _ (Permutation_sym P)); left; reflexivity).
            destruct Hin as [Hin|Hin]; [subst; apply Qle_refl | apply Ha; assumption].
          + assert (Hin : In a (b :: t2)) by (apply (Permutation_in _ P); left; reflexivity).
            destruct Hin as [Hin|Hin]; [subst; apply Qle_refl | apply Hb; assumption]. }
      subst b. f_equal. apply IH; try assumption.
      * apply Permutation_cons_inv in P. assumption.
      * inversion F; assumption.
Qed.

Lemma isort_perm_eq D l l' : Forall (dn D) l -> Permutation l l' -> isort_q l = isort_q l'.
Proof.
  intros F P. apply (sorted_unique D).
  - apply isort_sorted.
  - apply isort_sorted.
  - eapply Permutation_trans; [apply isort_perm|].
    eapply Permutation_trans; [exact P | apply Permutation_sym, isort_perm].
  - apply Forall_forall. intros c Hc. apply (Permutation_in _ (isort_perm l)) in Hc.
    rewrite Forall_forall in F. apply F. assumption.
Qed.

Lemma median_perm_eq D l l' : Forall (dn D) l -> Permutation l l' -> median_q l = median_q l'.
Proof.
  intros F P. unfold median_q. rewrite (isort_perm_eq D l l' F P), (Permutation_length P). reflexivity.
Qed.

(* ------------------------------------------------------------------ columns share a denominator *)
Lemma f2q_at_den E f : Qden (f2q_at E f) = den_of E.
Proof. unfold f2q_at. destruct (Prim2SF f); reflexivity. Qed.

Lemma qcol_den v : Forall (dn (den_of (emin v))) (qcol v).
Proof.
  unfold qcol. apply Forall_forall. intros q Hq. apply in_map_iff in Hq. destruct Hq as [f [Hf _]].
  subst q. apply f2q_at_den.
Qed.

Lemma vals_den D qc ks :
  Forall (dn D) qc -> Forall (fun k => (Z.to_nat k < length qc)%nat) ks -> Forall (dn D) (vals qc ks).
Proof.
  intros F R. unfold vals. apply Forall_forall. intros q Hq. apply in_map_iff in Hq.
  destruct Hq as [k [Hk Hin]]. subst q. rewrite Forall_forall in F, R. apply F. apply nth_In. apply R. assumption.
Qed.

(* ------------------------------------------------------------------ the median is well defined *)
(* the median is the middle of ANY sorted arrangement of the values *)
Lemma median_of_sorted D v s : Forall (dn D) v -> ssorted s -> Permutation s v ->
  median_q v = if Nat.even (length v) then (qnth s (Nat.div2 (length v) - 1) + qnth s (Nat.div2 (length v))) / 2
               else qnth s (Nat.div2 (length v)).
Proof.
  intros F S P. unfold median_q.
  assert (E : isort_q v = s).
  { apply (sorted_unique D).
    - apply isort_sorted.
    - exact S.
    - eapply Permutation_trans; [apply isort_perm | apply Permutation_sym; exact P].
    - apply Forall_forall. intros c Hc. apply (Permutation_in _ (isort_perm v)) in Hc.
      rewrite Forall_forall in F. apply F. assumption. }
  rewrite E. reflexivity.
Qed.

(* ------------------------------------------------------------------ one value, two denominators *)
Lemma den_of_Z E : (E <= 0)%Z -> Z.pos (den_of E) = (2 ^ (- E))%Z.
Proof.
  intro H. unfold den_of. destruct (E <? 0)%Z eqn:El.
  - apply Z.ltb_lt in El. rewrite Pos2Z.inj_pow. rewrite Z2Pos.id by lia. reflexivity.
  - apply Z.ltb_ge in El. replace E with 0%Z by lia. reflexivity.
Qed.

(* a column converts every float to the value f2q gives it *)
Lemma f2q_at_value E f : (E <= 0)%Z -> (E <= fexp f)%Z -> f2q_at E f == f2q f.
Proof.
  intros H0 He. unfold f2q, f2q_at, fexp in *.
  destruct (Prim2SF f) as [s|s| |s m e]; try (unfold Qeq; simpl; reflexivity).
  set (E' := Z.min 0 e). assert (H0' : (E' <= 0)%Z) by (unfold E'; lia). assert (He' : (E' <= e)%Z) by (unfold E'; lia).
  unfold Qeq. cbn [Qnum Qden]. rewrite !den_of_Z by assumption.
  set (num := if s then Z.neg m else Z.pos m).
  rewrite <- !Z.mul_assoc. f_equal. rewrite <- !Z.pow_add_r by lia. f_equal. lia.
Qed.

Lemma emin_le v : (emin v <= 0)%Z /\ forall f, In f v -> (emin v <= fexp f)%Z.
Proof.
  unfold emin. induction v as [|a t [IH0 IH]]; cbn [fold_right].
  - split; [lia | intros f []].
  - split; [lia|]. intros f [Hf|Hf]; [subst; lia | specialize (IH f Hf); lia].
Qed.

Lemma qcol_value v k : (k < length v)%nat -> nth k (qcol v) 0 == f2q (nth k v nan).
Proof.
  intro H. unfold qcol. rewrite (nth_indep _ 0 (f2q_at (emin v) nan)) by (rewrite map_length; exact H).
  rewrite map_nth. destruct (emin_le v) as [H0 He]. apply f2q_at_value; [exact H0 | apply He, nth_In, H].
Qed.

(* ------------------------------------------------------------------ the comparison is decided exactly *)
Lemma close_sqrt_b_complete s V tol : close_sqrt s V tol -> close_sqrt_b s V tol = true.
Proof.
  unfold close_sqrt, close_sqrt_b. intros [H1 [H2 [H3 H4]]].
  apply Qle_bool_iff in H1. apply Qle_bool_iff in H2. apply Qle_bool_iff in H4.
  rewrite H1, H2, H4. cbn [andb]. rewrite andb_true_r.
  apply orb_true_iff. destruct H3 as [H3|H3]; apply Qle_bool_iff in H3; [left|right]; exact H3.
Qed.

Lemma meets_q_complete y t : Meets_q y t -> meets_q y t = true.
Proof.
  destruct t as [|q|q A|V A]; simpl; intro H.
  - reflexivity.
  - apply Qeq_bool_iff. exact H.
  - unfold close_lin_b. apply Qle_bool_iff. exact H.
  - apply close_sqrt_b_complete. exact H.
Qed.

Theorem meets_iff f t : meets f t = true <-> Meets f t.
Proof.
  split; [apply meets_sound|].
  destruct t as [|q|q A|V A]; intro H; [reflexivity| | |];
    destruct H as [H1 H2]; unfold meets; rewrite H1; cbn [andb]; apply meets_q_complete; exact H2.
Qed.

(* C14 — pipeline theorems: members of a bin (from C05), model => property for binsize/nbin
   binning, soundness of the checkers, facts about chunks. *)
From Coq Require Import PrimFloat FloatOps SpecFloat QArith Lia Sorting.Permutation Sorting.Sorted.
From EsVerif.Common Require Import Base.
From EsVerif.C05 Require Import Model Spec Properties.
From EsVerif.C14 Require Import Model Spec NumProofs StatProofs.
Open Scope Z_scope.

(* ------------------------------------------------------------------ slices *)
Lemma bin_slice_eq rev i : bin_slice rev i = slice rev i.
Proof.
  unfold bin_slice. destruct (zget rev i =? zget rev (i + 1)) eqn:E; [|reflexivity].
  apply Z.eqb_eq in E. unfold slice. rewrite E, Z.sub_diag. reflexivity.
Qed.

Lemma indices_range x k : In k (indices x) -> (Z.to_nat k < length x)%nat.
Proof. unfold indices. intro H. apply zseq_In in H. lia. Qed.

Lemma members_inrange c lo hi dmin bsize nbin :
  mem_inrange c (members (c_x c) lo hi dmin bsize) nbin.
Proof.
  intros i _. unfold inrange. apply Forall_forall. intros k Hk.
  unfold members in Hk. apply filter_In in Hk. destruct Hk as [Hk _]. apply indices_range. assumption.
Qed.

(* the reverse-index slice of bin i of C05's model holds exactly the members of bin i *)
Theorem members_of_bin x lo hi m o :
  histogram EngC x lo hi m = Ok o -> contracts x lo hi o ->
  let p := o_params o in
  Z.of_nat (length (o_hist o)) = p_nbin p
  /\ forall i, 0 <= i < p_nbin p ->
       Permutation (bin_slice (o_rev o) i) (members x lo hi (p_dmin p) (p_bsize p) i)
       /\ Z.of_nat (length (bin_slice (o_rev o) i)) = zget (o_hist o) i.
Proof.
  intros H C p. destruct (C05_model_meets_spec EngC x lo hi m o H C) as [HL [HB _]].
  split; [exact HL|]. intros i Hi. rewrite bin_slice_eq.
  destruct (HB i Hi) as [_ [_ [HP [_ HC]]]]. split; assumption.
Qed.

(* ------------------------------------------------------------------ binsize / nbin: model => property *)
Theorem binned_stats_of_members c rv lo hi m b o rows :
  binner true c rv lo hi m = Ok b -> dorev c rv = true -> cols_ok c = true ->
  histogram EngC (c_x c) lo hi m = Ok o -> contracts (c_x c) lo hi o ->
  rows_meet rows (b_rows b) = true ->
  let p := o_params o in
  stats_ok (members (c_x c) lo hi (p_dmin p) (p_bsize p)) (p_nbin p) c rows.
Proof.
  intros HB HD OK HH HC HR p.
  unfold binner in HB. rewrite (cols_ok_same_len c OK) in HB. cbn [negb] in HB.
  rewrite HH, HD in HB. injection HB as HB. subst b. cbn [b_rows] in HR.
  destruct (members_of_bin (c_x c) lo hi m o HH HC) as [HL HP]. fold p in HL, HP.
  rewrite HL in HR.
  apply (stats_of_members _ _ _ (o_rev o)).
  - assumption.
  - apply members_inrange.
  - lia.
  - intros i Hi. apply HP. assumption.
  - assumption.
Qed.

(* ------------------------------------------------------------------ checker soundness: edges, binned *)
Lemma edges_check_sound dmin bsize nbin es :
  edges_check dmin bsize nbin es = true -> edges_ok dmin bsize nbin es.
Proof.
  unfold edges_check, edges_ok. intro H. apply andb_true_iff in H as [HL H].
  apply Z.eqb_eq in HL. split; [assumption|]. intros i Hi.
  rewrite forallb_forall in H. assert (Hin : In i (zseq 0 (Z.to_nat nbin))) by (apply zseq_In; lia).
  specialize (H i Hin). unfold edge_check, edge_ok in *.
  destruct (nth (Z.to_nat i) es (nan, nan, nan)) as [[lo' hi'] ce]. destruct (edge_tgts dmin bsize i) as [[tl th] tc].
  apply andb_true_iff in H as [H H3]. apply andb_true_iff in H as [H1 H2].
  repeat split; apply meets_sound; assumption.
Qed.

Theorem binned_check_sound c lo hi dmin bsize nbin es rows :
  cols_ok c = true ->
  binned_check c lo hi dmin bsize nbin es rows = true -> binned_ok c lo hi dmin bsize nbin es rows.
Proof.
  intros OK H. unfold binned_check in H. apply andb_true_iff in H as [H1 H2]. split.
  - apply edges_check_sound. assumption.
  - apply stats_check_sound; [assumption | apply members_inrange | assumption].
Qed.

(* ------------------------------------------------------------------ chunks *)
Lemma In_firstn {A} (a : A) n l : In a (firstn n l) -> In a l.
Proof. intro H. rewrite <- (firstn_skipn n l). apply in_or_app. left. assumption. Qed.

Lemma In_skipn {A} (a : A) n l : In a (skipn n l) -> In a l.
Proof. intro H. rewrite <- (firstn_skipn n l). apply in_or_app. right. assumption. Qed.

Lemma chunks_incl fuel k merge : forall l b a, In b (chunks fuel k merge l) -> In a b -> In a l.
Proof.
  induction fuel as [|f IH]; intros l b a Hb Ha; simpl in Hb; [contradiction|].
  destruct l as [|h t]; [contradiction|].
  destruct (skipn k (h :: t)) as [|r rest] eqn:Es.
  - destruct Hb as [Hb|[]]. subst b. assumption.
  - destruct (merge && (length (r :: rest) <? k)%nat).
    + destruct Hb as [Hb|[]]. subst b. assumption.
    + destruct Hb as [Hb|Hb].
      * subst b. eapply In_firstn. eassumption.
      * apply (In_skipn a k). rewrite Es. eapply IH; eassumption.
Qed.

Lemma chunks_nonempty fuel k merge : forall l b, (1 <= k)%nat -> In b (chunks fuel k merge l) -> b <> [].
Proof.
  induction fuel as [|f IH]; intros l b Hk Hb; simpl in Hb; [contradiction|].
  destruct l as [|h t]; [contradiction|].
  destruct (skipn k (h :: t)) as [|r rest] eqn:Es.
  - destruct Hb as [Hb|[]]. subst b. discriminate.
  - destruct (merge && (length (r :: rest) <? k)%nat).
    + destruct Hb as [Hb|[]]. subst b. discriminate.
    + destruct Hb as [Hb|Hb].
      * subst b. destruct k as [|k]; [lia|]. simpl. discriminate.
      * eapply IH; eassumption.
Qed.

Lemma chunks_concat fuel k merge : forall l, (1 <= k)%nat -> (length l <= fuel)%nat ->
  concat (chunks fuel k merge l) = l.
Proof.
  induction fuel as [|f IH]; intros l Hk Hl.
  - destruct l; [reflexivity | simpl in Hl; lia].
  - simpl. destruct l as [|h t]; [reflexivity|].
    destruct (skipn k (h :: t)) as [|r rest] eqn:Es.
    + cbn [concat]. apply app_nil_r.
    + destruct (merge && (length (r :: rest) <? k)%nat).
      * cbn [concat]. apply app_nil_r.
      * cbn [concat]. rewrite IH.
        -- rewrite <- Es. apply firstn_skipn.
        -- assumption.
        -- rewrite <- Es, skipn_length. cbn [length] in Hl |- *. lia.
Qed.

(* every bin but the last holds exactly k data; the last holds at most k (at most 2k-1 when a
   short remainder was merged into it) *)
Lemma chunks_sizes fuel k merge : forall l, (1 <= k)%nat -> (length l <= fuel)%nat ->
  forall i, (i < length (chunks fuel k merge l))%nat ->
    let b := nth i (chunks fuel k merge l) [] in
    if (S i <? length (chunks fuel k merge l))%nat then length b = k
    else (1 <= length b)%nat /\ (if merge then (length b < 2 * k)%nat else (length b <= k)%nat).
Proof.
  induction fuel as [|f IH]; intros l Hk Hl i Hi; [cbn [chunks length] in Hi; lia|].
  cbn [chunks] in Hi |- *. destruct l as [|h t]; [cbn [length] in Hi; lia|].
  assert (Hsk : length (skipn k (h :: t)) = (length (h :: t) - k)%nat) by apply skipn_length.
  destruct (skipn k (h :: t)) as [|r rest] eqn:Es.
  - cbn [length] in Hi. assert (i = 0)%nat by lia. subst i. cbn [nth].
    replace (1 <? length [h :: t])%nat with false by reflexivity.
    cbn [length] in Hsk |- *. destruct merge; lia.
  - destruct (merge && (length (r :: rest) <? k)%nat) eqn:Em.
    + cbn [length] in Hi. assert (i = 0)%nat by lia. subst i. cbn [nth].
      replace (1 <? length [h :: t])%nat with false by reflexivity.
      apply andb_true_iff in Em as [Em1 Em2]. subst merge. apply Nat.ltb_lt in Em2.
      rewrite Hsk in Em2. cbn [length] in Hsk, Em2 |- *. lia.
    + assert (Hrest : (length (r :: rest) <= f)%nat) by (rewrite Hsk; cbn [length] in Hl |- *; lia).
      assert (Hne : (1 <= length (chunks f k merge (r :: rest)))%nat).
      { destruct f as [|f']; [cbn [length] in Hrest; lia|]. cbn [chunks].
        destruct (skipn k (r :: rest)); [cbn [length]; lia|].
        match goal with |- context[if ?cnd then _ else _] => destruct cnd end; cbn [length]; lia. }
      cbn [length] in Hi.
      destruct i as [|i].
      * cbn [nth].
        replace (1 <? length (firstn k (h :: t) :: chunks f k merge (r :: rest)))%nat with true
          by (symmetry; apply Nat.ltb_lt; cbn [length]; lia).
        rewrite firstn_length. rewrite Hsk in Hrest. cbn [length] in Hsk, Hrest |- *. lia.
      * cbn [nth]. specialize (IH (r :: rest) Hk Hrest i ltac:(lia)).
        replace (S (S i) <? length (firstn k (h :: t) :: chunks f k merge (r :: rest)))%nat
          with (S i <? length (chunks f k merge (r :: rest)))%nat.
        -- exact IH.
        -- cbn [length].
           destruct (S i <? length (chunks f k merge (r :: rest)))%nat eqn:E1;
             [apply Nat.ltb_lt in E1; symmetry; apply Nat.ltb_lt; lia
             | apply Nat.ltb_ge in E1; symmetry; apply Nat.ltb_ge; lia].
Qed.

(* ------------------------------------------------------------------ checker soundness: nperbin *)
Lemma nodup_b_sound l : nodup_b l = true -> NoDup l.
Proof.
  induction l as [|a t IH]; simpl; intro H; constructor.
  - apply andb_true_iff in H as [H _]. apply negb_true_iff in H. intro Hin.
    assert (E : existsb (Z.eqb a) t = true) by (apply existsb_exists; exists a; split; [assumption | apply Z.eqb_refl]).
    congruence.
  - apply IH. apply andb_true_iff in H as [_ H]. assumption.
Qed.

Lemma perm_b_sound l m : perm_b l m = true -> Permutation l m.
Proof.
  unfold perm_b. intro H. apply andb_true_iff in H as [H H3]. apply andb_true_iff in H as [H1 H2].
  apply Nat.leb_le in H1. apply nodup_b_sound in H2.
  apply NoDup_Permutation_bis; [assumption | assumption |].
  intros k Hk. rewrite forallb_forall in H3. specialize (H3 k Hk). apply existsb_exists in H3.
  destruct H3 as [j [Hj E]]. apply Z.eqb_eq in E. subst j. assumption.
Qed.

Lemma ordered_b_sound x l : ordered_b x l = true -> ordered x l.
Proof.
  unfold ordered_b, with_values. induction l as [|a t IH]; simpl; intro H; [exact I|].
  apply andb_true_iff in H as [H1 H2]. split.
  - intros b Hb. rewrite forallb_forall in H1. unfold before. apply H1.
    apply in_map_iff. exists b. split; [reflexivity | assumption].
  - apply IH. assumption.
Qed.

Lemma sf_eqb_sound a b : sf_eqb a b = true -> sf_eq a b.
Proof.
  unfold sf_eqb, sf_eq. destruct (Prim2SF a) as [s|s| |s m e], (Prim2SF b) as [t|t| |t n f]; intro H; try discriminate.
  - apply Bool.eqb_prop in H. subst. reflexivity.
  - apply Bool.eqb_prop in H. subst. reflexivity.
  - reflexivity.
  - apply andb_true_iff in H as [H H3]. apply andb_true_iff in H as [H1 H2].
    apply Bool.eqb_prop in H1. apply Pos.eqb_eq in H2. apply Z.eqb_eq in H3. subst. reflexivity.
Qed.

Lemma chunk_check_sound c hist rev low high i b :
  chunk_check c hist rev low high i b = true -> chunk_ok c hist rev low high i b.
Proof.
  unfold chunk_check, chunk_ok. intro H.
  apply andb_true_iff in H as [H H6]. apply andb_true_iff in H as [H H5]. apply andb_true_iff in H as [H H4].
  apply andb_true_iff in H as [H H3]. apply andb_true_iff in H as [H1 H2].
  apply Z.leb_le in H1. apply Z.leb_le in H2. apply zlist_eqb_spec in H3. apply Z.eqb_eq in H4.
  apply sf_eqb_sound in H5. apply sf_eqb_sound in H6. repeat split; assumption.
Qed.

Theorem num_check_sound c lo hi k merge hist rev low high rows :
  cols_ok c = true ->
  num_check c lo hi k merge hist rev low high rows = true ->
  num_ok c lo hi k merge hist rev low high rows.
Proof.
  intros OK H. unfold num_check in H.
  set (s := skipn (S (length hist)) rev) in *.
  set (ch := chunks (length s) (Z.to_nat k) merge s) in *.
  apply andb_true_iff in H as [H H7]. apply andb_true_iff in H as [H H6]. apply andb_true_iff in H as [H H5].
  apply andb_true_iff in H as [H H4]. apply andb_true_iff in H as [H H3]. apply andb_true_iff in H as [H1 H2].
  apply perm_b_sound in H1. apply ordered_b_sound in H2.
  apply Nat.eqb_eq in H3. apply Nat.eqb_eq in H4. apply Nat.eqb_eq in H5.
  exists s. split; [assumption|]. split; [assumption|]. fold ch.
  split; [exact H3|]. split; [exact H4|]. split; [exact H5|]. split.
  - intros i Hi. apply chunk_check_sound. rewrite forallb_forall in H6. apply H6. apply in_seq. lia.
  - apply stats_check_sound; [assumption | | exact H7].
    intros i Hi. unfold inrange. apply Forall_forall. intros j Hj.
    destruct (Nat.lt_ge_cases (Z.to_nat i) (length ch)) as [Hlt|Hge].
    + apply indices_range.
      assert (Hs : In j s) by (eapply chunks_incl; [apply nth_In; exact Hlt | exact Hj]).
      apply (Permutation_in _ H1) in Hs. unfold selected in Hs. apply filter_In in Hs. apply Hs.
    + rewrite nth_overflow in Hj by assumption. contradiction.
Qed.

(* ------------------------------------------------------------------ the tables are the model *)
(* the model's rows are the tables of Model.v (which the translator re-reads from the source on
   every run), interpreted *)
Theorem tables_are_the_model :
  (forall a, ublock [a] = map (interp_single a 0%Q) single_u_table)
  /\ (forall a wa, wblock true [a] [wa] = map (interp_single a wa) single_w_table)
  /\ (forall a wa, whist_tgt true [a] [wa] = interp_single a wa single_whist)
  /\ (forall a b t, ublock (a :: b :: t) = map (interp_many (a :: b :: t) []) many_u_table)
  /\ (forall v w, wblock_many v w = map (interp_many v w) many_w_table)
  /\ (forall a b t w, whist_tgt true (a :: b :: t) w = interp_many (a :: b :: t) w many_whist)
  /\ ublock_empty = map (fun _ => TExact sentinel) single_u_table
  /\ center_factor = 0x1p-1%float.
Proof. repeat split; reflexivity. Qed.

(* ------------------------------------------------------------------ the skeleton is the model *)
Lemma first_given_resolve h bs nb k : resolve_sk model_skel h bs nb k = resolve h bs nb k.
Proof. destruct h, bs as [b|], nb as [n|], k as [k'|]; reflexivity. Qed.

Theorem skeleton_is_the_model :
  (forall h bs nb k, resolve_sk model_skel h bs nb k = resolve h bs nb k)
  /\ (forall c rv, dorev_sk model_skel c rv = dorev c rv)
  /\ (forall dmin bs nhist, edges_sk model_skel dmin bs nhist = edges dmin bs nhist)
  /\ (forall p o cl, obj_call p (sk_clear_first model_skel) o cl = obj_call p true o cl)
  /\ (forall hist rev low high, Z.of_nat (length hist) < sk_merge_min model_skel ->
        merge_last hist rev low high = (hist, rev, low, high))
  /\ (forall v, Z.of_nat (length v) = sk_single_size model_skel ->
        exists a, v = [a] /\ ublock v = map (interp_single a 0%Q) single_u_table)
  /\ (forall p h c rv lo hi bs nb k merge t, resolve h bs nb k = CNone -> same_len c = true ->
        limits (c_x c) (argsort (c_x c)) lo hi = Ok t ->
        binner_api p h c rv lo hi bs nb k merge = Err (sk_none_error model_skel))
  /\ (forall p c lo hi k merge, same_len c = false -> binner_num p c lo hi k merge = Err (fst (sk_len_errors model_skel)))
  /\ (forall p c d, d_hist d = None -> calc_stats_dict p c d = Err (sk_no_hist_error model_skel)).
Proof.
  split; [exact first_given_resolve|].
  split; [intros c rv; unfold dorev_sk, dorev; cbn [model_skel sk_y_forces_rev sk_w_forces_rev andb]; reflexivity|].
  split; [reflexivity|]. split; [reflexivity|].
  split.
  { intros hist rev low high H. unfold merge_last. cbn [model_skel sk_merge_min] in H.
    replace (length hist <? 2)%nat with true by (symmetry; apply Nat.ltb_lt; lia). reflexivity. }
  split.
  { intros v H. cbn [model_skel sk_single_size] in H. destruct v as [|a [|b t]]; cbn [length] in H; try lia.
    exists a. split; reflexivity. }
  split.
  { intros p h c rv lo hi bs nb k merge t HR HS HL. unfold binner_api. rewrite HR, HS. cbn [negb]. rewrite HL. reflexivity. }
  split.
  { intros p c lo hi k merge HS. unfold binner_num. rewrite HS. reflexivity. }
  intros p c d H. unfold calc_stats_dict. rewrite H. reflexivity.
Qed.

(* ------------------------------------------------------------------ what the edge checker decides; shape of a result *)
Theorem edges_check_exact dmin bsize nbin es :
  edges_check dmin bsize nbin es = true <-> edges_ok dmin bsize nbin es.
Proof.
  split; [apply edges_check_sound|].
  unfold edges_ok, edges_check. intros [HL H]. apply andb_true_iff. split; [apply Z.eqb_eq; exact HL|].
  apply forallb_forall. intros i Hi. apply zseq_In in Hi. specialize (H i ltac:(lia)).
  unfold edge_ok, edge_check in *.
  destruct (nth (Z.to_nat i) es (nan, nan, nan)) as [[lo' hi'] ce]. destruct (edge_tgts dmin bsize i) as [[tl th] tc].
  destruct H as [H1 [H2 H3]]. apply meets_iff in H1. apply meets_iff in H2. apply meets_iff in H3.
  rewrite H1, H2, H3. reflexivity.
Qed.

(* option path rev=: statistics and reverse indices exist exactly when rev is asked for or a second
   variable or weights were given; otherwise only hist and the edges are reported; one row and one
   edge triple per bin *)
Theorem binner_shape p c rv lo hi m b :
  binner p c rv lo hi m = Ok b ->
  length (b_edges b) = length (b_hist b)
  /\ (if dorev c rv then length (b_rows b) = length (b_hist b) else b_rows b = [] /\ b_rev b = []).
Proof.
  unfold binner. destruct (negb (same_len c)); [discriminate|].
  destruct (histogram EngC (c_x c) lo hi m) as [o|e]; [|discriminate].
  assert (G : forall s n, length (zseq s n) = n) by (intros s n; revert s; induction n; intro s; cbn; auto).
  destruct (dorev c rv); intro H; injection H as <-; cbn [b_edges b_hist b_rows b_rev];
    unfold edges, calc_rows; rewrite ?map_length, ?G, ?Nat2Z.id; auto.
Qed.

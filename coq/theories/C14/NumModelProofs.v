(* C14 — equal-occupancy binning, the whole model: hist_by_num (pass on positions, mapping of the
   slices to the original array with low/high, _merge_last) produces exactly the chunks of the
   selected sorted data. *)
From Coq Require Import PrimFloat ZArith List Bool Lia ZifyBool ZifyNat Sorting.Sorted Sorting.Permutation.
From EsVerif.Common Require Import Base.
From EsVerif.C05 Require Import Model Spec PassProofs Properties.
From EsVerif.C14 Require Import Model Spec Proofs NumBinProofs.
Ltac Zify.zify_post_hook ::= Z.to_euclidean_division_equations.
Open Scope Z_scope.

(* ------------------------------------------------------------------ lists, pointwise *)
Lemma zseq_len s n : length (zseq s n) = n.
Proof. revert s. induction n as [|n IH]; intro s; cbn [zseq length]; [reflexivity | rewrite IH; reflexivity]. Qed.

Lemma zget_zseq n : forall s j, 0 <= j < Z.of_nat n -> zget (zseq s n) j = s + j.
Proof.
  unfold zget. induction n as [|n IH]; intros s j H; [lia|].
  cbn [zseq]. destruct (Z.to_nat j) as [|m] eqn:E; cbn [nth].
  - lia.
  - specialize (IH (s + 1) (j - 1) ltac:(lia)). replace (Z.to_nat (j - 1)) with m in IH by lia. rewrite IH. lia.
Qed.

Lemma zget_cons a l j : 0 < j -> zget (a :: l) j = zget l (j - 1).
Proof. intro H. unfold zget. replace (Z.to_nat j) with (S (Z.to_nat (j - 1))) by lia. reflexivity. Qed.

Lemma zget_map (f : Z -> Z) l j : 0 <= j < Z.of_nat (length l) -> zget (map f l) j = f (zget l j).
Proof.
  intro H. unfold zget. rewrite (nth_indep _ 0 (f 0)) by (rewrite map_length; lia). apply map_nth.
Qed.

Lemma nth_firstn' {A} (l : list A) c t d : (t < c)%nat -> nth t (firstn c l) d = nth t l d.
Proof.
  revert l t. induction c as [|c IH]; intros l t H; [lia|].
  destruct l as [|a l]; [destruct t; reflexivity|]. destruct t as [|t]; cbn [firstn nth]; [reflexivity|].
  apply IH. lia.
Qed.

Lemma nth_zset {A} (l : list A) i v j d : 0 <= j ->
  nth (Z.to_nat j) (zset l i v) d = if (i =? j) && (j <? Z.of_nat (length l)) then v else nth (Z.to_nat j) l d.
Proof.
  intro Hj. unfold zset. destruct (i <? 0) eqn:Ei.
  - destruct ((i =? j) && (j <? Z.of_nat (length l))) eqn:E; [lia|reflexivity].
  - destruct (i =? j) eqn:Eij; cbn [andb].
    + assert (i = j) by lia. subst i. destruct (j <? Z.of_nat (length l)) eqn:El.
      * apply nth_set_nth_eq. lia.
      * rewrite !nth_overflow; [reflexivity| lia | rewrite set_nth_length; lia].
    + apply nth_set_nth_neq. lia.
Qed.

Lemma hd_nth {A} (l : list A) d : hd d l = nth 0 l d.
Proof. destruct l; reflexivity. Qed.

Lemma last_nth {A} (l : list A) d : last l d = nth (length l - 1) l d.
Proof.
  induction l as [|a l IH]; [reflexivity|]. destruct l as [|b l]; [reflexivity|].
  change (last (a :: b :: l) d) with (last (b :: l) d). rewrite IH. cbn [length]. 
  replace (S (S (length l)) - 1)%nat with (S (S (length l) - 1)) by lia. reflexivity.
Qed.

(* slices, pointwise *)
Lemma slice_length rev i :
  0 <= zget rev i <= zget rev (i + 1) -> zget rev (i + 1) <= Z.of_nat (length rev) ->
  Z.of_nat (length (slice rev i)) = zget rev (i + 1) - zget rev i.
Proof. intros H1 H2. unfold slice. rewrite firstn_length, skipn_length. lia. Qed.

Lemma slice_zget rev i t :
  0 <= zget rev i -> 0 <= t < zget rev (i + 1) - zget rev i ->
  zget (slice rev i) t = zget rev (zget rev i + t).
Proof.
  intros H1 H2. change (zget (slice rev i) t) with (nth (Z.to_nat t) (slice rev i) 0).
  unfold slice. rewrite nth_firstn' by lia. rewrite nth_skipn.
  change (zget rev (zget rev i + t)) with (nth (Z.to_nat (zget rev i + t)) rev 0). f_equal. lia.
Qed.

(* ------------------------------------------------------------------ write *)
Lemma write_length vs : forall rev a, length (write rev a vs) = length rev.
Proof.
  induction vs as [|v t IH]; intros rev a; cbn [write]; [reflexivity|]. rewrite IH. apply zset_length.
Qed.

Lemma zget_write vs : forall rev a j, 0 <= j -> 0 <= a -> a + Z.of_nat (length vs) <= Z.of_nat (length rev) ->
  zget (write rev a vs) j =
  if (a <=? j) && (j <? a + Z.of_nat (length vs)) then zget vs (j - a) else zget rev j.
Proof.
  induction vs as [|v t IH]; intros rev a j Hj Ha Hl; cbn [write].
  - cbn [length] in *. destruct ((a <=? j) && (j <? a + Z.of_nat 0)) eqn:E; [lia|reflexivity].
  - cbn [length] in Hl |- *. rewrite IH by (try rewrite zset_length; lia).
    rewrite zget_zset by lia.
    destruct ((a + 1 <=? j) && (j <? a + 1 + Z.of_nat (length t))) eqn:E1.
    + replace ((a <=? j) && (j <? a + Z.of_nat (S (length t)))) with true by lia.
      rewrite zget_cons by lia. f_equal. lia.
    + destruct ((a =? j) && (j <? Z.of_nat (length rev))) eqn:E2.
      * replace ((a <=? j) && (j <? a + Z.of_nat (S (length t)))) with true by lia.
        replace (j - a) with 0 by lia. reflexivity.
      * replace ((a <=? j) && (j <? a + Z.of_nat (S (length t)))) with false by lia. reflexivity.
Qed.

(* ------------------------------------------------------------------ fold over zseq *)
Lemma fold_zseq_inv {St} (P : Z -> St -> Prop) (f : St -> Z -> St) n : forall s st,
  P s st -> (forall j st', s <= j < s + Z.of_nat n -> P j st' -> P (j + 1) (f st' j)) ->
  P (s + Z.of_nat n) (fold_left f (zseq s n) st).
Proof.
  induction n as [|n IH]; intros s st H0 Hs.
  - cbn [zseq fold_left]. replace (s + Z.of_nat 0) with s by lia. exact H0.
  - cbn [zseq fold_left]. replace (s + Z.of_nat (S n)) with (s + 1 + Z.of_nat n) by lia.
    apply IH.
    + apply Hs; [lia | exact H0].
    + intros j st' Hj. apply Hs. lia.
Qed.

(* ------------------------------------------------------------------ chunks in closed form *)
Lemma concat_piece {A} (ch : list (list A)) i : (i < length ch)%nat ->
  nth i ch [] = firstn (length (nth i ch [])) (skipn (length (concat (firstn i ch))) (concat ch)).
Proof.
  revert i. induction ch as [|b ch IH]; intros i Hi; [cbn [length] in Hi; lia|].
  destruct i as [|i].
  - cbn [nth firstn concat length skipn]. rewrite firstn_app, Nat.sub_diag, firstn_all. cbn [firstn]. symmetry. apply app_nil_r.
  - cbn [nth firstn concat]. rewrite app_length. rewrite skipn_app.
    rewrite skipn_all2 by lia. replace (length b + length (concat (firstn i ch)) - length b)%nat
      with (length (concat (firstn i ch))) by lia.
    cbn [app]. apply IH. cbn [length] in Hi. lia.
Qed.

Lemma firstn_S_nth {A} (l : list A) i d : (i < length l)%nat -> firstn (S i) l = firstn i l ++ [nth i l d].
Proof.
  revert i. induction l as [|a l IH]; intros i H; [cbn [length] in H; lia|].
  destruct i as [|i]; [reflexivity|]. cbn [firstn nth app]. f_equal. apply IH. cbn [length] in H. lia.
Qed.

Lemma chunks_prefix fuel k merge l : (1 <= k)%nat -> (length l <= fuel)%nat ->
  forall i, (i < length (chunks fuel k merge l))%nat ->
    length (concat (firstn i (chunks fuel k merge l))) = (i * k)%nat.
Proof.
  intros Hk Hl. induction i as [|i IH]; intro Hi; [reflexivity|].
  rewrite (firstn_S_nth _ i []) by lia. rewrite concat_app, app_length, IH by lia.
  cbn [concat length]. rewrite app_nil_r.
  pose proof (chunks_sizes fuel k merge l Hk Hl i ltac:(lia)) as Sz. cbv zeta in Sz.
  replace (S i <? length (chunks fuel k merge l))%nat with true in Sz by (symmetry; apply Nat.ltb_lt; lia).
  rewrite Sz. lia.
Qed.

Lemma concat_length_last {A} (ch : list (list A)) : ch <> [] ->
  length (concat ch) = (length (concat (firstn (length ch - 1) ch)) + length (nth (length ch - 1) ch []))%nat.
Proof.
  intro H. rewrite <- (firstn_skipn (length ch - 1) ch) at 1.
  rewrite concat_app, app_length. f_equal.
  assert (E : skipn (length ch - 1) ch = [nth (length ch - 1) ch []]).
  { clear H0 || idtac. induction ch as [|b ch IH]; [contradiction|].
    destruct ch as [|c ch]; [reflexivity|].
    replace (length (b :: c :: ch) - 1)%nat with (S (length (c :: ch) - 1)) by (cbn [length]; lia).
    cbn [skipn nth]. apply IH. discriminate. }
  rewrite E. cbn [concat length]. rewrite app_nil_r. reflexivity.
Qed.

(* number of bins *)
Lemma chunks_count fuel k merge : forall l, (1 <= k)%nat -> (length l <= fuel)%nat -> l <> [] ->
  length (chunks fuel k merge l) =
  if merge && negb (length l mod k =? 0)%nat && (k <? length l)%nat then (length l / k)%nat
  else ((length l - 1) / k + 1)%nat.
Proof.
  induction fuel as [|f IH]; intros l Hk Hl Hne.
  - destruct l; [contradiction | cbn [length] in Hl; lia].
  - cbn [chunks]. destruct l as [|h t]; [contradiction|].
    assert (Hsk : length (skipn k (h :: t)) = (length (h :: t) - k)%nat) by apply skipn_length.
    set (n := length (h :: t)) in *. assert (Hn : (1 <= n)%nat) by (unfold n; cbn [length]; lia).
    destruct (skipn k (h :: t)) as [|r rest] eqn:Es.
    + cbn [length] in Hsk |- *.
      replace (k <? n)%nat with false by (symmetry; apply Nat.ltb_ge; lia).
      rewrite andb_false_r. assert ((n - 1) / k = 0)%nat by (apply Nat.div_small; lia). lia.
    + set (m := length (r :: rest)) in *. assert (Hm : (1 <= m)%nat) by (unfold m; cbn [length]; lia).
      destruct (merge && (m <? k)%nat) eqn:Em.
      * apply andb_true_iff in Em as [Em1 Em2]. subst merge. apply Nat.ltb_lt in Em2. cbn [length andb].
        assert (Hmod : (n mod k = m)%nat).
        { replace n with (m + 1 * k)%nat by lia. rewrite Nat.mod_add by lia. apply Nat.mod_small. lia. }
        assert (Hdiv : (n / k = 1)%nat).
        { replace n with (m + 1 * k)%nat by lia. rewrite Nat.div_add by lia. rewrite Nat.div_small by lia. lia. }
        rewrite Hmod, Hdiv.
        replace (m =? 0)%nat with false by (symmetry; apply Nat.eqb_neq; lia).
        replace (k <? n)%nat with true by (symmetry; apply Nat.ltb_lt; lia). reflexivity.
      * cbn [length]. rewrite IH; [| assumption | fold m; unfold n in *; cbn [length] in Hl, Hsk |- *; lia | discriminate].
        fold m.
        assert (Hmod : (n mod k = m mod k)%nat).
        { replace n with (m + 1 * k)%nat by lia. apply Nat.mod_add. lia. }
        assert (Hdiv : (n / k = m / k + 1)%nat).
        { replace n with (m + 1 * k)%nat by lia. apply Nat.div_add. lia. }
        assert (Hdiv1 : ((n - 1) / k = (m - 1) / k + 1)%nat).
        { replace (n - 1)%nat with ((m - 1) + 1 * k)%nat by lia. apply Nat.div_add. lia. }
        rewrite Hmod, Hdiv, Hdiv1.
        replace (k <? n)%nat with true by (symmetry; apply Nat.ltb_lt; lia).
        destruct merge; cbn [andb] in Em |- *; [|lia].
        apply Nat.ltb_ge in Em.
        destruct (m mod k =? 0)%nat eqn:E0; cbn [negb andb].
        -- lia.
        -- destruct (k <? m)%nat eqn:E1; [lia|].
           apply Nat.ltb_ge in E1. assert (Hmk : m = k) by lia.
           apply Nat.eqb_neq in E0. rewrite Hmk, Nat.mod_same in E0 by lia. contradiction.
Qed.

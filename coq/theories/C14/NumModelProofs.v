(* C14 — equal-occupancy binning, the whole model: hist_by_num (pass on positions, mapping of the
   slices to the original array with low/high, _merge_last) produces exactly the chunks of the
   selected sorted data. *)
From Coq Require Import PrimFloat ZArith List Bool Lia ZifyBool ZifyNat Sorting.Sorted Sorting.Permutation.
From EsVerif.Common Require Import Base.
From EsVerif.C05 Require Import Model Spec PassProofs Properties.
From EsVerif.C14 Require Import Model Spec StatProofs Proofs NumBinProofs.
Ltac Zify.zify_post_hook ::= Z.to_euclidean_division_equations.
Open Scope Z_scope.

(* ------------------------------------------------------------------ lists, pointwise *)
Lemma zseq_len s n : length (zseq s n) = n.
Proof. revert s. induction n as [|n IH]; intro s; cbn [zseq length]; [reflexivity | rewrite IH; reflexivity]. Qed.

Lemma zget_zseq n : forall s j, 0 <= j < Z.of_nat n -> zget (zseq s n) j = s + j.
Proof.
  unfold zget. induction n as [|n IH]; intros s j H; [lia|].
  cbn [zseq]. destruct (Z.to_nat j) as [|m] eqn:E; cbn [nth].
  - lia.
  - specialize (IH (s + 1) (j - 1) ltac:(lia)). replace (Z.to_nat (j - 1)) with m in IH by lia. rewrite IH. lia.
Qed.

Lemma zget_cons a l j : 0 < j -> zget (a :: l) j = zget l (j - 1).
Proof. intro H. unfold zget. replace (Z.to_nat j) with (S (Z.to_nat (j - 1))) by lia. reflexivity. Qed.

Lemma zget_map (f : Z -> Z) l j : 0 <= j < Z.of_nat (length l) -> zget (map f l) j = f (zget l j).
Proof.
  intro H. unfold zget. rewrite (nth_indep _ 0 (f 0)) by (rewrite map_length; lia). apply map_nth.
Qed.

Lemma nth_firstn' {A} (l : list A) c t d : (t < c)%nat -> nth t (firstn c l) d = nth t l d.
Proof.
  revert l t. induction c as [|c IH]; intros l t H; [lia|].
  destruct l as [|a l]; [destruct t; reflexivity|]. destruct t as [|t]; cbn [firstn nth]; [reflexivity|].
  apply IH. lia.
Qed.

Lemma nth_zset {A} (l : list A) i v j d : 0 <= j ->
  nth (Z.to_nat j) (zset l i v) d = if (i =? j) && (j <? Z.of_nat (length l)) then v else nth (Z.to_nat j) l d.
Proof.
  intro Hj. unfold zset. destruct (i <? 0) eqn:Ei.
  - destruct ((i =? j) && (j <? Z.of_nat (length l))) eqn:E; [lia|reflexivity].
  - destruct (i =? j) eqn:Eij; cbn [andb].
    + assert (i = j) by lia. subst i. destruct (j <? Z.of_nat (length l)) eqn:El.
      * apply nth_set_nth_eq. lia.
      * rewrite !nth_overflow; [reflexivity| lia | rewrite set_nth_length; lia].
    + apply nth_set_nth_neq. lia.
Qed.

Lemma hd_nth {A} (l : list A) d : hd d l = nth 0 l d.
Proof. destruct l; reflexivity. Qed.

Lemma last_nth {A} (l : list A) d : last l d = nth (length l - 1) l d.
Proof.
  induction l as [|a l IH]; [reflexivity|]. destruct l as [|b l]; [reflexivity|].
  change (last (a :: b :: l) d) with (last (b :: l) d). rewrite IH. cbn [length]. 
  replace (S (S (length l)) - 1)%nat with (S (S (length l) - 1)) by lia. reflexivity.
Qed.

(* slices, pointwise *)
Lemma slice_length rev i :
  0 <= zget rev i <= zget rev (i + 1) -> zget rev (i + 1) <= Z.of_nat (length rev) ->
  Z.of_nat (length (slice rev i)) = zget rev (i + 1) - zget rev i.
Proof. intros H1 H2. unfold slice. rewrite firstn_length, skipn_length. lia. Qed.

Lemma slice_zget rev i t :
  0 <= zget rev i -> 0 <= t < zget rev (i + 1) - zget rev i ->
  zget (slice rev i) t = zget rev (zget rev i + t).
Proof.
  intros H1 H2. change (zget (slice rev i) t) with (nth (Z.to_nat t) (slice rev i) 0).
  unfold slice. rewrite nth_firstn' by lia. rewrite nth_skipn.
  change (zget rev (zget rev i + t)) with (nth (Z.to_nat (zget rev i + t)) rev 0). f_equal. lia.
Qed.

(* ------------------------------------------------------------------ write *)
Lemma write_length vs : forall rev a, length (write rev a vs) = length rev.
Proof.
  induction vs as [|v t IH]; intros rev a; cbn [write]; [reflexivity|]. rewrite IH. apply zset_length.
Qed.

Lemma zget_write vs : forall rev a j, 0 <= j -> 0 <= a -> a + Z.of_nat (length vs) <= Z.of_nat (length rev) ->
  zget (write rev a vs) j =
  if (a <=? j) && (j <? a + Z.of_nat (length vs)) then zget vs (j - a) else zget rev j.
Proof.
  induction vs as [|v t IH]; intros rev a j Hj Ha Hl; cbn [write].
  - cbn [length] in *. destruct ((a <=? j) && (j <? a + Z.of_nat 0)) eqn:E; [lia|reflexivity].
  - cbn [length] in Hl |- *. rewrite IH by (try rewrite zset_length; lia).
    rewrite zget_zset by lia.
    destruct ((a + 1 <=? j) && (j <? a + 1 + Z.of_nat (length t))) eqn:E1.
    + replace ((a <=? j) && (j <? a + Z.of_nat (S (length t)))) with true by lia.
      rewrite zget_cons by lia. f_equal. lia.
    + destruct ((a =? j) && (j <? Z.of_nat (length rev))) eqn:E2.
      * replace ((a <=? j) && (j <? a + Z.of_nat (S (length t)))) with true by lia.
        replace (j - a) with 0 by lia. reflexivity.
      * replace ((a <=? j) && (j <? a + Z.of_nat (S (length t)))) with false by lia. reflexivity.
Qed.

(* ------------------------------------------------------------------ fold over zseq *)
Lemma fold_zseq_inv {St} (P : Z -> St -> Prop) (f : St -> Z -> St) n : forall s st,
  P s st -> (forall j st', s <= j < s + Z.of_nat n -> P j st' -> P (j + 1) (f st' j)) ->
  P (s + Z.of_nat n) (fold_left f (zseq s n) st).
Proof.
  induction n as [|n IH]; intros s st H0 Hs.
  - cbn [zseq fold_left]. replace (s + Z.of_nat 0) with s by lia. exact H0.
  - cbn [zseq fold_left]. replace (s + Z.of_nat (S n)) with (s + 1 + Z.of_nat n) by lia.
    apply IH.
    + apply Hs; [lia | exact H0].
    + intros j st' Hj. apply Hs. lia.
Qed.

(* ------------------------------------------------------------------ chunks in closed form *)
Lemma concat_piece {A} (ch : list (list A)) i : (i < length ch)%nat ->
  nth i ch [] = firstn (length (nth i ch [])) (skipn (length (concat (firstn i ch))) (concat ch)).
Proof.
  revert i. induction ch as [|b ch IH]; intros i Hi; [cbn [length] in Hi; lia|].
  destruct i as [|i].
  - cbn [nth firstn concat length skipn]. rewrite firstn_app, Nat.sub_diag, firstn_all. cbn [firstn]. symmetry. apply app_nil_r.
  - cbn [nth firstn concat]. rewrite app_length. rewrite skipn_app.
    rewrite skipn_all2 by lia. replace (length b + length (concat (firstn i ch)) - length b)%nat
      with (length (concat (firstn i ch))) by lia.
    cbn [app]. apply IH. cbn [length] in Hi. lia.
Qed.

Lemma firstn_S_nth {A} (l : list A) i d : (i < length l)%nat -> firstn (S i) l = firstn i l ++ [nth i l d].
Proof.
  revert i. induction l as [|a l IH]; intros i H; [cbn [length] in H; lia|].
  destruct i as [|i]; [reflexivity|]. cbn [firstn nth app]. f_equal. apply IH. cbn [length] in H. lia.
Qed.

Lemma chunks_prefix fuel k merge l : (1 <= k)%nat -> (length l <= fuel)%nat ->
  forall i, (i < length (chunks fuel k merge l))%nat ->
    length (concat (firstn i (chunks fuel k merge l))) = (i * k)%nat.
Proof.
  intros Hk Hl. induction i as [|i IH]; intro Hi; [reflexivity|].
  rewrite (firstn_S_nth _ i []) by lia. rewrite concat_app, app_length, IH by lia.
  cbn [concat length]. rewrite app_nil_r.
  pose proof (chunks_sizes fuel k merge l Hk Hl i ltac:(lia)) as Sz. cbv zeta in Sz.
  replace (S i <? length (chunks fuel k merge l))%nat with true in Sz by (symmetry; apply Nat.ltb_lt; lia).
  rewrite Sz. lia.
Qed.

Lemma concat_length_last {A} (ch : list (list A)) : ch <> [] ->
  length (concat ch) = (length (concat (firstn (length ch - 1) ch)) + length (nth (length ch - 1) ch []))%nat.
Proof.
  intro H. rewrite <- (firstn_skipn (length ch - 1) ch) at 1.
  rewrite concat_app, app_length. f_equal.
  assert (E : skipn (length ch - 1) ch = [nth (length ch - 1) ch []]).
  { clear H0 || idtac. induction ch as [|b ch IH]; [contradiction|].
    destruct ch as [|c ch]; [reflexivity|].
    replace (length (b :: c :: ch) - 1)%nat with (S (length (c :: ch) - 1)) by (cbn [length]; lia).
    cbn [skipn nth]. apply IH. discriminate. }
  rewrite E. cbn [concat length]. rewrite app_nil_r. reflexivity.
Qed.

(* number of bins *)
Lemma chunks_count fuel k merge : forall l, (1 <= k)%nat -> (length l <= fuel)%nat -> l <> [] ->
  length (chunks fuel k merge l) =
  if merge && negb (length l mod k =? 0)%nat && (k <? length l)%nat then (length l / k)%nat
  else ((length l - 1) / k + 1)%nat.
Proof.
  induction fuel as [|f IH]; intros l Hk Hl Hne.
  - destruct l; [contradiction | cbn [length] in Hl; lia].
  - cbn [chunks]. destruct l as [|h t]; [contradiction|].
    assert (Hsk : length (skipn k (h :: t)) = (length (h :: t) - k)%nat) by apply skipn_length.
    set (n := length (h :: t)) in *. assert (Hn : (1 <= n)%nat) by (unfold n; cbn [length]; lia).
    destruct (skipn k (h :: t)) as [|r rest] eqn:Es.
    + cbn [length] in Hsk |- *.
      replace (k <? n)%nat with false by (symmetry; apply Nat.ltb_ge; lia).
      rewrite andb_false_r. assert ((n - 1) / k = 0)%nat by (apply Nat.div_small; lia). lia.
    + set (m := length (r :: rest)) in *. assert (Hm : (1 <= m)%nat) by (unfold m; cbn [length]; lia).
      destruct (merge && (m <? k)%nat) eqn:Em.
      * apply andb_true_iff in Em as [Em1 Em2]. subst merge. apply Nat.ltb_lt in Em2. cbn [length andb].
        assert (Hmod : (n mod k = m)%nat).
        { replace n with (m + 1 * k)%nat by lia. rewrite Nat.mod_add by lia. apply Nat.mod_small. lia. }
        assert (Hdiv : (n / k = 1)%nat).
        { replace n with (m + 1 * k)%nat by lia. rewrite Nat.div_add by lia. rewrite Nat.div_small by lia. lia. }
        rewrite Hmod, Hdiv.
        replace (m =? 0)%nat with false by (symmetry; apply Nat.eqb_neq; lia).
        replace (k <? n)%nat with true by (symmetry; apply Nat.ltb_lt; lia). reflexivity.
      * cbn [length]. rewrite IH; [| assumption | fold m; unfold n in *; cbn [length] in Hl, Hsk |- *; lia | discriminate].
        fold m.
        assert (Hmod : (n mod k = m mod k)%nat).
        { replace n with (m + 1 * k)%nat by lia. apply Nat.mod_add. lia. }
        assert (Hdiv : (n / k = m / k + 1)%nat).
        { replace n with (m + 1 * k)%nat by lia. apply Nat.div_add. lia. }
        assert (Hdiv1 : ((n - 1) / k = (m - 1) / k + 1)%nat).
        { replace (n - 1)%nat with ((m - 1) + 1 * k)%nat by lia. apply Nat.div_add. lia. }
        rewrite Hmod, Hdiv, Hdiv1.
        replace (k <? n)%nat with true by (symmetry; apply Nat.ltb_lt; lia).
        destruct merge; cbn [andb] in Em |- *; [|lia].
        apply Nat.ltb_ge in Em.
        destruct (m mod k =? 0)%nat eqn:E0; cbn [negb andb].
        -- lia.
        -- destruct (k <? m)%nat eqn:E1; [lia|].
           apply Nat.ltb_ge in E1. assert (Hmk : m = k) by lia.
           apply Nat.eqb_neq in E0. rewrite Hmk, Nat.mod_same in E0 by lia. contradiction.
Qed.

Lemma zget_firstn l c i : 0 <= i < Z.of_nat c -> zget (firstn c l) i = zget l i.
Proof. intro H. unfold zget. apply nth_firstn'. lia. Qed.

Lemma zget_app a b t : 0 <= t ->
  zget (a ++ b) t = if t <? Z.of_nat (length a) then zget a t else zget b (t - Z.of_nat (length a)).
Proof.
  intro H. unfold zget. destruct (t <? Z.of_nat (length a)) eqn:E.
  - apply app_nth1. lia.
  - rewrite app_nth2 by lia. f_equal. lia.
Qed.

Lemma zget_skipn l c t : 0 <= t -> zget (skipn c l) t = zget l (Z.of_nat c + t).
Proof. intro H. unfold zget. rewrite nth_skipn. f_equal. lia. Qed.

Ltac ifs' := repeat match goal with
  | |- context[if ?b then _ else _] => destruct b eqn:?
  end.

(* ------------------------------------------------------------------ the model *)
Section NumModel.
  Variable x : list float.
  Variable wsort : list Z.
  Variable k : Z.
  Hypothesis Hk : 1 <= k.
  Let n := Z.of_nat (length wsort).
  Hypothesis Hn : 1 <= n.
  Let N := (n - 1) / k + 1.
  Variables hist rev0 : list Z.
  Hypothesis Hch : chist (fun j => j / k) N (zseq 0 (length wsort)) = (hist, rev0).

  Lemma N_bounds : 1 <= N /\ (N - 1) * k < n /\ n <= N * k.
  Proof. unfold N. nia. Qed.

  Lemma pass_facts :
    Z.of_nat (length hist) = N
    /\ Z.of_nat (length rev0) = n + N + 1
    /\ (forall p, 0 <= p < n -> zget rev0 (N + 1 + p) = p)
    /\ (forall i, 0 <= i <= N -> zget rev0 i = N + 1 + Z.min (i * k) n)
    /\ (forall i, 0 <= i < N -> zget hist i = Z.min n ((i + 1) * k) - i * k).
  Proof.
    pose proof N_bounds as NB.
    assert (Hch' : chist (fun j => j / k) ((n - 1) / k + 1) (zseq 0 (Z.to_nat n)) = (hist, rev0)).
    { unfold n. rewrite Nat2Z.id. exact Hch. }
    destruct (nperbin_pass_slices k n hist rev0 Hk Hn Hch') as [HL [HR [HS [HE HP]]]].
    fold N in HL, HR, HS, HE, HP.
    assert (Hdata : forall p, 0 <= p < n -> zget rev0 (N + 1 + p) = p).
    { intros p Hp. replace (N + 1 + p) with (Z.of_nat (Z.to_nat (N + 1)) + p) by lia.
      rewrite <- zget_skipn by lia. rewrite HS. rewrite zget_zseq by lia. lia. }
    split; [exact HL|]. split; [exact HR|]. split; [exact Hdata|]. split.
    - intros i Hi. destruct (Z.eq_dec i N) as [->|Hne].
      + rewrite HE, HR. lia.
      + destruct (HP i ltac:(lia)) as [Ho [Hsl [Hh [Hh1 _]]]].
        assert (Hlen : Z.of_nat (length (slice rev0 i)) = zget hist i) by (rewrite Hsl, zseq_len; lia).
        assert (Hfl := Hlen). unfold slice in Hfl. rewrite firstn_length, skipn_length in Hfl.
        assert (H0 : zget (slice rev0 i) 0 = i * k) by (rewrite Hsl; rewrite zget_zseq by lia; lia).
        rewrite slice_zget in H0 by lia.
        replace (zget rev0 i + 0) with (N + 1 + (zget rev0 i - N - 1)) in H0 by lia.
        rewrite Hdata in H0 by lia. nia.
    - intros i Hi. destruct (HP i Hi) as [_ [_ [Hh _]]]. exact Hh.
  Qed.

  Definition Pinv (j : Z) (st : list Z * list float * list float) : Prop :=
    let '(rev, low, high) := st in
    length rev = length rev0 /\ Z.of_nat (length low) = N /\ Z.of_nat (length high) = N
    /\ (forall p, 0 <= p < Z.of_nat (length rev0) ->
          zget rev p = if (N + 1 <=? p) && (p <? N + 1 + Z.min (j * k) n) then zget wsort (p - N - 1)
                       else zget rev0 p)
    /\ (forall i, 0 <= i < j ->
          nth (Z.to_nat i) low nan = fget x (zget wsort (i * k))
          /\ nth (Z.to_nat i) high nan = fget x (zget wsort (Z.min ((i + 1) * k) n - 1))).

  Lemma remap_step_inv j st : 0 <= j < N -> Pinv j st -> Pinv (j + 1) (remap_step x wsort st j).
  Proof.
    intros Hj HP. pose proof N_bounds as NB.
    destruct pass_facts as [FL [FR [FD [FH _]]]].
    destruct st as [[rev low] high]. destruct HP as [PL [PLo [PHi [PR PV]]]].
    assert (Ha : zget rev j = N + 1 + j * k).
    { rewrite PR by lia. replace ((N + 1 <=? j) && (j <? N + 1 + Z.min (j * k) n)) with false by lia.
      rewrite FH by lia. nia. }
    assert (Hb : zget rev (j + 1) = N + 1 + Z.min ((j + 1) * k) n).
    { rewrite PR by lia.
      replace ((N + 1 <=? j + 1) && (j + 1 <? N + 1 + Z.min (j * k) n)) with false by lia.
      apply FH. lia. }
    assert (Hjk : j * k < n) by nia.
    set (cnt := Z.min ((j + 1) * k) n - j * k) in *.
    assert (Hcnt : 1 <= cnt) by (unfold cnt; nia).
    assert (Hcn : j * k + cnt <= n) by (unfold cnt; lia).
    unfold remap_step.
    replace (zget rev j =? zget rev (j + 1)) with false by (rewrite Ha, Hb; lia).
    set (sl := slice rev j).
    assert (Hsl_len : Z.of_nat (length sl) = cnt).
    { unfold sl. rewrite slice_length; rewrite ?Ha, ?Hb, ?PL; unfold cnt; lia. }
    assert (Hsl : forall t, 0 <= t < cnt -> zget sl t = j * k + t).
    { intros t Ht. unfold sl. rewrite slice_zget by (rewrite ?Ha, ?Hb; lia). rewrite Ha.
      rewrite PR by lia.
      replace ((N + 1 <=? N + 1 + j * k + t) && (N + 1 + j * k + t <? N + 1 + Z.min (j * k) n)) with false by lia.
      replace (N + 1 + j * k + t) with (N + 1 + (j * k + t)) by lia. apply FD. lia. }
    set (w := map (zget wsort) sl).
    assert (Hw_len : Z.of_nat (length w) = cnt) by (unfold w; rewrite map_length; exact Hsl_len).
    assert (Hw : forall t, 0 <= t < cnt -> zget w t = zget wsort (j * k + t)).
    { intros t Ht. unfold w. rewrite zget_map by lia. rewrite Hsl by lia. reflexivity. }
    unfold Pinv. split; [rewrite write_length; exact PL|].
    split; [unfold fset; rewrite zset_length; exact PLo|].
    split; [unfold fset; rewrite zset_length; exact PHi|].
    split.
    - intros p Hp. rewrite Ha. rewrite zget_write by lia. rewrite Hw_len.
      destruct ((N + 1 + j * k <=? p) && (p <? N + 1 + j * k + cnt)) eqn:E1.
      + rewrite Hw by lia.
        replace ((N + 1 <=? p) && (p <? N + 1 + Z.min ((j + 1) * k) n)) with true by (unfold cnt in *; lia).
        f_equal. lia.
      + rewrite PR by lia.
        destruct ((N + 1 <=? p) && (p <? N + 1 + Z.min (j * k) n)) eqn:E2.
        * replace ((N + 1 <=? p) && (p <? N + 1 + Z.min ((j + 1) * k) n)) with true by (unfold cnt in *; nia).
          reflexivity.
        * replace ((N + 1 <=? p) && (p <? N + 1 + Z.min ((j + 1) * k) n)) with false by (unfold cnt in *; lia).
          reflexivity.
    - intros i Hi. unfold fset. rewrite !nth_zset by lia. rewrite PLo, PHi.
      destruct (j =? i) eqn:Eji.
      + assert (i = j) by lia. subst i. replace (j <? N) with true by lia. cbn [andb].
        split; f_equal.
        * rewrite hd_nth. change (nth 0 w 0) with (zget w 0). rewrite Hw by lia. f_equal. lia.
        * rewrite last_nth. replace (nth (length w - 1) w 0) with (zget w (cnt - 1))
            by (unfold zget; f_equal; lia).
          rewrite Hw by lia. f_equal. unfold cnt. lia.
      + cbn [andb]. apply PV. lia.
  Qed.

  Definition start (M t : Z) : Z := if t <? M then t * k else n.

  Definition Final (M : Z) (h r : list Z) (lo hi : list float) : Prop :=
    Z.of_nat (length h) = M /\ Z.of_nat (length lo) = M /\ Z.of_nat (length hi) = M
    /\ Z.of_nat (length r) = M + 1 + n
    /\ (forall t, 0 <= t <= M -> zget r t = M + 1 + start M t)
    /\ (forall p, 0 <= p < n -> zget r (M + 1 + p) = zget wsort p)
    /\ (forall i, 0 <= i < M ->
          zget h i = start M (i + 1) - start M i
          /\ nth (Z.to_nat i) lo nan = fget x (zget wsort (start M i))
          /\ nth (Z.to_nat i) hi nan = fget x (zget wsort (start M (i + 1) - 1))).

  Lemma final_unmerged rev low high : Pinv N (rev, low, high) -> Final N hist rev low high.
  Proof.
    intro HP. pose proof N_bounds as NB.
    destruct pass_facts as [FL [FR [FD [FH FHi]]]].
    destruct HP as [PL [PLo [PHi [PR PV]]]].
    assert (Hmin : Z.min (N * k) n = n) by lia.
    unfold Final. split; [exact FL|]. split; [exact PLo|]. split; [exact PHi|].
    split; [rewrite PL; lia|]. split; [|split].
    - intros t Ht. rewrite PR by lia.
      replace ((N + 1 <=? t) && (t <? N + 1 + Z.min (N * k) n)) with false by lia.
      rewrite FH by lia. unfold start. destruct (t <? N) eqn:E; [nia|].
      assert (t = N) by lia. subst t. lia.
    - intros p Hp. rewrite PR by lia.
      replace ((N + 1 <=? N + 1 + p) && (N + 1 + p <? N + 1 + Z.min (N * k) n)) with true by lia.
      f_equal. lia.
    - intros i Hi. rewrite FHi by lia. destruct (PV i Hi) as [P1 P2]. rewrite P1, P2.
      unfold start. replace (i <? N) with true by lia.
      destruct (i + 1 <? N) eqn:E.
      + replace (Z.min n ((i + 1) * k)) with ((i + 1) * k) by nia.
        replace (Z.min ((i + 1) * k) n) with ((i + 1) * k) by nia. auto.
      + assert (i + 1 = N) by lia.
        replace (Z.min n ((i + 1) * k)) with n by nia.
        replace (Z.min ((i + 1) * k) n) with n by nia. auto.
  Qed.

  Lemma final_merged rev low high : 2 <= N -> n < N * k ->
    Final N hist rev low high ->
    let '(h', r', lo', hi') := merge_last hist rev low high in Final (N - 1) h' r' lo' hi'.
  Proof.
    intros H2 Hlt [FL [FLo [FHi [FR [FHd [FD FB]]]]]]. pose proof N_bounds as NB.
    unfold merge_last.
    replace (length hist <? 2)%nat with false by (symmetry; apply Nat.ltb_ge; lia).
    replace (Z.of_nat (length hist)) with N by lia.
    assert (S1 : forall t, 0 <= t < N - 1 -> start (N - 1) t = t * k) by (intros t Ht; unfold start; replace (t <? N - 1) with true by lia; reflexivity).
    assert (S2 : start (N - 1) (N - 1) = n) by (unfold start; replace (N - 1 <? N - 1) with false by lia; reflexivity).
    assert (S3 : forall t, 0 <= t < N -> start N t = t * k) by (intros t Ht; unfold start; replace (t <? N) with true by lia; reflexivity).
    assert (S4 : start N N = n) by (unfold start; replace (N <? N) with false by lia; reflexivity).
    unfold Final.
    split; [rewrite zset_length, firstn_length; lia|].
    split; [rewrite firstn_length; lia|].
    split; [unfold fset; rewrite zset_length, firstn_length; lia|].
    split; [rewrite app_length, map_length, app_length, firstn_length, skipn_length; cbn [length]; lia|].
    assert (Lfirst : Z.of_nat (length (map (fun v => v - 1) (firstn (length hist - 1) rev ++ [zget rev N]))) = N).
    { rewrite map_length, app_length, firstn_length. cbn [length]. lia. }
    split; [|split].
    - intros t Ht. rewrite zget_app by lia. rewrite Lfirst. replace (t <? N) with true by lia.
      rewrite zget_map by (rewrite app_length, firstn_length; cbn [length]; lia).
      rewrite zget_app by lia. rewrite firstn_length.
      destruct (t <? Z.of_nat (Nat.min (length hist - 1) (length rev))) eqn:E.
      + rewrite zget_firstn by lia. rewrite FHd by lia. rewrite S3, S1 by lia. lia.
      + assert (t = N - 1) by lia. subst t.
        replace (N - 1 - Z.of_nat (Nat.min (length hist - 1) (length rev))) with 0 by lia.
        change (zget [zget rev N] 0) with (zget rev N). rewrite FHd by lia. rewrite S4, S2. lia.
    - intros p Hp. rewrite zget_app by lia. rewrite Lfirst. replace (N - 1 + 1 + p <? N) with false by lia.
      rewrite zget_skipn by lia. rewrite <- (FD p Hp). f_equal. lia.
    - intros i Hi.
      destruct (FB i ltac:(lia)) as [B1 [B2 B3]].
      rewrite zget_zset by lia. unfold fset. rewrite nth_zset by lia. rewrite !firstn_length.
      rewrite (nth_firstn' low) by lia.
      destruct (N - 2 =? i) eqn:E.
      + assert (i = N - 2) by lia. subst i.
        replace (N - 2 <? Z.of_nat (Nat.min (length hist - 1) (length hist))) with true by lia.
        replace (N - 2 <? Z.of_nat (Nat.min (length hist - 1) (length high))) with true by lia.
        cbn [andb].
        destruct (FB (N - 1) ltac:(lia)) as [C1 [_ C3]].
        replace (N - 2 + 1) with (N - 1) in * by lia. replace (N - 1 + 1) with N in * by lia.
        split; [|split].
        * replace (zget hist (N - 2)) with (start N (N - 1) - start N (N - 2)) by (rewrite <- B1; f_equal; lia).
          rewrite C1. rewrite S2, S4, !S3, S1 by lia. lia.
        * rewrite B2. rewrite S3, S1 by lia. reflexivity.
        * replace (length hist - 1)%nat with (Z.to_nat (N - 1)) by lia. rewrite C3. rewrite S4, S2. reflexivity.
      + cbn [andb]. rewrite zget_firstn by lia. rewrite (nth_firstn' high) by lia.
        rewrite B1, B2, B3. rewrite !S3, !S1 by lia. auto.
  Qed.

  (* the pieces of the chunk list, for a list of M chunks whose first M-1 hold k elements *)
  Lemma chunk_pieces merge M : let ch := chunks (length wsort) (Z.to_nat k) merge wsort in
    Z.of_nat (length ch) = M -> 1 <= M ->
    forall i, 0 <= i < M ->
      nth (Z.to_nat i) ch [] = firstn (Z.to_nat (start M (i + 1) - start M i)) (skipn (Z.to_nat (start M i)) wsort)
      /\ 1 <= start M (i + 1) - start M i /\ start M i + (start M (i + 1) - start M i) <= n /\ 0 <= start M i.
  Proof.
    intros ch HM H1 i Hi.
    assert (Hkn : (1 <= Z.to_nat k)%nat) by lia.
    assert (Hfuel : (length wsort <= length wsort)%nat) by lia.
    assert (Hcat : concat ch = wsort) by (apply chunks_concat; assumption).
    assert (Hpre : forall j, 0 <= j < M -> Z.of_nat (length (concat (firstn (Z.to_nat j) ch))) = j * k).
    { intros j Hj. unfold ch. rewrite chunks_prefix by (try assumption; fold ch; lia). lia. }
    assert (Hlen : Z.of_nat (length (nth (Z.to_nat i) ch [])) = start M (i + 1) - start M i).
    { unfold start. replace (i <? M) with true by lia. destruct (i + 1 <? M) eqn:E.
      - pose proof (chunks_sizes (length wsort) (Z.to_nat k) merge wsort Hkn Hfuel (Z.to_nat i) ltac:(fold ch; lia)) as Sz.
        cbv zeta in Sz. fold ch in Sz.
        replace (S (Z.to_nat i) <? length ch)%nat with true in Sz by (symmetry; apply Nat.ltb_lt; lia).
        rewrite Sz. lia.
      - assert (i = M - 1) by lia. subst i.
        assert (Hne : ch <> []) by (intro E0; rewrite E0 in HM; cbn [length] in HM; lia).
        pose proof (concat_length_last ch Hne) as CL. rewrite Hcat in CL.
        replace (length ch - 1)%nat with (Z.to_nat (M - 1)) in CL by lia.
        specialize (Hpre (M - 1) ltac:(lia)). unfold n. lia. }
    assert (Hs : start M i = i * k) by (unfold start; replace (i <? M) with true by lia; reflexivity).
    split.
    - rewrite (concat_piece ch (Z.to_nat i)) at 1 by lia. rewrite Hcat. f_equal; [lia|]. f_equal.
      specialize (Hpre i Hi). lia.
    - assert (Hpos : 1 <= start M (i + 1) - start M i).
      { rewrite <- Hlen.
        assert (Hin : In (nth (Z.to_nat i) ch []) ch) by (apply nth_In; lia).
        apply (chunks_nonempty _ _ _ _ _ Hkn) in Hin. destruct (nth (Z.to_nat i) ch []); [contradiction | cbn [length]; lia]. }
      split; [exact Hpos|]. split; [|nia].
      unfold start in *. replace (i <? M) with true in * by lia. destruct (i + 1 <? M) eqn:E; [|lia].
      specialize (Hpre (i + 1) ltac:(lia)).
      assert (length (concat (firstn (Z.to_nat (i + 1)) ch)) <= length (concat ch))%nat.
      { rewrite <- (firstn_skipn (Z.to_nat (i + 1)) ch) at 2. rewrite concat_app, app_length. lia. }
      rewrite Hcat in H. unfold n. lia.
  Qed.

  (* from the final layout to the statement about slices *)
  Lemma final_slices merge M h r lo hi :
    let ch := chunks (length wsort) (Z.to_nat k) merge wsort in
    Z.of_nat (length ch) = M -> 1 <= M -> Final M h r lo hi ->
    length h = length ch /\ length lo = length ch /\ length hi = length ch
    /\ skipn (S (length h)) r = wsort
    /\ forall i, (i < length ch)%nat ->
         let b := nth i ch [] in
         b <> []
         /\ 0 <= zget r (Z.of_nat i) /\ 0 <= zget r (Z.of_nat i + 1)
         /\ zget r (Z.of_nat i) <> zget r (Z.of_nat i + 1)
         /\ slice r (Z.of_nat i) = b
         /\ zget h (Z.of_nat i) = Z.of_nat (length b)
         /\ nth i lo nan = fget x (hd 0 b)
         /\ nth i hi nan = fget x (last b 0).
  Proof.
    intros ch HM H1 [FL [FLo [FHi [FR [FHd [FD FB]]]]]].
    split; [lia|]. split; [lia|]. split; [lia|]. split.
    - apply (nth_ext _ _ 0 0).
      + rewrite skipn_length. unfold n in FR. lia.
      + intros t Ht. rewrite skipn_length in Ht. rewrite nth_skipn.
        specialize (FD (Z.of_nat t) ltac:(unfold n in *; lia)). unfold zget in FD.
        rewrite Nat2Z.id in FD. rewrite <- FD. f_equal. lia.
    - intros i Hi b. set (zi := Z.of_nat i).
      destruct (chunk_pieces merge M HM H1 zi ltac:(lia)) as [Hb [Hc [Hcn Hs0]]]. fold ch in Hb.
      replace (Z.to_nat zi) with i in Hb by lia. fold b in Hb.
      set (s := start M zi) in *. set (c := start M (zi + 1) - s) in *.
      assert (Hblen : Z.of_nat (length b) = c).
      { rewrite Hb, firstn_length, skipn_length. unfold n in Hcn. lia. }
      assert (Hbn : forall t, 0 <= t < c -> zget b t = zget wsort (s + t)).
      { intros t Ht. unfold zget. rewrite Hb. rewrite nth_firstn' by lia. rewrite nth_skipn. f_equal. lia. }
      assert (R1 : zget r zi = M + 1 + s) by (apply FHd; lia).
      assert (R2 : zget r (zi + 1) = M + 1 + s + c) by (rewrite FHd by lia; unfold c; lia).
      split; [intro E0; rewrite E0 in Hblen; cbn [length] in Hblen; lia|].
      split; [lia|]. split; [lia|]. split; [lia|].
      destruct (FB zi ltac:(lia)) as [B1 [B2 B3]].
      split; [|split; [|split]].
      + apply (nth_ext _ _ 0 0).
        * assert (Z.of_nat (length (slice r zi)) = c) by (rewrite slice_length; lia). lia.
        * intros t Ht.
          assert (Ht' : 0 <= Z.of_nat t < c).
          { assert (Z.of_nat (length (slice r zi)) = c) by (rewrite slice_length; lia). lia. }
          change (nth t (slice r zi) 0) with (nth (Z.to_nat (Z.of_nat t)) (slice r zi) 0) || idtac.
          replace t with (Z.to_nat (Z.of_nat t)) by lia.
          change (zget (slice r zi) (Z.of_nat t) = zget b (Z.of_nat t)).
          rewrite slice_zget by lia. rewrite R1. rewrite Hbn by lia.
          replace (M + 1 + s + Z.of_nat t) with (M + 1 + (s + Z.of_nat t)) by lia. apply FD. lia.
      + rewrite B1. fold s. fold c. lia.
      + replace i with (Z.to_nat zi) at 1 by lia. rewrite B2. f_equal. fold s.
        rewrite hd_nth. change (nth 0 b 0) with (zget b 0). rewrite Hbn by lia. f_equal. lia.
      + replace i with (Z.to_nat zi) at 1 by lia. rewrite B3. f_equal. fold s.
        rewrite last_nth. replace (nth (length b - 1) b 0) with (zget b (c - 1)) by (unfold zget; f_equal; lia).
        rewrite Hbn by lia. f_equal. unfold c. lia.
  Qed.
End NumModel.

(* ------------------------------------------------------------------ the theorem *)
Lemma chunk_count_Z wsort k merge : 1 <= k -> wsort <> [] ->
  let n := Z.of_nat (length wsort) in
  Z.of_nat (length (chunks (length wsort) (Z.to_nat k) merge wsort)) =
  if merge && negb (n mod k =? 0) && (k <? n) then n / k else (n - 1) / k + 1.
Proof.
  intros Hk Hne n.
  rewrite chunks_count by (try assumption; lia).
  assert (Hn : 1 <= n) by (unfold n; destruct wsort; [contradiction | cbn [length]; lia]).
  assert (E1 : ((length wsort mod Z.to_nat k =? 0)%nat = (n mod k =? 0))).
  { unfold n. destruct (Z.of_nat (length wsort) mod k =? 0) eqn:E.
    - apply Nat.eqb_eq. apply Nat2Z.inj. rewrite Nat2Z.inj_mod. rewrite Z2Nat.id by lia. lia.
    - apply Nat.eqb_neq. intro H. apply (f_equal Z.of_nat) in H. rewrite Nat2Z.inj_mod in H.
      rewrite Z2Nat.id in H by lia. lia. }
  assert (E2 : ((Z.to_nat k <? length wsort)%nat = (k <? n))).
  { unfold n. destruct (k <? Z.of_nat (length wsort)) eqn:E; [apply Nat.ltb_lt | apply Nat.ltb_ge]; lia. }
  rewrite E1, E2.
  destruct (merge && negb (n mod k =? 0) && (k <? n)).
  - rewrite Nat2Z.inj_div. rewrite Z2Nat.id by lia. reflexivity.
  - rewrite Nat2Z.inj_add, Nat2Z.inj_div, Nat2Z.inj_sub by lia. rewrite Z2Nat.id by lia. reflexivity.
Qed.

Theorem hist_by_num_spec : forall (x : list float) (wsort : list Z) (k : Z) (merge : bool) hist rev low high,
  1 <= k -> wsort <> [] ->
  hist_by_num x wsort k merge = (hist, rev, low, high) ->
  let ch := chunks (length wsort) (Z.to_nat k) merge wsort in
  length hist = length ch /\ length low = length ch /\ length high = length ch
  /\ skipn (S (length hist)) rev = wsort
  /\ forall i, (i < length ch)%nat ->
       let b := nth i ch [] in
       b <> []
       /\ 0 <= zget rev (Z.of_nat i) /\ 0 <= zget rev (Z.of_nat i + 1)
       /\ zget rev (Z.of_nat i) <> zget rev (Z.of_nat i + 1)
       /\ slice rev (Z.of_nat i) = b
       /\ zget hist (Z.of_nat i) = Z.of_nat (length b)
       /\ nth i low nan = fget x (hd 0 b)
       /\ nth i high nan = fget x (last b 0).
Proof.
  intros x wsort k merge hist rev low high Hk Hne H.
  set (n := Z.of_nat (length wsort)).
  assert (Hn : 1 <= n) by (unfold n; destruct wsort; [contradiction | cbn [length]; lia]).
  set (N := (n - 1) / k + 1).
  unfold hist_by_num in H. fold n in H. fold N in H.
  destruct (chist (fun i => i / k) N (zseq 0 (length wsort))) as [h0 rev0] eqn:Hch.
  pose proof (N_bounds wsort k Hk Hn) as NB. fold n in NB. fold N in NB.
  destruct (pass_facts wsort k Hk Hn h0 rev0 Hch) as [FL [FR [FD [FH FHi]]]]. fold n in FL, FR, FD, FH, FHi. fold N in FL, FR, FD, FH, FHi.
  set (z := repeat 0%float (Z.to_nat N)) in H.
  assert (Hinit : Pinv x wsort k rev0 0 (rev0, z, z)).
  { unfold Pinv. fold n. fold N. split; [reflexivity|].
    split; [unfold z; rewrite repeat_length; lia|]. split; [unfold z; rewrite repeat_length; lia|].
    split.
    - intros p Hp. replace ((N + 1 <=? p) && (p <? N + 1 + Z.min (0 * k) n)) with false by lia. reflexivity.
    - intros i Hi. lia. }
  pose proof (fold_zseq_inv (Pinv x wsort k rev0) (remap_step x wsort) (Z.to_nat N) 0 (rev0, z, z) Hinit) as HF.
  assert (Hstep : forall j st', 0 <= j < 0 + Z.of_nat (Z.to_nat N) ->
            Pinv x wsort k rev0 j st' -> Pinv x wsort k rev0 (j + 1) (remap_step x wsort st' j)).
  { intros j st' Hj HP. apply (remap_step_inv x wsort k Hk Hn h0 rev0 Hch). - fold n. fold N. lia. - exact HP. }
  specialize (HF Hstep). replace (0 + Z.of_nat (Z.to_nat N)) with N in HF by lia.
  destruct (fold_left (remap_step x wsort) (zseq 0 (Z.to_nat N)) (rev0, z, z)) as [[rev1 low1] high1].
  pose proof (final_unmerged x wsort k Hk Hn h0 rev0 Hch rev1 low1 high1 HF) as HFin. fold n in HFin. fold N in HFin.
  pose proof (chunk_count_Z wsort k merge Hk Hne) as HC. cbv zeta in HC. fold n in HC.
  assert (Hlast : last h0 0 = n - (N - 1) * k).
  { rewrite last_nth. replace (nth (length h0 - 1) h0 0) with (zget h0 (N - 1)) by (unfold zget; f_equal; lia).
    rewrite FHi by lia. replace (N - 1 + 1) with N by lia. lia. }
  rewrite Hlast in H.
  destruct (negb (n - (N - 1) * k =? k) && merge) eqn:Ec.
  - apply andb_true_iff in Ec as [Ec1 Ec2]. subst merge. apply negb_true_iff in Ec1. apply Z.eqb_neq in Ec1.
    assert (Hlt : n < N * k) by lia.
    destruct (Z_lt_dec N 2) as [H1|H2].
    + (* a single bin: nothing to merge *)
      unfold merge_last in H. replace (length h0 <? 2)%nat with true in H by (symmetry; apply Nat.ltb_lt; lia).
      injection H as <- <- <- <-.
      apply (final_slices x wsort k Hk Hn true N); [|lia|exact HFin].
      rewrite HC. replace (k <? n) with false by nia. rewrite andb_false_r. reflexivity.
    + pose proof (final_merged x wsort k Hk Hn h0 rev1 low1 high1 ltac:(fold n; fold N; lia) ltac:(fold n; fold N; lia) HFin) as HM.
      rewrite H in HM. fold n in HM. fold N in HM.
      apply (final_slices x wsort k Hk Hn true (N - 1)); [|lia|exact HM].
      rewrite HC. replace (k <? n) with true by nia.
      pose proof (Z.div_mod n k ltac:(lia)) as D. pose proof (Z.mod_pos_bound n k ltac:(lia)) as Db.
      assert (Hq1 : N - 1 <= n / k) by nia. assert (Hq2 : n / k <= N - 1) by nia.
      assert (Hmod : n mod k <> 0) by (intro Hm; rewrite Hm in D; nia).
      replace (n mod k =? 0) with false by (symmetry; apply Z.eqb_neq; exact Hmod).
      cbn [negb andb]. lia.
  - injection H as <- <- <- <-.
    apply (final_slices x wsort k Hk Hn merge N); [|lia|exact HFin].
    rewrite HC.
    destruct merge; cbn [andb]; [|reflexivity].
    rewrite andb_true_r in Ec. apply negb_false_iff in Ec. apply Z.eqb_eq in Ec.
    assert (Hmod : n mod k = 0) by (replace n with (N * k) by lia; apply Z.mod_mul; lia).
    replace (n mod k =? 0) with true by (symmetry; apply Z.eqb_eq; exact Hmod). reflexivity.
Qed.

(* ------------------------------------------------------------------ end to end *)
Lemma limits_nonempty x lo hi dmin dmax w : limits x (argsort x) lo hi = Ok (dmin, dmax, w) -> w <> [].
Proof.
  unfold limits. intro H.
  destruct lo as [l|], hi as [h|], (argsort x) as [|a s] eqn:Es; try discriminate;
    repeat match type of H with
    | context[match filter ?f ?l with _ => _ end] => destruct (filter f l) eqn:?
    end; try discriminate; injection H as _ _ <-; discriminate.
Qed.

(* Binner(x, y, weights).dohist(nperbin=k, mergelast=merge, min=, max=) as modelled: whenever the
   selected data come in stable sorted order (the contract of numpy's argsort, decided on every
   case by the checker), the result is the property: bins are the chunks of that order, hist
   their sizes, low/high the first/last member's value, rev refers to the original array, and
   rows that agree with the model's statistics are those of the members. *)
Theorem binner_num_spec c lo hi k merge b dmin dmax wsort rows :
  binner_num true c lo hi k merge = Ok b -> cols_ok c = true -> 1 <= k ->
  limits (c_x c) (argsort (c_x c)) lo hi = Ok (dmin, dmax, wsort) ->
  ordered (c_x c) wsort -> Permutation wsort (selected c lo hi) ->
  rows_meet rows (n_rows b) = true ->
  num_ok c lo hi k merge (n_hist b) (n_rev b) (n_low b) (n_high b) rows.
Proof.
  intros HB OK Hk HL HO HP HR.
  assert (Hne := limits_nonempty _ _ _ _ _ _ HL).
  unfold binner_num in HB. rewrite (cols_ok_same_len c OK) in HB. cbn [negb] in HB. rewrite HL in HB.
  replace (k <? 1) with false in HB by lia.
  destruct (hist_by_num (c_x c) wsort k merge) as [[[hist rev] low] high] eqn:HH.
  injection HB as <-. cbn [n_hist n_rev n_low n_high n_rows] in *.
  destruct (hist_by_num_spec (c_x c) wsort k merge hist rev low high Hk Hne HH) as [L1 [L2 [L3 [_ HS]]]].
  set (ch := chunks (length wsort) (Z.to_nat k) merge wsort) in *.
  exists wsort. split; [exact HP|]. split; [exact HO|]. fold ch.
  split; [exact L1|]. split; [exact L2|]. split; [exact L3|]. split.
  - intros i Hi. destruct (HS i Hi) as [_ [S1 [S2 [_ [S4 [S5 [S6 S7]]]]]]].
    unfold chunk_ok. repeat split; try assumption; unfold sf_eq; [rewrite S6 | rewrite S7]; reflexivity.
  - apply (stats_of_members _ _ _ rev).
    + exact OK.
    + intros i Hi. unfold inrange. apply Forall_forall. intros j Hj.
      destruct (Nat.lt_ge_cases (Z.to_nat i) (length ch)) as [Hlt|Hge].
      * apply indices_range.
        assert (Hs : In j wsort) by (eapply chunks_incl; [apply nth_In; exact Hlt | exact Hj]).
        apply (Permutation_in _ HP) in Hs. unfold selected in Hs. apply filter_In in Hs. apply Hs.
      * rewrite nth_overflow in Hj by assumption. contradiction.
    + lia.
    + intros i Hi. rewrite bin_slice_eq.
      destruct (HS (Z.to_nat i) ltac:(lia)) as [_ [_ [_ [_ [S4 _]]]]].
      replace (Z.of_nat (Z.to_nat i)) with i in S4 by lia. rewrite S4. apply Permutation_refl.
    + rewrite <- L1. exact HR.
Qed.

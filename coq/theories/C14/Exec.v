(* C14 — glue evaluated by generated case files:
   verdict = (model <> implementation ? 1) + (property checker rejects the implementation ? 2) *)
From Coq Require Import PrimFloat FloatOps SpecFloat QArith.
From EsVerif.Common Require Import Base.
From EsVerif.C05 Require Import Model Spec.
From EsVerif.C14 Require Import Model Spec.

Definition edge_eqb (a b : float * float * float) : bool :=
  let '(a1, a2, a3) := a in let '(b1, b2, b3) := b in sf_eqb a1 b1 && sf_eqb a2 b2 && sf_eqb a3 b3.

(* ------------------------------------------------------------------ binsize / nbin *)
Record iout := mkI { i_hist : list Z; i_rev : list Z; i_edges : list (float * float * float);
                     i_rows : list (list float) }.

(* inside the quantifier: finite data, positive weights, a bin size > 0 or a bin count >= 1, a
   non-empty selection; gives the bin specification in force *)
Definition in_domain (c : cols) (lo hi : option float) (m : mode) : option (float * float * Z) :=
  if cols_ok c && mode_ok m then
    match limits (c_x c) (argsort (c_x c)) lo hi with
    | Ok (dmin, dmax, _) =>
        match derive dmin dmax m with
        | Ok (bs, nb) => if nb <? 1 then None else Some (dmin, bs, nb)
        | Err _ => None
        end
    | Err _ => None
    end
  else None.

Definition binned_agree (patched : bool) (c : cols) (rv : bool) (lo hi : option float) (m : mode)
           (out : result iout) : bool :=
  match binner patched c rv lo hi m, out with
  | Ok b, Ok o =>
      zlist_eqb (b_hist b) (i_hist o) && zlist_eqb (b_rev b) (i_rev o)
      && list_eqb edge_eqb (b_edges b) (i_edges o)
      && rows_meet (i_rows o) (b_rows b)
  | Err e, Err e' => err_eqb e e'
  | _, _ => false
  end.

Definition v_binned (c : cols) (rv : bool) (lo hi : option float) (m : mode) (out : result iout) : Z :=
  verdict (binned_agree true c rv lo hi m out)
          (match in_domain c lo hi m with
           | None => true
           | Some (dmin, bs, nb) =>
               match out with
               | Ok o => edges_check dmin bs nb (i_edges o)
                         && (if dorev c rv
                             then stats_check (members (c_x c) lo hi dmin bs) nb c (i_rows o)
                             else true)
               | Err _ => false
               end
           end).

(* does the as-found (unrepaired) rule for single-member bins explain the output? *)
Definition v_binned_unpatched (c : cols) (rv : bool) (lo hi : option float) (m : mode) (out : result iout) : Z :=
  if binned_agree false c rv lo hi m out then 0 else 1.

(* ------------------------------------------------------------------ nperbin *)
Record inum := mkN { j_hist : list Z; j_rev : list Z; j_low : list float; j_high : list float;
                     j_rows : list (list float) }.

Definition num_domain (c : cols) (lo hi : option float) (k : Z) : bool :=
  cols_ok c && (1 <=? k)
  && match limits (c_x c) (argsort (c_x c)) lo hi with Ok _ => true | Err _ => false end.

Definition num_agree (patched : bool) (c : cols) (lo hi : option float) (k : Z) (merge : bool)
           (out : result inum) : bool :=
  match binner_num patched c lo hi k merge, out with
  | Ok b, Ok o =>
      zlist_eqb (n_hist b) (j_hist o) && zlist_eqb (n_rev b) (j_rev o)
      && list_eqb sf_eqb (n_low b) (j_low o) && list_eqb sf_eqb (n_high b) (j_high o)
      && rows_meet (j_rows o) (n_rows b)
  | Err e, Err e' => err_eqb e e'
  | _, _ => false
  end.

Definition v_num (c : cols) (lo hi : option float) (k : Z) (merge : bool) (out : result inum) : Z :=
  verdict (num_agree true c lo hi k merge out)
          (if num_domain c lo hi k then
             match out with
             | Ok o => num_check c lo hi k merge (j_hist o) (j_rev o) (j_low o) (j_high o) (j_rows o)
             | Err _ => false
             end
           else true).

Definition v_num_unpatched (c : cols) (lo hi : option float) (k : Z) (merge : bool) (out : result inum) : Z :=
  if num_agree false c lo hi k merge out then 0 else 1.

(* contract monitor of the nperbin model: the binary64 bin number np.int64((i - 0)/float(k)) that
   _do_hist computes (C05's bit-exact binnum) is the integer quotient i / k for every position,
   and nbin = np.int64((n-1)/float(k)) + 1 = (n-1)/k + 1 *)
Definition nperbin_monitor (n k : Z) : bool :=
  let pos := zseq 0 (Z.to_nat n) in
  let f8ind := map float_of_Z pos in
  let fk := float_of_Z k in
  forallb (fun i => binnum f8ind 0%float fk i =? i / k) pos
  && (f2z_trunc (PrimFloat.div (float_of_Z (n - 1)) fk) + 1 =? (n - 1) / k + 1).

(* model against the verified checkers on an exhaustive small scope (thorough tier) *)
Fixpoint lists_exact {A} (vs : list A) (len : nat) : list (list A) :=
  match len with
  | O => [[]]
  | S k => flat_map (fun t => map (fun v => v :: t) vs) (lists_exact vs k)
  end.
Definition lists_upto {A} (vs : list A) (len : nat) : list (list A) :=
  flat_map (lists_exact vs) (seq 1 len).

Definition num_sweep (vs : list float) (len : nat) : bool :=
  forallb (fun x =>
    forallb (fun k =>
      forallb (fun merge =>
        match hist_by_num x (argsort x) k merge with
        | (hist, rev, low, high) =>
            let c := mkCols x None None in
            let s := skipn (S (length hist)) rev in
            let ch := chunks (length s) (Z.to_nat k) merge s in
            perm_b s (selected c None None) && ordered_b x s
            && Nat.eqb (length hist) (length ch)
            && forallb (fun i => chunk_check c hist rev low high i (nth i ch [])) (seq 0 (length ch))
        end) [true; false])
      (zseq 1 (S (length x))))
    (lists_upto vs len).

(* tie to the source: the tables and constants read out of esutil/stat/util.py by
   harness/props/c14_translate.py against those of Model.v *)
Definition kinds_eqb (a b : list kind) : bool := zlist_eqb (map kind_code a) (map kind_code b).

Definition src_tables_agree (su : list kind) (swh : kind) (sw : list kind)
           (mu : list kind) (mwh : kind) (mw : list kind)
           (sent : Q) (wh0 : Q) (cf : float) : bool :=
  kinds_eqb su single_u_table && (kind_code swh =? kind_code single_whist) && kinds_eqb sw single_w_table
  && kinds_eqb mu many_u_table && (kind_code mwh =? kind_code many_whist) && kinds_eqb mw many_w_table
  && Qeq_bool sent sentinel && Qeq_bool wh0 whist_empty && sf_eqb cf center_factor.

(* several of binsize= / nbin= / nperbin= given together (or none): the output is the one of the
   keyword that wins *)
Inductive anyout := OBinned (o : result iout) | ONum (o : result inum).

Definition v_resolved (via_histogram : bool) (c : cols) (rv : bool) (lo hi : option float)
           (bs : option float) (nb k : option Z) (merge : bool) (out : anyout) : Z :=
  match resolve via_histogram bs nb k, out with
  | CNum k', ONum o => v_num c lo hi k' merge o
  | CNum k', OBinned (Err e) => v_num c lo hi k' merge (Err e)
  | CMode m, OBinned o => v_binned c rv lo hi m o
  | CMode m, ONum (Err e) => v_binned c rv lo hi m (Err e)
  | CNone, OBinned (Err e) | CNone, ONum (Err e) =>
      (* the error of _get_minmax_and_indices comes first, then "Send binsize or nbin or nperbin" *)
      match binner_api true via_histogram c rv lo hi bs nb k merge with
      | Err e' => if err_eqb e e' then 0 else 1
      | Ok _ => 1
      end
  | _, _ => 3
  end.

(* tie of the control skeleton: the record translated from util.py against Model.model_skel *)
Definition kw_code (k : kwname) : Z := match k with KwNperbin => 0 | KwBinsize => 1 | KwNbin => 2 end.

Fixpoint fexpr_eqb (a b : fexpr) : bool :=
  match a, b with
  | FDmin, FDmin | FBs, FBs | FIdx, FIdx | FLow, FLow => true
  | FConst c, FConst d => sf_eqb c d
  | FAdd a1 a2, FAdd b1 b2 | FMul a1 a2, FMul b1 b2 => fexpr_eqb a1 b1 && fexpr_eqb a2 b2
  | _, _ => false
  end.

Definition skel_eqb (a b : skel) : bool :=
  Bool.eqb (sk_clear_first a) (sk_clear_first b) && Bool.eqb (sk_y_forces_rev a) (sk_y_forces_rev b)
  && Bool.eqb (sk_w_forces_rev a) (sk_w_forces_rev b) && Bool.eqb (sk_limits_first a) (sk_limits_first b)
  && zlist_eqb (map kw_code (sk_binner_order a)) (map kw_code (sk_binner_order b))
  && err_eqb (sk_none_error a) (sk_none_error b) && sf_eqb (sk_hist_default_bs a) (sk_hist_default_bs b)
  && Bool.eqb (sk_hist_nbin_over_bs a) (sk_hist_nbin_over_bs b) && Bool.eqb (sk_more_forces_rev a) (sk_more_forces_rev b)
  && (let '(a1, a2, a3) := sk_edges a in let '(b1, b2, b3) := sk_edges b in
      fexpr_eqb a1 b1 && fexpr_eqb a2 b2 && fexpr_eqb a3 b3)
  && Bool.eqb (sk_num_skips_edges a) (sk_num_skips_edges b) && Bool.eqb (sk_stats_iff_rev a) (sk_stats_iff_rev b)
  && err_eqb (sk_no_hist_error a) (sk_no_hist_error b) && (sk_single_size a =? sk_single_size b)
  && (sk_merge_min a =? sk_merge_min b) && Bool.eqb (sk_merge_if_last_differs a) (sk_merge_if_last_differs b)
  && err_eqb (fst (sk_len_errors a)) (fst (sk_len_errors b)) && err_eqb (snd (sk_len_errors a)) (snd (sk_len_errors b))
  && err_eqb (sk_empty_sel_error a) (sk_empty_sel_error b).

Definition src_skel_agrees (s : skel) : bool := skel_eqb s model_skel.

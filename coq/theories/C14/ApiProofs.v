(* C14 — the call as a whole: which keyword wins, which inputs are rejected with which error
   class, and the history dimension (a reused Binner answers like a fresh one because dohist
   clears the dictionary; without the clearing it does not). *)
From Coq Require Import PrimFloat ZArith List Bool Lia.
From EsVerif.Common Require Import Base.
From EsVerif.C05 Require Import Model Spec.
From EsVerif.C14 Require Import Model Spec.
Open Scope Z_scope.

(* ------------------------------------------------------------------ keyword precedence *)
Theorem keyword_precedence :
  (forall h bs nb k, resolve h bs nb (Some k) = CNum k)
  /\ (forall bs n, resolve true bs (Some n) None = CMode (ByNbin n))
  /\ (forall b, resolve true (Some b) None None = CMode (ByBinsize b))
  /\ resolve true None None None = CMode (ByBinsize 1%float)
  /\ (forall b nb, resolve false (Some b) nb None = CMode (ByBinsize b))
  /\ (forall n, resolve false None (Some n) None = CMode (ByNbin n))
  /\ resolve false None None None = CNone.
Proof. repeat split. Qed.

Theorem api_dispatch p h c rv lo hi bs nb k merge :
  (forall k', k = Some k' ->
     binner_api p h c rv lo hi bs nb k merge
     = match binner_num p c lo hi k' merge with Ok n => Ok (ANum n) | Err e => Err e end)
  /\ (forall m, resolve h bs nb k = CMode m ->
        binner_api p h c rv lo hi bs nb k merge
        = match binner p c rv lo hi m with Ok b => Ok (ABinned b) | Err e => Err e end)
  /\ (resolve h bs nb k = CNone -> forall a, binner_api p h c rv lo hi bs nb k merge <> Ok a).
Proof.
  repeat split.
  - intros k' ->. reflexivity.
  - intros m H. unfold binner_api. rewrite H. reflexivity.
  - intros H a. unfold binner_api. rewrite H. destruct (negb (same_len c)); [discriminate|].
    destruct (limits (c_x c) (argsort (c_x c)) lo hi); discriminate.
Qed.

(* ------------------------------------------------------------------ the min/max selection *)
(* util.py:305-341 as a table: s[0] / s[-1] on empty data raise IndexError; an empty selection
   raises ValueError; nothing else is rejected *)
Definition eff_min (x : list float) (s : list Z) (lo : option float) : float :=
  match lo with Some v => v | None => fget x (hd 0 s) end.
Definition eff_max (x : list float) (s : list Z) (hi : option float) : float :=
  match hi with Some v => v | None => fget x (last s 0) end.

Theorem limits_outcome x s lo hi :
  limits x s lo hi =
  match s, lo, hi with
  | [], None, _ => Err EIndex
  | [], Some _, None => Err EIndex
  | _, None, None => Ok (eff_min x s lo, eff_max x s hi, s)
  | _, _, _ =>
      match filter (fun k => within (eff_min x s lo) (eff_max x s hi) (fget x k)) s with
      | [] => Err EValue
      | w => Ok (eff_min x s lo, eff_max x s hi, w)
      end
  end.
Proof.
  unfold limits, eff_min, eff_max. destruct s as [|a t], lo as [l|], hi as [h|]; reflexivity.
Qed.

Lemma limits_error_class x s lo hi e : limits x s lo hi = Err e -> e = EIndex \/ e = EValue.
Proof.
  rewrite limits_outcome. destruct s as [|a t], lo as [l|], hi as [h|]; intro H;
    try (injection H as <-; auto; fail); try discriminate;
    match type of H with
    | context[match filter ?f ?l with _ => _ end] => destruct (filter f l); [injection H as <-; auto | discriminate]
    end.
Qed.

Lemma limits_ok_nonempty x s lo hi dmin dmax w : limits x s lo hi = Ok (dmin, dmax, w) -> w <> [].
Proof.
  rewrite limits_outcome. destruct s as [|a t], lo as [l|], hi as [h|]; intro H; try discriminate;
    try (injection H as _ _ <-; discriminate);
    match type of H with
    | context[match filter ?f ?l with _ => _ end] => destruct (filter f l); [discriminate | injection H as _ _ <-; discriminate]
    end.
Qed.

(* ------------------------------------------------------------------ rejections of the two entries *)
Theorem binner_num_outcome p c lo hi k merge :
  (same_len c = false -> binner_num p c lo hi k merge = Err EValue)
  /\ (same_len c = true -> forall e, limits (c_x c) (argsort (c_x c)) lo hi = Err e ->
        binner_num p c lo hi k merge = Err e /\ (e = EIndex \/ e = EValue))
  /\ (same_len c = true -> forall t, limits (c_x c) (argsort (c_x c)) lo hi = Ok t ->
        if k <? 1 then binner_num p c lo hi k merge = Err EOther
        else exists b, binner_num p c lo hi k merge = Ok b).
Proof.
  unfold binner_num. repeat split.
  - intros ->. reflexivity.
  - rewrite H. cbn [negb]. rewrite H0. reflexivity.
  - eapply limits_error_class. eassumption.
  - intros H [[dmin dmax] w] HL. rewrite H. cbn [negb]. rewrite HL.
    destruct (k <? 1); [reflexivity|].
    destruct (hist_by_num (c_x c) w k merge) as [[[hist rev] low] high]. eexists. reflexivity.
Qed.

Theorem binner_outcome p c rv lo hi m :
  (same_len c = false -> binner p c rv lo hi m = Err EValue)
  /\ (same_len c = true -> forall e, limits (c_x c) (argsort (c_x c)) lo hi = Err e ->
        binner p c rv lo hi m = Err e /\ (e = EIndex \/ e = EValue))
  /\ (same_len c = true -> forall dmin dmax w, limits (c_x c) (argsort (c_x c)) lo hi = Ok (dmin, dmax, w) ->
        match derive dmin dmax m with
        | Err e => binner p c rv lo hi m = Err e /\ m = ByNbin 0 /\ e = EOther     (* ZeroDivisionError *)
        | Ok (bs, nbin) =>
            if nbin <? 0 then binner p c rv lo hi m = Err EValue                  (* np.zeros(negative) *)
            else exists b, binner p c rv lo hi m = Ok b
        end).
Proof.
  unfold binner, histogram. repeat split.
  - intros ->. reflexivity.
  - rewrite H. cbn [negb]. rewrite H0. reflexivity.
  - eapply limits_error_class. eassumption.
  - intros H dmin dmax w HL. rewrite H. cbn [negb]. rewrite HL.
    destruct (derive dmin dmax m) as [[bs nbin]|e] eqn:D.
    + destruct (nbin <? 0); [reflexivity|].
      destruct (chist (binnum (c_x c) dmin bs) nbin w) as [hist rev].
      destruct (dorev c rv); eexists; reflexivity.
    + split; [reflexivity|]. unfold derive in D. destruct m as [b|n]; [discriminate|].
      destruct (n =? 0) eqn:E; [|discriminate]. apply Z.eqb_eq in E. subst n. injection D as <-. auto.
Qed.

(* ------------------------------------------------------------------ history *)
Lemma obj_call_cols p cl o c' : o_cols (fst (obj_call p cl o c')) = o_cols o.
Proof.
  unfold obj_call. destruct (dohist_into p (o_cols o) _ c'); [|reflexivity].
  destruct (calc_stats_dict p (o_cols o) a); reflexivity.
Qed.

Lemma obj_run_cols p cl cls : forall o, o_cols (obj_run p cl o cls) = o_cols o.
Proof.
  induction cls as [|c' t IH]; intro o; [reflexivity|]. cbn [obj_run]. rewrite IH. apply obj_call_cols.
Qed.

(* whatever was done with the object before — any sequence of binsize / nbin / nperbin calls with
   any options, successful or not — the next call answers exactly like a fresh Binner of the same
   data *)
Theorem history_irrelevant p c cls cl :
  snd (obj_call p true (obj_run p true (obj_new c) cls) cl) = fresh_answer p c cl.
Proof.
  unfold fresh_answer, obj_call. rewrite obj_run_cols. cbn [obj_new o_cols].
  destruct (dohist_into p c d_empty cl); [|reflexivity].
  destruct (calc_stats_dict p c a); reflexivity.
Qed.

(* the cached sort index is the stable argsort of the data, whatever the history *)
Theorem sortcache_invariant p cl cls c :
  o_sortcache (obj_run p cl (obj_new c) cls) = None
  \/ o_sortcache (obj_run p cl (obj_new c) cls) = Some (argsort (c_x c)).
Proof.
  assert (G : forall o, o_cols o = c ->
            (o_sortcache o = None \/ o_sortcache o = Some (argsort (c_x c))) ->
            o_sortcache (obj_run p cl o cls) = None \/ o_sortcache (obj_run p cl o cls) = Some (argsort (c_x c))).
  { induction cls as [|c' t IH]; intros o Hc Hs; [exact Hs|]. cbn [obj_run]. apply IH.
    - rewrite obj_call_cols. exact Hc.
    - right. unfold obj_call. rewrite Hc.
      assert (E : match o_sortcache o with Some s => s | None => argsort (c_x c) end = argsort (c_x c))
        by (destruct Hs as [-> | ->]; reflexivity).
      rewrite E. destruct (dohist_into p c _ c'); [|reflexivity].
      destruct (calc_stats_dict p c a); reflexivity. }
  apply G; [reflexivity | left; reflexivity].
Qed.

(* a fresh object's dictionary is the functional model *)
Theorem fresh_answer_binned p c rv lo hi m b :
  binner p c rv lo hi m = Ok b ->
  exists d, fresh_answer p c (CallBinned rv lo hi m) = Ok d
    /\ d_hist d = Some (b_hist b) /\ d_nperbin d = None /\ d_lowhigh d = None
    /\ d_edges d = Some (b_edges b)
    /\ d_rev d = (if dorev c rv then Some (b_rev b) else None)
    /\ d_rows d = (if dorev c rv then Some (b_rows b) else None).
Proof.
  intro HB. unfold fresh_answer, obj_call. cbn [obj_new o_cols o_sortcache o_dict].
  unfold dohist_into. rewrite HB.
  unfold binner in HB. destruct (negb (same_len c)); [discriminate|].
  destruct (histogram EngC (c_x c) lo hi m) as [o|e]; [|discriminate].
  destruct (dorev c rv) eqn:DR; injection HB as <-; cbn [b_hist b_rev b_edges b_rows];
    unfold calc_stats_dict; cbn [d_hist d_nperbin d_binspec d_rev d_empty d_lowhigh d_edges d_rows snd];
    eexists; (split; [reflexivity|]); cbn [d_hist d_nperbin d_binspec d_rev d_lowhigh d_edges d_rows];
    repeat split; reflexivity.
Qed.

Theorem fresh_answer_num p c lo hi k merge n :
  binner_num p c lo hi k merge = Ok n ->
  exists d, fresh_answer p c (CallNum lo hi k merge) = Ok d
    /\ d_hist d = Some (n_hist n) /\ d_rev d = Some (n_rev n) /\ d_nperbin d = Some k
    /\ d_lowhigh d = Some (n_low n, n_high n) /\ d_edges d = None
    /\ d_rows d = Some (n_rows n).
Proof.
  intro HB. unfold fresh_answer, obj_call. cbn [obj_new o_cols o_sortcache o_dict].
  unfold dohist_into. rewrite HB. unfold calc_stats_dict.
  cbn [d_hist d_nperbin d_binspec d_rev d_empty d_lowhigh d_edges d_rows snd].
  eexists. split; [reflexivity|]. cbn [d_hist d_nperbin d_binspec d_rev d_lowhigh d_edges d_rows].
  assert (E : calc_rows p c (Z.of_nat (length (n_hist n))) (n_rev n) = n_rows n).
  { unfold binner_num in HB. destruct (negb (same_len c)); [discriminate|].
    destruct (limits (c_x c) (argsort (c_x c)) lo hi) as [[[dmin dmax] w]|e]; [|discriminate].
    destruct (k <? 1); [discriminate|].
    destruct (hist_by_num (c_x c) w k merge) as [[[hist rev] low] high]. injection HB as <-. reflexivity. }
  rewrite E. repeat split; reflexivity.
Qed.

(* what the clearing is for: an object that forgets self.clear() answers a binsize call after an
   nperbin call with the stale nperbin key — no edges and centres at all — unlike a fresh object *)
Theorem no_clear_refuted :
  let c := mkCols [5; 1; 4; 2; 3; 9; 7]%float None None in
  let cl1 := CallNum None None 3 true in
  let cl2 := CallBinned true None None (ByBinsize 2%float) in
  (exists d, snd (obj_call true false (fst (obj_call true false (obj_new c) cl1)) cl2) = Ok d
             /\ d_edges d = None /\ d_nperbin d = Some 3 /\ d_hist d = Some [2; 2; 1; 1; 1])
  /\ (exists d, fresh_answer true c cl2 = Ok d /\ d_nperbin d = None
                /\ exists e, d_edges d = Some e /\ length e = 5%nat).
Proof.
  split; eexists; (split; [vm_compute; reflexivity|]); vm_compute; repeat split.
  eexists. split; reflexivity.
Qed.

(* C14 — the bin number that _hist_by_num computes in binary64, np.int64((i - 0)/float(nperbin)),
   IS the integer quotient i / nperbin for all 0 <= i < 2^53 and 1 <= nperbin < 2^53 (Flocq: correct
   rounding of the division + its relative error bound).  This replaces the per-(n, nperbin)
   monitor of the harness by a theorem. *)
From Coq Require Import ZArith Reals Lia Lra List Bool.
From Coq Require Import PrimFloat FloatOps SpecFloat Uint63.
From Flocq Require Import Core.Core IEEE754.BinarySingleNaN Relative.
Require Flocq.IEEE754.PrimFloat.
From EsVerif.Common Require Import Base.
From EsVerif.C05 Require Import Model Spec FloatFacts.
From EsVerif.C14 Require Model Exec.
Module M14 := EsVerif.C14.Model.
Module FP := Flocq.IEEE754.PrimFloat.
Local Existing Instance FP.Hprec.
Local Existing Instance FP.Hmax.
Local Open Scope R_scope.

Definition two53 : Z := 9007199254740992%Z.

Lemma fmt_int z : (Z.abs z < two53)%Z -> generic_format radix2 (fexp prec emax) (IZR z).
Proof.
  intro H. apply generic_format_FLT. exists (Float radix2 z 0).
  - unfold F2R, Fnum, Fexp. simpl bpow. lra.
  - exact H.
  - unfold emin. simpl. lia.
Qed.

Lemma rnd_int z : (Z.abs z < two53)%Z -> rnd (IZR z) = IZR z.
Proof. intro H. apply round_generic; [typeclasses eauto | apply fmt_int; exact H]. Qed.

Lemma IZR_lt_bpow z e : (Z.abs z < two53)%Z -> (53 <= e)%Z -> Rabs (IZR z) < bpow radix2 e.
Proof.
  intros H He. rewrite <- abs_IZR. apply Rlt_le_trans with (bpow radix2 53).
  - change (bpow radix2 53) with (IZR (Zpower radix2 53)). apply IZR_lt. exact H.
  - apply bpow_le. exact He.
Qed.

Lemma float_of_Z_exact z : (0 <= z < two53)%Z ->
  finite_f (float_of_Z z) = true /\ rv (float_of_Z z) = IZR z.
Proof.
  intro H. unfold float_of_Z. rewrite finite_f_B. unfold rv. rewrite FP.of_int63_equiv.
  assert (E : Uint63.to_Z (Uint63.of_Z z) = z).
  { rewrite Uint63.of_Z_spec. apply Z.mod_small. unfold two53 in H. unfold Uint63.wB. simpl. lia. }
  rewrite E.
  generalize (binary_normalize_correct prec emax FP.Hprec FP.Hmax mode_NE z 0 false).
  cbv zeta.
  replace (F2R (Float radix2 z 0)) with (IZR z) by (unfold F2R, Fnum, Fexp; simpl bpow; lra).
  rewrite rnd_int by lia. rewrite Rlt_bool_true by (apply IZR_lt_bpow; [lia | unfold emax; lia]).
  intros [A [B _]]. split; assumption.
Qed.

(* the arithmetic core: rounding the real quotient of two integers below 2^53 to nearest never
   crosses the next integer *)
Lemma floor_rnd_quot i k : (1 <= i < two53)%Z -> (1 <= k < two53)%Z ->
  Zfloor (rnd (IZR i / IZR k)) = (i / k)%Z.
Proof.
  intros Hi Hk. set (q := IZR i / IZR k). set (m := (i / k)%Z).
  assert (Hkp : 0 < IZR k) by (apply IZR_lt; lia).
  assert (Hip : 0 < IZR i) by (apply IZR_lt; lia).
  pose proof (Z.div_mod i k ltac:(lia)) as DM. pose proof (Z.mod_pos_bound i k ltac:(lia)) as MB. fold m in DM.
  assert (Hm0 : (0 <= m <= i)%Z).
  { split; [apply Z.div_pos; lia|]. unfold m. apply Z.div_le_upper_bound; nia. }
  assert (Eq : q * IZR k = IZR i) by (unfold q; field; lra).
  assert (Hlo : IZR m <= q).
  { apply Rmult_le_reg_r with (IZR k); [exact Hkp|]. rewrite Eq, <- mult_IZR. apply IZR_le. nia. }
  assert (Hq : 0 < q) by (unfold q; apply Rdiv_lt_0_compat; assumption).
  apply Zfloor_imp. split.
  - rewrite <- (rnd_int m) by (unfold two53 in *; lia). apply round_le; try typeclasses eauto. exact Hlo.
  - (* relative error of round-to-nearest: |rnd q - q| <= 2^-53 q *)
    assert (RE : Rabs (rnd q - q) <= / 2 * bpow radix2 (- prec + 1) * Rabs q).
    { apply (relative_error_N_FLT radix2 (SpecFloat.emin prec emax) prec FP.Hprec (fun x => negb (Z.even x)) q).
      rewrite Rabs_pos_eq by lra.
      apply Rle_trans with (bpow radix2 (-53)).
      - apply bpow_le. unfold SpecFloat.emin, prec, emax. lia.
      - (* 2^-53 <= 1/k <= i/k *)
        apply Rmult_le_reg_r with (IZR k); [exact Hkp|]. rewrite Eq.
        apply Rle_trans with 1; [|apply IZR_le; lia].
        replace 1 with (bpow radix2 (-53) * bpow radix2 53) by (rewrite <- bpow_plus; reflexivity).
        apply Rmult_le_compat_l; [apply bpow_ge_0|].
        change (bpow radix2 53) with (IZR (Zpower radix2 53)). apply IZR_le. unfold two53 in Hk. simpl. lia. }
    rewrite (Rabs_pos_eq q) in RE by lra.
    assert (Hu : rnd q <= q + / 2 * bpow radix2 (- prec + 1) * q).
    { pose proof (Rle_abs (rnd q - q)). lra. }
    (* q * (1 + 2^-53) < m + 1  because  i * 2^-53 < 1 <= k (m+1) - i *)
    apply Rle_lt_trans with (1 := Hu).
    apply Rmult_lt_reg_r with (IZR k); [exact Hkp|].
    replace ((q + / 2 * bpow radix2 (- prec + 1) * q) * IZR k) with (IZR i + / 2 * bpow radix2 (- prec + 1) * IZR i)
      by (rewrite <- Eq; ring).
    assert (Hs : / 2 * bpow radix2 (- prec + 1) * IZR i < 1).
    { replace (/ 2 * bpow radix2 (- prec + 1)) with (bpow radix2 (-53)).
      - apply Rmult_lt_reg_l with (bpow radix2 53); [apply bpow_gt_0|].
        rewrite <- Rmult_assoc, <- bpow_plus. simpl (53 + -53)%Z. simpl (bpow radix2 0). rewrite Rmult_1_l, Rmult_1_r.
        change (bpow radix2 53) with (IZR (Zpower radix2 53)). apply IZR_lt. unfold two53 in Hi. simpl. lia.
      - unfold prec. simpl (-53 + 1)%Z. change (/ 2) with (bpow radix2 (-1)). rewrite <- bpow_plus. reflexivity. }
    rewrite <- mult_IZR.
    apply Rlt_le_trans with (IZR i + 1); [lra|]. rewrite <- plus_IZR. apply IZR_le. nia.
Qed.

Lemma quot_bounds i k : (0 <= i < two53)%Z -> (1 <= k < two53)%Z ->
  0 <= rnd (IZR i / IZR k) <= IZR i.
Proof.
  intros Hi Hk. assert (Hkp : 1 <= IZR k) by (apply IZR_le; lia). assert (Hip : 0 <= IZR i) by (apply IZR_le; lia).
  split.
  - rewrite <- rnd_0. apply round_le; try typeclasses eauto. apply Rmult_le_pos; [exact Hip|].
    left. apply Rinv_0_lt_compat. lra.
  - rewrite <- (rnd_int i) at 2 by lia. apply round_le; try typeclasses eauto.
    apply Rmult_le_reg_r with (IZR k); [lra|]. unfold Rdiv. rewrite Rmult_assoc, Rinv_l, Rmult_1_r by lra. nra.
Qed.

(* np.int64(float(i) / float(k)) = i // k *)
Theorem int_quot_exact i k : (0 <= i < two53)%Z -> (1 <= k < two53)%Z ->
  f2z_trunc (PrimFloat.div (float_of_Z i) (float_of_Z k)) = (i / k)%Z.
Proof.
  intros Hi Hk.
  destruct (float_of_Z_exact i Hi) as [Fi Ri]. destruct (float_of_Z_exact k ltac:(lia)) as [Fk Rk].
  pose proof (quot_bounds i k Hi Hk) as QB.
  set (d := PrimFloat.div (float_of_Z i) (float_of_Z k)).
  assert (D : finite_f d = true /\ rv d = rnd (IZR i / IZR k)).
  { unfold d. rewrite finite_f_B in *. unfold rv in *. rewrite FP.div_equiv.
    assert (Nz : B2R (FP.Prim2B (float_of_Z k)) <> 0) by (rewrite Rk; apply IZR_neq; lia).
    generalize (Bdiv_correct prec emax _ _ mode_NE (FP.Prim2B (float_of_Z i)) (FP.Prim2B (float_of_Z k)) Nz).
    rewrite Ri, Rk. rewrite Rlt_bool_true.
    - intros [A [B _]]. rewrite A, B. split; [exact Fi | reflexivity].
    - rewrite Rabs_pos_eq by lra. apply Rle_lt_trans with (IZR i); [lra|].
      rewrite <- (Rabs_pos_eq (IZR i)) by (apply IZR_le; lia). apply IZR_lt_bpow; [lia | unfold emax; lia]. }
  destruct D as [Fd Rd].
  assert (Hr : 0 <= rv d < IZR two63Z).
  { rewrite Rd. split; [lra|]. apply Rle_lt_trans with (IZR i); [lra|]. apply IZR_lt. unfold two63Z, two53 in *. lia. }
  destruct (trunc_floor_R d Fd Hr) as [T _]. rewrite T, Rd.
  destruct (Z.eq_dec i 0) as [->|Hne].
  - unfold Rdiv. rewrite Rmult_0_l, rnd_0. change 0 with (IZR 0). rewrite Zfloor_IZR. reflexivity.
  - apply floor_rnd_quot; lia.
Qed.

(* the same through C05's bin-number function on the float64 positions (the call _do_hist makes):
   binnum [0.0, 1.0, ..] 0.0 float(k) i = i / k *)
Theorem binnum_positions n k i : (Z.of_nat n < two53)%Z -> (1 <= k < two53)%Z -> (0 <= i < Z.of_nat n)%Z ->
  binnum (map float_of_Z (zseq 0 n)) 0%float (float_of_Z k) i = (i / k)%Z.
Proof.
  intros Hn Hk Hi. unfold binnum.
  assert (Eg : fget (map float_of_Z (zseq 0 n)) i = float_of_Z i).
  { unfold fget. rewrite (nth_indep _ nan (float_of_Z 0)).
    - rewrite map_nth. f_equal.
      assert (G : forall m s j d, (j < m)%nat -> nth j (zseq s m) d = (s + Z.of_nat j)%Z).
      { induction m as [|m IH]; intros s j d Hj; [lia|]. destruct j as [|j]; cbn [zseq nth]; [lia|].
        rewrite IH by lia. lia. }
      rewrite G by lia. lia.
    - rewrite map_length. assert (G : forall m s, length (zseq s m) = m) by (induction m; intro s; cbn; auto).
      rewrite G. lia. }
  rewrite Eg.
  destruct (float_of_Z_exact i ltac:(lia)) as [Fi Ri].
  (* float(i) - 0.0 is float(i) in value *)
  set (v := PrimFloat.sub (float_of_Z i) 0%float).
  assert (V : finite_f v = true /\ rv v = IZR i).
  { unfold v. rewrite finite_f_B in *. unfold rv in *. rewrite FP.sub_equiv.
    generalize (Bminus_correct prec emax _ _ mode_NE (FP.Prim2B (float_of_Z i)) (FP.Prim2B 0%float) Fi eq_refl).
    replace (B2R (FP.Prim2B 0%float)) with 0 by (symmetry; exact rv_zero).
    rewrite Ri, Rminus_0_r, rnd_int by lia. rewrite Rlt_bool_true by (apply IZR_lt_bpow; [lia | unfold emax; lia]).
    intros [A [B _]]. split; assumption. }
  destruct V as [Fv Rv].
  destruct (float_of_Z_exact k ltac:(lia)) as [Fk Rk].
  pose proof (quot_bounds i k ltac:(lia) Hk) as QB.
  set (d := PrimFloat.div v (float_of_Z k)).
  assert (D : finite_f d = true /\ rv d = rnd (IZR i / IZR k)).
  { unfold d. rewrite finite_f_B in *. unfold rv in *. rewrite FP.div_equiv.
    assert (Nz : B2R (FP.Prim2B (float_of_Z k)) <> 0) by (rewrite Rk; apply IZR_neq; lia).
    generalize (Bdiv_correct prec emax _ _ mode_NE (FP.Prim2B v) (FP.Prim2B (float_of_Z k)) Nz).
    rewrite Rv, Rk. rewrite Rlt_bool_true.
    - intros [A [B _]]. rewrite A, B. split; [exact Fv | reflexivity].
    - rewrite Rabs_pos_eq by lra. apply Rle_lt_trans with (IZR i); [lra|].
      rewrite <- (Rabs_pos_eq (IZR i)) by (apply IZR_le; lia). apply IZR_lt_bpow; [lia | unfold emax; lia]. }
  destruct D as [Fd Rd].
  assert (Hr : 0 <= rv d < IZR two63Z).
  { rewrite Rd. split; [lra|]. apply Rle_lt_trans with (IZR i); [lra|]. apply IZR_lt. unfold two63Z, two53 in *. lia. }
  destruct (trunc_floor_R d Fd Hr) as [T _]. rewrite T, Rd.
  destruct (Z.eq_dec i 0) as [->|Hne].
  - unfold Rdiv. rewrite Rmult_0_l, rnd_0. change 0 with (IZR 0). rewrite Zfloor_IZR. reflexivity.
  - apply floor_rnd_quot; lia.
Qed.

(* hence the monitor that the harness used to evaluate for every (n, nperbin) it explored holds for
   all sizes below 2^53: the model's  position / nperbin  and  (n-1) / nperbin + 1  ARE what the
   code computes in binary64 *)
Theorem nperbin_monitor_holds n k : (1 <= n < two53)%Z -> (1 <= k < two53)%Z ->
  EsVerif.C14.Exec.nperbin_monitor n k = true.
Proof.
  intros Hn Hk. unfold EsVerif.C14.Exec.nperbin_monitor. cbv zeta. apply andb_true_iff. split.
  - apply forallb_forall. intros i Hi.
    assert (R : (0 <= i < Z.of_nat (Z.to_nat n))%Z).
    { assert (G : forall m s j, In j (zseq s m) -> (s <= j < s + Z.of_nat m)%Z).
      { induction m as [|m IH]; intros s j H; cbn [zseq In] in H; [contradiction|].
        destruct H as [H|H]; [lia | apply IH in H; lia]. }
      apply G in Hi. lia. }
    apply Z.eqb_eq. apply binnum_positions; [lia | exact Hk | exact R].
  - apply Z.eqb_eq. rewrite int_quot_exact by lia. reflexivity.
Qed.

(* the pass depends on the bin-number function only at the indices it is given *)
Lemma c_loop_ext bn bn' nbin s : (forall j, In j s -> bn j = bn' j) ->
  forall i binold oe hist rev, c_loop bn nbin s i binold oe hist rev = c_loop bn' nbin s i binold oe hist rev.
Proof.
  induction s as [|a t IH]; intros H i binold oe hist rev; [reflexivity|].
  cbn [c_loop]. rewrite (H a (or_introl eq_refl)).
  assert (Ht : forall j, In j t -> bn j = bn' j) by (intros j Hj; apply H; right; exact Hj).
  destruct (valid_bin nbin (bn' a)); apply IH; exact Ht.
Qed.

Lemma chist_ext bn bn' nbin s : (forall j, In j s -> bn j = bn' j) -> chist bn nbin s = chist bn' nbin s.
Proof. intro H. unfold chist. rewrite (c_loop_ext bn bn' nbin s H). reflexivity. Qed.

(* the binary64 transcription of _hist_by_num is the integer model the theorems are about *)
Theorem hist_by_num_f_eq x wsort k merge :
  (1 <= k < two53)%Z -> wsort <> [] -> (Z.of_nat (length wsort) < two53)%Z ->
  M14.hist_by_num_f x wsort k merge = M14.hist_by_num x wsort k merge.
Proof.
  intros Hk Hne Hn. unfold M14.hist_by_num_f, M14.hist_by_num. cbv zeta.
  assert (Hl : (1 <= Z.of_nat (length wsort))%Z) by (destruct wsort; [contradiction | cbn [length]; lia]).
  rewrite int_quot_exact by lia.
  rewrite (chist_ext (binnum (map float_of_Z (zseq 0 (length wsort))) 0%float (float_of_Z k)) (fun i => (i / k)%Z)).
  - reflexivity.
  - intros j Hj.
    assert (G : forall m s i, In i (zseq s m) -> (s <= i < s + Z.of_nat m)%Z).
    { induction m as [|m IH]; intros s i H; cbn [zseq In] in H; [contradiction|].
      destruct H as [H|H]; [lia | apply IH in H; lia]. }
    apply G in Hj. apply binnum_positions; [exact Hn | exact Hk | lia].
Qed.

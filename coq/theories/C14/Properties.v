(* C14 — property theorems only (placeholder while the proofs are being written). *)
From Coq Require Import PrimFloat QArith.
From EsVerif.Common Require Import Base.
From EsVerif.C05 Require Import Model.
From EsVerif.C14 Require Import Model Spec.

Example C14_nonvacuous_model :
  match binner_num true (mkCols [5;1;4;2;3;9;7]%float None None) None None 3 true with
  | Ok b => n_hist b = [3; 4] /\ n_rev b = [3; 6; 10; 1; 3; 4; 2; 0; 6; 5]
  | Err _ => False
  end.
Proof. vm_compute. split; reflexivity. Qed.

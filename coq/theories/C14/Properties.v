(* C14 — property theorems only.  Bodies live in NumProofs / StatProofs / Proofs.
   Conventions (Model.v): a float is the exact rational it denotes (f2q); where the code returns
   sqrt(V) the target is V (TSqrt); "equal" means within 1e-9 of a condition-aware scale (tgt,
   Meets); members of a bin are defined on the DATA (C05.Spec.members / Spec.chunks). *)
From Coq Require Import PrimFloat QArith Qabs Sorting.Permutation.
From EsVerif.Common Require Import Base.
From EsVerif.C05 Require Import Model Spec.
From EsVerif.C14 Require Import Model Spec NumProofs StatProofs Proofs NumBinProofs NumModelProofs.

(* ------------------------------------------------------------------ members of a bin *)
(* binsize/nbin mode: slice i of the reverse indices computed by the model holds exactly the
   members of bin i (the data within the limits whose bin index is i) and hist[i] is their number
   (from C05_model_meets_spec; [contracts] are C05's decidable IEEE-order contracts, monitored). *)
Theorem C14_members_of_bin : forall x lo hi m o,
  histogram EngC x lo hi m = Ok o -> contracts x lo hi o ->
  let p := o_params o in
  Z.of_nat (length (o_hist o)) = p_nbin p
  /\ forall i, 0 <= i < p_nbin p ->
       Permutation (bin_slice (o_rev o) i) (members x lo hi (p_dmin p) (p_bsize p) i)
       /\ Z.of_nat (length (bin_slice (o_rev o) i)) = zget (o_hist o) i.
Proof. exact members_of_bin. Qed.

(* ------------------------------------------------------------------ statistics *)
(* One bin: every number the model demands for member values xs (second variable ys, weights ws,
   all weights positive) implies the textbook quantity: mean, std^2 = Sum (v-mean)^2/n,
   err^2 = std^2/n for n >= 2 (no statement for n = 1), median, whist = Sum w, weighted mean,
   weighted deviation, 1/sqrt(Sum w) and sqrt(Sum w^2 (v-m)^2)/Sum w; sentinel -9999 (whist 0)
   for the empty bin. *)
Theorem C14_row_refines_direct : forall xs ys ws, wpos ws ->
  Forall2 (fun tm td => forall f, meets f tm = true -> Meets f td)
          (row_of true xs ys ws) (row_direct xs ys ws).
Proof. exact row_ref. Qed.

(* The textbook row does not depend on the order in which the members are listed. *)
Theorem C14_row_order_irrelevant : forall c ks ks',
  same_len c = true -> inrange c ks -> Permutation ks ks' ->
  Forall2 (fun t t' => forall f, Meets f t -> Meets f t')
          (row_direct_at (qcols_of c) ks) (row_direct_at (qcols_of c) ks').
Proof. exact row_direct_at_perm. Qed.

(* Model => property, for any notion of membership: reported rows that agree with what the model
   computes from reverse indices whose slices are the members (in any order) satisfy the
   statement about the members. *)
Theorem C14_stats_of_members : forall mem nbin c rev rows,
  cols_ok c = true -> mem_inrange c mem nbin -> 0 <= nbin ->
  (forall i, 0 <= i < nbin -> Permutation (bin_slice rev i) (mem i)) ->
  rows_meet rows (calc_rows true c nbin rev) = true ->
  stats_ok mem nbin c rows.
Proof. exact stats_of_members. Qed.

(* binsize/nbin mode end to end: Binner(x, y, weights).dohist(binsize|nbin, min, max) as modelled *)
Theorem C14_stats_are_of_members : forall c rv lo hi m b o rows,
  binner true c rv lo hi m = Ok b -> dorev c rv = true -> cols_ok c = true ->
  histogram EngC (c_x c) lo hi m = Ok o -> contracts (c_x c) lo hi o ->
  rows_meet rows (b_rows b) = true ->
  let p := o_params o in
  stats_ok (members (c_x c) lo hi (p_dmin p) (p_bsize p)) (p_nbin p) c rows.
Proof. exact binned_stats_of_members. Qed.

(* The median used above is that of ANY sorted arrangement of the member values (so it does not
   depend on the sorting algorithm of the model), and the exact-rational columns are the values of
   the floats (the common-denominator representation changes no value). *)
Theorem C14_median_well_defined : forall D v s, Forall (dn D) v -> ssorted s -> Permutation s v ->
  median_q v = if Nat.even (length v) then ((qnth s (Nat.div2 (length v) - 1) + qnth s (Nat.div2 (length v))) / 2)%Q
               else qnth s (Nat.div2 (length v)).
Proof. exact median_of_sorted. Qed.

Theorem C14_column_values : forall v k, (k < length v)%nat -> (nth k (qcol v) 0 == f2q (nth k v nan))%Q.
Proof. exact qcol_value. Qed.

(* The tables that harness/props/c14_translate.py re-reads from esutil/stat/util.py on every run
   (what each key is assigned in the single-member and several-member branch; sentinel; centre
   factor) are the model, interpreted. *)
Theorem C14_tables_are_the_model :
  (forall a, ublock [a] = map (interp_single a 0%Q) single_u_table)
  /\ (forall a wa, wblock true [a] [wa] = map (interp_single a wa) single_w_table)
  /\ (forall a wa, whist_tgt true [a] [wa] = interp_single a wa single_whist)
  /\ (forall a b t, ublock (a :: b :: t) = map (interp_many (a :: b :: t) []) many_u_table)
  /\ (forall v w, wblock_many v w = map (interp_many v w) many_w_table)
  /\ (forall a b t w, whist_tgt true (a :: b :: t) w = interp_many (a :: b :: t) w many_whist)
  /\ ublock_empty = map (fun _ => TExact sentinel) single_u_table
  /\ center_factor = 0x1p-1%float.
Proof. exact tables_are_the_model. Qed.

(* ------------------------------------------------------------------ checkers *)
(* what the correspondence run evaluates on the real outputs *)
Theorem C14_binned_check_sound : forall c lo hi dmin bsize nbin es rows,
  cols_ok c = true ->
  binned_check c lo hi dmin bsize nbin es rows = true -> binned_ok c lo hi dmin bsize nbin es rows.
Proof. exact binned_check_sound. Qed.

Theorem C14_num_check_sound : forall c lo hi k merge hist rev low high rows,
  cols_ok c = true ->
  num_check c lo hi k merge hist rev low high rows = true ->
  num_ok c lo hi k merge hist rev low high rows.
Proof. exact num_check_sound. Qed.

(* ------------------------------------------------------------------ equal-occupancy bins *)
(* [chunks]: consecutive, non-empty, together the whole selection in order; every bin but the
   last holds exactly nperbin data; the last holds 1..nperbin (without merging) or fewer than
   2*nperbin (a short remainder merged into it). *)
Theorem C14_chunks_concat : forall fuel k merge l, (1 <= k)%nat -> (length l <= fuel)%nat ->
  concat (chunks fuel k merge l) = l.
Proof. intros. apply chunks_concat; assumption. Qed.

Theorem C14_chunks_sizes : forall fuel k merge l, (1 <= k)%nat -> (length l <= fuel)%nat ->
  forall i, (i < length (chunks fuel k merge l))%nat ->
    let b := nth i (chunks fuel k merge l) [] in
    if (S i <? length (chunks fuel k merge l))%nat then length b = k
    else (1 <= length b)%nat /\ (if merge then (length b < 2 * k)%nat else (length b <= k)%nat).
Proof. intros fuel k merge l Hk Hl. apply chunks_sizes; assumption. Qed.

(* The pass of _hist_by_num on the positions 0..n-1 of the selected sorted data (bin number
   position / nperbin, nbin = (n-1)/nperbin + 1, through C05's single pass): bin i holds exactly
   the consecutive positions i*k .. min((i+1)*k, n)-1, every bin but the last exactly k of them,
   the last 1..k, nothing uncounted. *)
Theorem C14_nperbin_pass : forall k n hist rev0, 1 <= k -> 1 <= n ->
  chist (fun j => j / k) ((n - 1) / k + 1) (zseq 0 (Z.to_nat n)) = (hist, rev0) ->
  let nbin := (n - 1) / k + 1 in
  Z.of_nat (length hist) = nbin
  /\ Z.of_nat (length rev0) = n + nbin + 1
  /\ skipn (Z.to_nat (nbin + 1)) rev0 = zseq 0 (Z.to_nat n)
  /\ zget rev0 nbin = Z.of_nat (length rev0)
  /\ forall i, 0 <= i < nbin ->
       nbin + 1 <= zget rev0 i <= zget rev0 (i + 1)
       /\ slice rev0 i = zseq (i * k) (Z.to_nat (Z.min n ((i + 1) * k) - i * k))
       /\ zget hist i = Z.min n ((i + 1) * k) - i * k
       /\ 1 <= zget hist i <= k
       /\ (i + 1 < nbin -> zget hist i = k).
Proof. exact nperbin_pass_slices. Qed.

(* The whole of _hist_by_num / _merge_last as modelled (pass, mapping of the slices to indices of
   the original array with low/high, merge of a short last bin): for ANY index list wsort the
   result is the chunk list of wsort — slice i of rev is chunk i, hist[i] its size, low/high the
   values of its first/last element, the index section of rev is wsort itself. *)
Theorem C14_hist_by_num_spec : forall (x : list float) (wsort : list Z) (k : Z) (merge : bool) hist rev low high,
  1 <= k -> wsort <> [] ->
  hist_by_num x wsort k merge = (hist, rev, low, high) ->
  let ch := chunks (length wsort) (Z.to_nat k) merge wsort in
  length hist = length ch /\ length low = length ch /\ length high = length ch
  /\ skipn (S (length hist)) rev = wsort
  /\ forall i, (i < length ch)%nat ->
       let b := nth i ch [] in
       b <> []
       /\ 0 <= zget rev (Z.of_nat i) /\ 0 <= zget rev (Z.of_nat i + 1)
       /\ zget rev (Z.of_nat i) <> zget rev (Z.of_nat i + 1)
       /\ slice rev (Z.of_nat i) = b
       /\ zget hist (Z.of_nat i) = Z.of_nat (length b)
       /\ nth i low nan = fget x (hd 0 b)
       /\ nth i high nan = fget x (last b 0).
Proof. exact hist_by_num_spec. Qed.

(* nperbin mode end to end: whenever the selected data come in stable sorted order (contract of
   numpy's argsort + the min/max selection; decided on every case by num_check), the modelled
   Binner(x, y, weights).dohist(nperbin=k, mergelast=) satisfies the property, statistics included. *)
Theorem C14_nperbin_spec : forall c lo hi k merge b dmin dmax wsort rows,
  binner_num true c lo hi k merge = Ok b -> cols_ok c = true -> 1 <= k ->
  limits (c_x c) (argsort (c_x c)) lo hi = Ok (dmin, dmax, wsort) ->
  ordered (c_x c) wsort -> Permutation wsort (selected c lo hi) ->
  rows_meet rows (n_rows b) = true ->
  num_ok c lo hi k merge (n_hist b) (n_rev b) (n_low b) (n_high b) rows.
Proof. exact binner_num_spec. Qed.

(* ------------------------------------------------------------------ the repaired defect *)
(* As found (util.py:410) a single-member bin stored x*w in whist: for x = 0.5, w = 2 the as-found
   rule accepts whist = 1.0, which is not the summed weight 2. *)
Theorem C14_whist_unpatched_refuted :
  exists f, meets f (whist_tgt false [1 # 2] [2 # 1]%Q) = true
            /\ ~ Meets f (TLin (Sum [2 # 1]) (Sum (map Qabs [2 # 1])))%Q.
Proof.
  exists 1%float. split; [vm_compute; reflexivity|].
  intros [_ H]. unfold Meets_q, close_lin in H. vm_compute in H. apply H. reflexivity.
Qed.

(* As found (util.py:413-414) the weighted errors of a single-member bin were the mean. *)
Theorem C14_werr_unpatched_refuted :
  exists f, meets f (nth 2 (wblock false [5 # 2] [4 # 1]%Q) TAny) = true
            /\ ~ Meets f (nth 2 (wblock_direct [5 # 2] [4 # 1]%Q) TAny).
Proof.
  exists 2.5%float. split; [vm_compute; reflexivity|].
  intros [_ H]. vm_compute in H. destruct H as [_ [_ [[H|H] _]]]; apply H; reflexivity.
Qed.

(* ------------------------------------------------------------------ non-vacuity *)
(* real outputs of the repaired code on x = [0.5,1.5,1.75,2.5], weights [2,3,4,5], binsize 1:
   the hypotheses of C14_stats_are_of_members hold and the checker accepts *)
Example C14_nonvacuous_binned :
  let c := mkCols [0.5; 1.5; 1.75; 2.5]%float None (Some [2; 3; 4; 5]%float) in
  let rows := [[0x1.0000000000000p-1; 0; 0x1.0000000000000p-1; 0x1.0000000000000p-1; 2;
                0x1.0000000000000p-1; 0; 0x1.6a09e667f3bccp-1; 0];
               [0x1.a000000000000p+0; 0x1.0000000000000p-3; 0x1.6a09e667f3bccp-4; 0x1.a000000000000p+0; 7;
                0x1.a492492492492p+0; 0x1.fabfa2e1bc555p-4; 0x1.83091e6a7f7e6p-2; 0x1.62a66ec3df170p-4];
               [2.5; 0; 2.5; 2.5; 5; 2.5; 0; 0x1.c9f25c5bfedd9p-2; 0]]%float in
  exists b o, binner true c true None None (ByBinsize 1%float) = Ok b
    /\ histogram EngC (c_x c) None None (ByBinsize 1%float) = Ok o
    /\ cols_ok c = true /\ contracts_b (c_x c) None None o = true
    /\ b_hist b = [1; 2; 1] /\ rows_meet rows (b_rows b) = true
    /\ stats_check (members (c_x c) None None 0.5%float 1%float) 3 c rows = true.
Proof.
  intros c rows. eexists. eexists. split; [vm_compute; reflexivity|].
  split; [vm_compute; reflexivity|]. vm_compute. repeat split; reflexivity.
Qed.

(* real outputs of Binner([5,1,4,2,3,9,7], y=[1..7]).dohist(nperbin=3): 7 data, bins of 3 and 3+1 *)
Example C14_nonvacuous_nperbin :
  let c := mkCols [5; 1; 4; 2; 3; 9; 7]%float (Some [1; 2; 3; 4; 5; 6; 7]%float) None in
  let rows := [[2; 0x1.a20bd700c2c3ep-1; 0x1.e2b7dddfefa67p-2; 2;
                0x1.d555555555555p+1; 0x1.3f49c0b9ad4dbp+0; 0x1.70aea090565aep-1; 4];
               [6.25; 0x1.eb97e455b9edbp+0; 0x1.eb97e455b9edbp-1; 6;
                4.25; 0x1.3142b30a929abp+1; 0x1.3142b30a929abp+0; 4.5]]%float in
  (exists b, binner_num true c None None 3 true = Ok b
     /\ n_hist b = [3; 4] /\ n_rev b = [3; 6; 10; 1; 3; 4; 2; 0; 6; 5]
     /\ rows_meet rows (n_rows b) = true)
  /\ num_check c None None 3 true [3; 4] [3; 6; 10; 1; 3; 4; 2; 0; 6; 5] [1; 4]%float [3; 9]%float rows = true
  /\ chunks 7 3 true [1; 3; 4; 2; 0; 6; 5] = [[1; 3; 4]; [2; 0; 6; 5]]
  /\ chunks 7 3 false [1; 3; 4; 2; 0; 6; 5] = [[1; 3; 4]; [2; 0; 6]; [5]].
Proof.
  intros c rows. split; [eexists; split; [vm_compute; reflexivity|]; vm_compute; repeat split; reflexivity|].
  vm_compute. repeat split; reflexivity.
Qed.

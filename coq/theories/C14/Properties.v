(* C14 — property theorems only.  Bodies live in NumProofs / StatProofs / Proofs.
   Conventions (Model.v): a float is the exact rational it denotes (f2q); where the code returns
   sqrt(V) the target is V (TSqrt); "equal" means within 1e-9 of a condition-aware scale (tgt,
   Meets); members of a bin are defined on the DATA (C05.Spec.members / Spec.chunks). *)
From Coq Require Import PrimFloat QArith Qabs Sorting.Permutation.
From EsVerif.Common Require Import Base.
From EsVerif.C05 Require Import Model Spec.
From EsVerif.C14 Require Import Model Spec NumProofs StatProofs Proofs NumBinProofs NumModelProofs FiniteProofs ApiProofs.
Require EsVerif.C14.IntQuotProofs EsVerif.C14.Exec.

(* ------------------------------------------------------------------ members of a bin *)
(* binsize/nbin mode: slice i of the reverse indices computed by the model holds exactly the
   members of bin i (the data within the limits whose bin index is i) and hist[i] is their number
   (from C05_model_meets_spec; [contracts] are C05's decidable IEEE-order contracts, monitored). *)
Theorem C14_members_of_bin : forall x lo hi m o,
  histogram EngC x lo hi m = Ok o -> contracts x lo hi o ->
  let p := o_params o in
  Z.of_nat (length (o_hist o)) = p_nbin p
  /\ forall i, 0 <= i < p_nbin p ->
       Permutation (bin_slice (o_rev o) i) (members x lo hi (p_dmin p) (p_bsize p) i)
       /\ Z.of_nat (length (bin_slice (o_rev o) i)) = zget (o_hist o) i.
Proof. exact members_of_bin. Qed.

(* ------------------------------------------------------------------ statistics *)
(* One bin: every number the model demands for member values xs (second variable ys, weights ws,
   all weights positive) implies the textbook quantity: mean, std^2 = Sum (v-mean)^2/n,
   err^2 = std^2/n for n >= 2 (no statement for n = 1), median, whist = Sum w, weighted mean,
   weighted deviation, 1/sqrt(Sum w) and sqrt(Sum w^2 (v-m)^2)/Sum w; sentinel -9999 (whist 0)
   for the empty bin. *)
Theorem C14_row_refines_direct : forall xs ys ws, wpos ws ->
  Forall2 (fun tm td => forall f, meets f tm = true -> Meets f td)
          (row_of true xs ys ws) (row_direct xs ys ws).
Proof. exact row_ref. Qed.

(* The textbook row does not depend on the order in which the members are listed. *)
Theorem C14_row_order_irrelevant : forall c ks ks',
  same_len c = true -> inrange c ks -> Permutation ks ks' ->
  Forall2 (fun t t' => forall f, Meets f t -> Meets f t')
          (row_direct_at (qcols_of c) ks) (row_direct_at (qcols_of c) ks').
Proof. exact row_direct_at_perm. Qed.

(* Model => property, for any notion of membership: reported rows that agree with what the model
   computes from reverse indices whose slices are the members (in any order) satisfy the
   statement about the members. *)
Theorem C14_stats_of_members : forall mem nbin c rev rows,
  cols_ok c = true -> mem_inrange c mem nbin -> 0 <= nbin ->
  (forall i, 0 <= i < nbin -> Permutation (bin_slice rev i) (mem i)) ->
  rows_meet rows (calc_rows true c nbin rev) = true ->
  stats_ok mem nbin c rows.
Proof. exact stats_of_members. Qed.

(* binsize/nbin mode end to end: Binner(x, y, weights).dohist(binsize|nbin, min, max) as modelled *)
Theorem C14_stats_are_of_members : forall c rv lo hi m b o rows,
  binner true c rv lo hi m = Ok b -> dorev c rv = true -> cols_ok c = true ->
  histogram EngC (c_x c) lo hi m = Ok o -> contracts (c_x c) lo hi o ->
  rows_meet rows (b_rows b) = true ->
  let p := o_params o in
  stats_ok (members (c_x c) lo hi (p_dmin p) (p_bsize p)) (p_nbin p) c rows.
Proof. exact binned_stats_of_members. Qed.

(* The median used above is that of ANY sorted arrangement of the member values (so it does not
   depend on the sorting algorithm of the model), and the exact-rational columns are the values of
   the floats (the common-denominator representation changes no value). *)
Theorem C14_median_well_defined : forall D v s, Forall (dn D) v -> ssorted s -> Permutation s v ->
  median_q v = if Nat.even (length v) then ((qnth s (Nat.div2 (length v) - 1) + qnth s (Nat.div2 (length v))) / 2)%Q
               else qnth s (Nat.div2 (length v)).
Proof. exact median_of_sorted. Qed.

Theorem C14_column_values : forall v k, (k < length v)%nat -> (nth k (qcol v) 0 == f2q (nth k v nan))%Q.
Proof. exact qcol_value. Qed.

(* The tables that harness/props/c14_translate.py re-reads from esutil/stat/util.py on every run
   (what each key is assigned in the single-member and several-member branch; sentinel; centre
   factor) are the model, interpreted. *)
Theorem C14_tables_are_the_model :
  (forall a, ublock [a] = map (interp_single a 0%Q) single_u_table)
  /\ (forall a wa, wblock true [a] [wa] = map (interp_single a wa) single_w_table)
  /\ (forall a wa, whist_tgt true [a] [wa] = interp_single a wa single_whist)
  /\ (forall a b t, ublock (a :: b :: t) = map (interp_many (a :: b :: t) []) many_u_table)
  /\ (forall v w, wblock_many v w = map (interp_many v w) many_w_table)
  /\ (forall a b t w, whist_tgt true (a :: b :: t) w = interp_many (a :: b :: t) w many_whist)
  /\ ublock_empty = map (fun _ => TExact sentinel) single_u_table
  /\ center_factor = 0x1p-1%float.
Proof. exact tables_are_the_model. Qed.

(* ------------------------------------------------------------------ checkers *)
(* what the correspondence run evaluates on the real outputs *)
Theorem C14_binned_check_sound : forall c lo hi dmin bsize nbin es rows,
  cols_ok c = true ->
  binned_check c lo hi dmin bsize nbin es rows = true -> binned_ok c lo hi dmin bsize nbin es rows.
Proof. exact binned_check_sound. Qed.

Theorem C14_num_check_sound : forall c lo hi k merge hist rev low high rows,
  cols_ok c = true ->
  num_check c lo hi k merge hist rev low high rows = true ->
  num_ok c lo hi k merge hist rev low high rows.
Proof. exact num_check_sound. Qed.

(* ------------------------------------------------------------------ equal-occupancy bins *)
(* [chunks]: consecutive, non-empty, together the whole selection in order; every bin but the
   last holds exactly nperbin data; the last holds 1..nperbin (without merging) or fewer than
   2*nperbin (a short remainder merged into it). *)
Theorem C14_chunks_concat : forall fuel k merge l, (1 <= k)%nat -> (length l <= fuel)%nat ->
  concat (chunks fuel k merge l) = l.
Proof. intros. apply chunks_concat; assumption. Qed.

Theorem C14_chunks_sizes : forall fuel k merge l, (1 <= k)%nat -> (length l <= fuel)%nat ->
  forall i, (i < length (chunks fuel k merge l))%nat ->
    let b := nth i (chunks fuel k merge l) [] in
    if (S i <? length (chunks fuel k merge l))%nat then length b = k
    else (1 <= length b)%nat /\ (if merge then (length b < 2 * k)%nat else (length b <= k)%nat).
Proof. intros fuel k merge l Hk Hl. apply chunks_sizes; assumption. Qed.

(* The pass of _hist_by_num on the positions 0..n-1 of the selected sorted data (bin number
   position / nperbin, nbin = (n-1)/nperbin + 1, through C05's single pass): bin i holds exactly
   the consecutive positions i*k .. min((i+1)*k, n)-1, every bin but the last exactly k of them,
   the last 1..k, nothing uncounted. *)
Theorem C14_nperbin_pass : forall k n hist rev0, 1 <= k -> 1 <= n ->
  chist (fun j => j / k) ((n - 1) / k + 1) (zseq 0 (Z.to_nat n)) = (hist, rev0) ->
  let nbin := (n - 1) / k + 1 in
  Z.of_nat (length hist) = nbin
  /\ Z.of_nat (length rev0) = n + nbin + 1
  /\ skipn (Z.to_nat (nbin + 1)) rev0 = zseq 0 (Z.to_nat n)
  /\ zget rev0 nbin = Z.of_nat (length rev0)
  /\ forall i, 0 <= i < nbin ->
       nbin + 1 <= zget rev0 i <= zget rev0 (i + 1)
       /\ slice rev0 i = zseq (i * k) (Z.to_nat (Z.min n ((i + 1) * k) - i * k))
       /\ zget hist i = Z.min n ((i + 1) * k) - i * k
       /\ 1 <= zget hist i <= k
       /\ (i + 1 < nbin -> zget hist i = k).
Proof. exact nperbin_pass_slices. Qed.

(* The whole of _hist_by_num / _merge_last as modelled (pass, mapping of the slices to indices of
   the original array with low/high, merge of a short last bin): for ANY index list wsort the
   result is the chunk list of wsort — slice i of rev is chunk i, hist[i] its size, low/high the
   values of its first/last element, the index section of rev is wsort itself. *)
Theorem C14_hist_by_num_spec : forall (x : list float) (wsort : list Z) (k : Z) (merge : bool) hist rev low high,
  1 <= k -> wsort <> [] ->
  hist_by_num x wsort k merge = (hist, rev, low, high) ->
  let ch := chunks (length wsort) (Z.to_nat k) merge wsort in
  length hist = length ch /\ length low = length ch /\ length high = length ch
  /\ skipn (S (length hist)) rev = wsort
  /\ forall i, (i < length ch)%nat ->
       let b := nth i ch [] in
       b <> []
       /\ 0 <= zget rev (Z.of_nat i) /\ 0 <= zget rev (Z.of_nat i + 1)
       /\ zget rev (Z.of_nat i) <> zget rev (Z.of_nat i + 1)
       /\ slice rev (Z.of_nat i) = b
       /\ zget hist (Z.of_nat i) = Z.of_nat (length b)
       /\ nth i low nan = fget x (hd 0 b)
       /\ nth i high nan = fget x (last b 0).
Proof. exact hist_by_num_spec. Qed.

(* nperbin mode end to end: whenever the selected data come in stable sorted order (contract of
   numpy's argsort + the min/max selection; decided on every case by num_check), the modelled
   Binner(x, y, weights).dohist(nperbin=k, mergelast=) satisfies the property, statistics included. *)
Theorem C14_nperbin_spec : forall c lo hi k merge b dmin dmax wsort rows,
  binner_num true c lo hi k merge = Ok b -> cols_ok c = true -> 1 <= k ->
  limits (c_x c) (argsort (c_x c)) lo hi = Ok (dmin, dmax, wsort) ->
  ordered (c_x c) wsort -> Permutation wsort (selected c lo hi) ->
  rows_meet rows (n_rows b) = true ->
  num_ok c lo hi k merge (n_hist b) (n_rev b) (n_low b) (n_high b) rows.
Proof. exact binner_num_spec. Qed.

(* ------------------------------------------------------------------ the repaired defect *)
(* As found (util.py:410) a single-member bin stored x*w in whist: for x = 0.5, w = 2 the as-found
   rule accepts whist = 1.0, which is not the summed weight 2. *)
Theorem C14_whist_unpatched_refuted :
  exists f, meets f (whist_tgt false [1 # 2] [2 # 1]%Q) = true
            /\ ~ Meets f (TLin (Sum [2 # 1]) (Sum (map Qabs [2 # 1])))%Q.
Proof.
  exists 1%float. split; [vm_compute; reflexivity|].
  intros [_ H]. unfold Meets_q, close_lin in H. vm_compute in H. apply H. reflexivity.
Qed.

(* As found (util.py:413-414) the weighted errors of a single-member bin were the mean. *)
Theorem C14_werr_unpatched_refuted :
  exists f, meets f (nth 2 (wblock false [5 # 2] [4 # 1]%Q) TAny) = true
            /\ ~ Meets f (nth 2 (wblock_direct [5 # 2] [4 # 1]%Q) TAny).
Proof.
  exists 2.5%float. split; [vm_compute; reflexivity|].
  intros [_ H]. vm_compute in H. destruct H as [_ [_ [[H|H] _]]]; apply H; reflexivity.
Qed.

(* ================================================================== proof-deepening round *)
(* ------------------------------------------------------------------ nothing monitored: finite data *)
(* The contracts of C14_stats_are_of_members / C14_nperbin_spec (stable order of the sort index,
   selection = data within the limits, truncation = floor, monotone bin numbers) are theorems for
   finite data and limits (C05's Flocq-based facts).  These two statements depend on the standard
   library's FloatAxioms and real-number axioms; everything else in this file does not. *)
Theorem C14_binned_holds_finite : forall c rv lo hi m b o rows,
  binner true c rv lo hi m = Ok b -> dorev c rv = true -> cols_ok c = true ->
  finite_opt lo = true -> finite_opt hi = true ->
  histogram EngC (c_x c) lo hi m = Ok o -> params_ok (o_params o) = true ->
  rows_meet rows (b_rows b) = true ->
  let p := o_params o in
  stats_ok (members (c_x c) lo hi (p_dmin p) (p_bsize p)) (p_nbin p) c rows.
Proof. exact binned_holds_finite. Qed.

Theorem C14_nperbin_holds_finite : forall c lo hi k merge b rows,
  binner_num true c lo hi k merge = Ok b -> cols_ok c = true ->
  finite_opt lo = true -> finite_opt hi = true -> 1 <= k ->
  rows_meet rows (n_rows b) = true ->
  num_ok c lo hi k merge (n_hist b) (n_rev b) (n_low b) (n_high b) rows.
Proof. exact nperbin_holds_finite. Qed.

(* ------------------------------------------------------------------ the call as a whole *)
(* which of binsize= / nbin= / nperbin= wins (Binner.dohist and histogram() differ) *)
Theorem C14_keyword_precedence :
  (forall h bs nb k, resolve h bs nb (Some k) = CNum k)
  /\ (forall bs n, resolve true bs (Some n) None = CMode (ByNbin n))
  /\ (forall b, resolve true (Some b) None None = CMode (ByBinsize b))
  /\ resolve true None None None = CMode (ByBinsize 1%float)
  /\ (forall b nb, resolve false (Some b) nb None = CMode (ByBinsize b))
  /\ (forall n, resolve false None (Some n) None = CMode (ByNbin n))
  /\ resolve false None None None = CNone.
Proof. exact keyword_precedence. Qed.

Theorem C14_api_dispatch : forall p h c rv lo hi bs nb k merge,
  (forall k', k = Some k' ->
     binner_api p h c rv lo hi bs nb k merge
     = match binner_num p c lo hi k' merge with Ok n => Ok (ANum n) | Err e => Err e end)
  /\ (forall m, resolve h bs nb k = CMode m ->
        binner_api p h c rv lo hi bs nb k merge
        = match binner p c rv lo hi m with Ok b => Ok (ABinned b) | Err e => Err e end)
  /\ (resolve h bs nb k = CNone -> forall a, binner_api p h c rv lo hi bs nb k merge <> Ok a).
Proof. exact api_dispatch. Qed.

(* ------------------------------------------------------------------ rejections *)
(* the min/max selection as a table: IndexError on empty data when a limit is taken from the
   data, ValueError on an empty selection, nothing else *)
Theorem C14_limits_outcome : forall x s lo hi,
  limits x s lo hi =
  match s, lo, hi with
  | [], None, _ => Err EIndex
  | [], Some _, None => Err EIndex
  | _, None, None => Ok (eff_min x s lo, eff_max x s hi, s)
  | _, _, _ =>
      match filter (fun k => within (eff_min x s lo) (eff_max x s hi) (fget x k)) s with
      | [] => Err EValue
      | w => Ok (eff_min x s lo, eff_max x s hi, w)
      end
  end.
Proof. exact limits_outcome. Qed.

(* nperbin entry: rejected exactly for columns of different lengths (ValueError), a rejected
   selection (its class), nperbin < 1 (outside the statement; the model says EOther) *)
Theorem C14_binner_num_outcome : forall p c lo hi k merge,
  (same_len c = false -> binner_num p c lo hi k merge = Err EValue)
  /\ (same_len c = true -> forall e, limits (c_x c) (argsort (c_x c)) lo hi = Err e ->
        binner_num p c lo hi k merge = Err e /\ (e = EIndex \/ e = EValue))
  /\ (same_len c = true -> forall t, limits (c_x c) (argsort (c_x c)) lo hi = Ok t ->
        if k <? 1 then binner_num p c lo hi k merge = Err EOther
        else exists b, binner_num p c lo hi k merge = Ok b).
Proof. exact binner_num_outcome. Qed.

(* binsize/nbin entry: additionally nbin = 0 (ZeroDivisionError) and a negative number of bins
   (np.zeros) *)
Theorem C14_binner_outcome : forall p c rv lo hi m,
  (same_len c = false -> binner p c rv lo hi m = Err EValue)
  /\ (same_len c = true -> forall e, limits (c_x c) (argsort (c_x c)) lo hi = Err e ->
        binner p c rv lo hi m = Err e /\ (e = EIndex \/ e = EValue))
  /\ (same_len c = true -> forall dmin dmax w, limits (c_x c) (argsort (c_x c)) lo hi = Ok (dmin, dmax, w) ->
        match derive dmin dmax m with
        | Err e => binner p c rv lo hi m = Err e /\ m = ByNbin 0 /\ e = EOther
        | Ok (bs, nbin) =>
            if nbin <? 0 then binner p c rv lo hi m = Err EValue
            else exists b, binner p c rv lo hi m = Ok b
        end).
Proof. exact binner_outcome. Qed.

(* ------------------------------------------------------------------ history *)
(* The Binner object as a step function on its dictionary (the keys calc_stats tests) and its
   cached sort index: after ANY sequence of calls the next call answers like a fresh Binner. *)
Theorem C14_history_irrelevant : forall p c cls cl,
  snd (obj_call p true (obj_run p true (obj_new c) cls) cl) = fresh_answer p c cl.
Proof. exact history_irrelevant. Qed.

Theorem C14_sortcache_invariant : forall p cl cls c,
  o_sortcache (obj_run p cl (obj_new c) cls) = None
  \/ o_sortcache (obj_run p cl (obj_new c) cls) = Some (argsort (c_x c)).
Proof. exact sortcache_invariant. Qed.

(* ... and the fresh answer is the functional model the other theorems are about *)
Theorem C14_fresh_answer_binned : forall p c rv lo hi m b,
  binner p c rv lo hi m = Ok b ->
  exists d, fresh_answer p c (CallBinned rv lo hi m) = Ok d
    /\ d_hist d = Some (b_hist b) /\ d_nperbin d = None /\ d_lowhigh d = None
    /\ d_edges d = Some (b_edges b)
    /\ d_rev d = (if dorev c rv then Some (b_rev b) else None)
    /\ d_rows d = (if dorev c rv then Some (b_rows b) else None).
Proof. exact fresh_answer_binned. Qed.

Theorem C14_fresh_answer_num : forall p c lo hi k merge n,
  binner_num p c lo hi k merge = Ok n ->
  exists d, fresh_answer p c (CallNum lo hi k merge) = Ok d
    /\ d_hist d = Some (n_hist n) /\ d_rev d = Some (n_rev n) /\ d_nperbin d = Some k
    /\ d_lowhigh d = Some (n_low n, n_high n) /\ d_edges d = None
    /\ d_rows d = Some (n_rows n).
Proof. exact fresh_answer_num. Qed.

(* what self.clear() is for (the mechanism of seeded change C14-e): without it a binsize call after
   an nperbin call keeps the stale nperbin key and reports no edges or centres *)
Theorem C14_no_clear_refuted :
  let c := mkCols [5; 1; 4; 2; 3; 9; 7]%float None None in
  let cl1 := CallNum None None 3 true in
  let cl2 := CallBinned true None None (ByBinsize 2%float) in
  (exists d, snd (obj_call true false (fst (obj_call true false (obj_new c) cl1)) cl2) = Ok d
             /\ d_edges d = None /\ d_nperbin d = Some 3 /\ d_hist d = Some [2; 2; 1; 1; 1])
  /\ (exists d, fresh_answer true c cl2 = Ok d /\ d_nperbin d = None
                /\ exists e, d_edges d = Some e /\ length e = 5%nat).
Proof. exact no_clear_refuted. Qed.

(* the comparison of a reported float with a target is decided exactly (sound AND complete) *)
Theorem C14_meets_iff : forall f t, meets f t = true <-> Meets f t.
Proof. exact meets_iff. Qed.

(* every call form (any combination of the three keywords, Binner or histogram()): an accepted call on
   finite data satisfies the property of the binning mode that wins *)
Theorem C14_api_holds_finite : forall h c rv lo hi bs nb k merge a rows,
  binner_api true h c rv lo hi bs nb k merge = Ok a -> cols_ok c = true ->
  finite_opt lo = true -> finite_opt hi = true ->
  match a with
  | ANum n => exists k', resolve h bs nb k = CNum k' /\
      (1 <= k' -> rows_meet rows (n_rows n) = true ->
       num_ok c lo hi k' merge (n_hist n) (n_rev n) (n_low n) (n_high n) rows)
  | ABinned b => exists m, resolve h bs nb k = CMode m /\
      (dorev c rv = true -> forall o, histogram EngC (c_x c) lo hi m = Ok o -> params_ok (o_params o) = true ->
       rows_meet rows (b_rows b) = true ->
       stats_ok (members (c_x c) lo hi (p_dmin (o_params o)) (p_bsize (o_params o))) (p_nbin (o_params o)) c rows)
  end.
Proof. exact api_holds_finite. Qed.

(* a Binner that has been through ANY sequence of calls answers the next accepted call on finite data
   with a dictionary that satisfies the property and carries exactly the keys of that binning mode *)
Theorem C14_object_holds_finite : forall c cls cl d,
  snd (obj_call true true (obj_run true true (obj_new c) cls) cl) = Ok d -> cols_ok c = true ->
  match cl with
  | CallNum lo hi k merge =>
      finite_opt lo = true -> finite_opt hi = true -> 1 <= k ->
      exists hist rev low high rowsT,
        d_hist d = Some hist /\ d_rev d = Some rev /\ d_lowhigh d = Some (low, high) /\ d_rows d = Some rowsT
        /\ d_nperbin d = Some k /\ d_edges d = None
        /\ forall rows, rows_meet rows rowsT = true -> num_ok c lo hi k merge hist rev low high rows
  | CallBinned rv lo hi m =>
      finite_opt lo = true -> finite_opt hi = true -> dorev c rv = true ->
      forall o, histogram EngC (c_x c) lo hi m = Ok o -> params_ok (o_params o) = true ->
      exists rowsT, d_rows d = Some rowsT /\ d_nperbin d = None /\ d_lowhigh d = None
        /\ d_edges d = Some (edges (p_dmin (o_params o)) (p_bsize (o_params o)) (Z.of_nat (length (o_hist o))))
        /\ forall rows, rows_meet rows rowsT = true ->
             stats_ok (members (c_x c) lo hi (p_dmin (o_params o)) (p_bsize (o_params o))) (p_nbin (o_params o)) c rows
  end.
Proof. exact object_holds_finite. Qed.

(* exactly which selections are rejected, stated on the DATA (finite): IndexError for empty data when a
   limit has to be taken from them, ValueError when no datum lies within the limits, otherwise the
   selection is the data within the limits in stable sorted order *)
Theorem C14_selection_outcome : forall x lo hi, forallb finite_f x = true ->
  let sel := filter (fun k => in_limits lo hi (fget x k)) (argsort x) in
  match x, lo, hi with
  | [], None, _ => limits x (argsort x) lo hi = Err EIndex
  | [], Some _, None => limits x (argsort x) lo hi = Err EIndex
  | _, _, _ =>
      match sel with
      | [] => limits x (argsort x) lo hi = Err EValue
      | _ => limits x (argsort x) lo hi = Ok (eff_min x (argsort x) lo, eff_max x (argsort x) hi, sel)
      end
  end.
Proof. exact selection_outcome. Qed.

(* ------------------------------------------------------------------ the binary64 bin number of a position *)
(* np.int64(float(i) / float(k)) = i // k for ALL 0 <= i < 2^53, 1 <= k < 2^53 (correct rounding of the
   division + its relative error bound, Flocq): the model's integer quotient is what _do_hist computes.
   Replaces the monitor that the harness evaluated for every (n, nperbin) it explored. *)
Theorem C14_int_quotient_exact : forall i k,
  0 <= i < 9007199254740992 -> 1 <= k < 9007199254740992 ->
  f2z_trunc (PrimFloat.div (float_of_Z i) (float_of_Z k)) = i / k.
Proof. exact IntQuotProofs.int_quot_exact. Qed.

Theorem C14_binnum_positions : forall n k i,
  Z.of_nat n < 9007199254740992 -> 1 <= k < 9007199254740992 -> 0 <= i < Z.of_nat n ->
  binnum (map float_of_Z (zseq 0 n)) 0%float (float_of_Z k) i = i / k.
Proof. exact IntQuotProofs.binnum_positions. Qed.

Theorem C14_nperbin_monitor_holds : forall n k,
  1 <= n < 9007199254740992 -> 1 <= k < 9007199254740992 -> Exec.nperbin_monitor n k = true.
Proof. exact IntQuotProofs.nperbin_monitor_holds. Qed.

(* the literal binary64 transcription of _hist_by_num (float positions, float(nperbin), nbin from the
   float quotient, C05's bit-exact bin numbers) is the integer model of C14_hist_by_num_spec *)
Theorem C14_hist_by_num_float_model : forall x wsort k merge,
  1 <= k < 9007199254740992 -> wsort <> [] -> Z.of_nat (length wsort) < 9007199254740992 ->
  hist_by_num_f x wsort k merge = hist_by_num x wsort k merge.
Proof. exact IntQuotProofs.hist_by_num_f_eq. Qed.

Example C14_nonvacuous_quotient :
  Exec.nperbin_monitor 100 49 = true
  /\ hist_by_num_f [5; 1; 4; 2; 3; 9; 7]%float [1; 3; 4; 2; 0; 6; 5] 3 true
     = ([3; 4], [3; 6; 10; 1; 3; 4; 2; 0; 6; 5], [1; 4]%float, [3; 9]%float).
Proof. split; vm_compute; reflexivity. Qed.

(* what the statistics checker decides, exactly: every reported row meets the targets of the model's
   per-bin function on the members taken from the data *)
Theorem C14_stats_check_exact : forall mem nbin c rows,
  stats_check mem nbin c rows = true <->
  (Z.of_nat (length rows) = nbin
   /\ forall i, 0 <= i < nbin -> Forall2 Meets (nth (Z.to_nat i) rows []) (row_at true (qcols_of c) (mem i))).
Proof. exact stats_check_exact. Qed.

(* ================================================================== round 6: tie and residual items *)
(* The control skeleton that harness/props/c14_translate.py translates out of util.py on every run
   (keyword order, histogram's default bin size and its nbin override, the three sources of rev,
   self.clear(), the edge expressions, the key tests of calc_stats, the single-member and merge
   thresholds, every exception class) determines the model's functions. *)
Theorem C14_skeleton_is_the_model :
  (forall h bs nb k, resolve_sk model_skel h bs nb k = resolve h bs nb k)
  /\ (forall c rv, dorev_sk model_skel c rv = dorev c rv)
  /\ (forall dmin bs nhist, edges_sk model_skel dmin bs nhist = edges dmin bs nhist)
  /\ (forall p o cl, obj_call p (sk_clear_first model_skel) o cl = obj_call p true o cl)
  /\ (forall hist rev low high, Z.of_nat (length hist) < sk_merge_min model_skel ->
        merge_last hist rev low high = (hist, rev, low, high))
  /\ (forall v, Z.of_nat (length v) = sk_single_size model_skel ->
        exists a, v = [a] /\ ublock v = map (interp_single a 0%Q) single_u_table)
  /\ (forall p h c rv lo hi bs nb k merge t, resolve h bs nb k = CNone -> same_len c = true ->
        limits (c_x c) (argsort (c_x c)) lo hi = Ok t ->
        binner_api p h c rv lo hi bs nb k merge = Err (sk_none_error model_skel))
  /\ (forall p c lo hi k merge, same_len c = false -> binner_num p c lo hi k merge = Err (fst (sk_len_errors model_skel)))
  /\ (forall p c d, d_hist d = None -> calc_stats_dict p c d = Err (sk_no_hist_error model_skel)).
Proof. exact skeleton_is_the_model. Qed.

(* the edge checker is exact, like the statistics checker *)
Theorem C14_edges_check_exact : forall dmin bsize nbin es,
  edges_check dmin bsize nbin es = true <-> edges_ok dmin bsize nbin es.
Proof. exact edges_check_exact. Qed.

(* option path rev=: statistics and reverse indices exist exactly when rev is asked for or y / weights
   were given; otherwise only hist and edges; one row and one edge triple per bin *)
Theorem C14_binner_shape : forall p c rv lo hi m b,
  binner p c rv lo hi m = Ok b ->
  length (b_edges b) = length (b_hist b)
  /\ (if dorev c rv then length (b_rows b) = length (b_hist b) else b_rows b = [] /\ b_rev b = []).
Proof. exact binner_shape. Qed.

(* non-vacuity of the new statements: finite data with a sane bin specification; one input of
   every rejection class; a history with a failing call in it *)
Example C14_nonvacuous_deepening :
  let c := mkCols [0.5; 1.5; 1.75; 2.5]%float None (Some [2; 3; 4; 5]%float) in
  (exists o, histogram EngC (c_x c) None None (ByBinsize 1%float) = Ok o /\ params_ok (o_params o) = true
             /\ cols_ok c = true /\ finite_opt (Some 0.5%float) = true)
  /\ same_len (mkCols [1; 2]%float (Some [1]%float) None) = false
  /\ limits [] (argsort []) None None = Err EIndex
  /\ limits [1; 2]%float (argsort [1; 2]%float) (Some 5%float) None = Err EValue
  /\ binner_num true c None None 0 true = Err EOther
  /\ binner true c true None None (ByNbin 0) = Err EOther
  /\ binner true c true None None (ByNbin (-1)) = Err EValue
  /\ (exists a, binner_api true true c true None None None None None true = Ok a)
  /\ binner_api true false c true None None None None None true = Err EValue
  /\ (exists d, snd (obj_call true true
                       (obj_run true true (obj_new c)
                          [CallNum None None 2 true; CallBinned true (Some 9%float) None (ByNbin 2); CallNum None None 0 false])
                       (CallBinned false None None (ByNbin 2))) = Ok d /\ d_nperbin d = None /\ d_hist d = Some [1; 2]).
Proof.
  intro c. split; [eexists; split; [vm_compute; reflexivity|]; vm_compute; repeat split; reflexivity|].
  repeat split; try (vm_compute; reflexivity); eexists; vm_compute; repeat split; reflexivity.
Qed.

(* ------------------------------------------------------------------ non-vacuity *)
(* real outputs of the repaired code on x = [0.5,1.5,1.75,2.5], weights [2,3,4,5], binsize 1:
   the hypotheses of C14_stats_are_of_members hold and the checker accepts *)
Example C14_nonvacuous_binned :
  let c := mkCols [0.5; 1.5; 1.75; 2.5]%float None (Some [2; 3; 4; 5]%float) in
  let rows := [[0x1.0000000000000p-1; 0; 0x1.0000000000000p-1; 0x1.0000000000000p-1; 2;
                0x1.0000000000000p-1; 0; 0x1.6a09e667f3bccp-1; 0];
               [0x1.a000000000000p+0; 0x1.0000000000000p-3; 0x1.6a09e667f3bccp-4; 0x1.a000000000000p+0; 7;
                0x1.a492492492492p+0; 0x1.fabfa2e1bc555p-4; 0x1.83091e6a7f7e6p-2; 0x1.62a66ec3df170p-4];
               [2.5; 0; 2.5; 2.5; 5; 2.5; 0; 0x1.c9f25c5bfedd9p-2; 0]]%float in
  exists b o, binner true c true None None (ByBinsize 1%float) = Ok b
    /\ histogram EngC (c_x c) None None (ByBinsize 1%float) = Ok o
    /\ cols_ok c = true /\ contracts_b (c_x c) None None o = true
    /\ b_hist b = [1; 2; 1] /\ rows_meet rows (b_rows b) = true
    /\ stats_check (members (c_x c) None None 0.5%float 1%float) 3 c rows = true.
Proof.
  intros c rows. eexists. eexists. split; [vm_compute; reflexivity|].
  split; [vm_compute; reflexivity|]. vm_compute. repeat split; reflexivity.
Qed.

(* real outputs of Binner([5,1,4,2,3,9,7], y=[1..7]).dohist(nperbin=3): 7 data, bins of 3 and 3+1 *)
Example C14_nonvacuous_nperbin :
  let c := mkCols [5; 1; 4; 2; 3; 9; 7]%float (Some [1; 2; 3; 4; 5; 6; 7]%float) None in
  let rows := [[2; 0x1.a20bd700c2c3ep-1; 0x1.e2b7dddfefa67p-2; 2;
                0x1.d555555555555p+1; 0x1.3f49c0b9ad4dbp+0; 0x1.70aea090565aep-1; 4];
               [6.25; 0x1.eb97e455b9edbp+0; 0x1.eb97e455b9edbp-1; 6;
                4.25; 0x1.3142b30a929abp+1; 0x1.3142b30a929abp+0; 4.5]]%float in
  (exists b, binner_num true c None None 3 true = Ok b
     /\ n_hist b = [3; 4] /\ n_rev b = [3; 6; 10; 1; 3; 4; 2; 0; 6; 5]
     /\ rows_meet rows (n_rows b) = true)
  /\ num_check c None None 3 true [3; 4] [3; 6; 10; 1; 3; 4; 2; 0; 6; 5] [1; 4]%float [3; 9]%float rows = true
  /\ chunks 7 3 true [1; 3; 4; 2; 0; 6; 5] = [[1; 3; 4]; [2; 0; 6; 5]]
  /\ chunks 7 3 false [1; 3; 4; 2; 0; 6; 5] = [[1; 3; 4]; [2; 0; 6]; [5]].
Proof.
  intros c rows. split; [eexists; split; [vm_compute; reflexivity|]; vm_compute; repeat split; reflexivity|].
  vm_compute. repeat split; reflexivity.
Qed.

(* C14 — executable model of esutil/stat/util.py Binner.calc_stats (343-477), Binner._hist_by_num /
   _merge_last (198-256) and of the option handling of Binner.dohist / histogram(more=, weights=)
   that leads to them.  NO proofs in this file.

   Layers.
   * Binning by binsize / nbin is C05's model (C05.Model.histogram: stable argsort, min/max
     selection, bit-exact binary64 bin numbers, the single pass that fills hist and rev).
   * Binning by nperbin runs the SAME pass on the positions 0..n-1 of the selected sorted data
     with bin number  position // nperbin  (the code computes np.int64((i - 0)/float(nperbin));
     Exec.nperbin_monitor checks on every case that C05's binary64 bin number is that quotient).
   * Bin edges and centres are binary64 (style F), bit exact.
   * Statistics are exact rationals (style Q, DESIGN 3.3): every float is the rational it denotes
     (f2q), sums are exact, where the code returns sqrt(V) the model returns V.  The model says
     what each reported number has to be by a target [tgt]; [meets] compares a float with it.
   * The weighted block is C18's wmom1 (wmom(x[w], weights[w], sdev=True) and (..., calcerr=True)).

   The model describes the code AFTER fixes/C14 (single-member bins: whist = the weight, weighted
   errors = those wmom gives for one datum).  [Unpatched] keeps the as-found single-member rule. *)
From Coq Require Import PrimFloat Uint63 FloatOps SpecFloat QArith Qabs.
From EsVerif.Common Require Import Base.
From EsVerif.C18 Require Model.
From EsVerif.C05 Require Import Model Spec.

Module W := EsVerif.C18.Model.

(* ------------------------------------------------------------------ floats as rationals *)
Definition is_finite (f : float) : bool :=
  match Prim2SF f with
  | S754_zero _ | S754_finite _ _ _ => true
  | _ => false
  end.

(* The exact value of a float over the denominator 2^(-E), for E <= min(0, its exponent).  A whole
   column is converted over ONE denominator (qcol), so that exact sums need no gcd and equal
   values are equal terms. *)
Definition fexp (f : float) : Z :=
  match Prim2SF f with S754_finite _ _ e => e | _ => 0 end.

Definition den_of (E : Z) : positive := if E <? 0 then Pos.pow 2 (Z.to_pos (- E)) else 1%positive.

Definition f2q_at (E : Z) (f : float) : Q :=
  match Prim2SF f with
  | S754_finite s m e => Qmake ((if s then Z.neg m else Z.pos m) * 2 ^ (e - E)) (den_of E)
  | _ => Qmake 0 (den_of E)
  end.

Definition f2q (f : float) : Q := f2q_at (Z.min 0 (fexp f)) f.

Definition emin (v : list float) : Z := fold_right (fun f a => Z.min (fexp f) a) 0 v.
Definition qcol (v : list float) : list Q := let E := emin v in map (f2q_at E) v.

Definition vals (qc : list Q) (ks : list Z) : list Q := map (fun k => nth (Z.to_nat k) qc 0%Q) ks.

(* ------------------------------------------------------------------ targets *)
(* relative tolerance against the condition-aware scale A of a target.  A two-pass float64 evaluation of
   n <= ~5000 terms is within ~n * 1.1e-16 * A of the exact value; 1e-12 leaves a factor >= 2 at n = 5000
   and rejects cancelling one-pass formulas (error ~ 1e-16 * A^2/sigma) as soon as A/sigma > 1e4.
   (1e-9 until the third follow-up round.) *)
Definition eps_tol : Q := (1 # 1000000000000)%Q.

Inductive tgt :=
| TAny                      (* no statement (the standard error of a single-member bin) *)
| TExact (q : Q)            (* the reported float denotes exactly q: sentinels, copies of data, 0 *)
| TLin (q A : Q)            (* |reported - q| <= eps_tol * A *)
| TSqrt (V A : Q).          (* reported = sqrt V up to eps_tol * (reported + A), decided on squares *)

Definition close_lin_b (y v tol : Q) : bool := Qle_bool (Qabs (y - v)) tol.

(* 0 <= s and max(0, s - tol)^2 <= V <= (s + tol)^2 *)
Definition close_sqrt_b (s V tol : Q) : bool :=
  Qle_bool 0 s && Qle_bool 0 tol && (Qle_bool s tol || Qle_bool ((s - tol) * (s - tol)) V)
  && Qle_bool V ((s + tol) * (s + tol)).

Definition meets_q (y : Q) (t : tgt) : bool :=
  match t with
  | TAny => true
  | TExact q => Qeq_bool y q
  | TLin q A => close_lin_b y q (eps_tol * A)
  | TSqrt V A => close_sqrt_b y V (eps_tol * (y + A))
  end.

Definition meets (f : float) (t : tgt) : bool :=
  match t with
  | TAny => true
  | _ => is_finite f && meets_q (f2q f) t
  end.

Fixpoint forallb2 {A B} (p : A -> B -> bool) (a : list A) (b : list B) : bool :=
  match a, b with
  | [], [] => true
  | x :: s, y :: t => p x y && forallb2 p s t
  | _, _ => false
  end.

Definition row_meets (r : list float) (t : list tgt) : bool := forallb2 meets r t.
Definition rows_meet (rs : list (list float)) (ts : list (list tgt)) : bool := forallb2 row_meets rs ts.

(* ------------------------------------------------------------------ reductions *)
Definition qn {A} (l : list A) : Q := inject_Z (Z.of_nat (length l)).
Definition qabsmean (v : list Q) : Q := (W.qsum (map Qabs v) / qn v)%Q.

(* x[w].mean() *)
Definition mean_q (v : list Q) : Q := Qred (W.qsum v / qn v).
(* x[w].std() ** 2   (numpy: ddof = 0) *)
Definition var_q (v : list Q) : Q :=
  let m := mean_q v in Qred (W.qsum (map (W.dev2 m) v) / qn v).

(* np.median: sort, middle element or the mean of the two middle elements *)
Fixpoint insert_q (a : Q) (l : list Q) : list Q :=
  match l with
  | [] => [a]
  | b :: t => if Qle_bool a b then a :: l else b :: insert_q a t
  end.
Definition isort_q (l : list Q) : list Q := fold_right insert_q [] l.
Definition qnth (l : list Q) (k : nat) : Q := nth k l 0%Q.
Definition median_q (v : list Q) : Q :=
  let s := isort_q v in
  let n := length v in
  if Nat.even n then ((qnth s (Nat.div2 n - 1) + qnth s (Nat.div2 n)) / 2)%Q
  else qnth s (Nat.div2 n).

(* ------------------------------------------------------------------ one bin (util.py:394-455) *)
Definition sentinel : Q := (-9999)%Q.

(* keys [mean; std; err; median] of one variable *)
Definition ublock_empty : list tgt := [TExact sentinel; TExact sentinel; TExact sentinel; TExact sentinel].

Definition ublock (v : list Q) : list tgt :=
  match v with
  | [a] => [TExact a; TExact 0; TExact a; TExact a]     (* 398-407: err = mean, as the code has it *)
  | _ =>
      let A := qabsmean v in
      let V := var_q v in
      [TLin (mean_q v) A; TSqrt V A; TSqrt (V / qn v) A; TLin (median_q v) A]
  end.

(* keys [wmean; wstd; werr; werr2] of one variable, weights w *)
Definition wblock_empty : list tgt := ublock_empty.

Definition wabsmean (v w : list Q) : Q :=
  (W.qsum (W.map2 (fun wi xi => Qabs (wi * xi)) w v) / W.qsum w)%Q.

Definition wblock_many (v w : list Q) : list tgt :=
  let r1 := W.wmom1 v w None false true in      (* wm, we, ws = wmom(x[w], weights[w], sdev=True) *)
  let r2 := W.wmom1 v w None true false in      (* j1, we2   = wmom(x[w], weights[w], calcerr=True) *)
  let A := wabsmean v w in
  [TLin (W.m_mean r1) A;
   TSqrt (match W.m_var r1 with Some s => s | None => 0 end) A;
   TSqrt (W.m_err2 r1) 0;
   TSqrt (W.m_err2 r2) A].

Definition wblock (patched : bool) (v w : list Q) : list tgt :=
  match v, w with
  | [a], [wa] =>
      if patched
      then [TExact a; TExact 0; TSqrt (1 / wa) 0; TExact 0]   (* fixes/C14: what wmom gives for one datum *)
      else [TExact a; TExact 0; TExact a; TExact a]           (* as found, 411-414 *)
  | _, _ => wblock_many v w
  end.

Definition whist_tgt (patched : bool) (x w : list Q) : tgt :=
  match x, w with
  | [a], [wa] => if patched then TExact wa else TLin (a * wa) (Qabs (a * wa))   (* as found, 410 *)
  | _, _ => TLin (W.qsum w) (W.qsum (map Qabs w))                                (* 433 *)
  end.

(* the data columns of a Binner *)
Record cols := mkCols { c_x : list float; c_y : option (list float); c_w : option (list float) }.

(* ... converted once *)
Record qcols := mkQ { q_x : list Q; q_y : option (list Q); q_w : option (list Q) }.
Definition ocol (o : option (list float)) : option (list Q) :=
  match o with Some v => Some (qcol v) | None => None end.
Definition qcols_of (c : cols) : qcols := mkQ (qcol (c_x c)) (ocol (c_y c)) (ocol (c_w c)).

Definition ovals (o : option (list Q)) (ks : list Z) : option (list Q) :=
  match o with Some v => Some (vals v ks) | None => None end.

(* one row: x-block, y-block, whist, weighted x-block, weighted y-block — the keys
   mean std err median | ymean ystd yerr ymedian | whist | wmean wstd werr werr2 | wymean ... wyerr2
   (with a second variable the x keys carry the prefix x; the driver reads them by name) *)
Definition row_of (patched : bool) (xs : list Q) (ys ws : option (list Q)) : list tgt :=
  match xs with
  | [] =>
      ublock_empty ++ (match ys with Some _ => ublock_empty | None => [] end)
      ++ (match ws with
          | Some _ => [TExact 0] ++ wblock_empty ++ (match ys with Some _ => wblock_empty | None => [] end)
          | None => []
          end)
  | _ =>
      ublock xs ++ (match ys with Some y => ublock y | None => [] end)
      ++ (match ws with
          | Some w => [whist_tgt patched xs w] ++ wblock patched xs w
                      ++ (match ys with Some y => wblock patched y w | None => [] end)
          | None => []
          end)
  end.

Definition row_at (patched : bool) (qc : qcols) (ks : list Z) : list tgt :=
  row_of patched (vals (q_x qc) ks) (ovals (q_y qc) ks) (ovals (q_w qc) ks).

(* for i in range(nhist): if rev[i] != rev[i+1]: w = rev[rev[i]:rev[i+1]] ... *)
Definition bin_slice (rev : list Z) (i : Z) : list Z :=
  if zget rev i =? zget rev (i + 1) then [] else slice rev i.

Definition calc_rows (patched : bool) (c : cols) (nhist : Z) (rev : list Z) : list (list tgt) :=
  let qc := qcols_of c in
  map (fun i => row_at patched qc (bin_slice rev i)) (zseq 0 (Z.to_nat nhist)).

(* ------------------------------------------------------------------ edges (util.py:358-366) *)
(* low = dmin + arange(nhist) * binsize; high = low + binsize; center = low + 0.5 * binsize *)
Definition edge_low (dmin bsize : float) (i : Z) : float :=
  PrimFloat.add dmin (PrimFloat.mul (float_of_Z i) bsize).
Definition edges (dmin bsize : float) (nhist : Z) : list (float * float * float) :=
  map (fun i => let lo := edge_low dmin bsize i in
                (lo, PrimFloat.add lo bsize, PrimFloat.add lo (PrimFloat.mul 0x1p-1%float bsize)))
      (zseq 0 (Z.to_nat nhist)).

(* ------------------------------------------------------------------ binsize / nbin entry *)
Record bout := mkBout { b_hist : list Z; b_rev : list Z; b_edges : list (float * float * float);
                        b_rows : list (list tgt) }.

Definition same_len (c : cols) : bool :=
  let n := length (c_x c) in
  (match c_y c with Some y => Nat.eqb (length y) n | None => true end)
  && (match c_w c with Some w => Nat.eqb (length w) n | None => true end).

(* Binner(x, y, weights).dohist(binsize=|nbin=, min=, max=, rev=rv) [+ calc_stats()];
   histogram(x, weights=, more=True, ...) is the same object without y.
   Reverse indices exist (and with them the statistics) when rev is asked for or a second
   variable or weights were given (util.py:163-164, 261-263, 368); otherwise only edges. *)
Definition dorev (c : cols) (rv : bool) : bool :=
  rv || (match c_y c with Some _ => true | None => false end)
     || (match c_w c with Some _ => true | None => false end).

Definition binner (patched : bool) (c : cols) (rv : bool) (lo hi : option float) (m : mode) : result bout :=
  if negb (same_len c) then Err EValue else
  match histogram EngC (c_x c) lo hi m with
  | Err e => Err e
  | Ok o =>
      let p := o_params o in
      let nhist := Z.of_nat (length (o_hist o)) in
      if dorev c rv then
        Ok (mkBout (o_hist o) (o_rev o) (edges (p_dmin p) (p_bsize p) nhist)
                   (calc_rows patched c nhist (o_rev o)))
      else Ok (mkBout (o_hist o) [] (edges (p_dmin p) (p_bsize p) nhist) [])
  end.

(* ------------------------------------------------------------------ nperbin (util.py:198-256) *)
(* rev[a : a + len vs] = vs *)
Fixpoint write (rev : list Z) (a : Z) (vs : list Z) : list Z :=
  match vs with
  | [] => rev
  | v :: t => write (zset rev a v) (a + 1) t
  end.

Definition fset (l : list float) (i : Z) (v : float) : list float := zset l i v.

(* 216-225: the loop that maps the slices from positions in the sorted selection to indices of
   the original array and records first/last member *)
Definition remap_step (x : list float) (wsort : list Z) (st : list Z * list float * list float) (i : Z)
  : list Z * list float * list float :=
  let '(rev, low, high) := st in
  if zget rev i =? zget rev (i + 1) then st
  else
    let w := map (zget wsort) (slice rev i) in
    (write rev (zget rev i) w, fset low i (fget x (hd 0 w)), fset high i (fget x (last w 0))).

(* 234-256 _merge_last *)
Definition merge_last (hist rev : list Z) (low high : list float)
  : list Z * list Z * list float * list float :=
  let nbin := length hist in
  if (nbin <? 2)%nat then (hist, rev, low, high)
  else
    let nb := Z.of_nat nbin in
    let hist' := zset (firstn (nbin - 1) hist) (nb - 2) (zget hist (nb - 2) + zget hist (nb - 1)) in
    let low' := firstn (nbin - 1) low in
    let high' := fset (firstn (nbin - 1) high) (nb - 2) (nth (nbin - 1) high nan) in
    let r2 := map (fun v => v - 1) (firstn (nbin - 1) rev ++ [zget rev nb]) ++ skipn (nbin + 1) rev in
    (hist', r2, low', high').

Record nout := mkNout { n_hist : list Z; n_rev : list Z; n_low : list float; n_high : list float;
                        n_rows : list (list tgt) }.

Definition hist_by_num (x : list float) (wsort : list Z) (k : Z) (mergelast : bool)
  : list Z * list Z * list float * list float :=
  let n := Z.of_nat (length wsort) in
  let nbin := (n - 1) / k + 1 in
  let '(hist, rev0) := chist (fun i => i / k) nbin (zseq 0 (length wsort)) in
  let z := repeat 0%float (Z.to_nat nbin) in
  let '(rev, low, high) := fold_left (remap_step x wsort) (zseq 0 (Z.to_nat nbin)) (rev0, z, z) in
  if negb (last hist 0 =? k) && mergelast then merge_last hist rev low high
  else (hist, rev, low, high).

(* Binner(x, y, weights).dohist(nperbin=k, mergelast=, min=, max=); k >= 1 *)
Definition binner_num (patched : bool) (c : cols) (lo hi : option float) (k : Z) (mergelast : bool)
  : result nout :=
  if negb (same_len c) then Err EValue else
  match limits (c_x c) (argsort (c_x c)) lo hi with
  | Err e => Err e
  | Ok (_, _, wsort) =>
      if k <? 1 then Err EOther else
      let '(hist, rev, low, high) := hist_by_num (c_x c) wsort k mergelast in
      Ok (mkNout hist rev low high (calc_rows patched c (Z.of_nat (length hist)) rev))
  end.

(* ------------------------------------------------------------------ source reading (tie) *)
(* What each key of the result dictionary is assigned in the two branches of the statistics loop,
   as a table; harness/props/c14_translate.py reads the SAME tables out of esutil/stat/util.py on
   every run (python ast, fail-closed) and Exec.src_tables_agree compares them.
   Proofs.tables_are_the_model shows that the model's rows are these tables, interpreted. *)
Inductive kind :=
| KDatum        (* the single member's value:  self.x[w[0]]  or a copy of it *)
| KZero         (* 0 *)
| KWeight       (* the single member's weight: self.weights[w[0]] *)
| KInvSqrtW     (* 1.0 / np.sqrt(self.weights[w[0]]) *)
| KDatumTimesW  (* self.x[w[0]] * self.weights[w[0]]   (as found; violates the statement) *)
| KMean         (* v[w].mean() *)
| KStd          (* v[w].std() *)
| KErr          (* std / np.sqrt(w.size) *)
| KMedian       (* np.median(v[w]) *)
| KWSum         (* self.weights[w].sum() *)
| KWMean | KWErr | KWStd   (* wm, we, ws = wmom(v[w], self.weights[w], sdev=True) *)
| KWErr2.                  (* j1, we2 = wmom(v[w], self.weights[w], calcerr=True) *)

Definition kind_code (k : kind) : Z :=
  match k with
  | KDatum => 0 | KZero => 1 | KWeight => 2 | KInvSqrtW => 3 | KDatumTimesW => 4 | KMean => 5 | KStd => 6
  | KErr => 7 | KMedian => 8 | KWSum => 9 | KWMean => 10 | KWErr => 11 | KWStd => 12 | KWErr2 => 13
  end.

(* keys: mean std err median | whist | wmean wstd werr werr2 *)
Definition single_u_table : list kind := [KDatum; KZero; KDatum; KDatum].
Definition single_whist : kind := KWeight.
Definition single_w_table : list kind := [KDatum; KZero; KInvSqrtW; KZero].
Definition many_u_table : list kind := [KMean; KStd; KErr; KMedian].
Definition many_whist : kind := KWSum.
Definition many_w_table : list kind := [KWMean; KWStd; KWErr; KWErr2].

Definition interp_single (a wa : Q) (k : kind) : tgt :=
  match k with
  | KDatum => TExact a
  | KZero => TExact 0
  | KWeight => TExact wa
  | KInvSqrtW => TSqrt (1 / wa) 0
  | KDatumTimesW => TLin (a * wa) (Qabs (a * wa))
  | _ => TAny
  end.

Definition interp_many (v w : list Q) (k : kind) : tgt :=
  match k with
  | KMean => TLin (mean_q v) (qabsmean v)
  | KStd => TSqrt (var_q v) (qabsmean v)
  | KErr => TSqrt (var_q v / qn v) (qabsmean v)
  | KMedian => TLin (median_q v) (qabsmean v)
  | KWSum => TLin (W.qsum w) (W.qsum (map Qabs w))
  | KWMean => TLin (W.m_mean (W.wmom1 v w None false true)) (wabsmean v w)
  | KWStd => TSqrt (match W.m_var (W.wmom1 v w None false true) with Some s => s | None => 0 end) (wabsmean v w)
  | KWErr => TSqrt (W.m_err2 (W.wmom1 v w None false true)) 0
  | KWErr2 => TSqrt (W.m_err2 (W.wmom1 v w None true false)) (wabsmean v w)
  | _ => TAny
  end.

(* constants of calc_stats: the sentinel of empty bins (np.zeros(nhist) - 9999.0), whist[:] = 0,
   center = low + 0.5 * binsize *)
Definition center_factor : float := 0.5%float.
Definition whist_empty : Q := 0%Q.

(* ------------------------------------------------------------------ which keyword wins *)
(* Binner.dohist (util.py:169-174, 179-186): nperbin, else binsize, else nbin, else ValueError.
   histogram() (util.py:572-587): binsize defaults to 1.0 and is dropped when nbin is given, then
   dohist — so there: nperbin, else nbin, else binsize. *)
Inductive choice := CNum (k : Z) | CMode (m : mode) | CNone.

Definition resolve (via_histogram : bool) (bs : option float) (nb k : option Z) : choice :=
  match k with
  | Some k => CNum k
  | None =>
      if via_histogram then
        match nb with
        | Some n => CMode (ByNbin n)
        | None => CMode (ByBinsize (match bs with Some b => b | None => 1%float end))
        end
      else
        match bs with
        | Some b => CMode (ByBinsize b)
        | None => match nb with Some n => CMode (ByNbin n) | None => CNone end
        end
  end.

(* ------------------------------------------------------------------ the call as a whole *)
(* Binner(x, y, weights).dohist(binsize=, nbin=, nperbin=, min=, max=, rev=, mergelast=) / histogram(...):
   the constructor checks the lengths; _get_minmax_and_indices runs before the keywords are looked
   at (so its IndexError / ValueError come first); then the keyword that wins decides. *)
Inductive aout := ABinned (b : bout) | ANum (n : nout).

Definition binner_api (patched via_histogram : bool) (c : cols) (rv : bool) (lo hi : option float)
           (bs : option float) (nb k : option Z) (merge : bool) : result aout :=
  match resolve via_histogram bs nb k with
  | CNum k' => match binner_num patched c lo hi k' merge with Ok n => Ok (ANum n) | Err e => Err e end
  | CMode m => match binner patched c rv lo hi m with Ok b => Ok (ABinned b) | Err e => Err e end
  | CNone =>
      if negb (same_len c) then Err EValue else
      match limits (c_x c) (argsort (c_x c)) lo hi with
      | Err e => Err e
      | Ok _ => Err EValue            (* "Send binsize or nbin or nperbin" *)
      end
  end.

(* ------------------------------------------------------------------ the object and its dictionary *)
(* A Binner is a dict.  dohist() starts with self.clear() (util.py:160); calc_stats() decides by
   KEYS of the dictionary: "nperbin" in self -> keep low/high of the equal-occupancy run, else
   compute edges and centres; "rev" in self -> compute the statistics.  The state below keeps
   exactly what those tests look at, plus the cached sort index (self.sort_index, util.py:299-303). *)
Record bdict := mkD {
  d_hist : option (list Z);
  d_rev : option (list Z);
  d_nperbin : option Z;
  d_binspec : option (float * float);                     (* dmin, binsize of a binsize/nbin run *)
  d_lowhigh : option (list float * list float);           (* written by _hist_by_num *)
  d_edges : option (list (float * float * float));        (* written by calc_stats *)
  d_rows : option (list (list tgt)) }.

Definition d_empty : bdict := mkD None None None None None None None.

Record bobj := mkO { o_cols : cols; o_sortcache : option (list Z); o_dict : bdict }.
Definition obj_new (c : cols) : bobj := mkO c None d_empty.

Inductive call :=
| CallBinned (rv : bool) (lo hi : option float) (m : mode)
| CallNum (lo hi : option float) (k : Z) (merge : bool).

(* what dohist writes into a dictionary [d0] (the code passes the cleared one) *)
Definition dohist_into (patched : bool) (c : cols) (d0 : bdict) (cl : call) : result bdict :=
  match cl with
  | CallBinned rv lo hi m =>
      match binner patched c rv lo hi m with
      | Err e => Err e
      | Ok b =>
          match histogram EngC (c_x c) lo hi m with
          | Err e => Err e
          | Ok o =>
              Ok (mkD (Some (b_hist b)) (if dorev c rv then Some (b_rev b) else d_rev d0) (d_nperbin d0)
                      (Some (p_dmin (o_params o), p_bsize (o_params o))) (d_lowhigh d0) (d_edges d0) (d_rows d0))
          end
      end
  | CallNum lo hi k merge =>
      match binner_num patched c lo hi k merge with
      | Err e => Err e
      | Ok n => Ok (mkD (Some (n_hist n)) (Some (n_rev n)) (Some k) (d_binspec d0)
                        (Some (n_low n, n_high n)) (d_edges d0) (d_rows d0))
      end
  end.

(* calc_stats on whatever dictionary is there (util.py:343-477) *)
Definition calc_stats_dict (patched : bool) (c : cols) (d : bdict) : result bdict :=
  match d_hist d with
  | None => Err EValue                                   (* "run dohist first" *)
  | Some hist =>
      let nhist := Z.of_nat (length hist) in
      let d1 := match d_nperbin d with
                | Some _ => d
                | None => match d_binspec d with
                          | Some (dmin, bs) => mkD (d_hist d) (d_rev d) (d_nperbin d) (d_binspec d) (d_lowhigh d)
                                                   (Some (edges dmin bs nhist)) (d_rows d)
                          | None => d
                          end
                end in
      Ok (match d_rev d1 with
          | Some rev => mkD (d_hist d1) (d_rev d1) (d_nperbin d1) (d_binspec d1) (d_lowhigh d1) (d_edges d1)
                            (Some (calc_rows patched c nhist rev))
          | None => d1
          end)
  end.

(* one public call on the object: [clear = true] is the code; [clear = false] is the object that
   forgets self.clear() (kept to state what the clearing is for) *)
Definition obj_call (patched clear : bool) (o : bobj) (cl : call) : bobj * result bdict :=
  let c := o_cols o in
  let s := match o_sortcache o with Some s => s | None => argsort (c_x c) end in
  let d0 := if clear then d_empty else o_dict o in
  match dohist_into patched c d0 cl with
  | Err e => (mkO c (Some s) d0, Err e)
  | Ok d => match calc_stats_dict patched c d with
            | Err e => (mkO c (Some s) d, Err e)
            | Ok d' => (mkO c (Some s) d', Ok d')
            end
  end.

(* what a fresh object answers *)
Definition fresh_answer (patched : bool) (c : cols) (cl : call) : result bdict :=
  snd (obj_call patched true (obj_new c) cl).

Fixpoint obj_run (patched clear : bool) (o : bobj) (cls : list call) : bobj :=
  match cls with
  | [] => o
  | cl :: t => obj_run patched clear (fst (obj_call patched clear o cl)) t
  end.

(* ------------------------------------------------------------------ _hist_by_num, binary64 transcription *)
(* util.py:202-211 literally: ind = arange(n); bsize = float(nperbin); nbin = np.int64((ind[-1] - 0)/bsize) + 1;
   _do_hist(ind.astype(f8), 0, ind, bsize, nbin): the bin number of position i is C05's bit-exact
   binnum on the float64 positions.  IntQuotProofs.hist_by_num_f_eq: this IS hist_by_num. *)
Definition hist_by_num_f (x : list float) (wsort : list Z) (k : Z) (mergelast : bool)
  : list Z * list Z * list float * list float :=
  let n := Z.of_nat (length wsort) in
  let bsize := float_of_Z k in
  let nbin := f2z_trunc (PrimFloat.div (float_of_Z (n - 1)) bsize) + 1 in
  let f8ind := map float_of_Z (zseq 0 (length wsort)) in
  let '(hist, rev0) := chist (binnum f8ind 0%float bsize) nbin (zseq 0 (length wsort)) in
  let z := repeat 0%float (Z.to_nat nbin) in
  let '(rev, low, high) := fold_left (remap_step x wsort) (zseq 0 (Z.to_nat nbin)) (rev0, z, z) in
  if negb (last hist 0 =? k) && mergelast then merge_last hist rev low high
  else (hist, rev, low, high).

(* ------------------------------------------------------------------ control skeleton (tie) *)
(* The decisions of Binner.__init__/dohist/_hist_by_binsize_or_nbin/_do_hist/_merge_last/calc_stats and of
   histogram() that the model's functions embody, as ONE record.  harness/props/c14_translate.py
   translates the same record out of esutil/stat/util.py on every run (python ast, fail-closed) and
   Exec.skel_eqb compares it with [model_skel]; Proofs.skeleton_is_the_model shows that the model's
   functions are the ones this record determines. *)
Inductive kwname := KwNperbin | KwBinsize | KwNbin.

Inductive fexpr :=
| FDmin | FBs | FIdx | FLow            (* self.dmin, self["binsize"], arange(nhist)[i], low[i] *)
| FConst (c : float)
| FAdd (a b : fexpr) | FMul (a b : fexpr).

Fixpoint feval (dmin bs idx low : float) (e : fexpr) : float :=
  match e with
  | FDmin => dmin | FBs => bs | FIdx => idx | FLow => low
  | FConst c => c
  | FAdd a b => PrimFloat.add (feval dmin bs idx low a) (feval dmin bs idx low b)
  | FMul a b => PrimFloat.mul (feval dmin bs idx low a) (feval dmin bs idx low b)
  end.

Record skel := mkSkel {
  sk_clear_first : bool;             (* dohist starts with self.clear() *)
  sk_y_forces_rev : bool;            (* dohist: if self.y is not None: rev = True *)
  sk_w_forces_rev : bool;            (* _do_hist: if self.weights is not None: dorev = True *)
  sk_limits_first : bool;            (* _get_minmax_and_indices is called before the keywords are looked at *)
  sk_binner_order : list kwname;     (* the order in which dohist / _hist_by_binsize_or_nbin test the keywords *)
  sk_none_error : err;               (* no keyword: raise ValueError *)
  sk_hist_default_bs : float;        (* histogram(binsize=1.0) *)
  sk_hist_nbin_over_bs : bool;       (* histogram: if nbin is not None: binsize = None *)
  sk_more_forces_rev : bool;         (* histogram: if more: rev = True *)
  sk_edges : fexpr * fexpr * fexpr;  (* low, high, center of calc_stats *)
  sk_num_skips_edges : bool;         (* calc_stats: "nperbin" in self -> no edges *)
  sk_stats_iff_rev : bool;           (* calc_stats: statistics exactly when "rev" in self *)
  sk_no_hist_error : err;            (* calc_stats before dohist *)
  sk_single_size : Z;                (* the special case w.size == 1 *)
  sk_merge_min : Z;                  (* _merge_last: if nbin < 2: return *)
  sk_merge_if_last_differs : bool;   (* _hist_by_num: if hist[-1] != nperbin and mergelast *)
  sk_len_errors : err * err;         (* y / weights of another length *)
  sk_empty_sel_error : err }.        (* no data within min/max *)

Definition model_skel : skel :=
  mkSkel true true true true [KwNperbin; KwBinsize; KwNbin] EValue 1%float true true
         (FAdd FDmin (FMul FIdx FBs), FAdd FLow FBs, FAdd FLow (FMul (FConst 0x1p-1%float) FBs))
         true true EValue 1 2 true (EValue, EValue) EValue.

(* the functions a skeleton determines *)
Fixpoint first_given (order : list kwname) (bs : option float) (nb k : option Z) : choice :=
  match order with
  | [] => CNone
  | KwNperbin :: t => match k with Some v => CNum v | None => first_given t bs nb k end
  | KwBinsize :: t => match bs with Some v => CMode (ByBinsize v) | None => first_given t bs nb k end
  | KwNbin :: t => match nb with Some v => CMode (ByNbin v) | None => first_given t bs nb k end
  end.

Definition resolve_sk (sk : skel) (via_histogram : bool) (bs : option float) (nb k : option Z) : choice :=
  if via_histogram then
    let bs0 := match bs with Some b => b | None => sk_hist_default_bs sk end in
    let bs' := match nb with
               | Some _ => if sk_hist_nbin_over_bs sk then None else Some bs0
               | None => Some bs0
               end in
    first_given (sk_binner_order sk) bs' nb k
  else first_given (sk_binner_order sk) bs nb k.

Definition dorev_sk (sk : skel) (c : cols) (rv : bool) : bool :=
  rv || (sk_y_forces_rev sk && match c_y c with Some _ => true | None => false end)
     || (sk_w_forces_rev sk && match c_w c with Some _ => true | None => false end).

Definition edges_sk (sk : skel) (dmin bsize : float) (nhist : Z) : list (float * float * float) :=
  let '(el, eh, ec) := sk_edges sk in
  map (fun i => let idx := float_of_Z i in
                let lo := feval dmin bsize idx 0%float el in
                (lo, feval dmin bsize idx lo eh, feval dmin bsize idx lo ec))
      (zseq 0 (Z.to_nat nhist)).

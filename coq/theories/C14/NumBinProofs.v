(* C14 — equal-occupancy binning, first stage: C05's pass on the positions 0..n-1 with bin number
   position / nperbin puts exactly the positions [i*k, min((i+1)*k, n)) into bin i. *)
From Coq Require Import PrimFloat ZArith List Bool Lia ZifyBool ZifyNat Sorting.Sorted Sorting.Permutation.
From EsVerif.Common Require Import Base.
From EsVerif.C05 Require Import Model Spec Properties.
From EsVerif.C14 Require Import Model Spec.
Ltac Zify.zify_post_hook ::= Z.to_euclidean_division_equations.

Lemma div_eq_iff k s i : 0 < k -> (s / k = i <-> i * k <= s < (i + 1) * k).
Proof. intro Hk. split; intro H; nia. Qed.

Lemma zseq_S s m : zseq s (S m) = s :: zseq (s + 1) m.
Proof. reflexivity. Qed.

Lemma positions_sorted k : 0 < k -> forall n s, Sorted Z.le (map (fun j => j / k) (zseq s n)).
Proof.
  intros Hk n. induction n as [|n IH]; intro s; cbn [zseq map]; constructor.
  - apply IH.
  - destruct n as [|n]; cbn [zseq map]; constructor.
    apply Z.div_le_mono; lia.
Qed.

Lemma sel_div k i : 0 < k -> forall n s,
  sel (fun j => j / k) i (zseq s n)
  = zseq (Z.max s (i * k)) (Z.to_nat (Z.min (s + Z.of_nat n) ((i + 1) * k) - Z.max s (i * k))).
Proof.
  intros Hk n. unfold sel. induction n as [|n IH]; intro s.
  - cbn [zseq filter]. replace (Z.to_nat _) with O by lia. reflexivity.
  - rewrite zseq_S. cbn [filter]. rewrite IH.
    pose proof (div_eq_iff k s i Hk) as D.
    set (a := i * k) in *. assert (Hb : (i + 1) * k = a + k) by (unfold a; ring). rewrite Hb in *.
    destruct (s / k =? i) eqn:E.
    + apply Z.eqb_eq in E. apply D in E.
      replace (Z.max s a) with s by lia. replace (Z.max (s + 1) a) with (s + 1) by lia.
      replace (Z.to_nat (Z.min (s + Z.of_nat (S n)) (a + k) - s))
        with (S (Z.to_nat (Z.min (s + 1 + Z.of_nat n) (a + k) - (s + 1)))) by lia.
      rewrite zseq_S. reflexivity.
    + apply Z.eqb_neq in E.
      assert (C : s < a \/ a + k <= s) by (destruct (Z_lt_dec s a); [left; assumption | right; apply Z.nlt_ge; intro; apply E, D; lia]).
      destruct C as [C|C].
      * replace (Z.max s a) with a by lia. replace (Z.max (s + 1) a) with a by lia.
        replace (s + 1 + Z.of_nat n) with (s + Z.of_nat (S n)) by lia. reflexivity.
      * replace (Z.to_nat (Z.min (s + 1 + Z.of_nat n) (a + k) - Z.max (s + 1) a)) with O by lia.
        replace (Z.to_nat (Z.min (s + Z.of_nat (S n)) (a + k) - Z.max s a)) with O by lia.
        reflexivity.
Qed.

Lemma positions_counted k n : 0 < k -> 0 < n ->
  all_counted (fun j => j / k) ((n - 1) / k + 1) (zseq 0 (Z.to_nat n)).
Proof.
  intros Hk Hn j Hj.
  assert (R : 0 <= j < n).
  { clear - Hj Hn. assert (G : forall m s, In j (zseq s m) -> s <= j < s + Z.of_nat m).
    { induction m as [|m IH]; intros s H; cbn [zseq In] in H; [contradiction|].
      destruct H as [H|H]; [lia | apply IH in H; lia]. }
    apply G in Hj. lia. }
  unfold valid_bin. apply andb_true_iff. split.
  - apply Z.leb_le. apply Z.div_pos; lia.
  - apply Z.ltb_lt. assert (j / k <= (n - 1) / k) by (apply Z.div_le_mono; lia). lia.
Qed.

(* the pass of _hist_by_num (before the slices are mapped to the original array): nbin bins,
   bin i holds exactly the positions i*k .. min((i+1)*k, n) - 1, hist[i] is their number, the
   index section of rev lists every position once, nothing is left uncounted *)
Theorem nperbin_pass_slices k n hist rev0 : 1 <= k -> 1 <= n ->
  chist (fun j => j / k) ((n - 1) / k + 1) (zseq 0 (Z.to_nat n)) = (hist, rev0) ->
  let nbin := (n - 1) / k + 1 in
  Z.of_nat (length hist) = nbin
  /\ Z.of_nat (length rev0) = n + nbin + 1
  /\ skipn (Z.to_nat (nbin + 1)) rev0 = zseq 0 (Z.to_nat n)
  /\ zget rev0 nbin = Z.of_nat (length rev0)
  /\ forall i, 0 <= i < nbin ->
       nbin + 1 <= zget rev0 i <= zget rev0 (i + 1)
       /\ slice rev0 i = zseq (i * k) (Z.to_nat (Z.min n ((i + 1) * k) - i * k))
       /\ zget hist i = Z.min n ((i + 1) * k) - i * k
       /\ 1 <= zget hist i <= k
       /\ (i + 1 < nbin -> zget hist i = k).
Proof.
  intros Hk Hn H nbin.
  assert (Hnb : 0 <= nbin) by (unfold nbin; assert (0 <= (n - 1) / k) by (apply Z.div_pos; lia); lia).
  pose proof (C05_partition EngC (fun j => j / k) nbin (zseq 0 (Z.to_nat n)) Hnb
                (positions_sorted k ltac:(lia) _ _)) as P.
  cbv beta iota in P. fold nbin in H. rewrite H in P.
  destruct P as [PL [PR [PS [_ [PK PC]]]]].
  split; [exact PL|]. split; [rewrite PR; assert (G0 : forall s m, length (zseq s m) = m) by (intros s0 m; revert s0; induction m; intro s0; cbn; auto); rewrite G0; lia|]. split; [exact PK|].
  split; [apply PC; unfold nbin; apply positions_counted; lia|].
  intros i Hi. destruct (PS i Hi) as [Po [_ [Psl Plen]]].
  rewrite (sel_div k i ltac:(lia)) in Psl.
  assert (Hik : i * k <= n - 1).
  { unfold nbin in Hi. assert (i <= (n - 1) / k) by lia. nia. }
  replace (Z.max 0 (i * k)) with (i * k) in Psl by nia.
  replace (0 + Z.of_nat (Z.to_nat n)) with n in Psl by lia.
  split; [exact Po|]. split; [exact Psl|].
  assert (Hh : zget hist i = Z.min n ((i + 1) * k) - i * k).
  { rewrite <- Plen, Psl.
    assert (G : forall s m, length (zseq s m) = m) by (intros s m; revert s; induction m; intro s; cbn; auto).
    rewrite G. nia. }
  split; [exact Hh|]. split; [nia|].
  intro Hlast. rewrite Hh. unfold nbin in Hlast. assert (i + 1 <= (n - 1) / k) by lia. nia.
Qed.

(* C14 — for finite data the order/selection contracts that the end-to-end theorems assumed are
   theorems (C05's Flocq-based facts about the stable argsort, the min/max selection and the
   binary64 bin numbers), so both binning modes satisfy the property with nothing monitored.
   These statements depend on the standard library's FloatAxioms and real-number axioms. *)
From Coq Require Import PrimFloat FloatOps SpecFloat ZArith List Bool Lia Sorting.Permutation.
From EsVerif.Common Require Import Base.
From EsVerif.C05 Require Import Model Spec PassProofs Proofs SortFacts FloatProofs Properties.
From EsVerif.C14 Require Import Model Spec StatProofs Proofs NumModelProofs ApiProofs.
Open Scope Z_scope.

Lemma is_finite_finite_f f : is_finite f = finite_f f.
Proof. unfold is_finite, finite_f. destruct (Prim2SF f); reflexivity. Qed.

Lemma cols_ok_x_finite c : cols_ok c = true -> forallb finite_f (c_x c) = true.
Proof.
  unfold cols_ok. intro H. apply andb_true_iff in H as [H _]. apply andb_true_iff in H as [H _].
  apply andb_true_iff in H as [_ H]. unfold all_finite in H.
  rewrite forallb_forall in H. apply forallb_forall. intros f Hf. rewrite <- is_finite_finite_f. apply H. exact Hf.
Qed.

(* binsize / nbin mode: finite data and limits, a sane bin specification *)
Theorem binned_holds_finite c rv lo hi m b o rows :
  binner true c rv lo hi m = Ok b -> dorev c rv = true -> cols_ok c = true ->
  finite_opt lo = true -> finite_opt hi = true ->
  histogram EngC (c_x c) lo hi m = Ok o -> params_ok (o_params o) = true ->
  rows_meet rows (b_rows b) = true ->
  let p := o_params o in
  stats_ok (members (c_x c) lo hi (p_dmin p) (p_bsize p)) (p_nbin p) c rows.
Proof.
  intros HB HD OK Flo Fhi HH HP HR.
  apply (binned_stats_of_members c rv lo hi m b o rows HB HD OK HH); [|exact HR].
  apply (C05_contracts_hold EngC (c_x c) lo hi m o (cols_ok_x_finite c OK) Flo Fhi HH HP).
Qed.

(* the selection of the model is the stable sorted order of the data within the limits *)
Lemma selection_facts c lo hi dmin dmax wsort :
  cols_ok c = true -> finite_opt lo = true -> finite_opt hi = true ->
  limits (c_x c) (argsort (c_x c)) lo hi = Ok (dmin, dmax, wsort) ->
  ordered (c_x c) wsort /\ Permutation wsort (selected c lo hi).
Proof.
  intros OK Flo Fhi HL. assert (Fx := cols_ok_x_finite c OK).
  destruct (limits_facts (c_x c) Fx lo hi dmin dmax wsort Flo Fhi HL) as [_ [_ [Ew _]]].
  split.
  - rewrite Ew. apply SortFacts.ordered_filter. apply (argsort_ordered (c_x c) Fx).
  - rewrite Ew. unfold selected, indices. apply Permutation_filter. apply argsort_perm.
Qed.

(* nperbin mode: finite data and limits; nothing else assumed *)
Theorem nperbin_holds_finite c lo hi k merge b rows :
  binner_num true c lo hi k merge = Ok b -> cols_ok c = true ->
  finite_opt lo = true -> finite_opt hi = true -> 1 <= k ->
  rows_meet rows (n_rows b) = true ->
  num_ok c lo hi k merge (n_hist b) (n_rev b) (n_low b) (n_high b) rows.
Proof.
  intros HB OK Flo Fhi Hk HR.
  assert (HL : exists dmin dmax wsort, limits (c_x c) (argsort (c_x c)) lo hi = Ok (dmin, dmax, wsort)).
  { unfold binner_num in HB. rewrite (cols_ok_same_len c OK) in HB. cbn [negb] in HB.
    destruct (limits (c_x c) (argsort (c_x c)) lo hi) as [[[dmin dmax] w]|e]; [|discriminate].
    exists dmin, dmax, w. reflexivity. }
  destruct HL as [dmin [dmax [wsort HL]]].
  destruct (selection_facts c lo hi dmin dmax wsort OK Flo Fhi HL) as [HO HP].
  exact (binner_num_spec c lo hi k merge b dmin dmax wsort rows HB OK Hk HL HO HP HR).
Qed.

(* ------------------------------------------------------------------ every call form *)
(* whatever combination of binsize= / nbin= / nperbin= is given, through Binner or histogram():
   an accepted call on finite data satisfies the property of the binning mode that wins *)
Theorem api_holds_finite h c rv lo hi bs nb k merge a rows :
  binner_api true h c rv lo hi bs nb k merge = Ok a -> cols_ok c = true ->
  finite_opt lo = true -> finite_opt hi = true ->
  match a with
  | ANum n => exists k', resolve h bs nb k = CNum k' /\
      (1 <= k' -> rows_meet rows (n_rows n) = true ->
       num_ok c lo hi k' merge (n_hist n) (n_rev n) (n_low n) (n_high n) rows)
  | ABinned b => exists m, resolve h bs nb k = CMode m /\
      (dorev c rv = true -> forall o, histogram EngC (c_x c) lo hi m = Ok o -> params_ok (o_params o) = true ->
       rows_meet rows (b_rows b) = true ->
       stats_ok (members (c_x c) lo hi (p_dmin (o_params o)) (p_bsize (o_params o))) (p_nbin (o_params o)) c rows)
  end.
Proof.
  intros HA OK Flo Fhi. unfold binner_api in HA.
  destruct (resolve h bs nb k) as [k'|m|] eqn:R.
  - destruct (binner_num true c lo hi k' merge) as [n|e] eqn:HB; [|discriminate]. injection HA as <-.
    exists k'. split; [reflexivity|]. intros Hk HR. exact (nperbin_holds_finite c lo hi k' merge n rows HB OK Flo Fhi Hk HR).
  - destruct (binner true c rv lo hi m) as [b|e] eqn:HB; [|discriminate]. injection HA as <-.
    exists m. split; [reflexivity|]. intros HD o HH HP HR.
    exact (binned_holds_finite c rv lo hi m b o rows HB HD OK Flo Fhi HH HP HR).
  - destruct (negb (same_len c)); [discriminate|].
    destruct (limits (c_x c) (argsort (c_x c)) lo hi); discriminate.
Qed.

(* ------------------------------------------------------------------ the object, after any history *)
Lemma fresh_num_inv c lo hi k merge d :
  fresh_answer true c (CallNum lo hi k merge) = Ok d ->
  exists n, binner_num true c lo hi k merge = Ok n
    /\ d_hist d = Some (n_hist n) /\ d_rev d = Some (n_rev n) /\ d_nperbin d = Some k
    /\ d_lowhigh d = Some (n_low n, n_high n) /\ d_edges d = None /\ d_rows d = Some (n_rows n).
Proof.
  intro H. destruct (binner_num true c lo hi k merge) as [n|e] eqn:HB.
  - exists n. split; [reflexivity|].
    destruct (fresh_answer_num true c lo hi k merge n HB) as [d' [E F]]. rewrite H in E. injection E as <-. exact F.
  - unfold fresh_answer, obj_call in H. cbn [obj_new o_cols o_sortcache o_dict] in H.
    unfold dohist_into in H. rewrite HB in H. discriminate.
Qed.

Lemma fresh_binned_inv c rv lo hi m d :
  fresh_answer true c (CallBinned rv lo hi m) = Ok d ->
  exists b, binner true c rv lo hi m = Ok b
    /\ d_hist d = Some (b_hist b) /\ d_nperbin d = None /\ d_lowhigh d = None
    /\ d_edges d = Some (b_edges b)
    /\ d_rev d = (if dorev c rv then Some (b_rev b) else None)
    /\ d_rows d = (if dorev c rv then Some (b_rows b) else None).
Proof.
  intro H. destruct (binner true c rv lo hi m) as [b|e] eqn:HB.
  - exists b. split; [reflexivity|].
    destruct (fresh_answer_binned true c rv lo hi m b HB) as [d' [E F]]. rewrite H in E. injection E as <-. exact F.
  - unfold fresh_answer, obj_call in H. cbn [obj_new o_cols o_sortcache o_dict] in H.
    unfold dohist_into in H. rewrite HB in H. discriminate.
Qed.

(* a Binner that has been through ANY sequence of calls answers the next accepted call on finite
   data with a dictionary that satisfies the property (and carries exactly the keys of that mode) *)
Theorem object_holds_finite c cls cl d :
  snd (obj_call true true (obj_run true true (obj_new c) cls) cl) = Ok d -> cols_ok c = true ->
  match cl with
  | CallNum lo hi k merge =>
      finite_opt lo = true -> finite_opt hi = true -> 1 <= k ->
      exists hist rev low high rowsT,
        d_hist d = Some hist /\ d_rev d = Some rev /\ d_lowhigh d = Some (low, high) /\ d_rows d = Some rowsT
        /\ d_nperbin d = Some k /\ d_edges d = None
        /\ forall rows, rows_meet rows rowsT = true -> num_ok c lo hi k merge hist rev low high rows
  | CallBinned rv lo hi m =>
      finite_opt lo = true -> finite_opt hi = true -> dorev c rv = true ->
      forall o, histogram EngC (c_x c) lo hi m = Ok o -> params_ok (o_params o) = true ->
      exists rowsT, d_rows d = Some rowsT /\ d_nperbin d = None /\ d_lowhigh d = None
        /\ d_edges d = Some (edges (p_dmin (o_params o)) (p_bsize (o_params o)) (Z.of_nat (length (o_hist o))))
        /\ forall rows, rows_meet rows rowsT = true ->
             stats_ok (members (c_x c) lo hi (p_dmin (o_params o)) (p_bsize (o_params o))) (p_nbin (o_params o)) c rows
  end.
Proof.
  intros H OK. rewrite history_irrelevant in H. destruct cl as [rv lo hi m|lo hi k merge].
  - intros Flo Fhi HD o HH HP.
    destruct (fresh_binned_inv c rv lo hi m d H) as [b [HB [_ [E2 [E3 [E4 [_ E6]]]]]]].
    rewrite HD in E6. exists (b_rows b). split; [exact E6|]. split; [exact E2|]. split; [exact E3|]. split.
    + rewrite E4. f_equal. unfold binner in HB. rewrite (cols_ok_same_len c OK) in HB. cbn [negb] in HB.
      rewrite HH, HD in HB. injection HB as <-. reflexivity.
    + intros rows HR. exact (binned_holds_finite c rv lo hi m b o rows HB HD OK Flo Fhi HH HP HR).
  - intros Flo Fhi Hk.
    destruct (fresh_num_inv c lo hi k merge d H) as [n [HB [E1 [E2 [E3 [E4 [E5 E6]]]]]]].
    exists (n_hist n), (n_rev n), (n_low n), (n_high n), (n_rows n).
    repeat (split; [assumption|]).
    intros rows HR. exact (nperbin_holds_finite c lo hi k merge n rows HB OK Flo Fhi Hk HR).
Qed.

(* ------------------------------------------------------------------ the selection, on the data *)
Lemma within_is_in_limits x lo hi : forallb finite_f x = true ->
  forall k, In k (argsort x) ->
    within (eff_min x (argsort x) lo) (eff_max x (argsort x) hi) (fget x k) = in_limits lo hi (fget x k).
Proof.
  intros Fx k Hk. assert (Ho := argsort_ordered x Fx). assert (Rg := argsort_in_range x).
  unfold within, in_limits, eff_min, eff_max.
  destruct (argsort x) as [|a t] eqn:S; [destruct Hk|].
  assert (Lmin : PrimFloat.leb (fget x a) (fget x k) = true) by (apply (ordered_first_min x Fx a t k Rg Ho Hk)).
  assert (Lmax : PrimFloat.leb (fget x k) (fget x (last (a :: t) 0)) = true) by (apply (ordered_last_max x Fx (a :: t) k Rg Ho Hk)).
  destruct lo as [l|], hi as [h|]; cbn [hd]; rewrite ?Lmin, ?Lmax; reflexivity.
Qed.

(* exactly which selections are rejected, stated on the data: IndexError for empty data when a limit
   has to be taken from them, ValueError when no datum lies within the limits, otherwise the data
   within the limits in stable sorted order *)
Theorem selection_outcome x lo hi : forallb finite_f x = true ->
  let sel := filter (fun k => in_limits lo hi (fget x k)) (argsort x) in
  match x, lo, hi with
  | [], None, _ => limits x (argsort x) lo hi = Err EIndex
  | [], Some _, None => limits x (argsort x) lo hi = Err EIndex
  | _, _, _ =>
      match sel with
      | [] => limits x (argsort x) lo hi = Err EValue
      | _ => limits x (argsort x) lo hi = Ok (eff_min x (argsort x) lo, eff_max x (argsort x) hi, sel)
      end
  end.
Proof.
  intros Fx sel. rewrite limits_outcome.
  assert (Ef : filter (fun k => within (eff_min x (argsort x) lo) (eff_max x (argsort x) hi) (fget x k)) (argsort x) = sel).
  { unfold sel. apply filter_ext_in. intros k Hk. apply within_is_in_limits; assumption. }
  destruct x as [|v t].
  - change (argsort []) with (@nil Z) in *. destruct lo as [l|], hi as [h|]; reflexivity.
  - assert (Hne : argsort (v :: t) <> []).
    { intro E. pose proof (Permutation_length (argsort_perm (v :: t))) as L. rewrite E in L.
      assert (G : forall m s, length (zseq s m) = m) by (induction m; intro s; cbn; auto).
      rewrite G in L. cbn [length] in L. discriminate. }
    destruct (argsort (v :: t)) as [|a s'] eqn:S; [contradiction|].
    destruct lo as [l|], hi as [h|]; rewrite ?Ef; try (destruct sel; reflexivity).
    (* no limits: everything is selected *)
    assert (Es : sel = a :: s').
    { unfold sel. apply filter_all. intros. reflexivity. }
    rewrite Es. reflexivity.
Qed.

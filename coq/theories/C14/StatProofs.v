(* C14 — the per-bin statistics: the model's row refines the textbook row, the textbook row does
   not depend on the order of the members, checker soundness, model => property. *)
From Coq Require Import PrimFloat FloatOps SpecFloat QArith Qabs Lia Sorting.Permutation Setoid.
From EsVerif.Common Require Import Base.
From EsVerif.C14 Require Import Model Spec NumProofs.
Open Scope Q_scope.

Ltac f2cons := repeat (apply Forall2_cons); try apply Forall2_nil.

Definition tref (tm td : tgt) : Prop := forall f, meets f tm = true -> Meets f td.
Definition timp (t t' : tgt) : Prop := forall f, Meets f t -> Meets f t'.

Lemma eps9_nonneg : 0 <= eps_tol.
Proof. unfold eps_tol, Qle. simpl. lia. Qed.

(* ------------------------------------------------------------------ targets *)
Lemma timp_refl t : timp t t.
Proof. intros f H. exact H. Qed.

Lemma timp_lin q q' A A' : q == q' -> A == A' -> timp (TLin q A) (TLin q' A').
Proof.
  intros E1 E2 f [Hf H]. split; [assumption|]. simpl in *.
  eapply close_lin_eq; [exact E1 | | exact H]. rewrite E2. reflexivity.
Qed.

Lemma timp_sqrt V V' A A' : V == V' -> A == A' -> timp (TSqrt V A) (TSqrt V' A').
Proof.
  intros E1 E2 f [Hf H]. split; [assumption|]. simpl in *.
  eapply close_sqrt_eq; [exact E1 | | exact H]. rewrite E2. reflexivity.
Qed.

Lemma tref_of_timp t t' : timp t t' -> tref t t'.
Proof. intros H f Hm. apply H. apply meets_sound. assumption. Qed.

Lemma tref_refl t : tref t t.
Proof. apply tref_of_timp, timp_refl. Qed.

Lemma tref_lin q q' A A' : q == q' -> A == A' -> tref (TLin q A) (TLin q' A').
Proof. intros. apply tref_of_timp, timp_lin; assumption. Qed.

Lemma tref_sqrt V V' A A' : V == V' -> A == A' -> tref (TSqrt V A) (TSqrt V' A').
Proof. intros. apply tref_of_timp, timp_sqrt; assumption. Qed.

Lemma tref_any t : tref t TAny.
Proof. intros f _. exact I. Qed.

Lemma tref_exact_lin a q' A' : a == q' -> 0 <= A' -> tref (TExact a) (TLin q' A').
Proof.
  intros E HA f H. apply meets_sound in H. destruct H as [Hf Hy]. split; [assumption|].
  simpl in *. unfold close_lin.
  assert (Z0 : f2q f - q' == 0) by (rewrite Hy, E; ring).
  rewrite Z0. simpl. apply Qmult_le_0_compat; [apply eps9_nonneg | assumption].
Qed.

Lemma tref_exact0_sqrt V' A' : V' == 0 -> 0 <= A' -> tref (TExact 0) (TSqrt V' A').
Proof.
  intros E HA f H. apply meets_sound in H. destruct H as [Hf Hy]. split; [assumption|].
  simpl in *. unfold close_sqrt.
  assert (T : 0 <= eps_tol * (f2q f + A')).
  { apply Qmult_le_0_compat; [apply eps9_nonneg|]. rewrite Hy. rewrite Qplus_0_l. assumption. }
  repeat split.
  - rewrite Hy. apply Qle_refl.
  - assumption.
  - left. rewrite Hy at 1. assumption.
  - rewrite E.
    assert (G : 0 <= f2q f + eps_tol * (f2q f + A')).
    { rewrite <- (Qplus_0_r 0). apply Qplus_le_compat; [rewrite Hy; apply Qle_refl | exact T]. }
    apply Qmult_le_0_compat; exact G.
Qed.

(* ------------------------------------------------------------------ model values = definitions *)
Lemma mean_q_def v : mean_q v == mean_def v.
Proof. unfold mean_q, mean_def. rewrite Qred_correct, qsum_Sum. reflexivity. Qed.

Lemma absmean_q_def v : qabsmean v == absmean_def v.
Proof. unfold qabsmean, absmean_def. rewrite qsum_Sum. reflexivity. Qed.

Lemma var_q_def v : var_q v == var_def v.
Proof.
  unfold var_q, var_def. rewrite Qred_correct, qsum_Sum.
  rewrite (Sum_map_ext (W.dev2 (mean_q v)) (fun a => sqr (a - mean_def v))).
  - reflexivity.
  - intro a. unfold W.dev2, W.sq, sqr. rewrite mean_q_def. reflexivity.
Qed.

Lemma absmean_nonneg v : 0 <= absmean_def v.
Proof. unfold absmean_def. apply div_nonneg; [apply Sum_abs_nonneg | apply qn_nonneg]. Qed.

Lemma ublock_general_ref v :
  Forall2 tref [TLin (mean_q v) (qabsmean v); TSqrt (var_q v) (qabsmean v);
                TSqrt (var_q v / qn v) (qabsmean v); TLin (median_q v) (qabsmean v)]
               (ublock_direct v).
Proof.
  unfold ublock_direct. f2cons.
  - apply tref_lin; [apply mean_q_def | apply absmean_q_def].
  - apply tref_sqrt; [apply var_q_def | apply absmean_q_def].
  - destruct (length v <=? 1)%nat; [apply tref_any|].
    apply tref_sqrt; [|apply absmean_q_def]. unfold err2_def. rewrite var_q_def. reflexivity.
  - apply tref_lin; [reflexivity | apply absmean_q_def].
Qed.

Lemma ublock_ref v : Forall2 tref (ublock v) (ublock_direct v).
Proof.
  destruct v as [|a [|b t]]; try apply ublock_general_ref.
  unfold ublock, ublock_direct. f2cons.
  - apply tref_exact_lin; [|apply absmean_nonneg].
    unfold mean_def, qn. simpl. field.
  - apply tref_exact0_sqrt; [|apply absmean_nonneg].
    unfold var_def, mean_def, sqr, qn. simpl. field.
  - apply tref_any.
  - apply tref_exact_lin; [|apply absmean_nonneg]. reflexivity.
Qed.

(* weighted block *)
Lemma wmean_q_def v w : Qred (W.qsum (W.map2 Qmult w v) / W.qsum w) == wmean_def v w.
Proof. unfold wmean_def. rewrite Qred_correct, (qsum_Sum w), qsum_Sum. reflexivity. Qed.

Lemma wabsmean_q_def v w : wabsmean v w == wabsmean_def v w.
Proof. unfold wabsmean, wabsmean_def. rewrite (qsum_Sum w), qsum_Sum. reflexivity. Qed.

Lemma wblock_many_ref v w : Forall2 tref (wblock_many v w) (wblock_direct v w).
Proof.
  unfold wblock_many, wblock_direct, W.wmom1. cbn [W.m_mean W.m_var W.m_err2].
  f2cons.
  - apply tref_lin; [apply wmean_q_def | apply wabsmean_q_def].
  - apply tref_sqrt; [|apply wabsmean_q_def].
    unfold wvar_def. rewrite Qred_correct, (qsum_Sum w), qsum_Sum.
    rewrite (Sum_map2_ext _ (fun wi xi => wi * sqr (xi - wmean_def v w))).
    + reflexivity.
    + intros a b. unfold W.dev2, W.sq, sqr. rewrite wmean_q_def. reflexivity.
  - apply tref_sqrt; [|reflexivity].
    unfold werr2_default_def. rewrite qsum_Sum. reflexivity.
  - apply tref_sqrt; [|apply wabsmean_q_def].
    unfold werr2_calc_def, W.sq. rewrite Qred_correct, (qsum_Sum w), qsum_Sum.
    rewrite (Sum_map2_ext _ (fun wi xi => sqr wi * sqr (xi - wmean_def v w))).
    + unfold W.sq, sqr. reflexivity.
    + intros a b. unfold W.dev2, W.sq, sqr. rewrite wmean_q_def. reflexivity.
Qed.

Lemma map2_abs_nonneg : forall l l' a, In a (W.map2 (fun wi xi => Qabs (wi * xi)) l l') -> 0 <= a.
Proof.
  induction l as [|p t IH]; intros [|q t'] a Hin; cbn [W.map2 In] in Hin; try contradiction.
  destruct Hin as [Hin|Hin]; [rewrite <- Hin; apply Qabs_nonneg | eapply IH; eassumption].
Qed.

Lemma wabsmean_nonneg v w : 0 <= Sum w -> 0 <= wabsmean_def v w.
Proof.
  intro H. unfold wabsmean_def. apply div_nonneg; [|assumption].
  apply Sum_nonneg. intros a Ha. eapply map2_abs_nonneg. eassumption.
Qed.

Lemma wblock_ref v w : Forall (fun q => 0 < q) w -> Forall2 tref (wblock true v w) (wblock_direct v w).
Proof.
  intro P. destruct v as [|a [|b t]]; try apply wblock_many_ref.
  destruct w as [|wa [|wb u]]; try apply wblock_many_ref.
  assert (Hw : 0 < wa) by (inversion P; assumption).
  assert (Hn : ~ wa == 0) by (intro E; rewrite E in Hw; apply (Qlt_irrefl 0); assumption).
  assert (HA : 0 <= wabsmean_def [a] [wa]).
  { apply wabsmean_nonneg. simpl. rewrite Qplus_0_r. apply Qlt_le_weak. assumption. }
  assert (Em : wmean_def [a] [wa] == a) by (unfold wmean_def; simpl; field; assumption).
  unfold wblock, wblock_direct. f2cons.
  - apply tref_exact_lin; [|assumption]. symmetry. assumption.
  - apply tref_exact0_sqrt; [|assumption].
    unfold wvar_def, sqr. simpl. rewrite Em. field. assumption.
  - apply tref_sqrt; [|reflexivity]. unfold werr2_default_def. simpl. rewrite Qplus_0_r. reflexivity.
  - apply tref_exact0_sqrt; [|assumption].
    unfold werr2_calc_def, sqr. simpl. rewrite Em. field. assumption.
Qed.

Lemma whist_ref x w : tref (whist_tgt true x w) (TLin (Sum w) (Sum (map Qabs w))).
Proof.
  assert (G : tref (TLin (W.qsum w) (W.qsum (map Qabs w))) (TLin (Sum w) (Sum (map Qabs w)))).
  { apply tref_lin; apply qsum_Sum. }
  unfold whist_tgt. destruct x as [|a [|b t]]; try exact G.
  destruct w as [|wa [|wb u]]; try exact G.
  apply tref_exact_lin.
  - simpl. ring.
  - apply Sum_abs_nonneg.
Qed.

Definition wpos (ws : option (list Q)) : Prop :=
  match ws with Some w => Forall (fun q => 0 < q) w | None => True end.

Lemma Forall2_refl {A} (R : A -> A -> Prop) l : (forall a, R a a) -> Forall2 R l l.
Proof. intro H. induction l; constructor; auto. Qed.

Lemma row_ref xs ys ws : wpos ws -> Forall2 tref (row_of true xs ys ws) (row_direct xs ys ws).
Proof.
  intro P. destruct xs as [|a t].
  - apply Forall2_refl. apply tref_refl.
  - unfold row_of, row_direct. set (xs := a :: t) in *.
    apply Forall2_app; [apply ublock_ref|].
    apply Forall2_app.
    { destruct ys as [y|]; [apply ublock_ref | constructor]. }
    destruct ws as [w|]; [|constructor].
    apply Forall2_app; [f2cons; apply whist_ref|].
    apply Forall2_app; [apply wblock_ref; exact P|].
    destruct ys as [y|]; [apply wblock_ref; exact P | constructor].
Qed.

(* ------------------------------------------------------------------ order of the members *)
Section Perm.
  Variable D : positive.

  Lemma ublock_direct_perm v v' :
    Permutation v v' -> Forall (dn D) v -> Forall2 timp (ublock_direct v) (ublock_direct v').
  Proof.
    intros P F.
    assert (Em : mean_def v == mean_def v').
    { unfold mean_def. rewrite (Sum_perm _ _ P), (qn_perm _ _ P). reflexivity. }
    assert (EA : absmean_def v == absmean_def v').
    { unfold absmean_def. rewrite (Sum_perm _ _ (Permutation_map Qabs P)), (qn_perm _ _ P). reflexivity. }
    assert (EV : var_def v == var_def v').
    { unfold var_def. rewrite (qn_perm _ _ P).
      rewrite (Sum_map_ext (fun a => sqr (a - mean_def v)) (fun a => sqr (a - mean_def v'))).
      - rewrite (Sum_perm _ _ (Permutation_map _ P)). reflexivity.
      - intro a. unfold sqr. rewrite Em. reflexivity. }
    unfold ublock_direct. rewrite (Permutation_length P). f2cons.
    - apply timp_lin; assumption.
    - apply timp_sqrt; assumption.
    - destruct (length v' <=? 1)%nat; [apply timp_refl|].
      apply timp_sqrt; [|assumption]. unfold err2_def. rewrite EV, (qn_perm _ _ P). reflexivity.
    - unfold median_def. rewrite (median_perm_eq D v v' F P). apply timp_lin; [reflexivity | assumption].
  Qed.

  Lemma wblock_direct_perm (gx gw : Z -> Q) ks ks' :
    Permutation ks ks' ->
    Forall2 timp (wblock_direct (map gx ks) (map gw ks)) (wblock_direct (map gx ks') (map gw ks')).
  Proof.
    intro P.
    assert (Ew : Sum (map gw ks) == Sum (map gw ks')) by (apply Sum_perm, Permutation_map; assumption).
    assert (Em : wmean_def (map gx ks) (map gw ks) == wmean_def (map gx ks') (map gw ks')).
    { unfold wmean_def. rewrite !map2_map, Ew. rewrite (Sum_perm _ _ (Permutation_map _ P)). reflexivity. }
    assert (EA : wabsmean_def (map gx ks) (map gw ks) == wabsmean_def (map gx ks') (map gw ks')).
    { unfold wabsmean_def. rewrite !map2_map, Ew. rewrite (Sum_perm _ _ (Permutation_map _ P)). reflexivity. }
    unfold wblock_direct. f2cons.
    - apply timp_lin; assumption.
    - apply timp_sqrt; [|assumption].
      unfold wvar_def. rewrite !map2_map, Ew.
      rewrite (Sum_map_ext _ (fun k => gw k * sqr (gx k - wmean_def (map gx ks') (map gw ks')))).
      + rewrite (Sum_perm _ _ (Permutation_map _ P)). reflexivity.
      + intro k. unfold sqr. rewrite Em. reflexivity.
    - apply timp_sqrt; [|reflexivity]. unfold werr2_default_def. rewrite Ew. reflexivity.
    - apply timp_sqrt; [|assumption].
      unfold werr2_calc_def, sqr. rewrite !map2_map, Ew.
      rewrite (Sum_map_ext _ (fun k => (gw k * gw k) * ((gx k - wmean_def (map gx ks') (map gw ks'))
                                                       * (gx k - wmean_def (map gx ks') (map gw ks'))))).
      + rewrite (Sum_perm _ _ (Permutation_map _ P)). reflexivity.
      + intro k. rewrite Em. reflexivity.
  Qed.
End Perm.

Lemma vals_Forall (P : Q -> Prop) qc ks :
  Forall P qc -> Forall (fun k => (Z.to_nat k < length qc)%nat) ks -> Forall P (vals qc ks).
Proof.
  intros F R. unfold vals. apply Forall_forall. intros q Hq. apply in_map_iff in Hq.
  destruct Hq as [k [Hk Hin]]. subst q. rewrite Forall_forall in F, R. apply F. apply nth_In. apply R. assumption.
Qed.

Lemma vals_perm qc ks ks' : Permutation ks ks' -> Permutation (vals qc ks) (vals qc ks').
Proof. intro P. unfold vals. apply Permutation_map. assumption. Qed.

(* all columns of a Binner have the length of x *)
Definition inrange (c : cols) (ks : list Z) : Prop :=
  Forall (fun k => (Z.to_nat k < length (c_x c))%nat) ks.

Lemma qcol_length v : length (qcol v) = length v.
Proof. unfold qcol. apply map_length. Qed.

Lemma row_direct_at_perm c ks ks' :
  same_len c = true -> inrange c ks -> Permutation ks ks' ->
  Forall2 timp (row_direct_at (qcols_of c) ks) (row_direct_at (qcols_of c) ks').
Proof.
  intros SL R P. unfold row_direct_at, row_direct, qcols_of. cbn [q_x q_y q_w].
  unfold same_len in SL. apply andb_true_iff in SL as [SLy SLw].
  assert (Rx : Forall (fun k => (Z.to_nat k < length (qcol (c_x c)))%nat) ks).
  { unfold inrange in R. rewrite qcol_length. exact R. }
  assert (Pv := vals_perm (qcol (c_x c)) ks ks' P).
  destruct (vals (qcol (c_x c)) ks) as [|a t] eqn:Ex.
  - apply Permutation_nil in Pv. rewrite Pv.
    destruct (c_y c), (c_w c); cbn [ocol ovals]; apply Forall2_refl, timp_refl.
  - destruct (vals (qcol (c_x c)) ks') as [|a' t'] eqn:Ex'.
    { apply Permutation_sym, Permutation_nil in Pv. discriminate. }
    rewrite <- Ex, <- Ex'.
    apply Forall2_app.
    { apply (ublock_direct_perm (den_of (emin (c_x c)))); [exact (vals_perm _ _ _ P)|].
      apply vals_den; [apply qcol_den | exact Rx]. }
    apply Forall2_app.
    { destruct (c_y c) as [y|]; cbn [ocol ovals]; [|constructor].
      apply Nat.eqb_eq in SLy.
      apply (ublock_direct_perm (den_of (emin y))); [exact (vals_perm _ _ _ P)|].
      apply vals_den; [apply qcol_den|]. rewrite qcol_length, SLy. exact R. }
    destruct (c_w c) as [w|]; cbn [ocol ovals]; [|constructor].
    apply Forall2_app.
    { f2cons. apply timp_lin.
      - apply Sum_perm. exact (vals_perm _ _ _ P).
      - apply Sum_perm. apply Permutation_map. exact (vals_perm _ _ _ P). }
    apply Forall2_app.
    { unfold vals. apply wblock_direct_perm. exact P. }
    destruct (c_y c) as [y|]; cbn [ocol ovals]; [|constructor].
    unfold vals. apply wblock_direct_perm. exact P.
Qed.

(* ------------------------------------------------------------------ lists *)
Lemma forallb2_Forall2 {A B} (p : A -> B -> bool) a b :
  forallb2 p a b = true -> Forall2 (fun x y => p x y = true) a b.
Proof.
  revert b. induction a as [|x s IH]; intros [|y t] H; simpl in H; try discriminate; constructor.
  - apply andb_true_iff in H as [H _]. assumption.
  - apply IH. apply andb_true_iff in H as [_ H]. assumption.
Qed.

Lemma Forall2_comp {A B} (P : A -> B -> Prop) (R : B -> B -> Prop) (Q' : A -> B -> Prop) a b b' :
  (forall x y y', P x y -> R y y' -> Q' x y') -> Forall2 P a b -> Forall2 R b b' -> Forall2 Q' a b'.
Proof.
  intros H F. revert b'. induction F as [|x y s t Hxy F IH]; intros b' G; inversion G; subst; constructor.
  - eapply H; eassumption.
  - apply IH. assumption.
Qed.

Lemma Forall2_len {A B} (R : A -> B -> Prop) a b : Forall2 R a b -> length a = length b.
Proof. induction 1; simpl; congruence. Qed.

Lemma zseq_length s n : length (zseq s n) = n.
Proof. revert s. induction n as [|n IH]; intro s; simpl; [reflexivity | rewrite IH; reflexivity]. Qed.

Lemma zseq_nth n : forall s i d, (i < n)%nat -> nth i (zseq s n) d = (s + Z.of_nat i)%Z.
Proof.
  induction n as [|n IH]; intros s i d H; [lia|].
  destruct i as [|i]; simpl.
  - lia.
  - rewrite IH by lia. lia.
Qed.

Lemma zseq_In s n k : In k (zseq s n) <-> (s <= k < s + Z.of_nat n)%Z.
Proof.
  revert s. induction n as [|n IH]; intro s; simpl.
  - split; [contradiction | lia].
  - rewrite IH. lia.
Qed.

Lemma meets_rows (r : list float) tm td : row_meets r tm = true -> Forall2 tref tm td -> Forall2 Meets r td.
Proof.
  intros H F. apply forallb2_Forall2 in H.
  eapply Forall2_comp; [|exact H|exact F]. intros f t t' Hm Hr. apply Hr. assumption.
Qed.

Lemma Meets_rows (r : list float) td td' : Forall2 Meets r td -> Forall2 timp td td' -> Forall2 Meets r td'.
Proof.
  intros H F. eapply Forall2_comp; [|exact H|exact F]. intros f t t' Hm Hr. apply Hr. assumption.
Qed.

(* ------------------------------------------------------------------ positivity of the weights *)
Definition mem_inrange (c : cols) (mem : Z -> list Z) (nbin : Z) : Prop :=
  forall i, (0 <= i < nbin)%Z -> inrange c (mem i).

Lemma cols_ok_same_len c : cols_ok c = true -> same_len c = true.
Proof.
  unfold cols_ok. intro H. apply andb_true_iff in H as [H _]. apply andb_true_iff in H as [H _].
  apply andb_true_iff in H as [H _]. assumption.
Qed.

Lemma cols_ok_wpos c ks : cols_ok c = true -> inrange c ks -> wpos (ovals (q_w (qcols_of c)) ks).
Proof.
  intros H R. assert (SL := cols_ok_same_len c H).
  unfold cols_ok in H. apply andb_true_iff in H as [_ H].
  unfold qcols_of. cbn [q_w]. destruct (c_w c) as [w|] eqn:Ew; cbn [ocol ovals wpos]; [|exact I].
  apply andb_true_iff in H as [_ H].
  unfold same_len in SL. rewrite Ew in SL. apply andb_true_iff in SL as [_ SL]. apply Nat.eqb_eq in SL.
  apply vals_Forall.
  - apply Forall_forall. intros q Hq. rewrite forallb_forall in H. specialize (H q Hq).
    unfold qpos in H. apply negb_true_iff in H. apply Qnot_le_lt. intro G. apply Qle_bool_iff in G. congruence.
  - rewrite qcol_length, SL. exact R.
Qed.

(* ------------------------------------------------------------------ checker soundness *)
Theorem stats_check_sound mem nbin c rows :
  cols_ok c = true -> mem_inrange c mem nbin ->
  stats_check mem nbin c rows = true -> stats_ok mem nbin c rows.
Proof.
  intros OK R H. unfold stats_check in H. apply andb_true_iff in H as [HL H].
  apply Z.eqb_eq in HL. split; [assumption|].
  intros i Hi. rewrite forallb_forall in H.
  assert (Hin : In i (zseq 0 (Z.to_nat nbin))) by (apply zseq_In; lia).
  specialize (H i Hin). eapply meets_rows; [exact H|].
  unfold row_at, row_direct_at. apply row_ref. apply cols_ok_wpos; [assumption | apply R; assumption].
Qed.

(* ------------------------------------------------------------------ model => property *)
(* whatever agrees with the rows the model computes from the reverse indices satisfies the
   statement about the members, provided each slice holds exactly the members of its bin *)
Theorem stats_of_members mem nbin c rev rows :
  cols_ok c = true -> mem_inrange c mem nbin -> (0 <= nbin)%Z ->
  (forall i, (0 <= i < nbin)%Z -> Permutation (bin_slice rev i) (mem i)) ->
  rows_meet rows (calc_rows true c nbin rev) = true ->
  stats_ok mem nbin c rows.
Proof.
  intros OK R Hn PM H. unfold rows_meet in H. apply forallb2_Forall2 in H.
  assert (HL : length rows = Z.to_nat nbin).
  { rewrite (Forall2_len _ _ _ H). unfold calc_rows. rewrite map_length, zseq_length. reflexivity. }
  split; [lia|].
  intros i Hi.
  assert (Hm : row_meets (nth (Z.to_nat i) rows []) (row_at true (qcols_of c) (bin_slice rev i)) = true).
  { assert (G : forall (a : list (list float)) (b : list (list tgt)) j,
               Forall2 (fun x y => row_meets x y = true) a b -> (j < length a)%nat ->
               row_meets (nth j a []) (nth j b []) = true).
    { intros a b j F. revert j. induction F as [|x y s t Hxy F IH]; intros [|j] Hj; simpl in *; try lia.
      - assumption.
      - apply IH. lia. }
    specialize (G _ _ (Z.to_nat i) H ltac:(lia)).
    unfold calc_rows in G.
    rewrite (nth_indep _ [] (row_at true (qcols_of c) (bin_slice rev 0))) in G
      by (rewrite map_length, zseq_length; lia).
    rewrite (map_nth (fun i => row_at true (qcols_of c) (bin_slice rev i))) in G.
    rewrite zseq_nth in G by lia. replace (0 + Z.of_nat (Z.to_nat i))%Z with i in G by lia. exact G. }
  assert (SL := cols_ok_same_len c OK).
  assert (Rs : inrange c (bin_slice rev i)).
  { unfold inrange. apply Forall_forall. intros k Hk.
    apply (Permutation_in _ (PM i Hi)) in Hk. specialize (R i Hi). unfold inrange in R.
    rewrite Forall_forall in R. apply R. assumption. }
  eapply Meets_rows.
  - eapply meets_rows; [exact Hm|]. unfold row_at. apply row_ref. apply cols_ok_wpos; assumption.
  - apply row_direct_at_perm; [assumption | assumption | apply PM; assumption].
Qed.

(* ------------------------------------------------------------------ what the checker decides, exactly *)
Lemma Forall2_forallb2 {A B} (p : A -> B -> bool) a b :
  Forall2 (fun x y => p x y = true) a b -> forallb2 p a b = true.
Proof. induction 1; simpl; [reflexivity|]. rewrite H, IHForall2. reflexivity. Qed.

Lemma row_meets_iff r t : row_meets r t = true <-> Forall2 Meets r t.
Proof.
  unfold row_meets. split; intro H.
  - apply forallb2_Forall2 in H. induction H; constructor; [apply meets_iff; assumption | assumption].
  - apply Forall2_forallb2. induction H; constructor; [apply meets_iff; assumption | assumption].
Qed.

(* stats_check accepts exactly the reports whose every row meets the targets that the model's per-bin
   function demands for the members taken from the data (sound for the property by stats_check_sound;
   stricter than the property only where the code copies a datum exactly: single-member bins) *)
Theorem stats_check_exact mem nbin c rows :
  stats_check mem nbin c rows = true <->
  (Z.of_nat (length rows) = nbin
   /\ forall i, (0 <= i < nbin)%Z -> Forall2 Meets (nth (Z.to_nat i) rows []) (row_at true (qcols_of c) (mem i))).
Proof.
  unfold stats_check. cbv zeta. rewrite andb_true_iff, Z.eqb_eq, forallb_forall. split; intros [HL H]; (split; [exact HL|]).
  - intros i Hi. apply row_meets_iff. apply H. apply zseq_In. lia.
  - intros i Hi. apply zseq_In in Hi. apply row_meets_iff. apply H. lia.
Qed.

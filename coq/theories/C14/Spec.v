(* C14 — the property as Props over textbook definitions (sums by the naive recursion [Sum]),
   and the boolean checkers evaluated by the correspondence run on the real outputs.

   Members.  In binsize/nbin mode the members of bin i are C05's [members]: the indices of the
   data within the caller's limits whose bin index floor((x - min)/binsize) is i — defined on the
   data, not on rev.  In nperbin mode they are the i-th chunk of the selected data in stable
   sorted order ([chunks]).

   Per-bin quantities ([row_direct]): for an empty bin the sentinel -9999 (summed weight 0);
   otherwise, of the member values v (weights w):
     mean   Sum v / n                         std    sqrt(Sum (v - mean)^2 / n)
     err    std / sqrt n   (n >= 2 only: the statement exempts single-member bins)
     median middle of the sorted values (mean of the two middle ones for even n)
     whist  Sum w          wmean  Sum (w v) / Sum w      wstd  sqrt(Sum w (v - wmean)^2 / Sum w)
     werr   1/sqrt(Sum w)  werr2  sqrt(Sum w^2 (v - wmean)^2) / Sum w
   "equal" is up to binary64 rounding, eps_tol = 1e-12 relative to a condition-aware scale (Model.tgt). *)
From Coq Require Import PrimFloat FloatOps SpecFloat QArith Qabs Sorting.Permutation.
From EsVerif.Common Require Import Base.
From EsVerif.C18 Require Model.
From EsVerif.C05 Require Import Model Spec.
From EsVerif.C14 Require Import Model.

(* ------------------------------------------------------------------ closeness as Props *)
Definition close_lin (y v tol : Q) : Prop := (Qabs (y - v) <= tol)%Q.
Definition close_sqrt (s V tol : Q) : Prop :=
  (0 <= s /\ 0 <= tol /\ (s <= tol \/ (s - tol) * (s - tol) <= V) /\ V <= (s + tol) * (s + tol))%Q.

Definition Meets_q (y : Q) (t : tgt) : Prop :=
  match t with
  | TAny => True
  | TExact q => (y == q)%Q
  | TLin q A => close_lin y q (eps_tol * A)
  | TSqrt V A => close_sqrt y V (eps_tol * (y + A))
  end.

Definition Meets (f : float) (t : tgt) : Prop :=
  match t with
  | TAny => True
  | _ => is_finite f = true /\ Meets_q (f2q f) t
  end.

(* ------------------------------------------------------------------ textbook definitions *)
Fixpoint Sum (l : list Q) : Q := match l with [] => 0%Q | x :: t => (x + Sum t)%Q end.

Section Defs.
  Open Scope Q_scope.
  Definition sqr (a : Q) : Q := a * a.
  Definition mean_def (v : list Q) : Q := Sum v / qn v.
  Definition var_def (v : list Q) : Q := Sum (map (fun a => sqr (a - mean_def v)) v) / qn v.
  Definition err2_def (v : list Q) : Q := var_def v / qn v.
  Definition absmean_def (v : list Q) : Q := Sum (map Qabs v) / qn v.
  (* the sort-based definition; StatProofs.median_rank characterises it by ranks *)
  Definition median_def (v : list Q) : Q := median_q v.

  Definition wmean_def (v w : list Q) : Q := Sum (W.map2 Qmult w v) / Sum w.
  Definition wvar_def (v w : list Q) : Q :=
    Sum (W.map2 (fun wi xi => wi * sqr (xi - wmean_def v w)) w v) / Sum w.
  Definition werr2_default_def (w : list Q) : Q := 1 / Sum w.
  Definition werr2_calc_def (v w : list Q) : Q :=
    Sum (W.map2 (fun wi xi => sqr wi * sqr (xi - wmean_def v w)) w v) / sqr (Sum w).
  Definition wabsmean_def (v w : list Q) : Q := Sum (W.map2 (fun wi xi => Qabs (wi * xi)) w v) / Sum w.
End Defs.

Definition ublock_direct (v : list Q) : list tgt :=
  let A := absmean_def v in
  [TLin (mean_def v) A; TSqrt (var_def v) A;
   (if (length v <=? 1)%nat then TAny else TSqrt (err2_def v) A);
   TLin (median_def v) A].

Definition wblock_direct (v w : list Q) : list tgt :=
  let A := wabsmean_def v w in
  [TLin (wmean_def v w) A; TSqrt (wvar_def v w) A; TSqrt (werr2_default_def w) 0; TSqrt (werr2_calc_def v w) A].

Definition row_direct (xs : list Q) (ys ws : option (list Q)) : list tgt :=
  match xs with
  | [] =>
      ublock_empty ++ (match ys with Some _ => ublock_empty | None => [] end)
      ++ (match ws with
          | Some _ => [TExact 0] ++ wblock_empty ++ (match ys with Some _ => wblock_empty | None => [] end)
          | None => []
          end)
  | _ =>
      ublock_direct xs ++ (match ys with Some y => ublock_direct y | None => [] end)
      ++ (match ws with
          | Some w => [TLin (Sum w) (Sum (map Qabs w))] ++ wblock_direct xs w
                      ++ (match ys with Some y => wblock_direct y w | None => [] end)
          | None => []
          end)
  end.

Definition row_direct_at (qc : qcols) (ks : list Z) : list tgt :=
  row_direct (vals (q_x qc) ks) (ovals (q_y qc) ks) (ovals (q_w qc) ks).

(* the inputs the statement is about: finite data, positive weights *)
Definition all_finite (v : list float) : bool := forallb is_finite v.
Definition qpos (q : Q) : bool := negb (Qle_bool q 0).
Definition cols_ok (c : cols) : bool :=
  same_len c && all_finite (c_x c)
  && (match c_y c with Some y => all_finite y | None => true end)
  && (match c_w c with Some w => all_finite w && forallb qpos (qcol w) | None => true end).

(* ------------------------------------------------------------------ the statistics statement *)
(* rows: one list of reported floats per bin, keys in the order of Model.row_of *)
Definition stats_ok (mem : Z -> list Z) (nbin : Z) (c : cols) (rows : list (list float)) : Prop :=
  Z.of_nat (length rows) = nbin
  /\ forall i, 0 <= i < nbin -> Forall2 Meets (nth (Z.to_nat i) rows []) (row_direct_at (qcols_of c) (mem i)).

(* checker: the model's per-bin function on the members taken from the DATA *)
Definition stats_check (mem : Z -> list Z) (nbin : Z) (c : cols) (rows : list (list float)) : bool :=
  let qc := qcols_of c in
  (Z.of_nat (length rows) =? nbin)
  && forallb (fun i => row_meets (nth (Z.to_nat i) rows []) (row_at true qc (mem i))) (zseq 0 (Z.to_nat nbin)).

(* ------------------------------------------------------------------ edges and centres *)
Section Edges.
  Variable dmin bsize : float.
  Definition edge_tgts (i : Z) : tgt * tgt * tgt :=
    let d := f2q dmin in let b := f2q bsize in let qi := inject_Z i in
    let A := (Qabs d + (qi + 1) * Qabs b)%Q in
    (TLin (d + qi * b) A, TLin (d + (qi + 1) * b) A, TLin (d + (qi + (1 # 2)) * b) A)%Q.

  Definition edge_ok (e : float * float * float) (i : Z) : Prop :=
    let '(lo, hi, ce) := e in let '(tl, th, tc) := edge_tgts i in
    Meets lo tl /\ Meets hi th /\ Meets ce tc.
  Definition edges_ok (nbin : Z) (es : list (float * float * float)) : Prop :=
    Z.of_nat (length es) = nbin
    /\ forall i, 0 <= i < nbin -> edge_ok (nth (Z.to_nat i) es (nan, nan, nan)) i.

  Definition edge_check (e : float * float * float) (i : Z) : bool :=
    let '(lo, hi, ce) := e in let '(tl, th, tc) := edge_tgts i in
    meets lo tl && meets hi th && meets ce tc.
  Definition edges_check (nbin : Z) (es : list (float * float * float)) : bool :=
    (Z.of_nat (length es) =? nbin)
    && forallb (fun i => edge_check (nth (Z.to_nat i) es (nan, nan, nan)) i) (zseq 0 (Z.to_nat nbin)).
End Edges.

(* ------------------------------------------------------------------ binsize / nbin mode *)
Definition binned_ok (c : cols) (lo hi : option float) (dmin bsize : float) (nbin : Z)
           (es : list (float * float * float)) (rows : list (list float)) : Prop :=
  edges_ok dmin bsize nbin es /\ stats_ok (members (c_x c) lo hi dmin bsize) nbin c rows.

Definition binned_check (c : cols) (lo hi : option float) (dmin bsize : float) (nbin : Z)
           (es : list (float * float * float)) (rows : list (list float)) : bool :=
  edges_check dmin bsize nbin es && stats_check (members (c_x c) lo hi dmin bsize) nbin c rows.

(* ------------------------------------------------------------------ nperbin mode *)
(* consecutive chunks of k; the remainder is a last bin of its own, or — when merging is asked
   for and there is a predecessor — part of the last full bin *)
Fixpoint chunks (fuel : nat) (k : nat) (merge : bool) (l : list Z) : list (list Z) :=
  match fuel with
  | O => []
  | S f =>
      match l with
      | [] => []
      | _ =>
          let rest := skipn k l in
          match rest with
          | [] => [l]
          | _ => if merge && (length rest <? k)%nat then [l]
                 else firstn k l :: chunks f k merge rest
          end
      end
  end.

Definition sf_eq (a b : float) : Prop := Prim2SF a = Prim2SF b.

Definition sf_eqb (a b : float) : bool :=
  match Prim2SF a, Prim2SF b with
  | S754_zero s, S754_zero t => Bool.eqb s t
  | S754_infinity s, S754_infinity t => Bool.eqb s t
  | S754_nan, S754_nan => true
  | S754_finite s m e, S754_finite t n f => Bool.eqb s t && Pos.eqb m n && Z.eqb e f
  | _, _ => false
  end.

Section Num.
  Variable c : cols.
  Variable lo hi : option float.
  Let x := c_x c.

  (* the data the caller's limits admit, as indices of the ORIGINAL array *)
  Definition selected : list Z := filter (fun j => in_limits lo hi (fget x j)) (indices x).

  Definition chunk_ok (hist rev : list Z) (low high : list float) (i : nat) (b : list Z) : Prop :=
    0 <= zget rev (Z.of_nat i) /\ 0 <= zget rev (Z.of_nat i + 1)
    /\ slice rev (Z.of_nat i) = b
    /\ zget hist (Z.of_nat i) = Z.of_nat (length b)
    /\ sf_eq (nth i low nan) (fget x (hd 0 b))
    /\ sf_eq (nth i high nan) (fget x (last b 0)).

  (* s: the selected data in stable sorted order (value, then original position) *)
  Definition num_ok (k : Z) (merge : bool) (hist rev : list Z) (low high : list float)
             (rows : list (list float)) : Prop :=
    exists s, Permutation s selected /\ ordered x s
      /\ let ch := chunks (length s) (Z.to_nat k) merge s in
         length hist = length ch /\ length low = length ch /\ length high = length ch
         /\ (forall i, (i < length ch)%nat -> chunk_ok hist rev low high i (nth i ch []))
         /\ stats_ok (fun i => nth (Z.to_nat i) ch []) (Z.of_nat (length ch)) c rows.

  Definition chunk_check (hist rev : list Z) (low high : list float) (i : nat) (b : list Z) : bool :=
    (0 <=? zget rev (Z.of_nat i)) && (0 <=? zget rev (Z.of_nat i + 1))
    && zlist_eqb (slice rev (Z.of_nat i)) b
    && (zget hist (Z.of_nat i) =? Z.of_nat (length b))
    && sf_eqb (nth i low nan) (fget x (hd 0 b))
    && sf_eqb (nth i high nan) (fget x (last b 0)).

  Definition num_check (k : Z) (merge : bool) (hist rev : list Z) (low high : list float)
             (rows : list (list float)) : bool :=
    let s := skipn (S (length hist)) rev in
    let ch := chunks (length s) (Z.to_nat k) merge s in
    perm_b s selected && ordered_b x s
    && Nat.eqb (length hist) (length ch) && Nat.eqb (length low) (length ch)
    && Nat.eqb (length high) (length ch)
    && forallb (fun i => chunk_check hist rev low high i (nth i ch [])) (seq 0 (length ch))
    && stats_check (fun i => nth (Z.to_nat i) ch []) (Z.of_nat (length ch)) c rows.
End Num.

(* ------------------------------------------------------------------ the as-found defect *)
(* known class of the unrepaired tree (for the record; fixes/C14 repairs it): a weighted run in
   which some bin has exactly one member *)
Definition has_single_weighted (c : cols) (nbin : Z) (mem : Z -> list Z) : bool :=
  match c_w c with
  | None => false
  | Some _ => existsb (fun i => Nat.eqb (length (mem i)) 1) (zseq 0 (Z.to_nat nbin))
  end.

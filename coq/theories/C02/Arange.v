(* C02/Arange.v -- hand model of numpy.arange(a, b, s, dtype='i8') for Python integers, and of
   numpy.unique on an integer array (sorted, duplicates removed).  Definitions only.
   Imported by the regenerated C02/Gen.v. *)
From EsVerif.Common Require Import Base.

(* number of elements: ceil((b - a) / s) clipped at 0; s = 0 (ZeroDivisionError in numpy) is excluded by
   the callers in Model.v, here it gives the empty list *)
Definition arange_len (a b s : Z) : Z :=
  if s >? 0 then (if b <=? a then 0 else (b - a + s - 1) / s)
  else if s <? 0 then (if a <=? b then 0 else (a - b + (- s) - 1) / (- s))
  else 0.

Definition arange (a b s : Z) : list Z :=
  map (fun k => a + k * s) (zseq 0 (Z.to_nat (arange_len a b s))).

(* numpy.unique *)
Fixpoint insert_u (x : Z) (l : list Z) : list Z :=
  match l with
  | [] => [x]
  | y :: t => if x <? y then x :: l else if x =? y then l else y :: insert_u x t
  end.
Definition sort_uniq (l : list Z) : list Z := fold_right insert_u [] l.

(* Python indexing of a 1-d integer array: x[i] with negative i counting from the end; x[i] = v *)
Definition lget (l : list Z) (i : Z) : Z :=
  nth (Z.to_nat (if i <? 0 then Z.of_nat (length l) + i else i)) l 0.
Definition lset (l : list Z) (i : Z) (v : Z) : list Z :=
  set_nth l (Z.to_nat (if i <? 0 then Z.of_nat (length l) + i else i)) v.
Definition lsize (l : list Z) : Z := Z.of_nat (length l).

(* tags for the regenerated decision trees of Recfile.read and SFile.read (Gen.v) *)
Inductive read_path := RPColumns | RPSlice (a b c : Z).     (* self._read_columns(colnums, rows) | self._read_binary_slice(slice(a,b,c)) *)
Inductive shape_tag := SPlain | STuple | STable.            (* result[fields] | split_fields(result) | result *)
Inductive post_tag := PSplit | PReduce | PNone.             (* split_fields(result) | reduce_array(result) | result *)

(* C02/Arange.v -- hand model of numpy.arange(a, b, s, dtype='i8') for Python integers, and of
   numpy.unique on an integer array (sorted, duplicates removed).  Definitions only.
   Imported by the regenerated C02/Gen.v. *)
From EsVerif.Common Require Import Base.

(* number of elements: ceil((b - a) / s) clipped at 0; s = 0 (ZeroDivisionError in numpy) is excluded by
   the callers in Model.v, here it gives the empty list *)
Definition arange_len (a b s : Z) : Z :=
  if s >? 0 then (if b <=? a then 0 else (b - a + s - 1) / s)
  else if s <? 0 then (if a <=? b then 0 else (a - b + (- s) - 1) / (- s))
  else 0.

Definition arange (a b s : Z) : list Z :=
  map (fun k => a + k * s) (zseq 0 (Z.to_nat (arange_len a b s))).

(* numpy.unique *)
Fixpoint insert_u (x : Z) (l : list Z) : list Z :=
  match l with
  | [] => [x]
  | y :: t => if x <? y then x :: l else if x =? y then l else y :: insert_u x t
  end.
Definition sort_uniq (l : list Z) : list Z := fold_right insert_u [] l.

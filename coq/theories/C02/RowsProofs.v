(* C02/RowsProofs.v -- row lists and column lists: numpy.unique gives the distinct members in ascending
   (file) order; out-of-range row lists are rejected; scalar rows count from the end. *)
From Coq Require Import ZArith List Bool Lia ZifyBool Sorted.
From EsVerif.Common Require Import Base.
From EsVerif.C02 Require Import Arange Gen Model Spec SliceProofs.
Import ListNotations.

Definition asc (l : list Z) : Prop := StronglySorted Z.lt l.

(* ------------------------------------------------------------------ sorted duplicate-free lists *)
Lemma asc_unique l1 : forall l2, asc l1 -> asc l2 -> (forall x, In x l1 <-> In x l2) -> l1 = l2.
Proof.
  induction l1 as [|a t IH]; intros [|b u] H1 H2 E.
  - reflexivity.
  - exfalso. apply (proj2 (E b)). left; reflexivity.
  - exfalso. apply (proj1 (E a)). left; reflexivity.
  - inversion H1 as [|? ? S1 F1]; inversion H2 as [|? ? S2 F2]; subst.
    rewrite Forall_forall in F1, F2.
    assert (a = b).
    { destruct (proj1 (E a) (or_introl eq_refl)) as [->|Ha]; [reflexivity|].
      destruct (proj2 (E b) (or_introl eq_refl)) as [<-|Hb]; [reflexivity|].
      specialize (F1 _ Hb). specialize (F2 _ Ha). lia. }
    subst b. f_equal. apply IH; auto. intro x. split; intro Hx.
    + destruct (proj1 (E x) (or_intror Hx)) as [<-|]; [specialize (F1 _ Hx); lia|assumption].
    + destruct (proj2 (E x) (or_intror Hx)) as [<-|]; [specialize (F2 _ Hx); lia|assumption].
Qed.

Lemma insert_u_In x l y : In y (insert_u x l) <-> y = x \/ In y l.
Proof.
  induction l as [|a t IH]; simpl; [intuition|].
  destruct (x <? a) eqn:E1; simpl; [intuition|].
  destruct (x =? a) eqn:E2; simpl.
  - apply Z.eqb_eq in E2. subst. intuition.
  - rewrite IH. intuition.
Qed.

Lemma insert_u_asc x l : asc l -> asc (insert_u x l).
Proof.
  unfold asc. induction l as [|a t IH]; intro H; simpl.
  - constructor; constructor.
  - inversion H as [|? ? S F]; subst.
    destruct (x <? a) eqn:E1.
    + constructor; [assumption|]. constructor; [lia|]. rewrite Forall_forall in *. intros y Hy. specialize (F _ Hy). lia.
    + destruct (x =? a) eqn:E2; [assumption|].
      constructor; [apply IH; assumption|]. rewrite Forall_forall in *. intros y Hy.
      apply insert_u_In in Hy as [->|Hy]; [lia|auto].
Qed.

Lemma sort_uniq_asc l : asc (sort_uniq l).
Proof. induction l; simpl; [constructor|apply insert_u_asc; assumption]. Qed.

Lemma sort_uniq_In l y : In y (sort_uniq l) <-> In y l.
Proof. induction l as [|a t IH]; simpl; [tauto|]. rewrite insert_u_In, IH. intuition. Qed.

Lemma zseq_In m : forall s i, In i (zseq s m) <-> s <= i < s + Z.of_nat m.
Proof. induction m as [|m IH]; intros s i; simpl; [lia|]. rewrite IH. lia. Qed.

Lemma zseq_asc m : forall s, asc (zseq s m).
Proof.
  induction m as [|m IH]; intro s; simpl; constructor; [apply IH|].
  rewrite Forall_forall. intros y Hy. apply zseq_In in Hy. lia.
Qed.

Lemma filter_asc (p : Z -> bool) l : asc l -> asc (filter p l).
Proof.
  unfold asc. induction 1 as [|a t S IH F]; simpl; [constructor|].
  destruct (p a); [|assumption]. constructor; [assumption|].
  rewrite Forall_forall in *. intros y Hy. apply filter_In in Hy as [Hy _]. auto.
Qed.

Lemma zmem_In l x : zmem l x = true <-> In x l.
Proof.
  unfold zmem. rewrite existsb_exists. split.
  - intros [y [Hy E]]. apply Z.eqb_eq in E. subst; assumption.
  - intro H. exists x. split; [assumption|apply Z.eqb_refl].
Qed.

Lemma members_in_order_asc m l : asc (members_in_order m l).
Proof. apply filter_asc, zseq_asc. Qed.

Lemma members_in_order_In m l y : 0 <= m -> In y (members_in_order m l) <-> 0 <= y < m /\ In y l.
Proof.
  intro Hm. unfold members_in_order. rewrite filter_In, zseq_In, zmem_In. rewrite Z2Nat.id by lia. intuition lia.
Qed.

(* "a row list yields its distinct rows in ascending order" *)
Lemma sort_uniq_members m l : 0 <= m -> Forall (fun x => 0 <= x < m) l -> sort_uniq l = members_in_order m l.
Proof.
  intros Hm F. apply asc_unique; [apply sort_uniq_asc|apply members_in_order_asc|].
  intro x. rewrite sort_uniq_In, members_in_order_In by assumption. rewrite Forall_forall in F.
  split; [intro H; split; auto|tauto].
Qed.

Lemma asc_head_min a t x : asc (a :: t) -> In x (a :: t) -> a <= x.
Proof. intros H [->|Hx]; [lia|]. inversion H as [|? ? _ F]; subst. rewrite Forall_forall in F. specialize (F _ Hx). lia. Qed.

Lemma asc_last_max l : forall x, asc l -> In x l -> x <= last l 0.
Proof.
  induction l as [|a t IH]; intros x H Hx; [destruct Hx|].
  inversion H as [|? ? S F]; subst. destruct t as [|b u].
  - destruct Hx as [->|[]]. simpl; lia.
  - change (last (a :: b :: u) 0) with (last (b :: u) 0).
    destruct Hx as [<-|Hx]; [|apply IH; assumption].
    rewrite Forall_forall in F. assert (a < b) by (apply F; left; reflexivity).
    assert (b <= last (b :: u) 0) by (apply IH; [assumption|left; reflexivity]). lia.
Qed.

Lemma last_In (l : list Z) d : l <> [] -> In (last l d) l.
Proof.
  induction l as [|a t IH]; [congruence|]. intros _. destruct t as [|b u]; [left; reflexivity|].
  right. apply IH. discriminate.
Qed.

(* ------------------------------------------------------------------ Recfile._get_rows2read *)
Lemma rows2read_checked n u :
  asc u -> (forall x, In x u -> 0 <= x < n) ->
  match u with
  | [] => Ok (Some [])
  | rmin :: _ => if (rmin <? 0) || (last u 0 >=? n) then Err EValue else Ok (Some u)
  end = Ok (Some u).
Proof.
  intros A R. destruct u as [|a t]; [reflexivity|].
  assert (0 <= a < n) by (apply R; left; reflexivity).
  assert (0 <= last (a :: t) 0 < n) by (apply R, last_In; discriminate).
  replace (a <? 0) with false by lia. replace (last (a :: t) 0 >=? n) with false by lia. reflexivity.
Qed.

Theorem rows_list_spec n l :
  0 <= n -> Forall (fun x => 0 <= x < n) l ->
  get_rows2read n (Some l) = Ok (Some (members_in_order n l)).
Proof.
  intros Hn F. unfold get_rows2read.
  assert (E : match l with [x] => [fix_range_v n x false] | _ => l end = l).
  { destruct l as [|x [|y t]]; try reflexivity. inversion F; subst. rewrite fix_range_v_scalar.
    replace (x <? 0) with false by lia. reflexivity. }
  rewrite E. rewrite (sort_uniq_members n l Hn F).
  apply rows2read_checked; [apply members_in_order_asc|].
  intros x Hx. apply members_in_order_In in Hx; tauto.
Qed.

Theorem rows_scalar_spec n r :
  - n <= r < n -> get_rows2read n (Some [r]) = Ok (Some [r mod n]).
Proof.
  intro H. unfold get_rows2read. rewrite fix_range_v_scalar. simpl.
  assert (E : (if r <? 0 then n + r else r) = r mod n).
  { destruct (r <? 0) eqn:E1.
    - apply (Z.mod_unique_pos r n (-1) (n + r)); lia.
    - symmetry. apply Z.mod_small; lia. }
  rewrite E. assert (0 <= r mod n < n) by (apply Z.mod_pos_bound; lia).
  replace (r mod n <? 0) with false by lia. replace (r mod n >=? n) with false by lia. reflexivity.
Qed.

Theorem rows_list_rejected n l :
  0 <= n -> (exists x, In x l /\ (x < - n \/ n <= x)) -> get_rows2read n (Some l) = Err EValue.
Proof.
  intros Hn [x [Hx Hr]]. unfold get_rows2read.
  set (l1 := match l with [y] => [fix_range_v n y false] | _ => l end).
  assert (Hx1 : exists y, In y l1 /\ (y < 0 \/ n <= y)).
  { subst l1. destruct l as [|y [|z t]]; [destruct Hx| |exists x; split; [assumption|lia]].
    destruct Hx as [->|[]]. exists (fix_range_v n x false). split; [left; reflexivity|].
    rewrite fix_range_v_scalar. destruct (x <? 0) eqn:E; lia. }
  destruct Hx1 as [y [Hy Hyr]].
  pose proof (sort_uniq_asc l1) as A. apply sort_uniq_In in Hy.
  destruct (sort_uniq l1) as [|a t] eqn:Eu; [destruct Hy|].
  pose proof (asc_head_min a t y A Hy). pose proof (asc_last_max (a :: t) y A Hy).
  destruct ((a <? 0) || (last (a :: t) 0 >=? n)) eqn:E; [reflexivity|]. lia.
Qed.

Theorem rows_empty_spec n : get_rows2read n (Some []) = Ok (Some []).
Proof. reflexivity. Qed.

(* ------------------------------------------------------------------ get_colnums *)
Lemma index_of_spec names : forall c i k, index_of names c i = Some k ->
  i <= k < i + Z.of_nat (length names) /\ nth (Z.to_nat (k - i)) names (c + 1) = c.
Proof.
  induction names as [|a t IH]; intros c i k H; simpl in *; [discriminate|].
  destruct (a =? c) eqn:E.
  - inversion H; subst. replace (k - k) with 0 by lia. simpl. split; lia.
  - apply IH in H as [H1 H2]. split; [lia|].
    replace (Z.to_nat (k - i)) with (S (Z.to_nat (k - (i + 1)))) by lia. exact H2.
Qed.

Lemma index_of_complete names : forall c i, In c names -> exists k, index_of names c i = Some k.
Proof.
  induction names as [|a t IH]; intros c i H; [destruct H|]. simpl.
  destruct (a =? c) eqn:E; [eauto|]. destruct H as [->|H]; [lia|]. apply IH; assumption.
Qed.

Lemma index_of_first names : forall c i j, NoDup names -> (j < length names)%nat -> nth j names (c + 1) = c ->
  index_of names c i = Some (i + Z.of_nat j).
Proof.
  induction names as [|a t IH]; intros c i j ND Hj E; simpl in *; [lia|].
  inversion ND as [|? ? Hnin ND']; subst. destruct j as [|j].
  - subst a. rewrite Z.eqb_refl. f_equal; lia.
  - destruct (a =? c) eqn:E1.
    + apply Z.eqb_eq in E1. subst a. exfalso. apply Hnin. rewrite <- E. apply nth_In. lia.
    + rewrite (IH c (i + 1) j ND' ltac:(lia) E). f_equal; lia.
Qed.

Lemma colnums_of_In names cs : forall l, colnums_of names cs = Ok l ->
  forall k, In k l <-> exists c, In c cs /\ index_of names c 0 = Some k.
Proof.
  induction cs as [|c t IH]; intros l H k; simpl in H.
  - inversion H; subst. simpl. split; [tauto|intros [c [[] _]]].
  - destruct (index_of names c 0) as [i|] eqn:E; [|discriminate].
    destruct (colnums_of names t) as [r|] eqn:E2; simpl in H; [|discriminate]. inversion H; subst.
    simpl. rewrite (IH r eq_refl k). split.
    + intros [<-|[c' [Hc' E']]]; [exists c; auto|exists c'; auto].
    + intros [c' [[<-|Hc'] E']]; [left; congruence|right; eauto].
Qed.

Lemma colnums_of_ok names cs : Forall (fun c => In c names) cs -> exists l, colnums_of names cs = Ok l.
Proof.
  induction 1 as [|c t Hc F [r IH]]; simpl; [eauto|].
  destruct (index_of_complete names c 0 Hc) as [k ->]. rewrite IH. simpl. eauto.
Qed.

Lemma pos_of_index_of names : forall c i, pos_of names c i = index_of names c i.
Proof. induction names as [|a t IH]; intros; simpl; [reflexivity|]. rewrite IH. reflexivity. Qed.

Lemma combine_zseq_In (names : list Z) : forall s c k, In (c, k) (combine names (zseq s (length names))) <->
  s <= k < s + Z.of_nat (length names) /\ nth (Z.to_nat (k - s)) names (c + 1) = c.
Proof.
  induction names as [|a t IH]; intros s c k; simpl; [split; [tauto|lia]|].
  rewrite IH. split.
  - intros [E|[H1 H2]].
    + inversion E; subst. replace (k - k) with 0 by lia. simpl. split; lia.
    + split; [lia|]. replace (Z.to_nat (k - s)) with (S (Z.to_nat (k - (s + 1)))) by lia. exact H2.
  - intros [H1 H2]. destruct (Z.eq_dec k s) as [->|Hne].
    + left. replace (s - s) with 0 in H2 by lia. simpl in H2. congruence.
    + right. split; [lia|]. replace (Z.to_nat (k - s)) with (S (Z.to_nat (k - (s + 1)))) in H2 by lia. exact H2.
Qed.

Lemma map_snd_filter_asc (p : Z * Z -> bool) (names : list Z) s :
  asc (map snd (filter p (combine names (zseq s (length names))))).
Proof.
  revert s. induction names as [|a t IH]; intro s; simpl; [constructor|].
  destruct (p (a, s)); simpl; [|apply IH]. constructor; [apply IH|].
  rewrite Forall_forall. intros y Hy. apply in_map_iff in Hy as [[c k] [E Hy]]. simpl in E; subst.
  apply filter_In in Hy as [Hy _]. apply combine_zseq_In in Hy. lia.
Qed.

(* "a column list yields those columns in file order" *)
Theorem columns_file_order names cs :
  NoDup names -> Forall (fun c => In c names) cs ->
  get_colnums names cs =
  Ok (map snd (filter (fun p => zmem cs (fst p)) (combine names (zseq 0 (length names))))).
Proof.
  intros ND F. unfold get_colnums. destruct (colnums_of_ok names cs F) as [l El]. rewrite El. simpl. f_equal.
  apply asc_unique; [apply sort_uniq_asc|apply map_snd_filter_asc|].
  intro k. rewrite sort_uniq_In, (colnums_of_In names cs l El k), in_map_iff. split.
  - intros [c [Hc E]]. exists (c, k). split; [reflexivity|]. apply filter_In. split.
    + apply combine_zseq_In. apply index_of_spec in E. replace (k - 0) with k in * by lia. exact E.
    + simpl. apply zmem_In. exact Hc.
  - intros [[c k'] [E H]]. simpl in E; subst k'. apply filter_In in H as [H1 H2]. simpl in H2. apply zmem_In in H2.
    apply combine_zseq_In in H1 as [H1 H3]. exists c. split; [assumption|].
    replace (k - 0) with k in H3 by lia.
    rewrite (index_of_first names c 0 (Z.to_nat k) ND ltac:(lia) H3). f_equal; lia.
Qed.

(* C02/GenTie.v -- TIE LEMMAS: definitions regenerated from /repo's source on every run (Gen.v) are the
   definitions the model and its theorems use.  Recompiled whenever the regenerated text changes. *)
From Coq Require Import ZArith List Bool Lia ZifyBool.
From EsVerif.Common Require Import Base.
From EsVerif.C02 Require Import Arange Gen Model.
Import ListNotations.

Lemma nth_last_Z (l : list Z) d : nth (length l - 1) l d = last l d.
Proof.
  induction l as [|a t IH]; [reflexivity|]. destruct t as [|b u]; [reflexivity|].
  change (last (a :: b :: u) d) with (last (b :: u) d). rewrite <- IH. simpl. rewrite Nat.sub_0_r. reflexivity.
Qed.

(* Recfile._get_rows2read, translated statement by statement from the Python source, is Model.get_rows2read *)
Theorem get_rows2read_tie n rows : get_rows2read_gen n rows = get_rows2read n rows.
Proof.
  unfold get_rows2read_gen, get_rows2read. destruct rows as [l|]; [|reflexivity]. cbv zeta.
  assert (E1 : (if lsize l =? 1 then lset l 0 (fix_range_v n (lget l 0) false) else l)
               = match l with [x] => [fix_range_v n x false] | _ => l end).
  { destruct l as [|x [|y t]]; try reflexivity. unfold lsize. simpl length.
    replace (Z.of_nat (S (S (length t))) =? 1) with false by lia. reflexivity. }
  rewrite E1. set (u := sort_uniq (match l with [x] => [fix_range_v n x false] | _ => l end)).
  destruct u as [|m u']; [reflexivity|].
  unfold lsize. replace (Z.of_nat (length (m :: u')) =? 0) with false by (simpl length; lia).
  assert (E2 : lget (m :: u') 0 = m) by reflexivity.
  assert (E3 : lget (m :: u') (- (1)) = last (m :: u') 0).
  { unfold lget. replace (- (1) <? 0) with true by lia.
    replace (Z.to_nat (Z.of_nat (length (m :: u')) + - (1))) with (length (m :: u') - 1)%nat by (simpl length; lia).
    apply nth_last_Z. }
  rewrite E2, E3. reflexivity.
Qed.

(* Records::process_slice, translated from the C++ text, is Model.cpp_process_slice *)
Theorem cpp_process_slice_tie n row1 row2 step : cpp_process_slice_gen n row1 row2 step = cpp_process_slice n row1 row2 step.
Proof.
  unfold cpp_process_slice_gen, cpp_process_slice. cbv zeta.
  destruct (row1 <? 0); [reflexivity|]. destruct (row2 >? n); [reflexivity|]. destruct (step <=? 0); [reflexivity|].
  destruct (Z.rem (row2 - row1) step =? 0); reflexivity.
Qed.

(* ------------------------------------------------------------------ decision trees of Recfile.read / SFile.read *)
Section Trees.
  Variable P : nat -> list Byte.byte -> list Byte.byte.

  Definition exec_path (f : rfile) (colnums : list Z) (rows2 : option (list Z)) (p : read_path) : result (list (list cell)) :=
    match p with
    | RPColumns => read_columns P f colnums rows2
    | RPSlice a b c => read_binary_slice f (a, b, c)
    end.
  Definition apply_shape (s : shape_tag) (colnums : list Z) (data : list (list cell)) : value :=
    match s with
    | SPlain => VPlain (hd 0 colnums) (column_of data 0)
    | STuple => split_fields colnums data
    | STable => VTable colnums data
    end.
  Definition apply_post (p : post_tag) (v : value) : value :=
    match p with PSplit => sf_split_fields v | PReduce => reduce_array v | PNone => v end.

  (* Model.recfile_read follows the regenerated trees: which reader is called (and with which slice), and how the
     result is shaped, are what the source says now *)
  Theorem recfile_read_tie f r fields columns split :
    recfile_read P f r fields columns split =
    (do rows2 <- rows2read_of (rf_nrows f) r;
     do cs <- get_colnums_to_read (rf_names f) fields columns;
     do data <- exec_path f (fst cs) rows2
                  (read_dispatch_gen (rf_ascii f) (read_all_cols_gen (Some (fst cs)) (rf_ncols f))
                                     (read_all_rows_gen rows2 (rf_nrows f)) (rf_nrows f));
     Ok (apply_shape (read_shape_gen (snd cs) split) (fst cs) data)).
  Proof.
    unfold recfile_read. destruct (rows2read_of (rf_nrows f) r) as [rows2|e]; [|reflexivity]. cbn [bind].
    destruct (get_colnums_to_read (rf_names f) fields columns) as [[cs sc]|e]; [|reflexivity]. cbn [bind fst snd].
    unfold read_dispatch_gen, read_all_cols_gen, read_all_rows_gen, read_shape_gen, lsize.
    destruct (rf_ascii f).
    - cbn [exec_path]. destruct (read_columns P f cs rows2); [|reflexivity]. cbn [bind].
      destruct sc; [reflexivity|]. destruct split; reflexivity.
    - destruct (Z.of_nat (length cs) =? rf_ncols f); destruct rows2 as [l|];
        try destruct (Z.of_nat (length l) =? rf_nrows f); cbn [andb exec_path];
        match goal with |- context[bind ?d _] => destruct d end; try reflexivity; cbn [bind];
        destruct sc; try reflexivity; destruct split; reflexivity.
  Qed.

  Theorem sfile_read_tie f rows fields columns split reduce :
    sfile_read P f rows fields columns split reduce =
    (do v <- recfile_read P f rows CNone (match columns with CNone => fields | _ => columns end) false;
     Ok (apply_post (sfile_post_gen split reduce) v)).
  Proof.
    unfold sfile_read, sfile_post_gen.
    destruct (recfile_read P f rows CNone (match columns with CNone => fields | _ => columns end) false); [|reflexivity].
    cbn [bind]. destruct split; [reflexivity|]. destruct reduce; reflexivity.
  Qed.
End Trees.

(* C02/Model.v -- executable model of row/column subset reads of record files.  NO proofs here.

   Anchors (esheldon/esutil, after the repairs in /verif/fixes/C02):
     esutil/recfile/Util.py   Recfile.read (334-396), _read_columns (400-431), __getitem__ (462-510),
                              _read_binary_slice (526-549), _process_args_as_rows_or_columns (566-610),
                              _get_rows2read, _get_colnums_to_read, get_colnum(s) (307-332),
                              RecfileColumnSubset.read / __getitem__, split_fields
     esutil/recfile/records.cpp  skip_rows / skip_binary_rows (276-318), read_from_binary_column,
                              read_columns (515-520), read_text_columns (522-600; model: C04/TextModel.v),
                              read_binary_columns (604-684), process_slice (686-717), read_binary_slice (732-777)
     esutil/sfile.py          SFile.read (420-476), __getitem__, _do_read, split_fields, reduce_array, read()

   The integer functions _process_slice, _slice2rows, _fix_range, _get_slice_nrows are NOT written here:
   they are C02/Gen.v, regenerated from the Python source on every run.

   A file is the list of the bytes of its data section (from the offset the handle was opened with).
   Column names are integers (the harness numbers the distinct names of a case); a cell is the memory
   image of one field of one row. *)
From Coq.Strings Require Import Byte.
From EsVerif.Common Require Import Base Bytes.
From EsVerif.C04 Require Import TextModel.
From EsVerif.C02 Require Import Arange Gen.

Definition cell := list byte.

(* ------------------------------------------------------------------ what a read returns *)
Inductive value :=
| VTable (cols : list Z) (rows : list (list cell))      (* structured array: its columns (file positions), row by row *)
| VPlain (col : Z) (cells : list cell)                   (* plain array of one column *)
| VTuple (cols : list Z) (data : list (list cell))       (* tuple of plain arrays, one per column *)
| VNone.                                                 (* Python None *)

(* ------------------------------------------------------------------ the open handle *)
Record rfile := {
  rf_ascii : bool;            (* delim is not None *)
  rf_delim : byte;            (* text only *)
  rf_nrows : Z;               (* self.nrows / mNrows *)
  rf_names : list Z;          (* self.colnames *)
  rf_sizes : list Z;          (* mSizes: bytes per field (binary) *)
  rf_flds : list fld;         (* text: kinds, element sizes and shapes (C04/TextModel.v) *)
  rf_data : list byte         (* the file from mFileOffset on *)
}.
Definition rf_ncols (f : rfile) : Z := Z.of_nat (length (rf_names f)).

(* ------------------------------------------------------------------ arguments *)
Inductive rowsel :=
| RNone                                   (* rows=None *)
| RScalar (r : Z)                         (* a Python int *)
| RList (l : list Z)                      (* list / tuple / ndarray of ints *)
| RSlice (start stop step : option Z).    (* slice object (bracket styles only) *)
Inductive colsel :=
| CNone
| CName (c : Z)                           (* a single string *)
| CList (l : list Z).                     (* list / tuple / ndarray of strings *)

(* ------------------------------------------------------------------ Recfile._get_rows2read *)
(* numpy.atleast_1d(rows).astype('i8'); a single element goes through _fix_range(isslice=False);
   numpy.unique; empty -> empty; range check on first and last *)
Definition rows_atleast_1d (r : rowsel) : option (list Z) :=
  match r with
  | RNone => None
  | RScalar x => Some [x]
  | RList l => Some l
  | RSlice _ _ _ => None                  (* never passed as rows= by the modelled callers *)
  end.

Definition get_rows2read (n : Z) (rows : option (list Z)) : result (option (list Z)) :=
  match rows with
  | None => Ok None
  | Some l =>
      let l1 := match l with [x] => [fix_range_v n x false] | _ => l end in
      let u := sort_uniq l1 in
      match u with
      | [] => Ok (Some [])
      | rmin :: _ => let rmax := last u 0 in
                     if (rmin <? 0) || (rmax >=? n) then Err EValue else Ok (Some u)
      end
  end.

(* a slice object as rows=: atleast_1d(..).astype fails, then `slice < 0` raises TypeError *)
Definition rows2read_of (n : Z) (r : rowsel) : result (option (list Z)) :=
  match r with
  | RSlice _ _ _ => Err EType
  | _ => get_rows2read n (rows_atleast_1d r)
  end.

(* ------------------------------------------------------------------ get_colnum / get_colnums *)
Fixpoint index_of (names : list Z) (c : Z) (i : Z) : option Z :=
  match names with
  | [] => None
  | x :: t => if x =? c then Some i else index_of t c (i + 1)
  end.
Fixpoint colnums_of (names : list Z) (cs : list Z) : result (list Z) :=
  match cs with
  | [] => Ok []
  | c :: t => match index_of names c 0 with
              | None => Err EValue                       (* column not found *)
              | Some i => do r <- colnums_of names t; Ok (i :: r)
              end
  end.
Definition get_colnums (names : list Z) (cs : list Z) : result (list Z) :=
  do l <- colnums_of names cs; Ok (sort_uniq l).

(* _get_colnums_to_read(fields, columns): (colnums, is_scalar) *)
Definition get_colnums_to_read (names : list Z) (fields columns : colsel) : result (list Z * bool) :=
  let f := match fields with CNone => columns | _ => fields end in
  match f with
  | CNone => Ok (zseq 0 (length names), false)
  | CName c => do l <- get_colnums names [c]; Ok (l, true)
  | CList l => do l' <- get_colnums names l; Ok (l', false)
  end.

(* ------------------------------------------------------------------ binary cursor loops (records.cpp) *)
(* fseeko(SEEK_CUR) forward: may go beyond the end of the file without error *)
Definition seek (d : Z) (s : list byte) : list byte := if d >? 0 then skipn (Z.to_nat d) s else s.
(* fread(buf, size, 1, f) *)
Definition fread1 (size : Z) (s : list byte) : result (cell * list byte) :=
  if Z.of_nat (length s) <? size then Err ERuntime
  else Ok (firstn (Z.to_nat size) s, skipn (Z.to_nat size) s).

Definition zsum_to (l : list Z) (i : Z) : Z := zsum (firstn (Z.to_nat i) l).       (* mOffsets[i] *)
Definition rowsize (sizes : list Z) : Z := zsum sizes.                             (* mRowSize *)

(* a whole row as the cells of its fields *)
Fixpoint split_row (sizes : list Z) (r : list byte) : list cell :=
  match sizes with
  | [] => []
  | sz :: t => firstn (Z.to_nat sz) r :: split_row t (skipn (Z.to_nat sz) r)
  end.

(* Records::process_slice *)
Definition cpp_process_slice (n row1 row2 step : Z) : result Z :=
  if row1 <? 0 then Err ERuntime
  else if row2 >? n then Err ERuntime
  else if step <=? 0 then Err ERuntime
  else let rdiff := row2 - row1 in
       Ok (Z.quot rdiff step + (if Z.rem rdiff step =? 0 then 0 else 1)).

(* the step <> 1 loop of read_binary_slice: fread one row, skip step-1 rows *)
Fixpoint slice_loop (rs step : Z) (k : nat) (s : list byte) : result (list (list byte)) :=
  match k with
  | O => Ok []
  | S k' => do (r, s1) <- fread1 rs s;
            do t <- slice_loop rs step k' (seek (rs * (step - 1)) s1);
            Ok (r :: t)
  end.
(* the step = 1 branch: one fread of nrows2read rows; all of them or an error *)
Fixpoint fread_rows (rs : Z) (k : nat) (s : list byte) : result (list (list byte)) :=
  match k with
  | O => Ok []
  | S k' => do (r, s1) <- fread1 rs s; do t <- fread_rows rs k' s1; Ok (r :: t)
  end.

(* Records::read_binary_slice(array, row1, row2, step) *)
Definition cpp_read_binary_slice (f : rfile) (row1 row2 step : Z) : result (list (list byte)) :=
  let rs := rowsize (rf_sizes f) in
  do k <- cpp_process_slice (rf_nrows f) row1 row2 step;
  let s := seek (rs * row1) (rf_data f) in
  if step =? 1 then fread_rows rs (Z.to_nat k) s else slice_loop rs step (Z.to_nat k) s.

(* Recfile._read_binary_slice(slice(start, stop, step)): numpy.zeros(nrows) then the C++ call *)
Definition read_binary_slice (f : rfile) (sl : Z * Z * Z) : result (list (list cell)) :=
  let '(start, stop, step) := sl in
  if step =? 0 then Err EOther                                  (* ZeroDivisionError in _get_slice_nrows *)
  else do k <- get_slice_nrows start stop step;
       if k <? 0 then Err EValue                                (* numpy.zeros: negative dimensions *)
       else do rows <- cpp_read_binary_slice f start stop step;
            if Z.of_nat (length rows) =? k then Ok (map (split_row (rf_sizes f)) rows)
            else Err EOther                                     (* would overrun the array; never happens *)
.

(* inner loop of read_binary_columns over the requested columns of one row *)
Fixpoint bin_row_cols (sizes : list Z) (cols : list Z) (cur_col cur_off : Z) (s : list byte)
  : result (list cell * list byte) :=
  match cols with
  | [] => Ok ([], if cur_off <? rowsize sizes then seek (rowsize sizes - cur_off) s else s)
  | c :: cs =>
      let colsize := zget sizes c in
      let d := zsum_to sizes c - cur_off in
      let s1 := if c >? cur_col then seek d s else s in
      let col1 := if c >? cur_col then c else cur_col in
      let off1 := if c >? cur_col then cur_off + d else cur_off in
      do (x, s2) <- fread1 colsize s1;
      do (rest, s3) <- bin_row_cols sizes cs (col1 + 1) (off1 + colsize) s2;
      Ok (x :: rest, s3)
  end.

(* outer loop: rows are the row numbers handed over (None or as many as the file has: every row) *)
Fixpoint bin_rows (sizes cols : list Z) (rows : list Z) (cur_row : Z) (s : list byte) : result (list (list cell)) :=
  match rows with
  | [] => Ok []
  | r :: rs =>
      let s1 := if r >? cur_row then seek (rowsize sizes * (r - cur_row)) s else s in
      let cur1 := if r >? cur_row then r else cur_row in
      do (x, s2) <- bin_row_cols sizes cols 0 0 s1;
      do t <- bin_rows sizes cols rs (cur1 + 1) s2;
      Ok (x :: t)
  end.

Definition rows_to_visit (n : Z) (rows : option (list Z)) : list Z :=
  match rows with
  | None => zseq 0 (Z.to_nat n)
  | Some l => if Z.of_nat (length l) =? n then zseq 0 (Z.to_nat n) else l      (* doall_rows *)
  end.

Definition read_binary_columns (f : rfile) (cols : list Z) (rows : option (list Z)) : result (list (list cell)) :=
  bin_rows (rf_sizes f) cols (rows_to_visit (rf_nrows f) rows) 0 (rf_data f).

(* ------------------------------------------------------------------ text (C04/TextModel.v) *)
Section Text.
  Variable P : nat -> list byte -> list byte.          (* scanf oracle for floating-point tokens *)

  Definition read_text_cols (f : rfile) (cols : list Z) (rows : option (list Z)) : result (list (list cell)) :=
    do rs <- read_text_columns P (rf_delim f) (rf_flds f) (rf_nrows f) rows (Some cols) (rf_data f);
    Ok (map (map (@concat byte)) rs).

  (* Recfile._read_columns + Records::read_columns *)
  Definition read_columns (f : rfile) (cols : list Z) (rows : option (list Z)) : result (list (list cell)) :=
    if rf_ascii f then read_text_cols f cols rows else read_binary_columns f cols rows.

  (* ---------------------------------------------------------------- Recfile.read *)
  Definition column_of (rows : list (list cell)) (k : nat) : list cell := map (fun r => nth k r []) rows.
  Definition split_fields (cols : list Z) (rows : list (list cell)) : value :=
    VTuple cols (map (column_of rows) (seq 0 (length cols))).

  Definition recfile_read (f : rfile) (rows : rowsel) (fields columns : colsel) (split : bool) : result value :=
    do rows2 <- rows2read_of (rf_nrows f) rows;
    do (colnums, isscalar) <- get_colnums_to_read (rf_names f) fields columns;
    let all_rows := match rows2 with None => true | Some l => Z.of_nat (length l) =? rf_nrows f end in
    let all_cols := Z.of_nat (length colnums) =? rf_ncols f in
    do data <- (if rf_ascii f then read_columns f colnums rows2
                else if all_cols && all_rows then read_binary_slice f (0, rf_nrows f, 1)
                     else read_columns f colnums rows2);
    if isscalar then Ok (VPlain (hd 0 colnums) (column_of data 0))           (* result[name] *)
    else if split then Ok (split_fields colnums data)
    else Ok (VTable colnums data).

  (* rows= handed on by the bracket styles after unpacking a slice: a numpy array *)
  Definition recfile_read_rowlist (f : rfile) (l : list Z) (columns : colsel) : result value :=
    recfile_read f (RList l) CNone columns false.

  (* Recfile.__getitem__ with a row argument *)
  Definition recfile_getitem_rows (f : rfile) (r : rowsel) : result value :=
    match r with
    | RSlice a b c =>
        if rf_ascii f then do l <- slice2rows (rf_nrows f) a b c;
                           match c with Some 0 => Err EOther | _ => recfile_read_rowlist f l CNone end
        else do sl <- process_slice (rf_nrows f) a b c;
             do d <- read_binary_slice f sl; Ok (VTable (zseq 0 (length (rf_names f))) d)
    | RNone => Err EOther                      (* sf[None]: not modelled, not generated *)
    | _ => recfile_read f r CNone CNone false
    end.

  (* Recfile[cols][rows]: RecfileColumnSubset.__getitem__ always unpacks a slice *)
  Definition colsubset_getitem (f : rfile) (cols : colsel) (r : rowsel) : result value :=
    match r with
    | RSlice a b c =>
        do l <- slice2rows (rf_nrows f) a b c;
        match c with Some 0 => Err EOther | _ => recfile_read_rowlist f l cols end
    | RNone => Err EOther
    | _ => recfile_read f r CNone cols false
    end.

  (* Recfile[cols].read(rows=, split=) *)
  Definition colsubset_read (f : rfile) (cols : colsel) (r : rowsel) (split : bool) : result value :=
    recfile_read f r CNone cols split.

  (* ---------------------------------------------------------------- sfile.py *)
  Definition sf_split_fields (v : value) : value :=
    match v with
    | VTable cols rows => split_fields cols rows
    | VPlain c cells => VTuple [c] [cells]              (* no fields: (data,) *)
    | _ => v
    end.
  Definition reduce_array (v : value) : value :=
    match v with
    | VTable [c] rows => VPlain c (column_of rows 0)
    | _ => v
    end.
  (* SFile.read / sfile.read *)
  Definition sfile_read (f : rfile) (rows : rowsel) (fields columns : colsel) (split reduce : bool) : result value :=
    let cols := match columns with CNone => fields | _ => columns end in
    do v <- recfile_read f rows CNone cols false;
    Ok (if split then sf_split_fields v else if reduce then reduce_array v else v).

  (* ---------------------------------------------------------------- one request, any access style *)
  Inductive style :=
  | SRead            (* Recfile.read(rows=, columns=, split=) *)
  | SReadFields      (* Recfile.read(rows=, fields=, split=) *)
  | SGetitem         (* Recfile[rows] and SFile[rows] *)
  | SChain           (* Recfile[cols][rows] and SFile[cols][rows] *)
  | SChainRead       (* Recfile[cols].read(rows=, split=) *)
  | SSfRead          (* SFile.read(rows=, columns=, split=, reduce=) and sfile.read(filename, ...) *)
  | SSfReadFields.   (* SFile.read(rows=, fields=, ...) *)
  Record request := { q_style : style; q_rows : rowsel; q_cols : colsel; q_split : bool; q_reduce : bool }.

  Definition run_request (f : rfile) (q : request) : result value :=
    match q_style q with
    | SRead => recfile_read f (q_rows q) CNone (q_cols q) (q_split q)
    | SReadFields => recfile_read f (q_rows q) (q_cols q) CNone (q_split q)
    | SGetitem => recfile_getitem_rows f (q_rows q)
    | SChain => colsubset_getitem f (q_cols q) (q_rows q)
    | SChainRead => colsubset_read f (q_cols q) (q_rows q) (q_split q)
    | SSfRead => sfile_read f (q_rows q) CNone (q_cols q) (q_split q) (q_reduce q)
    | SSfReadFields => sfile_read f (q_rows q) (q_cols q) CNone (q_split q) (q_reduce q)
    end.
End Text.

(* C02/MainProofs.v -- the access styles composed: dispatch + index algebra + cursor loops on a
   well-formed binary file return what indexing the table gives. *)
From Coq Require Import ZArith List Bool Lia ZifyBool Sorted.
From Coq.Strings Require Import Byte.
From EsVerif.Common Require Import Base Bytes.
From EsVerif.C02 Require Import Arange Gen Model Spec SliceProofs RowsProofs CursorProofs.
Import ListNotations.

Lemma step_val_pos c : step_ok c -> 0 < step_val c.
Proof. destruct c; simpl; lia. Qed.

Section Styles.
  Variable P : nat -> list byte -> list byte.

  (* Recfile[start:stop:step] / SFile[start:stop:step] on a binary file *)
  Theorem binary_getitem_slice f t tail a b c :
    wf_bin f t tail -> t <> [] -> step_ok c ->
    recfile_getitem_rows P f (RSlice a b c)
    = Ok (VTable (zseq 0 (length (rf_names f))) (map (row_at t) (py_slice_rows (rf_nrows f) a b c))).
  Proof.
    intros W Hne Hc. unfold recfile_getitem_rows. rewrite (wf_binary _ _ _ W).
    destruct (process_slice_python (rf_nrows f) a b c) as (s0 & s1 & k & E1 & R01 & R1n & Ec & Eg & Hk & Er);
      [rewrite (wf_n _ _ _ W); lia | assumption |].
    rewrite E1. cbn [bind].
    rewrite (cursor_binary_slice_correct f t tail s0 s1 (step_val c) k W Hne R01 R1n (step_val_pos c Hc) Ec Eg).
    cbn [bind]. rewrite Er. reflexivity.
  Qed.

  (* Recfile[cols][start:stop:step]: the slice is expanded to the rows of the Python slice and handed
     to read(rows=, columns=) -- on binary and text files alike *)
  Theorem chain_slice_is_row_list f cols a b c :
    0 <= rf_nrows f -> step_ok c ->
    colsubset_getitem P f cols (RSlice a b c)
    = recfile_read P f (RList (py_slice_rows (rf_nrows f) a b c)) CNone cols false.
  Proof.
    intros Hn Hc. unfold colsubset_getitem. rewrite (slice2rows_python _ a b c Hn Hc). cbn [bind].
    destruct c as [[|p|p]|]; simpl in Hc; try lia; reflexivity.
  Qed.

  (* text files: Recfile[start:stop:step] takes the same route *)
  Theorem text_getitem_slice_is_row_list f a b c :
    rf_ascii f = true -> 0 <= rf_nrows f -> step_ok c ->
    recfile_getitem_rows P f (RSlice a b c)
    = recfile_read P f (RList (py_slice_rows (rf_nrows f) a b c)) CNone CNone false.
  Proof.
    intros Ha Hn Hc. unfold recfile_getitem_rows. rewrite Ha. rewrite (slice2rows_python _ a b c Hn Hc). cbn [bind].
    destruct c as [[|p|p]|]; simpl in Hc; try lia; reflexivity.
  Qed.

  (* ---------------------------------------------------------------- read(rows=list, columns=list) *)
  Lemma nth_zseq_gen {A} (d : A) : forall (l : list A) s,
    map (fun i => nth (Z.to_nat (i - s)) l d) (zseq s (length l)) = l.
  Proof.
    induction l as [|a u IH]; intro s; simpl; [reflexivity|]. f_equal.
    - replace (s - s) with 0 by lia. reflexivity.
    - etransitivity; [|apply (IH (s + 1))]. apply map_ext_in. intros i Hi. apply zseq_In in Hi.
      replace (Z.to_nat (i - s)) with (S (Z.to_nat (i - (s + 1)))) by lia. reflexivity.
  Qed.

  Lemma nth_zseq_id {A} (d : A) (l : list A) : map (fun i => nth (Z.to_nat i) l d) (zseq 0 (length l)) = l.
  Proof.
    etransitivity; [|apply (nth_zseq_gen d l 0)]. apply map_ext. intro i. replace (i - 0) with i by lia. reflexivity.
  Qed.

  Lemma sel_table_all (t : list (list cell)) m :
    Forall (fun r => length r = m) t -> sel_table t (zseq 0 (length t)) (zseq 0 m) = t.
  Proof.
    intro F. unfold sel_table. etransitivity; [|apply (nth_zseq_id [] t)].
    apply map_ext_in. intros r Hr. apply zseq_In in Hr. unfold cell_at.
    assert (L : length (nth (Z.to_nat r) t []) = m).
    { rewrite Forall_forall in F. apply F, nth_In. lia. }
    rewrite <- L. apply nth_zseq_id.
  Qed.

  Lemma file_order_cols_range names cs :
    Forall (fun c => 0 <= c < Z.of_nat (length names))
           (map snd (filter (fun p => zmem cs (fst p)) (combine names (zseq 0 (length names))))).
  Proof.
    rewrite Forall_forall. intros k Hk. apply in_map_iff in Hk as [[c k'] [E H]]. simpl in E; subst k'.
    apply filter_In in H as [H _]. apply combine_zseq_In in H. lia.
  Qed.

  Theorem binary_read_rows_columns f t tail l cs :
    wf_bin f t tail -> t <> [] -> NoDup (rf_names f) ->
    Forall (fun x => 0 <= x < rf_nrows f) l -> Forall (fun c => In c (rf_names f)) cs ->
    let cols := map snd (filter (fun p => zmem cs (fst p)) (combine (rf_names f) (zseq 0 (length (rf_names f))))) in
    recfile_read P f (RList l) CNone (CList cs) false
    = Ok (VTable cols (sel_table t (members_in_order (rf_nrows f) l) cols)).
  Proof.
    intros W Hne ND Fl Fc cols. pose proof W as [Wb Wd Wr Wn Wcn].
    assert (Hn : 0 <= rf_nrows f) by lia.
    unfold recfile_read, rows2read_of, rows_atleast_1d.
    rewrite (rows_list_spec _ l Hn Fl). cbn [bind].
    unfold get_colnums_to_read. rewrite (columns_file_order _ cs ND Fc). cbn [bind]. fold cols.
    rewrite Wb.
    assert (Ac : asc cols) by apply map_snd_filter_asc.
    assert (Rc : Forall (fun c => 0 <= c < Z.of_nat (length (rf_sizes f))) cols).
    { rewrite <- Wcn. apply file_order_cols_range. }
    set (rows := members_in_order (rf_nrows f) l).
    assert (Ar : asc rows) by apply members_in_order_asc.
    assert (Rr : Forall (fun r => 0 <= r < rf_nrows f) rows).
    { rewrite Forall_forall. intros y Hy. apply members_in_order_In in Hy; tauto. }
    assert (Data : (if (Z.of_nat (length cols) =? rf_ncols f) && (Z.of_nat (length rows) =? rf_nrows f)
                    then read_binary_slice f (0, rf_nrows f, 1) else read_columns P f cols (Some rows))
                   = Ok (sel_table t rows cols)).
    { destruct ((Z.of_nat (length cols) =? rf_ncols f) && (Z.of_nat (length rows) =? rf_nrows f)) eqn:E.
      - apply andb_true_iff in E as [E1 E2]. unfold rf_ncols in E1.
        assert (Ec : cols = zseq 0 (length (rf_names f))).
        { apply asc_full; [assumption| |lia]. rewrite Wcn. rewrite Forall_forall in *. intros y Hy. specialize (Rc _ Hy). lia. }
        assert (Er : rows = zseq 0 (length t)).
        { apply asc_full; [assumption| |lia]. rewrite Forall_forall in *. intros y Hy. specialize (Rr _ Hy). lia. }
        assert (Ecp : cpp_process_slice (rf_nrows f) 0 (rf_nrows f) 1 = Ok (rf_nrows f)).
        { unfold cpp_process_slice. replace (0 <? 0) with false by lia. replace (rf_nrows f >? rf_nrows f) with false by lia.
          simpl (1 <=? 0). cbv iota. rewrite Z.sub_0_r, Z.quot_1_r, Z.rem_1_r. simpl. f_equal. lia. }
        assert (Eg : get_slice_nrows 0 (rf_nrows f) 1 = Ok (rf_nrows f)).
        { unfold get_slice_nrows. cbv zeta. rewrite Z.sub_0_r, Z.mod_1_r, Z.div_1_r. simpl. f_equal. lia. }
        rewrite (cursor_binary_slice_correct f t tail 0 (rf_nrows f) 1 (rf_nrows f) W Hne ltac:(lia) ltac:(lia) ltac:(lia) Ecp Eg).
        f_equal. unfold slice_rows. rewrite Ec, Er.
        assert (Em : map (fun i => 0 + i * 1) (zseq 0 (Z.to_nat (rf_nrows f))) = zseq 0 (length t)).
        { rewrite Wn, Nat2Z.id. etransitivity; [|apply map_id]. apply map_ext. intro; lia. }
        rewrite Em.
        rewrite (sel_table_all t (length (rf_names f))).
        + apply (nth_zseq_id [] t).
        + rewrite Forall_forall in *. intros r Hr. specialize (Wr _ Hr). unfold row_ok in Wr.
          rewrite Wcn, <- Wr, map_length. reflexivity.
      - unfold read_columns. rewrite Wb.
        apply (cursor_binary_columns_correct f t tail cols (Some rows) W Hne Ac Rc). split; assumption. }
    rewrite Data. cbn [bind]. reflexivity.
  Qed.
End Styles.

(* C02/SpecProofs.v -- soundness of the boolean checker, and what the indexing rules of Spec.v mean. *)
From Coq.Strings Require Import Byte.
From Coq Require Import Sorted.
From EsVerif.Common Require Import Base Bytes.
From EsVerif.C02 Require Import Model Spec.

Lemma cells_eqb_eq a b : cells_eqb a b = true <-> a = b.
Proof. apply list_eqb_spec. intros; apply bytes_eqb_eq. Qed.

Lemma grid_eqb_eq a b : list_eqb cells_eqb a b = true <-> a = b.
Proof. apply list_eqb_spec. intros; apply cells_eqb_eq. Qed.

Lemma value_eqb_eq a b : value_eqb a b = true <-> a = b.
Proof.
  destruct a, b; simpl; split; intro H; try discriminate; try reflexivity;
    try (apply andb_true_iff in H as [H1 H2]);
    try (apply zlist_eqb_spec in H1); try (apply grid_eqb_eq in H2);
    try (apply Z.eqb_eq in H1); try (apply cells_eqb_eq in H2); subst; try reflexivity;
    inversion H; subst; apply andb_true_iff; split;
    try (apply zlist_eqb_spec; reflexivity); try (apply grid_eqb_eq; reflexivity);
    try (apply Z.eqb_eq; reflexivity); try (apply cells_eqb_eq; reflexivity).
Qed.

Lemma check_sound n names full q out : check n names full q out = true <-> holds n names full q out.
Proof.
  unfold check, holds. destruct (expectation n names full q) as [| |vs].
  - tauto.
  - destruct out; simpl; split; intro H; try discriminate; eauto. destruct H as [e H]; discriminate.
  - destruct out as [v|e]; split; intro H.
    + apply existsb_exists in H as [x [Hin Hx]]. apply value_eqb_eq in Hx. subst. eauto.
    + destruct H as [v' [E Hin]]. inversion E; subst. apply existsb_exists. exists v'. split; auto.
      apply value_eqb_eq; reflexivity.
    + discriminate.
    + destruct H as [v' [E _]]; discriminate.
Qed.

(* C02/Spec.v -- the property: a subset read returns exactly what indexing the fully-read table would.

   [expectation n names full q] says, for a request q on a file whose full read is [full]
   (n rows, columns [names]), what the property allows the read to return:
     XOneOf vs : one of the values vs (built from [full] by the indexing rules below),
     XReject   : the request must be rejected (any exception),
     XAny      : the request lies outside the quantifier of the property (nothing is demanded).
   The indexing rules are written here independently of the code:
     row list        -> the rows of 0..n-1 that occur in the list (distinct, ascending);
                        an entry outside [-n, n) -> rejected; entries in [-n, 0) -> not constrained
     scalar row      -> r in [-n, n) -> the row r mod n
     slice, step > 0 -> CPython's PySlice_AdjustIndices + range(start, stop, step)
     column list     -> the columns of the file, in file order, whose name occurs in the list
     column name     -> a plain array of that column
     split           -> a tuple of plain arrays (one per selected column, file order)
     reduce          -> exactly one column left: a plain array; otherwise unchanged
   [check] is the boolean form evaluated on the implementation's output; [check_sound]. *)
From Coq.Strings Require Import Byte.
From EsVerif.Common Require Import Base Bytes.
From EsVerif.C02 Require Import Model.

(* ------------------------------------------------------------------ Python slice semantics, step > 0 *)
Definition py_clip (n : Z) (x : option Z) (dflt : Z) : Z :=
  match x with
  | None => dflt
  | Some v => if v <? 0 then Z.max 0 (v + n) else Z.min v n
  end.
Definition py_range (a b s : Z) : list Z :=
  let len := if a <? b then (b - a - 1) / s + 1 else 0 in
  map (fun k => a + k * s) (zseq 0 (Z.to_nat len)).
Definition py_slice_rows (n : Z) (start stop step : option Z) : list Z :=
  py_range (py_clip n start 0) (py_clip n stop n) (match step with None => 1 | Some s => s end).

(* ------------------------------------------------------------------ rows *)
Definition zmem (l : list Z) (x : Z) : bool := existsb (Z.eqb x) l.
(* the members of 0..m-1 that occur in l: distinct, ascending *)
Definition members_in_order (m : Z) (l : list Z) : list Z := filter (zmem l) (zseq 0 (Z.to_nat m)).

Inductive rows_expect := RXRows (l : list Z) | RXReject | RXAny.
Definition spec_rows (n : Z) (r : rowsel) : rows_expect :=
  match r with
  | RNone => RXRows (zseq 0 (Z.to_nat n))
  | RScalar x => if (- n <=? x) && (x <? n) then RXRows [x mod n] else RXAny
  | RList l =>
      if forallb (fun x => (0 <=? x) && (x <? n)) l then RXRows (members_in_order n l)
      else if existsb (fun x => (x <? - n) || (n <=? x)) l then RXReject
      else RXAny
  | RSlice a b c =>
      match c with
      | Some s => if s <=? 0 then RXAny else RXRows (py_slice_rows n a b c)
      | None => RXRows (py_slice_rows n a b c)
      end
  end.

(* ------------------------------------------------------------------ columns *)
Fixpoint pos_of (names : list Z) (c : Z) (i : Z) : option Z :=
  match names with
  | [] => None
  | x :: t => if x =? c then Some i else pos_of t c (i + 1)
  end.
Definition known (names : list Z) (c : Z) : bool := match pos_of names c 0 with Some _ => true | None => false end.
Fixpoint nodup_b (l : list Z) : bool :=
  match l with [] => true | x :: t => negb (zmem t x) && nodup_b t end.

Inductive cols_expect := CXCols (cols : list Z) (scalar : bool) | CXAny.
Definition spec_cols (names : list Z) (c : colsel) : cols_expect :=
  match c with
  | CNone => CXCols (zseq 0 (length names)) false
  | CName x => match pos_of names x 0 with Some i => CXCols [i] true | None => CXAny end
  | CList l =>
      match l with
      | [] => CXAny
      | _ => if forallb (known names) l && nodup_b l
             then CXCols (map snd (filter (fun p => zmem l (fst p)) (combine names (zseq 0 (length names))))) false
             else CXAny
      end
  end.

(* ------------------------------------------------------------------ indexing the fully-read table *)
Definition cell_at (full : list (list cell)) (r c : Z) : cell := nth (Z.to_nat c) (nth (Z.to_nat r) full []) [].
Definition sel_table (full : list (list cell)) (rows cols : list Z) : list (list cell) :=
  map (fun r => map (cell_at full r) cols) rows.
Definition sel_column (full : list (list cell)) (rows : list Z) (c : Z) : list cell :=
  map (fun r => cell_at full r c) rows.

(* which options an access style has *)
Definition has_split (s : style) : bool :=
  match s with SGetitem | SChain => false | _ => true end.
Definition has_reduce (s : style) : bool :=
  match s with SSfRead | SSfReadFields => true | _ => false end.
Definition has_cols (s : style) : bool := match s with SGetitem => false | _ => true end.
(* rows= keyword styles take None, a scalar or a list; bracket styles a scalar, a list or a slice *)
Definition rows_arg_ok (s : style) (r : rowsel) : bool :=
  match s, r with
  | (SGetitem | SChain), RNone => false
  | (SGetitem | SChain), _ => true
  | _, RSlice _ _ _ => false
  | _, _ => true
  end.

Inductive expect := XAny | XReject | XOneOf (vs : list value).

Definition shapes (full : list (list cell)) (rows cols : list Z) (scalar split reduce : bool) : list value :=
  let tbl := VTable cols (sel_table full rows cols) in
  let tup := VTuple cols (map (sel_column full rows) cols) in
  let plain := match cols with [c] => [VPlain c (sel_column full rows c)] | _ => [] end in
  if scalar then (if split then plain ++ [tup] else plain)
  else if split then (if reduce then tup :: (match cols with [_] => plain | _ => [tbl] end) else [tup])
  else if reduce then (match cols with [_] => plain | _ => [tbl] end)
  else [tbl].

Definition expectation (n : Z) (names : list Z) (full : list (list cell)) (q : request) : expect :=
  let s := q_style q in
  if negb (rows_arg_ok s (q_rows q)) then XAny
  else if negb (has_cols s) && negb (match q_cols q with CNone => true | _ => false end) then XAny
  else if (negb (has_split s) && q_split q) || (negb (has_reduce s) && q_reduce q) then XAny
  else match spec_cols names (q_cols q) with
       | CXAny => XAny
       | CXCols cols scalar =>
           match spec_rows n (q_rows q) with
           | RXAny => XAny
           | RXReject => XReject
           | RXRows rows => XOneOf (shapes full rows cols scalar (q_split q) (q_reduce q))
           end
       end.

Definition holds (n : Z) (names : list Z) (full : list (list cell)) (q : request) (out : result value) : Prop :=
  match expectation n names full q with
  | XAny => True
  | XReject => exists e, out = Err e
  | XOneOf vs => exists v, out = Ok v /\ In v vs
  end.

(* ------------------------------------------------------------------ boolean checker *)
Definition cells_eqb : list cell -> list cell -> bool := list_eqb bytes_eqb.
Definition value_eqb (a b : value) : bool :=
  match a, b with
  | VTable c1 r1, VTable c2 r2 => zlist_eqb c1 c2 && list_eqb cells_eqb r1 r2
  | VPlain c1 d1, VPlain c2 d2 => (c1 =? c2) && cells_eqb d1 d2
  | VTuple c1 d1, VTuple c2 d2 => zlist_eqb c1 c2 && list_eqb cells_eqb d1 d2
  | VNone, VNone => true
  | _, _ => false
  end.

Definition check (n : Z) (names : list Z) (full : list (list cell)) (q : request) (out : result value) : bool :=
  match expectation n names full q with
  | XAny => true
  | XReject => negb (is_ok out)
  | XOneOf vs => match out with Ok v => existsb (value_eqb v) vs | Err _ => false end
  end.

(* the request lies inside the quantifier of the property *)
Definition in_quantifier (n : Z) (names : list Z) (q : request) : bool :=
  match expectation n names [] q with XAny => false | _ => true end.

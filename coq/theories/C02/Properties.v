(* C02/Properties.v -- the theorems of property C02 (statements only; proofs in the *Proofs.v files). *)
From Coq.Strings Require Import Byte.
From EsVerif.Common Require Import Base Bytes.
From EsVerif.C02 Require Import Arange Gen Model Spec SpecProofs.

(* the boolean checker run on the implementation's output decides the property as stated in Spec.v *)
Theorem C02_check_sound : forall n names full q out,
  check n names full q out = true <-> holds n names full q out.
Proof. exact check_sound. Qed.

(* C02/Properties.v -- the theorems of property C02 (statements only; proofs in the *Proofs.v files).

   Reading a selection of rows and/or columns returns exactly what indexing the fully-read table would.
   Gen.v (process_slice, slice2rows, fix_range, get_slice_nrows) is regenerated from the Python source
   on every run; Model.v is the hand model of the rest (see its header); Spec.v states the property. *)
From Coq Require Import Sorted.
From Coq.Strings Require Import Byte.
From EsVerif.Common Require Import Base Bytes.
From EsVerif.C02 Require Import Arange Gen Model Spec SpecProofs SliceProofs RowsProofs CursorProofs MainProofs TextProofs
  TextAligned RequestProofs RequestInst ScopeProofs RejectProofs HistoryProofs GenTie.
From EsVerif.C02 Require Exec.
From EsVerif.C04 Require TextModel Spec.

(* the boolean checker run on the implementation's output decides the property as stated in Spec.v *)
Theorem C02_check_sound : forall n names full q out,
  check n names full q out = true <-> holds n names full q out.
Proof. exact check_sound. Qed.

(* ------------------------------------------------------------------ slices follow Python semantics *)
(* what the rows of a Python slice with a positive step are *)
Theorem C02_py_range_spec : forall a b s x, 0 < s ->
  In x (py_range a b s) <-> a <= x < b /\ (x - a) mod s = 0.
Proof. exact py_range_spec. Qed.

(* text files and column subsets (slice expanded to row numbers by _slice2rows/_fix_range) *)
Theorem C02_slice_unpacked_python : forall n a b c,
  0 <= n -> step_ok c -> slice2rows n a b c = Ok (py_slice_rows n a b c).
Proof. exact slice2rows_python. Qed.

(* binary files: _process_slice normalises, Records::process_slice accepts it, both row counts agree,
   and the rows start, start+step, ... visited by read_binary_slice are the rows of the Python slice *)
Theorem C02_slice_binary_python : forall n a b c,
  0 <= n -> step_ok c ->
  exists s0 s1 k,
    process_slice n a b c = Ok (s0, s1, step_val c) /\
    0 <= s0 <= s1 /\ s1 <= n /\
    cpp_process_slice n s0 s1 (step_val c) = Ok k /\
    get_slice_nrows s0 s1 (step_val c) = Ok k /\
    0 <= k /\
    slice_rows (s0, s1, step_val c) k = py_slice_rows n a b c.
Proof. exact process_slice_python. Qed.

Theorem C02_fix_range_total : forall n x b, exists v, fix_range n x b = Ok v.
Proof. exact fix_range_total. Qed.

Example slice_negative_stop : slice2rows 5 (Some 0) (Some (-1)) None = Ok [0; 1; 2; 3].
Proof. reflexivity. Qed.
Example slice_clipped_start : process_slice 5 (Some (-7)) (Some 3) None = Ok (0, 3, 1).
Proof. reflexivity. Qed.
Example slice_beyond_end : process_slice 5 (Some 7) (Some 9) None = Ok (5, 5, 1) /\ py_slice_rows 5 (Some 7) (Some 9) None = [].
Proof. split; reflexivity. Qed.
Example slice_step : py_slice_rows 5 (Some (-4)) None (Some 3) = [1; 4].
Proof. reflexivity. Qed.

(* ------------------------------------------------------------------ row lists and scalar rows *)
(* a row list yields its distinct rows in ascending order *)
Theorem C02_rows_list_spec : forall n l,
  0 <= n -> Forall (fun x => 0 <= x < n) l ->
  get_rows2read n (Some l) = Ok (Some (members_in_order n l)).
Proof. exact rows_list_spec. Qed.

Theorem C02_members_in_order_meaning : forall m l,
  0 <= m -> StronglySorted Z.lt (members_in_order m l) /\
            forall y, In y (members_in_order m l) <-> 0 <= y < m /\ In y l.
Proof. intros m l Hm. split; [apply members_in_order_asc|intro y; apply members_in_order_In; assumption]. Qed.

(* out-of-range row lists are rejected *)
Theorem C02_rows_list_rejected : forall n l,
  0 <= n -> (exists x, In x l /\ (x < - n \/ n <= x)) -> get_rows2read n (Some l) = Err EValue.
Proof. exact rows_list_rejected. Qed.

(* a scalar row in [-n, n) *)
Theorem C02_rows_scalar_spec : forall n r,
  - n <= r < n -> get_rows2read n (Some [r]) = Ok (Some [r mod n]).
Proof. exact rows_scalar_spec. Qed.

Example rows_unsorted_repeated : get_rows2read 5 (Some [3; 1; 3]) = Ok (Some [1; 3]).
Proof. reflexivity. Qed.
Example rows_single_out_of_range : get_rows2read 5 (Some [7]) = Err EValue.
Proof. reflexivity. Qed.
Example rows_last : get_rows2read 5 (Some [-1]) = Ok (Some [4]).
Proof. reflexivity. Qed.

(* ------------------------------------------------------------------ column lists *)
(* a column list yields those columns in file order *)
Theorem C02_columns_file_order : forall names cs,
  NoDup names -> Forall (fun c => In c names) cs ->
  get_colnums names cs =
  Ok (map snd (filter (fun p => zmem cs (fst p)) (combine names (zseq 0 (length names))))).
Proof. exact columns_file_order. Qed.

Example columns_reordered : get_colnums [13; 11; 16] [16; 13] = Ok [0; 2].
Proof. reflexivity. Qed.

(* ------------------------------------------------------------------ the binary cursor loops *)
(* read_binary_slice returns the rows start, start+step, ... exactly as they are in the file *)
Theorem C02_cursor_binary_slice_correct : forall f t tail s0 s1 st k,
  wf_bin f t tail -> t <> [] ->
  0 <= s0 <= s1 -> s1 <= rf_nrows f -> 0 < st ->
  cpp_process_slice (rf_nrows f) s0 s1 st = Ok k -> get_slice_nrows s0 s1 st = Ok k ->
  read_binary_slice f (s0, s1, st) = Ok (map (row_at t) (slice_rows (s0, s1, st) k)).
Proof. exact cursor_binary_slice_correct. Qed.

(* read_binary_columns, for the sorted duplicate-free in-range rows and columns that _get_rows2read and
   get_colnums hand over, returns the requested cells of the requested rows *)
Theorem C02_cursor_binary_columns_correct : forall f t tail cols rows,
  wf_bin f t tail -> t <> [] ->
  StronglySorted Z.lt cols -> Forall (fun c => 0 <= c < Z.of_nat (length (rf_sizes f))) cols ->
  match rows with
  | None => True
  | Some l => StronglySorted Z.lt l /\ Forall (fun r => 0 <= r < rf_nrows f) l
  end ->
  read_binary_columns f cols rows
  = Ok (sel_table t (match rows with None => zseq 0 (length t) | Some l => l end) cols).
Proof. exact cursor_binary_columns_correct. Qed.

(* ------------------------------------------------------------------ access styles, composed *)
(* Recfile[a:b:c] / SFile[a:b:c] on a well-formed binary file: the rows of the Python slice, all columns *)
Theorem C02_binary_getitem_slice : forall P f t tail a b c,
  wf_bin f t tail -> t <> [] -> step_ok c ->
  recfile_getitem_rows P f (RSlice a b c)
  = Ok (VTable (zseq 0 (length (rf_names f))) (map (row_at t) (py_slice_rows (rf_nrows f) a b c))).
Proof. exact binary_getitem_slice. Qed.

(* Recfile[cols][a:b:c] (binary and text) and Recfile[a:b:c] on text files are the keyword read with the
   rows of the Python slice: the bracket, chained and keyword styles agree *)
Theorem C02_chain_slice_is_row_list : forall P f cols a b c,
  0 <= rf_nrows f -> step_ok c ->
  colsubset_getitem P f cols (RSlice a b c)
  = recfile_read P f (RList (py_slice_rows (rf_nrows f) a b c)) CNone cols false.
Proof. exact chain_slice_is_row_list. Qed.

Theorem C02_text_getitem_slice_is_row_list : forall P f a b c,
  rf_ascii f = true -> 0 <= rf_nrows f -> step_ok c ->
  recfile_getitem_rows P f (RSlice a b c)
  = recfile_read P f (RList (py_slice_rows (rf_nrows f) a b c)) CNone CNone false.
Proof. exact text_getitem_slice_is_row_list. Qed.

(* Recfile.read(rows=list, columns=list) on a well-formed binary file: dispatch (including the
   whole-file shortcut), numpy.unique on rows and columns, and the cursor loop give the table indexed by
   the distinct rows in ascending order and the named columns in file order *)
Theorem C02_binary_read_rows_columns : forall P f t tail l cs,
  wf_bin f t tail -> t <> [] -> NoDup (rf_names f) ->
  Forall (fun x => 0 <= x < rf_nrows f) l -> Forall (fun c => In c (rf_names f)) cs ->
  let cols := map snd (filter (fun p => zmem cs (fst p)) (combine (rf_names f) (zseq 0 (length (rf_names f))))) in
  recfile_read P f (RList l) CNone (CList cs) false
  = Ok (VTable cols (sel_table t (members_in_order (rf_nrows f) l) cols)).
Proof. exact binary_read_rows_columns. Qed.

(* ------------------------------------------------------------------ the text cursor loop (partial) *)
(* skipping an unrequested column moves the stream exactly as reading it *)
Theorem C02_text_column_projection : forall P d fs keep l rfull l',
  length keep = length fs ->
  TextModel.read_row P d fs (repeat true (length fs)) l = Ok (rfull, l') ->
  TextModel.read_row P d fs keep l = Ok (select keep rfull, l').
Proof. exact read_row_keep. Qed.

(* PARTIAL (relative to the alignment premise, see TextProofs.v): the skip-and-read loop over sorted
   duplicate-free in-range row numbers returns exactly those rows of the full read *)
Theorem C02_cursor_text_partial : forall P d fs keep st rw n rows,
  aligned P d fs keep st rw n ->
  StronglySorted Z.lt rows -> Forall (fun r => 0 <= r < Z.of_nat n) rows ->
  TextModel.read_rows_all P d fs keep n (st O) = Ok (map rw (seq 0 n)) /\
  TextModel.read_rows_sel P d fs keep rows 0 (st O) = Ok (map (fun r => rw (Z.to_nat r)) rows).
Proof. exact cursor_text_partial. Qed.

(* FULL for files written by esutil: the alignment premise is discharged for the text the writer produces
   (C04/TextModel.v write_text) for a table_ok table, outside C04's known class, whose strings contain no
   end-of-line character (skip_text_rows counts newlines), with a delimiter that is not 0xff (fgetc into a
   signed char takes it for EOF): the skip-and-read loop returns exactly the selected rows of the full
   read, each projected on the kept columns *)
Theorem C02_cursor_text_correct : forall F P d t keep rows,
  C04.Spec.delim_ok d -> byte_eqb d xff = false ->
  C04.Spec.table_ok t -> C04.Spec.fcontract F P t -> C04.Spec.strings_noeol t ->
  C04.Spec.kf_leading_ws_after_numeric d t = false ->
  length keep = length (TextModel.tdt t) ->
  StronglySorted Z.lt rows -> Forall (fun r => 0 <= r < Z.of_nat (length (TextModel.trows t))) rows ->
  TextModel.read_rows_all P d (TextModel.tdt t) keep (length (TextModel.trows t)) (TextModel.write_text F d t)
  = Ok (map (select keep) (TextModel.trows (C04.Spec.expected F P t)))
  /\ TextModel.read_rows_sel P d (TextModel.tdt t) keep rows 0 (TextModel.write_text F d t)
  = Ok (map (fun r => select keep (nth (Z.to_nat r) (TextModel.trows (C04.Spec.expected F P t)) [])) rows).
Proof. intros F P d t keep rows Hd Hff Ht Hc Hn Hk. exact (cursor_text_correct F P d t Hd Hff Ht Hc Hn Hk keep rows). Qed.

(* the written text is line-aligned (the premise of C02_cursor_text_partial holds) *)
Theorem C02_written_text_aligned : forall F P d t keep,
  C04.Spec.delim_ok d -> byte_eqb d xff = false ->
  C04.Spec.table_ok t -> C04.Spec.fcontract F P t -> C04.Spec.strings_noeol t ->
  C04.Spec.kf_leading_ws_after_numeric d t = false ->
  length keep = length (TextModel.tdt t) ->
  aligned P d (TextModel.tdt t) keep (st_of F d t) (rw_of F P t keep) (length (TextModel.trows t)).
Proof. intros F P d t keep Hd Hff Ht Hc Hn Hk. exact (written_text_aligned F P d t Hd Hff Ht Hc Hn Hk keep). Qed.

(* ------------------------------------------------------------------ THE PROPERTY, one theorem about the model
   file_ok P f t: f is a well-formed binary file whose rows are t, or a text file written by the writer
   (wf_text: table_ok, oracle contract, outside C04's known class, strings without end-of-line characters)
   whose full read is t.  For every request q that run_request covers -- Recfile.read(rows=, columns= /
   fields=, split=), Recfile[rows], Recfile[cols][rows], Recfile[cols].read(rows=, split=), SFile.read /
   sfile.read(rows=, columns= / fields=, split=, reduce=) -- with
     - a row argument the style accepts (keyword: None, scalar, list; bracket: scalar, list, slice),
     - options the style has (no split for bracket styles, reduce only for SFile.read),
     - spec_cols = CXCols cols scalar: no column argument, a known column name (scalar), or a non-empty list of
       known, distinct names; cols = their file positions in FILE ORDER,
     - spec_rows = RXRows rows: no row argument (all rows), a scalar in [-n, n) (row r mod n), a list of rows in
       [0, n) (its DISTINCT members in ASCENDING order), or a slice with step None or > 0 (the rows of the
       PYTHON slice, negative and out-of-range bounds included),
   the read succeeds and returns one of the values [shapes] allows: the table t indexed by rows and cols; a plain
   array for a scalar column name; a tuple of plain arrays under split; a plain array under reduce when exactly
   one column is left.  Unconstrained (hypotheses not met): scalar rows outside [-n, n), lists with entries in
   [-n, 0), steps <= 0, unknown / repeated / empty column lists. *)
Theorem C02_request_spec : forall P f t q rows cols scalar,
  file_ok P f t -> NoDup (rf_names f) ->
  rows_arg_ok (q_style q) (q_rows q) = true ->
  (has_cols (q_style q) = false -> q_cols q = CNone) ->
  (has_split (q_style q) = false -> q_split q = false) ->
  (has_reduce (q_style q) = false -> q_reduce q = false) ->
  spec_cols (rf_names f) (q_cols q) = CXCols cols scalar ->
  spec_rows (rf_nrows f) (q_rows q) = RXRows rows ->
  exists v, run_request P f q = Ok v /\ In v (shapes t rows cols scalar (q_split q) (q_reduce q)).
Proof. exact request_spec_any. Qed.

(* out-of-range row lists (an entry < -n or >= n) are rejected in every access style *)
Theorem C02_request_rejected : forall P f t q,
  file_ok P f t ->
  rows_arg_ok (q_style q) (q_rows q) = true ->
  spec_rows (rf_nrows f) (q_rows q) = RXReject ->
  exists e, run_request P f q = Err e.
Proof. exact request_rejected_any. Qed.

(* the same as the Prop the checker decides (C02_check_sound): the model satisfies the property of Spec.v *)
Theorem C02_request_holds : forall P f t q,
  file_ok P f t -> NoDup (rf_names f) -> holds (rf_nrows f) (rf_names f) t q (run_request P f q).
Proof. exact request_holds_any. Qed.

(* non-vacuity of the alignment premise: the two-line file "1,2\n3,4\n", first column kept *)
Definition ex_fs : list TextModel.fld :=
  [ {| TextModel.fname := []; TextModel.fkind := TextModel.KInt true 1; TextModel.forder := TextModel.NA; TextModel.fshape := [] |};
    {| TextModel.fname := []; TextModel.fkind := TextModel.KInt true 1; TextModel.forder := TextModel.NA; TextModel.fshape := [] |} ].
Definition ex_text : list byte := [x31; x2c; x32; x0a; x33; x2c; x34; x0a].
Definition ex_st (j : nat) : list byte := skipn (4 * j) ex_text.
Definition ex_rw (j : nat) : TextModel.row := nth j [[[[x01]]]; [[[x03]]]] [].
Example ex_aligned : aligned (fun _ x => x) x2c ex_fs [true; false] ex_st ex_rw 2.
Proof. intros j Hj. destruct j as [|[|j]]; [split; reflexivity|split; reflexivity|lia]. Qed.

Definition ex_table : list (list cell) := [[[x01; x02]; [x0a]]; [[x03; x04]; [x0b]]; [[x05; x06]; [x0c]]].
Definition ex_file : rfile :=
  {| rf_ascii := false; rf_delim := x2c; rf_nrows := 3; rf_names := [13; 11]; rf_sizes := [2; 1]; rf_flds := [];
     rf_data := table_bytes ex_table |}.
Example ex_wf : wf_bin ex_file ex_table [].
Proof. split; [reflexivity|reflexivity|repeat constructor|reflexivity|reflexivity]. Qed.
Example ex_columns : read_binary_columns ex_file [1] (Some [0; 2]) = Ok [[[x0a]]; [[x0c]]].
Proof. reflexivity. Qed.
Example ex_slice : read_binary_slice ex_file (0, 3, 2) = Ok [[[x01; x02]; [x0a]]; [[x05; x06]; [x0c]]].
Proof. reflexivity. Qed.
Example ex_getitem : recfile_getitem_rows (fun _ x => x) ex_file (RSlice (Some (-2)) None None)
                     = Ok (VTable [0; 1] [[[x03; x04]; [x0b]]; [[x05; x06]; [x0c]]]).
Proof. reflexivity. Qed.
Example ex_read : recfile_read (fun _ x => x) ex_file (RList [2; 0; 2]) CNone (CList [11]) false
                  = Ok (VTable [1] [[[x0a]]; [[x0c]]]).
Proof. reflexivity. Qed.
Example ex_file_ok : file_ok (fun _ x => x) ex_file ex_table.
Proof. left. exists []. split; [exact ex_wf|discriminate]. Qed.

(* ================================================================== proof-deepening round *)

(* ------------------------------------------------------------------ the scope monitor is sound
   wf_bin_b / wf_text_b are the hypotheses of C02_request_spec as boolean functions of the REAL file bytes and the
   table that was written (evaluated per case by the harness).  Where they hold, the property holds of the model
   on that very file, and a model that agrees with the implementation forces the checker to accept: of the two
   verdict bits, "checker rejects" can only occur together with "model <> implementation". *)
Theorem C02_scope_bin_sound : forall f t tail, wf_bin_b f t tail = true -> wf_bin f t tail /\ t <> [].
Proof. exact wf_bin_b_sound. Qed.

Theorem C02_scope_text_sound : forall F P d names tb data,
  wf_text_b F P d names tb data = true -> wf_text F P (text_file d names tb data) tb.
Proof. exact wf_text_b_sound. Qed.

Theorem C02_scope_bin_agree_implies_ok : forall P f t q out,
  wf_bin_b f t [] = true -> nodup_b (rf_names f) = true ->
  result_eqb value_eqb (run_request P f q) out = true ->
  check (rf_nrows f) (rf_names f) t q out = true.
Proof. exact scope_bin_agree_implies_ok. Qed.

Theorem C02_scope_text_agree_implies_ok : forall F P d names tb data q out,
  wf_text_b F P d names tb data = true -> nodup_b names = true ->
  result_eqb value_eqb (run_request P (text_file d names tb data) q) out = true ->
  check (Z.of_nat (length (TextModel.trows tb))) names (full_text F P tb) q out = true.
Proof. exact scope_text_agree_implies_ok. Qed.

Example ex_scope_bin : wf_bin_b ex_file ex_table [] = true /\ nodup_b (rf_names ex_file) = true.
Proof. split; reflexivity. Qed.

(* ------------------------------------------------------------------ every row argument, exactly (beyond the quantifier)
   rows_outcome spells out what _get_rows2read does with ANY argument: a scalar or one-element list x is row x mod n
   when -n <= x < n and ValueError otherwise; the empty list is the empty selection; a longer list must lie in [0, n)
   (a negative entry is a ValueError although [x] alone is accepted); a slice object as rows= is a TypeError. *)
Theorem C02_rows2read_exact : forall n r, 0 <= n -> rows2read_of n r = rows_outcome n r.
Proof. exact rows2read_exact. Qed.

Theorem C02_rows2read_error_classes : forall n r e, 0 <= n -> rows2read_of n r = Err e ->
  (e = EType /\ exists a b c, r = RSlice a b c) \/
  (e = EValue /\ match r with RScalar _ | RList _ => True | _ => False end).
Proof. exact rows2read_error_classes. Qed.

Example rows_negative_single : rows2read_of 5 (RList [-2]) = Ok (Some [3]).
Proof. reflexivity. Qed.
Example rows_negative_in_longer_list : rows2read_of 5 (RList [-2; 1]) = Err EValue.
Proof. reflexivity. Qed.
Example rows_scalar_out_of_range : rows2read_of 5 (RScalar 5) = Err EValue /\ rows2read_of 5 (RScalar (-6)) = Err EValue.
Proof. split; reflexivity. Qed.

(* an unknown column name is a ValueError; repeated names are covered by C02_columns_file_order (cs may repeat) *)
Theorem C02_unknown_column_rejected : forall names cs,
  (exists c, In c cs /\ ~ In c names) -> get_colnums names cs = Err EValue.
Proof. exact unknown_column_rejected. Qed.

Example columns_repeated : get_colnums [13; 11; 16] [16; 13; 16] = Ok [0; 2].
Proof. reflexivity. Qed.
Example columns_unknown : get_colnums [13; 11; 16] [16; 99] = Err EValue.
Proof. reflexivity. Qed.

(* Recfile.read for EVERY row argument and known columns, on a binary or writer-produced text file: the row
   argument's outcome decides; accepted arguments never fail later; the result is the full read indexed by them *)
Theorem C02_recfile_read_exact : forall P f t,
  file_ok P f t -> NoDup (rf_names f) -> forall r fields columns split cols scalar,
  spec_cols (rf_names f) (match fields with CNone => columns | _ => fields end) = CXCols cols scalar ->
  recfile_read P f r fields columns split =
  match rows_outcome (rf_nrows f) r with
  | Err e => Err e
  | Ok rows2 => Ok (shape_rf t (rows_of (length t) rows2) cols scalar split)
  end.
Proof. exact recfile_read_exact. Qed.

Theorem C02_recfile_read_error_class : forall P f t,
  file_ok P f t -> NoDup (rf_names f) -> forall r fields columns split cols scalar e,
  spec_cols (rf_names f) (match fields with CNone => columns | _ => fields end) = CXCols cols scalar ->
  recfile_read P f r fields columns split = Err e ->
  rows_outcome (rf_nrows f) r = Err e /\ (e = EValue \/ e = EType).
Proof. exact recfile_read_error_class. Qed.

Example ex_read_negative_single :
  recfile_read (fun _ x => x) ex_file (RList [-1]) CNone (CName 11) false = Ok (VPlain 1 [[x0c]]).
Proof. reflexivity. Qed.

(* ------------------------------------------------------------------ slices with a step <= 0 (outside the quantifier) *)
Theorem C02_step_zero_binary : forall P f a b, rf_ascii f = false ->
  recfile_getitem_rows P f (RSlice a b (Some 0)) = Err EOther.
Proof. exact step_zero_binary. Qed.
Theorem C02_step_zero_text : forall P f a b, rf_ascii f = true ->
  recfile_getitem_rows P f (RSlice a b (Some 0)) = Err EOther.
Proof. exact step_zero_text. Qed.
Theorem C02_step_zero_unpacked : forall P f cols a b, colsubset_getitem P f cols (RSlice a b (Some 0)) = Err EOther.
Proof. exact step_zero_unpacked. Qed.
(* a negative step selects nothing on the unpacked path (text files, column subsets) ... *)
Theorem C02_negative_step_unpacked : forall P f cols a b s, s < 0 ->
  colsubset_getitem P f cols (RSlice a b (Some s)) = recfile_read P f (RList []) CNone cols false.
Proof. exact negative_step_unpacked. Qed.
(* ... and raises on the binary slice reader: ValueError (negative array size) or RuntimeError (C++ step check) *)
Theorem C02_negative_step_binary : forall P f a b s, rf_ascii f = false -> s < 0 ->
  recfile_getitem_rows P f (RSlice a b (Some s)) = Err EValue \/ recfile_getitem_rows P f (RSlice a b (Some s)) = Err ERuntime.
Proof. exact negative_step_binary. Qed.

Example ex_negative_step : recfile_getitem_rows (fun _ x => x) ex_file (RSlice None None (Some (-1))) = Err EValue
                           /\ recfile_getitem_rows (fun _ x => x) ex_file (RSlice (Some 1) (Some 1) (Some (-1))) = Err ERuntime
                           /\ colsubset_getitem (fun _ x => x) ex_file (CName 11) (RSlice None None (Some (-1))) = Ok (VPlain 1 []).
Proof. repeat split; reflexivity. Qed.

(* ------------------------------------------------------------------ history *)
(* the model is a function of the call's own arguments: in any sequence of calls each answer is the answer to
   that call made alone (what the `history` entry compares the implementation with) *)
Theorem C02_model_history_free : forall P pre c post,
  run_history P (pre ++ c :: post) = run_history P pre ++ run_request P (fst c) (snd c) :: run_history P post.
Proof. exact model_history_free. Qed.

(* the or-ed verdict of a sequence is below 2 exactly when no call of the sequence is a failing input *)
Theorem C02_v_seq_clean : forall l, Forall is_verdict l -> (Exec.v_seq l < 2 <-> Forall (fun v => v < 2) l).
Proof. exact v_seq_clean. Qed.

(* ================================================================== round 6: tie lemmas (Gen.v = Model.v)
   Gen.v is regenerated from /repo's source on every run.  These theorems say that the hand-written definitions the
   other theorems are about ARE the regenerated ones; they are re-proved whenever the regenerated text changes. *)
(* Recfile._get_rows2read, translated statement by statement from the Python AST *)
Theorem C02_tie_get_rows2read : forall n rows, get_rows2read_gen n rows = get_rows2read n rows.
Proof. exact get_rows2read_tie. Qed.
(* Records::process_slice, translated from the C++ text of records.cpp *)
Theorem C02_tie_cpp_process_slice : forall n row1 row2 step,
  cpp_process_slice_gen n row1 row2 step = cpp_process_slice n row1 row2 step.
Proof. exact cpp_process_slice_tie. Qed.
(* Recfile.read: which reader is called with which arguments (read_dispatch_gen, read_all_rows_gen,
   read_all_cols_gen) and how the result is shaped (read_shape_gen) are the regenerated decision trees *)
Theorem C02_tie_recfile_read : forall P f r fields columns split,
  recfile_read P f r fields columns split =
  (do rows2 <- rows2read_of (rf_nrows f) r;
   do cs <- get_colnums_to_read (rf_names f) fields columns;
   do data <- exec_path P f (fst cs) rows2
                (read_dispatch_gen (rf_ascii f) (read_all_cols_gen (Some (fst cs)) (rf_ncols f))
                                   (read_all_rows_gen rows2 (rf_nrows f)) (rf_nrows f));
   Ok (apply_shape (read_shape_gen (snd cs) split) (fst cs) data)).
Proof. exact recfile_read_tie. Qed.
(* SFile.read: split before reduce, as the source has it *)
Theorem C02_tie_sfile_read : forall P f rows fields columns split reduce,
  sfile_read P f rows fields columns split reduce =
  (do v <- recfile_read P f rows CNone (match columns with CNone => fields | _ => columns end) false;
   Ok (apply_post (sfile_post_gen split reduce) v)).
Proof. exact sfile_read_tie. Qed.

Example tie_rows2read_runs : get_rows2read_gen 5 (Some [3; 1; 3]) = Ok (Some [1; 3]) /\ get_rows2read_gen 5 (Some [7]) = Err EValue.
Proof. split; reflexivity. Qed.
Example tie_cpp_runs : cpp_process_slice_gen 5 1 5 3 = Ok 2 /\ cpp_process_slice_gen 5 1 6 1 = Err ERuntime.
Proof. split; reflexivity. Qed.
Example tie_dispatch_runs : read_dispatch_gen false true true 5 = RPSlice 0 5 1 /\ read_dispatch_gen true true true 5 = RPColumns.
Proof. split; reflexivity. Qed.

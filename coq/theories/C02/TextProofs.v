(* C02/TextProofs.v -- the text cursor loop (C04/TextModel.v read_text_columns) for a row/column subset,
   PARTIAL: proved relative to the alignment premise [aligned] (the stream is at the start of line j
   after j lines have been read or skipped), which is what C04's scanner lemmas establish for files
   written by the text writer; it is not re-proved here. *)
From Coq Require Import ZArith List Bool Lia ZifyBool Sorted.
From Coq.Strings Require Import Byte.
From EsVerif.Common Require Import Base Bytes.
From EsVerif.C04 Require Import TextModel.
From EsVerif.C02 Require Import Arange Model Spec RowsProofs.
Import ListNotations.

Section Text.
  Variable P : nat -> list byte -> list byte.
  Variable d : byte.

  (* the columns marked in keep, in file order *)
  Fixpoint select (keep : list bool) (r : row) : row :=
    match keep, r with
    | k :: keep', x :: r' => if k then x :: select keep' r' else select keep' r'
    | _, _ => []
    end.

  (* skipping a column moves the stream exactly as reading it: a column subset of a row is the
     projection of the full row, and the stream ends at the same place *)
  Lemma read_row_keep fs : forall keep l rfull l',
    length keep = length fs ->
    read_row P d fs (repeat true (length fs)) l = Ok (rfull, l') ->
    read_row P d fs keep l = Ok (select keep rfull, l').
  Proof.
    induction fs as [|f fs IH]; intros keep l rfull l' Hk H; simpl in *.
    - inversion H; subst. destruct keep; reflexivity.
    - destruct keep as [|k keep]; [discriminate|]. simpl in *.
      destruct (read_field P d f l) as [[els r]|e]; simpl in *; [|discriminate].
      destruct (read_row P d fs (repeat true (length fs)) r) as [[rest r2]|e] eqn:E; simpl in *; [|discriminate].
      inversion H; subst. rewrite (IH keep r rest l' ltac:(lia) E). simpl. destruct k; reflexivity.
  Qed.

  Lemma skip_lines_S n : forall l, skip_lines (S n) l = bind (skip_lines 1 l) (skip_lines n).
  Proof.
    induction l as [|b r IH]; [reflexivity|].
    change (skip_lines (S n) (b :: r)) with
      (if byte_eqb b xff then Err ERuntime else if byte_eqb b TextModel.nl then skip_lines n r else skip_lines (S n) r).
    change (skip_lines 1 (b :: r)) with
      (if byte_eqb b xff then Err ERuntime else if byte_eqb b TextModel.nl then skip_lines 0 r else skip_lines 1 r).
    destruct (byte_eqb b xff); [reflexivity|]. destruct (byte_eqb b TextModel.nl); [reflexivity|]. exact IH.
  Qed.

  Variables (fs : list fld) (keep : list bool).
  (* st j = the stream at the start of line j; rw j = the (projected) row read there *)
  Variables (st : nat -> list byte) (rw : nat -> row) (n : nat).
  Definition aligned : Prop :=
    forall j, (j < n)%nat ->
      read_row P d fs keep (st j) = Ok (rw j, st (S j)) /\ skip_lines 1 (st j) = Ok (st (S j)).
  Hypothesis A : aligned.

  Lemma skip_many k : forall j, (j + k <= n)%nat -> skip_lines k (st j) = Ok (st (j + k)%nat).
  Proof.
    induction k as [|k IH]; intros j H.
    - simpl. rewrite Nat.add_0_r. reflexivity.
    - rewrite skip_lines_S. destruct (A j ltac:(lia)) as [_ ->]. simpl bind.
      rewrite IH by lia. f_equal. f_equal. lia.
  Qed.

  Lemma read_all k : forall j, (j + k <= n)%nat ->
    read_rows_all P d fs keep k (st j) = Ok (map rw (seq j k)).
  Proof.
    induction k as [|k IH]; intros j H; [reflexivity|]. simpl.
    destruct (A j ltac:(lia)) as [-> _]. simpl. rewrite IH by lia. reflexivity.
  Qed.

  (* the skip-and-read loop over explicit ascending in-range row numbers returns exactly those rows *)
  Lemma read_sel : forall rows cur, (cur <= n)%nat ->
    asc rows -> Forall (fun r => Z.of_nat cur <= r < Z.of_nat n) rows ->
    read_rows_sel P d fs keep rows (Z.of_nat cur) (st cur) = Ok (map (fun r => rw (Z.to_nat r)) rows).
  Proof.
    induction rows as [|r rs IH]; intros cur Hc As R; [reflexivity|].
    inversion As as [|? ? As' Fr]; subst. inversion R as [|? ? Rr R']; subst.
    cbn [read_rows_sel map].
    assert (S1 : (if Z.of_nat cur <? r then skip_lines (Z.to_nat (r - Z.of_nat cur)) (st cur) else Ok (st cur)) = Ok (st (Z.to_nat r))).
    { destruct (Z.of_nat cur <? r) eqn:E.
      - rewrite skip_many by lia. f_equal. f_equal. lia.
      - f_equal. f_equal. lia. }
    rewrite S1. cbn [bind].
    destruct (A (Z.to_nat r) ltac:(lia)) as [-> _]. cbn [bind].
    replace ((if Z.of_nat cur <? r then r else Z.of_nat cur) + 1) with (Z.of_nat (S (Z.to_nat r)))
      by (destruct (Z.of_nat cur <? r) eqn:E; lia).
    rewrite (IH (S (Z.to_nat r))); [reflexivity|lia|assumption|].
    rewrite Forall_forall in *. intros y Hy. specialize (Fr _ Hy). specialize (R' _ Hy). lia.
  Qed.
End Text.

(* Records::read_text_columns for sorted duplicate-free in-range rows: the selected rows of the full read,
   each projected on the kept columns -- relative to the alignment premise *)
Theorem cursor_text_partial P d fs keep st rw n rows :
  aligned P d fs keep st rw n ->
  StronglySorted Z.lt rows -> Forall (fun r => 0 <= r < Z.of_nat n) rows ->
  read_rows_all P d fs keep n (st O) = Ok (map rw (seq 0 n)) /\
  read_rows_sel P d fs keep rows 0 (st O) = Ok (map (fun r => rw (Z.to_nat r)) rows).
Proof.
  intros A As R. split.
  - apply (read_all P d fs keep st rw n A n 0). lia.
  - apply (read_sel P d fs keep st rw n A rows 0 ltac:(lia) As). exact R.
Qed.

(* C02/TextAligned.v -- the alignment premise of TextProofs.v discharged for files written by esutil:
   the text that the model writer (C04/TextModel.v write_text) produces for a table_ok table outside
   C04's known class kf_leading_ws_after_numeric, whose strings contain no end-of-line character, is
   line-aligned: reading row j leaves the stream at the start of line j+1, and so does skipping one
   line.  Hence the text cursor loop returns exactly the selected rows / columns of the full read. *)
From Coq Require Import ZArith List Bool Lia ZifyBool ZifyNat Sorted.
From Coq.Strings Require Import Byte.
From EsVerif.Common Require Import Base Bytes.
From EsVerif.C04 Require Import TextModel Spec DecProofs ScanProofs RoundTrip.
From EsVerif.C02 Require Import RowsProofs TextProofs.
Import ListNotations.

Definition noff (l : list byte) : Prop := Forall (fun b => byte_eqb b xff = false) l.

Lemma numchar_noff b : numchar b = true -> byte_eqb b xff = false.
Proof.
  intro H. destruct (byte_eqb b xff) eqn:E; [|reflexivity].
  apply byte_eqb_eq in E. subst b. discriminate H.
Qed.

Lemma tok_ok_noff k tok : tok_ok k tok = true -> noff tok.
Proof.
  intro H. destruct (tok_ok_run k tok H) as [s [R _]]. apply run_numchars in R.
  unfold noff. eapply Forall_impl; [|exact R]. intros b Hb. apply numchar_noff. exact Hb.
Qed.

(* one line is skipped by skip_text_rows exactly when it contains no newline and no 0xff before its end *)
Lemma skip_one : forall l rest, noff l -> noeol l -> skip_lines 1 (l ++ nl :: rest) = Ok rest.
Proof.
  induction l as [|b l IH]; intros rest H1 H2.
  - reflexivity.
  - inversion H1 as [|? ? Hb H1']; subst. inversion H2 as [|? ? Hn H2']; subst.
    unfold is_eol in Hn. apply orb_false_iff in Hn. destruct Hn as [Hn _].
    change (skip_lines 1 ((b :: l) ++ nl :: rest)) with
      (if byte_eqb b xff then Err ERuntime else if byte_eqb b nl then skip_lines 0 (l ++ nl :: rest) else skip_lines 1 (l ++ nl :: rest)).
    rewrite Hb, Hn. apply IH; assumption.
Qed.

Lemma seq_nth_gen {A} (d : A) : forall (l : list A) s, map (fun j => nth (j - s) l d) (seq s (length l)) = l.
Proof.
  induction l as [|a u IH]; intro s; simpl; [reflexivity|]. f_equal.
  - rewrite Nat.sub_diag. reflexivity.
  - etransitivity; [|apply (IH (S s))]. apply map_ext_in. intros j Hj. apply in_seq in Hj.
    replace (j - s)%nat with (S (j - S s)) by lia. reflexivity.
Qed.
Lemma seq_nth_all {A} (l : list A) (d : A) : map (fun j => nth j l d) (seq 0 (length l)) = l.
Proof. etransitivity; [|apply (seq_nth_gen d l 0)]. apply map_ext. intro j. rewrite Nat.sub_0_r. reflexivity. Qed.

Lemma write_rows_cons F d fs r rows :
  write_rows F d fs (r :: rows) = write_fields F d fs r ++ nl :: write_rows F d fs rows.
Proof. unfold write_rows. cbn [map concat]. unfold write_row at 1. rewrite <- app_assoc. reflexivity. Qed.

Section Aligned.
  Variable F P : nat -> list byte -> list byte.
  Variable d : byte.
  Hypothesis Hd : delim_ok d.
  Hypothesis Hdff : byte_eqb d xff = false.

  Lemma join_els_noff : forall ts, Forall noff ts -> noff (join_els d ts).
  Proof.
    induction ts as [|t ts IH]; intro H; [constructor|].
    destruct ts as [|t2 ts]; [exact (Forall_inv H)|].
    rewrite (join_els_2 d). apply Forall_app. split; [exact (Forall_inv H)|].
    constructor; [exact Hdff|]. apply IH. exact (Forall_inv_tail H).
  Qed.

  Lemma cell_noff k e : cell_good F P k e -> noff (cell_text F k e).
  Proof.
    intros Hg. destruct (is_str k) eqn:Es.
    - destruct k; try discriminate. destruct Hg as [_ Hg]. exact Hg.
    - destruct (num_cell F P k e Es Hg) as [Htok _]. eapply tok_ok_noff. exact Htok.
  Qed.

  Lemma write_fields_noff : forall fs r,
    row_ok_b fs r = true -> row_contract_b F P fs r = true -> noff (write_fields F d fs r).
  Proof.
    induction fs as [|f fs IH]; intros r Hr Hc; [constructor|].
    destruct r as [|els r]; [constructor|].
    destruct (row_facts F P d f fs els r Hr Hc) as [_ [Hg [Hr' Hc']]].
    cbn [write_fields]. apply Forall_app. split; [|apply Forall_app; split].
    - apply join_els_noff. rewrite Forall_forall in *.
      intros x Hx. apply in_map_iff in Hx. destruct Hx as [e [<- Hin]]. apply cell_noff. apply Hg. exact Hin.
    - destruct fs; [constructor|]. constructor; [exact Hdff|constructor].
    - apply IH; assumption.
  Qed.

  (* ---------------------------------------------------------------- every line of the written text *)
  Variable fs : list fld.
  Hypothesis Hne : fs <> [].
  Hypothesis Hf : forallb fld_ok_b fs = true.

  Lemma lines_aligned : forall rows,
    forallb (row_ok_b fs) rows = true -> forallb (row_contract_b F P fs) rows = true ->
    forallb (row_noeol_b fs) rows = true ->
    (byte_eqb d space = false -> kf_rows d fs rows = false) ->
    forall j, (j < length rows)%nat ->
      read_row P d fs (repeat true (length fs)) (write_rows F d fs (skipn j rows))
      = Ok (rt_row F P fs (nth j rows []), write_rows F d fs (skipn (S j) rows))
      /\ skip_lines 1 (write_rows F d fs (skipn j rows)) = Ok (write_rows F d fs (skipn (S j) rows)).
  Proof.
    induction rows as [|r rows IH]; intros Hr Hc Hn Hkf j Hj; [simpl in Hj; lia|].
    cbn [forallb] in Hr, Hc, Hn. apply andb_true_iff in Hr, Hc, Hn.
    destruct Hr as [Hr Hrs], Hc as [Hc Hcs], Hn as [Hn Hns].
    destruct j as [|j].
    - cbn [skipn nth]. rewrite write_rows_cons. split.
      + apply (read_row_ok F P d Hd fs r (write_rows F d fs rows)
                 (match rows with r2 :: _ => row_head_unsafe d fs r2 | [] => false end) Hne Hf Hr Hc).
        * intro Hu. destruct rows as [|r2 rows]; [exact I|].
          cbn [forallb] in Hrs, Hcs. apply andb_true_iff in Hrs. apply andb_true_iff in Hcs.
          rewrite write_rows_cons.
          apply (write_fields_head F P d Hd); try assumption; [apply Hrs|apply Hcs].
        * intro Esp. specialize (Hkf Esp). cbn [kf_rows] in Hkf. apply orb_false_iff in Hkf. apply Hkf.
      + apply skip_one; [apply write_fields_noff; assumption|apply (write_fields_noeol F P d Hd); assumption].
    - cbn [skipn nth]. apply IH; try assumption; [|simpl in Hj; lia].
      intro Esp. specialize (Hkf Esp). cbn [kf_rows] in Hkf. apply orb_false_iff in Hkf. apply Hkf.
  Qed.
End Aligned.

(* ------------------------------------------------------------------ the theorem *)
Section Correct.
  Variable F P : nat -> list byte -> list byte.
  Variable d : byte.
  Variable t : table.
  Hypothesis Hd : delim_ok d.
  Hypothesis Hdff : byte_eqb d xff = false.
  Hypothesis Ht : table_ok t.
  Hypothesis Hc : fcontract F P t.
  Hypothesis Hn : strings_noeol t.
  Hypothesis Hk : kf_leading_ws_after_numeric d t = false.

  Let fs := tdt t.
  Let nrows := map (to_native_row fs) (trows t).

  (* the stream at the start of line j, the row the full read returns there (kept columns only) *)
  Definition st_of (j : nat) : list byte := write_rows F d fs (skipn j nrows).
  Definition rw_of (keep : list bool) (j : nat) : row := select keep (rt_row F P fs (nth j nrows [])).

  Lemma written_text_aligned keep : length keep = length fs ->
    aligned P d fs keep st_of (rw_of keep) (length (trows t)).
  Proof.
    intro Hkeep. unfold table_ok, table_ok_b in Ht.
    apply andb_true_iff in Ht. destruct Ht as [Hok Hrows]. apply andb_true_iff in Hok. destruct Hok as [Hok _].
    apply andb_true_iff in Hok. destruct Hok as [Hf Hf1].
    assert (Hne : fs <> []) by (subst fs; destruct (tdt t); [discriminate|discriminate]).
    assert (R1 : forallb (row_ok_b fs) nrows = true).
    { subst nrows. apply forallb_Forall. apply forallb_Forall in Hrows.
      rewrite Forall_forall in *. intros x Hx. apply in_map_iff in Hx. destruct Hx as [r [<- Hin]].
      apply row_ok_native. apply Hrows. exact Hin. }
    assert (R2 : forallb (row_contract_b F P fs) nrows = true).
    { subst nrows. rewrite forallb_map'. exact Hc. }
    assert (R3 : forallb (row_noeol_b fs) nrows = true).
    { subst nrows. rewrite forallb_map'. apply forallb_Forall. unfold strings_noeol, strings_noeol_b in Hn.
      apply forallb_Forall in Hn. eapply Forall_impl; [|exact Hn]. intros r Hr. apply row_noeol_native. exact Hr. }
    assert (R4 : byte_eqb d space = false -> kf_rows d fs nrows = false).
    { intro Esp. subst nrows. rewrite kf_rows_native. unfold kf_leading_ws_after_numeric in Hk.
      rewrite Esp in Hk. simpl in Hk. exact Hk. }
    intros j Hj.
    assert (Hj' : (j < length nrows)%nat) by (subst nrows; rewrite map_length; exact Hj).
    destruct (lines_aligned F P d Hd Hdff fs Hne Hf nrows R1 R2 R3 R4 j Hj') as [A1 A2].
    split; [|exact A2]. unfold st_of, rw_of. apply read_row_keep; [exact Hkeep|exact A1].
  Qed.

  (* the skip-and-read loop of read_text_columns on the written text: the selected rows of the full read,
     each projected on the kept columns *)
  Theorem cursor_text_correct keep rows :
    length keep = length fs ->
    StronglySorted Z.lt rows -> Forall (fun r => 0 <= r < Z.of_nat (length (trows t))) rows ->
    read_rows_all P d fs keep (length (trows t)) (write_text F d t)
    = Ok (map (select keep) (trows (expected F P t)))
    /\ read_rows_sel P d fs keep rows 0 (write_text F d t)
    = Ok (map (fun r => select keep (nth (Z.to_nat r) (trows (expected F P t)) [])) rows).
  Proof.
    intros Hkeep As R.
    destruct (cursor_text_partial P d fs keep st_of (rw_of keep) (length (trows t)) rows
                (written_text_aligned keep Hkeep) As R) as [E1 E2].
    assert (S0 : st_of 0 = write_text F d t) by reflexivity.
    rewrite S0 in E1, E2.
    assert (RW : forall j, (j < length (trows t))%nat ->
                 rw_of keep j = select keep (nth j (trows (expected F P t)) [])).
    { intros j Hj. unfold rw_of, expected. cbn [trows]. unfold nrows, fs.
      rewrite (nth_indep _ [] (to_native_row (tdt t) [])) by (rewrite map_length; exact Hj).
      rewrite map_nth.
      rewrite (nth_indep (map _ (trows t)) [] (rt_row F P (tdt t) (to_native_row (tdt t) []))) by (rewrite map_length; exact Hj).
      rewrite (map_nth (fun r => rt_row F P (tdt t) (to_native_row (tdt t) r))). reflexivity. }
    split.
    - rewrite E1. f_equal.
      assert (L : length (trows (expected F P t)) = length (trows t)) by (unfold expected; cbn [trows]; apply map_length).
      transitivity (map (fun j => select keep (nth j (trows (expected F P t)) [])) (seq 0 (length (trows t)))).
      + apply map_ext_in. intros j Hj. apply in_seq in Hj. apply RW. lia.
      + rewrite <- L. rewrite <- (map_map (fun j => nth j (trows (expected F P t)) []) (select keep)).
        rewrite seq_nth_all. reflexivity.
    - rewrite E2. f_equal. apply map_ext_in. intros r Hr. rewrite Forall_forall in R. specialize (R _ Hr). apply RW. lia.
  Qed.
End Correct.

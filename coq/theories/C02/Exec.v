(* C02/Exec.v -- glue evaluated by the generated case files. *)
From Coq.Strings Require Import Byte.
From EsVerif.Common Require Import Base Bytes.
From EsVerif.C04 Require Import TextModel.
From EsVerif.C02 Require Import Arange Gen Model Spec.
From Coq Require Import PrimInt63.
From Coq Require Uint63.

(* compact byte-string literals for large case files: [ub n l] = the n bytes held, most significant first,
   in the primitive 63-bit integers of l (seven bytes each, the last one the rest) *)
Definition ibit (i : Uint63.int) (n : Uint63.int) : bool :=
  negb (PrimInt63.eqb (PrimInt63.land (PrimInt63.lsr i n) 1%uint63) 0%uint63).
Definition byte_of_int (i : Uint63.int) : byte :=
  Byte.of_bits (ibit i 0%uint63, (ibit i 1%uint63, (ibit i 2%uint63, (ibit i 3%uint63,
               (ibit i 4%uint63, (ibit i 5%uint63, (ibit i 6%uint63, ibit i 7%uint63))))))).
Fixpoint be_bytes (k : nat) (i : Uint63.int) (acc : list byte) : list byte :=
  match k with O => acc | S k' => be_bytes k' (PrimInt63.lsr i 8%uint63) (byte_of_int i :: acc) end.
Fixpoint ub (n : Z) (l : list Uint63.int) : list byte :=
  match l with
  | [] => []
  | i :: r => let k := Z.min n 7 in be_bytes (Z.to_nat k) i [] ++ ub (n - k) r
  end.

(* scanf oracle for floating-point tokens of text files: (element size, token) |-> bytes stored *)
Definition tab3 := list (nat * list byte * list byte).
Fixpoint lookup (tab : tab3) (sz : nat) (k : list byte) : list byte :=
  match tab with
  | [] => []
  | (s, a, b) :: r => if (s =? sz)%nat && bytes_eqb a k then b else lookup r sz k
  end.
Definition P_of (tab : tab3) : nat -> list byte -> list byte := lookup tab.

(* one request: model = implementation?  property checker on the implementation's output *)
Definition v_req (pt : tab3) (f : rfile) (q : request) (full : list (list cell)) (out : result value) : Z :=
  verdict (result_eqb value_eqb (run_request (P_of pt) f q) out)
          (check (rf_nrows f) (rf_names f) full q out).

(* the model's full read of the file (for the harness: is the supplied [full] what the model reads?) *)
Definition v_full (pt : tab3) (f : rfile) (full : list (list cell)) : Z :=
  match run_request (P_of pt) f {| q_style := SRead; q_rows := RNone; q_cols := CNone; q_split := false; q_reduce := false |} with
  | Ok (VTable _ rows) => if list_eqb cells_eqb rows full then 0 else 1
  | _ => 1
  end.

(* the regenerated integer functions against the Python functions they came from *)
Definition ozz_eqb := option_eqb Z.eqb.
Definition v_process_slice (n : Z) (a b c : option Z) (out : result (Z * Z * Z)) : Z :=
  if result_eqb (fun x y => let '(x1, x2, x3) := x in let '(y1, y2, y3) := y in (x1 =? y1) && (x2 =? y2) && (x3 =? y3))
                (process_slice n a b c) out then 0 else 1.
Definition v_slice2rows (n : Z) (a b c : option Z) (out : result (list Z)) : Z :=
  if result_eqb zlist_eqb (match c with Some 0 => Err EOther | _ => slice2rows n a b c end) out then 0 else 1.
Definition v_fix_range (n x : Z) (b : bool) (out : result Z) : Z :=
  if result_eqb Z.eqb (fix_range n x b) out then 0 else 1.
Definition v_rows2read (n : Z) (r : rowsel) (out : result (option (list Z))) : Z :=
  if result_eqb (option_eqb zlist_eqb) (rows2read_of n r) out then 0 else 1.

(* a sequence of calls made in one process: every call is judged on its own; the verdict bits are or-ed *)
Definition v_seq (l : list Z) : Z := fold_right Z.lor 0 l.

(* binary tables with very many rows: the full read is not shipped as a literal; it is the file's rows (the harness
   checks in Python that the real full read has exactly the bytes of the file) *)
Definition rows_of_data (f : rfile) : list (list cell) :=
  match fread_rows (rowsize (rf_sizes f)) (Z.to_nat (rf_nrows f)) (rf_data f) with
  | Ok rows => map (split_row (rf_sizes f)) rows
  | Err _ => []
  end.
Definition v_req_bigbin (f : rfile) (q : request) (out : result value) : Z := v_req [] f q (rows_of_data f) out.

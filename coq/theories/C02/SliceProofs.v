(* C02/SliceProofs.v -- the regenerated slice arithmetic (Gen.v) follows Python slice semantics. *)
From Coq Require Import ZArith List Bool Lia ZifyBool.
From EsVerif.Common Require Import Base.
From EsVerif.C02 Require Import Arange Gen Model Spec.
Ltac Zify.zify_post_hook ::= Z.to_euclidean_division_equations.

Ltac split_ifs :=
  repeat match goal with
         | |- context[if ?b then _ else _] => destruct b eqn:?
         | H : context[if ?b then _ else _] |- _ => destruct b eqn:?
         end.

(* _fix_range has no raise statement *)
Lemma fix_range_total n x b : exists v, fix_range n x b = Ok v.
Proof. unfold fix_range. eexists; reflexivity. Qed.

Lemma fix_range_v_slice n x : 0 <= n -> fix_range_v n x true = py_clip n (Some x) 0.
Proof. intro Hn. unfold fix_range_v, fix_range, py_clip. split_ifs; lia. Qed.

(* scalar rows: negative counts from the end, everything else is left alone *)
Lemma fix_range_v_scalar n x : fix_range_v n x false = if x <? 0 then n + x else x.
Proof. unfold fix_range_v, fix_range. split_ifs; lia. Qed.

(* numpy.arange and range() agree for positive steps *)
Lemma arange_py_range a b s : 0 < s -> arange a (if b <? a then a else b) s = py_range a b s.
Proof.
  intro Hs. unfold arange, py_range, arange_len.
  destruct (b <? a) eqn:E1.
  - replace (s >? 0) with true by lia. replace (a <=? a) with true by lia.
    replace (a <? b) with false by lia. reflexivity.
  - replace (s >? 0) with true by lia.
    destruct (b <=? a) eqn:E2.
    + replace (a <? b) with false by lia. reflexivity.
    + replace (a <? b) with true by lia.
      replace ((b - a + s - 1) / s) with ((b - a - 1) / s + 1); [reflexivity|].
      replace (b - a + s - 1) with ((b - a - 1) + 1 * s) by lia.
      rewrite Z.div_add by lia. reflexivity.
Qed.

Definition step_ok (c : option Z) : Prop := match c with None => True | Some s => 0 < s end.
Definition step_val (c : option Z) : Z := match c with None => 1 | Some s => s end.

(* text files and column subsets: _slice2rows *)
Lemma slice2rows_python n a b c :
  0 <= n -> step_ok c -> slice2rows n a b c = Ok (py_slice_rows n a b c).
Proof.
  intros Hn Hc. unfold slice2rows, py_slice_rows.
  set (st := match c with None => 1 | Some s => s end).
  assert (Hst : 0 < st) by (destruct c; simpl in *; subst st; lia).
  assert (Ea : fix_range_v n (match a with None => 0 | Some v => v end) true = py_clip n a 0).
  { destruct a; [apply fix_range_v_slice; lia|]. rewrite fix_range_v_slice by lia. unfold py_clip. split_ifs; lia. }
  assert (Eb : fix_range_v n (match b with None => n | Some v => v end) true = py_clip n b n).
  { destruct b; [apply fix_range_v_slice; lia|]. rewrite fix_range_v_slice by lia. unfold py_clip. split_ifs; lia. }
  cbv zeta.
  replace (match a with None => 0 | Some start => start end) with (match a with None => 0 | Some v => v end) by (destruct a; reflexivity).
  replace (match b with None => n | Some stop => stop end) with (match b with None => n | Some v => v end) by (destruct b; reflexivity).
  replace (match c with None => 1 | Some step => step end) with st by (destruct c; reflexivity).
  rewrite Ea, Eb. f_equal. apply arange_py_range. exact Hst.
Qed.

(* binary files: _process_slice, then Records::process_slice and _get_slice_nrows count the rows
   start, start+step, ... that read_binary_slice visits *)
Definition slice_rows (sl : Z * Z * Z) (k : Z) : list Z :=
  let '(s0, _, st) := sl in map (fun i => s0 + i * st) (zseq 0 (Z.to_nat k)).

Lemma process_slice_python n a b c :
  0 <= n -> step_ok c ->
  exists s0 s1 k,
    process_slice n a b c = Ok (s0, s1, step_val c) /\
    0 <= s0 <= s1 /\ s1 <= n /\
    cpp_process_slice n s0 s1 (step_val c) = Ok k /\
    get_slice_nrows s0 s1 (step_val c) = Ok k /\
    0 <= k /\
    slice_rows (s0, s1, step_val c) k = py_slice_rows n a b c.
Proof.
  intros Hn Hc. unfold process_slice. cbv zeta.
  set (st := step_val c).
  assert (Hst : 0 < st) by (destruct c; simpl in *; subst st; simpl; lia).
  set (A := match a with None => 0 | Some v => v end).
  set (B := match b with None => n | Some v => if v >? n then n else v end).
  set (s0 := if A <? 0 then (if n + A <? 0 then 0 else n + A) else if A >? n then n else A).
  set (B1 := if B <? 0 then n + B else B).
  set (s1 := if B1 <? s0 then s0 else B1).
  assert (E0 : s0 = py_clip n a 0).
  { subst s0 A. unfold py_clip. destruct a; split_ifs; lia. }
  assert (R0 : 0 <= s0 <= n) by (subst s0; split_ifs; lia).
  assert (E1 : s1 = (if py_clip n b n <? s0 then s0 else py_clip n b n)).
  { subst s1 B1 B. clearbody s0. unfold py_clip. destruct b; split_ifs; lia. }
  assert (R1 : s0 <= s1 <= n).
  { rewrite E1. unfold py_clip. destruct b; split_ifs; lia. }
  exists s0, s1, (Z.quot (s1 - s0) st + (if Z.rem (s1 - s0) st =? 0 then 0 else 1)).
  assert (Q : Z.quot (s1 - s0) st = (s1 - s0) / st) by (apply Z.quot_div_nonneg; lia).
  assert (Rm : Z.rem (s1 - s0) st = (s1 - s0) mod st) by (apply Z.rem_mod_nonneg; lia).
  split; [|split; [lia|split; [lia|split; [|split; [|split]]]]].
  - subst s0 s1 B1 A B st. destruct a, b, c; simpl; split_ifs; try reflexivity; repeat f_equal; lia.
  - unfold cpp_process_slice.
    replace (s0 <? 0) with false by lia. replace (s1 >? n) with false by lia. replace (st <=? 0) with false by lia.
    reflexivity.
  - unfold get_slice_nrows. cbv zeta. rewrite Q, Rm. f_equal.
    destruct ((s1 - s0) mod st =? 0); simpl; lia.
  - rewrite Q, Rm. assert (0 <= (s1 - s0) / st) by (apply Z.div_pos; lia). destruct ((s1 - s0) mod st =? 0); lia.
  - unfold slice_rows, py_slice_rows, py_range. fold st.
    replace (match c with None => 1 | Some s => s end) with st by (subst st; destruct c; reflexivity).
    rewrite <- E0.
    assert (K : Z.quot (s1 - s0) st + (if Z.rem (s1 - s0) st =? 0 then 0 else 1)
                = (if s0 <? py_clip n b n then (py_clip n b n - s0 - 1) / st + 1 else 0)).
    { rewrite Q, Rm. rewrite E1. destruct (py_clip n b n <? s0) eqn:E2.
      - replace (s0 <? py_clip n b n) with false by lia. replace (s0 - s0) with 0 by lia.
        rewrite Z.mod_0_l, Z.div_0_l by lia. reflexivity.
      - destruct (s0 <? py_clip n b n) eqn:E3.
        + set (d := py_clip n b n - s0). assert (0 < d) by lia.
          replace (py_clip n b n - s0 - 1) with (d - 1) by lia.
          pose proof (Z.div_mod d st ltac:(lia)) as DM. pose proof (Z.mod_pos_bound d st Hst) as MB.
          destruct (d mod st =? 0) eqn:E4.
          * assert (E5 : (d - 1) / st = d / st - 1);
              [symmetry; apply (Z.div_unique (d - 1) st (d / st - 1) (st - 1)); [lia|]; nia | lia].
          * assert (E5 : (d - 1) / st = d / st);
              [symmetry; apply (Z.div_unique (d - 1) st (d / st) (d mod st - 1)); [lia|]; nia | lia].
        + replace (py_clip n b n - s0) with 0 by lia. rewrite Z.mod_0_l, Z.div_0_l by lia. reflexivity. }
    rewrite K. reflexivity.
Qed.

(* what the rows of a Python slice are: start, start+step, ... below stop *)
Lemma py_range_spec a b s x : 0 < s ->
  In x (py_range a b s) <-> a <= x < b /\ (x - a) mod s = 0.
Proof.
  intro Hs. unfold py_range. rewrite in_map_iff.
  assert (Z : forall m st i, In i (zseq st m) <-> st <= i < st + Z.of_nat m).
  { induction m as [|m IH]; intros st i; simpl; [lia|]. rewrite IH. lia. }
  split.
  - intros [k [E Hk]]. apply Z in Hk. subst x.
    destruct (a <? b) eqn:E1; [|simpl in Hk; lia].
    assert (0 <= (b - a - 1) / s) by (apply Z.div_pos; lia).
    rewrite Z2Nat.id in Hk by lia.
    split; [|replace (a + k * s - a) with (k * s) by lia; apply Z.mod_mul; lia].
    assert (k <= (b - a - 1) / s) by lia.
    assert (k * s <= b - a - 1); [|lia].
    etransitivity; [apply Z.mul_le_mono_nonneg_r; [lia|eassumption]|].
    rewrite Z.mul_comm. apply Z.mul_div_le. lia.
  - intros [[H1 H2] H3]. exists ((x - a) / s). split.
    + pose proof (Z.div_mod (x - a) s ltac:(lia)). lia.
    + apply Z. replace (a <? b) with true by lia.
      assert (0 <= (b - a - 1) / s) by (apply Z.div_pos; lia).
      rewrite Z2Nat.id by lia. split; [apply Z.div_pos; lia|].
      assert ((x - a) / s <= (b - a - 1) / s) by (apply Z.div_le_mono; lia). lia.
Qed.

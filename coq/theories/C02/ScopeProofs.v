(* C02/ScopeProofs.v -- the hypotheses of the request-level theorem as DECIDABLE predicates evaluated per case
   on the real file bytes (the scope monitor of harness/props/C02.py), their soundness, and what follows for
   the two bits of a verdict: inside the scope, a model that agrees with the implementation implies that the
   property checker accepts the implementation's output. *)
From Coq Require Import ZArith List Bool Lia ZifyBool ZifyNat Sorted.
From Coq.Strings Require Import Byte.
From EsVerif.Common Require Import Base Bytes.
From EsVerif.C04 Require TextModel Spec RoundTrip.
From EsVerif.C02 Require Import Arange Gen Model Spec SpecProofs RowsProofs CursorProofs RequestProofs RequestInst.
Import ListNotations.

(* ------------------------------------------------------------------ binary *)
Definition row_ok_b (sizes : list Z) (r : list cell) : bool := zlist_eqb (map cellsize r) sizes.

Definition wf_bin_b (f : rfile) (t : list (list cell)) (tail : list byte) : bool :=
  negb (rf_ascii f)
  && bytes_eqb (rf_data f) (table_bytes t ++ tail)
  && forallb (row_ok_b (rf_sizes f)) t
  && (rf_nrows f =? Z.of_nat (length t))
  && (length (rf_names f) =? length (rf_sizes f))%nat
  && match t with [] => false | _ => true end.

Lemma wf_bin_b_sound f t tail : wf_bin_b f t tail = true -> wf_bin f t tail /\ t <> [].
Proof.
  unfold wf_bin_b. intro H. repeat (apply andb_true_iff in H; destruct H as [H ?]).
  split; [split|].
  - destruct (rf_ascii f); [discriminate|reflexivity].
  - apply bytes_eqb_eq. assumption.
  - rewrite forallb_forall in *. apply Forall_forall. intros r Hr. unfold row_ok. apply zlist_eqb_spec.
    match goal with Hf : forall x, In x t -> row_ok_b _ x = true |- _ => apply (Hf r Hr) end.
  - lia.
  - apply Nat.eqb_eq. assumption.
  - destruct t; [discriminate|discriminate].
Qed.

Lemma nodup_b_sound l : nodup_b l = true -> NoDup l.
Proof.
  induction l as [|x t IH]; simpl; intro H; [constructor|].
  apply andb_true_iff in H as [H1 H2]. constructor; [|apply IH; exact H2].
  intro Hin. apply zmem_In in Hin. rewrite Hin in H1. discriminate.
Qed.

Lemma result_value_eqb_eq (a b : result value) : result_eqb value_eqb a b = true -> a = b.
Proof.
  destruct a as [x|e], b as [y|e']; simpl; intro H; try discriminate.
  - apply value_eqb_eq in H. congruence.
  - destruct e, e'; simpl in H; try discriminate; reflexivity.
Qed.

(* ------------------------------------------------------------------ text *)
Import TextModel.

(* the handle of a text file written from tb with delimiter d, holding the bytes [data] *)
Definition text_file (d : byte) (names : list Z) (tb : table) (data : list byte) : rfile :=
  {| rf_ascii := true; rf_delim := d; rf_nrows := Z.of_nat (length (trows tb)); rf_names := names;
     rf_sizes := []; rf_flds := tdt tb; rf_data := data |}.

Definition wf_text_b (F P : nat -> list byte -> list byte) (d : byte) (names : list Z) (tb : table) (data : list byte) : bool :=
  bytes_eqb data (write_text F d tb)
  && (length names =? length (tdt tb))%nat
  && Spec.table_ok_b tb
  && Spec.fcontract_b F P tb
  && Spec.strings_noeol_b tb
  && negb (Spec.kf_leading_ws_after_numeric d tb)
  && Spec.delim_ok_b d
  && negb (byte_eqb d xff).

Lemma wf_text_b_sound F P d names tb data :
  wf_text_b F P d names tb data = true -> wf_text F P (text_file d names tb data) tb.
Proof.
  unfold wf_text_b. intro H. repeat (apply andb_true_iff in H; destruct H as [H ?]).
  split; simpl; try reflexivity; try assumption.
  - apply bytes_eqb_eq. assumption.
  - apply Nat.eqb_eq. assumption.
  - match goal with Hk : negb (Spec.kf_leading_ws_after_numeric _ _) = true |- _ => apply negb_true_iff in Hk; exact Hk end.
  - match goal with Hk : negb (byte_eqb d xff) = true |- _ => apply negb_true_iff in Hk; exact Hk end.
Qed.

(* ------------------------------------------------------------------ what a verdict means inside the scope *)
Theorem scope_bin_holds P f t q :
  wf_bin_b f t [] = true -> nodup_b (rf_names f) = true ->
  holds (rf_nrows f) (rf_names f) t q (run_request P f q).
Proof.
  intros Hw Hn. destruct (wf_bin_b_sound f t [] Hw) as [W Hne].
  apply request_holds_any; [left; exists []; split; assumption|apply nodup_b_sound; exact Hn].
Qed.

Theorem scope_text_holds F P d names tb data q :
  wf_text_b F P d names tb data = true -> nodup_b names = true ->
  holds (Z.of_nat (length (trows tb))) names (full_text F P tb) q (run_request P (text_file d names tb data) q).
Proof.
  intros Hw Hn. pose proof (wf_text_b_sound F P d names tb data Hw) as W.
  apply (request_holds_any P (text_file d names tb data) (full_text F P tb) q).
  - right. exists F, tb. split; [exact W|reflexivity].
  - apply nodup_b_sound. exact Hn.
Qed.

(* model = implementation  ==>  the checker accepts the implementation's output (bit 1 of a verdict cannot be
   set alone on an in-scope case) *)
Theorem scope_bin_agree_implies_ok P f t q out :
  wf_bin_b f t [] = true -> nodup_b (rf_names f) = true ->
  result_eqb value_eqb (run_request P f q) out = true ->
  check (rf_nrows f) (rf_names f) t q out = true.
Proof.
  intros Hw Hn He. apply result_value_eqb_eq in He. subst out. apply check_sound. apply scope_bin_holds; assumption.
Qed.

Theorem scope_text_agree_implies_ok F P d names tb data q out :
  wf_text_b F P d names tb data = true -> nodup_b names = true ->
  result_eqb value_eqb (run_request P (text_file d names tb data) q) out = true ->
  check (Z.of_nat (length (trows tb))) names (full_text F P tb) q out = true.
Proof.
  intros Hw Hn He. apply result_value_eqb_eq in He. subst out. apply check_sound. apply scope_text_holds; assumption.
Qed.

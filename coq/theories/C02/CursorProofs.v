(* C02/CursorProofs.v -- the binary cursor loops of records.cpp return the requested cells.
   A well-formed binary file: the data section is the concatenation of the memory images of its rows
   (possibly followed by other bytes), every row consisting of cells of the declared sizes. *)
From Coq Require Import ZArith List Bool Lia ZifyBool Sorted.
From Coq.Strings Require Import Byte.
From EsVerif.Common Require Import Base Bytes.
From EsVerif.C02 Require Import Arange Gen Model Spec SliceProofs RowsProofs.
Import ListNotations.

Definition cellsize (c : cell) : Z := Z.of_nat (length c).
Definition row_ok (sizes : list Z) (r : list cell) : Prop := map cellsize r = sizes.
Definition table_bytes (t : list (list cell)) : list byte := concat (map (@concat byte) t).

Record wf_bin (f : rfile) (t : list (list cell)) (tail : list byte) : Prop := {
  wf_binary : rf_ascii f = false;
  wf_data : rf_data f = table_bytes t ++ tail;
  wf_rows : Forall (row_ok (rf_sizes f)) t;
  wf_n : rf_nrows f = Z.of_nat (length t);
  wf_ncols : length (rf_names f) = length (rf_sizes f)
}.

Lemma seek_skipn d (s : list byte) : seek d s = skipn (Z.to_nat d) s.
Proof. unfold seek. destruct (d >? 0) eqn:E; [reflexivity|]. replace (Z.to_nat d) with O by lia. reflexivity. Qed.

Lemma skipn_add {A} (a b : nat) (l : list A) : skipn (a + b) l = skipn b (skipn a l).
Proof. revert l; induction a as [|a IH]; intro l; [reflexivity|]. destruct l; simpl; [destruct b; reflexivity|apply IH]. Qed.

Lemma zsum_app a b : zsum (a ++ b) = zsum a + zsum b.
Proof. unfold zsum. induction a; simpl; lia. Qed.

Lemma zsum_sizes_length (r : list cell) : zsum (map cellsize r) = Z.of_nat (length (concat r)).
Proof. unfold zsum. induction r as [|c t IH]; simpl; [reflexivity|]. rewrite app_length, IH. unfold cellsize. lia. Qed.

Lemma row_length sizes r : row_ok sizes r -> Z.of_nat (length (concat r)) = rowsize sizes.
Proof. intro H. unfold rowsize. rewrite <- H. symmetry. apply zsum_sizes_length. Qed.

Lemma firstn_app_exact {A} (a b : list A) : firstn (length a) (a ++ b) = a.
Proof. induction a; simpl; [destruct b; reflexivity|f_equal; assumption]. Qed.
Lemma skipn_app_exact {A} (a b : list A) : skipn (length a) (a ++ b) = b.
Proof. induction a; simpl; auto. Qed.

(* whole rows *)
Lemma split_row_ok sizes : forall r, row_ok sizes r -> split_row sizes (concat r) = r.
Proof.
  unfold row_ok. induction sizes as [|sz t IH]; intros r H; destruct r as [|c u]; simpl in *; try discriminate; [reflexivity|].
  inversion H; subst. unfold cellsize. rewrite Nat2Z.id, firstn_app_exact, skipn_app_exact. f_equal. apply IH. reflexivity.
Qed.

Lemma fread1_app (x rest : list byte) : fread1 (Z.of_nat (length x)) (x ++ rest) = Ok (x, rest).
Proof.
  unfold fread1. rewrite app_length. replace (Z.of_nat (length x + length rest) <? Z.of_nat (length x)) with false by lia.
  rewrite Nat2Z.id, firstn_app_exact, skipn_app_exact. reflexivity.
Qed.

(* the stream at row j of a well-formed file *)
Lemma at_row sizes : forall t tail j, Forall (row_ok sizes) t -> (j < length t)%nat ->
  skipn (Z.to_nat (rowsize sizes) * j) (table_bytes t ++ tail)
  = concat (nth j t []) ++ skipn (Z.to_nat (rowsize sizes) * S j) (table_bytes t ++ tail).
Proof.
  induction t as [|r t IH]; intros tail j F Hj; simpl in Hj; [lia|].
  inversion F as [|? ? Hr Ft]; subst. unfold table_bytes. simpl. rewrite <- app_assoc. fold (table_bytes t).
  assert (L : Z.to_nat (rowsize sizes) = length (concat r)) by (rewrite <- (row_length sizes r Hr); lia).
  destruct j as [|j].
  - rewrite Nat.mul_0_r, Nat.mul_1_r. simpl. rewrite L, skipn_app_exact. reflexivity.
  - replace (Z.to_nat (rowsize sizes) * S j)%nat with (length (concat r) + Z.to_nat (rowsize sizes) * j)%nat by lia.
    rewrite skipn_add, skipn_app_exact.
    replace (Z.to_nat (rowsize sizes) * S (S j))%nat with (length (concat r) + Z.to_nat (rowsize sizes) * S j)%nat by lia.
    rewrite skipn_add, skipn_app_exact. simpl nth. apply IH; [assumption|lia].
Qed.

Lemma nth_row_ok sizes (t : list (list cell)) j : Forall (row_ok sizes) t -> (j < length t)%nat -> row_ok sizes (nth j t []).
Proof. intros F Hj. rewrite Forall_forall in F. apply F, nth_In, Hj. Qed.

Definition row_at (t : list (list cell)) (r : Z) : list cell := nth (Z.to_nat r) t [].

(* ------------------------------------------------------------------ read_binary_slice *)
Fixpoint rows_from (j st : Z) (k : nat) : list Z :=
  match k with O => [] | S k' => j :: rows_from (j + st) st k' end.

Lemma rows_from_zseq st k : forall j s, map (fun i => j + i * st) (zseq s k) = rows_from (j + s * st) st k.
Proof.
  induction k as [|k IH]; intros j s; simpl; [reflexivity|]. f_equal. rewrite IH. f_equal. lia.
Qed.

Section Slice.
  Variables (sizes : list Z) (t : list (list cell)) (tail : list byte).
  Hypothesis F : Forall (row_ok sizes) t.
  Let rs := rowsize sizes.
  Let data := table_bytes t ++ tail.

  Lemma fread1_row j : 0 <= j < Z.of_nat (length t) -> 0 <= rs ->
    fread1 rs (skipn (Z.to_nat (rs * j)) data) = Ok (concat (row_at t j), skipn (Z.to_nat (rs * (j + 1))) data).
  Proof.
    intros Hj Hrs. subst data rs. set (rs := rowsize sizes) in *. replace (Z.to_nat (rs * j)) with (Z.to_nat rs * Z.to_nat j)%nat by lia.
    subst rs. rewrite (at_row sizes t tail (Z.to_nat j) F) by lia.
    replace (Z.to_nat (rowsize sizes * (j + 1))) with (Z.to_nat (rowsize sizes) * S (Z.to_nat j))%nat by lia.
    unfold row_at. rewrite <- (row_length sizes (nth (Z.to_nat j) t [])) by (apply nth_row_ok; [assumption|lia]).
    apply fread1_app.
  Qed.

  Lemma slice_loop_correct st : 0 < st -> 0 <= rs -> forall k j, 0 <= j ->
    (k = O \/ j + (Z.of_nat k - 1) * st < Z.of_nat (length t)) ->
    slice_loop rs st k (skipn (Z.to_nat (rs * j)) data) = Ok (map (fun r => concat (row_at t r)) (rows_from j st k)).
  Proof.
    intros Hst Hrs. induction k as [|k IH]; intros j Hj Hk; [reflexivity|].
    destruct Hk as [Hk|Hk]; [discriminate|].
    cbn [slice_loop rows_from map]. rewrite fread1_row by nia. cbn [bind].
    rewrite seek_skipn, <- skipn_add.
    replace (Z.to_nat (rs * (j + 1)) + Z.to_nat (rs * (st - 1)))%nat with (Z.to_nat (rs * (j + st))) by nia.
    rewrite IH; [reflexivity|lia|]. destruct k; [left; reflexivity|right; lia].
  Qed.

  Lemma fread_rows_correct : 0 <= rs -> forall k j, 0 <= j ->
    j + Z.of_nat k <= Z.of_nat (length t) ->
    fread_rows rs k (skipn (Z.to_nat (rs * j)) data) = Ok (map (fun r => concat (row_at t r)) (rows_from j 1 k)).
  Proof.
    intros Hrs. induction k as [|k IH]; intros j Hj Hk; [reflexivity|].
    cbn [fread_rows rows_from map]. rewrite fread1_row by lia. cbn [bind].
    rewrite IH; [reflexivity|lia|lia].
  Qed.
End Slice.

Lemma rowsize_nonneg sizes (r : list cell) : row_ok sizes r -> 0 <= rowsize sizes.
Proof. intro H. rewrite <- (row_length sizes r H). lia. Qed.

Lemma rows_from_in_range st : 0 < st -> forall k j n, 0 <= j -> (k = O \/ j + (Z.of_nat k - 1) * st < n) ->
  Forall (fun r => 0 <= r < n) (rows_from j st k).
Proof.
  intros Hst. induction k as [|k IH]; intros j n Hj Hk; simpl; constructor.
  - destruct Hk as [Hk|Hk]; [discriminate|]. nia.
  - apply IH; [lia|]. destruct Hk as [Hk|Hk]; [discriminate|]. destruct k; [left; reflexivity|right; lia].
Qed.

(* Recfile._read_binary_slice on a well-formed file: the rows start, start+step, ... as they are in the file *)
Theorem cursor_binary_slice_correct f t tail s0 s1 st k :
  wf_bin f t tail -> t <> [] ->
  0 <= s0 <= s1 -> s1 <= rf_nrows f -> 0 < st ->
  cpp_process_slice (rf_nrows f) s0 s1 st = Ok k -> get_slice_nrows s0 s1 st = Ok k ->
  read_binary_slice f (s0, s1, st) = Ok (map (row_at t) (slice_rows (s0, s1, st) k)).
Proof.
  intros W Hne H01 H1n Hst Hc Hg. destruct W as [Wb Wd Wr Wn Wc].
  assert (Hrs : 0 <= rowsize (rf_sizes f)).
  { destruct t as [|r u]; [congruence|]. inversion Wr; subst. eapply rowsize_nonneg; eassumption. }
  assert (Hk : 0 <= k /\ (k = 0 \/ s0 + (k - 1) * st < rf_nrows f)).
  { unfold cpp_process_slice in Hc.
    replace (s0 <? 0) with false in Hc by lia. replace (s1 >? rf_nrows f) with false in Hc by lia.
    replace (st <=? 0) with false in Hc by lia. inversion Hc as [Hk]. clear Hc.
    rewrite Z.quot_div_nonneg, Z.rem_mod_nonneg in * by lia.
    pose proof (Z.div_mod (s1 - s0) st ltac:(lia)) as DM. pose proof (Z.mod_pos_bound (s1 - s0) st Hst) as MB.
    assert (0 <= (s1 - s0) / st) by (apply Z.div_pos; lia).
    destruct ((s1 - s0) mod st =? 0) eqn:E; (split; [lia|]);
      [destruct (Z.eq_dec ((s1 - s0) / st) 0); [left; lia|right; nia] | right; nia]. }
  destruct Hk as [Hk0 Hk1].
  unfold read_binary_slice. replace (st =? 0) with false by lia. rewrite Hg. cbn [bind].
  replace (k <? 0) with false by lia.
  unfold cpp_read_binary_slice. rewrite Hc. cbn [bind]. rewrite seek_skipn, Wd.
  assert (R : (if st =? 1 then fread_rows (rowsize (rf_sizes f)) (Z.to_nat k) (skipn (Z.to_nat (rowsize (rf_sizes f) * s0)) (table_bytes t ++ tail))
               else slice_loop (rowsize (rf_sizes f)) st (Z.to_nat k) (skipn (Z.to_nat (rowsize (rf_sizes f) * s0)) (table_bytes t ++ tail)))
              = Ok (map (fun r => concat (row_at t r)) (rows_from s0 st (Z.to_nat k)))).
  { destruct (st =? 1) eqn:E1.
    - apply Z.eqb_eq in E1. subst st. apply fread_rows_correct; try assumption; try lia.
    - apply slice_loop_correct; try assumption; try lia. }
  rewrite R. cbn [bind]. rewrite map_length.
  assert (L : forall j m, length (rows_from j st m) = m) by (intros j m; revert j; induction m; intro j; simpl; auto).
  rewrite L. replace (Z.of_nat (Z.to_nat k) =? k) with true by lia.
  f_equal. unfold slice_rows. rewrite (rows_from_zseq st (Z.to_nat k) s0 0). replace (s0 + 0 * st) with s0 by lia.
  rewrite map_map.
  assert (IR : Forall (fun r => 0 <= r < Z.of_nat (length t)) (rows_from s0 st (Z.to_nat k))).
  { apply rows_from_in_range; lia. }
  clear R. induction IR as [|r l Hr _ IH]; simpl; [reflexivity|]. f_equal; [|exact IH].
  apply split_row_ok. unfold row_at. apply nth_row_ok; [assumption|lia].
Qed.

(* ------------------------------------------------------------------ read_binary_columns *)
Lemma concat_firstn_nth_skipn (r : list cell) c : (c < length r)%nat ->
  concat r = concat (firstn c r) ++ nth c r [] ++ concat (skipn (S c) r).
Proof.
  revert c; induction r as [|x u IH]; intros c H; simpl in H; [lia|].
  destruct c as [|c]; simpl; [reflexivity|]. rewrite <- app_assoc. f_equal. apply IH. lia.
Qed.

Lemma zsum_to_length sizes (r : list cell) c : row_ok sizes r -> 0 <= c ->
  zsum_to sizes c = Z.of_nat (length (concat (firstn (Z.to_nat c) r))).
Proof.
  intros H Hc. unfold zsum_to. rewrite <- H, firstn_map. apply zsum_sizes_length.
Qed.

Lemma zget_size sizes (r : list cell) c : row_ok sizes r -> 0 <= c < Z.of_nat (length r) ->
  zget sizes c = cellsize (nth (Z.to_nat c) r []).
Proof.
  intros H Hc. unfold zget. rewrite <- H. change 0 with (cellsize []). apply map_nth.
Qed.

Lemma bin_row_cols_correct sizes (r : list cell) rest : row_ok sizes r ->
  forall cols cur, 0 <= cur ->
    asc cols -> Forall (fun c => cur <= c < Z.of_nat (length r)) cols ->
    bin_row_cols sizes cols cur (zsum_to sizes cur) (skipn (Z.to_nat (zsum_to sizes cur)) (concat r ++ rest))
    = Ok (map (fun c => nth (Z.to_nat c) r []) cols, rest).
Proof.
  intros Hr. induction cols as [|c cs IH]; intros cur Hcur A R.
  - cbn [bin_row_cols map]. f_equal. f_equal.
    assert (E : zsum_to sizes cur <= rowsize sizes).
    { unfold zsum_to, rowsize. rewrite <- (firstn_skipn (Z.to_nat cur) sizes) at 2. rewrite zsum_app.
      assert (0 <= zsum (skipn (Z.to_nat cur) sizes)); [|lia].
      rewrite <- Hr, skipn_map, zsum_sizes_length. lia. }
    assert (L : Z.to_nat (rowsize sizes) = length (concat r)) by (rewrite <- (row_length sizes r Hr); lia).
    destruct (zsum_to sizes cur <? rowsize sizes) eqn:E1.
    + rewrite seek_skipn, <- skipn_add.
      replace (Z.to_nat (zsum_to sizes cur) + Z.to_nat (rowsize sizes - zsum_to sizes cur))%nat with (length (concat r)).
      * apply skipn_app_exact.
      * assert (0 <= zsum_to sizes cur) by (rewrite (zsum_to_length sizes r cur Hr Hcur); lia). lia.
    + replace (Z.to_nat (zsum_to sizes cur)) with (length (concat r)) by lia. apply skipn_app_exact.
  - inversion A as [|? ? A' Fc]; subst. inversion R as [|? ? Rc R']; subst.
    cbn [bin_row_cols].
    assert (P : 0 <= zsum_to sizes cur /\ zsum_to sizes cur <= zsum_to sizes c).
    { rewrite (zsum_to_length sizes r cur Hr Hcur), (zsum_to_length sizes r c Hr ltac:(lia)). split; [lia|].
      replace (Z.to_nat c) with (Z.to_nat cur + (Z.to_nat c - Z.to_nat cur))%nat by lia.
      rewrite <- (firstn_skipn (Z.to_nat cur) (firstn (Z.to_nat cur + (Z.to_nat c - Z.to_nat cur)) r)).
      rewrite concat_app, app_length. rewrite firstn_firstn. replace (Init.Nat.min (Z.to_nat cur) (Z.to_nat cur + (Z.to_nat c - Z.to_nat cur))) with (Z.to_nat cur) by lia. lia. }
    (* the stream is at column c after the optional seek *)
    assert (S1 : (if c >? cur then seek (zsum_to sizes c - zsum_to sizes cur) (skipn (Z.to_nat (zsum_to sizes cur)) (concat r ++ rest))
                  else skipn (Z.to_nat (zsum_to sizes cur)) (concat r ++ rest))
                 = skipn (Z.to_nat (zsum_to sizes c)) (concat r ++ rest)).
    { destruct (c >? cur) eqn:E.
      - rewrite seek_skipn, <- skipn_add. f_equal. lia.
      - replace c with cur by lia. reflexivity. }
    rewrite S1.
    assert (O1 : (if c >? cur then zsum_to sizes cur + (zsum_to sizes c - zsum_to sizes cur) else zsum_to sizes cur) = zsum_to sizes c).
    { destruct (c >? cur) eqn:E; [lia|]. replace c with cur by lia. reflexivity. }
    rewrite O1.
    replace (if c >? cur then c else cur) with c by (destruct (c >? cur) eqn:E; lia).
    (* read the cell *)
    rewrite (zsum_to_length sizes r c Hr ltac:(lia)), Nat2Z.id.
    rewrite (concat_firstn_nth_skipn r (Z.to_nat c)) at 1 by lia.
    rewrite <- !app_assoc, skipn_app_exact.
    rewrite (zget_size sizes r c Hr ltac:(lia)). unfold cellsize. rewrite fread1_app. cbn [bind].
    (* the stream is now at column c + 1 *)
    assert (N : zsum_to sizes (c + 1) = Z.of_nat (length (concat (firstn (Z.to_nat c) r))) + Z.of_nat (length (nth (Z.to_nat c) r []))).
    { rewrite (zsum_to_length sizes r (c + 1) Hr ltac:(lia)).
      replace (Z.to_nat (c + 1)) with (S (Z.to_nat c)) by lia.
      rewrite <- (firstn_skipn (Z.to_nat c) (firstn (S (Z.to_nat c)) r)), concat_app, app_length.
      rewrite firstn_firstn. replace (Init.Nat.min (Z.to_nat c) (S (Z.to_nat c))) with (Z.to_nat c) by lia.
      assert (E : skipn (Z.to_nat c) (firstn (S (Z.to_nat c)) r) = [nth (Z.to_nat c) r []]).
      { assert (H : (Z.to_nat c < length r)%nat) by lia. revert H. generalize (Z.to_nat c). intro m. generalize r.
        induction m as [|m IHm]; intros r0 H; destruct r0; simpl in *; try lia; [destruct r0; reflexivity|apply IHm; lia]. }
      rewrite E. simpl. rewrite app_nil_r. lia. }
    rewrite <- N.
    assert (S2 : concat (skipn (S (Z.to_nat c)) r) ++ rest = skipn (Z.to_nat (zsum_to sizes (c + 1))) (concat r ++ rest)).
    { rewrite N. rewrite (concat_firstn_nth_skipn r (Z.to_nat c)) at 1 by lia.
      rewrite <- !app_assoc.
      replace (Z.to_nat (Z.of_nat (length (concat (firstn (Z.to_nat c) r))) + Z.of_nat (length (nth (Z.to_nat c) r []))))
        with (length (concat (firstn (Z.to_nat c) r)) + length (nth (Z.to_nat c) r []))%nat by lia.
      rewrite skipn_add, skipn_app_exact, skipn_app_exact. reflexivity. }
    rewrite S2. rewrite (IH (c + 1)); [reflexivity|lia|assumption|].
    rewrite Forall_forall in *. intros y Hy. specialize (Fc _ Hy). specialize (R' _ Hy). lia.
Qed.

Lemma bin_rows_correct sizes t tail cols : Forall (row_ok sizes) t -> t <> [] ->
  asc cols -> Forall (fun c => 0 <= c < Z.of_nat (length sizes)) cols ->
  forall rows cur, 0 <= cur -> asc rows -> Forall (fun r => cur <= r < Z.of_nat (length t)) rows ->
    bin_rows sizes cols rows cur (skipn (Z.to_nat (rowsize sizes * cur)) (table_bytes t ++ tail))
    = Ok (sel_table t rows cols).
Proof.
  intros F Hne Ac Rc.
  assert (Hrs : 0 <= rowsize sizes).
  { destruct t as [|r u]; [congruence|]. inversion F; subst. eapply rowsize_nonneg; eassumption. }
  induction rows as [|r rs IH]; intros cur Hcur A R; [reflexivity|].
  inversion A as [|? ? A' Fr]; subst. inversion R as [|? ? Rr R']; subst.
  cbn [bin_rows].
  assert (S1 : (if r >? cur then seek (rowsize sizes * (r - cur)) (skipn (Z.to_nat (rowsize sizes * cur)) (table_bytes t ++ tail))
                else skipn (Z.to_nat (rowsize sizes * cur)) (table_bytes t ++ tail))
               = skipn (Z.to_nat (rowsize sizes * r)) (table_bytes t ++ tail)).
  { destruct (r >? cur) eqn:E.
    - rewrite seek_skipn, <- skipn_add. f_equal. nia.
    - replace r with cur by lia. reflexivity. }
  rewrite S1. replace (if r >? cur then r else cur) with r by (destruct (r >? cur) eqn:E; lia).
  replace (Z.to_nat (rowsize sizes * r)) with (Z.to_nat (rowsize sizes) * Z.to_nat r)%nat by (rewrite Z2Nat.inj_mul by lia; reflexivity).
  rewrite (at_row sizes t tail (Z.to_nat r) F) by lia.
  pose proof (nth_row_ok sizes t (Z.to_nat r) F ltac:(lia)) as Hrow.
  assert (Hlen : length (nth (Z.to_nat r) t []) = length sizes) by (rewrite <- Hrow, map_length; reflexivity).
  pose proof (bin_row_cols_correct sizes (nth (Z.to_nat r) t []) (skipn (Z.to_nat (rowsize sizes) * S (Z.to_nat r)) (table_bytes t ++ tail))
                Hrow cols 0 ltac:(lia) Ac) as B.
  unfold zsum_to in B at 1 2. simpl firstn in B. change (zsum []) with 0 in B. simpl skipn in B.
  rewrite B by (rewrite Hlen; assumption). cbn [bind].
  replace (Z.to_nat (rowsize sizes) * S (Z.to_nat r))%nat with (Z.to_nat (rowsize sizes * (r + 1)))
    by (rewrite Z2Nat.inj_mul by lia; f_equal; lia).
  rewrite (IH (r + 1)); [reflexivity|lia|assumption|].
  rewrite Forall_forall in *. intros y Hy. specialize (Fr _ Hy). specialize (R' _ Hy). lia.
Qed.

(* a strictly ascending list inside [lo, hi) has at most hi - lo members; with exactly that many it is lo..hi-1 *)
Lemma asc_length_bound l : forall lo hi, asc l -> Forall (fun r => lo <= r < hi) l -> Z.of_nat (length l) <= Z.max 0 (hi - lo).
Proof.
  induction l as [|a u IH]; intros lo hi A R; simpl; [lia|].
  inversion A as [|? ? A1 F1]; subst. inversion R as [|? ? Ra R1]; subst.
  assert (Z.of_nat (length u) <= Z.max 0 (hi - (a + 1))); [|lia].
  apply IH; [assumption|]. rewrite Forall_forall in *. intros y Hy. specialize (F1 _ Hy). specialize (R1 _ Hy). lia.
Qed.

Lemma asc_full m : forall (l : list Z) s, asc l -> Forall (fun r => s <= r < s + Z.of_nat m) l -> length l = m -> l = zseq s m.
Proof.
  induction m as [|m IH]; intros l s A R L; destruct l as [|a u]; simpl in *; try lia; [reflexivity|].
  inversion A as [|? ? A1 F1]; subst. inversion R as [|? ? Ra R1]; subst.
  assert (Ru : Forall (fun r => a + 1 <= r < s + Z.of_nat (S m)) u).
  { rewrite Forall_forall in *. intros y Hy. specialize (F1 _ Hy). specialize (R1 _ Hy). lia. }
  pose proof (asc_length_bound u (a + 1) (s + Z.of_nat (S m)) A1 Ru) as B.
  assert (a = s) by lia. subst a. f_equal. apply IH; [assumption| |lia].
  rewrite Forall_forall in *. intros y Hy. specialize (Ru _ Hy). lia.
Qed.

(* Records::read_binary_columns on a well-formed file, for sorted duplicate-free in-range rows and
   columns (what _get_rows2read and get_colnums hand over): the requested cells of the requested rows *)
Theorem cursor_binary_columns_correct f t tail cols rows :
  wf_bin f t tail -> t <> [] ->
  asc cols -> Forall (fun c => 0 <= c < Z.of_nat (length (rf_sizes f))) cols ->
  match rows with
  | None => True
  | Some l => asc l /\ Forall (fun r => 0 <= r < rf_nrows f) l
  end ->
  read_binary_columns f cols rows
  = Ok (sel_table t (match rows with None => zseq 0 (length t) | Some l => l end) cols).
Proof.
  intros W Hne Ac Rc Hrows. destruct W as [Wb Wd Wr Wn Wcn].
  unfold read_binary_columns. rewrite Wd.
  assert (All : bin_rows (rf_sizes f) cols (zseq 0 (length t)) 0 (table_bytes t ++ tail) = Ok (sel_table t (zseq 0 (length t)) cols)).
  { pose proof (bin_rows_correct (rf_sizes f) t tail cols Wr Hne Ac Rc (zseq 0 (length t)) 0 ltac:(lia) (zseq_asc _ _)) as B.
    rewrite Z.mul_0_r in B. simpl skipn in B. apply B.
    rewrite Forall_forall. intros y Hy. apply zseq_In in Hy. lia. }
  destruct rows as [l|]; unfold rows_to_visit; rewrite Wn, Nat2Z.id.
  - destruct Hrows as [Al Rl]. destruct (Z.of_nat (length l) =? Z.of_nat (length t)) eqn:E.
    + (* as many distinct in-range rows as the file has: every row *)
      rewrite All. f_equal. f_equal. symmetry.
      apply (asc_full (length t) l 0); [assumption| |lia].
      rewrite Wn in Rl. rewrite Forall_forall in *. intros y Hy. specialize (Rl _ Hy). lia.
    + pose proof (bin_rows_correct (rf_sizes f) t tail cols Wr Hne Ac Rc l 0 ltac:(lia) Al) as B.
      rewrite Z.mul_0_r in B. simpl skipn in B. apply B. rewrite Wn in Rl. exact Rl.
  - exact All.
Qed.

(* C02/RequestInst.v -- the two kinds of files for which the request-level theorem is instantiated:
   well-formed binary files (CursorProofs.wf_bin) and text files written by the writer (wf_text). *)
From Coq Require Import ZArith List Bool Lia ZifyBool ZifyNat Sorted.
From Coq.Strings Require Import Byte.
From EsVerif.Common Require Import Base Bytes.
From EsVerif.C04 Require TextModel Spec RoundTrip.
From EsVerif.C02 Require Import Arange Gen Model Spec SliceProofs RowsProofs CursorProofs MainProofs TextProofs TextAligned RequestProofs.
Import ListNotations.

(* ------------------------------------------------------------------ binary *)
Lemma binary_data_ok P f t tail : wf_bin f t tail -> t <> [] ->
  forall colnums rows2,
    asc colnums -> Forall (fun c => 0 <= c < Z.of_nat (length (rf_names f))) colnums -> rows_ok (rf_nrows f) rows2 ->
    data_step P f colnums rows2 = Ok (sel_table t (rows_of (length t) rows2) colnums).
Proof.
  intros W Hne cols rows2 Ac Rc Rok. pose proof W as [Wb Wd Wr Wn Wcn].
  unfold data_step. rewrite Wb.
  assert (Rc' : Forall (fun c => 0 <= c < Z.of_nat (length (rf_sizes f))) cols) by (rewrite <- Wcn; exact Rc).
  destruct ((Z.of_nat (length cols) =? rf_ncols f) &&
            match rows2 with None => true | Some l => Z.of_nat (length l) =? rf_nrows f end) eqn:E.
  - apply andb_true_iff in E as [E1 E2]. unfold rf_ncols in E1.
    assert (Ec : cols = zseq 0 (length (rf_names f))).
    { apply asc_full; [assumption| |lia]. rewrite Forall_forall in *. intros y Hy. specialize (Rc _ Hy). lia. }
    assert (Er : rows_of (length t) rows2 = zseq 0 (length t)).
    { destruct rows2 as [l|]; [|reflexivity]. simpl. destruct Rok as [Al Rl].
      apply asc_full; [assumption| |lia]. rewrite Forall_forall in *. intros y Hy. specialize (Rl _ Hy). lia. }
    assert (Ecp : cpp_process_slice (rf_nrows f) 0 (rf_nrows f) 1 = Ok (rf_nrows f)).
    { unfold cpp_process_slice. replace (0 <? 0) with false by lia. replace (rf_nrows f >? rf_nrows f) with false by lia.
      simpl (1 <=? 0). cbv iota. rewrite Z.sub_0_r, Z.quot_1_r, Z.rem_1_r. simpl. f_equal. lia. }
    assert (Eg : get_slice_nrows 0 (rf_nrows f) 1 = Ok (rf_nrows f)).
    { unfold get_slice_nrows. cbv zeta. rewrite Z.sub_0_r, Z.mod_1_r, Z.div_1_r. simpl. f_equal. lia. }
    rewrite (cursor_binary_slice_correct f t tail 0 (rf_nrows f) 1 (rf_nrows f) W Hne ltac:(lia) ltac:(lia) ltac:(lia) Ecp Eg).
    f_equal. unfold slice_rows. rewrite Ec, Er.
    assert (Em : map (fun i => 0 + i * 1) (zseq 0 (Z.to_nat (rf_nrows f))) = zseq 0 (length t)).
    { rewrite Wn, Nat2Z.id. etransitivity; [|apply map_id]. apply map_ext. intro; lia. }
    rewrite Em. rewrite (sel_table_all P t (length (rf_names f))).
    + apply (nth_zseq_id [] t).
    + rewrite Forall_forall in *. intros r Hr. specialize (Wr _ Hr). unfold row_ok in Wr.
      rewrite Wcn, <- Wr, map_length. reflexivity.
  - unfold read_columns. rewrite Wb.
    rewrite (cursor_binary_columns_correct f t tail cols rows2 W Hne Ac Rc'); [reflexivity|].
    destruct rows2; [exact Rok|exact I].
Qed.

Theorem request_spec_binary P f t tail q :
  wf_bin f t tail -> t <> [] -> NoDup (rf_names f) ->
  holds (rf_nrows f) (rf_names f) t q (run_request P f q).
Proof.
  intros W Hne ND. pose proof W as [Wb Wd Wr Wn Wcn].
  apply request_holds; try assumption.
  - rewrite Forall_forall in *. intros r Hr. specialize (Wr _ Hr). unfold row_ok in Wr.
    rewrite Wcn, <- Wr, map_length. reflexivity.
  - apply (binary_data_ok P f t tail W Hne).
  - intros _ a b c Hc. apply (binary_getitem_slice P f t tail a b c W Hne Hc).
Qed.

(* ------------------------------------------------------------------ text *)
Import TextModel.

(* the kept columns of a full row, for the flags read_text_columns derives from ascending column numbers *)
Lemma select_all_true : forall (r : row), select (repeat true (length r)) r = r.
Proof. induction r as [|x r IH]; simpl; [reflexivity|]. f_equal. exact IH. Qed.

Lemma existsb_eqb_notin s cols : Forall (fun c => s < c) cols -> existsb (Z.eqb s) cols = false.
Proof.
  intro F. induction F as [|c u Hc _ IH]; simpl; [reflexivity|]. rewrite IH. replace (s =? c) with false by lia. reflexivity.
Qed.

Lemma select_mask : forall (r : row) s cols,
  asc cols -> Forall (fun c => s <= c < s + Z.of_nat (length r)) cols ->
  select (map (fun i => existsb (Z.eqb i) cols) (zseq s (length r))) r
  = map (fun c => nth (Z.to_nat (c - s)) r []) cols.
Proof.
  induction r as [|x r IH]; intros s cols A R.
  - destruct cols as [|c cs]; [reflexivity|]. inversion R; subst. simpl in *. lia.
  - cbn [length zseq map select].
    destruct cols as [|c cs].
    + simpl. clear. generalize (s + 1). induction r as [|y r IHr]; intro s'; simpl; [reflexivity|]. apply IHr.
    + inversion A as [|? ? A' Fc]; subst. inversion R as [|? ? Rc R']; subst.
      destruct (Z.eq_dec c s) as [->|Hne].
      * simpl existsb at 1. rewrite Z.eqb_refl. simpl orb. cbn [map]. replace (s - s) with 0 by lia. simpl nth at 1. f_equal.
        transitivity (select (map (fun i => existsb (Z.eqb i) cs) (zseq (s + 1) (length r))) r).
        { f_equal. apply map_ext_in. intros i Hi. apply zseq_In in Hi. simpl. replace (i =? s) with false by lia. reflexivity. }
        rewrite (IH (s + 1) cs A').
        { apply map_ext_in. intros y Hy. rewrite Forall_forall in Fc. specialize (Fc _ Hy).
          replace (Z.to_nat (y - s)) with (S (Z.to_nat (y - (s + 1)))) by lia. reflexivity. }
        rewrite Forall_forall in *. intros y Hy. specialize (Fc _ Hy). specialize (R' _ Hy). simpl in R'. lia.
      * assert (Hall : Forall (fun y => s < y) (c :: cs)).
        { constructor; [lia|]. rewrite Forall_forall in *. intros y Hy. specialize (Fc _ Hy). lia. }
        rewrite (existsb_eqb_notin s (c :: cs) Hall).
        rewrite (IH (s + 1) (c :: cs) A).
        { apply map_ext_in. intros y Hy. rewrite Forall_forall in Hall. specialize (Hall _ Hy).
          replace (Z.to_nat (y - s)) with (S (Z.to_nat (y - (s + 1)))) by lia. reflexivity. }
        rewrite Forall_forall in *. intros y Hy. specialize (Hall _ Hy). specialize (R _ Hy). simpl in R. lia.
Qed.

Lemma select_keep_flags (r : row) cols :
  asc cols -> Forall (fun c => 0 <= c < Z.of_nat (length r)) cols ->
  select (keep_flags (length r) (Some cols)) r = map (fun c => nth (Z.to_nat c) r []) cols.
Proof.
  intros A R. unfold keep_flags. destruct (length cols =? length r)%nat eqn:E.
  - apply Nat.eqb_eq in E. rewrite select_all_true.
    assert (cols = zseq 0 (length r)) as ->.
    { apply asc_full; [exact A| |exact E]. rewrite Forall_forall in *. intros y Hy. specialize (R _ Hy). lia. }
    symmetry. apply nth_zseq_id.
  - rewrite (select_mask r 0 cols A).
    + apply map_ext. intro c. replace (c - 0) with c by lia. reflexivity.
    + rewrite Forall_forall in *. intros y Hy. specialize (R _ Hy). lia.
Qed.

Lemma rt_row_length F P : forall fs r, Spec.row_ok_b fs r = true -> length (Spec.rt_row F P fs r) = length fs.
Proof.
  induction fs as [|f fs IH]; intros r H; destruct r as [|els r]; simpl in *; try discriminate; [reflexivity|].
  apply andb_true_iff in H as [_ H]. rewrite (IH r H). reflexivity.
Qed.

Lemma nth_map_default {A B} (g : A -> B) l n d d' : g d = d' -> nth n (map g l) d' = g (nth n l d).
Proof. intros <-. apply map_nth. Qed.

Lemma cell_of_full (X : list row) i j :
  nth j (nth i (map (map (@concat byte)) X) []) [] = concat (nth j (nth i X []) []).
Proof.
  rewrite (nth_map_default (map (@concat byte)) X i [] [] eq_refl).
  apply (nth_map_default (@concat byte) (nth i X []) j [] [] eq_refl).
Qed.

Record wf_text (F P : nat -> list byte -> list byte) (f : rfile) (tb : table) : Prop := {
  wt_ascii : rf_ascii f = true;
  wt_flds : rf_flds f = tdt tb;
  wt_data : rf_data f = write_text F (rf_delim f) tb;
  wt_n : rf_nrows f = Z.of_nat (length (trows tb));
  wt_names : length (rf_names f) = length (tdt tb);
  wt_ok : Spec.table_ok tb;
  wt_contract : Spec.fcontract F P tb;
  wt_noeol : Spec.strings_noeol tb;
  wt_kf : Spec.kf_leading_ws_after_numeric (rf_delim f) tb = false;
  wt_delim : Spec.delim_ok (rf_delim f);
  wt_dff : byte_eqb (rf_delim f) xff = false
}.

(* the full read of such a file, cell by cell (C04: the native image with floats through P o F) *)
Definition full_text (F P : nat -> list byte -> list byte) (tb : table) : list (list cell) :=
  map (map (@concat byte)) (trows (Spec.expected F P tb)).

Lemma expected_row_length F P tb : Spec.table_ok tb ->
  Forall (fun r => length r = length (tdt tb)) (trows (Spec.expected F P tb)).
Proof.
  intro Ht. unfold Spec.table_ok, Spec.table_ok_b in Ht. apply andb_true_iff in Ht as [_ Hrows].
  unfold Spec.expected. cbn [trows]. rewrite Forall_forall. intros x Hx. apply in_map_iff in Hx as [r [<- Hin]].
  apply rt_row_length. apply RoundTrip.row_ok_native. rewrite forallb_forall in Hrows. apply Hrows. exact Hin.
Qed.

Lemma text_data_ok F P f tb : wf_text F P f tb ->
  forall colnums rows2,
    asc colnums -> Forall (fun c => 0 <= c < Z.of_nat (length (rf_names f))) colnums -> rows_ok (rf_nrows f) rows2 ->
    data_step P f colnums rows2 = Ok (sel_table (full_text F P tb) (rows_of (length (full_text F P tb)) rows2) colnums).
Proof.
  intros W cols rows2 Ac Rc Rok. destruct W as [Wa Wf Wd Wn Wnm Wok Wc Wne Wkf Wdl Wff].
  set (X := trows (Spec.expected F P tb)).
  assert (LX : length X = length (trows tb)) by (unfold X, Spec.expected; cbn [trows]; apply map_length).
  assert (Lfull : length (full_text F P tb) = length (trows tb)) by (unfold full_text; rewrite map_length; exact LX).
  pose proof (expected_row_length F P tb Wok) as RL. fold X in RL.
  set (keep := keep_flags (length (tdt tb)) (Some cols)).
  assert (Hkeep : length keep = length (tdt tb)).
  { unfold keep, keep_flags. destruct (length cols =? length (tdt tb))%nat; [apply repeat_length|].
    rewrite map_length. clear. generalize 0. induction (length (tdt tb)); intro s; simpl; auto. }
  (* one row of the result *)
  assert (ROW : forall r, 0 <= r < Z.of_nat (length X) ->
            map (@concat byte) (select keep (nth (Z.to_nat r) X [])) = map (cell_at (full_text F P tb) r) cols).
  { intros r Hr. assert (Lr : length (nth (Z.to_nat r) X []) = length (tdt tb)).
    { rewrite Forall_forall in RL. apply RL, nth_In. lia. }
    unfold keep. rewrite <- Lr. rewrite select_keep_flags; [|exact Ac|rewrite Lr, <- Wnm; exact Rc].
    rewrite map_map. apply map_ext. intro c. unfold cell_at, full_text. fold X.
    symmetry. apply cell_of_full. }
  (* the rows visited, in both branches of read_text_columns *)
  assert (SEL : forall rows, asc rows -> Forall (fun r => 0 <= r < rf_nrows f) rows ->
            read_rows_sel P (rf_delim f) (tdt tb) keep rows 0 (write_text F (rf_delim f) tb)
            = Ok (map (fun r => select keep (nth (Z.to_nat r) X [])) rows)).
  { intros rows Ar Rr. apply (cursor_text_correct F P (rf_delim f) tb Wdl Wff Wok Wc Wne Wkf keep rows Hkeep Ar).
    rewrite Wn in Rr. exact Rr. }
  assert (ALL : read_rows_all P (rf_delim f) (tdt tb) keep (length (trows tb)) (write_text F (rf_delim f) tb)
                = Ok (map (fun r => select keep (nth (Z.to_nat r) X [])) (zseq 0 (length X)))).
  { destruct (cursor_text_correct F P (rf_delim f) tb Wdl Wff Wok Wc Wne Wkf keep [] Hkeep ltac:(constructor) ltac:(constructor)) as [E _].
    rewrite E. f_equal. fold X. rewrite <- (map_map (fun r => nth (Z.to_nat r) X []) (select keep)).
    rewrite nth_zseq_id. reflexivity. }
  unfold data_step. rewrite Wa. unfold read_columns. rewrite Wa. unfold read_text_cols, read_text_columns.
  rewrite Wf, Wd. fold keep. rewrite Wn, Nat2Z.id.
  assert (FIN : forall rows, Forall (fun r => 0 <= r < Z.of_nat (length X)) rows ->
            map (map (@concat byte)) (map (fun r => select keep (nth (Z.to_nat r) X [])) rows)
            = sel_table (full_text F P tb) rows cols).
  { intros rows Rr. rewrite map_map. unfold sel_table. apply map_ext_in. intros r Hr.
    rewrite Forall_forall in Rr. apply ROW, Rr, Hr. }
  assert (RZ : Forall (fun r => 0 <= r < Z.of_nat (length X)) (zseq 0 (length X))).
  { rewrite Forall_forall. intros y Hy. apply zseq_In in Hy. lia. }
  destruct rows2 as [l|]; simpl rows_of.
  - destruct Rok as [Al Rl]. destruct (Z.of_nat (length l) =? Z.of_nat (length (trows tb))) eqn:E.
    + rewrite ALL. cbn [bind]. f_equal. rewrite (FIN _ RZ). f_equal.
      symmetry. apply asc_full; [exact Al| |lia]. rewrite Wn in Rl.
      rewrite Forall_forall in *. intros y Hy. specialize (Rl _ Hy). lia.
    + rewrite (SEL l Al Rl). cbn [bind]. f_equal. apply FIN. rewrite Wn in Rl.
      rewrite Forall_forall in *. intros y Hy. specialize (Rl _ Hy). lia.
  - rewrite ALL. cbn [bind]. f_equal. rewrite (FIN _ RZ). rewrite Lfull, <- LX. reflexivity.
Qed.

Theorem request_spec_text F P f tb q :
  wf_text F P f tb -> NoDup (rf_names f) ->
  holds (rf_nrows f) (rf_names f) (full_text F P tb) q (run_request P f q).
Proof.
  intros W ND. pose proof W as [Wa Wf Wd Wn Wnm Wok Wc Wne Wkf Wdl Wff].
  apply request_holds; try assumption.
  - unfold full_text. rewrite map_length. unfold Spec.expected. cbn [trows]. rewrite map_length. exact Wn.
  - pose proof (expected_row_length F P tb Wok) as RL. unfold full_text.
    rewrite Forall_forall in *. intros r Hr. apply in_map_iff in Hr as [x [<- Hx]]. rewrite map_length, Wnm. apply RL, Hx.
  - apply (text_data_ok F P f tb W).
  - intro H. rewrite Wa in H. discriminate.
Qed.

(* ------------------------------------------------------------------ both kinds of file, one statement *)
Definition file_ok (P : nat -> list byte -> list byte) (f : rfile) (t : list (list cell)) : Prop :=
  (exists tail, wf_bin f t tail /\ t <> []) \/
  (exists F tb, wf_text F P f tb /\ t = full_text F P tb).

Lemma file_ok_facts P f t : file_ok P f t ->
  rf_nrows f = Z.of_nat (length t)
  /\ Forall (fun r => length r = length (rf_names f)) t
  /\ (forall colnums rows2, asc colnums -> Forall (fun c => 0 <= c < Z.of_nat (length (rf_names f))) colnums ->
        rows_ok (rf_nrows f) rows2 -> data_step P f colnums rows2 = Ok (sel_table t (rows_of (length t) rows2) colnums))
  /\ (rf_ascii f = false -> forall a b c, step_ok c ->
        recfile_getitem_rows P f (RSlice a b c)
        = Ok (VTable (zseq 0 (length (rf_names f))) (map (row_at t) (py_slice_rows (rf_nrows f) a b c)))).
Proof.
  intros [[tail [W Hne]]|[F [tb [W ->]]]].
  - pose proof W as [Wb Wd Wr Wn Wcn]. split; [exact Wn|]. split; [|split].
    + rewrite Forall_forall in *. intros r Hr. specialize (Wr _ Hr). unfold row_ok in Wr.
      rewrite Wcn, <- Wr, map_length. reflexivity.
    + apply (binary_data_ok P f t tail W Hne).
    + intros _ a b c Hc. apply (binary_getitem_slice P f t tail a b c W Hne Hc).
  - pose proof W as [Wa Wf Wd Wn Wnm Wok Wc Wne Wkf Wdl Wff]. split; [|split; [|split]].
    + unfold full_text. rewrite map_length. unfold Spec.expected. cbn [trows]. rewrite map_length. exact Wn.
    + pose proof (expected_row_length F P tb Wok) as RL. unfold full_text.
      rewrite Forall_forall in *. intros r Hr. apply in_map_iff in Hr as [x [<- Hx]]. rewrite map_length, Wnm. apply RL, Hx.
    + apply (text_data_ok F P f tb W).
    + intro H. rewrite Wa in H. discriminate.
Qed.

Theorem request_spec_any P f t q rows cols scalar :
  file_ok P f t -> NoDup (rf_names f) ->
  rows_arg_ok (q_style q) (q_rows q) = true ->
  (has_cols (q_style q) = false -> q_cols q = CNone) ->
  (has_split (q_style q) = false -> q_split q = false) ->
  (has_reduce (q_style q) = false -> q_reduce q = false) ->
  spec_cols (rf_names f) (q_cols q) = CXCols cols scalar ->
  spec_rows (rf_nrows f) (q_rows q) = RXRows rows ->
  exists v, run_request P f q = Ok v /\ In v (shapes t rows cols scalar (q_split q) (q_reduce q)).
Proof.
  intros Hf ND. destruct (file_ok_facts P f t Hf) as [Hn [Hl [Hd Hs]]].
  apply (request_spec P f t Hn ND Hl Hd Hs).
Qed.

Theorem request_rejected_any P f t q :
  file_ok P f t ->
  rows_arg_ok (q_style q) (q_rows q) = true ->
  spec_rows (rf_nrows f) (q_rows q) = RXReject ->
  exists e, run_request P f q = Err e.
Proof.
  intros Hf. destruct (file_ok_facts P f t Hf) as [Hn [_ [Hd _]]]. apply (request_rejected P f t Hn Hd).
Qed.

Theorem request_holds_any P f t q :
  file_ok P f t -> NoDup (rf_names f) -> holds (rf_nrows f) (rf_names f) t q (run_request P f q).
Proof.
  intros Hf ND. destruct (file_ok_facts P f t Hf) as [Hn [Hl [Hd Hs]]].
  apply (request_holds P f t Hn ND Hl Hd Hs).
Qed.

(* C02/RequestProofs.v -- the property statement as ONE theorem about the model: for every request that
   run_request covers (keyword read, bracket, chained column-then-row, SFile.read with split / reduce)
   the result is what indexing the full read gives.  Proved once over two facts about the file
   (data_ok: the cursor loops return the requested cells; slice_ok: the binary slice reader returns the
   rows of the Python slice) and instantiated for well-formed binary files and for text files written
   by the writer. *)
From Coq Require Import ZArith List Bool Lia ZifyBool Sorted.
From Coq.Strings Require Import Byte.
From EsVerif.Common Require Import Base Bytes.
From EsVerif.C02 Require Import Arange Gen Model Spec SliceProofs RowsProofs CursorProofs MainProofs.
Import ListNotations.

(* ------------------------------------------------------------------ Python slices are ascending in-range row lists *)
Lemma asc_map_affine a s : 0 < s -> forall l, asc l -> asc (map (fun k => a + k * s) l).
Proof.
  intros Hs l A. induction A as [|x u A' IH F]; simpl; constructor; [exact IH|].
  rewrite Forall_forall in *. intros y Hy. apply in_map_iff in Hy as [k [<- Hk]]. specialize (F _ Hk). nia.
Qed.

Lemma py_slice_rows_asc n a b c : step_ok c -> asc (py_slice_rows n a b c).
Proof.
  intro Hc. unfold py_slice_rows, py_range. apply asc_map_affine; [destruct c; simpl in *; lia|apply zseq_asc].
Qed.

Lemma py_slice_rows_range n a b c : 0 <= n -> step_ok c -> Forall (fun r => 0 <= r < n) (py_slice_rows n a b c).
Proof.
  intros Hn Hc. rewrite Forall_forall. intros x Hx. unfold py_slice_rows in Hx.
  apply py_range_spec in Hx; [|destruct c; simpl in *; lia].
  destruct Hx as [[H1 H2] _]. unfold py_clip in *. destruct a, b; repeat match goal with
    | H : context[if ?b then _ else _] |- _ => destruct b eqn:? end; lia.
Qed.

Lemma members_in_order_asc_id n l : 0 <= n -> asc l -> Forall (fun r => 0 <= r < n) l -> members_in_order n l = l.
Proof.
  intros Hn A R. apply asc_unique; [apply members_in_order_asc|exact A|].
  intro x. rewrite members_in_order_In by exact Hn. rewrite Forall_forall in R. split; [tauto|]. intro H. split; auto.
Qed.

Lemma forallb_range n l : Forall (fun r => 0 <= r < n) l <-> forallb (fun x => (0 <=? x) && (x <? n)) l = true.
Proof.
  rewrite forallb_forall, Forall_forall. split; intros H x Hx; specialize (H x Hx); lia.
Qed.

(* ------------------------------------------------------------------ small facts about the shapes *)
Lemma column_of_sel_single t rows i : column_of (sel_table t rows [i]) 0 = sel_column t rows i.
Proof. unfold column_of, sel_table, sel_column. rewrite map_map. reflexivity. Qed.

Lemma seq_nth_id {A} (d : A) : forall (l : list A) s, map (fun j => nth (j - s) l d) (seq s (length l)) = l.
Proof.
  induction l as [|a u IH]; intro s; simpl; [reflexivity|]. f_equal.
  - rewrite Nat.sub_diag. reflexivity.
  - etransitivity; [|apply (IH (S s))]. apply map_ext_in. intros j Hj. apply in_seq in Hj.
    replace (j - s)%nat with (S (j - S s)) by lia. reflexivity.
Qed.

Lemma columns_of_sel t rows cols :
  map (column_of (sel_table t rows cols)) (seq 0 (length cols)) = map (sel_column t rows) cols.
Proof.
  transitivity (map (fun j => sel_column t rows (nth (j - 0) cols 0)) (seq 0 (length cols))).
  - apply map_ext_in. intros k Hk. apply in_seq in Hk. unfold column_of, sel_table, sel_column. rewrite map_map.
    apply map_ext. intro r. rewrite Nat.sub_0_r.
    rewrite (nth_indep _ [] (cell_at t r 0)) by (rewrite map_length; lia). apply map_nth.
  - rewrite <- (map_map (fun j => nth (j - 0) cols 0) (sel_column t rows)). rewrite seq_nth_id. reflexivity.
Qed.

Lemma sel_table_allcols (t : list (list cell)) m rows :
  Forall (fun r => length r = m) t -> Forall (fun r => 0 <= r < Z.of_nat (length t)) rows ->
  sel_table t rows (zseq 0 m) = map (row_at t) rows.
Proof.
  intros F R. unfold sel_table. apply map_ext_in. intros r Hr. rewrite Forall_forall in R. specialize (R _ Hr).
  unfold row_at, cell_at.
  assert (L : length (nth (Z.to_nat r) t []) = m) by (rewrite Forall_forall in F; apply F, nth_In; lia).
  rewrite <- L. apply nth_zseq_id.
Qed.

Lemma index_of_In names : forall c i k, index_of names c i = Some k -> In c names.
Proof.
  induction names as [|a u IH]; intros c i k H; simpl in H; [discriminate|].
  destruct (a =? c) eqn:E; [left; lia|right; eapply IH; exact H].
Qed.

(* the data step of Recfile.read, after rows and columns have been normalised *)
Definition data_step (P : nat -> list byte -> list byte) (f : rfile) (colnums : list Z) (rows2 : option (list Z))
  : result (list (list cell)) :=
  let all_rows := match rows2 with None => true | Some l => Z.of_nat (length l) =? rf_nrows f end in
  let all_cols := Z.of_nat (length colnums) =? rf_ncols f in
  if rf_ascii f then read_columns P f colnums rows2
  else if all_cols && all_rows then read_binary_slice f (0, rf_nrows f, 1)
       else read_columns P f colnums rows2.

Definition rows_ok (n : Z) (rows2 : option (list Z)) : Prop :=
  match rows2 with None => True | Some l => asc l /\ Forall (fun r => 0 <= r < n) l end.
Definition rows_of (len : nat) (rows2 : option (list Z)) : list Z :=
  match rows2 with None => zseq 0 len | Some l => l end.

Section Request.
  Variable P : nat -> list byte -> list byte.
  Variable f : rfile.
  Variable t : list (list cell).       (* the full read: row by row, the cells of every column *)
  Let n := rf_nrows f.
  Let names := rf_names f.
  Hypothesis Hn : n = Z.of_nat (length t).
  Hypothesis ND : NoDup names.
  Hypothesis Hrowlen : Forall (fun r => length r = length names) t.
  Hypothesis data_ok : forall colnums rows2,
    asc colnums -> Forall (fun c => 0 <= c < Z.of_nat (length names)) colnums -> rows_ok n rows2 ->
    data_step P f colnums rows2 = Ok (sel_table t (rows_of (length t) rows2) colnums).
  Hypothesis slice_ok : rf_ascii f = false -> forall a b c, step_ok c ->
    recfile_getitem_rows P f (RSlice a b c)
    = Ok (VTable (zseq 0 (length names)) (map (row_at t) (py_slice_rows n a b c))).

  Lemma Hn0 : 0 <= n. Proof. lia. Qed.

  (* ---------------------------------------------------------------- rows *)
  Lemma rows_normalised r rows :
    match r with RSlice _ _ _ => False | _ => True end ->
    spec_rows n r = RXRows rows ->
    exists rows2, rows2read_of n r = Ok rows2 /\ rows_ok n rows2 /\ rows_of (length t) rows2 = rows.
  Proof.
    intros Hr Hs. destruct r as [|x|l|a b c]; [| | |contradiction]; simpl in Hs.
    - inversion Hs; subst. exists None. split; [reflexivity|]. split; [exact I|]. simpl. rewrite Hn, Nat2Z.id. reflexivity.
    - destruct ((- n <=? x) && (x <? n)) eqn:E; [|discriminate]. inversion Hs; subst.
      exists (Some [x mod n]). split; [|split].
      + unfold rows2read_of, rows_atleast_1d. apply rows_scalar_spec. lia.
      + assert (0 <= x mod n < n) by (apply Z.mod_pos_bound; lia).
        split; [constructor; constructor|constructor; [lia|constructor]].
      + reflexivity.
    - destruct (forallb (fun x => (0 <=? x) && (x <? n)) l) eqn:E.
      + inversion Hs; subst. apply forallb_range in E.
        exists (Some (members_in_order n l)). split; [|split].
        * unfold rows2read_of, rows_atleast_1d. apply rows_list_spec; [exact Hn0|exact E].
        * split; [apply members_in_order_asc|]. rewrite Forall_forall. intros y Hy.
          apply members_in_order_In in Hy; [tauto|exact Hn0].
        * reflexivity.
      + destruct (existsb (fun x => (x <? - n) || (n <=? x)) l); discriminate.
  Qed.

  Lemma rows_rejected r : spec_rows n r = RXReject -> rows2read_of n r = Err EValue.
  Proof.
    intro Hs. destruct r as [|x|l|a b c]; simpl in Hs; try discriminate.
    - destruct ((- n <=? x) && (x <? n)); discriminate.
    - destruct (forallb (fun x => (0 <=? x) && (x <? n)) l); [discriminate|].
      destruct (existsb (fun x => (x <? - n) || (n <=? x)) l) eqn:E; [|discriminate].
      apply existsb_exists in E as [x [Hx Hb]]. unfold rows2read_of, rows_atleast_1d.
      apply rows_list_rejected; [exact Hn0|]. exists x. split; [exact Hx|lia].
    - destruct c as [s|]; [destruct (s <=? 0)|]; discriminate.
  Qed.

  (* ---------------------------------------------------------------- columns *)
  Lemma cols_normalised c cols scalar :
    spec_cols names c = CXCols cols scalar ->
    get_colnums_to_read names CNone c = Ok (cols, scalar)
    /\ asc cols /\ Forall (fun k => 0 <= k < Z.of_nat (length names)) cols
    /\ (scalar = true -> exists i, cols = [i]).
  Proof.
    intro Hs. destruct c as [|x|l]; [simpl in Hs|simpl in Hs|unfold spec_cols in Hs].
    - inversion Hs; subst. split; [reflexivity|]. split; [apply zseq_asc|]. split; [|discriminate].
      rewrite Forall_forall. intros y Hy. apply zseq_In in Hy. lia.
    - destruct (pos_of names x 0) as [i|] eqn:E; [|discriminate]. inversion Hs; subst.
      rewrite pos_of_index_of in E. split; [|split; [|split]].
      + unfold get_colnums_to_read, get_colnums. simpl. rewrite E. reflexivity.
      + constructor; constructor.
      + apply index_of_spec in E. constructor; [lia|constructor].
      + intros _. eauto.
    - destruct l as [|c0 l0]; [discriminate|]. remember (c0 :: l0) as l eqn:El. clear El.
      destruct (forallb (known names) l && nodup_b l) eqn:E; [|discriminate]. inversion Hs; subst.
      apply andb_true_iff in E as [E _].
      assert (Fin : Forall (fun c => In c names) l).
      { rewrite forallb_forall in E. rewrite Forall_forall. intros c Hc. specialize (E c Hc). unfold known in E.
        destruct (pos_of names c 0) eqn:E2; [|discriminate]. rewrite pos_of_index_of in E2. eapply index_of_In. exact E2. }
      split; [|split; [|split]].
      + unfold get_colnums_to_read. rewrite (columns_file_order names l ND Fin). reflexivity.
      + apply map_snd_filter_asc.
      + apply file_order_cols_range.
      + discriminate.
  Qed.

  (* ---------------------------------------------------------------- Recfile.read *)
  Definition shape_rf (rows cols : list Z) (scalar split : bool) : value :=
    if scalar then VPlain (hd 0 cols) (sel_column t rows (hd 0 cols))
    else if split then VTuple cols (map (sel_column t rows) cols)
    else VTable cols (sel_table t rows cols).

  Lemma recfile_read_unfold r fields columns split :
    recfile_read P f r fields columns split =
    (do rows2 <- rows2read_of (rf_nrows f) r;
     do cs <- get_colnums_to_read (rf_names f) fields columns;
     do data <- data_step P f (fst cs) rows2;
     if snd cs then Ok (VPlain (hd 0 (fst cs)) (column_of data 0))
     else if split then Ok (split_fields (fst cs) data) else Ok (VTable (fst cs) data)).
  Proof.
    unfold recfile_read, data_step. destruct (rows2read_of (rf_nrows f) r); [|reflexivity]. cbn [bind].
    destruct (get_colnums_to_read (rf_names f) fields columns) as [[cs sc]|]; reflexivity.
  Qed.

  Lemma colsel_merge fields columns :
    get_colnums_to_read names fields columns
    = get_colnums_to_read names CNone (match fields with CNone => columns | _ => fields end).
  Proof. destruct fields; reflexivity. Qed.

  Lemma recfile_read_spec r fields columns split rows cols scalar :
    match r with RSlice _ _ _ => False | _ => True end ->
    spec_rows n r = RXRows rows ->
    spec_cols names (match fields with CNone => columns | _ => fields end) = CXCols cols scalar ->
    recfile_read P f r fields columns split = Ok (shape_rf rows cols scalar split).
  Proof.
    intros Hr Hrows Hcols.
    destruct (rows_normalised r rows Hr Hrows) as [rows2 [E1 [Rok Rof]]].
    destruct (cols_normalised _ cols scalar Hcols) as [E2 [Ac [Rc Sc]]].
    rewrite recfile_read_unfold. fold n names. rewrite E1. cbn [bind]. rewrite colsel_merge, E2. cbn [bind fst snd].
    rewrite (data_ok cols rows2 Ac Rc Rok). cbn [bind]. rewrite Rof. unfold shape_rf.
    destruct scalar.
    - destruct (Sc eq_refl) as [i ->]. simpl hd. rewrite column_of_sel_single. reflexivity.
    - destruct split; [|reflexivity]. unfold split_fields. rewrite columns_of_sel. reflexivity.
  Qed.

  Lemma recfile_read_rejects r fields columns split :
    spec_rows n r = RXReject -> recfile_read P f r fields columns split = Err EValue.
  Proof. intro H. rewrite recfile_read_unfold. fold n. rewrite (rows_rejected r H). reflexivity. Qed.

  (* a slice handed on as the row list of the Python slice *)
  Lemma slice_as_list a b c : step_ok c ->
    spec_rows n (RList (py_slice_rows n a b c)) = RXRows (py_slice_rows n a b c).
  Proof.
    intro Hc. simpl. pose proof (py_slice_rows_range n a b c Hn0 Hc) as R.
    rewrite (proj1 (forallb_range n _) R). f_equal.
    apply members_in_order_asc_id; [exact Hn0|apply py_slice_rows_asc; exact Hc|exact R].
  Qed.

  Lemma spec_rows_slice a b c rows : spec_rows n (RSlice a b c) = RXRows rows -> step_ok c /\ rows = py_slice_rows n a b c.
  Proof.
    simpl. destruct c as [s|].
    - destruct (s <=? 0) eqn:E; [discriminate|]. intro H; inversion H. split; [simpl; lia|reflexivity].
    - intro H; inversion H. split; [exact I|reflexivity].
  Qed.

  (* ---------------------------------------------------------------- the statement *)
  Theorem request_spec q rows cols scalar :
    rows_arg_ok (q_style q) (q_rows q) = true ->
    (has_cols (q_style q) = false -> q_cols q = CNone) ->
    (has_split (q_style q) = false -> q_split q = false) ->
    (has_reduce (q_style q) = false -> q_reduce q = false) ->
    spec_cols names (q_cols q) = CXCols cols scalar ->
    spec_rows n (q_rows q) = RXRows rows ->
    exists v, run_request P f q = Ok v /\ In v (shapes t rows cols scalar (q_split q) (q_reduce q)).
  Proof.
    destruct q as [s r c sp rd]. cbn [q_style q_rows q_cols q_split q_reduce].
    intros Hra Hhc Hhs Hhr Hcols Hrows.
    destruct (cols_normalised c cols scalar Hcols) as [_ [_ [_ Sc]]].
    (* the keyword read through Recfile.read with a non-slice row argument *)
    assert (KW : forall r' split, match r' with RSlice _ _ _ => False | _ => True end -> spec_rows n r' = RXRows rows ->
                 recfile_read P f r' CNone c split = Ok (shape_rf rows cols scalar split)
                 /\ recfile_read P f r' c CNone split = Ok (shape_rf rows cols scalar split)).
    { intros r' split Hr' Hs'. split; apply recfile_read_spec; try assumption. destruct c; exact Hcols. }
    (* membership of the three Recfile shapes *)
    assert (INrf : forall split, In (shape_rf rows cols scalar split) (shapes t rows cols scalar split false)).
    { intro split. unfold shape_rf, shapes. destruct scalar.
      - destruct (Sc eq_refl) as [i ->]. simpl. destruct split; left; reflexivity.
      - destruct split; left; reflexivity. }
    (* bracket styles: a slice is the row list of the Python slice *)
    assert (BR : forall a b st, r = RSlice a b st ->
                 step_ok st /\ rows = py_slice_rows n a b st).
    { intros a b st ->. apply spec_rows_slice. exact Hrows. }
    unfold run_request. cbn [q_style q_rows q_cols q_split q_reduce].
    destruct s; simpl in Hra, Hhc, Hhs, Hhr.
    - (* SRead *) rewrite (Hhr eq_refl). destruct r; try discriminate;
        (eexists; split; [apply KW; [exact I|exact Hrows]|apply INrf]).
    - (* SReadFields *) rewrite (Hhr eq_refl). destruct r; try discriminate;
        (eexists; split; [apply KW; [exact I|exact Hrows]|apply INrf]).
    - (* SGetitem *) rewrite (Hhs eq_refl), (Hhr eq_refl). rewrite (Hhc eq_refl) in *.
      simpl in Hcols. inversion Hcols; subst cols scalar. fold names.
      destruct r as [|x|l|a b st]; [discriminate| | |].
      + eexists; split; [apply (KW (RScalar x) false I Hrows)|apply (INrf false)].
      + eexists; split; [apply (KW (RList l) false I Hrows)|apply (INrf false)].
      + destruct (BR a b st eq_refl) as [Hst ->].
        destruct (rf_ascii f) eqn:Ea.
        * rewrite (text_getitem_slice_is_row_list P f a b st Ea Hn0 Hst). fold n.
          eexists; split; [apply (KW (RList (py_slice_rows n a b st)) false I (slice_as_list a b st Hst))|apply (INrf false)].
        * rewrite (slice_ok eq_refl a b st Hst). eexists; split; [reflexivity|]. left. f_equal.
          apply sel_table_allcols; [exact Hrowlen|]. rewrite <- Hn. apply py_slice_rows_range; [exact Hn0|exact Hst].
    - (* SChain *) rewrite (Hhs eq_refl), (Hhr eq_refl).
      destruct r as [|x|l|a b st]; [discriminate| | |].
      + eexists; split; [apply (KW (RScalar x) false I Hrows)|apply (INrf false)].
      + eexists; split; [apply (KW (RList l) false I Hrows)|apply (INrf false)].
      + destruct (BR a b st eq_refl) as [Hst ->].
        rewrite (chain_slice_is_row_list P f c a b st Hn0 Hst). fold n.
        eexists; split; [apply (KW (RList (py_slice_rows n a b st)) false I (slice_as_list a b st Hst))|apply (INrf false)].
    - (* SChainRead *) rewrite (Hhr eq_refl). unfold colsubset_read. destruct r; try discriminate;
        (eexists; split; [apply KW; [exact I|exact Hrows]|apply INrf]).
    - (* SSfRead *) unfold sfile_read.
      assert (E : recfile_read P f r CNone (match c with CNone => CNone | _ => c end) false = Ok (shape_rf rows cols scalar false)).
      { replace (match c with CNone => CNone | _ => c end) with c by (destruct c; reflexivity).
        destruct r; try discriminate; apply KW; try exact I; exact Hrows. }
      rewrite E. cbn [bind]. eexists; split; [reflexivity|].
      unfold shape_rf, shapes. destruct scalar.
      + destruct (Sc eq_refl) as [i ->]. simpl. destruct sp; [right; left; reflexivity|]. destruct rd; left; reflexivity.
      + destruct sp.
        * simpl. unfold split_fields. rewrite columns_of_sel. destruct rd; left; reflexivity.
        * destruct rd; [|left; reflexivity]. simpl. destruct cols as [|c1 [|c2 cs]]; try (left; reflexivity).
          left. rewrite column_of_sel_single. reflexivity.
    - (* SSfReadFields *) unfold sfile_read.
      assert (E : recfile_read P f r CNone c false = Ok (shape_rf rows cols scalar false)).
      { destruct r; try discriminate; apply KW; try exact I; exact Hrows. }
      rewrite E. cbn [bind]. eexists; split; [reflexivity|].
      unfold shape_rf, shapes. destruct scalar.
      + destruct (Sc eq_refl) as [i ->]. simpl. destruct sp; [right; left; reflexivity|]. destruct rd; left; reflexivity.
      + destruct sp.
        * simpl. unfold split_fields. rewrite columns_of_sel. destruct rd; left; reflexivity.
        * destruct rd; [|left; reflexivity]. simpl. destruct cols as [|c1 [|c2 cs]]; try (left; reflexivity).
          left. rewrite column_of_sel_single. reflexivity.
  Qed.

  (* out-of-range row lists are rejected, whatever the style *)
  Theorem request_rejected q :
    rows_arg_ok (q_style q) (q_rows q) = true ->
    spec_rows n (q_rows q) = RXReject ->
    exists e, run_request P f q = Err e.
  Proof.
    destruct q as [s r c sp rd]. cbn [q_style q_rows q_cols q_split q_reduce]. intros Hra Hrej.
    assert (Hl : exists l, r = RList l).
    { destruct r as [|x|l|a b st]; simpl in Hrej; try discriminate; eauto.
      - destruct ((- n <=? x) && (x <? n)); discriminate.
      - destruct st as [s0|]; [destruct (s0 <=? 0)|]; discriminate. }
    destruct Hl as [l ->].
    unfold run_request. cbn [q_style q_rows q_cols q_split q_reduce].
    destruct s; unfold recfile_getitem_rows, colsubset_getitem, colsubset_read, sfile_read;
      rewrite (recfile_read_rejects _ _ _ _ Hrej); eexists; reflexivity.
  Qed.

  (* the property of Spec.v holds of the model for every request *)
  Corollary request_holds q : holds n names t q (run_request P f q).
  Proof.
    unfold holds, expectation.
    destruct (rows_arg_ok (q_style q) (q_rows q)) eqn:E1; [|exact I]. cbn [negb].
    destruct (negb (has_cols (q_style q)) && negb match q_cols q with CNone => true | _ => false end) eqn:E2; [exact I|].
    destruct ((negb (has_split (q_style q)) && q_split q) || (negb (has_reduce (q_style q)) && q_reduce q)) eqn:E3; [exact I|].
    destruct (spec_cols names (q_cols q)) as [cols scalar|] eqn:E4; [|exact I].
    destruct (spec_rows n (q_rows q)) as [rows| |] eqn:E5; [| |exact I].
    - apply request_spec; try assumption.
      + intro H. rewrite H in E2. simpl in E2. destruct (q_cols q); [reflexivity|discriminate|discriminate].
      + intro H. rewrite H in E3. simpl in E3. destruct (q_split q); [discriminate|reflexivity].
      + intro H. rewrite H in E3. simpl in E3. destruct (q_reduce q); [|reflexivity].
        rewrite orb_true_r in E3. discriminate.
    - apply request_rejected; assumption.
  Qed.
End Request.

(* C02/HistoryProofs.v -- the model has no state: the answer to a call in a sequence of calls is the answer to
   that call made alone; and the or-ed verdict of a sequence is clean exactly when every call's verdict is. *)
From Coq Require Import ZArith List Bool Lia.
From Coq.Strings Require Import Byte.
From EsVerif.Common Require Import Base Bytes.
From EsVerif.C02 Require Import Model Spec Exec.
Import ListNotations.

Definition run_history (P : nat -> list byte -> list byte) (calls : list (rfile * request)) : list (result value) :=
  map (fun c => run_request P (fst c) (snd c)) calls.

Theorem model_history_free P pre c post :
  run_history P (pre ++ c :: post) = run_history P pre ++ run_request P (fst c) (snd c) :: run_history P post.
Proof. unfold run_history. rewrite map_app. reflexivity. Qed.

Definition is_verdict (v : Z) : Prop := v = 0 \/ v = 1 \/ v = 2 \/ v = 3.

Lemma v_seq_verdict l : Forall is_verdict l -> is_verdict (v_seq l).
Proof.
  induction 1 as [|v l Hv _ IH]; [left; reflexivity|]. simpl.
  destruct Hv as [-> | [-> | [-> | ->]]], IH as [-> | [-> | [-> | ->]]]; unfold is_verdict; cbn; auto.
Qed.

(* no call of the sequence is a failing input (verdict >= 2) iff the or-ed verdict is < 2 *)
Theorem v_seq_clean l : Forall is_verdict l -> (v_seq l < 2 <-> Forall (fun v => v < 2) l).
Proof.
  induction 1 as [|v l Hv Hl IH]; [simpl; split; [constructor|lia]|].
  pose proof (v_seq_verdict l Hl) as Hs. simpl. split.
  - intro H. assert (v < 2 /\ v_seq l < 2).
    { destruct Hv as [-> | [-> | [-> | ->]]], Hs as [E|[E|[E|E]]]; rewrite E in *; cbn in H; lia. }
    constructor; [tauto|apply IH; tauto].
  - intro H. inversion H as [|? ? H1 H2]; subst. apply IH in H2.
    destruct Hv as [-> | [-> | [-> | ->]]], Hs as [E|[E|[E|E]]]; rewrite E in *; cbn; lia.
Qed.

(* C02/ExecScope.v -- the scope monitor: is this case (the real file bytes, the table that was written) inside the
   hypotheses of the request-level theorem?  If so the case is ALSO evaluated against the handle the theorem speaks
   about; 4 = outside the scope. *)
From Coq.Strings Require Import Byte.
From EsVerif.Common Require Import Base Bytes.
From EsVerif.C04 Require Import TextModel.
From EsVerif.C02 Require Import Arange Gen Model Spec Exec RequestInst ScopeProofs.

Definition v_scope_bin (f : rfile) (q : request) (full : list (list cell)) (out : result value) : Z :=
  if wf_bin_b f full [] && nodup_b (rf_names f) then v_req [] f q full out else 4.

Definition v_scope_text (ft pt : tab3) (d : byte) (names : list Z) (tb : table) (data : list byte)
           (q : request) (full : list (list cell)) (out : result value) : Z :=
  if wf_text_b (P_of ft) (P_of pt) d names tb data && nodup_b names
     && list_eqb cells_eqb full (full_text (P_of ft) (P_of pt) tb)
  then v_req pt (text_file d names tb data) q full out else 4.

(* C02/RejectProofs.v -- beyond the quantifier of the property: what the model (hence, by the correspondence
   run, the code) does with every row argument, which requests raise which error class, and what the slice
   readers do with a step <= 0.  These were compared with the implementation only; here they are theorems. *)
From Coq Require Import ZArith List Bool Lia ZifyBool ZifyNat Sorted.
From Coq.Strings Require Import Byte.
From EsVerif.Common Require Import Base Bytes.
From EsVerif.C02 Require Import Arange Gen Model Spec SliceProofs RowsProofs CursorProofs MainProofs RequestProofs RequestInst.
Import ListNotations.
Ltac Zify.zify_post_hook ::= Z.to_euclidean_division_equations.

(* ------------------------------------------------------------------ every row argument, exactly *)
Definition in_range_b (n x : Z) : bool := (0 <=? x) && (x <? n).
Definition rows_outcome (n : Z) (r : rowsel) : result (option (list Z)) :=
  match r with
  | RNone => Ok None
  | RSlice _ _ _ => Err EType                          (* a slice object as rows=: TypeError *)
  | RScalar x => if (- n <=? x) && (x <? n) then Ok (Some [x mod n]) else Err EValue
  | RList [] => Ok (Some [])
  | RList [x] => if (- n <=? x) && (x <? n) then Ok (Some [x mod n]) else Err EValue
  | RList l => if forallb (in_range_b n) l then Ok (Some (members_in_order n l)) else Err EValue
  end.

Lemma single_exact n x : 0 <= n ->
  get_rows2read n (Some [x]) = if (- n <=? x) && (x <? n) then Ok (Some [x mod n]) else Err EValue.
Proof.
  intro Hn. destruct ((- n <=? x) && (x <? n)) eqn:E.
  - apply rows_scalar_spec. lia.
  - apply rows_list_rejected; [exact Hn|]. exists x. split; [left; reflexivity|lia].
Qed.

Lemma long_list_rejected n a b t :
  (exists y, In y (a :: b :: t) /\ (y < 0 \/ n <= y)) -> get_rows2read n (Some (a :: b :: t)) = Err EValue.
Proof.
  intros [y [Hy Hr]]. unfold get_rows2read.
  pose proof (sort_uniq_asc (a :: b :: t)) as A. apply sort_uniq_In in Hy.
  destruct (sort_uniq (a :: b :: t)) as [|m u] eqn:Eu; [destruct Hy|].
  pose proof (asc_head_min m u y A Hy). pose proof (asc_last_max (m :: u) y A Hy).
  destruct ((m <? 0) || (last (m :: u) 0 >=? n)) eqn:E; [reflexivity|]. lia.
Qed.

Theorem rows2read_exact n r : 0 <= n -> rows2read_of n r = rows_outcome n r.
Proof.
  intro Hn. destruct r as [|x|l|a b c]; try reflexivity.
  - apply single_exact. exact Hn.
  - destruct l as [|x [|y t]]; [reflexivity|apply single_exact; exact Hn|].
    unfold rows2read_of, rows_atleast_1d, rows_outcome.
    destruct (forallb (in_range_b n) (x :: y :: t)) eqn:E.
    + apply rows_list_spec; [exact Hn|]. rewrite forallb_forall in E. apply Forall_forall.
      intros z Hz. specialize (E z Hz). unfold in_range_b in E. lia.
    + apply long_list_rejected.
      assert (H : exists z, In z (x :: y :: t) /\ in_range_b n z = false).
      { clear - E. induction (x :: y :: t) as [|a u IH]; simpl in E; [discriminate|].
        destruct (in_range_b n a) eqn:Ea; [destruct (IH E) as [z [Hz Hb]]; exists z; split; [right; exact Hz|exact Hb]|].
        exists a. split; [left; reflexivity|exact Ea]. }
      destruct H as [z [Hz Hb]]. exists z. split; [exact Hz|]. unfold in_range_b in Hb. lia.
Qed.

Lemma rows_outcome_ok n r rows2 : 0 <= n -> rows_outcome n r = Ok rows2 -> rows_ok n rows2.
Proof.
  intros Hn H. assert (S1 : forall x, (- n <=? x) && (x <? n) = true -> rows_ok n (Some [x mod n])).
  { intros x E. assert (0 <= x mod n < n) by (apply Z.mod_pos_bound; lia).
    split; [constructor; constructor|constructor; [lia|constructor]]. }
  destruct r as [|x|l|a b c]; simpl in H.
  - inversion H; exact I.
  - destruct ((- n <=? x) && (x <? n)) eqn:E; inversion H; subst. apply S1; exact E.
  - destruct l as [|x [|y t]].
    + inversion H; subst. split; constructor.
    + destruct ((- n <=? x) && (x <? n)) eqn:E; inversion H; subst. apply S1; exact E.
    + destruct (forallb (in_range_b n) (x :: y :: t)); inversion H; subst.
      split; [apply members_in_order_asc|]. rewrite Forall_forall. intros z Hz.
      apply members_in_order_In in Hz; [tauto|exact Hn].
  - discriminate.
Qed.

(* the only error classes of a row argument: TypeError for a slice object as rows=, ValueError otherwise *)
Corollary rows2read_error_classes n r e : 0 <= n -> rows2read_of n r = Err e ->
  (e = EType /\ exists a b c, r = RSlice a b c) \/ (e = EValue /\ match r with RScalar _ | RList _ => True | _ => False end).
Proof.
  intros Hn H. rewrite rows2read_exact in H by exact Hn. destruct r as [|x|l|a b c]; simpl in H.
  - discriminate.
  - destruct ((- n <=? x) && (x <? n)); inversion H. right; auto.
  - right. split; [|exact I]. destruct l as [|x [|y t]]; [discriminate| |].
    + destruct ((- n <=? x) && (x <? n)); inversion H; reflexivity.
    + destruct (forallb (in_range_b n) (x :: y :: t)); inversion H; reflexivity.
  - inversion H. left. split; [reflexivity|eauto].
Qed.

(* ------------------------------------------------------------------ unknown column names *)
Lemma index_of_None names c : ~ In c names -> forall i, index_of names c i = None.
Proof.
  intros H i. destruct (index_of names c i) eqn:E; [|reflexivity]. exfalso. apply H. eapply index_of_In. exact E.
Qed.

Theorem unknown_column_rejected names cs :
  (exists c, In c cs /\ ~ In c names) -> get_colnums names cs = Err EValue.
Proof.
  intros [c [Hc Hn]]. unfold get_colnums.
  assert (E : colnums_of names cs = Err EValue).
  { induction cs as [|a t IH]; [destruct Hc|]. simpl. destruct Hc as [->|Hc].
    - rewrite (index_of_None names c Hn). reflexivity.
    - destruct (index_of names a 0); [|reflexivity]. rewrite (IH Hc). reflexivity. }
  rewrite E. reflexivity.
Qed.

(* repeated names are harmless: columns_file_order (RowsProofs) does not require distinct names in cs *)

(* ------------------------------------------------------------------ slices with a step <= 0 *)
Lemma process_slice_total n a b c : exists s0 s1, process_slice n a b c = Ok (s0, s1, step_val c).
Proof. unfold process_slice. destruct c; simpl; eauto. Qed.

Section Steps.
  Variable P : nat -> list byte -> list byte.

  (* step 0: ZeroDivisionError on every path *)
  Theorem step_zero_binary f a b : rf_ascii f = false ->
    recfile_getitem_rows P f (RSlice a b (Some 0)) = Err EOther.
  Proof.
    intro Ha. unfold recfile_getitem_rows. rewrite Ha.
    destruct (process_slice_total (rf_nrows f) a b (Some 0)) as [s0 [s1 E]]. rewrite E. reflexivity.
  Qed.
  Theorem step_zero_unpacked f cols a b : colsubset_getitem P f cols (RSlice a b (Some 0)) = Err EOther.
  Proof. reflexivity. Qed.
  Theorem step_zero_text f a b : rf_ascii f = true -> recfile_getitem_rows P f (RSlice a b (Some 0)) = Err EOther.
  Proof. intro Ha. unfold recfile_getitem_rows. rewrite Ha. reflexivity. Qed.

  (* a negative step: the unpacked path (text files, column subsets) selects nothing ... *)
  Lemma slice2rows_negative n a b s : s < 0 -> slice2rows n a b (Some s) = Ok [].
  Proof.
    intro Hs. unfold slice2rows. cbv zeta. f_equal. unfold arange, arange_len.
    replace (s >? 0) with false by lia. replace (s <? 0) with true by lia.
    match goal with |- context[if ?a <=? ?b then _ else _] => replace (a <=? b) with true end; [reflexivity|].
    symmetry. apply Z.leb_le.
    match goal with |- _ <= (if ?c then _ else _) => destruct c eqn:E end; lia.
  Qed.
  Theorem negative_step_unpacked f cols a b s : s < 0 ->
    colsubset_getitem P f cols (RSlice a b (Some s)) = recfile_read P f (RList []) CNone cols false.
  Proof.
    intro Hs. unfold colsubset_getitem. rewrite (slice2rows_negative _ a b s Hs). cbn [bind].
    destruct s; try lia. reflexivity.
  Qed.
  (* ... the binary slice reader raises: ValueError (negative array size) or RuntimeError (C++ step check) *)
  Theorem negative_step_binary f a b s : rf_ascii f = false -> s < 0 ->
    recfile_getitem_rows P f (RSlice a b (Some s)) = Err EValue \/ recfile_getitem_rows P f (RSlice a b (Some s)) = Err ERuntime.
  Proof.
    intros Ha Hs. unfold recfile_getitem_rows. rewrite Ha.
    destruct (process_slice_total (rf_nrows f) a b (Some s)) as [s0 [s1 E]]. rewrite E. cbn [bind step_val].
    unfold read_binary_slice. replace (s =? 0) with false by lia.
    unfold get_slice_nrows. cbv zeta. cbn [bind].
    match goal with |- context[if ?k <? 0 then _ else _] => destruct (k <? 0) end; [left; reflexivity|right].
    unfold cpp_read_binary_slice, cpp_process_slice.
    destruct (s0 <? 0); [reflexivity|]. destruct (s1 >? rf_nrows f); [reflexivity|].
    replace (s <=? 0) with true by lia. reflexivity.
  Qed.
End Steps.

(* ------------------------------------------------------------------ Recfile.read, exactly, for every row argument *)
Section ReadExact.
  Variable P : nat -> list byte -> list byte.
  Variable f : rfile.
  Variable t : list (list cell).
  Hypothesis Hf : file_ok P f t.
  Hypothesis ND : NoDup (rf_names f).

  (* Recfile.read(rows=r, columns= / fields=, split=) with known columns: the outcome of the row argument decides;
     an accepted row argument never fails later, a rejected one fails with its own error class.  This covers the
     cases the property leaves open: [x] with x in [-n,0) is row x+n, longer lists with a negative entry and scalars
     outside [-n,n) raise ValueError, the empty list gives the empty table. *)
  Theorem recfile_read_exact r fields columns split cols scalar :
    spec_cols (rf_names f) (match fields with CNone => columns | _ => fields end) = CXCols cols scalar ->
    recfile_read P f r fields columns split =
    match rows_outcome (rf_nrows f) r with
    | Err e => Err e
    | Ok rows2 => Ok (shape_rf t (rows_of (length t) rows2) cols scalar split)
    end.
  Proof.
    intro Hcols. destruct (file_ok_facts P f t Hf) as [Hn [Hl [Hd Hs]]].
    assert (Hn0 : 0 <= rf_nrows f) by lia.
    destruct (cols_normalised P f t ND Hd _ cols scalar Hcols) as [E2 [Ac [Rc Sc]]].
    rewrite recfile_read_unfold. rewrite (rows2read_exact _ r Hn0).
    destruct (rows_outcome (rf_nrows f) r) as [rows2|e] eqn:Er; [|reflexivity].
    cbn [bind]. rewrite colsel_merge, E2. cbn [bind fst snd].
    rewrite (Hd cols rows2 Ac Rc (rows_outcome_ok _ r rows2 Hn0 Er)). cbn [bind]. unfold shape_rf.
    destruct scalar.
    - destruct (Sc eq_refl) as [i ->]. simpl hd. rewrite column_of_sel_single. reflexivity.
    - destruct split; [|reflexivity]. unfold split_fields. rewrite columns_of_sel. reflexivity.
  Qed.

  (* which keyword reads raise, and with which class *)
  Corollary recfile_read_error_class r fields columns split cols scalar e :
    spec_cols (rf_names f) (match fields with CNone => columns | _ => fields end) = CXCols cols scalar ->
    recfile_read P f r fields columns split = Err e ->
    rows_outcome (rf_nrows f) r = Err e /\ (e = EValue \/ e = EType).
  Proof.
    intros Hcols H. rewrite (recfile_read_exact r fields columns split cols scalar Hcols) in H.
    destruct (file_ok_facts P f t Hf) as [Hn _]. assert (Hn0 : 0 <= rf_nrows f) by lia.
    destruct (rows_outcome (rf_nrows f) r) as [rows2|e'] eqn:Er; [discriminate|]. inversion H; subst e'.
    split; [reflexivity|]. rewrite <- (rows2read_exact _ r Hn0) in Er.
    destruct (rows2read_error_classes _ r e Hn0 Er) as [[-> _]|[-> _]]; auto.
  Qed.
End ReadExact.

(* C10 -- LONPOLE other than 180.  For a zenithal projection (TAN: theta_0 = 90) the native pole is the reference
   point, (alpha_p, delta_p) = CRVAL for EVERY phi_p = LONPOLE (Calabretta & Greisen 2002, Sect. 2.2-2.4); GetPole
   returns CRVAL on that branch and CreateRotationMatrix uses self.longpole.  The forward chain therefore equals the
   paper's Euler rotation (alpha_p, delta_p, phi_p) = (CRVAL1, CRVAL2, LONPOLE) of the TAN native direction. *)
From Coq Require Import Reals List Bool Lra.
From EsVerif.Common Require Import Base.
From EsVerif.C10 Require Import Gen Model Spec Trig Forward Poly.
Import ListNotations.
Local Open Scope R_scope.

(* SIP coefficients within their declared orders; nothing is asked of LONPOLE *)
Definition sip_ok (h : header) : Prop :=
  h_proj h = PSip -> sip_wellformed (h_a_order h) (h_sipa h) /\ sip_wellformed (h_b_order h) (h_sipb h).

(* the FITS reference for any LONPOLE *)
Definition fits_sky_vec_lp (a0 d0 lp xi eta : R) : vec :=
  fits_celestial_vec (rad a0) (rad d0) (rad lp) (tan_native_vec xi eta).
Definition fits_pix2sky_vec_lp (h : header) (px py : R) : vec :=
  let xe := fits_intermediate h px py in
  fits_sky_vec_lp (h_crval1 h) (h_crval2 h) (h_longpole h) (fst xe) (snd xe).

Definition with_longpole (h : header) (lp : R) : header :=
  {| h_proj := h_proj h; h_crpix1 := h_crpix1 h; h_crpix2 := h_crpix2 h; h_crval1 := h_crval1 h; h_crval2 := h_crval2 h;
     h_cd11 := h_cd11 h; h_cd12 := h_cd12 h; h_cd21 := h_cd21 h; h_cd22 := h_cd22 h;
     h_naxis1 := h_naxis1 h; h_naxis2 := h_naxis2 h; h_longpole := lp;
     h_pv1 := h_pv1 h; h_pv2 := h_pv2 h; h_a_order := h_a_order h; h_b_order := h_b_order h;
     h_sipa := h_sipa h; h_sipb := h_sipb h; h_inv_a := h_inv_a h; h_inv_b := h_inv_b h |}.

Lemma pix2inter_longpole_irrelevant : forall h lp x y d,
  pix2inter (mk_wcs (with_longpole h lp)) x y d = pix2inter (mk_wcs h) x y d.
Proof. intros. destruct h. reflexivity. Qed.

Lemma fits_intermediate_longpole_irrelevant : forall h lp x y,
  fits_intermediate (with_longpole h lp) x y = fits_intermediate h x y.
Proof. intros. destruct h. reflexivity. Qed.

Lemma pix2inter_matches_fits_any_longpole : forall h x y, sip_ok h ->
  pix2inter (mk_wcs h) x y true = fits_intermediate h x y.
Proof.
  intros h x y Hs.
  rewrite <- (pix2inter_longpole_irrelevant h 180), <- (fits_intermediate_longpole_irrelevant h 180).
  apply pix2inter_matches_fits. split; [reflexivity|]. destruct h. exact Hs.
Qed.

Lemma image2sph_is_euler : forall h xi eta,
  unitvec (fst (image2sph (mk_wcs h) xi eta)) (snd (image2sph (mk_wcs h) xi eta))
  = fits_sky_vec_lp (h_crval1 h) (h_crval2 h) (h_longpole h) xi eta.
Proof.
  intros h xi eta. rewrite (image2sph_vec _ _ _ (mk_wcs_orthogonal h)).
  unfold fits_sky_vec_lp, fits_celestial_vec. rewrite !rad_d2r. rewrite <- rotmat_is_euler_lemma.
  unfold mk_wcs. cbn [w_rot].
  replace (transpose (transpose (rotation_matrix (h_crval1 h * d2r) (h_crval2 h * d2r) (h_longpole h))))
    with (rotation_matrix (h_crval1 h * d2r) (h_crval2 h * d2r) (h_longpole h)) by reflexivity.
  reflexivity.
Qed.

Lemma forward_matches_fits_any_longpole : forall h x y, sip_ok h ->
  let ll := image2sky (mk_wcs h) x y true in
  unitvec (fst ll) (snd ll) = fits_pix2sky_vec_lp h x y.
Proof.
  intros h x y Hs. cbv zeta. unfold image2sky, fits_pix2sky_vec_lp.
  rewrite (pix2inter_matches_fits_any_longpole h x y Hs). apply image2sph_is_euler.
Qed.

(* for LONPOLE = 180 this is the gnomonic deprojection about CRVAL used so far *)
Lemma lonpole_180_is_gnomonic : forall h x y, h_longpole h = 180 ->
  fits_pix2sky_vec_lp h x y = fits_pix2sky_vec h x y.
Proof.
  intros h x y Hl. unfold fits_pix2sky_vec_lp, fits_pix2sky_vec, fits_sky_vec_lp. rewrite Hl.
  rewrite gnomonic_is_paper_chain_lemma. f_equal. unfold rad. field.
Qed.

(* the reference pixel maps to CRVAL whatever LONPOLE is *)
Lemma native_pole_to_crval : forall a0 d0 lp, fits_sky_vec_lp a0 d0 lp 0 0 = unitvec a0 d0.
Proof.
  intros. unfold fits_sky_vec_lp, fits_celestial_vec, tan_native_vec, euler_cel2nat, mapply, transpose, mmul, rot_z, rot_x,
    unitvec, vx, vy, vz. cbn [m00 m01 m02 m10 m11 m12 m20 m21 m22 fst snd].
  replace (rad 0) with 0 by (unfold rad; field).
  replace (sqrt (1 + 0 * 0 + 0 * 0)) with 1 by (replace (1 + 0 * 0 + 0 * 0) with 1 by ring; symmetry; apply sqrt_1).
  rewrite !cos_PI2_minus, !sin_PI2_minus, cos_plus_PI2, sin_plus_PI2.
  f_equal; [f_equal|]; field.
Qed.

Lemma crpix_maps_to_crval_any_longpole : forall h, sip_ok h ->
  fits_intermediate h (h_crpix1 h) (h_crpix2 h) = (0, 0) ->
  let ll := image2sky (mk_wcs h) (h_crpix1 h) (h_crpix2 h) true in
  unitvec (fst ll) (snd ll) = unitvec (h_crval1 h) (h_crval2 h).
Proof.
  intros h Hs H0. cbv zeta. rewrite (forward_matches_fits_any_longpole h _ _ Hs).
  unfold fits_pix2sky_vec_lp. rewrite H0. cbn [fst snd]. apply native_pole_to_crval.
Qed.

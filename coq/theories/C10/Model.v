(* C10 — model of esutil/wcsutil.py (class WCS) over the reals (style R) plus the object's
   state machine.  NO proofs in this file.

   The model describes the code after the five `fix:` commits of fixes/C10 (SIP with
   distort=False; SIP headers without AP_ORDER/BP_ORDER; TPV default PVi_1 = 1; distortion
   present when either axis has coefficients; root finding in the undistorted pixel frame).  Line numbers refer to esutil/wcsutil.py.

   Not modelled (see the trusted base of harness/props/C10.py): the theta0 <> 90 branches of
   GetPole (TAN is zenithal, theta0 = 90; the header generators never set theta0), string
   handling of CTYPE/CUNIT, numpy broadcasting (array calls are checked against scalar calls
   on the implementation), the least-squares inverse fit (Section variable [fit]) and
   scipy.optimize.fsolve (Section variable [fsolve]). *)
From Coq Require Import Reals List Bool Arith.
From EsVerif.Common Require Import Base.
From EsVerif.C10 Require Import Gen.
Import ListNotations.
Local Open Scope R_scope.

(* r2d = 180.0 / math.pi, d2r = math.pi / 180.0   (44-45; shapes checked by the translator) *)
Definition d2r : R := PI / 180.
Definition r2d : R := 180 / PI.

(* ---------------------------------------------------------------------------------------- *)
(* numpy.arctan2 on real numbers (no signed zeros; arctan2(0,0) = 0)                         *)
(* ---------------------------------------------------------------------------------------- *)
Definition atan2 (y x : R) : R :=
  if Rlt_dec 0 x then atan (y / x)
  else if Rlt_dec x 0 then (if Rle_dec 0 y then atan (y / x) + PI else atan (y / x) - PI)
  else if Rlt_dec 0 y then PI / 2
  else if Rlt_dec y 0 then - (PI / 2)
  else 0.

(* numpy.clip(x, lo, hi) *)
Definition Rclip (x lo hi : R) : R := Rmin (Rmax x lo) hi.

(* ---------------------------------------------------------------------------------------- *)
(* coefficient matrices and Apply2DPolynomial (1158-1170)                                    *)
(* ---------------------------------------------------------------------------------------- *)
Definition coeffs := list (list R).      (* a[ix][iy] *)

Definition zeros (n m : nat) : coeffs := repeat (repeat 0 m) n.
Definition mget (a : coeffs) (i j : nat) : R := nth j (nth i a []) 0.
Definition mset (a : coeffs) (i j : nat) (v : R) : coeffs := set_nth a i (set_nth (nth i a []) j v).

(* v += a[ix,iy] * x**ix * y**iy  for ix, iy in row-major order (terms with a zero
   coefficient are skipped by the code, which does not change the sum) *)
Fixpoint sum_row (row : list R) (x y : R) (ix iy : nat) : R :=
  match row with
  | [] => 0
  | a :: t => a * x ^ ix * y ^ iy + sum_row t x y ix (S iy)
  end.
Fixpoint poly_rows (a : coeffs) (x y : R) (ix : nat) : R :=
  match a with
  | [] => 0
  | row :: t => sum_row row x y ix 0 + poly_rows t x y (S ix)
  end.
Definition poly2d (a : coeffs) (x y : R) : R := poly_rows a x y 0.

(* ---------------------------------------------------------------------------------------- *)
(* the header                                                                                 *)
(* ---------------------------------------------------------------------------------------- *)
Inductive proj := PTan | PTpv | PSip.       (* "-TAN", "-TPV", "-TAN-SIP" (_allowed_projections) *)
Inductive dname := DNone | DScamp | DSip.   (* self.distort["name"] *)

Record header := {
  h_proj : proj;
  h_crpix1 : R; h_crpix2 : R;
  h_crval1 : R; h_crval2 : R;
  h_cd11 : R; h_cd12 : R; h_cd21 : R; h_cd22 : R;
  h_naxis1 : R; h_naxis2 : R;               (* read by the inverse fit only *)
  h_longpole : R;                           (* header key or constructor default 180 *)
  h_pv1 : list (nat * R);                   (* PV1_k present in the header *)
  h_pv2 : list (nat * R);
  h_a_order : nat; h_b_order : nat;         (* A_ORDER, B_ORDER *)
  h_sipa : list ((nat * nat) * R);          (* A_p_q present in the header *)
  h_sipb : list ((nat * nat) * R);
  h_inv_a : coeffs; h_inv_b : coeffs        (* whatever inverse coefficients the header carries *)
}.

Fixpoint assoc_nat {A} (k : nat) (l : list (nat * A)) : option A :=
  match l with
  | [] => None
  | (k', v) :: t => if Nat.eqb k k' then Some v else assoc_nat k t
  end.
Fixpoint assoc_nn {A} (p q : nat) (l : list ((nat * nat) * A)) : option A :=
  match l with
  | [] => None
  | ((p', q'), v) :: t => if Nat.eqb p p' && Nat.eqb q q' then Some v else assoc_nn p q t
  end.

Definition is_some {A} (o : option A) : bool := match o with Some _ => true | None => false end.

(* ExtractPVCoeffs (984-999, repaired): the matrix starts as the identity polynomial of the TPV
   convention (PVi_1 = 1), then every PVi_k with k < _scamp_max_ncoeff, k not in _scamp_skip,
   that is present in the header is stored at _scamp_map[PVi_k]; count = number found.
   An entry that is not in the header keeps its value. *)
Definition scanned_ks : list nat :=
  filter (fun k => negb (existsb (Nat.eqb k) scamp_skip)) (seq 0 scamp_max_ncoeff).

Definition pv_init (table : list (nat * (nat * nat))) : coeffs :=
  let z := zeros (S scamp_max_order) (S scamp_max_order) in
  match assoc_nat 1%nat table with Some (i, j) => mset z i j 1 | None => z end.

Definition pv_store (table : list (nat * (nat * nat))) (look : nat -> option R) (m : coeffs) (k : nat) : coeffs :=
  match assoc_nat k table with
  | Some (i, j) => mset m i j (match look k with Some v => v | None => mget m i j end)
  | None => m       (* KeyError; excluded by Proofs.scamp_tables_total *)
  end.

Definition pv_matrix (table : list (nat * (nat * nat))) (look : nat -> option R) : coeffs :=
  fold_left (pv_store table look) scanned_ks (pv_init table).
Definition pv_count (look : nat -> option R) : nat :=
  length (filter (fun k => is_some (look k)) scanned_ks).

(* ExtractSIPCoeffs (1001-1016): (order+1) x (order+1), entry A_ix_iy when present, else 0 *)
Definition sip_coef (cs : list ((nat * nat) * R)) (p q : nat) : R :=
  match assoc_nn p q cs with Some v => v | None => 0 end.
Definition sip_matrix (order : nat) (cs : list ((nat * nat) * R)) : coeffs :=
  map (fun ix => map (fun iy => sip_coef cs ix iy) (seq 0 (S order))) (seq 0 (S order)).
Definition sip_count (order : nat) (cs : list ((nat * nat) * R)) : nat :=
  length (filter (fun pq => is_some (assoc_nn (fst pq) (snd pq) cs))
                 (list_prod (seq 0 (S order)) (seq 0 (S order)))).

(* ExtractDistortionModel (1018-1062, repaired): the forward part of self.distort *)
Record distortion := { d_name : dname; d_a : coeffs; d_b : coeffs }.

Definition extract_distortion (h : header) : distortion :=
  match h_proj h with
  | PTan | PTpv =>
      let l1 := fun k => assoc_nat k (h_pv1 h) in
      let l2 := fun k => assoc_nat k (h_pv2 h) in
      if Nat.eqb (pv_count l1) 0 && Nat.eqb (pv_count l2) 0
      then {| d_name := DNone; d_a := []; d_b := [] |}
      else {| d_name := DScamp; d_a := pv_matrix scamp_map1 l1; d_b := pv_matrix scamp_map2 l2 |}
  | PSip =>
      if Nat.eqb (sip_count (h_a_order h) (h_sipa h)) 0 && Nat.eqb (sip_count (h_b_order h) (h_sipb h)) 0
      then {| d_name := DNone; d_a := []; d_b := [] |}
      else {| d_name := DSip; d_a := sip_matrix (h_a_order h) (h_sipa h);
              d_b := sip_matrix (h_b_order h) (h_sipb h) |}
  end.

(* ---------------------------------------------------------------------------------------- *)
(* rotation (GetPole theta0 = 90 branch 826-827; CreateRotationMatrix 480-509; _rotate 511-544) *)
(* ---------------------------------------------------------------------------------------- *)
Record mat3 := mk3 { m00 : R; m01 : R; m02 : R; m10 : R; m11 : R; m12 : R; m20 : R; m21 : R; m22 : R }.
Definition transpose (r : mat3) : mat3 :=
  mk3 (m00 r) (m10 r) (m20 r) (m01 r) (m11 r) (m21 r) (m02 r) (m12 r) (m22 r).

(* arguments: native_longpole, native_latpole (radians), longpole (degrees) *)
Definition rotation_matrix (alpha_p delta_p longpole : R) : mat3 :=
  let sp := sin (longpole * d2r) in let cp := cos (longpole * d2r) in
  let sa := sin alpha_p in let ca := cos alpha_p in
  let sd := sin delta_p in let cd := cos delta_p in
  mk3 (- sa * sp - ca * cp * sd) (sa * cp - ca * sp * sd) (ca * cd)
      (ca * sp - sa * cp * sd) (- ca * cp - sa * sp * sd) (sa * cd)
      (cp * cd) (sp * cd) sd.

(* _rotate(longitude, latitude, r): angles in radians in, degrees out *)
Definition rotate_ (longitude latitude : R) (r : mat3) : R * R :=
  let l := cos latitude * cos longitude in
  let m := cos latitude * sin longitude in
  let n := sin latitude in
  let b0 := m00 r * l + m10 r * m + m20 r * n in
  let b1 := m01 r * l + m11 r * m + m21 r * n in
  let b2 := Rclip (m02 r * l + m12 r * m + m22 r * n) (-1) 1 in
  (atan2 b1 b0 * r2d, atan2 b2 (sqrt (b0 * b0 + b1 * b1)) * r2d).

(* ---------------------------------------------------------------------------------------- *)
(* the constructed object (static part)                                                       *)
(* ---------------------------------------------------------------------------------------- *)
Record wcs := {
  w_hdr : header;
  w_rot : mat3;                 (* self.rotation_matrix *)
  w_dist : distortion           (* self.distort: name, a, b *)
}.

Definition mk_wcs (h : header) : wcs :=
  {| w_hdr := h;
     w_rot := rotation_matrix (h_crval1 h * d2r) (h_crval2 h * d2r) (h_longpole h);
     w_dist := extract_distortion h |}.

Definition cd_det (h : header) : R := h_cd11 h * h_cd22 h - h_cd12 h * h_cd21 h.

(* ApplyCDMatrix (379-389); cdinv = numpy.linalg.inv(cd) is modelled as the exact inverse
   (monitored on every run); a singular matrix is rejected by the constructor *)
Definition apply_cd (h : header) (x y : R) : R * R :=
  (h_cd11 h * x + h_cd12 h * y, h_cd21 h * x + h_cd22 h * y).
Definition apply_cdinv (h : header) (x y : R) : R * R :=
  (h_cd22 h / cd_det h * x + - h_cd12 h / cd_det h * y,
   - h_cd21 h / cd_det h * x + h_cd11 h / cd_det h * y).

(* Rotate (469-478) *)
Definition Rotate (w : wcs) (lon lat : R) (reverse : bool) : R * R :=
  rotate_ (lon * d2r) (lat * d2r) (if reverse then transpose (w_rot w) else w_rot w).

(* longitude fold of image2sph (425-438) *)
Definition fold360 (lon : R) : R :=
  let lon1 := if Rlt_dec lon 0 then lon + 360 else lon in
  if Rle_dec 360 lon1 then lon1 - 360 else lon1.

(* image2sph (391-440) *)
Definition image2sph (w : wcs) (x y : R) : R * R :=
  let r := sqrt (x ^ 2 + y ^ 2) * PI / 180 in
  let latitude := if Rlt_dec 0 r then atan (1 / r) else PI / 2 in
  let longitude := atan2 x (- y) in
  let ll := Rotate w (longitude * r2d) (latitude * r2d) true in
  (fold360 (fst ll), snd ll).

(* sph2image (442-466) *)
Definition sph2image (w : wcs) (longitude latitude : R) : R * R :=
  let ll := Rotate w longitude latitude false in
  let lo := fst ll * d2r in
  let la := snd ll * d2r in
  if Rlt_dec 0 la
  then let rdiv := r2d / tan la in (rdiv * sin lo, - rdiv * cos lo)
  else (0, 0).

(* Distort, forward direction (619-662) *)
Definition distort_with (nm : dname) (a b : coeffs) (x y : R) : R * R :=
  match nm with
  | DNone => (x * 1, y * 1)
  | DScamp => (0 * x + poly2d a x y, 0 * y + poly2d b x y)
  | DSip => (x * 1 + poly2d a x y, y * 1 + poly2d b x y)
  end.

Definition has_dist (w : wcs) : bool :=
  match d_name (w_dist w) with DNone => false | _ => true end.

(* image2sky (264-308, repaired) *)
Definition pix2inter (w : wcs) (x y : R) (distort : bool) : R * R :=
  let h := w_hdr w in
  let xdiff := x - h_crpix1 h in
  let ydiff := y - h_crpix2 h in
  let use := distort && has_dist w in
  let d := w_dist w in
  match h_proj h with
  | PTan | PTpv =>
      let uv := apply_cd h xdiff ydiff in
      if use then distort_with (d_name d) (d_a d) (d_b d) (fst uv) (snd uv) else uv
  | PSip =>
      let uv := if use then distort_with (d_name d) (d_a d) (d_b d) xdiff ydiff else (xdiff, ydiff) in
      apply_cd h (fst uv) (snd uv)
  end.

Definition image2sky (w : wcs) (x y : R) (distort : bool) : R * R :=
  let uv := pix2inter w x y distort in image2sph w (fst uv) (snd uv).

(* wrap_ra_diff (1299-1332) for |dra| < 540: the two while loops run at most once
   (Proofs.wrap_once_suffices; longitudes are in [0,360), so |dra| < 360) *)
Definition wrap_ra_diff (dra : R) : R :=
  if Rlt_dec dra (-180) then dra + 360 else if Rlt_dec 180 dra then dra - 360 else dra.

(* get_jacobian (207-262): central differences of the five image2sky results *)
Definition jac_of (c p0 m0 zp zm : R * R) (step : R) : R * R * R * R :=
  let fac := 1 / (2 * step) in
  let cosdec := - cos (snd c * d2r) in
  (fac * 3600 * wrap_ra_diff (fst p0 - fst m0) * cosdec,
   fac * 3600 * wrap_ra_diff (fst zp - fst zm) * cosdec,
   fac * 3600 * (snd p0 - snd m0),
   fac * 3600 * (snd zp - snd zm)).

Definition get_jacobian (w : wcs) (x y : R) (distort : bool) (step : R) : R * R * R * R :=
  jac_of (image2sky w x y distort)
         (image2sky w (x + step) y distort) (image2sky w (x - step) y distort)
         (image2sky w x (y + step) distort) (image2sky w x (y - step) distort) step.

(* ---------------------------------------------------------------------------------------- *)
(* mutable state and the operations that touch it                                             *)
(* ---------------------------------------------------------------------------------------- *)
Record state := {
  s_inv_computed : bool;        (* self._inverse_computed *)
  s_ap : coeffs; s_bp : coeffs; (* self.distort["ap"], ["bp"] *)
  s_lonlat_answer : R * R;      (* scratch: written by _findxy_one, no longer read *)
  s_xyguess : R * R;            (* scratch: start value handed to fsolve *)
  s_xy_answer : R * R           (* scratch: target read by _lonlatdiff *)
}.

Definition init_state (w : wcs) : state :=
  {| s_inv_computed := false; s_ap := h_inv_a (w_hdr w); s_bp := h_inv_b (w_hdr w);
     s_lonlat_answer := (0, 0); s_xyguess := (0, 0); s_xy_answer := (0, 0) |}.

Inductive op :=
| OpImage2sky (x y : R) (distort : bool)
| OpSky2image (lon lat : R) (distort find : bool) (xtol : R)
| OpJacobian (x y : R) (distort : bool) (step : R).

Inductive out :=
| OutPair (p : R * R)
| OutJac (j : R * R * R * R).

Section Oracles.
  (* InvertDistortion (686-814): a least-squares fit of the inverse polynomial on a grid over
     the image.  It reads the header-derived attributes, image2sky and the distortion-free
     inverse only; it is not modelled beyond being a function of the header. *)
  Variable fit : header -> coeffs * coeffs.
  (* scipy.optimize.fsolve(func, x0, xtol=xtol) *)
  Variable fsolve : (R * R -> R * R) -> R * R -> R -> R * R.

  (* first lines of Distort(inverse=True) (628-632) *)
  Definition ensure_inverse (w : wcs) (s : state) : state :=
    if s_inv_computed s then s
    else {| s_inv_computed := true; s_ap := fst (fit (w_hdr w)); s_bp := snd (fit (w_hdr w));
            s_lonlat_answer := s_lonlat_answer s; s_xyguess := s_xyguess s;
            s_xy_answer := s_xy_answer s |}.

  Definition distort_inverse (w : wcs) (s : state) (x y : R) : state * (R * R) :=
    let s' := ensure_inverse w s in
    (s', distort_with (d_name (w_dist w)) (s_ap s') (s_bp s') x y).

  (* sky2image without root finding (344-365) *)
  Definition sky2image_direct (w : wcs) (s : state) (lon lat : R) (distort : bool) : state * (R * R) :=
    let h := w_hdr w in
    let uv := sph2image w lon lat in
    let use := distort && has_dist w in
    match h_proj h with
    | PTan | PTpv =>
        let r := if use then distort_inverse w s (fst uv) (snd uv) else (s, uv) in
        let d := apply_cdinv h (fst (snd r)) (snd (snd r)) in
        (fst r, (fst d + h_crpix1 h, snd d + h_crpix2 h))
    | PSip =>
        let uv' := apply_cdinv h (fst uv) (snd uv) in
        let r := if use then distort_inverse w s (fst uv') (snd uv') else (s, uv') in
        (fst r, (fst (snd r) + h_crpix1 h, snd (snd r) + h_crpix2 h))
    end.

  (* sky2image(lon, lat, find=False, distort=False): never reaches Distort, touches no state *)
  Definition sky2image_nodistort (w : wcs) (lon lat : R) : R * R :=
    let h := w_hdr w in
    let uv := sph2image w lon lat in
    match h_proj h with
    | PTan | PTpv =>
        let d := apply_cdinv h (fst uv) (snd uv) in (fst d + h_crpix1 h, snd d + h_crpix2 h)
    | PSip =>
        let uv' := apply_cdinv h (fst uv) (snd uv) in (fst uv' + h_crpix1 h, snd uv' + h_crpix2 h)
    end.

  (* _lonlatdiff (repaired): residual in the undistorted pixel frame *)
  Definition lonlatdiff (w : wcs) (target : R * R) (xy : R * R) : R * R :=
    let ll := image2sky w (fst xy) (snd xy) true in
    let xu := sky2image_nodistort w (fst ll) (snd ll) in
    (fst xu - fst target, snd xu - snd target).

  (* _findxy_one (repaired): every scratch value is written before it is read *)
  Definition findxy_one (w : wcs) (s : state) (lon lat xtol : R) : state * (R * R) :=
    let s1 := {| s_inv_computed := s_inv_computed s; s_ap := s_ap s; s_bp := s_bp s;
                 s_lonlat_answer := (lon, lat); s_xyguess := s_xyguess s;
                 s_xy_answer := s_xy_answer s |} in
    let s2 := {| s_inv_computed := s_inv_computed s1; s_ap := s_ap s1; s_bp := s_bp s1;
                 s_lonlat_answer := s_lonlat_answer s1;
                 s_xyguess := sky2image_nodistort w lon lat;
                 s_xy_answer := s_xy_answer s1 |} in
    let s3 := {| s_inv_computed := s_inv_computed s2; s_ap := s_ap s2; s_bp := s_bp s2;
                 s_lonlat_answer := s_lonlat_answer s2; s_xyguess := s_xyguess s2;
                 s_xy_answer := s_xyguess s2 |} in
    (s3, fsolve (lonlatdiff w (s_xy_answer s3)) (s_xyguess s3) xtol).

  (* sky2image (310-365): find=True ignores `distort` when a distortion model is present *)
  Definition sky2image (w : wcs) (s : state) (lon lat : R) (distort find : bool) (xtol : R)
    : state * (R * R) :=
    if find && has_dist w then findxy_one w s lon lat xtol
    else sky2image_direct w s lon lat distort.

  Definition step (w : wcs) (s : state) (o : op) : state * out :=
    match o with
    | OpImage2sky x y distort => (s, OutPair (image2sky w x y distort))
    | OpSky2image lon lat distort find xtol =>
        let r := sky2image w s lon lat distort find xtol in (fst r, OutPair (snd r))
    | OpJacobian x y distort stp => (s, OutJac (get_jacobian w x y distort stp))
    end.

  Fixpoint run (w : wcs) (s : state) (ops : list op) : state * list out :=
    match ops with
    | [] => (s, [])
    | o :: t => let r := step w s o in let r' := run w (fst r) t in (fst r', snd r :: snd r')
    end.

  (* the output of the last operation of a history *)
  Definition last_out (w : wcs) (ops : list op) (o : op) : out :=
    snd (step w (fst (run w (init_state w) ops)) o).
End Oracles.

(* C10 — lemmas about atan2, direction cosines and the longitude fold. *)
From Coq Require Import Reals Lra List.
From EsVerif.C10 Require Import Gen Model Spec.
Local Open Scope R_scope.

Lemma d2r_r2d : forall a, a * r2d * d2r = a.
Proof. intro a. unfold r2d, d2r. field. apply PI_neq0. Qed.

Lemma rad_d2r : forall a, rad a = a * d2r.
Proof. intro a. unfold rad, d2r. field. Qed.

Lemma sqrt_1_plus_sq_pos : forall x y, 0 < x -> 0 < sqrt (x * x + y * y).
Proof. intros x y Hx. apply sqrt_lt_R0. nra. Qed.

Lemma norm_sq : forall x y, 0 <= x * x + y * y.
Proof. intros; nra. Qed.

Lemma sqrt_one_plus_tan : forall x y n, x <> 0 -> 0 < n -> n * n = x * x + y * y ->
  sqrt (1 + (y / x)²) = n / Rabs x.
Proof.
  intros x y n Hx Hn Hnn.
  assert (Ha : 0 < Rabs x) by (apply Rabs_pos_lt; exact Hx).
  apply sqrt_lem_1.
  - unfold Rsqr. assert (0 <= (y / x) * (y / x)) by nra. lra.
  - apply Rlt_le. apply Rdiv_lt_0_compat; assumption.
  - unfold Rsqr. assert (Hxx : Rabs x * Rabs x = x * x).
    { destruct (Rcase_abs x) as [Hneg|Hpos].
      - rewrite (Rabs_left x Hneg). ring.
      - rewrite (Rabs_right x Hpos). ring. }
    assert (Hne : Rabs x <> 0) by lra.
    replace (n / Rabs x * (n / Rabs x)) with ((n * n) / (Rabs x * Rabs x)) by (field; exact Hne).
    rewrite Hnn, Hxx. field. exact Hx.
Qed.

Lemma atan2_cos_sin : forall y x, 0 < x * x + y * y ->
  cos (atan2 y x) = x / sqrt (x * x + y * y) /\ sin (atan2 y x) = y / sqrt (x * x + y * y).
Proof.
  intros y x Hpos.
  set (n := sqrt (x * x + y * y)).
  assert (Hn : 0 < n) by (apply sqrt_lt_R0; exact Hpos).
  assert (Hnn : n * n = x * x + y * y) by (apply sqrt_sqrt; lra).
  assert (Hn0 : n <> 0) by lra.
  unfold atan2.
  destruct (Rlt_dec 0 x) as [Hx|Hx].
  - assert (Hx0 : x <> 0) by lra.
    rewrite cos_atan, sin_atan.
    rewrite (sqrt_one_plus_tan x y n Hx0 Hn Hnn).
    rewrite (Rabs_right x) by lra.
    split; field; split; assumption.
  - destruct (Rlt_dec x 0) as [Hx'|Hx'].
    + assert (Hx0 : x <> 0) by lra.
      assert (Hc : cos (atan (y / x)) = - x / n).
      { rewrite cos_atan, (sqrt_one_plus_tan x y n Hx0 Hn Hnn), (Rabs_left x Hx'). field. split; lra. }
      assert (Hs : sin (atan (y / x)) = - y / n).
      { rewrite sin_atan, (sqrt_one_plus_tan x y n Hx0 Hn Hnn), (Rabs_left x Hx'). field. split; lra. }
      destruct (Rle_dec 0 y) as [Hy|Hy].
      * rewrite neg_cos, neg_sin, Hc, Hs. split; field; assumption.
      * rewrite cos_minus, sin_minus, cos_PI, sin_PI, Hc, Hs. split; field; assumption.
    + assert (Hx0 : x = 0) by lra.
      destruct (Rlt_dec 0 y) as [Hy|Hy].
      * assert (En : n = y).
        { unfold n. rewrite Hx0. replace (0 * 0 + y * y) with (y * y) by ring. apply sqrt_square. lra. }
        rewrite cos_PI2, sin_PI2, En, Hx0. split; field; lra.
      * destruct (Rlt_dec y 0) as [Hy'|Hy'].
        -- assert (En : n = - y).
           { unfold n. rewrite Hx0. replace (0 * 0 + y * y) with ((- y) * (- y)) by ring. apply sqrt_square. lra. }
           rewrite cos_neg, sin_neg, cos_PI2, sin_PI2, En, Hx0. split; field; lra.
        -- exfalso. assert (y = 0) by lra. subst. nra.
Qed.

Lemma atan2_range : forall y x, - PI < atan2 y x <= PI.
Proof.
  intros y x. unfold atan2. pose proof PI_RGT_0 as Hpi.
  destruct (Rlt_dec 0 x) as [Hx|Hx].
  - pose proof (atan_bound (y / x)). lra.
  - destruct (Rlt_dec x 0) as [Hx'|Hx'].
    + pose proof (atan_bound (y / x)) as Hb.
      destruct (Rle_dec 0 y) as [Hy|Hy].
      * assert (Ht : y / x <= 0).
        { unfold Rdiv. assert (/ x < 0) by (apply Rinv_lt_0_compat; exact Hx'). nra. }
        assert (atan (y / x) <= 0).
        { destruct Ht as [Ht|Ht]. - left. rewrite <- atan_0. apply atan_increasing. exact Ht.
          - rewrite Ht, atan_0. lra. }
        lra.
      * assert (Ht : 0 < y / x).
        { unfold Rdiv. assert (/ x < 0) by (apply Rinv_lt_0_compat; exact Hx'). nra. }
        assert (0 < atan (y / x)) by (rewrite <- atan_0; apply atan_increasing; exact Ht).
        lra.
    + destruct (Rlt_dec 0 y); [lra|]. destruct (Rlt_dec y 0); lra.
Qed.

(* direction cosines of (longitude, latitude) in radians *)
Definition vec_of (lon lat : R) : vec := (cos lat * cos lon, cos lat * sin lon, sin lat).

Lemma unitvec_vec_of : forall lon lat, unitvec lon lat = vec_of (lon * d2r) (lat * d2r).
Proof. intros. unfold unitvec, vec_of. rewrite !rad_d2r. reflexivity. Qed.

Lemma vec_of_unit : forall lon lat, vdot (vec_of lon lat) (vec_of lon lat) = 1.
Proof.
  intros. unfold vdot, vec_of, vx, vy, vz; simpl.
  pose proof (sin2_cos2 lon) as H1. pose proof (sin2_cos2 lat) as H2. unfold Rsqr in *. nra.
Qed.

(* the angles that _rotate extracts from a unit vector reproduce the vector *)
Lemma angles_of_unit_vector : forall b0 b1 b2, b0 * b0 + b1 * b1 + b2 * b2 = 1 ->
  vec_of (atan2 b1 b0) (atan2 (Rclip b2 (-1) 1) (sqrt (b0 * b0 + b1 * b1))) = (b0, b1, b2).
Proof.
  intros b0 b1 b2 Hu.
  assert (Hclip : Rclip b2 (-1) 1 = b2).
  { unfold Rclip. assert (-1 <= b2 <= 1) by nra.
    rewrite Rmax_left by lra. rewrite Rmin_left by lra. reflexivity. }
  rewrite Hclip.
  set (rho := sqrt (b0 * b0 + b1 * b1)).
  assert (Hrho : 0 <= rho) by apply sqrt_pos.
  assert (Hrr : rho * rho = b0 * b0 + b1 * b1) by (apply sqrt_sqrt; nra).
  assert (Hn1 : sqrt (rho * rho + b2 * b2) = 1).
  { rewrite Hrr, Hu. apply sqrt_1. }
  destruct (atan2_cos_sin b2 rho) as [Hc Hs]; [rewrite Hrr; lra|].
  rewrite Hn1 in Hc, Hs.
  unfold vec_of. rewrite Hc, Hs.
  destruct (Req_dec rho 0) as [Hz|Hnz].
  - assert (b0 = 0 /\ b1 = 0) as [E0 E1] by (rewrite Hz in Hrr; split; nra).
    rewrite Hz, E0, E1. f_equal; [f_equal|]; field.
  - destruct (atan2_cos_sin b1 b0) as [Hc' Hs']; [rewrite <- Hrr; nra|].
    fold rho in Hc', Hs'. rewrite Hc', Hs'.
    f_equal; [f_equal|]; field; exact Hnz.
Qed.

(* ---------------------------------------------------------------------------------------- *)
(* longitude fold                                                                             *)
(* ---------------------------------------------------------------------------------------- *)
Lemma fold360_range : forall lon, -180 < lon <= 180 -> 0 <= fold360 lon < 360.
Proof.
  intros lon H. unfold fold360.
  destruct (Rlt_dec lon 0) as [Hl|Hl].
  - destruct (Rle_dec 360 (lon + 360)); lra.
  - destruct (Rle_dec 360 lon); lra.
Qed.

Lemma fold360_cases : forall lon, fold360 lon = lon \/ fold360 lon = lon + 360 \/ fold360 lon = lon - 360
                                  \/ fold360 lon = lon + 360 - 360.
Proof.
  intro lon. unfold fold360.
  destruct (Rlt_dec lon 0); [destruct (Rle_dec 360 (lon + 360))|destruct (Rle_dec 360 lon)]; auto.
Qed.

Lemma cos_sin_fold360 : forall lon, cos (fold360 lon * d2r) = cos (lon * d2r) /\ sin (fold360 lon * d2r) = sin (lon * d2r).
Proof.
  intro lon.
  assert (E1 : (lon + 360) * d2r = lon * d2r + 2 * PI) by (unfold d2r; field).
  assert (E2 : (lon - 360) * d2r = lon * d2r - 2 * PI) by (unfold d2r; field).
  assert (E3 : (lon + 360 - 360) * d2r = lon * d2r) by (unfold d2r; field).
  destruct (fold360_cases lon) as [H|[H|[H|H]]]; rewrite H.
  - split; reflexivity.
  - rewrite E1. rewrite cos_plus, sin_plus, cos_2PI, sin_2PI. split; ring.
  - rewrite E2. rewrite cos_minus, sin_minus, cos_2PI, sin_2PI. split; ring.
  - rewrite E3. split; reflexivity.
Qed.

Lemma unitvec_fold360 : forall lon lat, unitvec (fold360 lon) lat = unitvec lon lat.
Proof.
  intros. rewrite !unitvec_vec_of. unfold vec_of.
  destruct (cos_sin_fold360 lon) as [Hc Hs]. rewrite Hc, Hs. reflexivity.
Qed.

Lemma atan2_deg_range : forall y x, -180 < atan2 y x * r2d <= 180.
Proof.
  intros y x. pose proof (atan2_range y x) as H. pose proof PI_RGT_0 as Hpi. unfold r2d.
  assert (E : atan2 y x * (180 / PI) = atan2 y x / PI * 180) by (field; lra).
  rewrite E.
  assert (-1 < atan2 y x / PI <= 1).
  { split.
    - apply Rmult_lt_reg_r with PI; [lra|]. unfold Rdiv. rewrite Rmult_assoc, Rinv_l by lra. lra.
    - apply Rmult_le_reg_r with PI; [lra|]. unfold Rdiv. rewrite Rmult_assoc, Rinv_l by lra. lra. }
  lra.
Qed.

(* wrap_ra_diff: one pass of each loop suffices for differences of two longitudes in [0,360) *)
Lemma wrap_once_suffices : forall d, -360 < d < 360 -> -180 <= wrap_ra_diff d <= 180.
Proof.
  intros d H. unfold wrap_ra_diff.
  destruct (Rlt_dec d (-180)); [lra|]. destruct (Rlt_dec 180 d); lra.
Qed.

(* C10 — the property: the FITS-WCS reference computation, written from the papers and NOT from
   the code's formula chain, closeness on the sky, and the boolean checkers that the
   correspondence run evaluates on the implementation's outputs (exact rationals).

   References.
   [P1] Greisen & Calabretta 2002, A&A 395, 1061 (Paper I): pixel -> intermediate world
        coordinates, x_i = sum_j CD_ij (p_j - CRPIX_j).
   [P2] Calabretta & Greisen 2002, A&A 395, 1077 (Paper II): spherical rotation with the Euler
        angles (alpha_p + 90, 90 - delta_p, phi_p - 90) (Sect. 2.3, eqs. 1-2,5); zenithal
        projections phi = arg(-y, x), TAN: R_theta = (180/pi) cot(theta) (eqs. 12-15, 54-55);
        for zenithal projections theta_0 = 90, (alpha_p, delta_p) = CRVAL and LONPOLE defaults
        to 180 when delta_0 < theta_0 ... (Sect. 2.2, 2.5).
   [TPV] The TPV convention (FITS registry, "The TPV World Coordinate System"): after the CD
        matrix, xi = PV1_0 + PV1_1 x + PV1_2 y + PV1_3 r + PV1_4 x^2 + PV1_5 x y + PV1_6 y^2 +
        PV1_7 x^3 + PV1_8 x^2 y + PV1_9 x y^2 + PV1_10 y^3 + PV1_11 r^3 + PV1_12 x^4 + ...;
        eta the same with x and y exchanged; missing PVi_1 default to 1, all others to 0.
   [SIP] Shupe et al. 2005, ASP Conf. 347, 491: u,v = pixel offsets from CRPIX,
        (x, y) = CD (u + f(u,v), v + g(u,v)), f = sum_{p+q <= A_ORDER} A_p_q u^p v^q. *)
From Coq Require Import Reals List Bool Arith QArith Qabs Qminmax.
From EsVerif.Common Require Import Base.
From EsVerif.C10 Require Import Gen Model.
Import ListNotations.
Local Open Scope R_scope.

Definition vec : Type := (R * R * R)%type.
Definition vx (v : vec) : R := fst (fst v).
Definition vy (v : vec) : R := snd (fst v).
Definition vz (v : vec) : R := snd v.

Definition rad (deg : R) : R := deg * PI / 180.

(* direction of the sky position (lon, lat), both in degrees *)
Definition unitvec (lon lat : R) : vec :=
  (cos (rad lat) * cos (rad lon), cos (rad lat) * sin (rad lon), sin (rad lat)).

Definition vdot (u v : vec) : R := vx u * vx v + vy u * vy v + vz u * vz v.
Definition vdist2 (u v : vec) : R := (vx u - vx v) ^ 2 + (vy u - vy v) ^ 2 + (vz u - vz v) ^ 2.

(* two unit vectors are within [tol] degrees of each other on the sky: the chord is at most
   the chord of that angle (Proofs.sky_close_angle: then u.v >= cos tol) *)
Definition sky_close (u v : vec) (tol : R) : Prop := vdist2 u v <= (2 * sin (rad tol / 2)) ^ 2.

(* ---------------------------------------------------------------------------------------- *)
(* [TPV] term order, written out to seventh order                                             *)
(* ---------------------------------------------------------------------------------------- *)
Definition tpv_terms (x y : R) : list R :=
  let r := sqrt (x * x + y * y) in
  [ 1;
    x; y; r;
    x ^ 2; x * y; y ^ 2;
    x ^ 3; x ^ 2 * y; x * y ^ 2; y ^ 3; r ^ 3;
    x ^ 4; x ^ 3 * y; x ^ 2 * y ^ 2; x * y ^ 3; y ^ 4;
    x ^ 5; x ^ 4 * y; x ^ 3 * y ^ 2; x ^ 2 * y ^ 3; x * y ^ 4; y ^ 5; r ^ 5;
    x ^ 6; x ^ 5 * y; x ^ 4 * y ^ 2; x ^ 3 * y ^ 3; x ^ 2 * y ^ 4; x * y ^ 5; y ^ 6;
    x ^ 7; x ^ 6 * y; x ^ 5 * y ^ 2; x ^ 4 * y ^ 3; x ^ 3 * y ^ 4; x ^ 2 * y ^ 5; x * y ^ 6; y ^ 7;
    r ^ 7 ].
(* the monomial that multiplies PV1_k (PV2_k: exchange x and y) *)
Definition tpv_term (k : nat) (x y : R) : R := nth k (tpv_terms x y) 0.

Definition tpv_radial (k : nat) : bool :=
  (Nat.eqb k 3 || Nat.eqb k 11 || Nat.eqb k 23 || Nat.eqb k 39)%nat.
Definition tpv_default (k : nat) : R := if Nat.eqb k 1 then 1 else 0.
Definition tpv_value (pvs : nat -> option R) (k : nat) : R :=
  match pvs k with Some v => v | None => tpv_default k end.

(* the terms the code supports: PVi_k with k < _scamp_max_ncoeff, k not in _scamp_skip *)
Definition tpv_supported : list nat :=
  filter (fun k => negb (existsb (Nat.eqb k) scamp_skip)) (seq 0 scamp_max_ncoeff).

Definition tpv_poly (pvs : nat -> option R) (x y : R) : R :=
  fold_right (fun k acc => tpv_value pvs k * tpv_term k x y + acc) 0 tpv_supported.

(* ---------------------------------------------------------------------------------------- *)
(* [SIP] polynomial: sum over p + q <= order                                                  *)
(* ---------------------------------------------------------------------------------------- *)
Definition sip_value (cs : list ((nat * nat) * R)) (p q : nat) : R :=
  match assoc_nn p q cs with Some v => v | None => 0 end.

Definition sip_poly (order : nat) (cs : list ((nat * nat) * R)) (u v : R) : R :=
  fold_right (fun p acc =>
      fold_right (fun q acc' => sip_value cs p q * u ^ p * v ^ q + acc') 0 (seq 0 (S order - p)) + acc)
    0 (seq 0 (S order)).

(* a SIP header is well formed when it has no coefficient beyond the declared order *)
Definition sip_wellformed (order : nat) (cs : list ((nat * nat) * R)) : Prop :=
  forall p q, (order < p + q)%nat -> assoc_nn p q cs = None.

(* ---------------------------------------------------------------------------------------- *)
(* pixel -> intermediate world coordinates (degrees), per convention                          *)
(* ---------------------------------------------------------------------------------------- *)
Definition fits_intermediate (h : header) (px py : R) : R * R :=
  let u := px - h_crpix1 h in
  let v := py - h_crpix2 h in
  match h_proj h with
  | PTan | PTpv =>
      (* [P1] then [TPV]; a header without PV keys is the identity polynomial, i.e. plain TAN *)
      let x := h_cd11 h * u + h_cd12 h * v in
      let y := h_cd21 h * u + h_cd22 h * v in
      (tpv_poly (fun k => assoc_nat k (h_pv1 h)) x y, tpv_poly (fun k => assoc_nat k (h_pv2 h)) y x)
  | PSip =>
      (* [SIP] then [P1] *)
      let u' := u + sip_poly (h_a_order h) (h_sipa h) u v in
      let v' := v + sip_poly (h_b_order h) (h_sipb h) u v in
      (h_cd11 h * u' + h_cd12 h * v', h_cd21 h * u' + h_cd22 h * v')
  end.

(* ---------------------------------------------------------------------------------------- *)
(* gnomonic deprojection about the reference point                                            *)
(* ---------------------------------------------------------------------------------------- *)
(* The tangent-plane point (xi, eta) [degrees; xi east, eta north] is the point
   c + X e_east + Y e_north of the plane tangent at c = direction of (a0, d0); its direction: *)
Definition fits_sky_vec (a0 d0 xi eta : R) : vec :=
  let X := rad xi in
  let Y := rad eta in
  let n := sqrt (1 + X * X + Y * Y) in
  ((cos (rad d0) * cos (rad a0) - X * sin (rad a0) - Y * sin (rad d0) * cos (rad a0)) / n,
   (cos (rad d0) * sin (rad a0) + X * cos (rad a0) - Y * sin (rad d0) * sin (rad a0)) / n,
   (sin (rad d0) + Y * cos (rad d0)) / n).

Definition fits_pix2sky_vec (h : header) (px py : R) : vec :=
  let xe := fits_intermediate h px py in
  fits_sky_vec (h_crval1 h) (h_crval2 h) (fst xe) (snd xe).

(* the same through [P2]: native direction of the TAN projection and the Euler rotation *)
(* native spherical coordinates of (x, y): phi = arg(-y, x), theta = atan(180 / (pi R_theta));
   their direction cosines (cos theta cos phi, cos theta sin phi, sin theta) are *)
Definition tan_native_vec (x y : R) : vec :=
  let X := rad x in
  let Y := rad y in
  let n := sqrt (1 + X * X + Y * Y) in
  (- Y / n, X / n, 1 / n).

(* passive elementary rotations *)
Definition rot_z (a : R) : mat3 := mk3 (cos a) (sin a) 0 (- sin a) (cos a) 0 0 0 1.
Definition rot_x (a : R) : mat3 := mk3 1 0 0 0 (cos a) (sin a) 0 (- sin a) (cos a).
Definition mmul (a b : mat3) : mat3 :=
  mk3 (m00 a * m00 b + m01 a * m10 b + m02 a * m20 b)
      (m00 a * m01 b + m01 a * m11 b + m02 a * m21 b)
      (m00 a * m02 b + m01 a * m12 b + m02 a * m22 b)
      (m10 a * m00 b + m11 a * m10 b + m12 a * m20 b)
      (m10 a * m01 b + m11 a * m11 b + m12 a * m21 b)
      (m10 a * m02 b + m11 a * m12 b + m12 a * m22 b)
      (m20 a * m00 b + m21 a * m10 b + m22 a * m20 b)
      (m20 a * m01 b + m21 a * m11 b + m22 a * m21 b)
      (m20 a * m02 b + m21 a * m12 b + m22 a * m22 b).
Definition mident : mat3 := mk3 1 0 0 0 1 0 0 0 1.
Definition mapply (a : mat3) (v : vec) : vec :=
  (m00 a * vx v + m01 a * vy v + m02 a * vz v,
   m10 a * vx v + m11 a * vy v + m12 a * vz v,
   m20 a * vx v + m21 a * vy v + m22 a * vz v).

(* [P2] Sect. 2.3: the rotation between the celestial and the native system is fixed by
   (alpha_p, delta_p) = celestial coordinates of the native pole and phi_p = native longitude of
   the celestial pole.  As a Z-X-Z Euler rotation of the celestial direction cosines: about Z by
   alpha_p + 90 (x-axis to the ascending node), about the new X by 90 - delta_p (z-axis to the
   native pole), about the new Z by 90 - phi_p (so that the celestial pole gets native longitude
   phi_p; this is the paper's third angle phi_p - 90 taken in the sense native -> celestial).
   All angles in radians here. *)
Definition euler_cel2nat (alpha_p delta_p phi_p : R) : mat3 :=
  mmul (rot_z (PI / 2 - phi_p)) (mmul (rot_x (PI / 2 - delta_p)) (rot_z (alpha_p + PI / 2))).

(* native -> celestial is the transposed rotation *)
Definition fits_celestial_vec (alpha_p delta_p phi_p : R) (native : vec) : vec :=
  mapply (transpose (euler_cel2nat alpha_p delta_p phi_p)) native.

(* [P2] eq. (2) in direction-cosine form: for native (phi, theta) the celestial (alpha, delta) obey
     cos delta cos (alpha - alpha_p) = sin theta cos delta_p - cos theta sin delta_p cos (phi - phi_p)
     cos delta sin (alpha - alpha_p) = - cos theta sin (phi - phi_p)
     sin delta                       = sin theta sin delta_p + cos theta cos delta_p cos (phi - phi_p)
   i.e. the celestial direction is this vector turned by alpha_p about the pole *)
Definition paper_eq2_vec (alpha_p delta_p phi_p phi theta : R) : vec :=
  let A := sin theta * cos delta_p - cos theta * sin delta_p * cos (phi - phi_p) in
  let B := - cos theta * sin (phi - phi_p) in
  let C := sin theta * sin delta_p + cos theta * cos delta_p * cos (phi - phi_p) in
  (A * cos alpha_p - B * sin alpha_p, A * sin alpha_p + B * cos alpha_p, C).

(* a header of the supported class: LONPOLE at its TAN default, SIP coefficients within their
   declared orders *)
Definition supported (h : header) : Prop :=
  h_longpole h = 180 /\
  (h_proj h = PSip -> sip_wellformed (h_a_order h) (h_sipa h) /\ sip_wellformed (h_b_order h) (h_sipb h)).

(* ---------------------------------------------------------------------------------------- *)
(* boolean checkers on exact rationals (the implementation's outputs as dyadic fractions)     *)
(* ---------------------------------------------------------------------------------------- *)
Local Open Scope Q_scope.

(* longitude in [0,360), latitude in [-90,90] *)
Definition range_check (lon lat : Q) : bool :=
  Qle_bool 0 lon && negb (Qle_bool 360 lon) && Qle_bool (-90) lat && Qle_bool lat 90.

Definition qdist2 (x y xb yb : Q) : Q := (xb - x) * (xb - x) + (yb - y) * (yb - y).

(* strictly closer than tol pixels *)
Definition px_close_check (x y xb yb tol : Q) : bool :=
  Qle_bool 0 tol && negb (Qle_bool (tol * tol) (qdist2 x y xb yb)).

Fixpoint qlist_eqb (a b : list Q) : bool :=
  match a, b with
  | [], [] => true
  | x :: s, y :: t => Qeq_bool x y && qlist_eqb s t
  | _, _ => false
  end.

(* | cdinv . cd - 1 | <= tol entrywise *)
Definition cdinv_check (a b c d ia ib ic id tol : Q) : bool :=
  Qle_bool (Qabs (ia * a + ib * c - 1)) tol && Qle_bool (Qabs (ia * b + ib * d)) tol &&
  Qle_bool (Qabs (ic * a + id * c)) tol && Qle_bool (Qabs (ic * b + id * d - 1)) tol.

(* ---------------------------------------------------------------------------------------- *)
(* "the same for scalar and array inputs", to the accuracies the statement names             *)
(* ---------------------------------------------------------------------------------------- *)
(* |a_i - b_i| <= tol, same length *)
Fixpoint qlist_close_abs (a b : list Q) (tol : Q) : bool :=
  match a, b with
  | [], [] => true
  | x :: s, y :: t => Qle_bool (Qabs (x - y)) tol && qlist_close_abs s t tol
  | _, _ => false
  end.

(* a rational above PI/180 = 0.0174532925199... *)
Definition pi180_hi : Q := 17453293 # 1000000000.
(* difference of two longitudes across the seam *)
Definition lon_wrap_abs (d : Q) : Q := Qmin (Qabs d) (Qabs (360 - Qabs d)).
(* cos(lat) <= min 1 ((90 - |lat|) * PI/180): the east-west displacement on the sky that belongs
   to a longitude difference dlon at latitude lat is at most dlon * lon_weight lat *)
Definition lon_weight (lat : Q) : Q := Qmin 1 ((90 - Qabs lat) * pi180_hi).
Definition sky_same_check (lon lat lon' lat' tol : Q) : bool :=
  Qle_bool (Qabs (lat - lat')) tol &&
  Qle_bool (lon_wrap_abs (lon - lon') * lon_weight lat) tol.
Fixpoint sky_list_same (a b : list (Q * Q)) (tol : Q) : bool :=
  match a, b with
  | [], [] => true
  | (l, t) :: s, (l', t') :: s' => sky_same_check l t l' t' tol && sky_list_same s s' tol
  | _, _ => false
  end.

(* C10 -- root finding: what an exact root of the residual handed to fsolve is.  The residual (_lonlatdiff, repaired) is
   taken in the undistorted pixel frame; if it vanishes at xy then xy has the same intermediate world coordinates and
   hence the same sky position as the pixel the target came from, and where the distorted pixel -> intermediate map is
   injective it IS that pixel.  So the only thing the oracle fsolve has to deliver is a zero of the residual. *)
From Coq Require Import Reals List Bool Lra.
From EsVerif.Common Require Import Base.
From EsVerif.C10 Require Import Gen Model Spec Trig Forward Poly.
Import ListNotations.
Local Open Scope R_scope.

Lemma apply_cd_cdinv : forall h x y, cd_det h <> 0 ->
  apply_cd h (fst (apply_cdinv h x y)) (snd (apply_cdinv h x y)) = (x, y).
Proof.
  intros h x y Hd. unfold apply_cdinv, apply_cd. cbn [fst snd]. unfold cd_det in *. f_equal; field; exact Hd.
Qed.

Lemma apply_cdinv_inj : forall h a b c d, cd_det h <> 0 -> apply_cdinv h a b = apply_cdinv h c d -> (a, b) = (c, d).
Proof.
  intros h a b c d Hd E. rewrite <- (apply_cd_cdinv h a b Hd), <- (apply_cd_cdinv h c d Hd). rewrite E. reflexivity.
Qed.

(* the undistorted inverse of the sky position of a pixel: CD^-1 (intermediate coordinates) + CRPIX *)
Lemma nodistort_of_image2sky : forall h x y,
  pix2inter (mk_wcs h) x y true <> (0, 0) ->
  let ll := image2sky (mk_wcs h) x y true in
  let i := pix2inter (mk_wcs h) x y true in
  sky2image_nodistort (mk_wcs h) (fst ll) (snd ll) =
  (fst (apply_cdinv h (fst i) (snd i)) + h_crpix1 h, snd (apply_cdinv h (fst i) (snd i)) + h_crpix2 h).
Proof.
  intros h x y Hne. cbv zeta. unfold image2sky, sky2image_nodistort.
  set (i := pix2inter (mk_wcs h) x y true) in *.
  rewrite (sph2image_image2sph (mk_wcs h) (fst i) (snd i) (mk_wcs_orthogonal h)).
  2:{ destruct i; exact Hne. }
  cbn [w_hdr mk_wcs fst snd]. destruct (h_proj h); reflexivity.
Qed.

Lemma root_has_same_intermediate : forall h px py x y,
  cd_det h <> 0 ->
  pix2inter (mk_wcs h) px py true <> (0, 0) -> pix2inter (mk_wcs h) x y true <> (0, 0) ->
  let w := mk_wcs h in
  let ll := image2sky w px py true in
  let target := sky2image_nodistort w (fst ll) (snd ll) in
  lonlatdiff w target (x, y) = (0, 0) ->
  pix2inter w x y true = pix2inter w px py true /\ image2sky w x y true = image2sky w px py true.
Proof.
  intros h px py x y Hd Hp Hx w ll target Hz.
  assert (E : pix2inter w x y true = pix2inter w px py true).
  { unfold lonlatdiff in Hz. cbn [fst snd] in Hz.
    unfold target, ll, w in Hz.
    rewrite (nodistort_of_image2sky h x y Hx), (nodistort_of_image2sky h px py Hp) in Hz. cbn [fst snd] in Hz.
    apply pair_equal_spec in Hz. destruct Hz as [H1 H2].
    set (a := pix2inter (mk_wcs h) x y true) in *. set (b := pix2inter (mk_wcs h) px py true) in *.
    assert (Ei : apply_cdinv h (fst a) (snd a) = apply_cdinv h (fst b) (snd b)).
    { rewrite (surjective_pairing (apply_cdinv h (fst a) (snd a))), (surjective_pairing (apply_cdinv h (fst b) (snd b))).
      f_equal; lra. }
    apply (apply_cdinv_inj h _ _ _ _ Hd) in Ei. change (a = b).
    rewrite (surjective_pairing a), (surjective_pairing b). exact Ei. }
  split; [exact E|]. unfold image2sky. rewrite E. reflexivity.
Qed.

(* on the level of the object's operation: sky2image(find=True) on a distorted header returns what fsolve returns for
   the residual [lonlatdiff w target]; if that is a zero of the residual, it has the requested sky position, and it is
   the original pixel wherever pixel -> intermediate coordinates is injective *)
Lemma find_returns_the_pixel : forall fit fsolve h s px py distort xtol,
  has_dist (mk_wcs h) = true -> cd_det h <> 0 ->
  let w := mk_wcs h in
  let ll := image2sky w px py true in
  let r := snd (sky2image fit fsolve w s (fst ll) (snd ll) distort true xtol) in
  let target := sky2image_nodistort w (fst ll) (snd ll) in
  pix2inter w px py true <> (0, 0) -> pix2inter w (fst r) (snd r) true <> (0, 0) ->
  lonlatdiff w target r = (0, 0) ->
  image2sky w (fst r) (snd r) true = ll /\
  ((forall q, pix2inter w (fst q) (snd q) true = pix2inter w px py true -> q = (px, py)) -> r = (px, py)).
Proof.
  intros fit fsolve h s px py distort xtol Hdist Hd w ll r target Hp Hr Hz.
  destruct (root_has_same_intermediate h px py (fst r) (snd r) Hd Hp Hr) as [E1 E2].
  { fold w ll target. rewrite <- surjective_pairing. exact Hz. }
  split; [exact E2|]. intros Hinj. apply Hinj. exact E1.
Qed.

(* the result of sky2image(find=True) IS fsolve applied to that residual from the undistorted start value *)
Lemma find_is_fsolve_of_residual : forall fit fsolve h s lon lat distort xtol,
  has_dist (mk_wcs h) = true ->
  let w := mk_wcs h in
  snd (sky2image fit fsolve w s lon lat distort true xtol) =
  fsolve (lonlatdiff w (sky2image_nodistort w lon lat)) (sky2image_nodistort w lon lat) xtol.
Proof.
  intros fit fsolve h s lon lat distort xtol Hdist w. unfold sky2image. subst w. rewrite Hdist. cbn [andb].
  reflexivity.
Qed.

(* non-vacuity of the root hypothesis: the pixel itself is a zero of its own residual *)
Lemma residual_zero_at_the_pixel : forall w px py,
  let ll := image2sky w px py true in
  lonlatdiff w (sky2image_nodistort w (fst ll) (snd ll)) (px, py) = (0, 0).
Proof. intros. unfold lonlatdiff. cbn [fst snd]. apply pair_equal_spec. split; apply Rminus_diag_eq; reflexivity. Qed.

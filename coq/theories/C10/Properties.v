(* C10 — property theorems only.  Bodies live in Trig.v / Forward.v / Poly.v / History.v / Proofs.v.
   All statements are over Coq's real numbers (style R); the gap to the IEEE evaluation of the
   same formulas is measured per sampled case by kernel-checked interval certificates. *)
From Coq Require Import Reals List Bool QArith Lra String.
From EsVerif.Common Require Import Base.
From EsVerif.C10 Require Import Gen Model Spec Trig Forward Poly History Proofs Source Inverse SkySame Lonpole Root History2 Complete Construct TwoSided Jac.
Import ListNotations.
Local Open Scope R_scope.

(* The nine entries of CreateRotationMatrix: the matrix (applied by the code as native ->
   celestial) is the transpose of the Z-X-Z Euler rotation celestial -> native of Calabretta &
   Greisen 2002 Sect. 2.3 for (alpha_p, delta_p, phi_p); it is orthogonal. *)
Theorem C10_rotmat_is_euler : forall alpha_p delta_p longpole,
  transpose (rotation_matrix alpha_p delta_p longpole) = euler_cel2nat alpha_p delta_p (longpole * d2r)
  /\ mmul (rotation_matrix alpha_p delta_p longpole) (transpose (rotation_matrix alpha_p delta_p longpole)) = mident
  /\ mmul (transpose (rotation_matrix alpha_p delta_p longpole)) (rotation_matrix alpha_p delta_p longpole) = mident.
Proof. intros. split; [apply rotmat_is_euler_lemma|apply rotmat_orthogonal]. Qed.

(* ... and, equivalently, it realises eq. (2) of that paper in direction-cosine form for every
   native (phi, theta). *)
Theorem C10_rotation_is_paper_eq2 : forall alpha_p delta_p longpole phi theta,
  mapply (rotation_matrix alpha_p delta_p longpole) (vec_of phi theta)
  = paper_eq2_vec alpha_p delta_p (longpole * d2r) phi theta.
Proof. exact rotation_is_paper_eq2_lemma. Qed.

(* The regenerated _scamp_map: what ExtractPVCoeffs + Apply2DPolynomial evaluate is the TPV
   polynomial (TPV term order and defaults, written independently in Spec.v) over the supported
   terms, which are exactly the non-radial terms up to _scamp_max_order; no scanned key lacks a
   table entry.  Re-proved whenever Gen.v changes. *)
Theorem C10_tpv_table_correct :
  (forall look x y,
     poly2d (pv_matrix scamp_map1 look) x y = tpv_poly look x y /\
     poly2d (pv_matrix scamp_map2 look) x y = tpv_poly look y x)
  /\ tpv_supported = filter (fun k => negb (tpv_radial k)) (seq 0 (tpv_terms_of_order scamp_max_order - 1))
  /\ scanned_ks = tpv_supported
  /\ forallb (fun k => is_some (assoc_nat k scamp_map1) && is_some (assoc_nat k scamp_map2)) scanned_ks = true.
Proof.
  split; [exact tpv_table_correct_lemma|]. split; [apply tpv_supported_are_the_polynomial_terms|].
  split; [apply tpv_supported_are_the_polynomial_terms|exact scamp_tables_total].
Qed.

(* SIP: the (order+1)^2 coefficient matrix of the code sums exactly the SIP terms p + q <= order. *)
Theorem C10_sip_order : forall order cs u v, sip_wellformed order cs ->
  poly2d (sip_matrix order cs) u v = sip_poly order cs u v.
Proof. exact sip_order_lemma. Qed.

(* Composition order of both conventions: pixel -> intermediate world coordinates of the model
   equal the conventions' (TPV: polynomial after the CD matrix; SIP: polynomial added to the
   pixel offsets before the CD matrix; no coefficients: plain CD matrix). *)
Theorem C10_intermediate_matches_conventions : forall h x y, supported h ->
  pix2inter (mk_wcs h) x y true = fits_intermediate h x y.
Proof. exact pix2inter_matches_fits. Qed.

(* Forward chain: for every supported header (TAN, TPV, SIP; LONPOLE = 180, theta_0 = 90), every
   CRVAL including the poles and the seam, and every pixel, the direction of image2sky's result is
   the FITS reference direction: gnomonic deprojection about the reference point of the
   convention's intermediate coordinates. *)
Theorem C10_forward_matches_fits : forall h x y, supported h ->
  let ll := image2sky (mk_wcs h) x y true in
  unitvec (fst ll) (snd ll) = fits_pix2sky_vec h x y.
Proof. exact forward_matches_fits_lemma. Qed.

(* distort=False: the same header read as a plain tangent-plane header *)
Theorem C10_forward_nodistort : forall h x y, h_longpole h = 180 ->
  let ll := image2sky (mk_wcs h) x y false in
  let xe := apply_cd h (x - h_crpix1 h) (y - h_crpix2 h) in
  unitvec (fst ll) (snd ll) = fits_sky_vec (h_crval1 h) (h_crval2 h) (fst xe) (snd xe).
Proof. exact forward_nodistort_lemma. Qed.

(* The reference direction used above is the one of the papers: Euler rotation with
   (alpha_p, delta_p, phi_p) = (CRVAL1, CRVAL2, 180 deg) of the TAN native direction; it is a unit
   vector. *)
Theorem C10_gnomonic_is_paper_chain : forall a0 d0 xi eta,
  fits_sky_vec a0 d0 xi eta = fits_celestial_vec (rad a0) (rad d0) PI (tan_native_vec xi eta)
  /\ vdot (fits_sky_vec a0 d0 xi eta) (fits_sky_vec a0 d0 xi eta) = 1.
Proof. intros. split; [apply gnomonic_is_paper_chain_lemma|apply fits_sky_vec_unit]. Qed.

(* Longitudes returned by image2sky are in [0,360) for every header, pixel and flag. *)
Theorem C10_lon_range : forall h x y d, 0 <= fst (image2sky (mk_wcs h) x y d) < 360.
Proof. exact lon_range_lemma. Qed.

(* The reference pixel maps to the reference sky position, longitude in [0,360), whenever the
   convention gives it the intermediate coordinates (0,0) — always for a header without
   constant distortion terms (PV1_0, PV2_0 / A_0_0, B_0_0 absent). *)
Theorem C10_crpix_maps_to_crval : forall h, supported h ->
  fits_intermediate h (h_crpix1 h) (h_crpix2 h) = (0, 0) ->
  let ll := image2sky (mk_wcs h) (h_crpix1 h) (h_crpix2 h) true in
  unitvec (fst ll) (snd ll) = unitvec (h_crval1 h) (h_crval2 h) /\ 0 <= fst ll < 360.
Proof. exact crpix_maps_to_crval_lemma. Qed.

Theorem C10_crpix_condition :
  (forall h, h_proj h <> PSip -> assoc_nat 0%nat (h_pv1 h) = None -> assoc_nat 0%nat (h_pv2 h) = None ->
     fits_intermediate h (h_crpix1 h) (h_crpix2 h) = (0, 0))
  /\ (forall h, h_proj h = PSip -> assoc_nn 0 0 (h_sipa h) = None -> assoc_nn 0 0 (h_sipb h) = None ->
     fits_intermediate h (h_crpix1 h) (h_crpix2 h) = (0, 0)).
Proof. split; [exact crpix_intermediate_tan|exact crpix_intermediate_sip]. Qed.

(* Inverse without distortion: det CD <> 0 -> sky2image (image2sky p) = p, on the level of the
   operations of the object (any state, any oracles); the reference pixel itself is excluded
   because there the code's formula r2d / tan(pi/2) has no value over the reals. *)
Theorem C10_tan_inverse : forall fit fsolve h s x y xtol,
  cd_det h <> 0 -> (x, y) <> (h_crpix1 h, h_crpix2 h) ->
  let ll := image2sky (mk_wcs h) x y false in
  snd (sky2image fit fsolve (mk_wcs h) s (fst ll) (snd ll) false false xtol) = (x, y).
Proof. exact tan_inverse_op_lemma. Qed.

(* ... and for a header without distortion model whatever the flags are *)
Theorem C10_tan_inverse_plain_header : forall fit fsolve h s x y distort distort' find xtol,
  has_dist (mk_wcs h) = false ->
  cd_det h <> 0 -> (x, y) <> (h_crpix1 h, h_crpix2 h) ->
  let ll := image2sky (mk_wcs h) x y distort in
  snd (sky2image fit fsolve (mk_wcs h) s (fst ll) (snd ll) distort' find xtol) = (x, y).
Proof. exact tan_inverse_plain_header_lemma. Qed.

(* History independence: for every inverse-fit routine and every root finder (functions of
   their arguments), the output of an operation after any history equals the output after any
   other history, in particular on a fresh object; the lazily fitted inverse coefficients are a
   function of the header only. *)
Theorem C10_history_independent : forall fit fsolve w h1 h2 o,
  last_out fit fsolve w h1 o = last_out fit fsolve w h2 o.
Proof. exact history_independent_lemma. Qed.

Theorem C10_history_vs_fresh : forall fit fsolve w h o,
  last_out fit fsolve w h o = snd (step fit fsolve w (init_state w) o).
Proof. exact history_vs_fresh_lemma. Qed.

Theorem C10_inverse_fit_function_of_header : forall fit fsolve w h,
  let s := fst (run fit fsolve w (init_state w) h) in
  s_inv_computed s = true -> (s_ap s, s_bp s) = fit (w_hdr w).
Proof. exact inverse_coeffs_function_of_header. Qed.

(* wrap_ra_diff: one pass of its loops suffices for differences of longitudes in [0,360) *)
Theorem C10_wrap_once_suffices : forall d, -360 < d < 360 -> -180 <= wrap_ra_diff d <= 180.
Proof. exact wrap_once_suffices. Qed.

(* What a per-case certificate `sky_close u v tol` means: the angle between the unit vectors is
   at most tol degrees. *)
Theorem C10_sky_close_angle : forall u v tol, vdot u u = 1 -> vdot v v = 1 -> sky_close u v tol ->
  cos (rad tol) <= vdot u v.
Proof. exact sky_close_angle_lemma. Qed.

(* Checker soundness: what the correspondence run evaluates on the implementation's outputs. *)
Theorem C10_checkers_sound :
  (forall lon lat, range_check lon lat = true -> (0 <= lon /\ lon < 360 /\ -90 <= lat /\ lat <= 90)%Q)
  /\ (forall x y xb yb tol, px_close_check x y xb yb tol = true -> (0 <= tol /\ qdist2 x y xb yb < tol * tol)%Q)
  /\ (forall a b, qlist_eqb a b = true -> Forall2 Qeq a b)
  /\ (forall a b c d ia ib ic id tol, cdinv_check a b c d ia ib ic id tol = true ->
        (Qabs.Qabs (ia * a + ib * c - 1) <= tol /\ Qabs.Qabs (ia * b + ib * d) <= tol /\
         Qabs.Qabs (ic * a + id * c) <= tol /\ Qabs.Qabs (ic * b + id * d - 1) <= tol)%Q).
Proof.
  split; [exact range_check_sound|]. split; [exact px_close_check_sound|].
  split; [exact qlist_eqb_sound|exact cdinv_check_sound].
Qed.

(* ... and the closeness checkers used for "scalar calls = array calls" (pixels and jacobian
   entries absolutely; sky positions: latitude, and longitude across the seam weighted by an upper
   bound of cos(lat)). *)
Theorem C10_same_checkers_sound :
  (forall a b tol, qlist_close_abs a b tol = true -> Forall2 (fun x y => (Qabs.Qabs (x - y) <= tol)%Q) a b)
  /\ (forall a b tol, sky_list_same a b tol = true ->
        Forall2 (fun p q => (Qabs.Qabs (snd p - snd q) <= tol /\ lon_wrap_abs (fst p - fst q) * lon_weight (snd p) <= tol)%Q) a b).
Proof. split; [exact qlist_close_abs_sound|exact sky_list_same_sound]. Qed.

(* Inverse WITHOUT root finding on a distorted header: for every fit routine, the round-trip error
   of sky2image(find=False) o image2sky is exactly the residual of the fitted inverse polynomial the
   object holds (TPV: CD^-1 (P_inv (P_fwd (CD d)) - CD d); SIP: P_inv (d + f(d)) - d), i.e. the
   inverse chain itself adds nothing: "to the fitted-polynomial accuracy".  The point whose
   intermediate coordinates are (0,0) is excluded as in C10_tan_inverse. *)
Theorem C10_fit_roundtrip : forall fit fsolve h s x y xtol,
  has_dist (mk_wcs h) = true -> cd_det h <> 0 ->
  pix2inter (mk_wcs h) x y true <> (0, 0) ->
  let w := mk_wcs h in
  let ll := image2sky w x y true in
  let ab := inv_coeffs fit w s in
  snd (sky2image fit fsolve w s (fst ll) (snd ll) true false xtol) =
  (x + fst (fit_residual w (fst ab) (snd ab) x y), y + snd (fit_residual w (fst ab) (snd ab) x y)).
Proof. exact fit_roundtrip_lemma. Qed.

Theorem C10_fit_roundtrip_exact : forall fit fsolve h s x y xtol,
  has_dist (mk_wcs h) = true -> cd_det h <> 0 ->
  pix2inter (mk_wcs h) x y true <> (0, 0) ->
  let w := mk_wcs h in
  let ab := inv_coeffs fit w s in
  fit_residual w (fst ab) (snd ab) x y = (0, 0) ->
  let ll := image2sky w x y true in
  snd (sky2image fit fsolve w s (fst ll) (snd ll) true false xtol) = (x, y).
Proof. exact fit_roundtrip_exact. Qed.

(* Tie to the source: the model's rotation matrix, _rotate, CD-matrix application, the formulas of
   image2sph / sph2image and the jacobian are, expression for expression, what c10_translate.py
   translated from esutil/wcsutil.py into Gen.v (the src_ definitions) for the tree under check. *)
Theorem C10_model_is_source :
  (src_d2r = d2r /\ src_r2d = r2d)
  /\ (forall alpha_p delta_p longpole,
        mat3_rows (rotation_matrix alpha_p delta_p longpole) = src_rotation_matrix alpha_p delta_p longpole)
  /\ (forall longitude latitude r,
        rotate_ longitude latitude r =
        src_rotate atan2 Rclip (m00 r) (m01 r) (m02 r) (m10 r) (m11 r) (m12 r) (m20 r) (m21 r) (m22 r) longitude latitude)
  /\ (forall h x y, apply_cd h x y = src_apply_cd (h_cd11 h) (h_cd12 h) (h_cd21 h) (h_cd22 h) x y)
  /\ (forall h x y, apply_cdinv h x y =
        src_apply_cdinv (h_cd22 h / cd_det h) (- h_cd12 h / cd_det h) (- h_cd21 h / cd_det h) (h_cd11 h / cd_det h) x y)
  /\ (forall w x y, image2sph w x y =
        let r := src_image2sph_r x y in
        let latitude := if Rlt_dec 0 r then src_image2sph_lat r else src_image2sph_lat_pole in
        let ll := Rotate w (src_image2sph_lon atan2 x y * src_r2d) (latitude * src_r2d) true in
        (fold360 (fst ll), snd ll))
  /\ (forall w longitude latitude, sph2image w longitude latitude =
        let ll := Rotate w longitude latitude false in
        let lo := fst ll * src_d2r in
        let la := snd ll * src_d2r in
        if Rlt_dec 0 la then src_sph2image lo la else (0, 0))
  /\ (forall c p0 m0 zp zm step, jac_of c p0 m0 zp zm step =
        src_jacobian wrap_ra_diff step (fst c) (snd c) (fst p0) (snd p0) (fst m0) (snd m0) (fst zp) (snd zp) (fst zm) (snd zm)).
Proof.
  split; [exact src_constants|]. split; [exact rotation_matrix_is_source|]. split; [exact rotate_is_source|].
  split; [exact apply_cd_is_source|]. split; [exact apply_cdinv_is_source|]. split; [exact image2sph_is_source|].
  split; [exact sph2image_is_source|exact jacobian_is_source].
Qed.

(* ... and so is the control flow of image2sky and of sky2image(find=False): per projection, which of
   CD matrix and distortion polynomial is applied first and what the distortion switch does (the
   translator refuses a tree in which (u, v) can be read before it is assigned). *)
Theorem C10_control_flow_is_source :
  (forall w x y distort,
     pix2inter w x y distort =
     src_pix2inter (apply_cd (w_hdr w)) (distort_with (d_name (w_dist w)) (d_a (w_dist w)) (d_b (w_dist w)))
                   (distort && has_dist w) (is_sip (h_proj (w_hdr w))) x y (h_crpix1 (w_hdr w)) (h_crpix2 (w_hdr w)))
  /\ (forall fit w s lon lat distort,
     snd (sky2image_direct fit w s lon lat distort) =
     let uv := sph2image w lon lat in
     src_inter2pix (apply_cdinv (w_hdr w)) (fun a b => snd (distort_inverse fit w s a b))
                   (distort && has_dist w) (is_sip (h_proj (w_hdr w))) (fst uv) (snd uv)
                   (h_crpix1 (w_hdr w)) (h_crpix2 (w_hdr w))).
Proof. split; [exact pix2inter_is_source|exact sky2image_direct_is_source]. Qed.

(* ... and the domain of the lazy inverse fit ("over the whole image"): the grid ranges that
   InvertPVDistortion / InvertSipDistortion hand to make_xy_grid are the image rectangle, axis by
   axis (a swapped naxis or crpix index in the source breaks this theorem). *)
Theorem C10_fit_grid_is_image : forall h,
  src_pv_fit_ranges (h_naxis1 h) (h_naxis2 h) (h_crpix1 h) (h_crpix2 h) = image_rect_offsets h /\
  src_sip_fit_ranges (h_naxis1 h) (h_naxis2 h) (h_crpix1 h) (h_crpix2 h) = image_rect h.
Proof. exact fit_ranges_are_the_image. Qed.

(* Meaning of the rational checker used for "scalar calls = array calls" and for the input forms: the chord
   between two sky positions is 4 sin^2(dlat/2) + 4 cos lat cos lat' sin^2(dlon/2) exactly, and two positions
   that pass range_check and sky_same_check with tolerance tol (degrees) are closer than sqrt (2 + PI) tol on the
   sky -- across the RA = 0 seam and however close to a pole. *)
Theorem C10_sky_chord_identity : forall l t l' t',
  vdist2 (unitvec l t) (unitvec l' t') =
  4 * (sin (rad (t - t') / 2)) ^ 2 + 4 * cos (rad t) * cos (rad t') * (sin (rad (l - l') / 2)) ^ 2.
Proof. exact sky_chord_identity. Qed.

Theorem C10_sky_same_meaning : forall lon lat lon' lat' tol : Q,
  range_check lon lat = true -> range_check lon' lat' = true ->
  sky_same_check lon lat lon' lat' tol = true ->
  vdist2 (unitvec (Q2R lon) (Q2R lat)) (unitvec (Q2R lon') (Q2R lat')) <= (2 + PI) * (rad (Q2R tol)) ^ 2.
Proof. exact sky_same_check_meaning. Qed.

(* ... and the start values of Distort per convention (TPV: the polynomial alone; SIP: a correction added to
   the input), translated from the source. *)
Theorem C10_distort_is_source : forall a b x y,
  distort_with DScamp a b x y = src_distort true (poly2d a x y) (poly2d b x y) x y /\
  distort_with DSip a b x y = src_distort false (poly2d a x y) (poly2d b x y) x y.
Proof. exact distort_is_source. Qed.

(* ... and root finding: the residual of _lonlatdiff and the use _findxy_one / _fsolve_xy make of fsolve (start value
   = target = undistorted inverse, result returned unchanged), translated from the source; an added branch or
   fallback in _fsolve_xy / _findxy_one / _findxy is refused by the translator. *)
Theorem C10_rootfinder_is_source :
  (forall w target xy,
     lonlatdiff w target xy = src_lonlatdiff (fun x y => image2sky w x y true) (sky2image_nodistort w) target xy)
  /\ (forall fsolve w s lon lat xtol,
     snd (findxy_one fsolve w s lon lat xtol) =
     src_findxy_one (sky2image_nodistort w) fsolve (lonlatdiff w) lon lat xtol).
Proof. split; [exact lonlatdiff_is_source|exact findxy_one_is_source]. Qed.

(* ---------------------------------------------------------------------------------------- *)
(* proof-deepening round                                                                      *)
(* ---------------------------------------------------------------------------------------- *)
(* LONPOLE other than 180 (theta_0 = 90, the TAN case): the forward chain is the paper's Euler rotation
   (alpha_p, delta_p, phi_p) = (CRVAL1, CRVAL2, LONPOLE) of the TAN native direction of the convention's intermediate
   coordinates -- for EVERY LONPOLE; no hypothesis on LONPOLE is left. *)
Theorem C10_forward_matches_fits_any_lonpole : forall h x y, sip_ok h ->
  let ll := image2sky (mk_wcs h) x y true in
  unitvec (fst ll) (snd ll) = fits_pix2sky_vec_lp h x y.
Proof. exact forward_matches_fits_any_longpole. Qed.

Theorem C10_lonpole_180_is_gnomonic : forall h x y, h_longpole h = 180 ->
  fits_pix2sky_vec_lp h x y = fits_pix2sky_vec h x y.
Proof. exact lonpole_180_is_gnomonic. Qed.

Theorem C10_crpix_maps_to_crval_any_lonpole : forall h, sip_ok h ->
  fits_intermediate h (h_crpix1 h) (h_crpix2 h) = (0, 0) ->
  let ll := image2sky (mk_wcs h) (h_crpix1 h) (h_crpix2 h) true in
  unitvec (fst ll) (snd ll) = unitvec (h_crval1 h) (h_crval2 h).
Proof. exact crpix_maps_to_crval_any_longpole. Qed.

(* Root finding: sky2image(find=True) on a distorted header returns fsolve applied to the residual of _lonlatdiff from
   the undistorted start value; a zero of that residual has the intermediate coordinates and the sky position of the
   pixel the sky position came from, and is that pixel wherever pixel -> intermediate coordinates is injective.  The
   oracle fsolve is thereby reduced to "returns a zero of the residual". *)
Theorem C10_find_is_fsolve_of_residual : forall fit fsolve h s lon lat distort xtol,
  has_dist (mk_wcs h) = true ->
  let w := mk_wcs h in
  snd (sky2image fit fsolve w s lon lat distort true xtol) =
  fsolve (lonlatdiff w (sky2image_nodistort w lon lat)) (sky2image_nodistort w lon lat) xtol.
Proof. exact find_is_fsolve_of_residual. Qed.

Theorem C10_root_has_same_intermediate : forall h px py x y,
  cd_det h <> 0 ->
  pix2inter (mk_wcs h) px py true <> (0, 0) -> pix2inter (mk_wcs h) x y true <> (0, 0) ->
  let w := mk_wcs h in
  let ll := image2sky w px py true in
  let target := sky2image_nodistort w (fst ll) (snd ll) in
  lonlatdiff w target (x, y) = (0, 0) ->
  pix2inter w x y true = pix2inter w px py true /\ image2sky w x y true = image2sky w px py true.
Proof. exact root_has_same_intermediate. Qed.

Theorem C10_find_returns_the_pixel : forall fit fsolve h s px py distort xtol,
  has_dist (mk_wcs h) = true -> cd_det h <> 0 ->
  let w := mk_wcs h in
  let ll := image2sky w px py true in
  let r := snd (sky2image fit fsolve w s (fst ll) (snd ll) distort true xtol) in
  let target := sky2image_nodistort w (fst ll) (snd ll) in
  pix2inter w px py true <> (0, 0) -> pix2inter w (fst r) (snd r) true <> (0, 0) ->
  lonlatdiff w target r = (0, 0) ->
  image2sky w (fst r) (snd r) true = ll /\
  ((forall q, pix2inter w (fst q) (snd q) true = pix2inter w px py true -> q = (px, py)) -> r = (px, py)).
Proof. exact find_returns_the_pixel. Qed.

(* History with the explicit call InvertDistortion() as an operation: outputs (the returned rms included) do not depend
   on the history; frame conditions: which parts of the object's state each operation leaves untouched. *)
Theorem C10_xhistory_independent : forall fit fsolve rms w h1 h2 o,
  xlast_out fit fsolve rms w h1 o = xlast_out fit fsolve rms w h2 o.
Proof. exact xhistory_independent. Qed.

Theorem C10_xhistory_vs_fresh : forall fit fsolve rms w h o,
  xlast_out fit fsolve rms w h o = snd (xstep fit fsolve rms w (init_state w) o).
Proof. exact xhistory_vs_fresh. Qed.

Theorem C10_frame_conditions : forall fit fsolve rms w s,
  (forall x y d stp, fst (xstep fit fsolve rms w s (XCore (OpImage2sky x y d))) = s /\
                     fst (xstep fit fsolve rms w s (XCore (OpJacobian x y d stp))) = s)
  /\ (forall lon lat d f xtol, (d = false /\ f = false) \/ has_dist w = false ->
        fst (xstep fit fsolve rms w s (XCore (OpSky2image lon lat d f xtol))) = s)
  /\ (forall lon lat d xtol, has_dist w = true ->
        let s' := fst (xstep fit fsolve rms w s (XCore (OpSky2image lon lat d true xtol))) in
        s_inv_computed s' = s_inv_computed s /\ s_ap s' = s_ap s /\ s_bp s' = s_bp s)
  /\ (forall lon lat d xtol,
        let s' := fst (xstep fit fsolve rms w s (XCore (OpSky2image lon lat d false xtol))) in
        s_lonlat_answer s' = s_lonlat_answer s /\ s_xyguess s' = s_xyguess s /\ s_xy_answer s' = s_xy_answer s)
  /\ (let s' := fst (xstep fit fsolve rms w s XInvert) in
      s_lonlat_answer s' = s_lonlat_answer s /\ s_xyguess s' = s_xyguess s /\ s_xy_answer s' = s_xy_answer s).
Proof.
  intros. split; [apply forward_ops_frame|]. split; [apply sky2image_plain_frame|].
  split; [apply sky2image_find_frame|]. split; [apply sky2image_direct_frame|apply invert_frame].
Qed.

(* The boolean checkers decide their properties (completeness; soundness is C10_checkers_sound / C10_same_checkers_sound). *)
Theorem C10_checkers_complete :
  (forall lon lat, (0 <= lon /\ lon < 360 /\ -90 <= lat /\ lat <= 90)%Q -> range_check lon lat = true)
  /\ (forall x y xb yb tol, (0 <= tol /\ qdist2 x y xb yb < tol * tol)%Q -> px_close_check x y xb yb tol = true)
  /\ (forall a b, Forall2 Qeq a b -> qlist_eqb a b = true)
  /\ (forall a b tol, Forall2 (fun x y => (Qabs.Qabs (x - y) <= tol)%Q) a b -> qlist_close_abs a b tol = true)
  /\ (forall a b c d ia ib ic id tol,
        (Qabs.Qabs (ia * a + ib * c - 1) <= tol /\ Qabs.Qabs (ia * b + ib * d) <= tol /\
         Qabs.Qabs (ic * a + id * c) <= tol /\ Qabs.Qabs (ic * b + id * d - 1) <= tol)%Q ->
        cdinv_check a b c d ia ib ic id tol = true)
  /\ (forall lon lat lon' lat' tol,
        (Qabs.Qabs (lat - lat') <= tol /\ lon_wrap_abs (lon - lon') * lon_weight lat <= tol)%Q ->
        sky_same_check lon lat lon' lat' tol = true).
Proof.
  split; [exact range_check_complete|]. split; [exact px_close_check_complete|]. split; [exact qlist_eqb_complete|].
  split; [exact qlist_close_abs_complete|]. split; [exact cdinv_check_complete|exact sky_same_check_complete].
Qed.

(* The constructor: exactly which headers WCS(header) accepts (required keys present; projection among the regenerated
   _allowed_projections; CUNIT1 absent or 'deg'; CD keys complete and the matrix regular, or no CD matrix at all; A_ORDER
   and B_ORDER for the SIP family of the regenerated _ap table), that a rejection is a KeyError or a ValueError, that a
   missing required key is reported before any value is judged, and an unsupported projection as ValueError. *)
Theorem C10_constructor_accepts_iff : forall q,
  construct_check q = Ok tt <-> keys_ok q && cd_keys_ok q && values_ok q = true.
Proof. exact construct_accepts_iff. Qed.

Theorem C10_constructor_error_classes :
  (forall q, construct_check q = Ok tt \/ construct_check q = Err EKey \/ construct_check q = Err EValue)
  /\ (forall q, keys_ok q = false -> construct_check q = Err EKey)
  /\ (forall q, keys_ok q = true -> str_in (q_projection q) allowed_projections = false -> construct_check q = Err EValue).
Proof. split; [exact construct_error_class|]. split; [exact construct_keyerror_iff_keys|exact construct_bad_projection]. Qed.

(* The tangent-plane inverse is two-sided: image2sky(distort=False) o sky2image(find=False, distort=False) is the identity
   on directions for every sky position whose native latitude is strictly between 0 and 90 degrees (the visible
   hemisphere without the reference point); every image2sph output away from the reference point is such a position. *)
Theorem C10_tan_forward_of_inverse : forall h lon lat, cd_det h <> 0 ->
  let w := mk_wcs h in
  0 < snd (Rotate w lon lat false) * d2r < PI / 2 ->
  let xy := sky2image_nodistort w lon lat in
  let ll := image2sky w (fst xy) (snd xy) false in
  unitvec (fst ll) (snd ll) = unitvec lon lat.
Proof. exact tan_forward_of_inverse. Qed.

Theorem C10_native_latitude_of_image2sph : forall h x y, (x, y) <> (0, 0) ->
  let w := mk_wcs h in
  let ll := image2sph w x y in
  0 < snd (Rotate w (fst ll) (snd ll) false) * d2r < PI / 2.
Proof. intros h x y H. exact (native_latitude_of_image2sph (mk_wcs h) x y (mk_wcs_orthogonal h) H). Qed.

(* get_jacobian does not see the RA = 0 seam: for true longitude differences in (-180, 180) wrap_ra_diff returns the
   difference whether or not one of the two longitudes was folded by 360, hence the jacobian computed from folded
   longitudes equals the one computed from unfolded longitudes. *)
Theorem C10_wrap_undoes_seam : forall d, -180 < d < 180 ->
  wrap_ra_diff d = d /\ wrap_ra_diff (d + 360) = d /\ wrap_ra_diff (d - 360) = d.
Proof. exact wrap_undoes_seam. Qed.

Theorem C10_jacobian_seam_invariant : forall c p0 m0 zp zm step k1 k2 k3 k4,
  -180 < fst p0 - fst m0 < 180 -> -180 < fst zp - fst zm < 180 ->
  (k1 - k2 = 0 \/ k1 - k2 = 360 \/ k1 - k2 = -360) -> (k3 - k4 = 0 \/ k3 - k4 = 360 \/ k3 - k4 = -360) ->
  jac_of c (fst p0 + k1, snd p0) (fst m0 + k2, snd m0) (fst zp + k3, snd zp) (fst zm + k4, snd zm) step =
  jac_of c p0 m0 zp zm step.
Proof. exact jacobian_seam_invariant. Qed.

Example C10_seam_example : wrap_ra_diff (359 - 1) = -2 /\ wrap_ra_diff (1 - 359) = 2.
Proof. exact seam_example. Qed.

(* Round 6 -- decisions, thresholds and defaults are translated from the source as well: the longitude fold of image2sph
   (comparison operators, thresholds, steps; scalar and array code agree), one pass of wrap_ra_diff's loops, the branch
   conditions r > 0 and latitude > 0, the rule "distortion model iff either axis has coefficients", the default PVi_1 = 1,
   GetPole's zenithal branch and the constructor's default angles (which select that branch). *)
Theorem C10_decisions_are_source :
  (forall lon, fold360 lon = src_fold360 lon)
  /\ (forall d, wrap_ra_diff d = src_wrap_once d)
  /\ (forall w x y, image2sph w x y =
        let r := src_image2sph_r x y in
        let ll := Rotate w (src_image2sph_lon atan2 x y * src_r2d) (src_image2sph_latitude r * src_r2d) true in
        (src_fold360 (fst ll), snd ll))
  /\ (forall w longitude latitude, sph2image w longitude latitude =
        let ll := Rotate w longitude latitude false in src_sph2image_sel (fst ll * src_d2r) (snd ll * src_d2r))
  /\ (forall h,
        (h_proj h <> PSip ->
           (d_name (extract_distortion h) = DNone <->
            src_has_distortion (pv_count (fun k => assoc_nat k (h_pv1 h))) (pv_count (fun k => assoc_nat k (h_pv2 h))) = false))
        /\ (h_proj h = PSip ->
           (d_name (extract_distortion h) = DNone <->
            src_has_distortion (sip_count (h_a_order h) (h_sipa h)) (sip_count (h_b_order h) (h_sipb h)) = false)))
  /\ (forall table, pv_init table =
        let z := zeros (S scamp_max_order) (S scamp_max_order) in
        match assoc_nat src_pv_default_key table with Some (i, j) => mset z i j src_pv_default_value | None => z end)
  /\ (forall h, w_rot (mk_wcs h) =
        rotation_matrix (fst (src_getpole_zenithal (h_crval1 h) (h_crval2 h)))
                        (snd (src_getpole_zenithal (h_crval1 h) (h_crval2 h))) (h_longpole h))
  /\ (src_default_theta0 = src_zenithal_theta0 /\ src_default_longpole = 180 /\ src_default_latpole = 90).
Proof.
  split; [exact fold360_is_source|]. split; [exact wrap_is_source|]. split; [exact image2sph_decisions_are_source|].
  split; [exact sph2image_decisions_are_source|]. split; [exact has_distortion_is_source|].
  split; [exact pv_default_is_source|]. split; [exact getpole_is_source|exact default_angles_are_source].
Qed.

(* Non-vacuity: concrete distorted headers meet the hypotheses used above. *)
Definition ex_header (p : proj) : header :=
  {| h_proj := p; h_crpix1 := 100; h_crpix2 := 200; h_crval1 := 359; h_crval2 := 89;
     h_cd11 := -1 / 10000; h_cd12 := 0; h_cd21 := 0; h_cd22 := 1 / 10000;
     h_naxis1 := 1024; h_naxis2 := 1024; h_longpole := 180;
     h_pv1 := [(4%nat, 1 / 100)]; h_pv2 := [(0%nat, 1 / 1000); (7%nat, 1 / 50)];
     h_a_order := 2; h_b_order := 3;
     h_sipa := [((2%nat, 0%nat), 1 / 1000000)]; h_sipb := [((1%nat, 2%nat), 1 / 1000000000)];
     h_inv_a := []; h_inv_b := [] |}.

Example C10_nonvacuous :
  supported (ex_header PTpv) /\ supported (ex_header PSip)
  /\ has_dist (mk_wcs (ex_header PTpv)) = true /\ has_dist (mk_wcs (ex_header PSip)) = true
  /\ cd_det (ex_header PTpv) <> 0 /\ (0, 0) <> (h_crpix1 (ex_header PTpv), h_crpix2 (ex_header PTpv))
  /\ fits_intermediate (ex_header PSip) 100 200 = (0, 0)
  /\ fst (fits_intermediate (ex_header PTpv) 100 200) = 0 /\ snd (fits_intermediate (ex_header PTpv) 100 200) = 1 / 1000.
Proof.
  assert (Wa : sip_wellformed 2 [((2%nat, 0%nat), 1 / 1000000)]).
  { intros p q H. simpl. destruct p as [|[|[|p]]]; destruct q as [|q]; simpl; try reflexivity; lia. }
  assert (Wb : sip_wellformed 3 [((1%nat, 2%nat), 1 / 1000000000)]).
  { intros p q H. simpl. destruct p as [|[|p]]; destruct q as [|[|[|q]]]; simpl; try reflexivity; lia. }
  split; [split; [reflexivity|intro C; discriminate C]|].
  split; [split; [reflexivity|intros _; split; assumption]|].
  split; [reflexivity|]. split; [reflexivity|].
  split; [unfold cd_det, ex_header; cbn; lra|].
  split; [intro C; inversion C; lra|].
  split; [apply crpix_intermediate_sip; reflexivity|].
  change (fits_intermediate (ex_header PTpv) 100 200)
    with (fits_intermediate (ex_header PTpv) (h_crpix1 (ex_header PTpv)) (h_crpix2 (ex_header PTpv))).
  rewrite (crpix_intermediate_tpv (ex_header PTpv)) by (intro C; discriminate C).
  split; reflexivity.
Qed.

(* Non-vacuity of the proof-deepening theorems: a SIP header with LONPOLE = 90 meets sip_ok; the root hypothesis is met
   by the pixel itself at a point with non-zero intermediate coordinates of a distorted header. *)
Example C10_nonvacuous_deepening :
  sip_ok (with_longpole (ex_header PSip) 90) /\ h_longpole (with_longpole (ex_header PSip) 90) = 90
  /\ has_dist (mk_wcs (ex_header PTpv)) = true /\ cd_det (ex_header PTpv) <> 0
  /\ pix2inter (mk_wcs (ex_header PTpv)) 100 200 true <> (0, 0)
  /\ (let w := mk_wcs (ex_header PTpv) in
      let ll := image2sky w 100 200 true in
      lonlatdiff w (sky2image_nodistort w (fst ll) (snd ll)) (100, 200) = (0, 0)).
Proof.
  destruct C10_nonvacuous as (S1 & S2 & D1 & _ & Hdet & _ & _ & I1 & I2).
  split; [exact (proj2 S2)|]. split; [reflexivity|]. split; [exact D1|]. split; [exact Hdet|].
  split; [|apply residual_zero_at_the_pixel].
  rewrite (pix2inter_matches_fits (ex_header PTpv) 100 200 S1). intro C.
  rewrite C in I2. cbn [snd] in I2. lra.
Qed.

(* Non-vacuity of the constructor theorems: an accepted SIP header, a KeyError and a ValueError instance. *)
Definition ex_raw (proj : String.string) (crpix1 : bool) : raw :=
  {| q_znaxis1 := false; q_znaxis2 := false; q_naxis1 := true; q_naxis2 := true;
     q_crpix1 := crpix1; q_crpix2 := true; q_crval1 := true; q_crval2 := true; q_ctype1 := true; q_ctype2 := true;
     q_projection := proj; q_cunit1 := Some "deg"%string;
     q_cd11 := Some (1 # 10000)%Q; q_cd12 := Some 0%Q; q_cd21 := Some 0%Q; q_cd22 := Some (1 # 10000)%Q;
     q_a_order := true; q_b_order := true |}.
Example C10_constructor_nonvacuous :
  construct_check (ex_raw "-TAN-SIP" true) = Ok tt
  /\ construct_check (ex_raw "-TAN-SIP" false) = Err EKey
  /\ construct_check (ex_raw "-SIN" true) = Err EValue
  /\ is_sip_projection "-TAN-SIP" = true /\ is_sip_projection "-TPV" = false.
Proof. repeat split; vm_compute; reflexivity. Qed.

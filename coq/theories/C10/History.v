(* C10 — the object's state machine: what an operation returns does not depend on the
   operations performed before it. *)
From Coq Require Import Reals List Bool.
From EsVerif.C10 Require Import Gen Model Spec.
Import ListNotations.
Local Open Scope R_scope.

Section History.
  Variable fit : header -> coeffs * coeffs.
  Variable fsolve : (R * R -> R * R) -> R * R -> R -> R * R.

  (* the lazily fitted inverse, once computed, is the fit of the header *)
  Definition coherent (w : wcs) (s : state) : Prop :=
    s_inv_computed s = true -> s_ap s = fst (fit (w_hdr w)) /\ s_bp s = snd (fit (w_hdr w)).

  Lemma init_coherent : forall w, coherent w (init_state w).
  Proof. intros w H. discriminate H. Qed.

  Lemma ensure_inverse_coeffs : forall w s, coherent w s ->
    s_ap (ensure_inverse fit w s) = fst (fit (w_hdr w)) /\ s_bp (ensure_inverse fit w s) = snd (fit (w_hdr w)).
  Proof.
    intros w s Hc. unfold ensure_inverse. destruct (s_inv_computed s) eqn:E.
    - apply Hc. exact E.
    - split; reflexivity.
  Qed.

  Lemma ensure_inverse_coherent : forall w s, coherent w s -> coherent w (ensure_inverse fit w s).
  Proof. intros w s Hc _. apply ensure_inverse_coeffs. exact Hc. Qed.

  Lemma distort_inverse_out : forall w s1 s2 x y, coherent w s1 -> coherent w s2 ->
    snd (distort_inverse fit w s1 x y) = snd (distort_inverse fit w s2 x y).
  Proof.
    intros w s1 s2 x y H1 H2. unfold distort_inverse. cbn [snd].
    destruct (ensure_inverse_coeffs w s1 H1) as [A1 B1]. destruct (ensure_inverse_coeffs w s2 H2) as [A2 B2].
    rewrite A1, B1, A2, B2. reflexivity.
  Qed.

  Lemma distort_inverse_coherent : forall w s x y, coherent w s -> coherent w (fst (distort_inverse fit w s x y)).
  Proof. intros. unfold distort_inverse. cbn [fst]. apply ensure_inverse_coherent. assumption. Qed.

  Lemma sky2image_direct_out : forall w s1 s2 lon lat distort, coherent w s1 -> coherent w s2 ->
    snd (sky2image_direct fit w s1 lon lat distort) = snd (sky2image_direct fit w s2 lon lat distort).
  Proof.
    intros w s1 s2 lon lat distort H1 H2. unfold sky2image_direct.
    destruct (h_proj (w_hdr w)); destruct (distort && has_dist w); cbn [fst snd]; try reflexivity;
      rewrite (distort_inverse_out w s1 s2 _ _ H1 H2); reflexivity.
  Qed.

  Lemma sky2image_direct_coherent : forall w s lon lat distort, coherent w s ->
    coherent w (fst (sky2image_direct fit w s lon lat distort)).
  Proof.
    intros w s lon lat distort H. unfold sky2image_direct.
    destruct (h_proj (w_hdr w)); destruct (distort && has_dist w); cbn [fst snd]; try exact H;
      apply distort_inverse_coherent; exact H.
  Qed.

  (* the root finder reads only scratch values that it has just written *)
  Lemma findxy_one_out : forall w s1 s2 lon lat xtol,
    snd (findxy_one fsolve w s1 lon lat xtol) = snd (findxy_one fsolve w s2 lon lat xtol).
  Proof. intros. unfold findxy_one. cbn [snd s_xyguess s_xy_answer]. reflexivity. Qed.

  Lemma findxy_one_coherent : forall w s lon lat xtol, coherent w s ->
    coherent w (fst (findxy_one fsolve w s lon lat xtol)).
  Proof. intros w s lon lat xtol H. unfold findxy_one, coherent. cbn [fst s_inv_computed s_ap s_bp]. exact H. Qed.

  Lemma step_out : forall w s1 s2 o, coherent w s1 -> coherent w s2 ->
    snd (step fit fsolve w s1 o) = snd (step fit fsolve w s2 o).
  Proof.
    intros w s1 s2 o H1 H2. destruct o as [x y d|lon lat d f xtol|x y d stp]; cbn [step snd]; try reflexivity.
    f_equal. unfold sky2image. destruct (f && has_dist w).
    - apply findxy_one_out.
    - apply sky2image_direct_out; assumption.
  Qed.

  Lemma step_coherent : forall w s o, coherent w s -> coherent w (fst (step fit fsolve w s o)).
  Proof.
    intros w s o H. destruct o as [x y d|lon lat d f xtol|x y d stp]; cbn [step fst]; try exact H.
    unfold sky2image. destruct (f && has_dist w).
    - apply findxy_one_coherent. exact H.
    - apply sky2image_direct_coherent. exact H.
  Qed.

  Lemma run_coherent : forall w ops s, coherent w s -> coherent w (fst (run fit fsolve w s ops)).
  Proof.
    intros w ops. induction ops as [|o t IH]; intros s H; cbn [run fst]; [exact H|].
    apply IH. apply step_coherent. exact H.
  Qed.

  (* outputs of an operation do not depend on the history *)
  Lemma history_independent_lemma : forall w h1 h2 o,
    last_out fit fsolve w h1 o = last_out fit fsolve w h2 o.
  Proof.
    intros w h1 h2 o. unfold last_out.
    apply step_out; apply run_coherent; apply init_coherent.
  Qed.

  (* in particular they equal what a fresh object returns *)
  Lemma history_vs_fresh_lemma : forall w h o,
    last_out fit fsolve w h o = snd (step fit fsolve w (init_state w) o).
  Proof. intros w h o. apply (history_independent_lemma w h [] o). Qed.

  (* the inverse coefficients an object ends up with are a function of the header only:
     either still the header's own (never used for an output) or the fit *)
  Lemma inverse_coeffs_function_of_header : forall w h,
    let s := fst (run fit fsolve w (init_state w) h) in
    s_inv_computed s = true -> (s_ap s, s_bp s) = fit (w_hdr w).
  Proof.
    intros w h s E. pose proof (run_coherent w h (init_state w) (init_coherent w)) as Hc.
    destruct (Hc E) as [A B]. fold s in A, B. rewrite A, B. destruct (fit (w_hdr w)); reflexivity.
  Qed.

  (* operations that do not use the inverse polynomial are pure *)
  Lemma forward_ops_pure : forall w s x y d stp,
    fst (step fit fsolve w s (OpImage2sky x y d)) = s /\ fst (step fit fsolve w s (OpJacobian x y d stp)) = s.
  Proof. intros. split; reflexivity. Qed.
End History.

(* C10 — the hand-written model (Model.v) coincides with the straight-line arithmetic that
   harness/props/c10_translate.py translates from esutil/wcsutil.py on every run (Gen.v, the src_ definitions):
   CreateRotationMatrix, _rotate, ApplyCDMatrix, the formulas of image2sph and sph2image,
   get_jacobian, r2d/d2r.  A changed sign, index, operand or constant in one of those methods
   changes Gen.v and these lemmas no longer hold.  Control flow (r > 0, latitude > 0, the
   longitude fold, the distortion switch) stays hand-modelled. *)
From Coq Require Import Reals List Bool Lra.
From EsVerif.C10 Require Import Gen Model.
Import ListNotations.
Local Open Scope R_scope.

Definition mat3_rows (r : mat3) : list (list R) :=
  [[m00 r; m01 r; m02 r]; [m10 r; m11 r; m12 r]; [m20 r; m21 r; m22 r]].

Lemma src_constants : src_d2r = d2r /\ src_r2d = r2d.
Proof. split; reflexivity. Qed.

Lemma rotation_matrix_is_source : forall alpha_p delta_p longpole,
  mat3_rows (rotation_matrix alpha_p delta_p longpole) = src_rotation_matrix alpha_p delta_p longpole.
Proof. intros. reflexivity. Qed.

Lemma rotate_is_source : forall longitude latitude r,
  rotate_ longitude latitude r =
  src_rotate atan2 Rclip (m00 r) (m01 r) (m02 r) (m10 r) (m11 r) (m12 r) (m20 r) (m21 r) (m22 r) longitude latitude.
Proof. intros. reflexivity. Qed.

Lemma apply_cd_is_source : forall h x y,
  apply_cd h x y = src_apply_cd (h_cd11 h) (h_cd12 h) (h_cd21 h) (h_cd22 h) x y.
Proof. intros. reflexivity. Qed.

(* the inverse branch applied to the exact inverse matrix (numpy.linalg.inv is monitored per run) *)
Lemma apply_cdinv_is_source : forall h x y,
  apply_cdinv h x y =
  src_apply_cdinv (h_cd22 h / cd_det h) (- h_cd12 h / cd_det h) (- h_cd21 h / cd_det h) (h_cd11 h / cd_det h) x y.
Proof. intros. reflexivity. Qed.

Lemma src_lat_pole : src_image2sph_lat_pole = PI / 2.
Proof. unfold src_image2sph_lat_pole. lra. Qed.

Lemma image2sph_is_source : forall w x y,
  image2sph w x y =
  let r := src_image2sph_r x y in
  let latitude := if Rlt_dec 0 r then src_image2sph_lat r else src_image2sph_lat_pole in
  let ll := Rotate w (src_image2sph_lon atan2 x y * src_r2d) (latitude * src_r2d) true in
  (fold360 (fst ll), snd ll).
Proof. intros. rewrite src_lat_pole. reflexivity. Qed.

Lemma sph2image_is_source : forall w longitude latitude,
  sph2image w longitude latitude =
  let ll := Rotate w longitude latitude false in
  let lo := fst ll * src_d2r in
  let la := snd ll * src_d2r in
  if Rlt_dec 0 la then src_sph2image lo la else (0, 0).
Proof. intros. reflexivity. Qed.

Lemma jacobian_is_source : forall c p0 m0 zp zm step,
  jac_of c p0 m0 zp zm step =
  src_jacobian wrap_ra_diff step (fst c) (snd c) (fst p0) (snd p0) (fst m0) (snd m0)
               (fst zp) (snd zp) (fst zm) (snd zm).
Proof. intros. reflexivity. Qed.

(* control flow of image2sky and of sky2image(find=False): which of CD matrix and distortion is
   applied first per projection, and what happens when the distortion is switched off *)
Definition is_sip (p : proj) : bool := match p with PSip => true | _ => false end.

Lemma pix2inter_is_source : forall w x y distort,
  pix2inter w x y distort =
  src_pix2inter (apply_cd (w_hdr w))
                (distort_with (d_name (w_dist w)) (d_a (w_dist w)) (d_b (w_dist w)))
                (distort && has_dist w) (is_sip (h_proj (w_hdr w))) x y
                (h_crpix1 (w_hdr w)) (h_crpix2 (w_hdr w)).
Proof.
  intros. unfold pix2inter, src_pix2inter, is_sip.
  destruct (h_proj (w_hdr w)); destruct (distort && has_dist w); cbn [fst snd];
    try reflexivity; rewrite <- surjective_pairing; reflexivity.
Qed.

Lemma sky2image_direct_is_source : forall fit w s lon lat distort,
  snd (sky2image_direct fit w s lon lat distort) =
  let uv := sph2image w lon lat in
  src_inter2pix (apply_cdinv (w_hdr w)) (fun a b => snd (distort_inverse fit w s a b))
                (distort && has_dist w) (is_sip (h_proj (w_hdr w))) (fst uv) (snd uv)
                (h_crpix1 (w_hdr w)) (h_crpix2 (w_hdr w)).
Proof.
  intros. unfold sky2image_direct, src_inter2pix, is_sip. cbv zeta.
  destruct (h_proj (w_hdr w)); destruct (distort && has_dist w); cbn [fst snd]; reflexivity.
Qed.

(* the rectangle over which the inverse polynomial is fitted is the image: pixel offsets
   [1 - CRPIX1, NAXIS1 - CRPIX1] x [1 - CRPIX2, NAXIS2 - CRPIX2] for TPV (InvertPVDistortion), pixels
   [1, NAXIS1] x [1, NAXIS2] for SIP (InvertSipDistortion): which naxis / crpix index feeds which axis *)
Definition image_rect (h : header) : (R * R) * (R * R) := ((1, h_naxis1 h), (1, h_naxis2 h)).
Definition image_rect_offsets (h : header) : (R * R) * (R * R) :=
  ((1 - h_crpix1 h, h_naxis1 h - h_crpix1 h), (1 - h_crpix2 h, h_naxis2 h - h_crpix2 h)).

Lemma fit_ranges_are_the_image : forall h,
  src_pv_fit_ranges (h_naxis1 h) (h_naxis2 h) (h_crpix1 h) (h_crpix2 h) = image_rect_offsets h /\
  src_sip_fit_ranges (h_naxis1 h) (h_naxis2 h) (h_crpix1 h) (h_crpix2 h) = image_rect h.
Proof. intros. split; reflexivity. Qed.

(* Distort, forward direction: per convention the start value (TPV / scamp: the polynomial alone, 0 * x; SIP: a
   correction added to the input, x * 1.0) to which Apply2DPolynomial's value is added *)
Lemma distort_is_source : forall a b x y,
  distort_with DScamp a b x y = src_distort true (poly2d a x y) (poly2d b x y) x y /\
  distort_with DSip a b x y = src_distort false (poly2d a x y) (poly2d b x y) x y.
Proof. intros. split; reflexivity. Qed.

(* root finding: the residual handed to fsolve (_lonlatdiff) and what _findxy_one / _fsolve_xy do with it (start value
   = target = the undistorted inverse; the result of fsolve is returned unchanged; the translator refuses any added
   branch or fallback in _fsolve_xy, _findxy_one, _findxy) *)
Lemma lonlatdiff_is_source : forall w target xy,
  lonlatdiff w target xy = src_lonlatdiff (fun x y => image2sky w x y true) (sky2image_nodistort w) target xy.
Proof. intros. reflexivity. Qed.

Lemma findxy_one_is_source : forall fsolve w s lon lat xtol,
  snd (findxy_one fsolve w s lon lat xtol) =
  src_findxy_one (sky2image_nodistort w) fsolve (lonlatdiff w) lon lat xtol.
Proof. intros. reflexivity. Qed.

(* ---------------------------------------------------------------------------------------- *)
(* round 6: decisions, thresholds and defaults translated from the source                     *)
(* ---------------------------------------------------------------------------------------- *)
(* the fold of the longitude into [0,360): comparison operators, thresholds and steps of image2sph (scalar and array
   code are required to agree by the translator) *)
Lemma fold360_is_source : forall lon, fold360 lon = src_fold360 lon.
Proof. intros. reflexivity. Qed.

(* wrap_ra_diff: one pass of each of its two loops, with the source's thresholds and steps *)
Lemma wrap_is_source : forall d, wrap_ra_diff d = src_wrap_once d.
Proof.
  intro d. unfold wrap_ra_diff, src_wrap_once. cbv zeta.
  repeat match goal with |- context [Rlt_dec ?a ?b] => destruct (Rlt_dec a b) end; try lra; reflexivity.
Qed.

(* image2sph and sph2image with the source's branch conditions (r > 0, latitude > 0) and the source's fold *)
Lemma image2sph_decisions_are_source : forall w x y,
  image2sph w x y =
  let r := src_image2sph_r x y in
  let ll := Rotate w (src_image2sph_lon atan2 x y * src_r2d) (src_image2sph_latitude r * src_r2d) true in
  (src_fold360 (fst ll), snd ll).
Proof. intros. unfold src_image2sph_latitude. rewrite src_lat_pole. reflexivity. Qed.

Lemma sph2image_decisions_are_source : forall w longitude latitude,
  sph2image w longitude latitude =
  let ll := Rotate w longitude latitude false in
  src_sph2image_sel (fst ll * src_d2r) (snd ll * src_d2r).
Proof. intros. reflexivity. Qed.

(* ExtractDistortionModel: a header has a distortion model iff either axis has coefficients *)
Lemma has_distortion_is_source : forall h,
  (h_proj h <> PSip ->
     (d_name (extract_distortion h) = DNone <->
      src_has_distortion (pv_count (fun k => assoc_nat k (h_pv1 h))) (pv_count (fun k => assoc_nat k (h_pv2 h))) = false))
  /\ (h_proj h = PSip ->
     (d_name (extract_distortion h) = DNone <->
      src_has_distortion (sip_count (h_a_order h) (h_sipa h)) (sip_count (h_b_order h) (h_sipb h)) = false)).
Proof.
  intro h. unfold extract_distortion, src_has_distortion. split; intro Hp.
  - destruct (h_proj h); try (exfalso; apply Hp; reflexivity);
      destruct (Nat.eqb (pv_count (fun k => assoc_nat k (h_pv1 h))) 0), (Nat.eqb (pv_count (fun k => assoc_nat k (h_pv2 h))) 0);
      cbn; split; intro E; try reflexivity; try discriminate.
  - rewrite Hp.
    destruct (Nat.eqb (sip_count (h_a_order h) (h_sipa h)) 0), (Nat.eqb (sip_count (h_b_order h) (h_sipb h)) 0);
      cbn; split; intro E; try reflexivity; try discriminate.
Qed.

(* ExtractPVCoeffs: which PV term defaults to which value *)
Lemma pv_default_is_source : forall table,
  pv_init table =
  let z := zeros (S scamp_max_order) (S scamp_max_order) in
  match assoc_nat src_pv_default_key table with Some (i, j) => mset z i j src_pv_default_value | None => z end.
Proof. intros. reflexivity. Qed.

(* GetPole, zenithal branch, and the constructor's default angles: the defaults select that branch *)
Lemma getpole_is_source : forall h,
  w_rot (mk_wcs h) =
  rotation_matrix (fst (src_getpole_zenithal (h_crval1 h) (h_crval2 h))) (snd (src_getpole_zenithal (h_crval1 h) (h_crval2 h)))
                  (h_longpole h).
Proof. intros. reflexivity. Qed.

Lemma default_angles_are_source :
  src_default_theta0 = src_zenithal_theta0 /\ src_default_longpole = 180 /\ src_default_latpole = 90.
Proof. repeat split; reflexivity. Qed.

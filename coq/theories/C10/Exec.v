(* C10 — glue used by the generated case files: certificate tactics (Interval) for the
   real-number obligations and verdict functions over exact rationals. *)
From Coq Require Import Reals List Bool QArith Qabs Lra.
From Interval Require Import Tactic.
From EsVerif.Common Require Import Base.
From EsVerif.C10 Require Import Gen Model Spec Lonpole Construct.
Import ListNotations.

(* ---------------------------------------------------------------------------------------- *)
(* certificates                                                                               *)
(* ---------------------------------------------------------------------------------------- *)
Local Open Scope R_scope.

(* closed form of the intermediate coordinates of a literal header *)
Ltac c10_inter t :=
  eval cbv [fst snd fits_intermediate
       h_proj h_crpix1 h_crpix2 h_crval1 h_crval2 h_cd11 h_cd12 h_cd21 h_cd22 h_pv1 h_pv2
       h_a_order h_b_order h_sipa h_sipb
       tpv_poly tpv_value tpv_default tpv_term tpv_terms tpv_supported sip_poly sip_value
       assoc_nat assoc_nn scamp_skip scamp_max_ncoeff
       List.fold_right List.filter List.seq List.existsb List.nth Nat.eqb Nat.sub negb andb orb] in t.

Ltac c10_sky :=
  cbv [sky_close vdist2 vx vy vz fst snd unitvec rad fits_sky_vec h_crval1 h_crval2].

(* goal mentions (fits_pix2sky_vec H x y) with literal H, x, y.  The intermediate coordinates are
   enclosed first (the enclosures are then used as hypotheses), which keeps the expression that
   the final [interval] sees small. *)
Ltac c10_stage tac1 :=
  unfold fits_pix2sky_vec;
  match goal with |- context [fits_intermediate ?h ?x ?y] =>
    let e1 := c10_inter (fst (fits_intermediate h x y)) in
    let e2 := c10_inter (snd (fits_intermediate h x y)) in
    let H1 := fresh "Hxi" in let H2 := fresh "Heta" in
    tac1 e1 H1; tac1 e2 H2;
    change e1 with (fst (fits_intermediate h x y)) in H1;
    change e2 with (snd (fits_intermediate h x y)) in H2;
    generalize dependent (fits_intermediate h x y)
  end;
  let xe := fresh "xe" in intros xe; destruct xe as [xi eta]; cbv [fst snd]; intros.

Ltac c10_intro_std e H := interval_intro e as H.
Ltac c10_intro_hi e H := interval_intro e with (i_prec 160) as H.

(* goal: sky_close (fits_pix2sky_vec H x y) (unitvec lon lat) tol *)
Ltac c10_cert := c10_stage c10_intro_std; c10_sky; interval.
(* the same when the enclosures at double precision are not enough *)
Ltac c10_cert_hi := c10_stage c10_intro_hi; c10_sky; interval with (i_prec 160).
(* goal: ~ sky_close (fits_pix2sky_vec H x y) (unitvec lon lat) tol *)
Ltac c10_refute :=
  unfold sky_close; apply Rlt_not_le; c10_stage c10_intro_hi; c10_sky; interval with (i_prec 160).

(* LONPOLE other than 180: goal  sky_close (fits_pix2sky_vec_lp H x y) (unitvec lon lat) tol  -- the reference is the
   paper's Euler rotation (CRVAL1, CRVAL2, LONPOLE) of the TAN native direction (theorem C10_forward_matches_fits_any_lonpole) *)
Ltac c10_stage_lp tac1 :=
  unfold fits_pix2sky_vec_lp;
  match goal with |- context [fits_intermediate ?h ?x ?y] =>
    let e1 := c10_inter (fst (fits_intermediate h x y)) in
    let e2 := c10_inter (snd (fits_intermediate h x y)) in
    let H1 := fresh "Hxi" in let H2 := fresh "Heta" in
    tac1 e1 H1; tac1 e2 H2;
    change e1 with (fst (fits_intermediate h x y)) in H1;
    change e2 with (snd (fits_intermediate h x y)) in H2;
    generalize dependent (fits_intermediate h x y)
  end;
  let xe := fresh "xe" in intros xe; destruct xe as [xi eta]; cbv [fst snd]; intros.
Ltac c10_sky_lp :=
  cbv [sky_close vdist2 vx vy vz fst snd unitvec rad fits_sky_vec_lp fits_celestial_vec tan_native_vec euler_cel2nat
       mapply transpose mmul rot_z rot_x m00 m01 m02 m10 m11 m12 m20 m21 m22 h_crval1 h_crval2 h_longpole].
Ltac c10_cert_lp := c10_stage_lp c10_intro_std; c10_sky_lp; interval.
Ltac c10_cert_lp_hi := c10_stage_lp c10_intro_hi; c10_sky_lp; interval with (i_prec 160).
Ltac c10_refute_lp :=
  unfold sky_close; apply Rlt_not_le; c10_stage_lp c10_intro_hi; c10_sky_lp; interval with (i_prec 160).

(* distort=False: the header is read as a plain tangent-plane header *)
Definition fits_pix2sky_vec_nodistort (h : header) (px py : R) : vec :=
  let u := px - h_crpix1 h in
  let v := py - h_crpix2 h in
  fits_sky_vec (h_crval1 h) (h_crval2 h) (h_cd11 h * u + h_cd12 h * v) (h_cd21 h * u + h_cd22 h * v).

Ltac c10_nod := cbv [fits_pix2sky_vec_nodistort h_crpix1 h_crpix2 h_crval1 h_crval2 h_cd11 h_cd12 h_cd21 h_cd22].
Ltac c10_cert_nodistort := c10_nod; c10_sky; interval with (i_prec 80).
Ltac c10_cert_nodistort_hi := c10_nod; c10_sky; interval with (i_prec 160).
Ltac c10_refute_nodistort := unfold sky_close; apply Rlt_not_le; c10_nod; c10_sky; interval with (i_prec 160).

(* goal: sky_close (unitvec a b) (unitvec c d) tol *)
Ltac c10_close := c10_sky; interval with (i_prec 80).
Ltac c10_close_hi := c10_sky; interval with (i_prec 160).
Ltac c10_refute_close := unfold sky_close; apply Rlt_not_le; c10_sky; interval with (i_prec 160).

(* get_jacobian against the formula of the model evaluated on the implementation's own
   image2sky results *)
Definition jac_close (a b : R * R * R * R) (tol : R) : Prop :=
  Rabs (fst (fst (fst a)) - fst (fst (fst b))) <= tol * (1 + Rabs (fst (fst (fst b)))) /\
  Rabs (snd (fst (fst a)) - snd (fst (fst b))) <= tol * (1 + Rabs (snd (fst (fst b)))) /\
  Rabs (snd (fst a) - snd (fst b)) <= tol * (1 + Rabs (snd (fst b))) /\
  Rabs (snd a - snd b) <= tol * (1 + Rabs (snd b)).

Ltac c10_wrap :=
  repeat match goal with
         | |- context [Rlt_dec ?a ?b] =>
             destruct (Rlt_dec a b); [try (exfalso; lra)|try (exfalso; lra)]
         end.

Ltac c10_jac :=
  cbv [jac_close jac_of wrap_ra_diff fst snd d2r]; c10_wrap; repeat split; interval with (i_prec 80).

(* ---------------------------------------------------------------------------------------- *)
(* verdicts over exact rationals: bit 1 = the property checker rejects the implementation     *)
(* ---------------------------------------------------------------------------------------- *)
Local Open Scope Q_scope.

Definition v_of (ok : bool) : Z := verdict true ok.

Definition pairs_ok (f : Q -> Q -> bool) (l : list (Q * Q)) : bool :=
  forallb (fun p => f (fst p) (snd p)) l.

(* image2sky outputs: longitude in [0,360), latitude in [-90,90] *)
Definition v_range (l : list (Q * Q)) : Z := v_of (pairs_ok range_check l).

(* round trip: ((x, y), (xback, yback)) closer than tol pixels *)
Definition v_roundtrip (l : list ((Q * Q) * (Q * Q))) (tol : Q) : Z :=
  v_of (forallb (fun p => px_close_check (fst (fst p)) (snd (fst p)) (fst (snd p)) (snd (snd p)) tol) l).

(* round trip without root finding: tol = k * rms + floor, rms the residual reported by the code *)
Definition v_roundtrip_fit (l : list ((Q * Q) * (Q * Q))) (k rms floor : Q) : Z :=
  v_roundtrip l (k * rms + floor).

(* identical outputs *)
Definition v_same (a b : list Q) : Z := v_of (qlist_eqb a b).

(* numpy.linalg.inv contract *)
Definition v_cdinv (a b c d ia ib ic id tol : Q) : Z := v_of (cdinv_check a b c d ia ib ic id tol).

Definition v_same2 (a b c d : list Q) : Z := v_of (qlist_eqb a b && qlist_eqb c d).

(* |a_i - b_i| <= tol * (1 + |b_i|) *)
Fixpoint qlist_close (a b : list Q) (tol : Q) : bool :=
  match a, b with
  | [], [] => true
  | x :: s, y :: t => Qle_bool (Qabs (x - y)) (tol * (1 + Qabs y)) && qlist_close s t tol
  | _, _ => false
  end.
Definition v_close_rel (a b : list Q) (tol : Q) : Z := v_of (qlist_close a b tol).

(* scalar = array to the statement's accuracies: pixels / jacobian entries absolutely, sky positions on the sky *)
Definition v_close_abs (a b : list Q) (tol : Q) : Z := v_of (qlist_close_abs a b tol).
Definition v_sky_same (a b : list (Q * Q)) (tol : Q) : Z := v_of (sky_list_same a b tol).

(* constructor: model's verdict (accept / KeyError / ValueError) against the implementation's, and for an accepted header
   whether a conversion is possible at all (a CD matrix is present) *)
Definition res_code (r : result unit) : Z :=
  match r with Ok _ => 0 | Err EKey => 1 | Err EValue => 2 | Err _ => 3 end%Z.
Definition v_construct (q : raw) (impl_code : Z) (impl_converts : bool) : Z :=
  let m := res_code (construct_check q) in
  verdict (Z.eqb m impl_code && (if Z.eqb m 0 then Bool.eqb (can_convert q) impl_converts else true)) true.

(* C10 -- the constructor WCS(header): which headers it accepts and with which error class it rejects the others, in the
   order in which the code looks (esutil/wcsutil.py: _set_naxis, ExtractFromWCS, ExtractProjection, ExtractUnits, the CD
   block, ExtractDistortionModel / ExtractSIPCoeffs).  The header is abstracted to what these checks read: presence of
   keys, the projection string CTYPE1[4:].strip().upper(), CUNIT1.strip().lower(), the four CD entries (exact
   rationals), presence of A_ORDER / B_ORDER.  The allowed projections and the distortion family of each come from the
   regenerated tables of Gen.v (_allowed_projections, _ap). *)
From Coq Require Import List Bool String QArith.
From EsVerif.Common Require Import Base.
From EsVerif.C10 Require Import Gen.
Import ListNotations.
Local Open Scope string_scope.

Record raw := {
  q_znaxis1 : bool; q_znaxis2 : bool; q_naxis1 : bool; q_naxis2 : bool;
  q_crpix1 : bool; q_crpix2 : bool; q_crval1 : bool; q_crval2 : bool; q_ctype1 : bool; q_ctype2 : bool;
  q_projection : string;                 (* CTYPE1[4:].strip().upper(), meaningful when q_ctype1 *)
  q_cunit1 : option string;              (* CUNIT1.strip().lower() when present *)
  q_cd11 : option Q; q_cd12 : option Q; q_cd21 : option Q; q_cd22 : option Q;
  q_a_order : bool; q_b_order : bool
}.

Definition str_in (s : string) (l : list string) : bool := existsb (String.eqb s) l.

Fixpoint assoc_str {A} (k : string) (l : list (string * A)) : option A :=
  match l with
  | [] => None
  | (k', v) :: t => if String.eqb k k' then Some v else assoc_str k t
  end.

(* _ap[projection]["name"] *)
Definition distortion_family (p : string) : option string :=
  match assoc_str p ap_table with Some (nm :: _) => Some nm | _ => None end.
Definition is_sip_projection (p : string) : bool :=
  match distortion_family p with Some nm => String.eqb nm "sip" | None => false end.

Definition need (present : bool) (k : result unit) : result unit := if present then k else Err EKey.
Definition need_v (ok : bool) (k : result unit) : result unit := if ok then k else Err EValue.
Definition is_some {A} (o : option A) : bool := match o with Some _ => true | None => false end.

Definition cd_singular (a b c d : Q) : bool := Qeq_bool (a * d - b * c) 0.

Definition cd_block (q : raw) (k : result unit) : result unit :=
  match q_cd11 q with
  | None => k                                   (* no CD matrix: constructed, but no conversion is possible *)
  | Some a =>
      match q_cd12 q, q_cd21 q, q_cd22 q with
      | Some b, Some c, Some d => need_v (negb (cd_singular a b c d)) k
      | _, _, _ => Err EKey
      end
  end.

(* the constructor's checks, in source order *)
Definition construct_check (q : raw) : result unit :=
  need (if q_znaxis1 q then q_znaxis2 q else q_naxis1 q && q_naxis2 q)
  (need (q_crpix1 q && q_crpix2 q)
  (need (q_crval1 q && q_crval2 q)
  (need (q_ctype1 q && q_ctype2 q)
  (need_v (str_in (q_projection q) allowed_projections)
  (need_v (match q_cunit1 q with None => true | Some u => String.eqb u "deg" end)
  (cd_block q
  (need_v (if is_sip_projection (q_projection q) then q_a_order q && q_b_order q else true)
  (Ok tt)))))))).

(* a constructed object can convert only if it has a CD matrix *)
Definition can_convert (q : raw) : bool := is_some (q_cd11 q).

(* ---------------------------------------------------------------------------------------- *)
Definition keys_ok (q : raw) : bool :=
  (if q_znaxis1 q then q_znaxis2 q else q_naxis1 q && q_naxis2 q)
  && (q_crpix1 q && q_crpix2 q) && (q_crval1 q && q_crval2 q) && (q_ctype1 q && q_ctype2 q).
Definition cd_keys_ok (q : raw) : bool :=
  match q_cd11 q with None => true | Some _ => is_some (q_cd12 q) && is_some (q_cd21 q) && is_some (q_cd22 q) end.
Definition cd_regular (q : raw) : bool :=
  match q_cd11 q, q_cd12 q, q_cd21 q, q_cd22 q with
  | Some a, Some b, Some c, Some d => negb (cd_singular a b c d)
  | _, _, _, _ => true
  end.
Definition values_ok (q : raw) : bool :=
  str_in (q_projection q) allowed_projections
  && (match q_cunit1 q with None => true | Some u => String.eqb u "deg" end)
  && cd_regular q
  && (if is_sip_projection (q_projection q) then q_a_order q && q_b_order q else true).

Lemma construct_accepts_iff : forall q,
  construct_check q = Ok tt <-> keys_ok q && cd_keys_ok q && values_ok q = true.
Proof.
  intro q. unfold construct_check, keys_ok, cd_keys_ok, values_ok, cd_regular, cd_block, need, need_v.
  destruct (if q_znaxis1 q then q_znaxis2 q else q_naxis1 q && q_naxis2 q);
    destruct (q_crpix1 q && q_crpix2 q); destruct (q_crval1 q && q_crval2 q); destruct (q_ctype1 q && q_ctype2 q);
    cbn [andb]; try (split; discriminate).
  destruct (str_in (q_projection q) allowed_projections); cbn [andb];
    [|destruct (q_cd11 q), (q_cd12 q), (q_cd21 q), (q_cd22 q); cbn; split; try discriminate;
      rewrite ?andb_false_r; discriminate].
  destruct (match q_cunit1 q with None => true | Some u => (u =? "deg")%string end); cbn [andb];
    [|destruct (q_cd11 q), (q_cd12 q), (q_cd21 q), (q_cd22 q); cbn; split; try discriminate;
      rewrite ?andb_false_r; discriminate].
  destruct (q_cd11 q) as [a|], (q_cd12 q) as [b|], (q_cd21 q) as [c|], (q_cd22 q) as [d|]; cbn [is_some andb negb];
    try (split; discriminate);
    try (destruct (cd_singular a b c d); cbn [negb andb]; try (split; discriminate));
    destruct (if is_sip_projection (q_projection q) then q_a_order q && q_b_order q else true);
    split; try reflexivity; try discriminate.
Qed.

(* a rejection is a KeyError exactly when a required key is missing (keys are looked up before the values are judged,
   except the CD block, which comes after projection and units) *)
Lemma construct_error_class : forall q,
  construct_check q = Ok tt \/ construct_check q = Err EKey \/ construct_check q = Err EValue.
Proof.
  intro q. unfold construct_check, cd_block, need, need_v.
  repeat match goal with
         | |- context [if ?b then _ else _] => destruct b
         | |- context [match ?o with Some _ => _ | None => _ end] => destruct o
         end; auto.
Qed.

Lemma construct_keyerror_iff_keys : forall q,
  keys_ok q = false -> construct_check q = Err EKey.
Proof.
  intro q. unfold keys_ok, construct_check, need.
  destruct (if q_znaxis1 q then q_znaxis2 q else q_naxis1 q && q_naxis2 q); [|reflexivity].
  destruct (q_crpix1 q && q_crpix2 q); [|reflexivity].
  destruct (q_crval1 q && q_crval2 q); [|reflexivity].
  destruct (q_ctype1 q && q_ctype2 q); [|reflexivity]. discriminate.
Qed.

Lemma construct_bad_projection : forall q,
  keys_ok q = true -> str_in (q_projection q) allowed_projections = false -> construct_check q = Err EValue.
Proof.
  intros q Hk Hp. unfold keys_ok in Hk. unfold construct_check, need, need_v.
  repeat (apply andb_true_iff in Hk; destruct Hk as [Hk ?]).
  rewrite Hk. repeat match goal with H : _ && _ = true |- _ => rewrite H end. rewrite Hp. reflexivity.
Qed.

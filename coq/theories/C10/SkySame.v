(* C10 -- what the verified rational checker `sky_same_check` (scalar calls = array calls, input forms) means on the
   sky: an exact identity for the chord between two sky positions, the bound chord^2 <= dlat^2 + cos lat cos lat' dlon^2,
   and: if the checker accepts (and both positions pass range_check) the unit vectors are closer than
   sqrt (2 + PI) * tol (tol in degrees, as a chord), across the RA = 0 seam and at the poles. *)
From Coq Require Import Reals QArith Qabs Qminmax Qreals Lra Psatz Bool.
From Interval Require Import Tactic.
From EsVerif.C10 Require Import Gen Model Spec.
Local Open Scope R_scope.

Lemma four_sin2_half : forall a, 4 * (sin (a / 2)) ^ 2 = 2 - 2 * cos a.
Proof.
  intro a. replace a with (2 * (a / 2)) at 2 by field. rewrite cos_2a_sin. ring.
Qed.

(* chord^2 between two sky positions (degrees): exact identity *)
Lemma sky_chord_identity : forall l t l' t',
  vdist2 (unitvec l t) (unitvec l' t') =
  4 * (sin (rad (t - t') / 2)) ^ 2 + 4 * cos (rad t) * cos (rad t') * (sin (rad (l - l') / 2)) ^ 2.
Proof.
  intros l t l' t'.
  assert (E1 : 4 * (sin (rad (t - t') / 2)) ^ 2 = 2 - 2 * cos (rad t - rad t')).
  { rewrite four_sin2_half. unfold rad. f_equal. f_equal. f_equal. field. }
  assert (E2 : 4 * (sin (rad (l - l') / 2)) ^ 2 = 2 - 2 * cos (rad l - rad l')).
  { rewrite four_sin2_half. unfold rad. f_equal. f_equal. f_equal. field. }
  replace (4 * cos (rad t) * cos (rad t') * sin (rad (l - l') / 2) ^ 2)
    with (cos (rad t) * cos (rad t') * (4 * sin (rad (l - l') / 2) ^ 2)) by ring.
  rewrite E1, E2, !cos_minus.
  unfold vdist2, unitvec, vx, vy, vz. cbn [fst snd].
  pose proof (sin2_cos2 (rad l)) as A. pose proof (sin2_cos2 (rad l')) as B.
  pose proof (sin2_cos2 (rad t)) as C. pose proof (sin2_cos2 (rad t')) as D.
  unfold Rsqr in *.
  set (cl := cos (rad l)) in *. set (sl := sin (rad l)) in *. set (cl' := cos (rad l')) in *. set (sl' := sin (rad l')) in *.
  set (ct := cos (rad t)) in *. set (st := sin (rad t)) in *. set (ct' := cos (rad t')) in *. set (st' := sin (rad t')) in *.
  apply Rminus_diag_uniq.
  match goal with |- ?L - ?R = 0 =>
    replace (L - R) with (ct * ct * (sl * sl + cl * cl - 1) + ct' * ct' * (sl' * sl' + cl' * cl' - 1)
                          + (st * st + ct * ct - 1) + (st' * st' + ct' * ct' - 1)) by ring
  end.
  rewrite A, B, C, D. ring.
Qed.

(* hence: chord^2 <= dt^2 + cos t cos t' dl^2 (radians), for any dl that differs from l - l' by a multiple of 360 *)
Lemma sin_sqr_le : forall x, (sin x) ^ 2 <= x ^ 2.
Proof.
  intro x. destruct (Rle_dec 0 x) as [H|H].
  - destruct (Rle_dec x 1) as [H1|H1].
    + assert (0 <= sin x <= x).
      { split; [apply sin_ge_0; [lra|pose proof PI_RGT_0; pose proof (PI2_1); lra]|].
        destruct (Req_dec x 0) as [->|Hn]; [rewrite sin_0; lra|]. left. apply sin_lt_x. lra. }
      nra.
    + pose proof (SIN_bound x). nra.
  - assert (Hx : 0 <= - x) by lra. replace (x ^ 2) with ((- x) ^ 2) by ring.
    replace (sin x ^ 2) with (sin (- x) ^ 2) by (rewrite sin_neg; ring).
    destruct (Rle_dec (- x) 1) as [H1|H1].
    + assert (0 <= sin (- x) <= - x).
      { split; [apply sin_ge_0; [lra|pose proof PI_RGT_0; pose proof (PI2_1); lra]|].
        left. apply sin_lt_x. lra. }
      nra.
    + pose proof (SIN_bound (- x)). nra.
Qed.

Lemma sky_chord_bound : forall l t l' t' dl,
  0 <= cos (rad t) -> 0 <= cos (rad t') ->
  cos (rad dl) = cos (rad (l - l')) ->
  vdist2 (unitvec l t) (unitvec l' t') <= (rad (t - t')) ^ 2 + cos (rad t) * cos (rad t') * (rad dl) ^ 2.
Proof.
  intros l t l' t' dl Ht Ht' Hd. rewrite sky_chord_identity.
  assert (E : 4 * sin (rad (l - l') / 2) ^ 2 = 4 * sin (rad dl / 2) ^ 2).
  { rewrite !four_sin2_half. rewrite Hd. reflexivity. }
  pose proof (sin_sqr_le (rad (t - t') / 2)) as S1. pose proof (sin_sqr_le (rad dl / 2)) as S2.
  assert (P : 0 <= cos (rad t) * cos (rad t')) by (apply Rmult_le_pos; assumption).
  replace (4 * cos (rad t) * cos (rad t') * sin (rad (l - l') / 2) ^ 2)
    with (cos (rad t) * cos (rad t') * (4 * sin (rad (l - l') / 2) ^ 2)) by ring.
  rewrite E. nra.
Qed.

Lemma sin_abs_le : forall x, Rabs (sin x) <= Rabs x.
Proof.
  intro x. apply Rsqr_le_abs_0. unfold Rsqr. pose proof (sin_sqr_le x). lra.
Qed.

Lemma cos_lipschitz : forall a b, cos a <= cos b + Rabs (a - b).
Proof.
  intros a b. pose proof (form2 a b) as F.
  assert (H : Rabs (cos a - cos b) <= Rabs (a - b)).
  { rewrite F. rewrite !Rabs_mult. rewrite (Rabs_left (-2)) by lra.
    pose proof (sin_abs_le ((a - b) / 2)) as S1.
    pose proof (SIN_bound ((a + b) / 2)) as S2.
    assert (S3 : Rabs (sin ((a + b) / 2)) <= 1) by (apply Rabs_le; lra).
    assert (S4 : Rabs ((a - b) / 2) = Rabs (a - b) / 2).
    { unfold Rdiv. rewrite Rabs_mult. rewrite (Rabs_right (/ 2)) by lra. reflexivity. }
    pose proof (Rabs_pos (sin ((a - b) / 2))). pose proof (Rabs_pos (sin ((a + b) / 2))). pose proof (Rabs_pos (a - b)).
    rewrite S4 in S1. nra. }
  pose proof (Rle_abs (cos a - cos b)). lra.
Qed.

Lemma cos_le_PI2_minus : forall x, 0 <= x <= PI / 2 -> 0 <= cos x <= PI / 2 - x.
Proof.
  intros x [H0 H1]. rewrite <- (sin_shift x).
  assert (0 <= PI / 2 - x) by lra. pose proof PI_RGT_0.
  split.
  - apply sin_ge_0; lra.
  - pose proof (sin_abs_le (PI / 2 - x)) as S. rewrite (Rabs_right (PI / 2 - x)) in S by lra.
    pose proof (Rle_abs (sin (PI / 2 - x))). lra.
Qed.

Lemma cos_lat_bounds : forall t, Rabs t <= 90 -> 0 <= cos (rad t) <= rad (90 - Rabs t) /\ cos (rad t) <= 1.
Proof.
  intros t Ht. pose proof PI_RGT_0 as Hp. pose proof (COS_bound (rad t)) as Cb.
  assert (E : cos (rad t) = cos (rad (Rabs t))).
  { unfold Rabs. destruct (Rcase_abs t); [|reflexivity]. unfold rad.
    replace (- t * PI / 180) with (- (t * PI / 180)) by field. rewrite cos_neg. reflexivity. }
  pose proof (Rabs_pos t) as Hn.
  assert (R1 : 0 <= rad (Rabs t) <= PI / 2) by (unfold rad; split; nra).
  pose proof (cos_le_PI2_minus _ R1) as [C0 C1].
  rewrite E. split; [split; [exact C0|]|rewrite <- E; lra].
  unfold rad in *. lra.
Qed.

(* the longitude difference folded across the seam *)
Lemma wrap_cos : forall d, Rabs d <= 360 ->
  let dw := Rmin (Rabs d) (Rabs (360 - Rabs d)) in
  0 <= dw <= 180 /\ cos (rad dw) = cos (rad d).
Proof.
  intros d Hd dw. pose proof (Rabs_pos d) as Hn.
  assert (Ea : cos (rad (Rabs d)) = cos (rad d)).
  { unfold Rabs. destruct (Rcase_abs d); [|reflexivity]. unfold rad.
    replace (- d * PI / 180) with (- (d * PI / 180)) by field. apply cos_neg. }
  assert (E360 : Rabs (360 - Rabs d) = 360 - Rabs d) by (apply Rabs_right; lra).
  unfold dw. rewrite E360.
  destruct (Rle_dec (Rabs d) 180) as [H|H].
  - rewrite Rmin_left by lra. split; [lra|exact Ea].
  - rewrite Rmin_right by lra. split; [lra|].
    rewrite <- Ea. unfold rad. replace ((360 - Rabs d) * PI / 180) with (2 * PI - Rabs d * PI / 180) by field.
    rewrite cos_minus, cos_2PI, sin_2PI. ring.
Qed.

(* what the scalar = array sky checker means: if (over the reals) |lat - lat'| <= tol and the folded longitude
   difference times the weight min 1 ((90 - |lat|) p), p >= PI/180, is <= tol, the two sky positions are closer
   than sqrt (2 + PI) * tol on the sky (chord of the unit vectors, tol in degrees) *)
Lemma sky_same_meaning : forall l t l' t' tol p,
  Rabs t <= 90 -> Rabs t' <= 90 -> Rabs (l - l') <= 360 -> 0 <= tol -> PI / 180 <= p ->
  Rabs (t - t') <= tol ->
  Rmin (Rabs (l - l')) (Rabs (360 - Rabs (l - l'))) * Rmin 1 ((90 - Rabs t) * p) <= tol ->
  vdist2 (unitvec l t) (unitvec l' t') <= (2 + PI) * (rad tol) ^ 2.
Proof.
  intros l t l' t' tol p Ht Ht' Hl Htol Hp Hdt Hdl.
  pose proof PI_RGT_0 as Hpi.
  destruct (wrap_cos (l - l') Hl) as [[Hw0 Hw1] Hwc].
  set (dw := Rmin (Rabs (l - l')) (Rabs (360 - Rabs (l - l')))) in *.
  destruct (cos_lat_bounds t Ht) as [[C0 C1] C2]. destruct (cos_lat_bounds t' Ht') as [[C0' _] _].
  set (c := cos (rad t)) in *. set (c' := cos (rad t')) in *.
  set (w := Rmin 1 ((90 - Rabs t) * p)) in *.
  assert (Hcw : c <= w).
  { unfold w. apply Rmin_glb; [exact C2|]. unfold rad in C1. pose proof (Rabs_pos t).
    assert (0 <= 90 - Rabs t) by lra. nra. }
  assert (Hw1' : w <= 1) by apply Rmin_l.
  assert (Hc' : c' <= w + rad tol).
  { pose proof (cos_lipschitz (rad t') (rad t)) as L. fold c c' in L.
    assert (Rabs (rad t' - rad t) <= rad tol).
    { unfold rad. replace (t' * PI / 180 - t * PI / 180) with ((t' - t) * (PI / 180)) by field.
      rewrite Rabs_mult, (Rabs_right (PI / 180)) by lra. rewrite Rabs_minus_sym. nra. }
    lra. }
  pose proof (sky_chord_bound l t l' t' dw C0 C0' Hwc) as B. fold c c' in B.
  set (X := rad dw) in *. set (rt := rad tol) in *.
  assert (HX : 0 <= X <= PI) by (unfold X, rad; split; nra).
  assert (Hrt : 0 <= rt) by (unfold rt, rad; nra).
  assert (HwX : w * X <= rt).
  { unfold X, rt, rad. replace (w * (dw * PI / 180)) with ((dw * w) * (PI / 180)) by field. nra. }
  assert (Hdt2 : rad (t - t') ^ 2 <= rt ^ 2).
  { assert (Rabs (rad (t - t')) <= rt).
    { unfold rt, rad. replace ((t - t') * PI / 180) with ((t - t') * (PI / 180)) by field.
      rewrite Rabs_mult, (Rabs_right (PI / 180)) by lra. nra. }
    unfold Rabs in H. destruct (Rcase_abs (rad (t - t'))); nra. }
  assert (Hw0' : 0 <= w) by lra.
  assert (Hprod : c * c' * X ^ 2 <= w * (w + rt) * X ^ 2).
  { assert (c * c' <= w * (w + rt)) by nra. assert (0 <= X ^ 2) by nra. nra. }
  assert (Hlast : w * (w + rt) * X ^ 2 <= rt ^ 2 + PI * rt ^ 2).
  { replace (w * (w + rt) * X ^ 2) with ((w * X) ^ 2 + rt * (w * X) * X) by ring.
    assert (0 <= w * X) by nra.
    assert ((w * X) ^ 2 <= rt ^ 2) by nra.
    assert (rt * (w * X) * X <= rt * rt * PI).
    { assert (rt * (w * X) <= rt * rt) by nra. assert (0 <= rt * (w * X)) by nra. nra. }
    nra. }
  lra.
Qed.

Lemma Q2R_abs : forall x : Q, Q2R (Qabs x) = Rabs (Q2R x).
Proof.
  intro x. destruct (Qlt_le_dec x 0) as [H|H].
  - assert (E : (Qabs x == - x)%Q) by (apply Qabs_neg; apply Qlt_le_weak; exact H).
    rewrite (Qeq_eqR _ _ E), Q2R_opp. apply Qlt_Rlt in H. rewrite RMicromega.Q2R_0 in H.
    rewrite Rabs_left; lra.
  - assert (E : (Qabs x == x)%Q) by (apply Qabs_pos; exact H).
    rewrite (Qeq_eqR _ _ E). apply Qle_Rle in H. rewrite RMicromega.Q2R_0 in H.
    rewrite Rabs_right; lra.
Qed.

Lemma Q2R_min : forall x y : Q, Q2R (Qmin x y) = Rmin (Q2R x) (Q2R y).
Proof.
  intros x y. destruct (Qlt_le_dec y x) as [H|H].
  - assert (E : (Qmin x y == y)%Q) by (apply Q.min_r; apply Qlt_le_weak; exact H).
    rewrite (Qeq_eqR _ _ E). apply Qlt_Rlt in H. rewrite Rmin_right; lra.
  - assert (E : (Qmin x y == x)%Q) by (apply Q.min_l; exact H).
    rewrite (Qeq_eqR _ _ E). apply Qle_Rle in H. rewrite Rmin_left; lra.
Qed.

Lemma pi180_hi_ok : PI / 180 <= Q2R pi180_hi.
Proof. unfold pi180_hi, Q2R. cbn [Qnum Qden]. interval. Qed.

Lemma Q2R_z : forall z : Z, Q2R (inject_Z z) = IZR z.
Proof. intro z. unfold Q2R, inject_Z. cbn [Qnum Qden]. field. Qed.

(* the verified rational checker, read over the reals *)
Lemma sky_same_check_meaning : forall lon lat lon' lat' tol : Q,
  range_check lon lat = true -> range_check lon' lat' = true ->
  sky_same_check lon lat lon' lat' tol = true ->
  vdist2 (unitvec (Q2R lon) (Q2R lat)) (unitvec (Q2R lon') (Q2R lat')) <= (2 + PI) * (rad (Q2R tol)) ^ 2.
Proof.
  intros lon lat lon' lat' tol R1 R2 H.
  unfold range_check in R1, R2.
  repeat (apply andb_true_iff in R1; destruct R1 as [R1 ?]).
  repeat (apply andb_true_iff in R2; destruct R2 as [R2 ?]).
  unfold sky_same_check in H. apply andb_true_iff in H. destruct H as [Hlat Hlon].
  repeat match goal with
         | X : Qle_bool _ _ = true |- _ => apply Qle_bool_iff in X; apply Qle_Rle in X
         | X : negb (Qle_bool ?a ?b) = true |- _ =>
             apply negb_true_iff in X;
             assert (Q2R b < Q2R a) by (apply Qlt_Rlt; apply Qnot_le_lt; intro C; apply Qle_bool_iff in C; congruence);
             clear X
         end.
  unfold lon_wrap_abs, lon_weight in Hlon.
  rewrite ?Q2R_mult, ?Q2R_min, ?Q2R_abs, ?Q2R_minus, ?Q2R_abs, ?Q2R_minus, ?Q2R_abs in *.
  change 0%Q with (inject_Z 0) in *. change 1%Q with (inject_Z 1) in *. change 90%Q with (inject_Z 90) in *.
  change 360%Q with (inject_Z 360) in *. change (-90)%Q with (inject_Z (-90)) in *.
  rewrite ?Q2R_z in *. rewrite ?Q2R_mult, ?Q2R_minus, ?Q2R_abs, ?Q2R_z in Hlon.
  assert (Htol : 0 <= Q2R tol) by (pose proof (Rabs_pos (Q2R lat - Q2R lat')); lra).
  apply (sky_same_meaning (Q2R lon) (Q2R lat) (Q2R lon') (Q2R lat') (Q2R tol) (Q2R pi180_hi)).
  - apply Rabs_le; lra.
  - apply Rabs_le; lra.
  - apply Rabs_le; lra.
  - exact Htol.
  - exact pi180_hi_ok.
  - exact Hlat.
  - exact Hlon.
Qed.

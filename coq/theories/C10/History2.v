(* C10 -- the state machine extended by the explicit call InvertDistortion(): it (re)fits the inverse polynomial, leaves
   the object with _inverse_computed = True (through the nested Distort(inverse=True) of its own accuracy test) and
   returns the rms of the fit; it touches neither the scratch buffers nor anything the forward chain reads.  Outputs of
   every operation, InvertDistortion() included, remain independent of the history. *)
From Coq Require Import Reals List Bool.
From EsVerif.C10 Require Import Gen Model Spec History.
Import ListNotations.
Local Open Scope R_scope.

Inductive xop := XCore (o : op) | XInvert.
Inductive xout := XOut (o : out) | XRms (r : R).

Section History2.
  Variable fit : header -> coeffs * coeffs.
  Variable fsolve : (R * R -> R * R) -> R * R -> R -> R * R.
  Variable rms : header -> R.          (* the value InvertDistortion returns: a function of the header *)

  Definition invert_state (w : wcs) (s : state) : state :=
    {| s_inv_computed := true; s_ap := fst (fit (w_hdr w)); s_bp := snd (fit (w_hdr w));
       s_lonlat_answer := s_lonlat_answer s; s_xyguess := s_xyguess s; s_xy_answer := s_xy_answer s |}.

  Definition xstep (w : wcs) (s : state) (o : xop) : state * xout :=
    match o with
    | XCore o => let r := step fit fsolve w s o in (fst r, XOut (snd r))
    | XInvert => (invert_state w s, XRms (rms (w_hdr w)))
    end.

  Fixpoint xrun (w : wcs) (s : state) (ops : list xop) : state :=
    match ops with
    | [] => s
    | o :: t => xrun w (fst (xstep w s o)) t
    end.

  Definition xlast_out (w : wcs) (ops : list xop) (o : xop) : xout :=
    snd (xstep w (xrun w (init_state w) ops) o).

  Lemma invert_coherent : forall w s, coherent fit w (invert_state w s).
  Proof. intros w s _. split; reflexivity. Qed.

  Lemma xstep_coherent : forall w s o, coherent fit w s -> coherent fit w (fst (xstep w s o)).
  Proof.
    intros w s [o|] H; cbn [xstep fst].
    - apply step_coherent. exact H.
    - apply invert_coherent.
  Qed.

  Lemma xstep_out : forall w s1 s2 o, coherent fit w s1 -> coherent fit w s2 ->
    snd (xstep w s1 o) = snd (xstep w s2 o).
  Proof.
    intros w s1 s2 [o|] H1 H2; cbn [xstep snd]; [|reflexivity].
    f_equal. apply step_out; assumption.
  Qed.

  Lemma xrun_coherent : forall w ops s, coherent fit w s -> coherent fit w (xrun w s ops).
  Proof.
    intros w ops. induction ops as [|o t IH]; intros s H; cbn [xrun]; [exact H|].
    apply IH. apply xstep_coherent. exact H.
  Qed.

  Lemma xhistory_independent : forall w h1 h2 o, xlast_out w h1 o = xlast_out w h2 o.
  Proof.
    intros w h1 h2 o. unfold xlast_out. apply xstep_out; apply xrun_coherent; apply init_coherent.
  Qed.

  Lemma xhistory_vs_fresh : forall w h o, xlast_out w h o = snd (xstep w (init_state w) o).
  Proof. intros w h o. apply (xhistory_independent w h [] o). Qed.

  (* frame: what an operation leaves untouched *)
  Lemma invert_frame : forall w s,
    let s' := fst (xstep w s XInvert) in
    s_lonlat_answer s' = s_lonlat_answer s /\ s_xyguess s' = s_xyguess s /\ s_xy_answer s' = s_xy_answer s.
  Proof. intros. repeat split; reflexivity. Qed.

  Lemma forward_ops_frame : forall w s x y d stp,
    fst (xstep w s (XCore (OpImage2sky x y d))) = s /\ fst (xstep w s (XCore (OpJacobian x y d stp))) = s.
  Proof. intros. split; reflexivity. Qed.

  (* sky2image without root finding and without distortion, and every sky2image of an undistorted header, change nothing *)
  Lemma sky2image_plain_frame : forall w s lon lat d f xtol,
    (d = false /\ f = false) \/ has_dist w = false ->
    fst (xstep w s (XCore (OpSky2image lon lat d f xtol))) = s.
  Proof.
    intros w s lon lat d f xtol H. cbn [xstep fst step]. unfold sky2image.
    destruct H as [[-> ->]|Hn].
    - cbn [andb]. unfold sky2image_direct. cbn [andb]. destruct (h_proj (w_hdr w)); reflexivity.
    - rewrite Hn, !andb_false_r. unfold sky2image_direct. rewrite Hn, andb_false_r.
      destruct (h_proj (w_hdr w)); reflexivity.
  Qed.

  (* root finding changes only the three scratch buffers; the direct inverse only the cached inverse polynomial *)
  Lemma sky2image_find_frame : forall w s lon lat d xtol, has_dist w = true ->
    let s' := fst (xstep w s (XCore (OpSky2image lon lat d true xtol))) in
    s_inv_computed s' = s_inv_computed s /\ s_ap s' = s_ap s /\ s_bp s' = s_bp s.
  Proof.
    intros w s lon lat d xtol Hd. cbn [xstep fst step]. unfold sky2image. rewrite Hd. cbn [andb].
    unfold findxy_one. cbn [fst s_inv_computed s_ap s_bp]. repeat split; reflexivity.
  Qed.

  Lemma sky2image_direct_frame : forall w s lon lat d xtol,
    let s' := fst (xstep w s (XCore (OpSky2image lon lat d false xtol))) in
    s_lonlat_answer s' = s_lonlat_answer s /\ s_xyguess s' = s_xyguess s /\ s_xy_answer s' = s_xy_answer s.
  Proof.
    intros w s lon lat d xtol. cbn [xstep fst step]. unfold sky2image. cbn [andb]. unfold sky2image_direct.
    destruct (h_proj (w_hdr w)); destruct (d && has_dist w); cbn [fst]; try (repeat split; reflexivity);
      unfold distort_inverse, ensure_inverse; cbn [fst]; destruct (s_inv_computed s); repeat split; reflexivity.
  Qed.
End History2.

(* C10 -- get_jacobian does not see the RA = 0 seam: longitudes are folded into [0,360), so two positions a step apart
   can have longitudes that differ by the true (small) difference +- 360; wrap_ra_diff undoes exactly that. *)
From Coq Require Import Reals Lra.
From EsVerif.C10 Require Import Gen Model Spec.
Local Open Scope R_scope.

Lemma wrap_undoes_seam : forall d, -180 < d < 180 ->
  wrap_ra_diff d = d /\ wrap_ra_diff (d + 360) = d /\ wrap_ra_diff (d - 360) = d.
Proof.
  intros d [H1 H2]. unfold wrap_ra_diff. repeat split.
  - destruct (Rlt_dec d (-180)); [lra|]. destruct (Rlt_dec 180 d); [lra|reflexivity].
  - destruct (Rlt_dec (d + 360) (-180)); [lra|]. destruct (Rlt_dec 180 (d + 360)); [lra|lra].
  - destruct (Rlt_dec (d - 360) (-180)); [lra|lra].
Qed.

(* the jacobian computed from longitudes on either side of the seam equals the one computed from unfolded longitudes *)
Lemma jacobian_seam_invariant : forall c p0 m0 zp zm step k1 k2 k3 k4,
  -180 < fst p0 - fst m0 < 180 -> -180 < fst zp - fst zm < 180 ->
  (k1 - k2 = 0 \/ k1 - k2 = 360 \/ k1 - k2 = -360) -> (k3 - k4 = 0 \/ k3 - k4 = 360 \/ k3 - k4 = -360) ->
  jac_of c (fst p0 + k1, snd p0) (fst m0 + k2, snd m0) (fst zp + k3, snd zp) (fst zm + k4, snd zm) step =
  jac_of c p0 m0 zp zm step.
Proof.
  intros c p0 m0 zp zm step k1 k2 k3 k4 Hx Hy H12 H34.
  unfold jac_of. cbn [fst snd].
  destruct (wrap_undoes_seam (fst p0 - fst m0) Hx) as (A0 & A1 & A2).
  destruct (wrap_undoes_seam (fst zp - fst zm) Hy) as (B0 & B1 & B2).
  assert (E1 : wrap_ra_diff (fst p0 + k1 - (fst m0 + k2)) = wrap_ra_diff (fst p0 - fst m0)).
  { rewrite A0. destruct H12 as [E|[E|E]].
    - replace (fst p0 + k1 - (fst m0 + k2)) with (fst p0 - fst m0) by lra. exact A0.
    - replace (fst p0 + k1 - (fst m0 + k2)) with (fst p0 - fst m0 + 360) by lra. exact A1.
    - replace (fst p0 + k1 - (fst m0 + k2)) with (fst p0 - fst m0 - 360) by lra. exact A2. }
  assert (E2 : wrap_ra_diff (fst zp + k3 - (fst zm + k4)) = wrap_ra_diff (fst zp - fst zm)).
  { rewrite B0. destruct H34 as [E|[E|E]].
    - replace (fst zp + k3 - (fst zm + k4)) with (fst zp - fst zm) by lra. exact B0.
    - replace (fst zp + k3 - (fst zm + k4)) with (fst zp - fst zm + 360) by lra. exact B1.
    - replace (fst zp + k3 - (fst zm + k4)) with (fst zp - fst zm - 360) by lra. exact B2. }
  rewrite E1, E2. reflexivity.
Qed.

(* e.g. RA 359 and RA 1 on the two sides of the seam: the wrapped difference is -2, not 358 *)
Lemma seam_example : wrap_ra_diff (359 - 1) = -2 /\ wrap_ra_diff (1 - 359) = 2.
Proof.
  unfold wrap_ra_diff. split.
  - destruct (Rlt_dec (359 - 1) (-180)); [lra|]. destruct (Rlt_dec 180 (359 - 1)); lra.
  - destruct (Rlt_dec (1 - 359) (-180)); lra.
Qed.

(* C10 — sky2image without root finding on a distorted header: the round-trip error IS the residual
   of the fitted inverse polynomial (whatever the fit routine returned), carried to pixels.  This is
   the meaning of "to the fitted-polynomial accuracy" and the yardstick the harness evaluates
   (c10_gen.fit_rms) for the find=False round trips. *)
From Coq Require Import Reals List Bool Lra.
From EsVerif.Common Require Import Base.
From EsVerif.C10 Require Import Gen Model Spec Trig Forward Poly History.
Import ListNotations.
Local Open Scope R_scope.

(* the inverse coefficients the object holds after the lazy fit *)
Definition inv_coeffs (fit : header -> coeffs * coeffs) (w : wcs) (s : state) : coeffs * coeffs :=
  (s_ap (ensure_inverse fit w s), s_bp (ensure_inverse fit w s)).

(* residual of the inverse polynomial (ap, bp) at pixel (x, y), in pixels:
   TPV: CD^-1 (P_inv (P_fwd (CD d)) - CD d);  SIP: P_inv (d + f(d)) - d,   d = pixel - CRPIX *)
Definition fit_residual (w : wcs) (ap bp : coeffs) (x y : R) : R * R :=
  let h := w_hdr w in
  let d := w_dist w in
  let xd := x - h_crpix1 h in
  let yd := y - h_crpix2 h in
  match h_proj h with
  | PTan | PTpv =>
      let uv0 := apply_cd h xd yd in
      let uv := distort_with (d_name d) (d_a d) (d_b d) (fst uv0) (snd uv0) in
      let r := distort_with (d_name d) ap bp (fst uv) (snd uv) in
      apply_cdinv h (fst r - fst uv0) (snd r - snd uv0)
  | PSip =>
      let uv := distort_with (d_name d) (d_a d) (d_b d) xd yd in
      let r := distort_with (d_name d) ap bp (fst uv) (snd uv) in
      (fst r - xd, snd r - yd)
  end.

Lemma apply_cdinv_linear : forall h a b c d, cd_det h <> 0 ->
  apply_cdinv h a b = (fst (apply_cdinv h c d) + fst (apply_cdinv h (a - c) (b - d)),
                       snd (apply_cdinv h c d) + snd (apply_cdinv h (a - c) (b - d))).
Proof.
  intros h a b c d Hd. unfold apply_cdinv. cbn [fst snd]. unfold cd_det in *. f_equal; field; exact Hd.
Qed.

Lemma fit_roundtrip_lemma : forall fit fsolve h s x y xtol,
  has_dist (mk_wcs h) = true -> cd_det h <> 0 ->
  pix2inter (mk_wcs h) x y true <> (0, 0) ->
  let w := mk_wcs h in
  let ll := image2sky w x y true in
  let ab := inv_coeffs fit w s in
  snd (sky2image fit fsolve w s (fst ll) (snd ll) true false xtol) =
  (x + fst (fit_residual w (fst ab) (snd ab) x y), y + snd (fit_residual w (fst ab) (snd ab) x y)).
Proof.
  intros fit fsolve h s x y xtol Hdist Hd Hne. cbv zeta.
  unfold sky2image. cbn [andb]. unfold sky2image_direct, image2sky.
  set (w := mk_wcs h) in *.
  set (uv := pix2inter w x y true) in *.
  rewrite (sph2image_image2sph w (fst uv) (snd uv) (mk_wcs_orthogonal h)).
  2:{ destruct uv; exact Hne. }
  rewrite Hdist. cbn [andb fst snd].
  unfold distort_inverse, inv_coeffs, fit_residual. cbn [fst snd].
  unfold uv, pix2inter. rewrite Hdist. cbn [andb].
  change (w_hdr w) with h.
  destruct (h_proj h) eqn:Ep; cbn [fst snd].
  - set (uv0 := apply_cd h (x - h_crpix1 h) (y - h_crpix2 h)).
    set (r := distort_with _ (s_ap _) (s_bp _) _ _).
    rewrite (apply_cdinv_linear h (fst r) (snd r) (fst uv0) (snd uv0) Hd).
    assert (E : apply_cdinv h (fst uv0) (snd uv0) = (x - h_crpix1 h, y - h_crpix2 h))
      by (unfold uv0; apply apply_cdinv_cd; exact Hd).
    rewrite E. cbn [fst snd]. f_equal; ring.
  - set (uv0 := apply_cd h (x - h_crpix1 h) (y - h_crpix2 h)).
    set (r := distort_with _ (s_ap _) (s_bp _) _ _).
    rewrite (apply_cdinv_linear h (fst r) (snd r) (fst uv0) (snd uv0) Hd).
    assert (E : apply_cdinv h (fst uv0) (snd uv0) = (x - h_crpix1 h, y - h_crpix2 h))
      by (unfold uv0; apply apply_cdinv_cd; exact Hd).
    rewrite E. cbn [fst snd]. f_equal; ring.
  - set (uvd := distort_with _ _ _ (x - h_crpix1 h) (y - h_crpix2 h)).
    rewrite (apply_cdinv_cd h _ _ Hd). cbn [fst snd]. f_equal; ring.
Qed.

(* with an exact inverse polynomial the round trip is exact *)
Lemma fit_roundtrip_exact : forall fit fsolve h s x y xtol,
  has_dist (mk_wcs h) = true -> cd_det h <> 0 ->
  pix2inter (mk_wcs h) x y true <> (0, 0) ->
  let w := mk_wcs h in
  let ab := inv_coeffs fit w s in
  fit_residual w (fst ab) (snd ab) x y = (0, 0) ->
  let ll := image2sky w x y true in
  snd (sky2image fit fsolve w s (fst ll) (snd ll) true false xtol) = (x, y).
Proof.
  intros fit fsolve h s x y xtol Hdist Hd Hne w ab Hz ll.
  unfold ll, w. rewrite (fit_roundtrip_lemma fit fsolve h s x y xtol Hdist Hd Hne).
  fold w. fold ab. rewrite Hz. cbn [fst snd]. f_equal; ring.
Qed.

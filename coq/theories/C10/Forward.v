(* C10 — the rotation matrix, the de-projection, the forward chain on the vector level and the
   distortion-free inverse. *)
From Coq Require Import Reals Lra List Nsatz.
From EsVerif.C10 Require Import Gen Model Spec Trig.
Local Open Scope R_scope.

(* ---------------------------------------------------------------------------------------- *)
(* rotation matrix                                                                            *)
(* ---------------------------------------------------------------------------------------- *)
Lemma cos_PI2_minus : forall x, cos (PI / 2 - x) = sin x.
Proof. intro x. rewrite cos_minus, cos_PI2, sin_PI2. ring. Qed.
Lemma sin_PI2_minus : forall x, sin (PI / 2 - x) = cos x.
Proof. intro x. rewrite sin_minus, cos_PI2, sin_PI2. ring. Qed.
Lemma cos_plus_PI2 : forall x, cos (x + PI / 2) = - sin x.
Proof. intro x. rewrite cos_plus, cos_PI2, sin_PI2. ring. Qed.
Lemma sin_plus_PI2 : forall x, sin (x + PI / 2) = cos x.
Proof. intro x. rewrite sin_plus, cos_PI2, sin_PI2. ring. Qed.

(* the code's matrix (which it applies as native -> celestial) is the transpose of the
   Euler rotation celestial -> native *)
Lemma rotmat_is_euler_lemma : forall alpha_p delta_p longpole,
  transpose (rotation_matrix alpha_p delta_p longpole) = euler_cel2nat alpha_p delta_p (longpole * d2r).
Proof.
  intros. unfold rotation_matrix, euler_cel2nat, transpose, mmul, rot_z, rot_x. cbn [m00 m01 m02 m10 m11 m12 m20 m21 m22].
  rewrite !cos_PI2_minus, !sin_PI2_minus, !cos_plus_PI2, !sin_plus_PI2.
  f_equal; ring.
Qed.

Lemma rotmat_orthogonal : forall alpha_p delta_p longpole,
  mmul (rotation_matrix alpha_p delta_p longpole) (transpose (rotation_matrix alpha_p delta_p longpole)) = mident
  /\ mmul (transpose (rotation_matrix alpha_p delta_p longpole)) (rotation_matrix alpha_p delta_p longpole) = mident.
Proof.
  intros. unfold rotation_matrix, transpose, mmul, mident. cbn [m00 m01 m02 m10 m11 m12 m20 m21 m22].
  pose proof (sin2_cos2 alpha_p) as Ha. pose proof (sin2_cos2 delta_p) as Hd.
  pose proof (sin2_cos2 (longpole * d2r)) as Hp. unfold Rsqr in *.
  set (sa := sin alpha_p) in *. set (ca := cos alpha_p) in *.
  set (sd := sin delta_p) in *. set (cd := cos delta_p) in *.
  set (sp := sin (longpole * d2r)) in *. set (cp := cos (longpole * d2r)) in *.
  clearbody sa ca sd cd sp cp.
  split; f_equal; nsatz.
Qed.

(* [P2] eq. (2) in direction-cosine form *)
Lemma rotation_is_paper_eq2_lemma : forall alpha_p delta_p longpole phi theta,
  mapply (rotation_matrix alpha_p delta_p longpole) (vec_of phi theta)
  = paper_eq2_vec alpha_p delta_p (longpole * d2r) phi theta.
Proof.
  intros. unfold mapply, rotation_matrix, paper_eq2_vec, vec_of, vx, vy, vz.
  cbn [m00 m01 m02 m10 m11 m12 m20 m21 m22 fst snd].
  rewrite cos_minus, sin_minus. f_equal; [f_equal|]; ring.
Qed.

(* ---------------------------------------------------------------------------------------- *)
(* _rotate on the vector level                                                                *)
(* ---------------------------------------------------------------------------------------- *)
Definition orthogonal (r : mat3) : Prop := mmul r (transpose r) = mident /\ mmul (transpose r) r = mident.

Lemma orthogonal_transpose : forall r, orthogonal r -> orthogonal (transpose r).
Proof.
  intros r [H1 H2]. split.
  - replace (transpose (transpose r)) with r by (destruct r; reflexivity). exact H2.
  - replace (transpose (transpose r)) with r by (destruct r; reflexivity). exact H1.
Qed.

Lemma mident_inv : forall a b c d e f g h i, mk3 a b c d e f g h i = mident ->
  a = 1 /\ b = 0 /\ c = 0 /\ d = 0 /\ e = 1 /\ f = 0 /\ g = 0 /\ h = 0 /\ i = 1.
Proof. unfold mident. intros. inversion H. repeat split; reflexivity. Qed.

(* _rotate multiplies by the transpose of the matrix it is given *)
Lemma orthogonal_preserves_norm : forall r v, orthogonal r ->
  vdot (mapply (transpose r) v) (mapply (transpose r) v) = vdot v v.
Proof.
  intros r [[x y] z] [H1 _]. destruct r as [a b c d e f g h i].
  unfold mmul, transpose in H1. cbn [m00 m01 m02 m10 m11 m12 m20 m21 m22] in H1.
  apply mident_inv in H1. destruct H1 as (E1 & E2 & E3 & E4 & E5 & E6 & E7 & E8 & E9).
  unfold vdot, mapply, transpose, vx, vy, vz. cbn [m00 m01 m02 m10 m11 m12 m20 m21 m22 fst snd].
  replace ((a * x + d * y + g * z) * (a * x + d * y + g * z) + (b * x + e * y + h * z) * (b * x + e * y + h * z) +
           (c * x + f * y + i * z) * (c * x + f * y + i * z))
    with ((a * a + b * b + c * c) * x * x + (d * d + e * e + f * f) * y * y + (g * g + h * h + i * i) * z * z
          + 2 * (a * d + b * e + c * f) * x * y + 2 * (a * g + b * h + c * i) * x * z
          + 2 * (d * g + e * h + f * i) * y * z) by ring.
  rewrite E1, E5, E9, E2, E3, E6. ring.
Qed.

Lemma rotate_vec : forall lon lat r, orthogonal r ->
  unitvec (fst (rotate_ lon lat r)) (snd (rotate_ lon lat r)) = mapply (transpose r) (vec_of lon lat).
Proof.
  intros lon lat r Ho.
  pose proof (orthogonal_preserves_norm r (vec_of lon lat) Ho) as Hn.
  rewrite vec_of_unit in Hn.
  unfold rotate_. cbn [fst snd]. rewrite unitvec_vec_of, !d2r_r2d.
  set (l := cos lat * cos lon) in *. set (m := cos lat * sin lon) in *. set (n := sin lat) in *.
  set (b0 := m00 r * l + m10 r * m + m20 r * n).
  set (b1 := m01 r * l + m11 r * m + m21 r * n).
  set (b2 := m02 r * l + m12 r * m + m22 r * n).
  assert (Hu : b0 * b0 + b1 * b1 + b2 * b2 = 1).
  { unfold vdot, mapply, transpose, vec_of, vx, vy, vz in Hn.
    cbn [m00 m01 m02 m10 m11 m12 m20 m21 m22 fst snd] in Hn. fold l m n in Hn. fold b0 b1 b2 in Hn. exact Hn. }
  rewrite (angles_of_unit_vector b0 b1 b2 Hu).
  unfold mapply, transpose, vec_of, vx, vy, vz. cbn [m00 m01 m02 m10 m11 m12 m20 m21 m22 fst snd].
  reflexivity.
Qed.

(* ---------------------------------------------------------------------------------------- *)
(* image2sph: native direction, then rotation                                                 *)
(* ---------------------------------------------------------------------------------------- *)
(* direction cosines of the native (phi, theta) that image2sph computes = [P2] TAN native vector *)
Lemma image2sph_native : forall x y,
  let r := sqrt (x ^ 2 + y ^ 2) * PI / 180 in
  vec_of (atan2 x (- y)) (if Rlt_dec 0 r then atan (1 / r) else PI / 2) = tan_native_vec x y.
Proof.
  intros x y r.
  set (rho := sqrt (x ^ 2 + y ^ 2)) in *.
  assert (Hrho : 0 <= rho) by apply sqrt_pos.
  assert (Hrr : rho * rho = x * x + y * y).
  { unfold rho. rewrite sqrt_sqrt; [ring|]. nra. }
  pose proof PI_RGT_0 as Hpi.
  set (X := rad x). set (Y := rad y).
  assert (HXY : X * X + Y * Y = r * r).
  { unfold X, Y, rad, r. replace (rho * PI / 180 * (rho * PI / 180)) with ((rho * rho) * (PI / 180 * (PI / 180))) by field.
    rewrite Hrr. field. }
  unfold tan_native_vec. fold X Y.
  replace (1 + X * X + Y * Y) with (1 + r * r) by lra.
  set (n := sqrt (1 + r * r)).
  assert (Hn : 0 < n) by (apply sqrt_lt_R0; nra).
  assert (Hnn : n * n = 1 + r * r) by (apply sqrt_sqrt; nra).
  destruct (Rlt_dec 0 r) as [Hr|Hr].
  - (* off the reference point *)
    assert (Hrho0 : 0 < rho).
    { destruct Hrho as [H|H]; [exact H|]. exfalso. unfold r in Hr. rewrite <- H in Hr. lra. }
    assert (Hs : sqrt (1 + (1 / r)²) = n / r).
    { apply sqrt_lem_1.
      - unfold Rsqr. assert (0 <= 1 / r * (1 / r)) by nra. lra.
      - apply Rlt_le, Rdiv_lt_0_compat; assumption.
      - unfold Rsqr. replace (n / r * (n / r)) with ((n * n) / (r * r)) by (field; lra). rewrite Hnn. field. lra. }
    destruct (atan2_cos_sin x (- y)) as [Hc Hsn].
    { replace (- y * - y + x * x) with (rho * rho) by lra. nra. }
    replace (- y * - y + x * x) with (rho * rho) in Hc, Hsn by lra.
    rewrite (sqrt_square rho Hrho) in Hc, Hsn.
    unfold vec_of. rewrite cos_atan, sin_atan, Hs, Hc, Hsn.
    assert (Er : r = rho * (PI / 180)) by (unfold r; field).
    assert (r <> 0) by lra. assert (rho <> 0) by lra. assert (n <> 0) by lra.
    f_equal; [f_equal|].
    + unfold Y, rad. rewrite Er. field. repeat split; lra.
    + unfold X, rad. rewrite Er. field. repeat split; lra.
    + field. split; lra.
  - (* the reference point itself: x = y = 0 *)
    assert (Hr0 : r = 0).
    { assert (0 <= r) by (unfold r; apply Rmult_le_pos; [apply Rmult_le_pos; lra|lra]). lra. }
    assert (Hrho0 : rho = 0).
    { unfold r in Hr0. assert (rho * PI = 0) by lra. apply Rmult_integral in H. destruct H; lra. }
    assert (x = 0 /\ y = 0) as [Ex Ey] by (rewrite Hrho0 in Hrr; split; nra).
    assert (En : n = 1) by (unfold n; rewrite Hr0; replace (1 + 0 * 0) with 1 by ring; apply sqrt_1).
    unfold vec_of. rewrite cos_PI2, sin_PI2, En. unfold X, Y, rad. rewrite Ex, Ey.
    f_equal; [f_equal|]; field.
Qed.

Lemma image2sph_vec : forall w x y, orthogonal (w_rot w) ->
  unitvec (fst (image2sph w x y)) (snd (image2sph w x y)) = mapply (w_rot w) (tan_native_vec x y).
Proof.
  intros w x y Ho. unfold image2sph. cbn [fst snd]. rewrite unitvec_fold360.
  unfold Rotate. rewrite !d2r_r2d.
  rewrite (rotate_vec _ _ _ (orthogonal_transpose _ Ho)).
  replace (transpose (transpose (w_rot w))) with (w_rot w) by (destruct (w_rot w); reflexivity).
  rewrite image2sph_native. reflexivity.
Qed.

Lemma image2sph_lon_range : forall w x y, 0 <= fst (image2sph w x y) < 360.
Proof.
  intros. unfold image2sph. cbn [fst]. apply fold360_range.
  unfold Rotate, rotate_. cbn [fst]. apply atan2_deg_range.
Qed.

(* with LONPOLE = 180 the rotated native vector is the gnomonic deprojection about CRVAL *)
Lemma sin_180 : sin (180 * d2r) = 0.
Proof. replace (180 * d2r) with PI by (unfold d2r; field). apply sin_PI. Qed.
Lemma cos_180 : cos (180 * d2r) = -1.
Proof. replace (180 * d2r) with PI by (unfold d2r; field). apply cos_PI. Qed.

Lemma rotated_native_is_gnomonic : forall a0 d0 xi eta,
  mapply (rotation_matrix (a0 * d2r) (d0 * d2r) 180) (tan_native_vec xi eta) = fits_sky_vec a0 d0 xi eta.
Proof.
  intros. unfold mapply, rotation_matrix, tan_native_vec, fits_sky_vec, vx, vy, vz.
  cbn [m00 m01 m02 m10 m11 m12 m20 m21 m22 fst snd].
  rewrite sin_180, cos_180, !rad_d2r.
  set (n := sqrt (1 + xi * d2r * (xi * d2r) + eta * d2r * (eta * d2r))).
  assert (Hn : 0 < n) by (apply sqrt_lt_R0; nra).
  f_equal; [f_equal|]; field; lra.
Qed.

(* and the same statement through [P2]: Euler rotation of the TAN native direction *)
Lemma gnomonic_is_paper_chain_lemma : forall a0 d0 xi eta,
  fits_sky_vec a0 d0 xi eta = fits_celestial_vec (rad a0) (rad d0) PI (tan_native_vec xi eta).
Proof.
  intros. unfold fits_celestial_vec. rewrite !rad_d2r.
  replace PI with (180 * d2r) at 1 by (unfold d2r; field).
  rewrite <- rotmat_is_euler_lemma.
  replace (transpose (transpose (rotation_matrix (a0 * d2r) (d0 * d2r) 180)))
    with (rotation_matrix (a0 * d2r) (d0 * d2r) 180) by reflexivity.
  symmetry. apply rotated_native_is_gnomonic.
Qed.

Lemma mk_wcs_orthogonal : forall h, orthogonal (w_rot (mk_wcs h)).
Proof. intro h. unfold mk_wcs. cbn [w_rot]. apply rotmat_orthogonal. Qed.

(* the sky part of the forward chain: intermediate coordinates -> direction on the sky *)
Lemma image2sph_matches_fits : forall h xi eta, h_longpole h = 180 ->
  unitvec (fst (image2sph (mk_wcs h) xi eta)) (snd (image2sph (mk_wcs h) xi eta))
  = fits_sky_vec (h_crval1 h) (h_crval2 h) xi eta.
Proof.
  intros h xi eta Hl. rewrite (image2sph_vec _ _ _ (mk_wcs_orthogonal h)).
  unfold mk_wcs. cbn [w_rot]. rewrite Hl. apply rotated_native_is_gnomonic.
Qed.

(* the reference point: the direction of (CRVAL1, CRVAL2) *)
Lemma fits_sky_vec_origin : forall a0 d0, fits_sky_vec a0 d0 0 0 = unitvec a0 d0.
Proof.
  intros. unfold fits_sky_vec, unitvec, rad.
  replace (1 + 0 * PI / 180 * (0 * PI / 180) + 0 * PI / 180 * (0 * PI / 180)) with 1 by field.
  rewrite sqrt_1. f_equal; [f_equal|]; field.
Qed.

(* ---------------------------------------------------------------------------------------- *)
(* the distortion-free inverse                                                                *)
(* ---------------------------------------------------------------------------------------- *)
Lemma mapply_transpose_inv : forall r v, orthogonal r -> mapply (transpose r) (mapply r v) = v.
Proof.
  intros r [[x y] z] [_ H2]. destruct r as [a b c d e f g h i].
  unfold mmul, transpose in H2. cbn [m00 m01 m02 m10 m11 m12 m20 m21 m22] in H2.
  apply mident_inv in H2. destruct H2 as (E1 & E2 & E3 & E4 & E5 & E6 & E7 & E8 & E9).
  unfold mapply, transpose, vx, vy, vz. cbn [m00 m01 m02 m10 m11 m12 m20 m21 m22 fst snd].
  f_equal; [f_equal|].
  - replace (a * (a * x + b * y + c * z) + d * (d * x + e * y + f * z) + g * (g * x + h * y + i * z))
      with ((a * a + d * d + g * g) * x + (a * b + d * e + g * h) * y + (a * c + d * f + g * i) * z) by ring.
    rewrite E1, E2, E3. ring.
  - replace (b * (a * x + b * y + c * z) + e * (d * x + e * y + f * z) + h * (g * x + h * y + i * z))
      with ((b * a + e * d + h * g) * x + (b * b + e * e + h * h) * y + (b * c + e * f + h * i) * z) by ring.
    rewrite E4, E5, E6. ring.
  - replace (c * (a * x + b * y + c * z) + f * (d * x + e * y + f * z) + i * (g * x + h * y + i * z))
      with ((c * a + f * d + i * g) * x + (c * b + f * e + i * h) * y + (c * c + f * f + i * i) * z) by ring.
    rewrite E7, E8, E9. ring.
Qed.

(* sph2image undoes image2sph away from the reference point (at the reference point itself the
   code divides by tan(pi/2), which has no value over the reals; the floating-point code gets
   r2d / 1.6e16 there, see the sampled check) *)
Lemma sph2image_image2sph : forall w x y, orthogonal (w_rot w) -> (x, y) <> (0, 0) ->
  sph2image w (fst (image2sph w x y)) (snd (image2sph w x y)) = (x, y).
Proof.
  intros w x y Ho Hxy.
  pose proof (image2sph_vec w x y Ho) as Hv.
  set (lon := fst (image2sph w x y)) in *. set (lat := snd (image2sph w x y)) in *.
  unfold sph2image, Rotate.
  pose proof (rotate_vec (lon * d2r) (lat * d2r) (w_rot w) Ho) as Hr.
  rewrite <- unitvec_vec_of, Hv, (mapply_transpose_inv _ _ Ho) in Hr.
  (* the native angles recovered by _rotate *)
  unfold rotate_ in *. cbn [fst snd] in *.
  set (l := cos (lat * d2r) * cos (lon * d2r)) in *. set (m := cos (lat * d2r) * sin (lon * d2r)) in *.
  set (n := sin (lat * d2r)) in *.
  set (b0 := m00 (w_rot w) * l + m10 (w_rot w) * m + m20 (w_rot w) * n) in *.
  set (b1 := m01 (w_rot w) * l + m11 (w_rot w) * m + m21 (w_rot w) * n) in *.
  set (b2 := Rclip (m02 (w_rot w) * l + m12 (w_rot w) * m + m22 (w_rot w) * n) (-1) 1) in *.
  set (lo := atan2 b1 b0) in *. set (la := atan2 b2 (sqrt (b0 * b0 + b1 * b1))) in *.
  rewrite unitvec_vec_of, !d2r_r2d in Hr. rewrite !d2r_r2d.
  unfold vec_of, tan_native_vec in Hr.
  set (X := rad x) in *. set (Y := rad y) in *.
  set (s := sqrt (1 + X * X + Y * Y)) in *.
  assert (Hs : 0 < s) by (apply sqrt_lt_R0; nra).
  inversion Hr as [[H0 H1 H2]]. clear Hr.
  pose proof PI_RGT_0 as Hpi.
  assert (HXY : 0 < X * X + Y * Y).
  { assert (x <> 0 \/ y <> 0) as [Hx|Hy].
    { destruct (Req_dec x 0) as [Ex|Ex]; [right|left; exact Ex]. intro Ey. apply Hxy. rewrite Ex, Ey. reflexivity. }
    - assert (X <> 0) by (unfold X, rad; intro E; apply Hx; nra). nra.
    - assert (Y <> 0) by (unfold Y, rad; intro E; apply Hy; nra). nra. }
  (* latitude strictly between 0 and pi/2 *)
  assert (Hsla : 0 < sin la) by (rewrite H2; apply Rdiv_lt_0_compat; lra).
  assert (Hcc : cos la * cos la = (X * X + Y * Y) / (s * s)).
  { replace (cos la * cos la) with ((cos la * cos lo) * (cos la * cos lo) + (cos la * sin lo) * (cos la * sin lo)).
    - rewrite H0, H1. field. lra.
    - pose proof (sin2_cos2 lo) as Hq. unfold Rsqr in Hq. nra. }
  assert (Hla_bounds : - PI < la <= PI) by apply atan2_range.
  assert (Hcla : 0 < cos la).
  { (* la = atan2 b2 rho with rho >= 0 *)
    unfold la. set (rho := sqrt (b0 * b0 + b1 * b1)).
    assert (Hrho : 0 <= rho) by apply sqrt_pos.
    destruct Hrho as [Hpos|Hzero].
    - unfold atan2. destruct (Rlt_dec 0 rho) as [_|C]; [|lra].
      apply cos_gt_0; pose proof (atan_bound (b2 / rho)); lra.
    - exfalso. fold rho in la. assert (Hc0 : cos la = 0).
      { unfold la, atan2. rewrite <- Hzero.
        destruct (Rlt_dec 0 0) as [C|_]; [lra|]. destruct (Rlt_dec 0 0) as [C|_]; [lra|].
        destruct (Rlt_dec 0 b2); [apply cos_PI2|]. destruct (Rlt_dec b2 0); [rewrite cos_neg; apply cos_PI2|].
        (* b2 = 0 and rho = 0 contradicts sin la > 0 *)
        exfalso. unfold la, atan2 in Hsla. rewrite <- Hzero in Hsla.
        destruct (Rlt_dec 0 0) as [C|_]; [lra|]. destruct (Rlt_dec 0 0) as [C|_]; [lra|].
        destruct (Rlt_dec 0 b2); [lra|]. destruct (Rlt_dec b2 0); [lra|]. rewrite sin_0 in Hsla. lra. }
      rewrite Hc0 in Hcc. assert (0 < (X * X + Y * Y) / (s * s)) by (apply Rdiv_lt_0_compat; nra). lra. }
  assert (Hla : 0 < la).
  { destruct (Rlt_dec 0 la) as [H|H]; [exact H|]. exfalso.
    assert (sin la <= 0).
    { destruct (Req_dec la 0) as [E0|N0]; [rewrite E0, sin_0; lra|].
      left. apply sin_lt_0_var; lra. }
    lra. }
  destruct (Rlt_dec 0 la) as [_|C]; [|contradiction].
  unfold tan.
  assert (Hsl : sin la <> 0) by lra. assert (Hcl : cos la <> 0) by lra.
  assert (Es : s * sin la = 1) by (rewrite H2; field; lra).
  f_equal.
  - replace (r2d / (sin la / cos la) * sin lo) with (r2d * (cos la * sin lo) / sin la) by (field; split; assumption).
    rewrite H1, H2. unfold r2d, X, rad. field. repeat split; lra.
  - replace (- (r2d / (sin la / cos la)) * cos lo) with (- r2d * (cos la * cos lo) / sin la) by (field; split; assumption).
    rewrite H0, H2. unfold r2d, Y, rad. field. repeat split; lra.
Qed.

Lemma apply_cdinv_cd : forall h x y, cd_det h <> 0 ->
  apply_cdinv h (fst (apply_cd h x y)) (snd (apply_cd h x y)) = (x, y).
Proof.
  intros h x y Hd. unfold apply_cdinv, apply_cd. cbn [fst snd]. unfold cd_det in *. f_equal; field; exact Hd.
Qed.

Lemma apply_cd_nonzero : forall h x y, cd_det h <> 0 -> (x, y) <> (0, 0) -> apply_cd h x y <> (0, 0).
Proof.
  intros h x y Hd Hxy E. apply Hxy.
  pose proof (apply_cdinv_cd h x y Hd) as Hi. rewrite E in Hi. cbn [fst snd] in Hi.
  rewrite <- Hi. unfold apply_cdinv. f_equal; ring.
Qed.

(* C10 — the distortion polynomials: the regenerated scamp table against the TPV term order, the
   SIP matrix against the SIP sum, and pixel -> intermediate coordinates of the model against
   the conventions. *)
From Coq Require Import Reals Lra Lia List Arith Bool String.
From EsVerif.Common Require Import Base.
From EsVerif.C10 Require Import Gen Model Spec.
Import ListNotations.
Local Open Scope R_scope.

(* ---------------------------------------------------------------------------------------- *)
(* the regenerated tables                                                                     *)
(* ---------------------------------------------------------------------------------------- *)
Ltac table_cbv :=
  cbv [poly2d poly_rows sum_row pv_matrix pv_store pv_init scanned_ks scamp_map1 scamp_map2 scamp_skip
       scamp_max_ncoeff scamp_max_order zeros mset mget set_nth assoc_nat
       tpv_poly tpv_value tpv_default tpv_term tpv_terms tpv_supported
       List.fold_left List.fold_right List.filter List.seq List.existsb List.nth List.repeat
       Nat.eqb negb andb orb].

(* Re-checked whenever Gen.v changes: the polynomial that ExtractPVCoeffs + Apply2DPolynomial
   evaluate for axis 1 (resp. 2) is the TPV polynomial in (x, y) (resp. (y, x)) restricted to
   the supported terms, with the TPV defaults for keys that are not in the header. *)
Lemma tpv_table_correct_lemma : forall look x y,
  poly2d (pv_matrix scamp_map1 look) x y = tpv_poly look x y /\
  poly2d (pv_matrix scamp_map2 look) x y = tpv_poly look y x.
Proof. intros. table_cbv. split; ring. Qed.

(* every scanned key has a table entry (no KeyError), the supported terms are exactly the
   non-radial TPV terms of order <= _scamp_max_order, and the scanned keys are the supported ones *)
Lemma scamp_tables_total :
  forallb (fun k => is_some (assoc_nat k scamp_map1) && is_some (assoc_nat k scamp_map2)) scanned_ks = true.
Proof. reflexivity. Qed.

Definition tpv_terms_of_order (n : nat) : nat :=   (* number of PV terms up to order n incl. radial *)
  match n with 0 => 1 | 1 => 4 | 2 => 7 | 3 => 12 | 4 => 17 | 5 => 24 | 6 => 31 | _ => 40 end%nat.

Lemma tpv_supported_are_the_polynomial_terms :
  tpv_supported = filter (fun k => negb (tpv_radial k)) (seq 0 (tpv_terms_of_order scamp_max_order - 1))
  /\ scanned_ks = tpv_supported.
Proof. split; reflexivity. Qed.

(* _ap: which distortion convention each allowed projection uses *)
Lemma ap_table_ok :
  map (fun e => (fst e, nth 0 (snd e) ""%string)) ap_table
  = [("-TAN", "scamp"); ("-TPV", "scamp"); ("-TAN-SIP", "sip")]%string
  /\ allowed_projections = ["-TAN"; "-TPV"; "-TAN-SIP"]%string.
Proof. split; reflexivity. Qed.

(* ---------------------------------------------------------------------------------------- *)
(* sums                                                                                       *)
(* ---------------------------------------------------------------------------------------- *)
Definition rsum (f : nat -> R) (l : list nat) : R := fold_right (fun k acc => f k + acc) 0 l.

Lemma rsum_app : forall f l1 l2, rsum f (l1 ++ l2) = rsum f l1 + rsum f l2.
Proof. intros f l1 l2. induction l1 as [|a t IH]; simpl; [ring|]. rewrite IH. ring. Qed.

Lemma rsum_zero : forall f l, (forall k, In k l -> f k = 0) -> rsum f l = 0.
Proof.
  intros f l H. induction l as [|a t IH]; simpl; [reflexivity|].
  rewrite (H a) by (left; reflexivity). rewrite IH; [ring|]. intros k Hk. apply H. right. exact Hk.
Qed.

Lemma rsum_ext : forall f g l, (forall k, In k l -> f k = g k) -> rsum f l = rsum g l.
Proof.
  intros f g l H. induction l as [|a t IH]; simpl; [reflexivity|].
  rewrite (H a) by (left; reflexivity). rewrite IH; [reflexivity|]. intros k Hk. apply H. right. exact Hk.
Qed.

Lemma sum_row_map_seq : forall (g : nat -> R) x y ix m j,
  sum_row (map g (seq j m)) x y ix j = rsum (fun q => g q * x ^ ix * y ^ q) (seq j m).
Proof.
  intros g x y ix m. induction m as [|m IH]; intro j; simpl; [reflexivity|]. rewrite IH. reflexivity.
Qed.

Lemma poly_rows_map_seq : forall (f : nat -> list R) x y n i,
  poly_rows (map f (seq i n)) x y i = rsum (fun p => sum_row (f p) x y p 0) (seq i n).
Proof.
  intros f x y n. induction n as [|n IH]; intro i; simpl; [reflexivity|]. rewrite IH. reflexivity.
Qed.

(* ---------------------------------------------------------------------------------------- *)
(* SIP                                                                                        *)
(* ---------------------------------------------------------------------------------------- *)
Lemma sip_matrix_poly : forall order cs u v,
  poly2d (sip_matrix order cs) u v
  = rsum (fun p => rsum (fun q => sip_coef cs p q * u ^ p * v ^ q) (seq 0 (S order))) (seq 0 (S order)).
Proof.
  intros. unfold poly2d, sip_matrix. rewrite poly_rows_map_seq.
  apply rsum_ext. intros p _. apply sum_row_map_seq.
Qed.

Lemma sip_poly_rsum : forall order cs u v,
  sip_poly order cs u v
  = rsum (fun p => rsum (fun q => sip_value cs p q * u ^ p * v ^ q) (seq 0 (S order - p))) (seq 0 (S order)).
Proof. reflexivity. Qed.

(* the (order+1)^2 matrix of the code sums the same terms as the SIP triangle p + q <= order
   when the header has no coefficient beyond the declared order *)
Lemma sip_order_lemma : forall order cs u v, sip_wellformed order cs ->
  poly2d (sip_matrix order cs) u v = sip_poly order cs u v.
Proof.
  intros order cs u v Hwf. rewrite sip_matrix_poly, sip_poly_rsum.
  apply rsum_ext. intros p Hp. apply in_seq in Hp.
  replace (S order) with ((S order - p) + p)%nat at 1 by lia.
  rewrite seq_app, rsum_app. simpl (0 + _)%nat.
  rewrite (rsum_zero _ (seq (S order - p) p)).
  - unfold sip_coef, sip_value. ring.
  - intros q Hq. apply in_seq in Hq. unfold sip_coef. rewrite Hwf by lia. ring.
Qed.

(* no coefficient present within the matrix => the SIP polynomial vanishes *)
Lemma filter_nil_forall : forall {A} (f : A -> bool) l, List.length (filter f l) = 0%nat -> forall a, In a l -> f a = false.
Proof.
  intros A f l H a Ha. destruct (f a) eqn:E; [|reflexivity].
  assert (In a (filter f l)) by (apply filter_In; split; assumption).
  destruct (filter f l); [contradiction|discriminate].
Qed.

Lemma sip_count_zero : forall order cs u v, sip_count order cs = 0%nat -> sip_poly order cs u v = 0.
Proof.
  intros order cs u v H. rewrite sip_poly_rsum. apply rsum_zero. intros p Hp. apply in_seq in Hp.
  apply rsum_zero. intros q Hq. apply in_seq in Hq.
  unfold sip_count in H.
  pose proof (filter_nil_forall _ _ H (p, q)) as Hf. cbn [fst snd] in Hf.
  assert (Hin : In (p, q) (list_prod (seq 0 (S order)) (seq 0 (S order)))).
  { apply in_prod; apply in_seq; lia. }
  specialize (Hf Hin). unfold sip_value. destruct (assoc_nn p q cs); [discriminate|ring].
Qed.

(* ---------------------------------------------------------------------------------------- *)
(* TPV without any key = identity                                                             *)
(* ---------------------------------------------------------------------------------------- *)
Lemma tpv_poly_ext : forall l1 l2 x y, (forall k, In k tpv_supported -> l1 k = l2 k) ->
  tpv_poly l1 x y = tpv_poly l2 x y.
Proof.
  intros l1 l2 x y H. unfold tpv_poly.
  induction tpv_supported as [|a t IH]; simpl; [reflexivity|].
  unfold tpv_value at 1 3. rewrite (H a) by (left; reflexivity).
  rewrite IH; [reflexivity|]. intros k Hk. apply H. right. exact Hk.
Qed.

Lemma tpv_poly_none : forall x y, tpv_poly (fun _ => None) x y = x.
Proof. intros. table_cbv. ring. Qed.

Lemma pv_count_zero : forall look x y, pv_count look = 0%nat -> tpv_poly look x y = x.
Proof.
  intros look x y H. transitivity (tpv_poly (fun _ => None) x y); [|apply tpv_poly_none].
  apply tpv_poly_ext. intros k Hk.
  unfold pv_count in H. pose proof (filter_nil_forall _ _ H k) as Hf.
  destruct tpv_supported_are_the_polynomial_terms as [_ E]. rewrite E in Hf. specialize (Hf Hk).
  destruct (look k); [discriminate|reflexivity].
Qed.

(* ---------------------------------------------------------------------------------------- *)
(* pixel -> intermediate world coordinates                                                    *)
(* ---------------------------------------------------------------------------------------- *)
Lemma pix2inter_matches_fits : forall h x y, supported h ->
  pix2inter (mk_wcs h) x y true = fits_intermediate h x y.
Proof.
  intros h x y [_ Hsip]. unfold pix2inter, fits_intermediate, has_dist, mk_wcs. cbn [w_hdr w_dist].
  unfold extract_distortion, apply_cd.
  destruct (h_proj h) eqn:Ep.
  - (* -TAN *)
    destruct (Nat.eqb (pv_count (fun k => assoc_nat k (h_pv1 h))) 0 &&
              Nat.eqb (pv_count (fun k => assoc_nat k (h_pv2 h))) 0) eqn:Ec; cbn [d_name d_a d_b andb fst snd].
    + apply andb_true_iff in Ec. destruct Ec as [E1 E2]. apply Nat.eqb_eq in E1, E2.
      rewrite (pv_count_zero _ _ _ E1), (pv_count_zero _ _ _ E2). reflexivity.
    + unfold distort_with.
      destruct (tpv_table_correct_lemma (fun k => assoc_nat k (h_pv1 h))
                  (h_cd11 h * (x - h_crpix1 h) + h_cd12 h * (y - h_crpix2 h))
                  (h_cd21 h * (x - h_crpix1 h) + h_cd22 h * (y - h_crpix2 h))) as [T1 _].
      destruct (tpv_table_correct_lemma (fun k => assoc_nat k (h_pv2 h))
                  (h_cd11 h * (x - h_crpix1 h) + h_cd12 h * (y - h_crpix2 h))
                  (h_cd21 h * (x - h_crpix1 h) + h_cd22 h * (y - h_crpix2 h))) as [_ T2].
      rewrite T1, T2. f_equal; ring.
  - (* -TPV: the same code path *)
    destruct (Nat.eqb (pv_count (fun k => assoc_nat k (h_pv1 h))) 0 &&
              Nat.eqb (pv_count (fun k => assoc_nat k (h_pv2 h))) 0) eqn:Ec; cbn [d_name d_a d_b andb fst snd].
    + apply andb_true_iff in Ec. destruct Ec as [E1 E2]. apply Nat.eqb_eq in E1, E2.
      rewrite (pv_count_zero _ _ _ E1), (pv_count_zero _ _ _ E2). reflexivity.
    + unfold distort_with.
      destruct (tpv_table_correct_lemma (fun k => assoc_nat k (h_pv1 h))
                  (h_cd11 h * (x - h_crpix1 h) + h_cd12 h * (y - h_crpix2 h))
                  (h_cd21 h * (x - h_crpix1 h) + h_cd22 h * (y - h_crpix2 h))) as [T1 _].
      destruct (tpv_table_correct_lemma (fun k => assoc_nat k (h_pv2 h))
                  (h_cd11 h * (x - h_crpix1 h) + h_cd12 h * (y - h_crpix2 h))
                  (h_cd21 h * (x - h_crpix1 h) + h_cd22 h * (y - h_crpix2 h))) as [_ T2].
      rewrite T1, T2. f_equal; ring.
  - (* -TAN-SIP *)
    destruct (Hsip eq_refl) as [Wa Wb].
    destruct (Nat.eqb (sip_count (h_a_order h) (h_sipa h)) 0 &&
              Nat.eqb (sip_count (h_b_order h) (h_sipb h)) 0) eqn:Ec; cbn [d_name d_a d_b andb fst snd].
    + apply andb_true_iff in Ec. destruct Ec as [E1 E2]. apply Nat.eqb_eq in E1, E2.
      rewrite (sip_count_zero _ _ _ _ E1), (sip_count_zero _ _ _ _ E2). f_equal; ring.
    + unfold distort_with. cbn [fst snd].
      rewrite (sip_order_lemma _ _ _ _ Wa), (sip_order_lemma _ _ _ _ Wb). f_equal; ring.
Qed.

(* with distort=False every header is treated as a plain tangent-plane header *)
Lemma pix2inter_nodistort : forall h x y,
  pix2inter (mk_wcs h) x y false = apply_cd h (x - h_crpix1 h) (y - h_crpix2 h).
Proof.
  intros. unfold pix2inter. cbn [andb w_hdr mk_wcs]. destruct (h_proj h); reflexivity.
Qed.

(* C10 -- the tangent-plane inverse is two-sided: for every sky position on the visible hemisphere of the projection
   (native latitude strictly between 0 and 90 degrees; the reference point itself is excluded because the code divides by
   tan(90 deg) there) image2sky(sky2image(lon, lat)) is the same direction on the sky, without distortion. *)
From Coq Require Import Reals List Bool Lra Psatz.
From EsVerif.Common Require Import Base.
From EsVerif.C10 Require Import Gen Model Spec Trig Forward Poly Root.
Import ListNotations.
Local Open Scope R_scope.

Lemma r2d_rad : forall a, rad (r2d * a) = a.
Proof. intro a. unfold rad, r2d. pose proof PI_RGT_0. field. lra. Qed.

Lemma tan_native_of_sph : forall lo la, 0 < la < PI / 2 ->
  tan_native_vec (r2d / tan la * sin lo) (- (r2d / tan la) * cos lo) = vec_of lo la.
Proof.
  intros lo la [H0 H1].
  assert (Hs : 0 < sin la) by (apply sin_gt_0; pose proof PI_RGT_0; lra).
  assert (Hc : 0 < cos la) by (apply cos_gt_0; lra).
  assert (Ht : tan la = sin la / cos la) by reflexivity.
  assert (HX : rad (r2d / tan la * sin lo) = sin lo * cos la / sin la).
  { replace (r2d / tan la * sin lo) with (r2d * (sin lo / tan la)) by (unfold Rdiv; ring).
    rewrite r2d_rad, Ht. field. lra. }
  assert (HY : rad (- (r2d / tan la) * cos lo) = - (cos lo * cos la / sin la)).
  { replace (- (r2d / tan la) * cos lo) with (r2d * (- (cos lo / tan la))) by (unfold Rdiv; ring).
    rewrite r2d_rad, Ht. field. lra. }
  unfold tan_native_vec, vec_of. rewrite HX, HY.
  pose proof (sin2_cos2 lo) as P1. pose proof (sin2_cos2 la) as P2. unfold Rsqr in P1, P2.
  assert (Hn : sqrt (1 + sin lo * cos la / sin la * (sin lo * cos la / sin la) +
                     - (cos lo * cos la / sin la) * - (cos lo * cos la / sin la)) = / sin la).
  { apply sqrt_lem_1.
    - assert (0 <= (sin lo * cos la / sin la) * (sin lo * cos la / sin la)) by nra.
      assert (0 <= (cos lo * cos la / sin la) * (cos lo * cos la / sin la)) by nra. nra.
    - left. apply Rinv_0_lt_compat. exact Hs.
    - transitivity ((sin la * sin la + (sin lo * sin lo + cos lo * cos lo) * (cos la * cos la)) / (sin la * sin la)).
      + rewrite P1, Rmult_1_l, P2. field. lra.
      + field. lra. }
  rewrite Hn. f_equal; [f_equal|]; field; lra.
Qed.

Lemma transpose_involutive : forall r, transpose (transpose r) = r.
Proof. intro r. destruct r. reflexivity. Qed.

Lemma image2sph_of_sph2image : forall w lon lat, orthogonal (w_rot w) ->
  let ll := Rotate w lon lat false in
  0 < snd ll * d2r < PI / 2 ->
  let xy := sph2image w lon lat in
  unitvec (fst (image2sph w (fst xy) (snd xy))) (snd (image2sph w (fst xy) (snd xy))) = unitvec lon lat.
Proof.
  intros w lon lat Ho ll Hla xy.
  rewrite (image2sph_vec w _ _ Ho). unfold xy, sph2image. fold ll.
  destruct (Rlt_dec 0 (snd ll * d2r)) as [_|C]; [|exfalso; lra]. cbn [fst snd].
  rewrite (tan_native_of_sph (fst ll * d2r) (snd ll * d2r) Hla).
  rewrite <- unitvec_vec_of. unfold ll, Rotate. cbn [fst snd].
  rewrite (rotate_vec _ _ _ Ho).
  pose proof (mapply_transpose_inv (transpose (w_rot w)) (vec_of (lon * d2r) (lat * d2r)) (orthogonal_transpose _ Ho)) as M.
  rewrite transpose_involutive in M. rewrite M. symmetry. apply unitvec_vec_of.
Qed.

(* on the level of the operations: image2sky(distort=False) o sky2image(find=False, distort=False) *)
Lemma tan_forward_of_inverse : forall h lon lat, cd_det h <> 0 ->
  let w := mk_wcs h in
  0 < snd (Rotate w lon lat false) * d2r < PI / 2 ->
  let xy := sky2image_nodistort w lon lat in
  let ll := image2sky w (fst xy) (snd xy) false in
  unitvec (fst ll) (snd ll) = unitvec lon lat.
Proof.
  intros h lon lat Hd w Hla xy ll. unfold ll, image2sky. unfold w. rewrite pix2inter_nodistort. fold w.
  assert (E : apply_cd h (fst xy - h_crpix1 h) (snd xy - h_crpix2 h) = sph2image w lon lat).
  { unfold xy, sky2image_nodistort. cbn [w_hdr w mk_wcs].
    set (uv := sph2image w lon lat).
    destruct (h_proj h); cbn [fst snd];
      replace (fst (apply_cdinv h (fst uv) (snd uv)) + h_crpix1 h - h_crpix1 h) with (fst (apply_cdinv h (fst uv) (snd uv))) by ring;
      replace (snd (apply_cdinv h (fst uv) (snd uv)) + h_crpix2 h - h_crpix2 h) with (snd (apply_cdinv h (fst uv) (snd uv))) by ring;
      rewrite (apply_cd_cdinv h _ _ Hd); symmetry; apply surjective_pairing. }
  rewrite E. apply (image2sph_of_sph2image w lon lat (mk_wcs_orthogonal h) Hla).
Qed.

(* the hypothesis is met by every sky position that image2sph produces away from the reference point: its native
   latitude is strictly between 0 and 90 degrees (non-vacuity, and the link between the two one-sided statements) *)
Lemma native_latitude_of_image2sph : forall w x y, orthogonal (w_rot w) -> (x, y) <> (0, 0) ->
  let ll := image2sph w x y in
  0 < snd (Rotate w (fst ll) (snd ll) false) * d2r < PI / 2.
Proof.
  intros w x y Ho Hxy ll.
  pose proof (image2sph_vec w x y Ho) as Hv. fold ll in Hv.
  set (lon := fst ll) in *. set (lat := snd ll) in *.
  unfold Rotate.
  pose proof (rotate_vec (lon * d2r) (lat * d2r) (w_rot w) Ho) as Hr.
  rewrite <- unitvec_vec_of, Hv, (mapply_transpose_inv _ _ Ho) in Hr.
  unfold rotate_ in *. cbn [fst snd] in *.
  set (l := cos (lat * d2r) * cos (lon * d2r)) in *. set (m := cos (lat * d2r) * sin (lon * d2r)) in *.
  set (n := sin (lat * d2r)) in *.
  set (b0 := m00 (w_rot w) * l + m10 (w_rot w) * m + m20 (w_rot w) * n) in *.
  set (b1 := m01 (w_rot w) * l + m11 (w_rot w) * m + m21 (w_rot w) * n) in *.
  set (b2 := Rclip (m02 (w_rot w) * l + m12 (w_rot w) * m + m22 (w_rot w) * n) (-1) 1) in *.
  set (lo := atan2 b1 b0) in *. set (la := atan2 b2 (sqrt (b0 * b0 + b1 * b1))) in *.
  rewrite unitvec_vec_of, !d2r_r2d in Hr. rewrite !d2r_r2d.
  unfold vec_of, tan_native_vec in Hr.
  set (X := rad x) in *. set (Y := rad y) in *.
  set (s := sqrt (1 + X * X + Y * Y)) in *.
  assert (Hs : 0 < s) by (apply sqrt_lt_R0; nra).
  inversion Hr as [[H0 H1 H2]]. clear Hr.
  pose proof PI_RGT_0 as Hpi.
  assert (HXY : 0 < X * X + Y * Y).
  { assert (x <> 0 \/ y <> 0) as [Hx|Hy].
    { destruct (Req_dec x 0) as [Ex|Ex]; [right|left; exact Ex]. intro Ey. apply Hxy. rewrite Ex, Ey. reflexivity. }
    - assert (X <> 0) by (unfold X, rad; intro E; apply Hx; nra). nra.
    - assert (Y <> 0) by (unfold Y, rad; intro E; apply Hy; nra). nra. }
  assert (Hsla : 0 < sin la) by (rewrite H2; apply Rdiv_lt_0_compat; lra).
  assert (Hcc : cos la * cos la = (X * X + Y * Y) / (s * s)).
  { replace (cos la * cos la) with ((cos la * cos lo) * (cos la * cos lo) + (cos la * sin lo) * (cos la * sin lo)).
    - rewrite H0, H1. field. lra.
    - pose proof (sin2_cos2 lo) as Hq. unfold Rsqr in Hq. nra. }
  assert (Hla_bounds : - PI < la <= PI) by apply atan2_range.
  assert (Hcla : 0 < cos la).
  { unfold la. set (rho := sqrt (b0 * b0 + b1 * b1)).
    assert (Hrho : 0 <= rho) by apply sqrt_pos.
    destruct Hrho as [Hpos|Hzero].
    - unfold atan2. destruct (Rlt_dec 0 rho) as [_|C]; [|lra].
      apply cos_gt_0; pose proof (atan_bound (b2 / rho)); lra.
    - exfalso. fold rho in la. assert (Hc0 : cos la = 0).
      { unfold la, atan2. rewrite <- Hzero.
        destruct (Rlt_dec 0 0) as [C|_]; [lra|]. destruct (Rlt_dec 0 0) as [C|_]; [lra|].
        destruct (Rlt_dec 0 b2); [apply cos_PI2|]. destruct (Rlt_dec b2 0); [rewrite cos_neg; apply cos_PI2|].
        exfalso. unfold la, atan2 in Hsla. rewrite <- Hzero in Hsla.
        destruct (Rlt_dec 0 0) as [C|_]; [lra|]. destruct (Rlt_dec 0 0) as [C|_]; [lra|].
        destruct (Rlt_dec 0 b2); [lra|]. destruct (Rlt_dec b2 0); [lra|]. rewrite sin_0 in Hsla. lra. }
      rewrite Hc0 in Hcc. assert (0 < (X * X + Y * Y) / (s * s)) by (apply Rdiv_lt_0_compat; nra). lra. }
  assert (Hla : 0 < la).
  { destruct (Rlt_dec 0 la) as [H|H]; [exact H|]. exfalso.
    assert (sin la <= 0).
    { destruct (Req_dec la 0) as [E0|N0]; [rewrite E0, sin_0; lra|].
      left. apply sin_lt_0_var; lra. }
    lra. }
  split; [exact Hla|].
  destruct (Rlt_dec la (PI / 2)) as [H|H]; [exact H|]. exfalso.
  assert (cos la <= 0) by (apply cos_le_0; lra). lra.
Qed.

(* C10 — top-level lemmas: forward chain against the FITS reference, reference pixel, inverse,
   closeness on the sky, checker soundness. *)
From Coq Require Import Reals Lra Lia List Arith Bool QArith Qabs.
From EsVerif.Common Require Import Base.
From EsVerif.C10 Require Import Gen Model Spec Trig Forward Poly History.
Import ListNotations.
Local Open Scope R_scope.

(* ---------------------------------------------------------------------------------------- *)
(* forward                                                                                    *)
(* ---------------------------------------------------------------------------------------- *)
Lemma forward_matches_fits_lemma : forall h x y, supported h ->
  let ll := image2sky (mk_wcs h) x y true in
  unitvec (fst ll) (snd ll) = fits_pix2sky_vec h x y.
Proof.
  intros h x y Hs. cbv zeta. unfold image2sky, fits_pix2sky_vec.
  rewrite (pix2inter_matches_fits h x y Hs).
  apply image2sph_matches_fits. apply Hs.
Qed.

(* distort=False: the plain tangent-plane computation of the same header *)
Lemma forward_nodistort_lemma : forall h x y, h_longpole h = 180 ->
  let ll := image2sky (mk_wcs h) x y false in
  let xe := apply_cd h (x - h_crpix1 h) (y - h_crpix2 h) in
  unitvec (fst ll) (snd ll) = fits_sky_vec (h_crval1 h) (h_crval2 h) (fst xe) (snd xe).
Proof.
  intros h x y Hl. cbv zeta. unfold image2sky. rewrite pix2inter_nodistort.
  apply image2sph_matches_fits. exact Hl.
Qed.

Lemma lon_range_lemma : forall h x y d, 0 <= fst (image2sky (mk_wcs h) x y d) < 360.
Proof. intros. unfold image2sky. apply image2sph_lon_range. Qed.

(* the reference pixel *)
Lemma crpix_maps_to_crval_lemma : forall h, supported h ->
  fits_intermediate h (h_crpix1 h) (h_crpix2 h) = (0, 0) ->
  let ll := image2sky (mk_wcs h) (h_crpix1 h) (h_crpix2 h) true in
  unitvec (fst ll) (snd ll) = unitvec (h_crval1 h) (h_crval2 h) /\ 0 <= fst ll < 360.
Proof.
  intros h Hs H0. cbv zeta. split; [|apply lon_range_lemma].
  rewrite (forward_matches_fits_lemma h _ _ Hs). unfold fits_pix2sky_vec. rewrite H0. cbn [fst snd].
  apply fits_sky_vec_origin.
Qed.

(* when does the reference pixel have intermediate coordinates (0,0): TAN/TPV iff the constant
   terms PV1_0, PV2_0 are absent or zero; SIP when A_0_0, B_0_0 are absent or zero *)
Lemma crpix_intermediate_tpv : forall h, h_proj h <> PSip ->
  fits_intermediate h (h_crpix1 h) (h_crpix2 h)
  = (tpv_value (fun k => assoc_nat k (h_pv1 h)) 0, tpv_value (fun k => assoc_nat k (h_pv2 h)) 0).
Proof.
  intros h Hp. unfold fits_intermediate.
  replace (h_crpix1 h - h_crpix1 h) with 0 by ring. replace (h_crpix2 h - h_crpix2 h) with 0 by ring.
  replace (h_cd11 h * 0 + h_cd12 h * 0) with 0 by ring. replace (h_cd21 h * 0 + h_cd22 h * 0) with 0 by ring.
  assert (E : forall look, tpv_poly look 0 0 = tpv_value look 0) by (intro look; table_cbv; ring).
  destruct (h_proj h); try (rewrite !E; reflexivity). contradiction Hp; reflexivity.
Qed.

Lemma crpix_intermediate_tan : forall h, h_proj h <> PSip ->
  assoc_nat 0%nat (h_pv1 h) = None -> assoc_nat 0%nat (h_pv2 h) = None ->
  fits_intermediate h (h_crpix1 h) (h_crpix2 h) = (0, 0).
Proof.
  intros h Hp H1 H2. rewrite (crpix_intermediate_tpv h Hp). unfold tpv_value. rewrite H1, H2. reflexivity.
Qed.

Lemma sip_poly_at_origin : forall order cs, sip_poly order cs 0 0 = sip_value cs 0 0.
Proof.
  intros. rewrite sip_poly_rsum.
  change (seq 0 (S order)) with (0%nat :: seq 1 order). cbn [rsum fold_right].
  fold (rsum (fun p : nat => rsum (fun q : nat => sip_value cs p q * 0 ^ p * 0 ^ q) (seq 0 (S order - p))) (seq 1 order)).
  rewrite Nat.sub_0_r. change (seq 0 (S order)) with (0%nat :: seq 1 order). cbn [rsum fold_right].
  fold (rsum (fun q : nat => sip_value cs 0 q * 0 ^ 0 * 0 ^ q) (seq 1 order)).
  rewrite (rsum_zero (fun q : nat => sip_value cs 0 q * 0 ^ 0 * 0 ^ q) (seq 1 order)).
  - rewrite (rsum_zero _ (seq 1 order)); [simpl; ring|].
    intros p Hp. apply in_seq in Hp. apply rsum_zero. intros q _.
    destruct p as [|p]; [lia|]. simpl. ring.
  - intros q Hq. apply in_seq in Hq. destruct q as [|q]; [lia|]. simpl. ring.
Qed.

Lemma crpix_intermediate_sip : forall h, h_proj h = PSip ->
  assoc_nn 0 0 (h_sipa h) = None -> assoc_nn 0 0 (h_sipb h) = None ->
  fits_intermediate h (h_crpix1 h) (h_crpix2 h) = (0, 0).
Proof.
  intros h Hp H1 H2. unfold fits_intermediate. rewrite Hp.
  replace (h_crpix1 h - h_crpix1 h) with 0 by ring. replace (h_crpix2 h - h_crpix2 h) with 0 by ring.
  rewrite !sip_poly_at_origin. unfold sip_value. rewrite H1, H2. f_equal; ring.
Qed.

(* ---------------------------------------------------------------------------------------- *)
(* inverse without distortion                                                                 *)
(* ---------------------------------------------------------------------------------------- *)
Lemma sky2image_direct_nodistort : forall fit w s lon lat,
  sky2image_direct fit w s lon lat false = (s, sky2image_nodistort w lon lat).
Proof.
  intros. unfold sky2image_direct, sky2image_nodistort. cbn [andb]. destruct (h_proj (w_hdr w)); reflexivity.
Qed.

Lemma tan_inverse_lemma : forall h x y, cd_det h <> 0 -> (x, y) <> (h_crpix1 h, h_crpix2 h) ->
  let ll := image2sky (mk_wcs h) x y false in
  sky2image_nodistort (mk_wcs h) (fst ll) (snd ll) = (x, y).
Proof.
  intros h x y Hd Hxy. cbv zeta. unfold image2sky. rewrite pix2inter_nodistort.
  set (uv := apply_cd h (x - h_crpix1 h) (y - h_crpix2 h)).
  assert (Hne : (x - h_crpix1 h, y - h_crpix2 h) <> (0, 0)).
  { intro E. inversion E. apply Hxy. f_equal; lra. }
  assert (Huv : uv <> (0, 0)) by (apply apply_cd_nonzero; assumption).
  unfold sky2image_nodistort. cbn [w_hdr mk_wcs].
  rewrite (sph2image_image2sph (mk_wcs h) (fst uv) (snd uv) (mk_wcs_orthogonal h)).
  2:{ destruct uv; exact Huv. }
  cbn [fst snd]. unfold uv. rewrite (apply_cdinv_cd h _ _ Hd). cbn [fst snd].
  destruct (h_proj h); f_equal; ring.
Qed.

(* the same through the operations of the object: sky2image(find=False, distort=False), and for
   a header without distortion model every flag combination *)
Lemma tan_inverse_op_lemma : forall fit fsolve h s x y xtol,
  cd_det h <> 0 -> (x, y) <> (h_crpix1 h, h_crpix2 h) ->
  let ll := image2sky (mk_wcs h) x y false in
  snd (sky2image fit fsolve (mk_wcs h) s (fst ll) (snd ll) false false xtol) = (x, y).
Proof.
  intros fit fsolve h s x y xtol Hd Hxy. cbv zeta. unfold sky2image. cbn [andb].
  rewrite sky2image_direct_nodistort. cbn [snd]. apply tan_inverse_lemma; assumption.
Qed.

Lemma tan_inverse_plain_header_lemma : forall fit fsolve h s x y distort distort' find xtol,
  has_dist (mk_wcs h) = false ->
  cd_det h <> 0 -> (x, y) <> (h_crpix1 h, h_crpix2 h) ->
  let ll := image2sky (mk_wcs h) x y distort in
  snd (sky2image fit fsolve (mk_wcs h) s (fst ll) (snd ll) distort' find xtol) = (x, y).
Proof.
  intros fit fsolve h s x y distort distort' find xtol Hn Hd Hxy. cbv zeta.
  assert (E1 : image2sky (mk_wcs h) x y distort = image2sky (mk_wcs h) x y false).
  { unfold image2sky, pix2inter. rewrite Hn. rewrite andb_false_r. reflexivity. }
  rewrite E1. unfold sky2image. rewrite Hn, andb_false_r.
  assert (E2 : sky2image_direct fit (mk_wcs h) s
                 (fst (image2sky (mk_wcs h) x y false)) (snd (image2sky (mk_wcs h) x y false)) distort'
               = sky2image_direct fit (mk_wcs h) s
                 (fst (image2sky (mk_wcs h) x y false)) (snd (image2sky (mk_wcs h) x y false)) false).
  { unfold sky2image_direct. rewrite Hn, andb_false_r. reflexivity. }
  rewrite E2, sky2image_direct_nodistort. cbn [snd]. apply tan_inverse_lemma; assumption.
Qed.

(* ---------------------------------------------------------------------------------------- *)
(* closeness on the sky                                                                       *)
(* ---------------------------------------------------------------------------------------- *)
Lemma unitvec_unit : forall lon lat, vdot (unitvec lon lat) (unitvec lon lat) = 1.
Proof. intros. rewrite unitvec_vec_of. apply vec_of_unit. Qed.

(* chord(u,v) <= chord(tol)  =>  u.v >= cos tol, i.e. the angle between u and v is at most tol *)
Lemma sky_close_angle_lemma : forall u v tol, vdot u u = 1 -> vdot v v = 1 -> sky_close u v tol ->
  cos (rad tol) <= vdot u v.
Proof.
  intros [[u0 u1] u2] [[v0 v1] v2] tol Hu Hv Hc.
  unfold sky_close, vdist2, vdot, vx, vy, vz in *. cbn [fst snd] in *.
  replace (rad tol) with (2 * (rad tol / 2)) by field.
  rewrite cos_2a_sin.
  set (s := sin (rad tol / 2)) in *. nra.
Qed.

Lemma fits_sky_vec_unit : forall a0 d0 xi eta,
  vdot (fits_sky_vec a0 d0 xi eta) (fits_sky_vec a0 d0 xi eta) = 1.
Proof.
  intros. rewrite <- (rotated_native_is_gnomonic a0 d0 xi eta).
  pose proof (rotmat_orthogonal (a0 * d2r) (d0 * d2r) 180) as Ho.
  pose proof (orthogonal_preserves_norm _ (tan_native_vec xi eta) (orthogonal_transpose _ Ho)) as Hn.
  replace (transpose (transpose (rotation_matrix (a0 * d2r) (d0 * d2r) 180)))
    with (rotation_matrix (a0 * d2r) (d0 * d2r) 180) in Hn by reflexivity.
  rewrite Hn. unfold tan_native_vec, vdot, vx, vy, vz. cbn [fst snd].
  set (n := sqrt (1 + rad xi * rad xi + rad eta * rad eta)).
  assert (Hpos : 0 < 1 + rad xi * rad xi + rad eta * rad eta) by nra.
  assert (Hn0 : 0 < n) by (apply sqrt_lt_R0; exact Hpos).
  assert (Hnn : n * n = 1 + rad xi * rad xi + rad eta * rad eta) by (apply sqrt_sqrt; lra).
  replace (- rad eta / n * (- rad eta / n) + rad xi / n * (rad xi / n) + 1 / n * (1 / n))
    with ((1 + rad xi * rad xi + rad eta * rad eta) / (n * n)) by (field; lra).
  rewrite Hnn. field. lra.
Qed.

(* ---------------------------------------------------------------------------------------- *)
(* soundness of the rational checkers                                                         *)
(* ---------------------------------------------------------------------------------------- *)
Local Open Scope Q_scope.

Lemma range_check_sound : forall lon lat, range_check lon lat = true ->
  0 <= lon /\ lon < 360 /\ -90 <= lat /\ lat <= 90.
Proof.
  intros lon lat H. unfold range_check in H.
  apply andb_true_iff in H. destruct H as [H H4]. apply andb_true_iff in H. destruct H as [H H3].
  apply andb_true_iff in H. destruct H as [H1 H2].
  apply Qle_bool_iff in H1, H3, H4. apply negb_true_iff in H2.
  repeat split; try assumption.
  apply Qnot_le_lt. intro C. apply Qle_bool_iff in C. congruence.
Qed.

Lemma px_close_check_sound : forall x y xb yb tol, px_close_check x y xb yb tol = true ->
  0 <= tol /\ qdist2 x y xb yb < tol * tol.
Proof.
  intros x y xb yb tol H. unfold px_close_check in H. apply andb_true_iff in H. destruct H as [H1 H2].
  apply Qle_bool_iff in H1. apply negb_true_iff in H2. split; [assumption|].
  apply Qnot_le_lt. intro C. apply Qle_bool_iff in C. congruence.
Qed.

Lemma qlist_eqb_sound : forall a b, qlist_eqb a b = true -> Forall2 Qeq a b.
Proof.
  induction a as [|x s IH]; intros [|y t] H; simpl in H; try discriminate; [constructor|].
  apply andb_true_iff in H. destruct H as [H1 H2]. constructor; [apply Qeq_bool_iff; exact H1|apply IH; exact H2].
Qed.

Lemma cdinv_check_sound : forall a b c d ia ib ic id tol, cdinv_check a b c d ia ib ic id tol = true ->
  Qabs (ia * a + ib * c - 1) <= tol /\ Qabs (ia * b + ib * d) <= tol /\
  Qabs (ic * a + id * c) <= tol /\ Qabs (ic * b + id * d - 1) <= tol.
Proof.
  intros. unfold cdinv_check in H. repeat (apply andb_true_iff in H; destruct H as [H ?]).
  repeat split; apply Qle_bool_iff; assumption.
Qed.

Lemma qlist_close_abs_sound : forall a b tol, qlist_close_abs a b tol = true ->
  Forall2 (fun x y => Qabs (x - y) <= tol) a b.
Proof.
  induction a as [|x s IH]; intros [|y t] tol H; simpl in H; try discriminate; [constructor|].
  apply andb_true_iff in H. destruct H as [H1 H2]. constructor; [apply Qle_bool_iff; exact H1|apply IH; exact H2].
Qed.

Lemma sky_same_check_sound : forall lon lat lon' lat' tol, sky_same_check lon lat lon' lat' tol = true ->
  Qabs (lat - lat') <= tol /\ lon_wrap_abs (lon - lon') * lon_weight lat <= tol.
Proof.
  intros lon lat lon' lat' tol H. unfold sky_same_check in H. apply andb_true_iff in H. destruct H as [H1 H2].
  split; apply Qle_bool_iff; assumption.
Qed.

Lemma sky_list_same_sound : forall a b tol, sky_list_same a b tol = true ->
  Forall2 (fun p q => Qabs (snd p - snd q) <= tol /\
                      lon_wrap_abs (fst p - fst q) * lon_weight (snd p) <= tol) a b.
Proof.
  induction a as [|[l t] s IH]; intros [|[l' t'] s'] tol H; simpl in H; try discriminate; [constructor|].
  apply andb_true_iff in H. destruct H as [H1 H2].
  constructor; [apply sky_same_check_sound; exact H1|apply IH; exact H2].
Qed.

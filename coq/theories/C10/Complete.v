(* C10 -- the boolean checkers decide their properties: completeness (soundness is in Proofs.v) *)
From Coq Require Import Reals List Bool QArith Qabs Qminmax Lia.
From EsVerif.C10 Require Import Gen Model Spec.
Import ListNotations.
Local Open Scope Q_scope.

Lemma negb_Qle_bool_of_lt : forall a b, a < b -> negb (Qle_bool b a) = true.
Proof.
  intros a b H. apply negb_true_iff. destruct (Qle_bool b a) eqn:E; [|reflexivity].
  apply Qle_bool_iff in E. exfalso. apply (Qlt_not_le _ _ H E).
Qed.

Lemma range_check_complete : forall lon lat,
  0 <= lon /\ lon < 360 /\ -90 <= lat /\ lat <= 90 -> range_check lon lat = true.
Proof.
  intros lon lat (H1 & H2 & H3 & H4). unfold range_check.
  rewrite (proj2 (Qle_bool_iff _ _) H1), (negb_Qle_bool_of_lt _ _ H2), (proj2 (Qle_bool_iff _ _) H3),
    (proj2 (Qle_bool_iff _ _) H4). reflexivity.
Qed.

Lemma px_close_check_complete : forall x y xb yb tol,
  0 <= tol /\ qdist2 x y xb yb < tol * tol -> px_close_check x y xb yb tol = true.
Proof.
  intros x y xb yb tol [H1 H2]. unfold px_close_check.
  rewrite (proj2 (Qle_bool_iff _ _) H1), (negb_Qle_bool_of_lt _ _ H2). reflexivity.
Qed.

Lemma qlist_eqb_complete : forall a b, Forall2 Qeq a b -> qlist_eqb a b = true.
Proof.
  intros a b H. induction H as [|x y s t Hxy _ IH]; [reflexivity|].
  cbn [qlist_eqb]. rewrite (proj2 (Qeq_bool_iff _ _) Hxy), IH. reflexivity.
Qed.

Lemma qlist_close_abs_complete : forall a b tol,
  Forall2 (fun x y => Qabs (x - y) <= tol) a b -> qlist_close_abs a b tol = true.
Proof.
  intros a b tol H. induction H as [|x y s t Hxy _ IH]; [reflexivity|].
  cbn [qlist_close_abs]. rewrite (proj2 (Qle_bool_iff _ _) Hxy), IH. reflexivity.
Qed.

Lemma cdinv_check_complete : forall a b c d ia ib ic id tol,
  Qabs (ia * a + ib * c - 1) <= tol /\ Qabs (ia * b + ib * d) <= tol /\
  Qabs (ic * a + id * c) <= tol /\ Qabs (ic * b + id * d - 1) <= tol ->
  cdinv_check a b c d ia ib ic id tol = true.
Proof.
  intros a b c d ia ib ic id tol (H1 & H2 & H3 & H4). unfold cdinv_check.
  rewrite (proj2 (Qle_bool_iff _ _) H1), (proj2 (Qle_bool_iff _ _) H2), (proj2 (Qle_bool_iff _ _) H3),
    (proj2 (Qle_bool_iff _ _) H4). reflexivity.
Qed.

Lemma sky_same_check_complete : forall lon lat lon' lat' tol,
  Qabs (lat - lat') <= tol /\ lon_wrap_abs (lon - lon') * lon_weight lat <= tol ->
  sky_same_check lon lat lon' lat' tol = true.
Proof.
  intros lon lat lon' lat' tol [H1 H2]. unfold sky_same_check.
  rewrite (proj2 (Qle_bool_iff _ _) H1), (proj2 (Qle_bool_iff _ _) H2). reflexivity.
Qed.

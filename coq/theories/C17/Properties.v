(* C17 — property theorems only.  Bodies live in Proofs.v / Integral.v / CheckProofs.v. *)
From Coq Require Import Reals QArith PrimFloat Lra Lia.
From Coquelicot Require Import Coquelicot.
From EsVerif.Common Require Import Base.
From EsVerif.C17 Require Import Model Dyadic Spec Proofs Integral CheckProofs FillProofs SmallRules DataAtProofs Legendre SumProofs CheckComplete.
Import RM.

Local Open Scope R_scope.

(* The closed form used by the certificates is the Riemann integral of the polynomial. *)
Theorem C17_polynomial_integral : forall a b p, is_RInt (peval p) a b (Pint a b p).
Proof. exact peval_is_RInt. Qed.

(* Moment certificates (a finite, per-rule obligation) lift to EVERY polynomial of degree < N:
   the error is at most eps times the 1-norm of the coefficients. *)
Theorem C17_moments_lift : forall xs ws N eps p,
  moments_ok xs ws N eps -> (length p <= N)%nat ->
  Rabs (Qrule xs ws (peval p) - Pint (-1) 1 p) <= eps * norm1 p.
Proof. exact moments_lift. Qed.

(* Affine map: nodes xm + xl z, weights xl w turn a rule on [-1,1] into the rule on [a,b]
   (any a, b; a > b included: the weights change sign with b - a). *)
Theorem C17_affine_rule : forall a b zs ws f,
  Qrule (map_nodes a b zs) (map_weights a b ws) f =
  (b - a) / 2 * Qrule zs ws (fun z => f ((a + b) / 2 + (b - a) / 2 * z)).
Proof. exact Qrule_affine. Qed.

(* ... and the mapped rule is exact to degree N-1 on [a,b] up to the certified moment error. *)
Theorem C17_exact_to_degree : forall zs ws N eps a b p,
  moments_ok zs ws N eps -> (length p <= N)%nat ->
  Rabs (Qrule (map_nodes a b zs) (map_weights a b ws) (peval p) - RInt (peval p) a b)
  <= Rabs (b - a) / 2 * (eps * norm1 (pcomp p ((a + b) / 2) ((b - a) / 2))).
Proof. intros. rewrite peval_RInt. apply (affine_rule_poly zs ws N); assumption. Qed.

Theorem C17_weights_sum : forall a b zs ws N eps,
  moments_ok zs ws N eps -> (0 < N)%nat -> length zs = length ws ->
  Rabs (Rsum (map_weights a b ws) - (b - a)) <= Rabs (b - a) / 2 * eps.
Proof. exact weights_sum. Qed.

(* Mirrored fill (cgauleg_pywrap.c:74-77): abscissae symmetric about xm, weights symmetric; for
   odd n this needs the middle root to be exactly 0 (a per-run obligation, checked). *)
Theorem C17_mirror_symmetric : forall n xm xl zs wl,
  let m := length zs in
  length wl = m -> (n = 2 * m \/ S n = 2 * m)%nat ->
  ((S n = 2 * m)%nat -> nth (m - 1)%nat zs 0 = 0) ->
  let xs := mirror_nodes n xm xl zs in
  let ws := mirror_weights n wl in
  length xs = n /\ length ws = n /\
  forall i, (i < n)%nat ->
    nth i xs 0 + nth (n - 1 - i) xs 0 = 2 * xm /\ nth i ws 0 = nth (n - 1 - i) ws 0.
Proof. exact mirror_symmetric. Qed.

(* The C fill loop (cgauleg_pywrap.c:74-77) as what it is — m = (npts+1)/2 passes, each writing
   a[i-1] and a[npts+1-i-1] of a zero-initialised array, the middle entry of an odd rule twice —
   produces exactly the mirrored fill the model (and C17_mirror_symmetric) is stated for; hence
   gauleg with its arrays produced by those writes is the model's gauleg. *)
Theorem C17_fill_loop_is_mirror_fill : forall (A : Type) (d : A) n (lo hi : list A),
  (1 <= n)%nat -> length lo = Z.to_nat (F.m_of (Z.of_nat n)) -> length hi = length lo ->
  F.fill_loop (Z.of_nat n) 1 lo hi (repeat d n) = mirror_fill n lo hi.
Proof. intros A. exact (@fill_loop_is_mirror_fill A). Qed.

Example C17_fill_loop_example :      (* npts = 5, m = 3: the middle entry is written twice, hi wins *)
  F.fill_loop 5 1 [1; 2; 3]%Z [10; 20; 30]%Z (repeat 0%Z 5) = [1; 2; 30; 20; 10]%Z /\
  mirror_fill 5 [1; 2; 3]%Z [10; 20; 30]%Z = [1; 2; 30; 20; 10]%Z.
Proof. split; reflexivity. Qed.

Theorem C17_fill_indices_in_bounds : forall npts i, (1 <= npts)%Z -> (1 <= i <= F.m_of npts)%Z ->
  (0 <= F.idx_lo i < npts)%Z /\ (0 <= F.idx_hi npts i < npts)%Z /\ (F.idx_lo i <= F.idx_hi npts i)%Z.
Proof. exact fill_indices_in_bounds. Qed.

Theorem C17_gauleg_array_writes : forall orig x1 x2 npts coss,
  F.gauleg_gen_w orig x1 x2 npts coss = F.gauleg_gen orig x1 x2 npts coss.
Proof. exact gauleg_writes_eq. Qed.

(* For ALL inputs of the bit-exact model: whenever gauleg returns, it returns npts abscissae and
   npts weights, and the weights are symmetric EXACTLY (bit for bit): w[npts+1-i-1] = w[i-1] is a
   copy.  (Non-vacuity: C17_n1_unchanged_loop_refuted exhibits returning calls.) *)
Theorem C17_gauleg_lengths_and_exact_weight_symmetry : forall orig x1 x2 npts coss xs ws,
  F.gauleg_gen orig x1 x2 npts coss = Ok (xs, ws) ->
  (0 < npts)%Z /\ length xs = Z.to_nat npts /\ length ws = Z.to_nat npts /\ rev ws = ws.
Proof. exact gauleg_lengths_and_weight_symmetry. Qed.

(* The integrators return the rule's weighted sum over the mapped abscissae; for tabulated data,
   of the linearly interpolated values. *)
Theorem C17_integrator_is_weighted_sum :
  (forall zs ws x1 x2 f,
     integrate_func zs ws x1 x2 f = Qrule (map_nodes x1 x2 zs) (map_weights x1 x2 ws) f) /\
  (forall zs ws xv yv,
     integrate_data zs ws xv yv =
     Qrule (map_nodes (Rmin_list xv) (Rmax_list xv) zs) (map_weights (Rmin_list xv) (Rmax_list xv) ws)
           (interplin yv xv)) /\
  (forall zs ws x1 x2 f,
     integrate_func zs ws x1 x2 f =
     integrate_vals ws x1 x2 (map (fun z => f (z * ((x2 - x1) / 2) + (x2 + x1) / 2)) zs)).
Proof.
  split; [exact integrate_func_is_Qrule|]. split; [exact integrate_data_is_Qrule | exact integrate_func_vals].
Qed.

(* interplin on ascending abscissae is the chord through the bracketing tabulated points *)
Theorem C17_interplin_is_linear_interpolation : forall xv yv u j,
  increasing xv -> (S j < length xv)%nat ->
  nth j xv 0 <= u <= nth (S j) xv 0 ->
  interplin yv xv u = chord xv yv j u.
Proof. exact interplin_is_chord. Qed.

(* ... for EVERY abscissa inside the table (no bracket given): a bracketing pair exists and interplin is its
   chord -- the clipping / extrapolation branches of interplin are never the ones that matter; and the
   mapped abscissae of a rule with nodes in (-1,1) do lie strictly inside (x1,x2). *)
Theorem C17_interplin_is_chord_everywhere_inside : forall xv yv u,
  increasing xv -> (2 <= length xv)%nat -> nth 0 xv 0 <= u <= nth (length xv - 1) xv 0 ->
  exists j, (S j < length xv)%nat /\ nth j xv 0 <= u <= nth (S j) xv 0 /\ interplin yv xv u = chord xv yv j u.
Proof. exact interplin_is_chord_everywhere_inside. Qed.

Theorem C17_mapped_abscissa_inside : forall x1 x2 z, x1 < x2 -> -1 < z < 1 ->
  x1 < z * ((x2 - x1) / 2) + (x2 + x1) / 2 < x2.
Proof. exact mapped_abscissa_inside. Qed.

(* The two-dimensional integrator is the tensor-product sum. *)
Theorem C17_tensor_product_sum : forall x wx y wy x1 x2 y1 y2 f,
  integrate_func2 x wx y wy x1 x2 y1 y2 f =
  Qrule (map_nodes y1 y2 y) (map_weights y1 y2 wy)
        (fun yy => Qrule (map_nodes x1 x2 x) (map_weights x1 x2 wx) (fun xx => f xx yy)).
Proof. exact tensor_product_sum. Qed.

Theorem C17_tensor_on_grid_values : forall x wx y wy x1 x2 y1 y2 f,
  length x = length wx ->
  integrate_func2 x wx y wy x1 x2 y1 y2 f =
  integrate_vals2 wx wy x1 x2 y1 y2
    (flat_map (fun yi => map (fun xj => f (xj * ((x2 - x1) / 2) + (x2 + x1) / 2) (yi * ((y2 - y1) / 2) + (y2 + y1) / 2)) x) y).
Proof. exact integrate_func2_vals. Qed.

(* gauleg raises ValueError exactly for npts <= 0, whatever the other arguments (model of the wrapper's check;
   the condition itself is re-translated from util.py on every run: gen_reject_npts). *)
Theorem C17_gauleg_rejection : forall orig x1 x2 npts coss,
  F.gauleg_gen orig x1 x2 npts coss = Err EValue <-> (npts <= 0)%Z.
Proof. exact gauleg_rejection. Qed.

Example C17_gauleg_rejection_nonvacuous : F.gauleg 0 1 0 [] = Err EValue /\ F.gauleg 0 1 (-3) [] = Err EValue.
Proof. split; reflexivity. Qed.

(* numpy's pairwise summation as modelled (blocks of 8 accumulators, recursive halving at multiples of 8):
   with the addition of the reals it returns exactly the sum, for every list (no element dropped or
   repeated at any block boundary), and the fuel suffices up to 112*2^fuel+16 elements; the float model
   F.pairwise / F.np_sum is the SAME function instantiated with PrimFloat.add. *)
Theorem C17_pairwise_sum_is_the_sum : forall fuel l, (length l <= 112 * 2 ^ fuel + 16)%nat ->
  pairwise_g Rplus 0%R fuel l = Some (Rsum l).
Proof. exact pairwise_R_total_sum. Qed.

Theorem C17_integrator_with_numpy_summation_tree : forall zs ws x1 x2 f s,
  pairwise_g Rplus 0%R 64 (map2 (fun z w => f (z * ((x2 - x1) / 2) + (x2 + x1) / 2) * w) zs ws) = Some s ->
  integrate_func zs ws x1 x2 f = (x2 - x1) / 2 * s.
Proof. exact integrate_func_with_numpy_tree. Qed.

Example C17_float_pairwise_is_the_generic_tree : F.pairwise = pairwise_g PrimFloat.add 0%float.
Proof. reflexivity. Qed.

(* The integrators are: the prologue (setup; no count at all -> ValueError) followed by the integration proper
   with the rule the object holds -- the prologue is the part of integrate_func / integrate_data that the
   translator re-emits from the source on every run (gen_prologue_func / gen_prologue_data = q_prologue); an
   object that never received a count raises ValueError and is left as it was. *)
Theorem C17_integrate_is_prologue_then_rule :
  forall (T Arg Out : Type) (G : Z -> result T) (I : T -> Arg -> result Out) st npts a,
  q_integrate G I st npts a =
  match q_prologue G st npts with
  | (st', Some e) => (st', Err e)
  | (st', None) => match st_rule st' with Some r => (st', I r a) | None => (st', Err EType) end
  end.
Proof. intros T Arg Out. exact (@q_integrate_prologue T Arg Out). Qed.

Theorem C17_no_count_raises_value_error :
  forall (T Arg Out : Type) (G : Z -> result T) (I : T -> Arg -> result Out) a,
  q_integrate G I q_none None a = (q_none, Err EValue).
Proof. intros T Arg Out. exact (@no_count_raises T Arg Out). Qed.

(* QGauss2 array shapes under numpy broadcasting.  Repaired _setup: for ALL nx, ny >= 1 the weight
   grid and the summed integrand have the mesh's shape (ny, nx).  Unchanged _setup (weight grids
   allocated (nx, ny)): right shapes iff nx = ny (nx, ny >= 2); QGauss2(3,4) cannot be
   constructed; QGauss2(1,3) sums a (3,3) array for a (3,1) mesh. *)
Theorem C17_qgauss2_shapes_repaired : forall nx ny, (1 <= nx)%Z -> (1 <= ny)%Z ->
  F.wgrid_shape false nx ny = Some (F.mesh_shape nx ny) /\
  F.integrand_shape false nx ny = Some (F.mesh_shape nx ny).
Proof. exact qgauss2_shapes_repaired. Qed.

Theorem C17_qgauss2_unchanged_setup_refuted :
  (forall nx ny, (2 <= nx)%Z -> (2 <= ny)%Z ->
     (F.integrand_shape true nx ny = Some (F.mesh_shape nx ny) <-> nx = ny)) /\
  F.wgrid_shape true 3 4 = None /\ F.integrand_shape true 1 3 = Some (3, 3)%Z.
Proof.
  split; [exact qgauss2_shapes_unchanged_iff | exact qgauss2_shapes_unchanged_refuted].
Qed.

(* QGauss.integrate's dispatch.  Repaired (callable()): every function integrand — plain function,
   lambda, method, numpy ufunc, functools.partial, builtin, numpy.vectorize, object with __call__ —
   reaches the function integrator and every table (array, list, tuple) the data integrator.
   Unchanged (isinstance FunctionType/MethodType): refuted by a ufunc; agrees outside that class. *)
Theorem C17_dispatch_repaired : forall k,
  (is_callable k = true -> dispatch false k = RFunc) /\ (is_callable k = false -> dispatch false k = RData).
Proof. exact dispatch_repaired. Qed.

Theorem C17_dispatch_unchanged_refuted : exists k, is_callable k = true /\ dispatch true k = RData.
Proof. exact dispatch_unchanged_refuted. Qed.

Theorem C17_dispatch_unchanged_outside_known : forall k,
  kf_callable_not_function k = false -> dispatch true k = dispatch false k.
Proof. exact dispatch_unchanged_outside_known. Qed.

(* Cache: for every history of calls whose explicit point counts gauleg accepts, the object
   (with its cache) returns exactly what the cache-less specification returns: every result is
   that of a fresh object with the call's effective point count. *)
Theorem C17_cache_history_independent :
  forall (T Arg Out : Type) (G : Z -> result T) (I : T -> Arg -> result Out) n0 ops,
  valid_counts G n0 ops ->
  snd (q_init G n0) = None /\
  snd (q_run G I (fst (q_init G n0)) ops) = spec_run G I n0 ops.
Proof. intros T Arg Out G I. exact (cache_history_independent G I). Qed.

Theorem C17_explicit_npts_equals_fresh_object :
  forall (T Arg Out : Type) (G : Z -> result T) (I : T -> Arg -> result Out) n0 ops n a,
  valid_counts G n0 ops -> (exists r, G n = Ok r) ->
  snd (q_integrate G I (fst (q_run G I (fst (q_init G n0)) ops)) (Some n) a) = qgauss_fn G I (Some n) a.
Proof. intros T Arg Out G I. exact (explicit_npts_fresh G I). Qed.

(* Outside the property's quantifier (n >= 1): a point count that gauleg REJECTS leaves the
   object with the new count and the old rule; a later call with the same rejected count
   silently integrates with the stale rule.  Recorded here as a fact of the model (and of the
   code: the correspondence run exercises it), not as a violation. *)
Theorem C17_rejected_count_leaves_stale_rule :
  let G := G_count in
  let I := fun (r : Z) (_ : unit) => @Ok Z r in
  snd (q_run G I (fst (q_init G (Some 10%Z))) [(Some 0%Z, tt); (Some 0%Z, tt)]) = [Err EValue; Ok 10%Z].
Proof. vm_compute. reflexivity. Qed.

(* The unchanged Newton loop (while) skips the iteration for npts = 1: weight = inf.  The
   repaired loop (do-while) returns the one-point rule x = 0, w = 2.  [c] is the measured
   cos(pi*0.75/1.5). *)
Theorem C17_n1_unchanged_loop_refuted :
  let c := 0x1.1a62633145c07p-54%float in
  F.gauleg_orig (-1) 1 1 [c] = Ok ([c], [infinity]) /\
  F.gauleg (-1) 1 1 [c] = Ok ([0%float], [2%float]).
Proof. vm_compute. split; reflexivity. Qed.

(* the repair changes nothing whenever the unchanged loop was entered *)
Theorem C17_dowhile_equals_while_when_entered : forall fuel n nf z z1 pp,
  PrimFloat.ltb F.EPS (F.absdiff z z1) = true ->
  F.newton_while fuel n nf z z1 pp = F.newton_do fuel n nf z.
Proof. intros fuel n nf z z1 pp H. unfold F.newton_while, F.continue_newton. rewrite H. reflexivity. Qed.

(* What the Newton pass computes, over the reals (RM.legendre_R / pp_R / newton_step_R mirror the C
   statements of lines 59-71 with exact arithmetic): the inner loop is Bonnet's recursion for the
   Legendre polynomials, pp is P_n'(z) -- the derivative in the sense of analysis (Coquelicot) --, so one
   pass is Newton's method on P_n, whose fixed points are exactly the roots of P_n; the weight
   formula is the classical 2 / ((1 - z^2) P_n'(z)^2) times the half width. *)
Theorem C17_newton_pass_is_legendre_recursion : forall n z, legendre_R n 1 z 1 0 = (P n z, Pm n z).
Proof. exact newton_pass_is_legendre. Qed.

Theorem C17_legendre_derivative : forall n x, is_derive (P n) x (D n x).
Proof. exact D_is_derivative. Qed.

Theorem C17_pp_is_legendre_derivative : forall n z, (1 <= n)%nat -> z * z <> 1 ->
  pp_R (INR n) z (P n z) (Pm n z) = D n z.
Proof. exact pp_is_derivative. Qed.

Theorem C17_newton_pass_is_newtons_method : forall n z, (1 <= n)%nat -> z * z <> 1 ->
  newton_step_R n z = (z - P n z / Derive (P n) z, Derive (P n) z) /\ is_derive (P n) z (Derive (P n) z).
Proof. exact newton_step_R_is_newton. Qed.

Theorem C17_newton_fixed_point_iff_root : forall n z, (1 <= n)%nat -> z * z <> 1 -> D n z <> 0 ->
  (fst (newton_step_R n z) = z <-> P n z = 0).
Proof. exact newton_fixed_point_iff_root. Qed.

Theorem C17_weight_formula_is_classical : forall xl z n, z * z <> 1 -> D n z <> 0 ->
  weight_R xl z (D n z) = xl * (2 / ((1 - z * z) * (D n z) ^ 2)).
Proof. exact weight_R_classical. Qed.

Example C17_legendre_low_orders : forall x,
  P 2 x = (3 * x * x - 1) / 2 /\ D 2 x = 3 * x /\ P 3 x = (5 * x * x * x - 3 * x) / 2 /\ D 3 x = (15 * x * x - 3) / 2.
Proof. exact legendre_low_orders. Qed.

Example C17_newton_fixed_point_nonvacuous :      (* n = 2: the root 1/sqrt 3 of P_2 is a fixed point *)
  fst (newton_step_R 2 (R_sqrt.sqrt (/ 3))) = R_sqrt.sqrt (/ 3).
Proof.
  assert (S2 : R_sqrt.sqrt (/ 3) * R_sqrt.sqrt (/ 3) = / 3) by (apply sqrt_sqrt; lra).
  assert (Hpos : 0 < R_sqrt.sqrt (/ 3)) by (apply sqrt_lt_R0; lra).
  apply C17_newton_fixed_point_iff_root; [lia | lra | |].
  - destruct (legendre_low_orders (R_sqrt.sqrt (/ 3))) as [_ [E _]]. rewrite E. lra.
  - destruct (legendre_low_orders (R_sqrt.sqrt (/ 3))) as [E _]. rewrite E.
    replace (3 * R_sqrt.sqrt (/ 3) * R_sqrt.sqrt (/ 3)) with (3 * (R_sqrt.sqrt (/ 3) * R_sqrt.sqrt (/ 3))) by ring.
    rewrite S2. field.
Qed.

(* The rules for n = 1..10, certified inside Coq once and for all (not per run): with libm's start
   values (SmallRules.cos_table, re-measured and compared on every run) the bit-exact model of
   gauleg(-1,1,n) returns n abscissae and weights whose 2n moments are within 5e-10; hence on EVERY
   interval and for EVERY polynomial of degree <= 2n-1 the mapped rule is exact up to that error. *)
Theorem C17_small_rules_exact : forall n coss, In (n, coss) cos_table ->
  exists xs ws dxs dws,
    F.gauleg (-1)%float 1%float n coss = Ok (xs, ws) /\ length xs = Z.to_nat n /\ length ws = Z.to_nat n /\
    fl2d xs = Some dxs /\ fl2d ws = Some dws /\
    moments_ok (map dR dxs) (map dR dws) (Z.to_nat (2 * n)) eps_m /\
    forall a b p, (length p <= Z.to_nat (2 * n))%nat ->
      Rabs (Qrule (map_nodes a b (map dR dxs)) (map_weights a b (map dR dws)) (peval p) - RInt (peval p) a b)
      <= Rabs (b - a) / 2 * (eps_m * norm1 (pcomp p ((a + b) / 2) ((b - a) / 2))).
Proof. exact small_rules_exact. Qed.

Example C17_small_rules_table_covers : map fst cos_table = [1;2;3;4;5;6;7;8;9;10]%Z.
Proof. reflexivity. Qed.

(* Checker soundness: what the correspondence run decides by vm_compute on the exact values of
   the implementation's floats. *)
Theorem C17_checkers_sound :
  (forall a b xs ws refz refw, rule_check a b xs ws refz refw = true ->
     rule_ok (dR a) (dR b) (map dR xs) (map dR ws) (map dR refz) (map dR refw))
  /\ (forall xs ws N, moments_check xs ws N = true -> moments_ok (map dR xs) (map dR ws) N eps_m)
  /\ (forall a b xs ws p t FF, poly_check a b xs ws p t FF = true ->
        poly_ok (dR a) (dR b) (map dR xs) (map dR ws) (map dR p))
  /\ (forall zs ws x1 x2 xi ys res, func_check zs ws x1 x2 xi ys res = true ->
        func_ok (map dR zs) (map dR ws) (dR x1) (dR x2) (map dR xi) (map dR ys) (dR res))
  /\ (forall zs ws xv yv res,
        data_check (map d2Q zs) (map d2Q ws) (map d2Q xv) (map d2Q yv) (d2Q res) = true ->
        data_ok (map dR zs) (map dR ws) (map dR xv) (map dR yv) (dR res))
  /\ (forall x wx y wy x1 x2 y1 y2 xg yg zv res,
        func2_check x wx y wy x1 x2 y1 y2 xg yg zv res = true ->
        func2_ok (map dR x) (map dR wx) (map dR y) (map dR wy) (dR x1) (dR x2) (dR y1) (dR y2)
                 (map dR xg) (map dR yg) (map dR zv) (dR res))
  /\ (forall ops cur os, counts_valid cur ops = true -> history_check cur ops os = true ->
        history_ok cur ops os).
Proof.
  split; [exact rule_check_sound|]. split; [exact moments_check_sound|].
  split; [exact poly_check_sound|]. split; [exact func_check_sound|].
  split; [exact data_check_sound_dy|]. split; [exact func2_check_sound | exact history_check_sound].
Qed.

(* The data integrator judged at the abscissae it used (tables far from the origin: see Spec):
   soundness of the checker the correspondence run evaluates, and interplin over Q (as the checkers
   evaluate it, any ascending table) = the chord through the bracketing tabulated points. *)
Theorem C17_data_checker_at_abscissae_sound : forall zs ws xv yv xi res,
  data_check_at (map d2Q zs) (map d2Q ws) (map d2Q xv) (map d2Q yv) (map d2Q xi) (d2Q res) = true ->
  data_ok_at (map dR zs) (map dR ws) (map dR xv) (map dR yv) (map dR xi) (dR res).
Proof. exact data_check_at_sound_dy. Qed.

Theorem C17_interplin_Q_is_chord : forall xv yv u j,
  increasing_Q xv = true -> (2 <= length xv)%nat -> (S j < length xv)%nat ->
  Q2R (nth j xv 0%Q) <= Q2R u <= Q2R (nth (S j) xv 0%Q) ->
  Q2R (interplin_Q yv xv u) = chord (map Q2R xv) (map Q2R yv) j (Q2R u).
Proof. exact interplin_Q_is_chord. Qed.

Example C17_interplin_Q_offset_table :     (* a Julian-day table: x = 2400000 + k/100000 *)
  let xv := [240000000000 # 100000; 240000000001 # 100000; 240000000003 # 100000]%Q in
  increasing_Q xv = true /\ interplin_Q [1; 3; 7]%Q xv (240000000002 # 100000) == 5.
Proof. split; reflexivity. Qed.

(* The rule checker is COMPLETE as well as sound: it accepts exactly the outputs that satisfy rule_ok (order,
   interiority, sign, symmetry, weight sum, agreement with the reference rule, all to 1e-9 |b-a|): a rejection
   by the correspondence run is always a violation of these bounds, never an artefact of the checker. *)
Theorem C17_rule_checker_decides_rule_ok : forall a b xs ws refz refw,
  rule_check a b xs ws refz refw = true <->
  rule_ok (dR a) (dR b) (map dR xs) (map dR ws) (map dR refz) (map dR refw).
Proof. exact rule_check_iff. Qed.

(* ... and so is the history checker: for valid counts it accepts exactly the observation lists in which every call
   returned what a fresh object with the call's effective count returns. *)
Theorem C17_history_checker_decides_history_ok : forall ops cur os, counts_valid cur ops = true ->
  (history_check cur ops os = true <-> history_ok cur ops os).
Proof. exact history_check_iff. Qed.

(* the two readings of the data integrator agree when the abscissae are the exactly mapped ones *)
Theorem C17_data_ok_at_exact_abscissae : forall zs ws xv yv res,
  data_ok_at zs ws xv yv
    (map (fun z => z * ((Rmax_list xv - Rmin_list xv) / 2) + (Rmax_list xv + Rmin_list xv) / 2) zs) res ->
  data_ok zs ws xv yv res.
Proof. exact data_ok_at_exact. Qed.

(* frame conditions: a zero-width range integrates to 0; setup with no count or the current count leaves
   the object (count and rule) untouched *)
Theorem C17_zero_width_integrates_to_zero : forall zs ws a f, integrate_func zs ws a a f = 0.
Proof. exact integrate_func_zero_width. Qed.

Theorem C17_setup_frame : forall (T : Type) (G : Z -> result T) (st : @qstate T),
  setup G st None = (st, None) /\ forall n, st_npts st = Some n -> setup G st (Some n) = (st, None).
Proof. intros T. exact (@setup_frame T). Qed.

(* the dyadic value of a float literal is the float's value: values enter the checkers through
   [f2d]; for a finite float, dR (f2d f) = (-1)^s m 2^e of its IEEE decomposition *)
Theorem C17_float_values : forall l r, fl2d l = Some r -> map dR r = map f2R l /\ length r = length l.
Proof. intros l r H. split; [exact (fl2d_values l r H) | exact (fl2d_length l r H)]. Qed.

(* Non-vacuity.  (1) the exact two-point rule meets the moment hypothesis with eps = 0;
   (2) the three floats gauleg(-1,1,3) returns are certified by the checker, and the chain
   checker -> moments_ok -> exact_to_degree applies to them. *)
Example C17_nonvacuous_exact_rule :
  moments_ok [- R_sqrt.sqrt (/ 3); R_sqrt.sqrt (/ 3)] [1; 1] 4 0.
Proof.
  assert (S2 : R_sqrt.sqrt (/ 3) * R_sqrt.sqrt (/ 3) = / 3) by (apply sqrt_sqrt; lra).
  intros k Hk. unfold moment, m_exact.
  destruct k as [|[|[|[|k]]]]; try lia; simpl;
    match goal with |- Rabs ?e <= 0 => replace e with 0; [rewrite Rabs_R0; lra|] end.
  - field.
  - ring.
  - replace (1 * (- R_sqrt.sqrt (/ 3) * (- R_sqrt.sqrt (/ 3) * 1)) + (1 * (R_sqrt.sqrt (/ 3) * (R_sqrt.sqrt (/ 3) * 1)) + 0))
      with (2 * (R_sqrt.sqrt (/ 3) * R_sqrt.sqrt (/ 3))) by ring. rewrite S2. field.
  - ring.
Qed.

Example C17_nonvacuous_float_rule :
  let xs := [(-0x1.8c97ef43f7248p-1)%float; 0%float; 0x1.8c97ef43f7248p-1%float] in
  let ws := [0x1.1c71c71c71c58p-1%float; 0x1.c71c71c71c71cp-1%float; 0x1.1c71c71c71c58p-1%float] in
  exists dxs dws, fl2d xs = Some dxs /\ fl2d ws = Some dws /\
    moments_ok (map dR dxs) (map dR dws) 6 eps_m /\
    forall a b p, (length p <= 6)%nat ->
      Rabs (Qrule (map_nodes a b (map dR dxs)) (map_weights a b (map dR dws)) (peval p) - RInt (peval p) a b)
      <= Rabs (b - a) / 2 * (eps_m * norm1 (pcomp p ((a + b) / 2) ((b - a) / 2))).
Proof.
  intros xs ws.
  destruct (fl2d xs) as [dxs|] eqn:Ex; [|vm_compute in Ex; discriminate].
  destruct (fl2d ws) as [dws|] eqn:Ew; [|vm_compute in Ew; discriminate].
  exists dxs, dws. split; [reflexivity|]. split; [reflexivity|].
  assert (M : moments_ok (map dR dxs) (map dR dws) 6 eps_m).
  { apply moments_check_sound.
    vm_compute in Ex. vm_compute in Ew. injection Ex as <-. injection Ew as <-. vm_compute. reflexivity. }
  split; [exact M|]. intros a b p L. apply (C17_exact_to_degree _ _ 6); assumption.
Qed.

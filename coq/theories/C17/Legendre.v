(* C17 — what the Newton pass of cgauleg_pywrap.c computes, over the reals:
   the inner loop is Bonnet's recursion for the Legendre polynomials P_n, the quantity pp is P_n'(z)
   (derivative in the sense of Coquelicot's is_derive), so the update z - p1/pp is Newton's method on P_n
   and the weight formula is the classical 2 / ((1 - z^2) P_n'(z)^2) scaled by the half width. *)
From Coq Require Import Reals Lra Lia.
From Coquelicot Require Import Coquelicot.
From EsVerif.Common Require Import Base.
From EsVerif.C17 Require Import Model.
Import RM.

Local Open Scope R_scope.

(* P_0 = 1, P_1 = x, (k+1) P_{k+1} = (2k+1) x P_k - k P_{k-1};   [Pm n] = P_{n-1} (P_{-1} := 0) *)
Fixpoint Leg (n : nat) (x : R) : R * R :=
  match n with
  | O => (1, 0)
  | S k => let pq := Leg k x in (((2 * INR k + 1) * x * fst pq - INR k * snd pq) / INR (S k), fst pq)
  end.
Definition P (n : nat) (x : R) : R := fst (Leg n x).
Definition Pm (n : nat) (x : R) : R := snd (Leg n x).

(* the same recursion differentiated term by term: D_n = P_n', Dm_n = P_{n-1}' *)
Fixpoint LegD (n : nat) (x : R) : R * R :=
  match n with
  | O => (0, 0)
  | S k => let de := LegD k x in
           (((2 * INR k + 1) * (P k x + x * fst de) - INR k * snd de) / INR (S k), fst de)
  end.
Definition D (n : nat) (x : R) : R := fst (LegD n x).
Definition Dm (n : nat) (x : R) : R := snd (LegD n x).

Lemma P_S k x : P (S k) x = ((2 * INR k + 1) * x * P k x - INR k * Pm k x) / INR (S k).
Proof. reflexivity. Qed.
Lemma Pm_S k x : Pm (S k) x = P k x.
Proof. reflexivity. Qed.
Lemma D_S k x : D (S k) x = ((2 * INR k + 1) * (P k x + x * D k x) - INR k * Dm k x) / INR (S k).
Proof. reflexivity. Qed.
Lemma Dm_S k x : Dm (S k) x = D k x.
Proof. reflexivity. Qed.

Lemma INR_S_neq0 k : INR (S k) <> 0.
Proof. apply not_0_INR. lia. Qed.

(* ---- the C inner loop is this recursion *)
Lemma legendre_R_spec z : forall cnt k,
  legendre_R cnt (INR (S k)) z (P k z) (Pm k z) = (P (cnt + k) z, Pm (cnt + k) z).
Proof.
  induction cnt as [|c IH]; intros k; [reflexivity|].
  cbn [legendre_R]. replace (INR (S k) + 1) with (INR (S (S k))) by (rewrite (S_INR (S k)); reflexivity).
  replace (((2 * INR (S k) - 1) * z * P k z - (INR (S k) - 1) * Pm k z) / INR (S k)) with (P (S k) z)
    by (rewrite P_S, S_INR; f_equal; ring).
  rewrite <- (Pm_S k z). rewrite IH. replace (c + S k)%nat with (S c + k)%nat by lia. reflexivity.
Qed.

Theorem newton_pass_is_legendre n z : legendre_R n 1 z 1 0 = (P n z, Pm n z).
Proof.
  change 1 with (INR 1) at 1. change 1 with (P 0 z) at 1. change 0 with (Pm 0 z).
  rewrite legendre_R_spec. rewrite Nat.add_0_r. reflexivity.
Qed.

(* ---- D is the derivative of P *)
Lemma P_Pm_derive : forall n x, is_derive (P n) x (D n x) /\ is_derive (Pm n) x (Dm n x).
Proof.
  induction n as [|k IH]; intros x.
  - split.
    + apply (is_derive_ext (fun _ : R => 1)); [intros; reflexivity|]. apply @is_derive_const.
    + apply (is_derive_ext (fun _ : R => 0)); [intros; reflexivity|]. apply @is_derive_const.
  - destruct (IH x) as [HP HPm]. split.
    + apply (is_derive_ext (fun t => ((2 * INR k + 1) * t * P k t - INR k * Pm k t) / INR (S k)));
        [intros t; symmetry; apply P_S|].
      rewrite D_S. pose proof (INR_S_neq0 k) as Hk.
      auto_derive.
      * repeat split; try (eexists; eassumption); exact Logic.I.
      * change (fun x0 : R => P k x0) with (P k). change (fun x0 : R => Pm k x0) with (Pm k).
        rewrite (is_derive_unique _ _ _ HP), (is_derive_unique _ _ _ HPm).
        change (match k with 0%nat => 1 | S _ => INR k + 1 end) with (INR (S k)). field. exact Hk.
    + apply (is_derive_ext (P k)); [intros t; symmetry; apply Pm_S|]. rewrite Dm_S. exact HP.
Qed.

Theorem D_is_derivative n x : is_derive (P n) x (D n x).
Proof. apply P_Pm_derive. Qed.

(* ---- the classical identities, for n = S k >= 1:
        (x^2 - 1) P_n' = n (x P_n - P_{n-1})     and     x P_n' - P_{n-1}' = n P_n *)
Lemma legendre_identities : forall k x,
  (x * x - 1) * D (S k) x = INR (S k) * (x * P (S k) x - P k x) /\
  x * D (S k) x - D k x = INR (S k) * P (S k) x.
Proof.
  induction k as [|k IH]; intros x.
  - unfold D, P; simpl. change (P 0 x) with 1. split; field.
  - destruct (IH x) as [HA HC].
    pose proof (INR_S_neq0 k) as Hm. pose proof (INR_S_neq0 (S k)) as Hm1.
    rewrite (S_INR (S k)) in *.
    set (m := INR (S k)) in *.
    rewrite (P_S (S k)), (D_S (S k)), Pm_S, Dm_S. rewrite (S_INR (S k)). fold m.
    set (p := P (S k) x) in *. set (q := P k x) in *. set (d := D (S k) x) in *. set (e := D k x) in *.
    assert (He : e = x * d - m * p) by lra.
    assert (Hq : q = x * p - (x * x - 1) * d / m).
    { apply Rmult_eq_reg_l with m; [|exact Hm]. field_simplify; [|exact Hm]. lra. }
    rewrite He, Hq. split; field; split; assumption.
Qed.

(* pp of the C code is the derivative of P_n at z *)
Theorem pp_is_derivative n z : (1 <= n)%nat -> z * z <> 1 ->
  pp_R (INR n) z (P n z) (Pm n z) = D n z.
Proof.
  intros Hn Hz. destruct n as [|k]; [lia|].
  destruct (legendre_identities k z) as [HA _]. rewrite Pm_S. unfold pp_R.
  apply Rmult_eq_reg_l with (z * z - 1); [|lra]. rewrite HA. field. lra.
Qed.

(* one pass of the Newton loop (lines 59-71) over the reals is Newton's method on P_n *)
Theorem newton_step_R_is_newton n z : (1 <= n)%nat -> z * z <> 1 ->
  newton_step_R n z = (z - P n z / Derive (P n) z, Derive (P n) z) /\ is_derive (P n) z (Derive (P n) z).
Proof.
  intros Hn Hz. unfold newton_step_R. rewrite newton_pass_is_legendre.
  rewrite (pp_is_derivative n z Hn Hz). rewrite (is_derive_unique _ _ _ (D_is_derivative n z)).
  split; [reflexivity | apply D_is_derivative].
Qed.

(* a root of P_n with non-vanishing derivative is a fixed point of the pass; and conversely a fixed point
   with finite non-zero pp is a root *)
Theorem newton_fixed_point_iff_root n z : (1 <= n)%nat -> z * z <> 1 -> D n z <> 0 ->
  (fst (newton_step_R n z) = z <-> P n z = 0).
Proof.
  intros Hn Hz Hd. destruct (newton_step_R_is_newton n z Hn Hz) as [E _]. rewrite E. cbn [fst].
  rewrite (is_derive_unique _ _ _ (D_is_derivative n z)).
  split; intros H.
  - assert (Q : P n z / D n z = 0) by lra.
    unfold Rdiv in Q. apply Rmult_integral in Q. destruct Q as [Q|Q]; [exact Q|].
    exfalso. exact (Rinv_neq_0_compat _ Hd Q).
  - rewrite H. unfold Rdiv. lra.
Qed.

(* the weight formula of the code at a node z with derivative pp, for the interval of half width xl *)
Lemma weight_R_classical xl z n : z * z <> 1 -> D n z <> 0 ->
  weight_R xl z (D n z) = xl * (2 / ((1 - z * z) * (D n z) ^ 2)).
Proof. intros Hz Hd. unfold weight_R. field. split; [exact Hd | lra]. Qed.

(* non-vacuity / sanity: P_2 = (3x^2-1)/2, P_3 = (5x^3-3x)/2 and their derivatives *)
Example legendre_low_orders x :
  P 2 x = (3 * x * x - 1) / 2 /\ D 2 x = 3 * x /\ P 3 x = (5 * x * x * x - 3 * x) / 2 /\ D 3 x = (15 * x * x - 3) / 2.
Proof. unfold D; simpl. unfold P; simpl. repeat split; field. Qed.

(* C17 — the property as Props over the reals, and the boolean checkers that decide it on the
   EXACT (dyadic / rational) values of the implementation's floats.  Checker soundness is in
   CheckProofs.v. *)
From Coq Require Import Reals QArith Qreals.
From EsVerif.Common Require Import Base.
From EsVerif.C17 Require Import Model Dyadic.
Import RM.

Local Open Scope R_scope.

(* the statement's tolerance 1e-9, and the 5e-10 used by the moment certificates *)
Definition tol : R := / 10 ^ 9.
Definition eps_m : R := 5 / 10 ^ 10.

(* ------------------------------------------------------------------ rule properties *)
Fixpoint increasing (l : list R) : Prop :=
  match l with
  | x :: t => match t with y :: _ => x < y | [] => True end /\ increasing t
  | [] => True
  end.

(* The rule (xs, ws) returned for the interval from a to b (a <> b), compared with a reference
   rule (refz, refw) on [-1,1].  For a < b: a < x_0 < ... < x_{n-1} < b and weights positive; for
   a > b the orientation is reversed (the abscissae run from a down to b, the weights are
   negative, so that they still sum to b - a): the only reading under which "sum to b-a" and
   "a > b" are compatible. *)
Definition rule_ok (a b : R) (xs ws refz refw : list R) : Prop :=
  length xs = length ws /\
  ((a < b /\ increasing (a :: xs ++ [b]) /\ Forall (fun w => 0 < w) ws) \/
   (b < a /\ increasing (b :: rev xs ++ [a]) /\ Forall (fun w => w < 0) ws)) /\
  Forall2 (fun x x' => Rabs (x + x' - (a + b)) <= tol * Rabs (b - a)) xs (rev xs) /\
  Forall2 (fun w w' => Rabs (w - w') <= tol * Rabs (b - a)) ws (rev ws) /\
  Rabs (Rsum ws - (b - a)) <= tol * Rabs (b - a) /\
  Forall2 (fun x z => Rabs (x - ((a + b) / 2 + (b - a) / 2 * z)) <= tol * Rabs (b - a)) xs refz /\
  Forall2 (fun w v => Rabs (w - (b - a) / 2 * v) <= tol * Rabs (b - a)) ws refw.

(* moments of a rule on [-1,1] against the closed form of the integral of t^k over [-1,1] *)
Definition moment (xs ws : list R) (k : nat) : R := Qrule xs ws (fun x => x ^ k).
Definition m_exact (k : nat) : R := if Nat.even k then 2 / INR (S k) else 0.
Definition moments_ok (xs ws : list R) (N : nat) (eps : R) : Prop :=
  forall k, (k < N)%nat -> Rabs (moment xs ws k - m_exact k) <= eps.

(* integral of a polynomial (coefficient list, lowest degree first) from a to b, by its
   antiderivative; Integral.v proves  is_RInt (peval p) a b (Pint a b p)  (Coquelicot) *)
Fixpoint pint_from (k : nat) (a b : R) (p : list R) : R :=
  match p with
  | [] => 0
  | c :: t => c * (b ^ S k - a ^ S k) / INR (S k) + pint_from (S k) a b t
  end.
Definition Pint (a b : R) (p : list R) : R := pint_from 0 a b p.

Definition between (a b t : R) : Prop := (a <= t <= b) \/ (b <= t <= a).

(* the statement's bound for one polynomial: |Q p - int p| <= 1e-9 |b-a| |p(t)| for some t of the
   interval (hence <= 1e-9 (b-a) max|p|) *)
Definition poly_ok (a b : R) (xs ws p : list R) : Prop :=
  exists t, between a b t /\
            Rabs (Qrule xs ws (peval p) - Pint a b p) <= tol * Rabs (b - a) * Rabs (peval p t).

(* ------------------------------------------------------------------ integrators *)
(* f1 * sum y_i w_i  on recorded function values *)
Definition integrate_vals (ws : list R) (x1 x2 : R) (ys : list R) : R :=
  (x2 - x1) / 2 * Rsum (map2 Rmult ys ws).

(* the function integrator called the user function on the mapped abscissae (xi) and returned
   the weighted sum of the values it got back (ys) *)
(* Abscissae: the statement puts no tolerance on "the mapped abscissae"; a float abscissa cannot
   be closer to the real one than an ulp of max(|x1|,|x2|), so the rounding allowance is 1e-9 of
   the MAGNITUDE |x1|+|x2| (>= |x2-x1|), not of the width: for a width-1e-9 interval at x = -1.86
   one ulp is already 2e-7 widths (false alarm of the first version of this checker). *)
Definition func_ok (zs ws : list R) (x1 x2 : R) (xi ys : list R) (res : R) : Prop :=
  Forall2 (fun u z => Rabs (u - (z * ((x2 - x1) / 2) + (x2 + x1) / 2)) <= tol * (Rabs x1 + Rabs x2)) xi zs /\
  exists y, In y ys /\ Rabs (res - integrate_vals ws x1 x2 ys) <= tol * Rabs (x2 - x1) * Rabs y.

(* the data integrator returned the weighted sum of the linearly interpolated table *)
Definition data_ok (zs ws xv yv : list R) (res : R) : Prop :=
  exists y, In y yv /\
            Rabs (res - integrate_data zs ws xv yv) <= tol * Rabs (Rmax_list xv - Rmin_list xv) * Rabs y.

(* two dimensions: exact grids and weighted tensor sum on recorded values (row-major, rows over y) *)
Definition grid_xR (x y : list R) (xf1 xf2 : R) : list R := flat_map (fun _ => map (fun xj => xj * xf1 + xf2) x) y.
Definition grid_yR (x y : list R) (yf1 yf2 : R) : list R := flat_map (fun yi => map (fun _ => yi * yf1 + yf2) x) y.
Definition grid_wR (wx wy : list R) : list R := flat_map (fun wyi => map (fun wxj => wxj * wyi) wx) wy.
Definition integrate_vals2 (wx wy : list R) (x1 x2 y1 y2 : R) (zv : list R) : R :=
  (x2 - x1) / 2 * ((y2 - y1) / 2) * Rsum (map2 Rmult zv (grid_wR wx wy)).

Definition func2_ok (x wx y wy : list R) (x1 x2 y1 y2 : R) (xg yg zv : list R) (res : R) : Prop :=
  Forall2 (fun u g => Rabs (u - g) <= tol * (Rabs x1 + Rabs x2)) xg (grid_xR x y ((x2 - x1) / 2) ((x2 + x1) / 2)) /\
  Forall2 (fun u g => Rabs (u - g) <= tol * (Rabs y1 + Rabs y2)) yg (grid_yR x y ((y2 - y1) / 2) ((y2 + y1) / 2)) /\
  exists z, In z zv /\
            Rabs (res - integrate_vals2 wx wy x1 x2 y1 y2 zv) <= tol * Rabs (x2 - x1) * Rabs (y2 - y1) * Rabs z.

(* ------------------------------------------------------------------ call histories *)
(* What a history-independent object returns: the effective point count of a call is the
   explicit one if given, otherwise the most recent explicit one (or the constructor's); the
   result is what a FRESH object with that point count returns.  No cache in this definition. *)
Section HistorySpec.
  Context {T Arg Out : Type}.
  Variable G : Z -> result T.
  Variable I : T -> Arg -> result Out.

  Definition spec_eff (cur npts : option Z) : option Z :=
    match npts with Some n => Some n | None => cur end.

  Definition fresh_result (n : option Z) (a : Arg) : result Out :=
    match n with
    | None => Err EValue
    | Some k => match G k with Ok r => I r a | Err e => Err e end
    end.

  Fixpoint spec_run (cur : option Z) (ops : list (option Z * Arg)) : list (result Out) :=
    match ops with
    | [] => []
    | (n, a) :: t => let c := spec_eff cur n in fresh_result c a :: spec_run c t
    end.

  (* every explicitly requested point count is one gauleg accepts *)
  Definition valid_counts (n0 : option Z) (ops : list (option Z * Arg)) : Prop :=
    (forall k, n0 = Some k -> exists r, G k = Ok r) /\
    Forall (fun op => forall k, fst op = Some k -> exists r, G k = Ok r) ops.
End HistorySpec.

(* ================================================================== boolean checkers *)
Local Open Scope Z_scope.

Fixpoint forallb2 {A B} (f : A -> B -> bool) (l1 : list A) (l2 : list B) : bool :=
  match l1, l2 with
  | [], [] => true
  | a :: t1, b :: t2 => f a b && forallb2 f t1 t2
  | _, _ => false
  end.

(* err <= 1e-9 * scale *)
Definition tol_le (err scale : dy) : bool := dleb (dscale (10 ^ 9) err) scale.

Fixpoint increasing_b (l : list dy) : bool :=
  match l with
  | x :: t => match t with y :: _ => dltb x y | [] => true end && increasing_b t
  | [] => true
  end.

Definition rule_check (a b : dy) (xs ws refz refw : list dy) : bool :=
  let wid := dabs (dsub b a) in
  let xl := dhalf (dsub b a) in
  let xm := dhalf (dadd a b) in
  Nat.eqb (length xs) (length ws)
  && ((dltb a b && increasing_b (a :: xs ++ [b]) && forallb (fun w => dltb (dz 0) w) ws)
      || (dltb b a && increasing_b (b :: rev xs ++ [a]) && forallb (fun w => dltb w (dz 0)) ws))
  && forallb2 (fun x x' => tol_le (dabs (dsub (dadd x x') (dadd a b))) wid) xs (rev xs)
  && forallb2 (fun w w' => tol_le (dabs (dsub w w')) wid) ws (rev ws)
  && tol_le (dabs (dsub (dsum ws) (dsub b a))) wid
  && forallb2 (fun x z => tol_le (dabs (dsub x (dadd xm (dmul xl z)))) wid) xs refz
  && forallb2 (fun w v => tol_le (dabs (dsub w (dmul xl v))) wid) ws refw.

(* moments: sum_i w_i x_i^k for k = 0..N-1, powers carried along;
   |S - M/(k+1)| <= 5e-10  <=>  2*10^9 * |(k+1) S - M| <= k+1 *)
Definition ddot (ws ps : list dy) : dy := dsum (map2 dmul ws ps).

Fixpoint moments_loop (cnt k : nat) (xs ws ps : list dy) : bool :=
  match cnt with
  | O => true
  | S c =>
    let kk := Z.of_nat (S k) in
    let Mk := if Nat.even k then 2 else 0 in
    dleb (dscale (2 * 10 ^ 9) (dabs (dsub (dscale kk (ddot ws ps)) (dz Mk)))) (dz kk)
    && moments_loop c (S k) xs ws (map2 dmul xs ps)
  end.

Definition moments_check (xs ws : list dy) (N : nat) : bool :=
  moments_loop N 0 xs ws (map (fun _ => dz 1) xs).

(* polynomials *)
Fixpoint dpeval (p : list dy) (x : dy) : dy :=
  match p with
  | [] => dz 0
  | c :: t => dadd c (dmul x (dpeval t x))
  end.

Definition dQrule (xs ws : list dy) (f : dy -> dy) : dy := dsum (map2 (fun x w => dmul w (f x)) xs ws).

(* FF * integral, for a positive integer FF that every k+1 divides (checked) *)
Fixpoint dpint_from (FF : Z) (k : nat) (a b : dy) (p : list dy) : option dy :=
  match p with
  | [] => Some (dz 0)
  | c :: t =>
    let kk := Z.of_nat (S k) in
    if FF mod kk =? 0 then
      match dpint_from FF (S k) a b t with
      | Some r => Some (dadd (dscale (FF / kk) (dmul c (dsub (dpow b (S k)) (dpow a (S k))))) r)
      | None => None
      end
    else None
  end.

Definition between_b (a b t : dy) : bool := (dleb a t && dleb t b) || (dleb b t && dleb t a).

Definition poly_check (a b : dy) (xs ws p : list dy) (t : dy) (FF : Z) : bool :=
  (0 <? FF) && between_b a b t &&
  match dpint_from FF 0 a b p with
  | None => false
  | Some Iv =>
    dleb (dscale (10 ^ 9) (dabs (dsub (dscale FF (dQrule xs ws (dpeval p))) Iv)))
         (dscale FF (dmul (dabs (dsub b a)) (dabs (dpeval p t))))
  end.

(* function integrator *)
Definition dvals (ws : list dy) (x1 x2 : dy) (ys : list dy) : dy :=
  dmul (dhalf (dsub x2 x1)) (dsum (map2 dmul ys ws)).

Definition func_check (zs ws : list dy) (x1 x2 : dy) (xi ys : list dy) (res : dy) : bool :=
  let wid := dabs (dsub x2 x1) in
  let f1 := dhalf (dsub x2 x1) in
  let f2 := dhalf (dadd x2 x1) in
  forallb2 (fun u z => tol_le (dabs (dsub u (dadd (dmul z f1) f2))) (dadd (dabs x1) (dabs x2))) xi zs
  && existsb (fun y => tol_le (dabs (dsub res (dvals ws x1 x2 ys))) (dmul wid (dabs y))) ys.

(* two-dimensional integrator *)
Definition dgrid_x (x y : list dy) (xf1 xf2 : dy) : list dy := flat_map (fun _ => map (fun xj => dadd (dmul xj xf1) xf2) x) y.
Definition dgrid_y (x y : list dy) (yf1 yf2 : dy) : list dy := flat_map (fun yi => map (fun _ => dadd (dmul yi yf1) yf2) x) y.
Definition dgrid_w (wx wy : list dy) : list dy := flat_map (fun wyi => map (fun wxj => dmul wxj wyi) wx) wy.
Definition dvals2 (wx wy : list dy) (x1 x2 y1 y2 : dy) (zv : list dy) : dy :=
  dmul (dmul (dhalf (dsub x2 x1)) (dhalf (dsub y2 y1))) (dsum (map2 dmul zv (dgrid_w wx wy))).

Definition func2_check (x wx y wy : list dy) (x1 x2 y1 y2 : dy) (xg yg zv : list dy) (res : dy) : bool :=
  let widx := dabs (dsub x2 x1) in
  let widy := dabs (dsub y2 y1) in
  forallb2 (fun u g => tol_le (dabs (dsub u g)) (dadd (dabs x1) (dabs x2))) xg (dgrid_x x y (dhalf (dsub x2 x1)) (dhalf (dadd x2 x1)))
  && forallb2 (fun u g => tol_le (dabs (dsub u g)) (dadd (dabs y1) (dabs y2))) yg (dgrid_y x y (dhalf (dsub y2 y1)) (dhalf (dadd y2 y1)))
  && existsb (fun z => tol_le (dabs (dsub res (dvals2 wx wy x1 x2 y1 y2 zv))) (dmul (dmul widx widy) (dabs z))) zv.

(* data integrator: linear interpolation divides, so this checker works over Q *)
Local Open Scope Q_scope.

Definition Qpow2 (e : Z) : Q :=
  if (0 <=? e)%Z then inject_Z (2 ^ e) else / inject_Z (2 ^ (- e)).
Definition d2Q (d : dy) : Q := inject_Z (dm d) * Qpow2 (de d).

Definition Qltb (a b : Q) : bool := negb (Qle_bool b a).
Definition Qsum (l : list Q) : Q := fold_right Qplus 0 l.
Definition qnth (l : list Q) (i : Z) : Q := nth (Z.to_nat i) l 0.

Definition searchsorted_Q (x : list Q) (u : Q) : Z := Z.of_nat (length (filter (fun xi => Qltb xi u) x)).
Definition interp_index_Q (x : list Q) (u : Q) : Z :=
  let size := Z.of_nat (length x) in
  let xm := (searchsorted_Q x u - 1)%Z in
  let xm := if (size - 1 <=? xm)%Z then (size - 2)%Z else xm in
  if (xm <? 0)%Z then 0%Z else xm.
Definition interplin_Q (v x : list Q) (u : Q) : Q :=
  let xm := interp_index_Q x u in
  let xmp1 := (xm + 1)%Z in
  (u - qnth x xm) * (qnth v xmp1 - qnth v xm) / (qnth x xmp1 - qnth x xm) + qnth v xm.

Definition Qminb (a b : Q) : Q := if Qle_bool a b then a else b.
Definition Qmaxb (a b : Q) : Q := if Qle_bool a b then b else a.
Definition Qmin_list (l : list Q) : Q := match l with [] => 0 | a :: t => fold_left Qminb t a end.
Definition Qmax_list (l : list Q) : Q := match l with [] => 0 | a :: t => fold_left Qmaxb t a end.

Definition integrate_func_Q (zs ws : list Q) (x1 x2 : Q) (f : Q -> Q) : Q :=
  let f1 := (x2 - x1) * (1 # 2) in
  let f2 := (x2 + x1) * (1 # 2) in
  f1 * Qsum (map2 (fun z w => f (z * f1 + f2) * w) zs ws).

Definition integrate_data_Q (zs ws xv yv : list Q) : Q :=
  integrate_func_Q zs ws (Qmin_list xv) (Qmax_list xv) (interplin_Q yv xv).

Fixpoint increasing_Q (l : list Q) : bool :=
  match l with
  | x :: t => match t with y :: _ => Qltb x y | [] => true end && increasing_Q t
  | [] => true
  end.

Definition Qabsb (a : Q) : Q := if Qle_bool 0 a then a else - a.

Definition data_check (zs ws xv yv : list Q) (res : Q) : bool :=
  increasing_Q xv && (2 <=? length xv)%nat && Nat.eqb (length xv) (length yv) &&
  let err := Qabsb (res - integrate_data_Q zs ws xv yv) in
  let wid := Qabsb (Qmax_list xv - Qmin_list xv) in
  existsb (fun y => Qle_bool (inject_Z (10 ^ 9) * err) (wid * Qabsb y)) yv.

(* The data integrator judged AT THE ABSCISSAE IT USED.  For a table far from the origin (Julian days,
   unix times: x ~ 2.4e6 with spacing 1e-5) a binary64 abscissa is an ulp(x) = 5e-10 away from the real
   one, which is 5e-5 spacings: compared with the interpolant at the REAL abscissae no float code can
   meet a bound relative to the width.  What the statement says -- "the rule's weighted sum over the
   mapped abscissae of the linearly interpolated values" -- is decided here in two parts: (1) the
   abscissae [xi] handed to interplin are the mapped abscissae up to binary64 rounding (2^-50 of
   |x1|+|x2|: three roundings of a product and a sum); (2) the result is the weighted sum of the
   EXACT chord values at those abscissae, up to 1e-9 of width * |y|. *)
Definition ulp_tol : R := (/ 2 ^ 50)%R.
Definition data_ok_at (zs ws xv yv xi : list R) (res : R) : Prop :=
  (let x1 := Rmin_list xv in let x2 := Rmax_list xv in
   Forall2 (fun u z => Rabs (u - (z * ((x2 - x1) / 2) + (x2 + x1) / 2)) <= ulp_tol * (Rabs x1 + Rabs x2)) xi zs /\
   exists y, In y yv /\
     Rabs (res - (x2 - x1) / 2 * Rsum (map2 (fun u w => interplin yv xv u * w) xi ws))
     <= tol * Rabs (x2 - x1) * Rabs y)%R.

Definition data_check_at (zs ws xv yv xi : list Q) (res : Q) : bool :=
  (increasing_Q xv && (2 <=? length xv)%nat && Nat.eqb (length xv) (length yv) &&
   let x1 := Qmin_list xv in let x2 := Qmax_list xv in
   let f1 := (x2 - x1) * (1 # 2) in let f2 := (x2 + x1) * (1 # 2) in
   forallb2 (fun u z => Qle_bool (inject_Z (2 ^ 50) * Qabsb (u - (z * f1 + f2))) (Qabsb x1 + Qabsb x2)) xi zs &&
   let err := Qabsb (res - f1 * Qsum (map2 (fun u w => interplin_Q yv xv u * w) xi ws)) in
   existsb (fun y => Qle_bool (inject_Z (10 ^ 9) * err) (Qabsb (x2 - x1) * Qabsb y)) yv)%Q.

(* call histories: the observed outcome of each call is the point count of the rule the object
   holds after the call, the returned float, and the float a fresh object with that count
   returns on the same arguments (or the error class).  The checker follows [spec_run] with
   T = Z, G = "accept n >= 1", and demands bit-equal results. *)
Local Open Scope Z_scope.

Definition G_count (n : Z) : result Z := if n <=? 0 then Err EValue else Ok n.

Definition obs := result (Z * (PrimFloat.float * PrimFloat.float)).

Definition obs_ok (eff : option Z) (o : obs) : bool :=
  match eff, o with
  | None, Err _ => true
  | Some n, Ok (k, (r, fr)) => (k =? n) && F.feqb r fr
  | _, _ => false
  end.

Fixpoint history_check (cur : option Z) (ops : list (option Z)) (os : list obs) : bool :=
  match ops, os with
  | [], [] => true
  | n :: t, o :: ot => let c := spec_eff cur n in obs_ok c o && history_check c t ot
  | _, _ => false
  end.

Definition counts_valid (n0 : option Z) (ops : list (option Z)) : bool :=
  forallb (fun n => match n with Some k => 0 <? k | None => true end) (n0 :: ops).

(* what [history_check] establishes *)
Definition obs_count (o : obs) : result Z := match o with Ok (k, _) => Ok k | Err _ => Err EValue end.
Definition obs_bits_ok (o : obs) : Prop :=
  match o with Ok (_, (r, fr)) => F.feqb r fr = true | Err _ => True end.
Definition history_ok (cur : option Z) (ops : list (option Z)) (os : list obs) : Prop :=
  map obs_count os = spec_run G_count (fun r (_ : unit) => Ok r) cur (map (fun n => (n, tt)) ops)
  /\ Forall obs_bits_ok os.

(* C17 — the rules for n = 1..20 certified once and for all inside Coq (not per run):
   with the start values libm's cos returns (the table below; the harness re-measures them on every run
   and compares: v_small_table), the bit-exact model of gauleg(-1,1,n) returns n points whose 2n
   moments are within 5e-10 of the exact ones; hence, on EVERY interval [a,b] and for EVERY polynomial
   of degree <= 2n-1 the mapped rule is exact up to the certified error. *)
From Coq Require Import Reals QArith PrimFloat Lra Lia.
From Coquelicot Require Import Coquelicot.
From EsVerif.Common Require Import Base.
From EsVerif.C17 Require Import Model Dyadic Spec Proofs Integral CheckProofs.
Import RM.

(* n |-> cos(pi*(i-0.25)/(n+.5)), i = 1..(n+1)/2, as returned by libm (glibc, binary64) *)
Definition cos_table : list (Z * list float) := [
  (1%Z, [(0x1.1a62633145c07p-54)%float]);
  (2%Z, [(0x1.2cf2304755a5ep-1)%float]);
  (3%Z, [(0x1.904c37505de4bp-1)%float; (0x1.1a62633145c07p-54)%float]);
  (4%Z, [(0x1.bb67ae8584cabp-1)%float; (0x1.5e3a8748a0bf7p-2)%float]);
  (5%Z, [(0x1.d1bb48eee2c14p-1)%float; (0x1.14cedf8bb580cp-1)%float; (0x1.469898cc51702p-52)%float]);
  (6%Z, [(0x1.deba72ef20147p-1)%float; (0x1.5384d024c2f85p-1)%float; (0x1.ea1e54bc48dc9p-3)%float]);
  (7%Z, [(0x1.e6f0e134454ffp-1)%float; (0x1.7c7d7a833bec2p-1)%float; (0x1.a07f921061ad4p-2)%float; (0x1.469898cc51702p-52)%float]);
  (8%Z, [(0x1.ec746923c349fp-1)%float; (0x1.9895b6c9a05f7p-1)%float; (0x1.0d8884363dd82p-1)%float; (0x1.7851aacd6c6bbp-3)%float]);
  (9%Z, [(0x1.f0553b4de2e18p-1)%float; (0x1.aca115aae3de5p-1)%float; (0x1.3a7a16b394424p-1)%float; (0x1.4c7e04850cfabp-2)%float; (0x1.1a62633145c07p-54)%float]);
  (10%Z, [(0x1.f329c0558e969p-1)%float; (0x1.bb67ae8584cabp-1)%float; (0x1.5c3f99e0b6b96p-1)%float; (0x1.bc4c04d71abc2p-2)%float; (0x1.313d125796513p-3)%float]);
  (11%Z, [(0x1.f54a827142577p-1)%float; (0x1.c698e42f47b09p-1)%float; (0x1.763021aaa15dap-1)%float; (0x1.0a06e851db7cap-1)%float; (0x1.14459ad2be469p-2)%float; (0x1.1a62633145c07p-54)%float]);
  (12%Z, [(0x1.f6ee5ac2509ffp-1)%float; (0x1.cf457dcdc158cp-1)%float; (0x1.8a80b635b6beap-1)%float; (0x1.2cf2304755a5fp-1)%float; (0x1.78f5a48a8a91bp-2)%float; (0x1.00aeb5da15be8p-3)%float]);
  (13%Z, [(0x1.f838b8c811c17p-1)%float; (0x1.d6206beb6c24bp-1)%float; (0x1.9aafe4207df60p-1)%float; (0x1.491b7523c161ep-1)%float; (0x1.cb920325bafa8p-2)%float; (0x1.d84d223638003p-3)%float; (0x1.1a62633145c07p-54)%float]);
  (14%Z, [(0x1.f941537248537p-1)%float; (0x1.dba2d62cb789fp-1)%float; (0x1.a7c6da34af89fp-1)%float; (0x1.601a24ba81343p-1)%float; (0x1.07f6acd7cdce2p-1)%float; (0x1.46f6faf5fcb76p-2)%float; (0x1.badb02034da06p-4)%float]);
  (15%Z, [(0x1.fa18852c3e08ap-1)%float; (0x1.e0210c26a6e6fp-1)%float; (0x1.b2818007c19e0p-1)%float; (0x1.73180a4b0d301p-1)%float; (0x1.247d447a27216p-1)%float; (0x1.93d20572ca90fp-2)%float; (0x1.9c4266041ca90p-3)%float; (0x1.1a62633145c07p-54)%float]);
  (16%Z, [(0x1.fac9e043842efp-1)%float; (0x1.e3d725b6253c5p-1)%float; (0x1.bb67ae8584cabp-1)%float; (0x1.82f19bb3a28a2p-1)%float; (0x1.3c7f55ab178f3p-1)%float; (0x1.d5395553ea8f1p-2)%float; (0x1.207e7fd768dc1p-2)%float; (0x1.85597c54753f7p-4)%float]);
  (17%Z, [(0x1.fb5dc4658b672p-1)%float; (0x1.e6f0e134454ffp-1)%float; (0x1.c2dd6ae4a8262p-1)%float; (0x1.904c37505de4bp-1)%float; (0x1.50dd583d5dae9p-1)%float; (0x1.069abbed33677p-1)%float; (0x1.67cecd4844bb3p-2)%float; (0x1.6daf3cbd156a9p-3)%float; (0x1.1a62633145c07p-54)%float]);
  (18%Z, [(0x1.fbda5fb4a66bdp-1)%float; (0x1.e98eafae74d55p-1)%float; (0x1.c92d93fd02a0ap-1)%float; (0x1.9ba5830a01f9bp-1)%float; (0x1.6245cfba2df90p-1)%float; (0x1.1eb503e217548p-1)%float; (0x1.a5c970d98ee00p-2)%float; (0x1.02068973d599ap-2)%float; (0x1.5b5d750211d9cp-4)%float]);
  (19%Z, [(0x1.fc44566966769p-1)%float; (0x1.ebc907a95847ap-1)%float; (0x1.ce910e2c6acadp-1)%float; (0x1.a55e242a4c3d3p-1)%float; (0x1.7141727a4610ap-1)%float; (0x1.33947d747447dp-1)%float; (0x1.dbe064267c47dp-2)%float; (0x1.44449d5444debp-2)%float; (0x1.4885b5a98c648p-3)%float; (0x1.1a62633145c07p-54)%float]);
  (20%Z, [(0x1.fc9f32de977b1p-1)%float; (0x1.edb2a2580cc30p-1)%float; (0x1.d333ac8c7f3cap-1)%float; (0x1.adc14e1d4278fp-1)%float; (0x1.7e3c394f17f8dp-1)%float; (0x1.45c191c43d4ebp-1)%float; (0x1.05a43d87bdab3p-1)%float; (0x1.7ec9e708f8681p-2)%float; (0x1.d2a4dc48247f8p-3)%float; (0x1.398bb59774abcp-4)%float]) ].

Definition rule_certified (n : Z) (coss : list float) : bool :=
  match F.gauleg (-1)%float 1%float n coss with
  | Ok (xs, ws) =>
    match fl2d xs, fl2d ws with
    | Some dxs, Some dws =>
      Nat.eqb (length xs) (Z.to_nat n) && Nat.eqb (length ws) (Z.to_nat n)
      && moments_check dxs dws (Z.to_nat (2 * n))
    | _, _ => false
    end
  | Err _ => false
  end.

Lemma cos_table_certified : forallb (fun p => rule_certified (fst p) (snd p)) cos_table = true.
Proof. vm_compute. reflexivity. Qed.

Local Open Scope R_scope.

Theorem small_rules_exact : forall n coss, In (n, coss) cos_table ->
  exists xs ws dxs dws,
    F.gauleg (-1)%float 1%float n coss = Ok (xs, ws) /\ length xs = Z.to_nat n /\ length ws = Z.to_nat n /\
    fl2d xs = Some dxs /\ fl2d ws = Some dws /\
    moments_ok (map dR dxs) (map dR dws) (Z.to_nat (2 * n)) eps_m /\
    forall a b p, (length p <= Z.to_nat (2 * n))%nat ->
      Rabs (Qrule (map_nodes a b (map dR dxs)) (map_weights a b (map dR dws)) (peval p) - RInt (peval p) a b)
      <= Rabs (b - a) / 2 * (eps_m * norm1 (pcomp p ((a + b) / 2) ((b - a) / 2))).
Proof.
  intros n coss Hin.
  pose proof cos_table_certified as H. rewrite forallb_forall in H. specialize (H _ Hin).
  cbn [fst snd] in H. unfold rule_certified in H.
  destruct (F.gauleg (-1)%float 1%float n coss) as [[xs ws]|e]; [|discriminate].
  destruct (fl2d xs) as [dxs|] eqn:Ex; [|discriminate].
  destruct (fl2d ws) as [dws|] eqn:Ew; [|discriminate].
  apply andb_true_iff in H as [H Hm]. apply andb_true_iff in H as [Hx Hw].
  apply Nat.eqb_eq in Hx. apply Nat.eqb_eq in Hw.
  exists xs, ws, dxs, dws.
  assert (M : moments_ok (map dR dxs) (map dR dws) (Z.to_nat (2 * n)) eps_m) by (apply moments_check_sound; exact Hm).
  repeat split; auto.
  intros a b p L. rewrite peval_RInt. apply (affine_rule_poly _ _ (Z.to_nat (2 * n))); assumption.
Qed.

(* C17 — the rules for n = 1..10 certified once and for all inside Coq (not per run):
   with the start values libm's cos returns (the table below; the harness re-measures them on every run
   and compares: v_small_table), the bit-exact model of gauleg(-1,1,n) returns n points whose 2n
   moments are within 5e-10 of the exact ones; hence, on EVERY interval [a,b] and for EVERY polynomial
   of degree <= 2n-1 the mapped rule is exact up to the certified error. *)
From Coq Require Import Reals QArith PrimFloat Lra Lia.
From Coquelicot Require Import Coquelicot.
From EsVerif.Common Require Import Base.
From EsVerif.C17 Require Import Model Dyadic Spec Proofs Integral CheckProofs.
Import RM.

(* n |-> cos(pi*(i-0.25)/(n+.5)), i = 1..(n+1)/2, as returned by libm (glibc, binary64) *)
Definition cos_table : list (Z * list float) := [
  (1%Z, [(0x1.1a62633145c07p-54)%float]);
  (2%Z, [(0x1.2cf2304755a5ep-1)%float]);
  (3%Z, [(0x1.904c37505de4bp-1)%float; (0x1.1a62633145c07p-54)%float]);
  (4%Z, [(0x1.bb67ae8584cabp-1)%float; (0x1.5e3a8748a0bf7p-2)%float]);
  (5%Z, [(0x1.d1bb48eee2c14p-1)%float; (0x1.14cedf8bb580cp-1)%float; (0x1.469898cc51702p-52)%float]);
  (6%Z, [(0x1.deba72ef20147p-1)%float; (0x1.5384d024c2f85p-1)%float; (0x1.ea1e54bc48dc9p-3)%float]);
  (7%Z, [(0x1.e6f0e134454ffp-1)%float; (0x1.7c7d7a833bec2p-1)%float; (0x1.a07f921061ad4p-2)%float; (0x1.469898cc51702p-52)%float]);
  (8%Z, [(0x1.ec746923c349fp-1)%float; (0x1.9895b6c9a05f7p-1)%float; (0x1.0d8884363dd82p-1)%float; (0x1.7851aacd6c6bbp-3)%float]);
  (9%Z, [(0x1.f0553b4de2e18p-1)%float; (0x1.aca115aae3de5p-1)%float; (0x1.3a7a16b394424p-1)%float; (0x1.4c7e04850cfabp-2)%float; (0x1.1a62633145c07p-54)%float]);
  (10%Z, [(0x1.f329c0558e969p-1)%float; (0x1.bb67ae8584cabp-1)%float; (0x1.5c3f99e0b6b96p-1)%float; (0x1.bc4c04d71abc2p-2)%float; (0x1.313d125796513p-3)%float]) ].

Definition rule_certified (n : Z) (coss : list float) : bool :=
  match F.gauleg (-1)%float 1%float n coss with
  | Ok (xs, ws) =>
    match fl2d xs, fl2d ws with
    | Some dxs, Some dws =>
      Nat.eqb (length xs) (Z.to_nat n) && Nat.eqb (length ws) (Z.to_nat n)
      && moments_check dxs dws (Z.to_nat (2 * n))
    | _, _ => false
    end
  | Err _ => false
  end.

Lemma cos_table_certified : forallb (fun p => rule_certified (fst p) (snd p)) cos_table = true.
Proof. vm_compute. reflexivity. Qed.

Local Open Scope R_scope.

Theorem small_rules_exact : forall n coss, In (n, coss) cos_table ->
  exists xs ws dxs dws,
    F.gauleg (-1)%float 1%float n coss = Ok (xs, ws) /\ length xs = Z.to_nat n /\ length ws = Z.to_nat n /\
    fl2d xs = Some dxs /\ fl2d ws = Some dws /\
    moments_ok (map dR dxs) (map dR dws) (Z.to_nat (2 * n)) eps_m /\
    forall a b p, (length p <= Z.to_nat (2 * n))%nat ->
      Rabs (Qrule (map_nodes a b (map dR dxs)) (map_weights a b (map dR dws)) (peval p) - RInt (peval p) a b)
      <= Rabs (b - a) / 2 * (eps_m * norm1 (pcomp p ((a + b) / 2) ((b - a) / 2))).
Proof.
  intros n coss Hin.
  pose proof cos_table_certified as H. rewrite forallb_forall in H. specialize (H _ Hin).
  cbn [fst snd] in H. unfold rule_certified in H.
  destruct (F.gauleg (-1)%float 1%float n coss) as [[xs ws]|e]; [|discriminate].
  destruct (fl2d xs) as [dxs|] eqn:Ex; [|discriminate].
  destruct (fl2d ws) as [dws|] eqn:Ew; [|discriminate].
  apply andb_true_iff in H as [H Hm]. apply andb_true_iff in H as [Hx Hw].
  apply Nat.eqb_eq in Hx. apply Nat.eqb_eq in Hw.
  exists xs, ws, dxs, dws.
  assert (M : moments_ok (map dR dxs) (map dR dws) (Z.to_nat (2 * n)) eps_m) by (apply moments_check_sound; exact Hm).
  repeat split; auto.
  intros a b p L. rewrite peval_RInt. apply (affine_rule_poly _ _ (Z.to_nat (2 * n))); assumption.
Qed.

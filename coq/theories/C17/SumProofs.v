(* C17 — numpy's pairwise summation, as modelled (Model.pairwise_g), computes THE SUM: instantiated with the
   addition of the reals it returns Rsum l for every list (given fuel), i.e. every element is added exactly
   once whatever the block structure; the float instance F.pairwise is the same tree with rounded additions. *)
From Coq Require Import Reals Lra Lia List Arith Wf_nat.
From EsVerif.Common Require Import Base.
From EsVerif.C17 Require Import Model Proofs.
Import RM ListNotations.

Local Open Scope R_scope.

Lemma fold_left_Rplus l : forall acc, fold_left Rplus l acc = acc + Rsum l.
Proof. induction l as [|a t IH]; intros acc; simpl; [lra | rewrite IH; lra]. Qed.

Lemma pw_block_R : forall l r0 r1 r2 r3 r4 r5 r6 r7,
  pw_block_g Rplus r0 r1 r2 r3 r4 r5 r6 r7 l = r0 + r1 + r2 + r3 + r4 + r5 + r6 + r7 + Rsum l.
Proof.
  intros l. induction l as [l IH] using (well_founded_induction (well_founded_ltof _ (@length R))).
  intros r0 r1 r2 r3 r4 r5 r6 r7.
  destruct l as [|a0 [|a1 [|a2 [|a3 [|a4 [|a5 [|a6 [|a7 t]]]]]]]];
    try (cbn [pw_block_g]; rewrite fold_left_Rplus; unfold Rsum; simpl; lra).
  cbn [pw_block_g]. rewrite IH by (unfold ltof; simpl; lia). unfold Rsum; simpl. lra.
Qed.

Theorem pairwise_R_is_sum : forall fuel l s, pairwise_g Rplus 0 fuel l = Some s -> s = Rsum l.
Proof.
  induction fuel as [|f IH]; intros l s H; cbn [pairwise_g] in H.
  - destruct (length l <? 8)%nat; [injection H as <-; rewrite fold_left_Rplus; lra|].
    destruct (length l <=? 128)%nat; [|discriminate].
    destruct l as [|a0 [|a1 [|a2 [|a3 [|a4 [|a5 [|a6 [|a7 t]]]]]]]]; try discriminate.
    injection H as <-. rewrite pw_block_R. unfold Rsum; simpl. lra.
  - destruct (length l <? 8)%nat; [injection H as <-; rewrite fold_left_Rplus; lra|].
    destruct (length l <=? 128)%nat.
    + destruct l as [|a0 [|a1 [|a2 [|a3 [|a4 [|a5 [|a6 [|a7 t]]]]]]]]; try discriminate.
      injection H as <-. rewrite pw_block_R. unfold Rsum; simpl. lra.
    + set (n2 := (length l / 2 - (length l / 2) mod 8)%nat) in *.
      destruct (pairwise_g Rplus 0 f (firstn n2 l)) as [a|] eqn:Ea; [|discriminate].
      destruct (pairwise_g Rplus 0 f (skipn n2 l)) as [b|] eqn:Eb; [|discriminate].
      injection H as <-. rewrite (IH _ _ Ea), (IH _ _ Eb), <- Rsum_app, firstn_skipn. reflexivity.
Qed.

(* the fuel is never exhausted for lists of at most 112 * 2^fuel + 16 elements (np_sum has fuel 64) *)
Lemma pairwise_g_total {A} (add : A -> A -> A) (zero : A) : forall fuel l,
  (length l <= 112 * 2 ^ fuel + 16)%nat -> exists s, pairwise_g add zero fuel l = Some s.
Proof.
  induction fuel as [|f IH]; intros l L; cbn [pairwise_g].
  - destruct (Nat.ltb_spec (length l) 8); [eexists; reflexivity|].
    destruct (Nat.leb_spec (length l) 128); [|simpl in L; lia].
    destruct l as [|a0 [|a1 [|a2 [|a3 [|a4 [|a5 [|a6 [|a7 t]]]]]]]]; simpl in *; try lia. eexists; reflexivity.
  - destruct (Nat.ltb_spec (length l) 8); [eexists; reflexivity|].
    destruct (Nat.leb_spec (length l) 128).
    + destruct l as [|a0 [|a1 [|a2 [|a3 [|a4 [|a5 [|a6 [|a7 t]]]]]]]]; simpl in *; try lia. eexists; reflexivity.
    + set (n2 := (length l / 2 - (length l / 2) mod 8)%nat).
      rewrite Nat.pow_succ_r' in L.
      assert (Hdm : (length l = 2 * (length l / 2) + length l mod 2)%nat) by (apply Nat.div_mod; lia).
      assert (Hm2 : (length l mod 2 < 2)%nat) by (apply Nat.mod_upper_bound; lia).
      assert (Hmod : ((length l / 2) mod 8 < 8)%nat) by (apply Nat.mod_upper_bound; lia).
      assert (Hle : ((length l / 2) mod 8 <= length l / 2)%nat) by (apply Nat.mod_le; lia).
      destruct (IH (firstn n2 l)) as [a Ea]; [rewrite firstn_length; unfold n2; lia|].
      destruct (IH (skipn n2 l)) as [b Eb]; [rewrite skipn_length; unfold n2; lia|].
      rewrite Ea, Eb. eexists; reflexivity.
Qed.

(* hence, over the reals, the model of numpy's add.reduce returns exactly the sum *)
Corollary pairwise_R_total_sum fuel l : (length l <= 112 * 2 ^ fuel + 16)%nat ->
  pairwise_g Rplus 0 fuel l = Some (Rsum l).
Proof.
  intros L. destruct (pairwise_g_total Rplus 0 fuel l L) as [s E]. rewrite E. f_equal. exact (pairwise_R_is_sum _ _ _ E).
Qed.

(* the function integrator with numpy's summation tree in place of the plain sum is the same real number *)
Corollary integrate_func_with_numpy_tree zs ws x1 x2 f s :
  pairwise_g Rplus 0 64 (map2 (fun z w => f (z * ((x2 - x1) / 2) + (x2 + x1) / 2) * w) zs ws) = Some s ->
  integrate_func zs ws x1 x2 f = (x2 - x1) / 2 * s.
Proof. intros H. unfold integrate_func. rewrite (pairwise_R_is_sum _ _ _ H). reflexivity. Qed.

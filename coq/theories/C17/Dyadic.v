(* C17 — exact dyadic arithmetic: the value of a binary64 float is m * 2^e; sums, differences,
   products and comparisons of such numbers are computed exactly on (Z mantissa, Z exponent)
   and proved equal to the corresponding real-number operations.  Used by the per-run
   certificates (moments, ordering, weight sums, agreement with a reference rule): they are
   decided by vm_compute on the EXACT values of the implementation's floats. *)
From Coq Require Import ZArith Reals Lia Lra List Bool.
From Coq Require Import PrimFloat FloatOps SpecFloat.
Import ListNotations.

Record dy := Dy { dm : Z; de : Z }.

Local Open Scope R_scope.

Definition dR (d : dy) : R := IZR (dm d) * powerRZ 2 (de d).

Local Open Scope Z_scope.

Definition dz (z : Z) : dy := Dy z 0.
Definition dmul (a b : dy) : dy := Dy (dm a * dm b) (de a + de b).
Definition dat (d : dy) (e : Z) : Z := Z.shiftl (dm d) (de d - e).   (* mantissa at exponent e <= de d *)
Definition dadd (a b : dy) : dy :=
  let e := Z.min (de a) (de b) in Dy (dat a e + dat b e) e.
Definition dopp (a : dy) : dy := Dy (- dm a) (de a).
Definition dsub (a b : dy) : dy := dadd a (dopp b).
Definition dabs (a : dy) : dy := Dy (Z.abs (dm a)) (de a).
Definition dscale (k : Z) (a : dy) : dy := Dy (k * dm a) (de a).
Definition dhalf (a : dy) : dy := Dy (dm a) (de a - 1).
Definition dleb (a b : dy) : bool := dm (dsub a b) <=? 0.
Definition dltb (a b : dy) : bool := dm (dsub a b) <? 0.
Definition dsum (l : list dy) : dy := fold_right dadd (dz 0) l.
Fixpoint dpow (a : dy) (n : nat) : dy := match n with O => dz 1 | S k => dmul a (dpow a k) end.

(* value of a float; None for nan/inf *)
Definition f2d (f : float) : option dy :=
  match Prim2SF f with
  | S754_zero _ => Some (Dy 0 0)
  | S754_finite s m e => Some (Dy (if s then Zneg m else Zpos m) e)
  | _ => None
  end.

Fixpoint fl2d (l : list float) : option (list dy) :=
  match l with
  | [] => Some []
  | f :: t => match f2d f, fl2d t with Some d, Some r => Some (d :: r) | _, _ => None end
  end.

(* the real number denoted by a float (0 for nan/inf; callers exclude those) *)
Definition f2R (f : float) : R := match f2d f with Some d => dR d | None => 0%R end.

Local Open Scope R_scope.

Lemma two_neq0 : 2 <> 0. Proof. lra. Qed.

Lemma powerRZ_2_pos e : 0 < powerRZ 2 e.
Proof. apply powerRZ_lt. lra. Qed.

Lemma IZR_pow2 n : (0 <= n)%Z -> IZR (2 ^ n) = powerRZ 2 n.
Proof.
  intros Hn. destruct n as [|p|p]; try lia.
  - simpl. reflexivity.
  - change (2 ^ Z.pos p)%Z with (Z.pow_pos 2 p). rewrite Zpower_pos_powerRZ. reflexivity.
Qed.

Lemma dat_spec d e : (e <= de d)%Z -> IZR (dat d e) * powerRZ 2 e = dR d.
Proof.
  intros H. unfold dat, dR. rewrite Z.shiftl_mul_pow2 by lia.
  rewrite mult_IZR, IZR_pow2 by lia. rewrite Rmult_assoc.
  rewrite <- powerRZ_add by apply two_neq0. f_equal. f_equal. lia.
Qed.

Lemma dR_dz z : dR (dz z) = IZR z.
Proof. unfold dR, dz; simpl. lra. Qed.

Lemma dR_mul a b : dR (dmul a b) = dR a * dR b.
Proof.
  unfold dR, dmul; simpl. rewrite mult_IZR, powerRZ_add by apply two_neq0. ring.
Qed.

Lemma dR_add a b : dR (dadd a b) = dR a + dR b.
Proof.
  unfold dadd. set (e := Z.min (de a) (de b)).
  unfold dR at 1; simpl. rewrite plus_IZR, Rmult_plus_distr_r.
  rewrite !dat_spec by (unfold e; lia). reflexivity.
Qed.

Lemma dR_opp a : dR (dopp a) = - dR a.
Proof. unfold dR, dopp; simpl. rewrite opp_IZR. ring. Qed.

Lemma dR_sub a b : dR (dsub a b) = dR a - dR b.
Proof. unfold dsub. rewrite dR_add, dR_opp. ring. Qed.

Lemma dR_abs a : dR (dabs a) = Rabs (dR a).
Proof.
  unfold dR, dabs; simpl. rewrite abs_IZR, Rabs_mult.
  rewrite (Rabs_pos_eq (powerRZ 2 (de a))) by (left; apply powerRZ_2_pos). reflexivity.
Qed.

Lemma dR_scale k a : dR (dscale k a) = IZR k * dR a.
Proof. unfold dR, dscale; simpl. rewrite mult_IZR. ring. Qed.

Lemma dR_half a : dR (dhalf a) = dR a / 2.
Proof.
  unfold dR, dhalf; simpl. replace (de a - 1)%Z with (de a + -1)%Z by lia.
  rewrite powerRZ_add by apply two_neq0. simpl. field.
Qed.

Lemma dR_sign a : (0 < dR a <-> (0 < dm a)%Z) /\ (dR a = 0 <-> dm a = 0%Z) /\ (dR a < 0 <-> (dm a < 0)%Z).
Proof.
  unfold dR. pose proof (powerRZ_2_pos (de a)) as P.
  assert (T : (dm a < 0 \/ dm a = 0 \/ 0 < dm a)%Z) by lia.
  destruct T as [T|[T|T]].
  - assert (IZR (dm a) < 0) by (apply IZR_lt in T; exact T).
    assert (IZR (dm a) * powerRZ 2 (de a) < 0) by nra.
    repeat split; intros; try lia; try lra.
  - rewrite T. rewrite Rmult_0_l. repeat split; intros; try lia; try lra.
  - assert (0 < IZR (dm a)) by (apply IZR_lt in T; exact T).
    assert (0 < IZR (dm a) * powerRZ 2 (de a)) by nra.
    repeat split; intros; try lia; try lra.
Qed.

Lemma dleb_spec a b : dleb a b = true <-> dR a <= dR b.
Proof.
  unfold dleb. rewrite Z.leb_le. pose proof (dR_sign (dsub a b)) as [P [Z N]].
  rewrite dR_sub in *. split; intros H.
  - destruct (Z.eq_dec (dm (dsub a b)) 0) as [E|E].
    + apply Z in E. lra.
    + assert (L : (dm (dsub a b) < 0)%Z) by lia. apply N in L. lra.
  - destruct (Rle_lt_or_eq_dec _ _ H) as [L|E].
    + assert (L' : dR a - dR b < 0) by lra. apply N in L'. lia.
    + assert (E' : dR a - dR b = 0) by lra. apply Z in E'. lia.
Qed.

Lemma dltb_spec a b : dltb a b = true <-> dR a < dR b.
Proof.
  unfold dltb. rewrite Z.ltb_lt. pose proof (dR_sign (dsub a b)) as [P [Z N]].
  rewrite dR_sub in *. split; intros H.
  - apply N in H. lra.
  - apply N. lra.
Qed.

Lemma dR_sum l : dR (dsum l) = fold_right Rplus 0 (map dR l).
Proof.
  induction l as [|a t IH]; simpl.
  - rewrite dR_dz. reflexivity.
  - rewrite dR_add, IH. reflexivity.
Qed.

Lemma dR_pow a n : dR (dpow a n) = dR a ^ n.
Proof.
  induction n as [|n IH]; simpl.
  - rewrite dR_dz. reflexivity.
  - rewrite dR_mul, IH. reflexivity.
Qed.

Lemma fl2d_length l r : fl2d l = Some r -> length r = length l.
Proof.
  revert r; induction l as [|f t IH]; intros r H; simpl in *.
  - inversion H. reflexivity.
  - destruct (f2d f); try discriminate. destruct (fl2d t) eqn:E; try discriminate.
    inversion H; subst. simpl. f_equal. apply IH. reflexivity.
Qed.

Lemma fl2d_values l r : fl2d l = Some r -> map dR r = map f2R l.
Proof.
  revert r; induction l as [|f t IH]; intros r H; simpl in *.
  - inversion H. reflexivity.
  - unfold f2R at 1. destruct (f2d f) eqn:Ef; try discriminate. destruct (fl2d t) eqn:E; try discriminate.
    inversion H; subst. simpl. f_equal. apply IH. reflexivity.
Qed.

(* C17 — discrete facts about the anchored code (no reals, no axioms):
   (1) the C fill loop, as sequential array writes, IS the mirrored fill of the model;
   (2) array shapes in QGauss2: repaired code consistent for all nx, ny; unchanged code refuted. *)
From Coq Require Import ZArith Lia Bool List Arith.
From Coq Require Import ZifyBool ZifyNat.
From EsVerif.Common Require Import Base.
From EsVerif.C17 Require Import Model.
Import ListNotations.

Ltac Zify.zify_post_hook ::= Z.to_euclidean_division_equations.

(* ------------------------------------------------------------------ (1) fill loop *)
Lemma length_upd {A} (l : list A) : forall k v, length (F.upd l k v) = length l.
Proof. induction l as [|a t IH]; intros [|k] v; simpl; auto. Qed.

Lemma nth_upd {A} (d : A) (l : list A) : forall k v j,
  nth j (F.upd l k v) d = if (j =? k)%nat && (k <? length l)%nat then v else nth j l d.
Proof.
  induction l as [|a t IH]; intros k v j.
  - simpl. rewrite andb_false_r. destruct k; reflexivity.
  - destruct k as [|k]; destruct j as [|j]; simpl; try reflexivity.
    rewrite IH. reflexivity.
Qed.

Fixpoint fill_nat {A} (n s : nat) (los his arr : list A) : list A :=
  match los, his with
  | lo :: lt, hi :: ht => fill_nat n (S s) lt ht (F.upd (F.upd arr s lo) (n - 1 - s) hi)
  | _, _ => arr
  end.

Lemma fill_loop_nat {A} n : forall (los his : list A) s arr,
  F.fill_loop (Z.of_nat n) (Z.of_nat s + 1) los his arr = fill_nat n s los his arr.
Proof.
  induction los as [|lo lt IH]; intros [|hi ht] s arr; simpl; auto.
  replace (Z.of_nat s + 1 + 1)%Z with (Z.of_nat (S s) + 1)%Z by lia. rewrite IH.
  unfold F.idx_lo, F.idx_hi.
  replace (Z.to_nat (Z.of_nat s + 1 - 1)) with s by lia.
  replace (Z.to_nat (Z.of_nat n + 1 - (Z.of_nat s + 1) - 1)) with (n - 1 - s)%nat by lia.
  reflexivity.
Qed.

Lemma length_fill_nat {A} n : forall (los his : list A) s arr, length (fill_nat n s los his arr) = length arr.
Proof.
  induction los as [|lo lt IH]; intros [|hi ht] s arr; simpl; auto.
  rewrite IH, !length_upd. reflexivity.
Qed.

Ltac fin :=
  try lia;
  match goal with
  | |- nth ?a ?t ?d = nth ?b (_ :: ?t) ?d => replace b with (S a) by lia; reflexivity
  | |- ?v = nth ?b (?v :: _) ?d => replace b with 0%nat by lia; reflexivity
  | |- _ => reflexivity
  end.

Ltac bcases :=
  repeat match goal with
         | |- context [Nat.leb ?a ?b] => destruct (Nat.leb_spec a b)
         | |- context [Nat.ltb ?a ?b] => destruct (Nat.ltb_spec a b)
         | |- context [Nat.eqb ?a ?b] => destruct (Nat.eqb_spec a b)
         end; cbn [andb]; cbv iota.

Lemma nth_fill_nat {A} (d : A) n m : (n <= 2 * m <= n + 1)%nat ->
  forall (los his : list A) s arr, length los = length his -> (s + length los = m)%nat -> length arr = n ->
  forall k, (k < n)%nat ->
  nth k (fill_nat n s los his arr) d =
    if (s <=? n - 1 - k)%nat && (n - 1 - k <? m)%nat then nth (n - 1 - k - s) his d
    else if (s <=? k)%nat && (k <? m)%nat then nth (k - s) los d
    else nth k arr d.
Proof.
  intros Hm. induction los as [|lo lt IH]; intros [|hi ht] s arr Hl Hs Ha k Hk; simpl in Hl, Hs; try discriminate.
  - simpl. bcases; fin.
  - simpl fill_nat. rewrite IH; [| simpl in Hl; lia | lia | rewrite !length_upd; exact Ha | exact Hk].
    rewrite !nth_upd, !length_upd, Ha.
    bcases; fin.
Qed.

Lemma nth_firstn_lt' {A} (d : A) : forall (l : list A) n i, (i < n)%nat -> nth i (firstn n l) d = nth i l d.
Proof.
  induction l as [|a t IH]; intros [|n] [|i] H; simpl; try reflexivity; try lia.
  apply IH. lia.
Qed.

Theorem fill_loop_is_mirror_fill {A} (d : A) n (lo hi : list A) :
  (1 <= n)%nat -> length lo = Z.to_nat (F.m_of (Z.of_nat n)) -> length hi = length lo ->
  F.fill_loop (Z.of_nat n) 1 lo hi (repeat d n) = mirror_fill n lo hi.
Proof.
  intros Hn Hlo Hhi. set (m := length lo) in *.
  assert (Hm : (n <= 2 * m <= n + 1)%nat) by (unfold F.m_of in Hlo; lia).
  change 1%Z with (Z.of_nat 0 + 1)%Z. rewrite fill_loop_nat.
  assert (Lm : length (mirror_fill n lo hi) = n).
  { unfold mirror_fill. rewrite app_length, firstn_length, rev_length. fold m. lia. }
  apply nth_ext with d d.
  - rewrite length_fill_nat, repeat_length, Lm. reflexivity.
  - intros k Hk. rewrite length_fill_nat, repeat_length in Hk.
    rewrite (nth_fill_nat d n m Hm); [| symmetry; exact Hhi | fold m; lia | apply repeat_length | exact Hk].
    unfold mirror_fill. rewrite Hhi. fold m.
    destruct (Nat.ltb_spec k (n - m)) as [Hlt|Hge].
    + rewrite app_nth1 by (rewrite firstn_length; fold m; lia).
      rewrite nth_firstn_lt' by exact Hlt.
      bcases; try lia; f_equal; lia.
    + rewrite app_nth2 by (rewrite firstn_length; fold m; lia).
      rewrite firstn_length. fold m. rewrite Nat.min_l by lia.
      rewrite rev_nth by (rewrite Hhi; fold m; lia). rewrite Hhi. fold m.
      bcases; try lia; f_equal; lia.
Qed.

(* the two arrays the C code fills: same positions, so the same statement for x and for w *)
Corollary gauleg_arrays_are_mirror_fills (n : nat) (los his ws : list PrimFloat.float) :
  (1 <= n)%nat -> length los = Z.to_nat (F.m_of (Z.of_nat n)) -> length his = length los -> length ws = length los ->
  F.fill_loop (Z.of_nat n) 1 los his (repeat PrimFloat.zero n) = mirror_fill n los his /\
  F.fill_loop (Z.of_nat n) 1 ws ws (repeat PrimFloat.zero n) = mirror_fill n ws ws.
Proof.
  intros Hn H1 H2 H3. split; apply fill_loop_is_mirror_fill; auto; congruence.
Qed.

(* every write of the fill loop is inside the arrays of length npts (no totalisation of Z.to_nat is
   ever exercised): for 1 <= i <= m = (npts+1)/2 *)
Lemma fill_indices_in_bounds npts i : (1 <= npts)%Z -> (1 <= i <= F.m_of npts)%Z ->
  (0 <= F.idx_lo i < npts)%Z /\ (0 <= F.idx_hi npts i < npts)%Z /\ (F.idx_lo i <= F.idx_hi npts i)%Z.
Proof. unfold F.m_of, F.idx_lo, F.idx_hi. lia. Qed.

Lemma roots_length orig fuel n nf : forall coss z1 pp r,
  F.roots orig fuel n nf coss z1 pp = Some r -> length r = length coss.
Proof.
  induction coss as [|c t IH]; intros z1 pp r H; simpl in H.
  - injection H as <-. reflexivity.
  - destruct (F.newton orig fuel n nf c z1 pp) as [[[z z1'] pp']|]; [|discriminate].
    destruct (F.roots orig fuel n nf t z1' pp') as [r'|] eqn:E; [|discriminate].
    injection H as <-. simpl. f_equal. eapply IH. exact E.
Qed.

(* gauleg's output arrays, produced by the C code's writes into zeroed arrays, are the model's *)
Theorem gauleg_writes_eq orig x1 x2 npts coss :
  F.gauleg_gen_w orig x1 x2 npts coss = F.gauleg_gen orig x1 x2 npts coss.
Proof.
  unfold F.gauleg_gen_w, F.gauleg_gen, F.reject_npts, F.outer_trips, F.inner_trips, F.REJECT_ERR.
  destruct (Z.leb_spec npts 0) as [Hn|Hn]; [reflexivity|].
  destruct (Nat.eqb_spec (length coss) (Z.to_nat (F.m_of npts))) as [Hc|Hc]; simpl; [|reflexivity].
  destruct (F.roots orig F.NEWTON_FUEL (Z.to_nat npts) (F.of_Z npts) coss F.Z1_INIT F.PP_INIT) as [r|] eqn:E; [|reflexivity].
  apply roots_length in E.
  assert (Hz : npts = Z.of_nat (Z.to_nat npts)) by lia.
  rewrite Hz at 1 3.
  rewrite !fill_loop_is_mirror_fill; try reflexivity; rewrite ?map_length; try lia; rewrite <- Hz; congruence.
Qed.

(* ---- consequences for the float model, for ALL inputs: gauleg returns npts abscissae and npts
   weights, and the weights are EXACTLY (bit for bit) symmetric: w[npts+1-i-1] = w[i-1] is a copy *)
Lemma nth_mirror_fill {A} (d : A) n (lo hi : list A) : length hi = length lo ->
  (n <= 2 * length lo <= n + 1)%nat -> forall k, (k < n)%nat ->
  nth k (mirror_fill n lo hi) d = if (k <? n - length lo)%nat then nth k lo d else nth (n - 1 - k) hi d.
Proof.
  intros Hhi Hm k Hk. unfold mirror_fill. rewrite Hhi.
  destruct (Nat.ltb_spec k (n - length lo)) as [Hlt|Hge].
  - rewrite app_nth1 by (rewrite firstn_length; lia). apply nth_firstn_lt'. exact Hlt.
  - rewrite app_nth2 by (rewrite firstn_length; lia).
    rewrite firstn_length, Nat.min_l by lia.
    rewrite rev_nth by (rewrite Hhi; lia). rewrite Hhi. f_equal. lia.
Qed.

Lemma length_mirror_fill {A} n (lo hi : list A) : length hi = length lo ->
  (n <= 2 * length lo <= n + 1)%nat -> length (mirror_fill n lo hi) = n.
Proof. intros Hhi Hm. unfold mirror_fill. rewrite app_length, firstn_length, rev_length. lia. Qed.

Lemma mirror_fill_self_palindrome {A} n (w : list A) :
  (n <= 2 * length w <= n + 1)%nat -> rev (mirror_fill n w w) = mirror_fill n w w.
Proof.
  intros Hm. destruct w as [|d0 w'] eqn:Ew.
  - simpl in Hm. assert (n = 0)%nat by lia. subst n. reflexivity.
  - rewrite <- Ew in *. assert (L : length (mirror_fill n w w) = n) by (apply length_mirror_fill; auto).
    apply nth_ext with d0 d0; [rewrite rev_length; reflexivity|].
    intros k Hk. rewrite rev_length, L in Hk.
    rewrite rev_nth by (rewrite L; exact Hk). rewrite L.
    rewrite !(nth_mirror_fill d0) by (auto; lia).
    destruct (Nat.ltb_spec (n - S k) (n - length w)), (Nat.ltb_spec k (n - length w)); try lia; f_equal; lia.
Qed.

Theorem gauleg_lengths_and_weight_symmetry orig x1 x2 npts coss xs ws :
  F.gauleg_gen orig x1 x2 npts coss = Ok (xs, ws) ->
  (0 < npts)%Z /\ length xs = Z.to_nat npts /\ length ws = Z.to_nat npts /\ rev ws = ws.
Proof.
  unfold F.gauleg_gen, F.reject_npts, F.outer_trips, F.inner_trips, F.REJECT_ERR.
  destruct (Z.leb_spec npts 0) as [Hn|Hn]; [discriminate|].
  destruct (Nat.eqb_spec (length coss) (Z.to_nat (F.m_of npts))) as [Hc|Hc]; simpl; [|discriminate].
  destruct (F.roots orig F.NEWTON_FUEL (Z.to_nat npts) (F.of_Z npts) coss F.Z1_INIT F.PP_INIT) as [r|] eqn:E; [|discriminate].
  apply roots_length in E. intros H. injection H as <- <-.
  assert (Hm : (Z.to_nat npts <= 2 * length r <= Z.to_nat npts + 1)%nat) by (unfold F.m_of in Hc; lia).
  split; [exact Hn|].
  split; [apply length_mirror_fill; rewrite ?map_length; auto|].
  split; [apply length_mirror_fill; rewrite ?map_length; auto|].
  apply mirror_fill_self_palindrome. rewrite map_length. exact Hm.
Qed.

(* ---- rejections: gauleg raises ValueError exactly for npts <= 0 (whatever the other arguments) *)
Theorem gauleg_rejection orig x1 x2 npts coss :
  F.gauleg_gen orig x1 x2 npts coss = Err EValue <-> (npts <= 0)%Z.
Proof.
  unfold F.gauleg_gen, F.reject_npts, F.outer_trips, F.inner_trips, F.REJECT_ERR. destruct (Z.leb_spec npts 0) as [Hn|Hn].
  - split; [intros _; exact Hn | reflexivity].
  - split; [|lia]. intros H.
    destruct (negb (length coss =? Z.to_nat (F.m_of npts))%nat); [discriminate|].
    destruct (F.roots orig F.NEWTON_FUEL (Z.to_nat npts) (F.of_Z npts) coss F.Z1_INIT F.PP_INIT); discriminate.
Qed.

(* ------------------------------------------------------------------ (2) QGauss2 shapes *)
Local Open Scope Z_scope.

Ltac zcases :=
  repeat match goal with
         | |- context [Z.eqb ?a ?b] => destruct (Z.eqb_spec a b)
         | H : context [Z.eqb ?a ?b] |- _ => destruct (Z.eqb_spec a b)
         end; simpl in *.

(* repaired code: for all point counts the weight grid has the shape of the mesh, and so has
   the integrand that is summed *)
Theorem qgauss2_shapes_repaired nx ny : 1 <= nx -> 1 <= ny ->
  F.wgrid_shape false nx ny = Some (F.mesh_shape nx ny) /\
  F.integrand_shape false nx ny = Some (F.mesh_shape nx ny).
Proof.
  intros Hx Hy. unfold F.integrand_shape, F.wgrid_shape, F.mesh_shape, F.bshape, F.bdim. simpl.
  zcases; try lia; split; repeat f_equal; try lia; try congruence.
Qed.

(* unchanged code: constructible with the right shapes iff nx = ny (for nx, ny >= 2) *)
Theorem qgauss2_shapes_unchanged_iff nx ny : 2 <= nx -> 2 <= ny ->
  (F.integrand_shape true nx ny = Some (F.mesh_shape nx ny) <-> nx = ny).
Proof.
  intros Hx Hy. unfold F.integrand_shape, F.wgrid_shape, F.mesh_shape, F.bshape, F.bdim. simpl.
  split.
  - zcases; try lia; try discriminate; intros; try lia; try congruence.
  - intros ->. zcases; try lia; reflexivity.
Qed.

Theorem qgauss2_shapes_unchanged_refuted :
  F.wgrid_shape true 3 4 = None /\                  (* QGauss2(3,4): ValueError in _setup        *)
  F.integrand_shape true 1 3 = Some (3, 3).          (* QGauss2(1,3): a (3,3) sum for a (3,1) mesh *)
Proof. split; reflexivity. Qed.

(* ------------------------------------------------------------------ (3) QGauss.integrate dispatch *)
(* repaired: every function integrand reaches the function integrator, every table the data one *)
Theorem dispatch_repaired k :
  (is_callable k = true -> dispatch false k = RFunc) /\ (is_callable k = false -> dispatch false k = RData).
Proof. unfold dispatch. destruct (is_callable k); split; intros H; try reflexivity; discriminate. Qed.

(* unchanged: a ufunc (np.sin) is sent to the data integrator ... *)
Theorem dispatch_unchanged_refuted : exists k, is_callable k = true /\ dispatch true k = RData.
Proof. exists YUfunc. split; reflexivity. Qed.

(* ... and outside that class the unchanged dispatch agrees with the repaired one *)
Theorem dispatch_unchanged_outside_known k :
  kf_callable_not_function k = false -> dispatch true k = dispatch false k.
Proof. destruct k; simpl; intros H; try reflexivity; discriminate. Qed.

(* ------------------------------------------------------------------ (4) the prologue of the integrators *)
(* q_integrate is: the prologue (setup; no count -> ValueError), then the integration proper with the held rule *)
Lemma q_integrate_prologue {T Arg Out} (G : Z -> result T) (I : T -> Arg -> result Out) st npts a :
  q_integrate G I st npts a =
  match q_prologue G st npts with
  | (st', Some e) => (st', Err e)
  | (st', None) => match st_rule st' with Some r => (st', I r a) | None => (st', Err EType) end
  end.
Proof.
  unfold q_integrate, q_prologue. destruct (setup G st npts) as [st' [e|]]; [reflexivity|].
  destruct (st_npts st'); [|reflexivity]. destruct (st_rule st'); reflexivity.
Qed.

(* an object that never got a count raises ValueError on integrate, and stays as it was *)
Lemma no_count_raises {T Arg Out} (G : Z -> result T) (I : T -> Arg -> result Out) a :
  q_integrate G I q_none None a = (q_none, Err EValue).
Proof. reflexivity. Qed.

(* C17 — proofs over the reals: linearity of a rule, lifting of moment certificates to all
   polynomials, affine map, mirrored fill, integrators as weighted sums, tensor product,
   linear interpolation, cache/history independence. *)
From Coq Require Import Reals Lra Lia ZifyBool.
From EsVerif.Common Require Import Base.
From EsVerif.C17 Require Import Model Dyadic Spec.
Import RM.

Local Open Scope R_scope.

(* ------------------------------------------------------------------ Rsum / Qrule algebra *)
Lemma Rsum_app l1 l2 : Rsum (l1 ++ l2) = Rsum l1 + Rsum l2.
Proof. unfold Rsum. induction l1 as [|a t IH]; simpl; [lra | rewrite IH; lra]. Qed.

Lemma Qrule_ext xs ws f g : (forall x, f x = g x) -> Qrule xs ws f = Qrule xs ws g.
Proof.
  intros E. revert ws; induction xs as [|x xt IH]; intros [|w wt]; simpl; auto.
  rewrite E, IH. reflexivity.
Qed.

Lemma Qrule_plus xs ws f g : Qrule xs ws (fun x => f x + g x) = Qrule xs ws f + Qrule xs ws g.
Proof.
  revert ws; induction xs as [|x xt IH]; intros [|w wt]; simpl; try lra.
  rewrite IH. ring.
Qed.

Lemma Qrule_scal xs ws c f : Qrule xs ws (fun x => c * f x) = c * Qrule xs ws f.
Proof.
  revert ws; induction xs as [|x xt IH]; intros [|w wt]; simpl; try lra.
  rewrite IH. ring.
Qed.

Lemma Qrule_zero xs ws : Qrule xs ws (fun _ => 0) = 0.
Proof.
  revert ws; induction xs as [|x xt IH]; intros [|w wt]; simpl; try lra.
  rewrite IH. ring.
Qed.

Lemma Qrule_const_one xs ws : length xs = length ws -> Qrule xs ws (fun _ => 1) = Rsum ws.
Proof.
  revert ws; induction xs as [|x xt IH]; intros [|w wt] L; simpl in *; try lia; try reflexivity.
  rewrite IH by lia. unfold Rsum; simpl. ring.
Qed.

(* ------------------------------------------------------------------ moments_lift *)
Fixpoint mcomb (m : nat -> R) (k : nat) (p : list R) : R :=
  match p with
  | [] => 0
  | c :: t => c * m k + mcomb m (S k) t
  end.

Lemma Qrule_peval_shift xs ws p : forall k,
  Qrule xs ws (fun x => x ^ k * peval p x) = mcomb (moment xs ws) k p.
Proof.
  induction p as [|c t IH]; intros k; simpl.
  - rewrite (Qrule_ext _ _ _ (fun _ => 0)) by (intros; ring). apply Qrule_zero.
  - rewrite (Qrule_ext _ _ _ (fun x => c * x ^ k + x ^ S k * peval t x)) by (intros; simpl; ring).
    rewrite Qrule_plus, Qrule_scal, IH. reflexivity.
Qed.

Lemma pow_m1 n : (-1) ^ n = if Nat.even n then 1 else -1.
Proof.
  induction n as [|n IH]; [reflexivity|].
  rewrite Nat.even_succ, <- Nat.negb_even. simpl pow. rewrite IH.
  destruct (Nat.even n); simpl; lra.
Qed.

Lemma m_exact_closed k : (1 ^ S k - (-1) ^ S k) / INR (S k) = m_exact k.
Proof.
  unfold m_exact. rewrite pow1, pow_m1, Nat.even_succ, <- Nat.negb_even.
  destruct (Nat.even k); simpl negb; cbv iota; unfold Rdiv; lra.
Qed.

Lemma Pint_mcomb p : forall k, pint_from k (-1) 1 p = mcomb m_exact k p.
Proof.
  induction p as [|c t IH]; intros k; cbn [pint_from mcomb]; [reflexivity|].
  rewrite IH, <- m_exact_closed. unfold Rdiv. ring.
Qed.

Lemma mcomb_close m1 m2 eps p : forall k,
  (forall j, (j < length p)%nat -> Rabs (m1 (k + j)%nat - m2 (k + j)%nat) <= eps) ->
  Rabs (mcomb m1 k p - mcomb m2 k p) <= eps * norm1 p.
Proof.
  unfold norm1, Rsum.
  induction p as [|c t IH]; intros k H; simpl.
  - rewrite Rminus_0_r, Rabs_R0. lra.
  - replace (c * m1 k + mcomb m1 (S k) t - (c * m2 k + mcomb m2 (S k) t))
      with (c * (m1 k - m2 k) + (mcomb m1 (S k) t - mcomb m2 (S k) t)) by ring.
    eapply Rle_trans; [apply Rabs_triang|].
    rewrite Rabs_mult.
    assert (H0 : Rabs (m1 k - m2 k) <= eps).
    { specialize (H 0%nat). rewrite Nat.add_0_r in H. apply H. simpl; lia. }
    assert (Ht : Rabs (mcomb m1 (S k) t - mcomb m2 (S k) t) <= eps * fold_right Rplus 0 (map Rabs t)).
    { apply IH. intros j Hj. replace (S k + j)%nat with (k + S j)%nat by lia. apply H. simpl; lia. }
    pose proof (Rabs_pos c). nra.
Qed.

Theorem moments_lift xs ws N eps p :
  moments_ok xs ws N eps -> (length p <= N)%nat ->
  Rabs (Qrule xs ws (peval p) - Pint (-1) 1 p) <= eps * norm1 p.
Proof.
  intros M L. unfold Pint. rewrite Pint_mcomb.
  rewrite (Qrule_ext _ _ _ (fun x => x ^ 0 * peval p x)) by (intros; simpl; ring).
  rewrite Qrule_peval_shift. apply mcomb_close. intros j Hj. simpl. apply M. lia.
Qed.

(* ------------------------------------------------------------------ affine map *)
Theorem Qrule_affine a b zs ws f :
  Qrule (map_nodes a b zs) (map_weights a b ws) f =
  (b - a) / 2 * Qrule zs ws (fun z => f ((a + b) / 2 + (b - a) / 2 * z)).
Proof.
  unfold map_nodes, map_weights.
  revert ws; induction zs as [|z zt IH]; intros [|w wt]; simpl; try lra.
  rewrite IH. ring.
Qed.

Lemma Rsum_map_weights a b ws : Rsum (map_weights a b ws) = (b - a) / 2 * Rsum ws.
Proof.
  unfold map_weights, Rsum. induction ws as [|w t IH]; simpl; [lra | rewrite IH; ring].
Qed.

Theorem weights_sum a b zs ws N eps :
  moments_ok zs ws N eps -> (0 < N)%nat -> length zs = length ws ->
  Rabs (Rsum (map_weights a b ws) - (b - a)) <= Rabs (b - a) / 2 * eps.
Proof.
  intros M HN L. specialize (M 0%nat HN). unfold moment, m_exact in M. cbn [Nat.even INR] in M.
  rewrite (Qrule_ext _ _ (fun x => x ^ 0) (fun _ => 1)) in M by reflexivity.
  rewrite Qrule_const_one in M by exact L.
  rewrite Rsum_map_weights.
  replace ((b - a) / 2 * Rsum ws - (b - a)) with ((b - a) / 2 * (Rsum ws - 2 / 1)) by field.
  rewrite Rabs_mult. unfold Rdiv at 1. rewrite Rabs_mult, (Rabs_pos_eq (/ 2)) by lra.
  pose proof (Rabs_pos (b - a)). unfold Rdiv. nra.
Qed.

(* composition of a polynomial with an affine map *)
Lemma peval_padd p q x : peval (padd p q) x = peval p x + peval q x.
Proof.
  revert q; induction p as [|a p' IH]; intros [|b q']; simpl; try lra.
  rewrite IH. ring.
Qed.

Lemma peval_pscale c p x : peval (pscale c p) x = c * peval p x.
Proof. unfold pscale. induction p as [|a t IH]; simpl; [lra | rewrite IH; ring]. Qed.

Lemma peval_pcomp p xm xl t : peval (pcomp p xm xl) t = peval p (xm + xl * t).
Proof.
  induction p as [|c r IH]; [reflexivity|].
  cbn [pcomp]. rewrite !peval_padd. cbn [peval]. rewrite !peval_pscale, IH. ring.
Qed.

Lemma length_padd p q : length (padd p q) = Nat.max (length p) (length q).
Proof.
  revert q; induction p as [|a p' IH]; intros [|b q']; simpl; try lia.
  rewrite IH. reflexivity.
Qed.

Lemma length_pcomp p xm xl : length (pcomp p xm xl) = length p.
Proof.
  induction p as [|c r IH]; [reflexivity|].
  cbn [pcomp]. rewrite !length_padd. cbn [length]. unfold pscale. rewrite !map_length, IH. lia.
Qed.

(* ------------------------------------------------------------------ mirrored fill *)
Lemma nth_firstn_lt {A} (l : list A) d : forall n i, (i < n)%nat -> nth i (firstn n l) d = nth i l d.
Proof.
  induction l as [|a t IH]; intros [|n] [|i] H; simpl; try lia; auto.
  apply IH. lia.
Qed.

(* every entry of the filled array is related to its mirror image *)
Lemma mirror_fill_rel {A} (Rel : A -> A -> Prop) (d : A) (n m : nat) (lo hi : list A) :
  length lo = m -> length hi = m -> (n = 2 * m \/ S n = 2 * m)%nat ->
  (forall j, (j < m)%nat -> Rel (nth j lo d) (nth j hi d) /\ Rel (nth j hi d) (nth j lo d)) ->
  (S n = 2 * m -> Rel (nth (m - 1) hi d) (nth (m - 1) hi d))%nat ->
  length (mirror_fill n lo hi) = n /\
  forall i, (i < n)%nat -> Rel (nth i (mirror_fill n lo hi) d) (nth (n - 1 - i) (mirror_fill n lo hi) d).
Proof.
  intros Llo Lhi Hn Hpair Hmid. unfold mirror_fill.
  assert (LA : length (firstn (n - length hi) lo) = (n - m)%nat).
  { rewrite firstn_length, Llo, Lhi. lia. }
  split.
  { rewrite app_length, LA, rev_length, Lhi. lia. }
  intros i Hi.
  assert (get : forall k, (k < n)%nat ->
            nth k (firstn (n - length hi) lo ++ rev hi) d =
            if (k <? n - m)%nat then nth k lo d else nth (m - 1 - (k - (n - m))) hi d).
  { intros k Hk. destruct (Nat.ltb_spec k (n - m)) as [E|E].
    - rewrite app_nth1 by lia. rewrite Lhi. apply nth_firstn_lt. lia.
    - rewrite app_nth2 by lia. rewrite LA.
      rewrite rev_nth by lia. rewrite Lhi. f_equal. lia. }
  rewrite (get i) by lia. rewrite (get (n - 1 - i)%nat) by lia.
  destruct (Nat.ltb_spec i (n - m)) as [E1|E1]; destruct (Nat.ltb_spec (n - 1 - i) (n - m)) as [E2|E2].
  - lia.
  - replace (m - 1 - (n - 1 - i - (n - m)))%nat with i by lia. apply Hpair. lia.
  - replace (m - 1 - (i - (n - m)))%nat with (n - 1 - i)%nat by lia. apply Hpair. lia.
  - assert (S n = 2 * m)%nat by lia.
    replace (m - 1 - (i - (n - m)))%nat with (m - 1)%nat by lia.
    replace (m - 1 - (n - 1 - i - (n - m)))%nat with (m - 1)%nat by lia.
    apply Hmid. assumption.
Qed.

Lemma nth_map_R (f : R -> R) l j : (j < length l)%nat -> nth j (map f l) 0 = f (nth j l 0).
Proof. intros H. rewrite (nth_indep _ 0 (f 0)) by (rewrite map_length; exact H). apply map_nth. Qed.

Theorem mirror_symmetric n xm xl zs wl :
  let m := length zs in
  length wl = m -> (n = 2 * m \/ S n = 2 * m)%nat ->
  ((S n = 2 * m)%nat -> nth (m - 1)%nat zs 0 = 0) ->
  let xs := mirror_nodes n xm xl zs in
  let ws := mirror_weights n wl in
  length xs = n /\ length ws = n /\
  forall i, (i < n)%nat ->
    nth i xs 0 + nth (n - 1 - i) xs 0 = 2 * xm /\ nth i ws 0 = nth (n - 1 - i) ws 0.
Proof.
  intros m Lw Hn Hmid xs ws.
  destruct (mirror_fill_rel (fun x y => x + y = 2 * xm) 0 n m
              (map (fun z => xm - xl * z) zs) (map (fun z => xm + xl * z) zs)) as [L1 S1].
  - apply map_length.
  - apply map_length.
  - exact Hn.
  - intros j Hj. rewrite !nth_map_R by exact Hj. split; ring.
  - intros Hodd.
    assert (Hm : (m - 1 < length zs)%nat) by (fold m; lia).
    rewrite !nth_map_R by exact Hm. rewrite (Hmid Hodd). ring.
  - assert (W : length (mirror_fill n wl wl) = n /\
                forall i, (i < n)%nat -> nth i (mirror_fill n wl wl) 0 = nth (n - 1 - i) (mirror_fill n wl wl) 0)
      by (apply (mirror_fill_rel (@eq R) 0 n m wl wl); auto).
    destruct W as [L2 S2].
    split; [exact L1|]. split; [exact L2|].
    intros i Hi. split; [apply S1 | apply S2]; exact Hi.
Qed.

(* ------------------------------------------------------------------ integrators *)
Lemma Rsum_map2_Qrule (g : R -> R) zs ws :
  Rsum (map2 (fun z w => g z * w) zs ws) = Qrule zs ws g.
Proof.
  unfold Rsum. revert ws; induction zs as [|z zt IH]; intros [|w wt]; simpl; try lra.
  rewrite IH. ring.
Qed.

Theorem integrate_func_is_Qrule zs ws x1 x2 f :
  integrate_func zs ws x1 x2 f = Qrule (map_nodes x1 x2 zs) (map_weights x1 x2 ws) f.
Proof.
  unfold integrate_func. rewrite Qrule_affine.
  rewrite (Rsum_map2_Qrule (fun z => f (z * ((x2 - x1) / 2) + (x2 + x1) / 2))).
  f_equal. apply Qrule_ext. intros z. f_equal. field.
Qed.

Theorem integrate_data_is_Qrule zs ws xv yv :
  integrate_data zs ws xv yv =
  Qrule (map_nodes (Rmin_list xv) (Rmax_list xv) zs) (map_weights (Rmin_list xv) (Rmax_list xv) ws)
        (interplin yv xv).
Proof. unfold integrate_data. apply integrate_func_is_Qrule. Qed.

Lemma map2_map_l {A B C D} (f : B -> C -> D) (g : A -> B) l1 l2 :
  map2 f (map g l1) l2 = map2 (fun a c => f (g a) c) l1 l2.
Proof. revert l2; induction l1 as [|a t IH]; intros [|c t2]; simpl; auto. rewrite IH. reflexivity. Qed.

Theorem integrate_func_vals zs ws x1 x2 f :
  integrate_func zs ws x1 x2 f =
  integrate_vals ws x1 x2 (map (fun z => f (z * ((x2 - x1) / 2) + (x2 + x1) / 2)) zs).
Proof. unfold integrate_func, integrate_vals. rewrite map2_map_l. reflexivity. Qed.

(* ---- tensor product *)
Lemma Rsum_row (g : R -> R) c x wx :
  Rsum (map2 (fun xj wxj => g xj * (wxj * c)) x wx) = c * Qrule x wx g.
Proof.
  unfold Rsum. revert wx; induction x as [|a t IH]; intros [|w wt]; simpl; try lra.
  rewrite IH. ring.
Qed.

Theorem tensor_product_sum x wx y wy x1 x2 y1 y2 f :
  integrate_func2 x wx y wy x1 x2 y1 y2 f =
  Qrule (map_nodes y1 y2 y) (map_weights y1 y2 wy)
        (fun yy => Qrule (map_nodes x1 x2 x) (map_weights x1 x2 wx) (fun xx => f xx yy)).
Proof.
  unfold integrate_func2.
  set (xf1 := (x2 - x1) / 2). set (xf2 := (x2 + x1) / 2).
  set (yf1 := (y2 - y1) / 2). set (yf2 := (y2 + y1) / 2).
  assert (E : forall wy',
    Rsum (flat_map (fun yw : R * R => map2 (fun xj wxj => f (xj * xf1 + xf2) (fst yw * yf1 + yf2) * (wxj * snd yw)) x wx)
                   (combine y wy')) =
    Qrule y wy' (fun yi => Qrule x wx (fun xj => f (xj * xf1 + xf2) (yi * yf1 + yf2)))).
  { induction y as [|yi yt IH]; intros [|wyi wyt]; simpl; try reflexivity.
    rewrite Rsum_app, IH.
    rewrite (Rsum_row (fun xj => f (xj * xf1 + xf2) (yi * yf1 + yf2))). reflexivity. }
  rewrite E. rewrite Qrule_affine.
  rewrite (Qrule_ext y wy
             (fun z => Qrule (map_nodes x1 x2 x) (map_weights x1 x2 wx) (fun xx => f xx ((y1 + y2) / 2 + (y2 - y1) / 2 * z)))
             (fun yi => xf1 * Qrule x wx (fun xj => f (xj * xf1 + xf2) (yi * yf1 + yf2)))).
  - rewrite Qrule_scal. unfold yf1, xf1, Rdiv. ring.
  - intros yi. rewrite Qrule_affine. unfold xf1 at 1. f_equal. apply Qrule_ext. intros xj.
    f_equal; unfold xf1, xf2, yf1, yf2; field.
Qed.

Lemma map2_app {A B C} (f : A -> B -> C) l1 l1' l2 l2' :
  length l1 = length l2 -> map2 f (l1 ++ l1') (l2 ++ l2') = map2 f l1 l2 ++ map2 f l1' l2'.
Proof.
  revert l2; induction l1 as [|a t IH]; intros [|b t2] L; simpl in *; try lia; [reflexivity|].
  rewrite IH by lia. reflexivity.
Qed.

Lemma map2_nil_r {A B C} (f : A -> B -> C) l : map2 f l [] = [].
Proof. destruct l; reflexivity. Qed.

Lemma map2_map_both {A B C D E} (f : C -> D -> E) (g : A -> C) (h : B -> D) l1 l2 :
  map2 f (map g l1) (map h l2) = map2 (fun a b => f (g a) (h b)) l1 l2.
Proof. revert l2; induction l1 as [|a t IH]; intros [|b t2]; simpl; auto. rewrite IH. reflexivity. Qed.

(* the two-dimensional integrator on the values the function takes on the exact grid *)
Theorem integrate_func2_vals x wx y wy x1 x2 y1 y2 f :
  length x = length wx ->
  integrate_func2 x wx y wy x1 x2 y1 y2 f =
  integrate_vals2 wx wy x1 x2 y1 y2
    (flat_map (fun yi => map (fun xj => f (xj * ((x2 - x1) / 2) + (x2 + x1) / 2) (yi * ((y2 - y1) / 2) + (y2 + y1) / 2)) x) y).
Proof.
  intros Lx. unfold integrate_func2, integrate_vals2, grid_wR. f_equal.
  revert wy; induction y as [|yi yt IH]; intros [|wyi wyt]; simpl; try reflexivity.
  - rewrite map2_nil_r. reflexivity.
  - rewrite map2_app by (rewrite !map_length; exact Lx).
    rewrite !Rsum_app, IH. f_equal. rewrite map2_map_both. reflexivity.
Qed.

(* ---- linear interpolation: on ascending abscissae interplin IS the chord through the
        bracketing pair of tabulated points *)
Lemma increasing_head_lt x t : increasing (x :: t) -> forall j, (j < length t)%nat -> x < nth j t 0.
Proof.
  revert x; induction t as [|y t IH]; intros x H j Hj; simpl in *; [lia|].
  destruct H as [Hxy Ht]. destruct j as [|j]; [exact Hxy|].
  apply Rlt_trans with y; [exact Hxy|]. apply IH; [exact Ht | lia].
Qed.

Lemma increasing_tail x t : increasing (x :: t) -> increasing t.
Proof. simpl. intros [_ H]; exact H. Qed.

Definition count_lt (l : list R) (u : R) : nat := length (filter (fun xi => Rltb xi u) l).

Lemma Rltb_true a b : Rltb a b = true <-> a < b.
Proof. unfold Rltb. destruct (Rlt_dec a b); split; intros; try assumption; try reflexivity; try discriminate; contradiction. Qed.

Lemma Rltb_false a b : Rltb a b = false <-> b <= a.
Proof. unfold Rltb. destruct (Rlt_dec a b); split; intros; try discriminate; try reflexivity; lra. Qed.

Lemma count_lt_lower l u : increasing l -> forall j, (j < length l)%nat -> nth j l 0 < u -> (j + 1 <= count_lt l u)%nat.
Proof.
  unfold count_lt.
  induction l as [|x t IH]; intros H j Hj Hu; simpl in *; [lia|].
  destruct j as [|j].
  - apply Rltb_true in Hu. rewrite Hu. simpl. lia.
  - assert (Hx : x < nth j t 0) by (apply (increasing_head_lt x t); [exact H | lia]).
    assert (Hxu : Rltb x u = true) by (apply Rltb_true; lra).
    rewrite Hxu. simpl. assert (Hj' : (j < length t)%nat) by lia.
    specialize (IH (increasing_tail _ _ H) j Hj' Hu). lia.
Qed.

Lemma count_lt_none l u : (forall j, (j < length l)%nat -> u <= nth j l 0) -> count_lt l u = 0%nat.
Proof.
  unfold count_lt. induction l as [|x t IH]; intros H; simpl; [reflexivity|].
  assert (Hx : Rltb x u = false) by (apply Rltb_false; apply (H 0%nat); simpl; lia).
  rewrite Hx. apply IH. intros j Hj. apply (H (S j)). simpl; lia.
Qed.

Lemma count_lt_upper l u : increasing l -> forall j, (j < length l)%nat -> u <= nth j l 0 -> (count_lt l u <= j)%nat.
Proof.
  induction l as [|x t IH]; intros H j Hj Hu; [simpl in Hj; lia|].
  destruct j as [|j].
  - rewrite count_lt_none; [lia|]. intros k Hk. destruct k as [|k]; [exact Hu|].
    simpl in *. left. apply Rle_lt_trans with x; [exact Hu|].
    apply (increasing_head_lt x t); [exact H | lia].
  - unfold count_lt in *. simpl in *. assert (Hj' : (j < length t)%nat) by lia.
    specialize (IH (increasing_tail _ _ H) j Hj' Hu).
    destruct (Rltb x u); simpl; lia.
Qed.

Definition chord (xv yv : list R) (j : nat) (u : R) : R :=
  nth j yv 0 + (u - nth j xv 0) * (nth (S j) yv 0 - nth j yv 0) / (nth (S j) xv 0 - nth j xv 0).

Lemma interplin_at_index xv yv u (j : nat) :
  interp_index xv u = Z.of_nat j -> interplin yv xv u = chord xv yv j u.
Proof.
  intros E. unfold interplin, chord, rnth. rewrite E.
  replace (Z.to_nat (Z.of_nat j + 1)) with (S j) by lia. rewrite Nat2Z.id. ring.
Qed.

Ltac case_ifs :=
  repeat match goal with
  | |- context [if ?c then _ else _] =>
    lazymatch c with context [if _ then _ else _] => fail | _ => destruct c eqn:? end
  | H : context [if ?c then _ else _] |- _ =>
    lazymatch c with context [if _ then _ else _] => fail | _ => destruct c eqn:? end
  end.

Theorem interplin_is_chord xv yv u j :
  increasing xv -> (S j < length xv)%nat ->
  nth j xv 0 <= u <= nth (S j) xv 0 ->
  interplin yv xv u = chord xv yv j u.
Proof.
  intros Hinc Hj [Hlo Hhi].
  assert (Hup : (count_lt xv u <= S j)%nat) by (apply count_lt_upper; auto).
  destruct (Rle_lt_or_eq_dec _ _ Hlo) as [Hlt|Heq].
  - (* x_j < u <= x_{j+1}: the code selects the bracket j *)
    assert (Hlow : (j + 1 <= count_lt xv u)%nat) by (apply count_lt_lower; auto; lia).
    apply interplin_at_index. unfold interp_index, searchsorted. fold (count_lt xv u).
    case_ifs; lia.
  - (* u = x_j: the code selects bracket j-1 (or 0), whose chord also passes through (x_j, y_j) *)
    assert (Hup' : (count_lt xv u <= j)%nat) by (apply count_lt_upper; auto; [lia | lra]).
    destruct j as [|j'].
    + apply interplin_at_index. unfold interp_index, searchsorted. fold (count_lt xv u).
      case_ifs; lia.
    + assert (Hlt' : nth j' xv 0 < u).
      { rewrite <- Heq. clear - Hinc Hj.
        revert j' Hj; induction xv as [|x t IH]; intros j' Hj; simpl in Hj; [lia|].
        destruct j' as [|j'].
        - apply (increasing_head_lt x t Hinc 0%nat). lia.
        - simpl. apply IH; [exact (increasing_tail _ _ Hinc) | lia]. }
      assert (Hlow : (j' + 1 <= count_lt xv u)%nat) by (apply count_lt_lower; auto; lia).
      rewrite (interplin_at_index xv yv u j').
      * unfold chord. rewrite <- Heq.
        assert (D : nth (S j') xv 0 - nth j' xv 0 <> 0) by lra.
        field. split; [|exact D].
        assert (nth (S j') xv 0 < nth (S (S j')) xv 0); [|lra].
        clear - Hinc Hj. revert j' Hj; induction xv as [|x t IH]; intros j' Hj; simpl in Hj; [lia|].
        destruct j' as [|j'].
        -- destruct t as [|y t']; simpl in *; [lia|]. apply (increasing_head_lt y t' (proj2 Hinc) 0%nat). lia.
        -- change (nth (S j') t 0 < nth (S (S j')) t 0). apply IH; [exact (increasing_tail _ _ Hinc) | lia].
      * unfold interp_index, searchsorted. fold (count_lt xv u).
        case_ifs; lia.
Qed.

(* ------------------------------------------------------------------ cache / histories *)
Section CacheProofs.
  Context {T Arg Out : Type}.
  Variable G : Z -> result T.
  Variable I : T -> Arg -> result Out.

  (* the cached rule is gauleg of the cached point count *)
  Definition cache_inv (st : @qstate T) : Prop :=
    match st_npts st with
    | None => True
    | Some n => exists r, G n = Ok r /\ st_rule st = Some r
    end.

  Lemma same_npts_true s n : same_npts s n = true -> s = Some n.
  Proof. destruct s as [k|]; simpl; intros H; [|discriminate]. apply Z.eqb_eq in H. subst. reflexivity. Qed.

  Lemma setup_valid st npts :
    cache_inv st -> (forall k, npts = Some k -> exists r, G k = Ok r) ->
    snd (setup G st npts) = None /\ cache_inv (fst (setup G st npts)) /\
    st_npts (fst (setup G st npts)) = spec_eff (st_npts st) npts.
  Proof.
    intros Hinv Hv. destruct npts as [n|]; simpl.
    - destruct (same_npts (st_npts st) n) eqn:E; simpl.
      + apply same_npts_true in E. repeat split; auto.
      + destruct (Hv n eq_refl) as [r Hr]. rewrite Hr. simpl.
        split; [reflexivity|]. split; [|reflexivity].
        unfold cache_inv; simpl. exists r. auto.
    - repeat split; auto.
  Qed.

  Lemma q_integrate_valid st npts a :
    cache_inv st -> (forall k, npts = Some k -> exists r, G k = Ok r) ->
    snd (q_integrate G I st npts a) = fresh_result G I (spec_eff (st_npts st) npts) a /\
    cache_inv (fst (q_integrate G I st npts a)) /\
    st_npts (fst (q_integrate G I st npts a)) = spec_eff (st_npts st) npts.
  Proof.
    intros Hinv Hv. destruct (setup_valid st npts Hinv Hv) as [E [Hinv' Hn]].
    unfold q_integrate. destruct (setup G st npts) as [st' e]. simpl in *. subst e.
    unfold cache_inv in Hinv'. rewrite <- Hn.
    destruct (st_npts st') as [k|] eqn:Ek.
    - destruct Hinv' as [r [Hr Hs]]. rewrite Hs. simpl. rewrite Hr.
      repeat split; auto. unfold cache_inv. rewrite Ek. exists r; auto.
    - simpl. repeat split; auto. unfold cache_inv. rewrite Ek. exact Logic.I.
  Qed.

  Lemma q_run_valid ops : forall st,
    cache_inv st -> Forall (fun op : option Z * Arg => forall k, fst op = Some k -> exists r, G k = Ok r) ops ->
    snd (q_run G I st ops) = spec_run G I (st_npts st) ops.
  Proof.
    induction ops as [|[n a] t IH]; intros st Hinv Hv; [reflexivity|].
    inversion Hv as [|? ? Hop Ht]; subst. simpl in Hop.
    destruct (q_integrate_valid st n a Hinv Hop) as [E1 [E2 E3]].
    simpl. destruct (q_integrate G I st n a) as [st' o] eqn:Eq. simpl in *.
    specialize (IH st' E2 Ht). destruct (q_run G I st' t) as [st'' os]. simpl in *.
    rewrite E1, IH, E3. reflexivity.
  Qed.

  Theorem cache_history_independent n0 ops :
    valid_counts G n0 ops ->
    snd (q_init G n0) = None /\
    snd (q_run G I (fst (q_init G n0)) ops) = spec_run G I n0 ops.
  Proof.
    intros [H0 Hops].
    assert (Hnone : cache_inv (@q_none T)) by exact Logic.I.
    destruct (setup_valid q_none n0 Hnone H0) as [E [Hinv Hn]].
    unfold q_init. split; [exact E|].
    rewrite (q_run_valid ops _ Hinv Hops). rewrite Hn. simpl. destruct n0; reflexivity.
  Qed.

  (* a call with an explicit point count returns what a fresh object with that count returns,
     whatever (valid) calls came before *)
  Corollary explicit_npts_fresh n0 ops n a :
    valid_counts G n0 ops -> (exists r, G n = Ok r) ->
    snd (q_integrate G I (fst (q_run G I (fst (q_init G n0)) ops)) (Some n) a) = qgauss_fn G I (Some n) a.
  Proof.
    intros Hv [r Hr].
    assert (Hall : valid_counts G n0 (ops ++ [(Some n, a)])).
    { destruct Hv as [H0 Ho]. split; [exact H0|]. apply Forall_app. split; [exact Ho|].
      constructor; [|constructor]. simpl. intros k Ek. inversion Ek; subst. exists r; exact Hr. }
    destruct (cache_history_independent n0 (ops ++ [(Some n, a)]) Hall) as [_ E].
    assert (Hrun : forall l st, snd (q_run G I st (l ++ [(Some n, a)])) =
                                snd (q_run G I st l) ++ [snd (q_integrate G I (fst (q_run G I st l)) (Some n) a)]).
    { induction l as [|[k b] t IH]; intros st; simpl.
      - destruct (q_integrate G I st (Some n) a). reflexivity.
      - destruct (q_integrate G I st k b) as [st' o]. specialize (IH st').
        destruct (q_run G I st' (t ++ [(Some n, a)])) as [s1 o1].
        destruct (q_run G I st' t) as [s2 o2]. simpl in *. rewrite IH. reflexivity. }
    rewrite Hrun in E.
    assert (Hspec : forall l c, spec_run G I c (l ++ [(Some n, a)]) = spec_run G I c l ++ [fresh_result G I (Some n) a]).
    { induction l as [|[k b] t IH]; intros c; simpl; [reflexivity|]. rewrite IH. reflexivity. }
    rewrite Hspec in E. apply app_inj_tail in E. destruct E as [_ E]. rewrite E.
    unfold qgauss_fn, q_init. simpl. rewrite Hr. simpl. reflexivity.
  Qed.
End CacheProofs.

(* C17 — soundness of the data-integrator checker that judges at the abscissae the code used
   (Spec.data_check_at -> Spec.data_ok_at), and interplin over Q = the chord of the table. *)
From Coq Require Import Reals QArith Qreals Lra Lia ZifyBool.
From EsVerif.Common Require Import Base.
From EsVerif.C17 Require Import Model Dyadic Spec Proofs CheckProofs.
Import RM.

Local Open Scope R_scope.

Ltac q2r_in H := repeat first [rewrite Q2R_mult in H | rewrite Q2R_plus in H | rewrite Q2R_minus in H
                             | rewrite Q2R_Qabsb in H | rewrite Q2R_inject_Z in H | rewrite Q2R_half in H].

Lemma IZR_2p50 : IZR (2 ^ 50) = 2 ^ 50.
Proof. change (2 ^ 50)%Z with 1125899906842624%Z. simpl. lra. Qed.

Lemma forallb2_Forall2_Q (f : Q -> Q -> bool) (P : R -> R -> Prop) :
  (forall a b, f a b = true -> P (Q2R a) (Q2R b)) ->
  forall l1 l2, forallb2 f l1 l2 = true -> Forall2 P (map Q2R l1) (map Q2R l2).
Proof.
  intros Hf. induction l1 as [|a t IH]; intros [|b t2] H; simpl in *; try discriminate; [constructor|].
  apply andb_true_iff in H as [H1 H2]. constructor; [apply Hf; exact H1 | apply IH; exact H2].
Qed.

Lemma Q2R_weighted (fQ : Q -> Q) (fR : R -> R) : (forall q, Q2R (fQ q) = fR (Q2R q)) ->
  forall xi ws, Q2R (Qsum (map2 (fun u w => fQ u * w)%Q xi ws))
                = Rsum (map2 (fun u w => fR u * w) (map Q2R xi) (map Q2R ws)).
Proof.
  intros Hf. induction xi as [|u t IH]; intros [|w wt]; simpl; try (unfold Q2R; simpl; lra).
  rewrite Q2R_plus, Q2R_mult, Hf, IH. reflexivity.
Qed.

Theorem data_check_at_sound zs ws xv yv xi res :
  data_check_at zs ws xv yv xi res = true ->
  data_ok_at (map Q2R zs) (map Q2R ws) (map Q2R xv) (map Q2R yv) (map Q2R xi) (Q2R res).
Proof.
  unfold data_check_at, data_ok_at. intros H.
  cbv zeta in H. apply andb_true_iff in H as [H H45]. apply andb_true_iff in H45 as [H4 H5].
  apply andb_true_iff in H as [H H3]. apply andb_true_iff in H as [H1 H2]. apply Nat.leb_le in H2.
  cbv zeta.
  rewrite <- Q2R_Qmin_list, <- Q2R_Qmax_list.
  split.
  - revert H4. apply forallb2_Forall2_Q. intros u z Hu.
    apply Qle_bool_iff in Hu. apply Qle_Rle in Hu.
    q2r_in Hu. rewrite IZR_2p50 in Hu.
    unfold ulp_tol. assert (P : 0 < 2 ^ 50) by (apply pow_lt; lra).
    apply Rmult_le_reg_l with (2 ^ 50); [exact P|].
    rewrite <- Rmult_assoc, Rinv_r, Rmult_1_l by lra. unfold Rdiv. exact Hu.
  - apply existsb_exists in H5. destruct H5 as [y [Hin Hy]].
    exists (Q2R y). split; [apply in_map; exact Hin|].
    apply Qle_bool_iff in Hy. apply Qle_Rle in Hy.
    q2r_in Hy. rewrite IZR_1e9 in Hy.
    rewrite (Q2R_weighted (interplin_Q yv xv) (interplin (map Q2R yv) (map Q2R xv))) in Hy
      by (intros q; apply Q2R_interplin_Q; assumption).
    unfold tol. assert (P : 0 < 10 ^ 9) by (simpl; lra).
    apply Rmult_le_reg_l with (10 ^ 9); [exact P|].
    rewrite <- !Rmult_assoc, Rinv_r, Rmult_1_l by lra. unfold Rdiv. exact Hy.
Qed.

Corollary data_check_at_sound_dy zs ws xv yv xi res :
  data_check_at (map d2Q zs) (map d2Q ws) (map d2Q xv) (map d2Q yv) (map d2Q xi) (d2Q res) = true ->
  data_ok_at (map dR zs) (map dR ws) (map dR xv) (map dR yv) (map dR xi) (dR res).
Proof.
  intros H. apply data_check_at_sound in H. rewrite !map_map, Q2R_d2Q in H.
  rewrite !(map_ext (fun x => Q2R (d2Q x)) dR) in H by apply Q2R_d2Q. exact H.
Qed.

(* interplin as the checkers evaluate it (over Q, any ascending table, however far from the origin)
   is the chord through the two tabulated points that bracket the abscissa *)
Theorem interplin_Q_is_chord xv yv u j :
  increasing_Q xv = true -> (2 <= length xv)%nat -> (S j < length xv)%nat ->
  Q2R (nth j xv 0%Q) <= Q2R u <= Q2R (nth (S j) xv 0%Q) ->
  Q2R (interplin_Q yv xv u) = chord (map Q2R xv) (map Q2R yv) j (Q2R u).
Proof.
  intros Hinc L Hj Hu. rewrite Q2R_interplin_Q by assumption.
  apply interplin_is_chord.
  - clear -Hinc. induction xv as [|x t IH]; simpl in *; [exact Logic.I|].
    apply andb_true_iff in Hinc as [H1 H2]. split; [|apply IH; exact H2].
    destruct t as [|y t']; simpl; [exact Logic.I|]. apply Qlt_Rlt. apply Qltb_true. exact H1.
  - rewrite map_length. exact Hj.
  - replace 0 with (Q2R 0) by (unfold Q2R; simpl; lra). rewrite !map_nth. exact Hu.
Qed.

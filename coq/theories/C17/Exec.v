(* C17 — glue evaluated by generated case files.
   verdict = (bit-exact float model = implementation ?) + 2 * (property checker rejects the
   implementation's output).  Every float of the implementation enters as one hex literal; the
   float model compares it bit for bit, the property checkers work on its exact dyadic value. *)
From Coq Require Import PrimFloat QArith.
From EsVerif.Common Require Import Base.
From EsVerif.C17 Require Import Model Dyadic Spec.

Local Open Scope Z_scope.

Definition fpair_eqb (a b : list float * list float) : bool :=
  F.flist_eqb (fst a) (fst b) && F.flist_eqb (snd a) (snd b).

Definition ofloat_eqb (m : option float) (out : result float) : bool :=
  match m, out with
  | Some a, Ok b => F.feqb a b
  | _, _ => false
  end.

(* source constants (T-const tie): EPS and pi as written in cgauleg_pywrap.c *)
Definition v_consts (eps pi : float) : Z :=
  if F.feqb F.EPS eps && F.feqb F.PI_C pi then 0 else 1.

(* ---- gauleg(x1,x2,npts): [cosp] = (argument, measured cos) for i = 1..m; (refz,refw) an
        independently computed rule on [-1,1]; [mom] = number of moments to certify (0 = none;
        used on the interval [-1,1] only) *)
Definition gauleg_ok (a b : float) (n : Z) (out : result (list float * list float))
           (refz refw : list float) (mom : Z) : bool :=
  if n <=? 0 then true
  else match out with
       | Err _ => false
       | Ok (xs, ws) =>
         match f2d a, f2d b, fl2d xs, fl2d ws, fl2d refz, fl2d refw with
         | Some da, Some db, Some dxs, Some dws, Some dz_, Some dw_ =>
           (Z.of_nat (length xs) =? n)
           && rule_check da db dxs dws dz_ dw_
           && (if mom =? 0 then true
               else F.feqb a (-1)%float && F.feqb b 1%float && moments_check dxs dws (Z.to_nat mom))
         | _, _, _, _, _, _ => false
         end
       end.

Definition v_gauleg (a b : float) (n : Z) (cosp : list (float * float))
           (out : result (list float * list float)) (refz refw : list float) (mom : Z) : Z :=
  verdict (F.flist_eqb (map fst cosp) (F.cos_args n)
           && result_eqb fpair_eqb (F.gauleg a b n (map snd cosp)) out)
          (gauleg_ok a b n out refz refw mom).

(* the unchanged code's loop (while instead of do-while), for replays and the n=1 finding *)
Definition v_gauleg_orig (a b : float) (n : Z) (cosp : list (float * float))
           (out : result (list float * list float)) : Z :=
  verdict (result_eqb fpair_eqb (F.gauleg_orig a b n (map snd cosp)) out) true.

(* ---- exactness on one polynomial: (xs,ws) = gauleg(a,b,n), coefficients p (lowest first),
        t a point of the interval where |p| is large, FF a common multiple of 1..length p *)
Definition v_poly (a b : float) (xs ws p : list float) (t : float) (FF : Z) : Z :=
  verdict true
          match f2d a, f2d b, fl2d xs, fl2d ws, fl2d p, f2d t with
          | Some da, Some db, Some dxs, Some dws, Some dp, Some dt => poly_check da db dxs dws dp dt FF
          | _, _, _, _, _, _ => false
          end.

(* ---- QGauss(n).integrate([x1,x2], func) / qgauss: (zs,ws) = gauleg(-1,1,n) of the
        implementation, xi = the abscissae the function was called with, ys = what it returned *)
Definition v_func (x1 x2 : float) (zs ws xi ys : list float) (out : result float) : Z :=
  verdict (F.flist_eqb xi (F.func_abscissae zs x1 x2) && ofloat_eqb (F.integrate_func ws x1 x2 ys) out)
          match out with
          | Err _ => false
          | Ok res =>
            match f2d x1, f2d x2, fl2d zs, fl2d ws, fl2d xi, fl2d ys, f2d res with
            | Some d1, Some d2, Some dzs, Some dws, Some dxi, Some dys, Some dres =>
              Nat.eqb (length ys) (length ws) && func_check dzs dws d1 d2 dxi dys dres
            | _, _, _, _, _, _, _ => false
            end
          end.

(* ... called through QGauss.integrate / qgauss with an integrand of python kind [k]: the model's
   dispatch must send it to the function integrator (the harness observed that the integrand WAS
   called on [xi]) *)
Definition v_func_k (k : ykind) (x1 x2 : float) (zs ws xi ys : list float) (out : result float) : Z :=
  let v := v_func x1 x2 zs ws xi ys out in
  if route_eqb (dispatch false k) RFunc then v else if v mod 2 =? 0 then v + 1 else v.

(* ---- QGauss(n).integrate(xv, yv) on tabulated data *)
Definition v_data_k (k : ykind) (zs ws xv yv : list float) (out : result float) : Z :=
  let v := verdict (ofloat_eqb (F.integrate_data zs ws xv yv) out)
          match out with
          | Err _ => false
          | Ok res =>
            match fl2d zs, fl2d ws, fl2d xv, fl2d yv, f2d res with
            | Some dzs, Some dws, Some dxv, Some dyv, Some dres =>
              data_check (map d2Q dzs) (map d2Q dws) (map d2Q dxv) (map d2Q dyv) (d2Q dres)
            | _, _, _, _, _ => false
            end
          end in
  if route_eqb (dispatch false k) RData then v else if v mod 2 =? 0 then v + 1 else v.

(* ... judged at the abscissae [xi] that the code handed to interplin (observed): the model's
   abscissae must be these bit for bit, and the verified checker data_check_at decides the statement *)
Definition v_data_at (k : ykind) (zs ws xv yv xi : list float) (out : result float) : Z :=
  let v := verdict (ofloat_eqb (F.integrate_data zs ws xv yv) out
                    && F.flist_eqb xi (F.func_abscissae zs (F.fmin_list xv) (F.fmax_list xv)))
          match out with
          | Err _ => false
          | Ok res =>
            match fl2d zs, fl2d ws, fl2d xv, fl2d yv, fl2d xi, f2d res with
            | Some dzs, Some dws, Some dxv, Some dyv, Some dxi, Some dres =>
              Nat.eqb (length xi) (length ws) &&
              data_check_at (map d2Q dzs) (map d2Q dws) (map d2Q dxv) (map d2Q dyv) (map d2Q dxi) (d2Q dres)
            | _, _, _, _, _, _ => false
            end
          end in
  if route_eqb (dispatch false k) RData then v else if v mod 2 =? 0 then v + 1 else v.

Definition v_data (zs ws xv yv : list float) (out : result float) : Z :=
  verdict (ofloat_eqb (F.integrate_data zs ws xv yv) out)
          match out with
          | Err _ => false
          | Ok res =>
            match fl2d zs, fl2d ws, fl2d xv, fl2d yv, f2d res with
            | Some dzs, Some dws, Some dxv, Some dyv, Some dres =>
              data_check (map d2Q dzs) (map d2Q dws) (map d2Q dxv) (map d2Q dyv) (d2Q dres)
            | _, _, _, _, _ => false
            end
          end.

(* ---- QGauss2(nx,ny).integrate_func: (x,wx) = gauleg(-1,1,nx), (y,wy) = gauleg(-1,1,ny),
        (xg,yg) = the flattened grids the function was called with, zv = what it returned *)
Definition v_func2 (x wx y wy : list float) (x1 x2 y1 y2 : float) (xg yg zv : list float)
           (out : result float) : Z :=
  verdict (let g := F.func2_abscissae x y x1 x2 y1 y2 in
           F.flist_eqb xg (fst g) && F.flist_eqb yg (snd g)
           && ofloat_eqb (F.integrate_func2 wx wy x1 x2 y1 y2 zv) out)
          match out with
          | Err _ => false
          | Ok res =>
            match fl2d x, fl2d wx, fl2d y, fl2d wy, fl2d xg, fl2d yg, fl2d zv with
            | Some dx, Some dwx, Some dy_, Some dwy, Some dxg, Some dyg, Some dzv =>
              match f2d x1, f2d x2, f2d y1, f2d y2, f2d res with
              | Some a1, Some a2, Some b1, Some b2, Some dres =>
                Nat.eqb (length zv) (length x * length y)
                && func2_check dx dwx dy_ dwy a1 a2 b1 b2 dxg dyg dzv dres
              | _, _, _, _, _ => false
              end
            | _, _, _, _, _, _, _ => false
            end
          end.

(* ... and the array shapes of the object: weight grid and summed integrand (QGauss2 shape model) *)
Definition shape_eqb (a b : Z * Z) : bool := (fst a =? fst b) && (snd a =? snd b).
Definition shapes_agree (nx ny : Z) (wshape ishape : Z * Z) : bool :=
  match F.wgrid_shape false nx ny, F.integrand_shape false nx ny with
  | Some a, Some b => shape_eqb a wshape && shape_eqb b ishape
  | _, _ => false
  end.
Definition v_func2s (nx ny : Z) (wshape ishape : Z * Z)
           (x wx y wy : list float) (x1 x2 y1 y2 : float) (xg yg zv : list float) (out : result float) : Z :=
  let v := v_func2 x wx y wy x1 x2 y1 y2 xg yg zv out in
  if shapes_agree nx ny wshape ishape && (Z.of_nat (length x) =? nx) && (Z.of_nat (length y) =? ny)
  then v else if v mod 2 =? 0 then v + 1 else v.

(* ---- call histories on one QGauss object.  Model: the cache state machine with the rule
        identified by the point count it was computed for. *)
Definition hist_model (n0 : option Z) (ops : list (option Z)) : result (list (result Z)) :=
  match q_init G_count n0 with
  | (_, Some e) => Err e
  | (st, None) => Ok (snd (q_run G_count (fun r (_ : unit) => Ok r) st (map (fun n => (n, tt)) ops)))
  end.

Definition obs_class (o : obs) : result Z := match o with Ok (k, _) => Ok k | Err e => Err e end.

Definition v_history (n0 : option Z) (ops : list (option Z)) (os : result (list obs)) : Z :=
  verdict (result_eqb (list_eqb (result_eqb Z.eqb)) (hist_model n0 ops)
                      (match os with Ok l => Ok (map obs_class l) | Err e => Err e end))
          (if counts_valid n0 ops
           then match os with Ok l => history_check n0 ops l | Err _ => false end
           else true).

(* ---- the start values behind SmallRules.cos_table are what libm returns today: [t] = for every n of
        the table the (argument, measured cos) pairs *)
Definition v_small_table (tbl : list (Z * list float)) (t : list (Z * list (float * float))) : Z :=
  verdict (forallb2 (fun a b => (fst a =? fst b) && F.flist_eqb (snd a) (map snd (snd b))
                               && F.flist_eqb (map fst (snd b)) (F.cos_args (fst b))) tbl t) true.

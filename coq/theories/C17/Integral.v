(* C17 — link with the Riemann integral (Coquelicot's is_RInt): the closed form [Pint] used by
   the certificates IS the integral of the polynomial, and the affine-mapped rule inherits the
   moment bound on every interval [a,b] (a > b included). *)
From Coq Require Import Reals Lra Lia.
From Coquelicot Require Import Coquelicot.
From EsVerif.Common Require Import Base.
From EsVerif.C17 Require Import Model Dyadic Spec Proofs.
Import RM.

Local Open Scope R_scope.

Lemma is_RInt_monomial k a b : is_RInt (fun x => x ^ k) a b ((b ^ S k - a ^ S k) / INR (S k)).
Proof.
  assert (N : INR (S k) <> 0) by (apply not_0_INR; lia).
  replace ((b ^ S k - a ^ S k) / INR (S k))
    with (minus ((fun x => x ^ S k / INR (S k)) b) ((fun x => x ^ S k / INR (S k)) a))
    by (unfold minus, plus, opp; simpl; field; exact N).
  apply (is_RInt_derive (fun x => x ^ S k / INR (S k)) (fun x => x ^ k)).
  - intros x _. auto_derive; [trivial|].
    replace (pred (S k)) with k by reflexivity. field. exact N.
  - intros x _. apply (ex_derive_continuous (fun y => y ^ k)). auto_derive. trivial.
Qed.

Lemma is_RInt_peval_shift a b p : forall k,
  is_RInt (fun x => x ^ k * peval p x) a b (pint_from k a b p).
Proof.
  induction p as [|c t IH]; intros k.
  - apply (is_RInt_ext (fun _ => 0)); [intros; simpl; ring|].
    replace (pint_from k a b []) with (scal (b - a) 0) by (unfold scal; simpl; unfold mult; simpl; ring).
    apply (is_RInt_const a b 0).
  - apply (is_RInt_ext (fun x => plus (scal c (x ^ k)) (x ^ S k * peval t x))).
    { intros x _. unfold plus, scal; simpl. unfold mult; simpl. ring. }
    replace (pint_from k a b (c :: t))
      with (plus (scal c ((b ^ S k - a ^ S k) / INR (S k))) (pint_from (S k) a b t)).
    + apply (is_RInt_plus (fun x => scal c (x ^ k)) (fun x => x ^ S k * peval t x)).
      * apply (is_RInt_scal (fun x => x ^ k)). apply is_RInt_monomial.
      * apply IH.
    + unfold plus, scal; simpl. unfold mult; simpl. unfold Rdiv. ring.
Qed.

(* the closed form is the Riemann integral of the polynomial *)
Theorem peval_is_RInt a b p : is_RInt (peval p) a b (Pint a b p).
Proof.
  apply (is_RInt_ext (fun x => x ^ 0 * peval p x)); [intros; simpl; ring|].
  apply is_RInt_peval_shift.
Qed.

Corollary peval_RInt a b p : RInt (peval p) a b = Pint a b p.
Proof. apply is_RInt_unique. apply peval_is_RInt. Qed.

(* substitution x = xm + xl t *)
Lemma Pint_affine a b p :
  Pint a b p = (b - a) / 2 * Pint (-1) 1 (pcomp p ((a + b) / 2) ((b - a) / 2)).
Proof.
  set (xm := (a + b) / 2). set (xl := (b - a) / 2).
  assert (H1 : is_RInt (fun y => scal xl (peval p (xl * y + xm))) (-1) 1 (Pint a b p)).
  { apply (is_RInt_comp_lin (peval p) xl xm (-1) 1).
    replace (xl * -1 + xm) with a by (unfold xl, xm; field).
    replace (xl * 1 + xm) with b by (unfold xl, xm; field).
    apply peval_is_RInt. }
  assert (H2 : is_RInt (fun y => scal xl (peval p (xl * y + xm))) (-1) 1 (scal xl (Pint (-1) 1 (pcomp p xm xl)))).
  { apply (is_RInt_scal (fun y => peval p (xl * y + xm))).
    apply (is_RInt_ext (peval (pcomp p xm xl))).
    - intros y _. rewrite peval_pcomp. f_equal. ring.
    - apply peval_is_RInt. }
  rewrite <- (is_RInt_unique _ _ _ _ H1). rewrite (is_RInt_unique _ _ _ _ H2).
  unfold scal; simpl. unfold mult; simpl. reflexivity.
Qed.

(* moments on [-1,1] certify the mapped rule on [a,b] for every polynomial of degree < N *)
Theorem affine_rule_poly zs ws N eps a b p :
  moments_ok zs ws N eps -> (length p <= N)%nat ->
  Rabs (Qrule (map_nodes a b zs) (map_weights a b ws) (peval p) - Pint a b p)
  <= Rabs (b - a) / 2 * (eps * norm1 (pcomp p ((a + b) / 2) ((b - a) / 2))).
Proof.
  intros M L. rewrite Qrule_affine, Pint_affine.
  set (q := pcomp p ((a + b) / 2) ((b - a) / 2)).
  rewrite (Qrule_ext zs ws _ (peval q)) by (intros z; unfold q; rewrite peval_pcomp; reflexivity).
  assert (Hq : Rabs (Qrule zs ws (peval q) - Pint (-1) 1 q) <= eps * norm1 q).
  { apply (moments_lift zs ws N eps q M). unfold q. rewrite length_pcomp. exact L. }
  replace ((b - a) / 2 * Qrule zs ws (peval q) - (b - a) / 2 * Pint (-1) 1 q)
    with ((b - a) / 2 * (Qrule zs ws (peval q) - Pint (-1) 1 q)) by ring.
  rewrite Rabs_mult. unfold Rdiv at 1. rewrite Rabs_mult, (Rabs_pos_eq (/ 2)) by lra.
  pose proof (Rabs_pos (b - a)). unfold Rdiv.
  apply Rmult_le_compat_l; [nra | exact Hq].
Qed.

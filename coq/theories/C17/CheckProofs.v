(* C17 — soundness of the boolean checkers of Spec.v: what vm_compute decides on the exact
   values of the implementation's floats implies the real-number Props. *)
From Coq Require Import Reals QArith Qreals Lra Lia ZifyBool.
From EsVerif.Common Require Import Base.
From EsVerif.C17 Require Import Model Dyadic Spec Proofs.
Import RM.

Local Open Scope R_scope.

Ltac dsimp := repeat first [rewrite dR_abs | rewrite dR_sub | rewrite dR_add | rewrite dR_mul | rewrite dR_half
                           | rewrite dR_scale | rewrite dR_dz | rewrite dR_opp].

Lemma IZR_1e9 : IZR (10 ^ 9) = 10 ^ 9.
Proof. change (10 ^ 9)%Z with 1000000000%Z. simpl. lra. Qed.

Lemma tol_le_sound e s : tol_le e s = true -> dR e <= tol * dR s.
Proof.
  unfold tol_le, tol. intros H. apply dleb_spec in H. rewrite dR_scale, IZR_1e9 in H.
  assert (P : 0 < 10 ^ 9) by (simpl; lra).
  apply Rmult_le_reg_l with (10 ^ 9); [exact P|].
  rewrite <- Rmult_assoc, Rinv_r, Rmult_1_l by lra. exact H.
Qed.

Lemma forallb2_Forall2 {A B} (f : A -> B -> bool) (P : R -> R -> Prop) (g : A -> R) (h : B -> R) :
  (forall a b, f a b = true -> P (g a) (h b)) ->
  forall l1 l2, forallb2 f l1 l2 = true -> Forall2 P (map g l1) (map h l2).
Proof.
  intros Hf. induction l1 as [|a t IH]; intros [|b t2] H; simpl in *; try discriminate; [constructor|].
  apply andb_true_iff in H as [H1 H2]. constructor; [apply Hf; exact H1 | apply IH; exact H2].
Qed.

Lemma increasing_b_sound l : increasing_b l = true -> increasing (map dR l).
Proof.
  induction l as [|x t IH]; intros H; simpl in *; [exact Logic.I|].
  apply andb_true_iff in H as [H1 H2]. split; [|apply IH; exact H2].
  destruct t as [|y t']; simpl; [exact Logic.I|]. apply dltb_spec. exact H1.
Qed.

Lemma forallb_Forall_dR (f : dy -> bool) (P : R -> Prop) :
  (forall a, f a = true -> P (dR a)) -> forall l, forallb f l = true -> Forall P (map dR l).
Proof.
  intros Hf. induction l as [|a t IH]; intros H; simpl in *; [constructor|].
  apply andb_true_iff in H as [H1 H2]. constructor; [apply Hf; exact H1 | apply IH; exact H2].
Qed.

Lemma dR_dsum_Rsum l : dR (dsum l) = Rsum (map dR l).
Proof. apply dR_sum. Qed.

Theorem rule_check_sound a b xs ws refz refw :
  rule_check a b xs ws refz refw = true ->
  rule_ok (dR a) (dR b) (map dR xs) (map dR ws) (map dR refz) (map dR refw).
Proof.
  unfold rule_check, rule_ok. intros H.
  repeat (apply andb_true_iff in H; destruct H as [H ?]).
  rename H into Hlen, H5 into Hord, H4 into Hxs, H3 into Hws, H2 into Hsum, H1 into Hrx, H0 into Hrw.
  split. { rewrite !map_length. apply Nat.eqb_eq. exact Hlen. }
  split.
  { apply orb_true_iff in Hord. destruct Hord as [Ho|Ho];
      repeat (apply andb_true_iff in Ho; destruct Ho as [Ho ?]); [left|right].
    - split; [apply dltb_spec; exact Ho|]. split.
      + apply increasing_b_sound in H0. simpl in H0. rewrite map_app in H0. exact H0.
      + apply (forallb_Forall_dR (fun w => dltb (dz 0) w) (fun w => 0 < w)); [|exact H].
        intros w Hw. apply dltb_spec in Hw. rewrite dR_dz in Hw. exact Hw.
    - split; [apply dltb_spec; exact Ho|]. split.
      + apply increasing_b_sound in H0. simpl in H0. rewrite map_app, map_rev in H0. exact H0.
      + apply (forallb_Forall_dR (fun w => dltb w (dz 0)) (fun w => w < 0)); [|exact H].
        intros w Hw. apply dltb_spec in Hw. rewrite dR_dz in Hw. exact Hw. }
  split.
  { rewrite <- map_rev. revert Hxs. apply forallb2_Forall2. intros x x' Hx.
    apply tol_le_sound in Hx. revert Hx. dsimp. auto. }
  split.
  { rewrite <- map_rev. revert Hws. apply forallb2_Forall2. intros w w' Hw.
    apply tol_le_sound in Hw. revert Hw. dsimp. auto. }
  split.
  { apply tol_le_sound in Hsum. revert Hsum. dsimp. rewrite dR_dsum_Rsum. auto. }
  split.
  { revert Hrx. apply forallb2_Forall2. intros x z Hx.
    apply tol_le_sound in Hx. revert Hx. dsimp. auto. }
  { revert Hrw. apply forallb2_Forall2. intros w v Hw.
    apply tol_le_sound in Hw. revert Hw. dsimp. auto. }
Qed.

(* ------------------------------------------------------------------ moments *)
Lemma Qrule_as_sum xs ws f : Qrule xs ws f = Rsum (map2 Rmult ws (map f xs)).
Proof.
  unfold Rsum. revert ws; induction xs as [|x xt IH]; intros [|w wt]; simpl; try reflexivity.
  rewrite IH. reflexivity.
Qed.

Lemma map_dR_map2_dmul l1 l2 : map dR (map2 dmul l1 l2) = map2 Rmult (map dR l1) (map dR l2).
Proof.
  revert l2; induction l1 as [|a t IH]; intros [|b t2]; simpl; try reflexivity.
  rewrite dR_mul, IH. reflexivity.
Qed.

Lemma dR_ddot ws ps : dR (ddot ws ps) = Rsum (map2 Rmult (map dR ws) (map dR ps)).
Proof. unfold ddot. rewrite dR_dsum_Rsum, map_dR_map2_dmul. reflexivity. Qed.

Lemma map2_mult_self (f : R -> R) l : map2 Rmult l (map f l) = map (fun x => x * f x) l.
Proof. induction l as [|a t IH]; simpl; [reflexivity | rewrite IH; reflexivity]. Qed.

Lemma eps_m_bound (kk S M : R) :
  0 < kk -> IZR (2 * 10 ^ 9) * Rabs (kk * S - M) <= kk -> Rabs (S - M / kk) <= eps_m.
Proof.
  intros Hk H. unfold eps_m.
  replace (IZR (2 * 10 ^ 9)) with (2 * 10 ^ 9) in H by (change (2 * 10 ^ 9)%Z with 2000000000%Z; simpl; lra).
  replace (kk * S - M) with (kk * (S - M / kk)) in H by (field; lra).
  rewrite Rabs_mult, (Rabs_pos_eq kk) in H by lra.
  assert (P : 0 < 10 ^ 9) by (simpl; lra).
  assert (P10 : 10 ^ 10 = 10 * 10 ^ 9) by (simpl; lra).
  pose proof (Rabs_pos (S - M / kk)) as Q.
  assert (E : 2 * 10 ^ 9 * Rabs (S - M / kk) <= 1).
  { apply Rmult_le_reg_l with kk; [exact Hk|]. rewrite Rmult_1_r.
    replace (kk * (2 * 10 ^ 9 * Rabs (S - M / kk))) with (2 * 10 ^ 9 * (kk * Rabs (S - M / kk))) by ring.
    exact H. }
  rewrite P10. apply Rmult_le_reg_l with (2 * 10 ^ 9); [lra|].
  replace (2 * 10 ^ 9 * (5 / (10 * 10 ^ 9))) with 1 by (field; lra). exact E.
Qed.

Lemma eps_m_bound' (kk S M m : R) :
  0 < kk -> m = M / kk -> IZR (2 * 10 ^ 9) * Rabs (kk * S - M) <= kk -> Rabs (S - m) <= eps_m.
Proof. intros Hk E H. subst m. apply eps_m_bound; assumption. Qed.

Lemma moments_loop_sound xs ws : forall cnt k ps,
  map dR ps = map (fun x => x ^ k) (map dR xs) ->
  moments_loop cnt k xs ws ps = true ->
  forall j, (j < cnt)%nat ->
    Rabs (moment (map dR xs) (map dR ws) (k + j) - m_exact (k + j)) <= eps_m.
Proof.
  induction cnt as [|c IH]; intros k ps Hps H j Hj; [lia|].
  cbn [moments_loop] in H. apply andb_true_iff in H as [H1 H2].
  destruct j as [|j].
  - rewrite Nat.add_0_r. clear IH H2.
    apply dleb_spec in H1. revert H1. dsimp. rewrite dR_ddot, Hps. intros H1.
    unfold moment. rewrite Qrule_as_sum. unfold m_exact.
    rewrite (INR_IZR_INZ (S k)).
    assert (Hk : 0 < IZR (Z.of_nat (S k))) by (apply IZR_lt; lia).
    destruct (Nat.even k).
    + apply eps_m_bound; [exact Hk | exact H1].
    + apply (eps_m_bound' (IZR (Z.of_nat (S k))) _ 0); [exact Hk | unfold Rdiv; ring | exact H1].
  - replace (k + S j)%nat with (S k + j)%nat by lia.
    apply (IH (S k) (map2 dmul xs ps)); [|exact H2|lia].
    rewrite map_dR_map2_dmul, Hps, map2_mult_self. apply map_ext. intros x. reflexivity.
Qed.

Theorem moments_check_sound xs ws N :
  moments_check xs ws N = true -> moments_ok (map dR xs) (map dR ws) N eps_m.
Proof.
  unfold moments_check, moments_ok. intros H k Hk.
  apply (moments_loop_sound xs ws N 0 (map (fun _ => dz 1) xs)); [|exact H|exact Hk].
  rewrite !map_map. apply map_ext. intros x. rewrite dR_dz. reflexivity.
Qed.

(* ------------------------------------------------------------------ polynomials *)
Lemma dR_dpeval p x : dR (dpeval p x) = peval (map dR p) (dR x).
Proof. induction p as [|c t IH]; simpl; [apply dR_dz | dsimp; rewrite IH; reflexivity]. Qed.

Lemma dR_dQrule xs ws (f : dy -> dy) (g : R -> R) :
  (forall x, dR (f x) = g (dR x)) ->
  dR (dQrule xs ws f) = Qrule (map dR xs) (map dR ws) g.
Proof.
  intros Hf. unfold dQrule. rewrite dR_dsum_Rsum. unfold Rsum.
  revert ws; induction xs as [|x xt IH]; intros [|w wt]; simpl; try reflexivity.
  rewrite IH. dsimp. rewrite Hf. reflexivity.
Qed.

Lemma dpint_from_sound FF a b p : forall k r,
  dpint_from FF k a b p = Some r ->
  dR r = IZR FF * pint_from k (dR a) (dR b) (map dR p).
Proof.
  induction p as [|c t IH]; intros k r H; cbn [dpint_from] in H.
  - inversion H; subst. rewrite dR_dz. simpl. ring.
  - destruct (FF mod Z.of_nat (S k) =? 0)%Z eqn:Em; [|discriminate].
    destruct (dpint_from FF (S k) a b t) as [r'|] eqn:Er; [|discriminate].
    injection H as Hr. subst r. dsimp. rewrite !dR_pow, (IH _ _ Er).
    cbn [map pint_from pow]. rewrite (INR_IZR_INZ (S k)).
    change (Z.pos (Pos.of_succ_nat k)) with (Z.of_nat (S k)).
    set (kk := Z.of_nat (S k)) in *.
    assert (Hk : IZR kk <> 0) by (apply not_0_IZR; unfold kk; lia).
    assert (Hd : IZR FF = IZR kk * IZR (FF / kk)).
    { rewrite <- mult_IZR. f_equal. apply Z.eqb_eq in Em.
      apply Z.div_exact in Em; [exact Em | unfold kk; lia]. }
    rewrite Hd. field. exact Hk.
Qed.

Lemma between_b_sound a b t : between_b a b t = true -> between (dR a) (dR b) (dR t).
Proof.
  unfold between_b, between. intros H. apply orb_true_iff in H. destruct H as [H|H];
    apply andb_true_iff in H as [H1 H2]; apply dleb_spec in H1; apply dleb_spec in H2; [left|right]; lra.
Qed.

Theorem poly_check_sound a b xs ws p t FF :
  poly_check a b xs ws p t FF = true ->
  poly_ok (dR a) (dR b) (map dR xs) (map dR ws) (map dR p).
Proof.
  unfold poly_check, poly_ok. intros H.
  apply andb_true_iff in H as [H H3]. apply andb_true_iff in H as [H1 H2].
  destruct (dpint_from FF 0 a b p) as [Iv|] eqn:EI; [|discriminate].
  exists (dR t). split; [apply between_b_sound; exact H2|].
  apply dleb_spec in H3. revert H3. dsimp.
  rewrite (dR_dQrule xs ws (dpeval p) (peval (map dR p))) by (intros; apply dR_dpeval).
  rewrite (dpint_from_sound _ _ _ _ _ _ EI), dR_dpeval, IZR_1e9.
  fold (Pint (dR a) (dR b) (map dR p)).
  set (Qv := Qrule _ _ _). set (Pv := Pint _ _ _). set (Mv := Rabs (peval _ _)). set (Wv := Rabs (dR b - dR a)).
  intros H3. apply Z.ltb_lt in H1. assert (HF : 0 < IZR FF) by (apply IZR_lt; exact H1).
  replace (IZR FF * Qv - IZR FF * Pv) with (IZR FF * (Qv - Pv)) in H3 by ring.
  rewrite Rabs_mult, (Rabs_pos_eq (IZR FF)) in H3 by lra.
  unfold tol. assert (P : 0 < 10 ^ 9) by (simpl; lra).
  apply Rmult_le_reg_l with (10 ^ 9); [exact P|].
  replace (10 ^ 9 * (/ 10 ^ 9 * Wv * Mv)) with (Wv * Mv) by (field; lra).
  apply Rmult_le_reg_l with (IZR FF); [exact HF|].
  replace (IZR FF * (10 ^ 9 * Rabs (Qv - Pv))) with (10 ^ 9 * (IZR FF * Rabs (Qv - Pv))) by ring.
  exact H3.
Qed.

(* ------------------------------------------------------------------ function integrators *)
Lemma existsb_In_dR (f : dy -> bool) (P : R -> Prop) :
  (forall a, f a = true -> P (dR a)) -> forall l, existsb f l = true -> exists y, In y (map dR l) /\ P y.
Proof.
  intros Hf l H. apply existsb_exists in H. destruct H as [a [Hin Ha]].
  exists (dR a). split; [apply in_map; exact Hin | apply Hf; exact Ha].
Qed.

Lemma dR_dvals ws x1 x2 ys :
  dR (dvals ws x1 x2 ys) = integrate_vals (map dR ws) (dR x1) (dR x2) (map dR ys).
Proof.
  unfold dvals, integrate_vals. dsimp. rewrite dR_dsum_Rsum, map_dR_map2_dmul. reflexivity.
Qed.

Theorem func_check_sound zs ws x1 x2 xi ys res :
  func_check zs ws x1 x2 xi ys res = true ->
  func_ok (map dR zs) (map dR ws) (dR x1) (dR x2) (map dR xi) (map dR ys) (dR res).
Proof.
  unfold func_check, func_ok. intros H. apply andb_true_iff in H as [H1 H2]. split.
  - revert H1. apply forallb2_Forall2. intros u z Hu.
    apply tol_le_sound in Hu. revert Hu. dsimp. auto.
  - apply (existsb_In_dR _ (fun y => Rabs (dR res - integrate_vals (map dR ws) (dR x1) (dR x2) (map dR ys))
                                      <= tol * Rabs (dR x2 - dR x1) * Rabs y)) in H2; [exact H2|].
    intros y Hy. apply tol_le_sound in Hy. revert Hy. dsimp. rewrite dR_dvals. intros Hy.
    rewrite Rmult_assoc. exact Hy.
Qed.

Lemma map_dR_flat_map {A} (f : A -> list dy) (g : A -> list R) l :
  (forall a, map dR (f a) = g a) -> map dR (flat_map f l) = flat_map g l.
Proof.
  intros H. induction l as [|a t IH]; simpl; [reflexivity|]. rewrite map_app, H, IH. reflexivity.
Qed.

Lemma flat_map_map {A B C} (f : B -> list C) (g : A -> B) l : flat_map f (map g l) = flat_map (fun a => f (g a)) l.
Proof. induction l as [|a t IH]; simpl; [reflexivity | rewrite IH; reflexivity]. Qed.

Lemma dR_dgrid_x x y xf1 xf2 :
  map dR (dgrid_x x y xf1 xf2) = grid_xR (map dR x) (map dR y) (dR xf1) (dR xf2).
Proof.
  unfold dgrid_x, grid_xR. rewrite flat_map_map. apply map_dR_flat_map. intros _.
  rewrite !map_map. apply map_ext. intros xj. dsimp. reflexivity.
Qed.

Lemma dR_dgrid_y x y yf1 yf2 :
  map dR (dgrid_y x y yf1 yf2) = grid_yR (map dR x) (map dR y) (dR yf1) (dR yf2).
Proof.
  unfold dgrid_y, grid_yR. rewrite flat_map_map. apply map_dR_flat_map. intros yi.
  rewrite !map_map. apply map_ext. intros xj. dsimp. reflexivity.
Qed.

Lemma dR_dgrid_w wx wy : map dR (dgrid_w wx wy) = grid_wR (map dR wx) (map dR wy).
Proof.
  unfold dgrid_w, grid_wR. rewrite flat_map_map. apply map_dR_flat_map. intros wyi.
  rewrite !map_map. apply map_ext. intros wxj. dsimp. reflexivity.
Qed.

Lemma dR_dvals2 wx wy x1 x2 y1 y2 zv :
  dR (dvals2 wx wy x1 x2 y1 y2 zv) =
  integrate_vals2 (map dR wx) (map dR wy) (dR x1) (dR x2) (dR y1) (dR y2) (map dR zv).
Proof.
  unfold dvals2, integrate_vals2. dsimp. rewrite dR_dsum_Rsum, map_dR_map2_dmul, dR_dgrid_w. reflexivity.
Qed.

Lemma forallb2_Forall2_r {A} (f : A -> dy -> bool) (P : R -> R -> Prop) (g : A -> R) l2R :
  forall l1 l2, map dR l2 = l2R ->
  (forall a b, f a b = true -> P (g a) (dR b)) ->
  forallb2 f l1 l2 = true -> Forall2 P (map g l1) l2R.
Proof. intros l1 l2 E Hf H. subst. revert H. apply forallb2_Forall2. exact Hf. Qed.

Theorem func2_check_sound x wx y wy x1 x2 y1 y2 xg yg zv res :
  func2_check x wx y wy x1 x2 y1 y2 xg yg zv res = true ->
  func2_ok (map dR x) (map dR wx) (map dR y) (map dR wy) (dR x1) (dR x2) (dR y1) (dR y2)
           (map dR xg) (map dR yg) (map dR zv) (dR res).
Proof.
  unfold func2_check, func2_ok. intros H.
  apply andb_true_iff in H as [H H3]. apply andb_true_iff in H as [H1 H2].
  split; [|split].
  - eapply forallb2_Forall2_r; [| |exact H1].
    + rewrite dR_dgrid_x. dsimp. reflexivity.
    + intros u g Hu. apply tol_le_sound in Hu. revert Hu. dsimp. auto.
  - eapply forallb2_Forall2_r; [| |exact H2].
    + rewrite dR_dgrid_y. dsimp. reflexivity.
    + intros u g Hu. apply tol_le_sound in Hu. revert Hu. dsimp. auto.
  - apply (existsb_In_dR _ (fun z => Rabs (dR res - integrate_vals2 (map dR wx) (map dR wy) (dR x1) (dR x2) (dR y1) (dR y2) (map dR zv))
                                      <= tol * Rabs (dR x2 - dR x1) * Rabs (dR y2 - dR y1) * Rabs z)) in H3; [exact H3|].
    intros z Hz. apply tol_le_sound in Hz. revert Hz. dsimp. rewrite dR_dvals2. intros Hz.
    rewrite !Rmult_assoc in *. exact Hz.
Qed.

(* ------------------------------------------------------------------ data integrator (over Q) *)
Lemma Q2R_inject_Z z : Q2R (inject_Z z) = IZR z.
Proof. unfold Q2R, inject_Z; simpl. rewrite Rinv_1. ring. Qed.

Lemma powerRZ_2_inv e : / powerRZ 2 (- e) = powerRZ 2 e.
Proof.
  pose proof (powerRZ_2_pos (- e)) as P.
  apply Rmult_eq_reg_l with (powerRZ 2 (- e)); [|lra].
  rewrite Rinv_r by lra. rewrite <- powerRZ_add by apply two_neq0.
  replace (- e + e)%Z with 0%Z by lia. reflexivity.
Qed.

Lemma Q2R_Qpow2 e : Q2R (Qpow2 e) = powerRZ 2 e.
Proof.
  unfold Qpow2. destruct (0 <=? e)%Z eqn:E.
  - rewrite Q2R_inject_Z. apply IZR_pow2. lia.
  - rewrite Q2R_inv.
    + rewrite Q2R_inject_Z, IZR_pow2 by lia. apply powerRZ_2_inv.
    + unfold Qeq, inject_Z; simpl. assert (0 < 2 ^ (- e))%Z by (apply Z.pow_pos_nonneg; lia). lia.
Qed.

Lemma Q2R_d2Q d : Q2R (d2Q d) = dR d.
Proof. unfold d2Q, dR. rewrite Q2R_mult, Q2R_inject_Z, Q2R_Qpow2. reflexivity. Qed.

Lemma Qltb_Rltb a b : Qltb a b = Rltb (Q2R a) (Q2R b).
Proof.
  unfold Qltb, Rltb. destruct (Qle_bool b a) eqn:E; destruct (Rlt_dec (Q2R a) (Q2R b)) as [L|L]; simpl; try reflexivity.
  - apply Qle_bool_iff in E. apply Qle_Rle in E. lra.
  - exfalso. apply L. apply Qlt_Rlt. apply Qnot_le_lt. intros C. apply Qle_bool_iff in C. congruence.
Qed.

Lemma Qltb_true a b : Qltb a b = true -> (a < b)%Q.
Proof.
  unfold Qltb. intros H. apply negb_true_iff in H. apply Qnot_le_lt. intros C.
  apply Qle_bool_iff in C. congruence.
Qed.

Lemma searchsorted_Q_R x u : searchsorted_Q x u = searchsorted (map Q2R x) (Q2R u).
Proof.
  unfold searchsorted_Q, searchsorted. f_equal.
  induction x as [|a t IH]; simpl; [reflexivity|].
  rewrite <- Qltb_Rltb. destruct (Qltb a u); simpl; rewrite IH; reflexivity.
Qed.

Lemma interp_index_Q_R x u : interp_index_Q x u = interp_index (map Q2R x) (Q2R u).
Proof. unfold interp_index_Q, interp_index. rewrite map_length, searchsorted_Q_R. reflexivity. Qed.

Lemma Q2R_qnth l i : Q2R (qnth l i) = rnth (map Q2R l) i.
Proof.
  unfold qnth, rnth.
  replace (nth (Z.to_nat i) (map Q2R l) 0%R) with (nth (Z.to_nat i) (map Q2R l) (Q2R 0))
    by (f_equal; apply RMicromega.Q2R_0).
  rewrite map_nth. reflexivity.
Qed.

Lemma increasing_Q_step l : increasing_Q l = true ->
  forall j, (S j < length l)%nat -> (nth j l 0 < nth (S j) l 0)%Q.
Proof.
  induction l as [|x t IH]; intros H j Hj; simpl in Hj; [lia|].
  cbn [increasing_Q] in H. apply andb_true_iff in H as [H1 H2].
  destruct j as [|j].
  - destruct t as [|y t']; simpl in *; [lia|]. apply Qltb_true. exact H1.
  - change (nth j t 0 < nth (S j) t 0)%Q. apply IH; [exact H2 | lia].
Qed.

Lemma interp_index_Q_range x u : (2 <= length x)%nat ->
  (0 <= interp_index_Q x u <= Z.of_nat (length x) - 2)%Z.
Proof.
  intros L. unfold interp_index_Q, searchsorted_Q.
  set (c := length (filter (fun xi => Qltb xi u) x)).
  case_ifs; lia.
Qed.

Lemma Q2R_interplin_Q v x u :
  increasing_Q x = true -> (2 <= length x)%nat ->
  Q2R (interplin_Q v x u) = interplin (map Q2R v) (map Q2R x) (Q2R u).
Proof.
  intros Hinc L. unfold interplin_Q, interplin. rewrite <- interp_index_Q_R.
  pose proof (interp_index_Q_range x u L) as Hr.
  set (i := interp_index_Q x u) in *.
  assert (Hlt : (qnth x i < qnth x (i + 1))%Q).
  { unfold qnth. replace (Z.to_nat (i + 1)) with (S (Z.to_nat i)) by lia.
    apply increasing_Q_step; [exact Hinc | lia]. }
  rewrite Q2R_plus, Q2R_div, Q2R_mult, !Q2R_minus, !Q2R_qnth; [reflexivity|].
  intros C. assert (C' : (qnth x (i + 1) == qnth x i)%Q).
  { rewrite <- (Qplus_0_l (qnth x i)). rewrite <- C. ring. }
  rewrite C' in Hlt. exact (Qlt_irrefl _ Hlt).
Qed.

Lemma Q2R_Qminb a b : Q2R (Qminb a b) = Rmin (Q2R a) (Q2R b).
Proof.
  unfold Qminb. destruct (Qle_bool a b) eqn:E.
  - apply Qle_bool_iff in E. apply Qle_Rle in E. rewrite Rmin_left; [reflexivity | exact E].
  - assert (L : (b < a)%Q) by (apply Qnot_le_lt; intros C; apply Qle_bool_iff in C; congruence).
    apply Qlt_Rlt in L. rewrite Rmin_right; [reflexivity | lra].
Qed.

Lemma Q2R_Qmaxb a b : Q2R (Qmaxb a b) = Rmax (Q2R a) (Q2R b).
Proof.
  unfold Qmaxb. destruct (Qle_bool a b) eqn:E.
  - apply Qle_bool_iff in E. apply Qle_Rle in E. rewrite Rmax_right; [reflexivity | exact E].
  - assert (L : (b < a)%Q) by (apply Qnot_le_lt; intros C; apply Qle_bool_iff in C; congruence).
    apply Qlt_Rlt in L. rewrite Rmax_left; [reflexivity | lra].
Qed.

Lemma Q2R_Qmin_list l : Q2R (Qmin_list l) = Rmin_list (map Q2R l).
Proof.
  destruct l as [|a t]; simpl; [apply RMicromega.Q2R_0|].
  revert a; induction t as [|b t IH]; intros a; simpl; [reflexivity|].
  rewrite IH, Q2R_Qminb. reflexivity.
Qed.

Lemma Q2R_Qmax_list l : Q2R (Qmax_list l) = Rmax_list (map Q2R l).
Proof.
  destruct l as [|a t]; simpl; [apply RMicromega.Q2R_0|].
  revert a; induction t as [|b t IH]; intros a; simpl; [reflexivity|].
  rewrite IH, Q2R_Qmaxb. reflexivity.
Qed.

Lemma Q2R_Qsum l : Q2R (Qsum l) = Rsum (map Q2R l).
Proof.
  unfold Qsum, Rsum. induction l as [|a t IH]; simpl; [apply RMicromega.Q2R_0|].
  rewrite Q2R_plus, IH. reflexivity.
Qed.

Lemma Q2R_half : Q2R (1 # 2) = / 2.
Proof. unfold Q2R; simpl. lra. Qed.

Lemma Q2R_integrate_func_Q zs ws x1 x2 (fQ : Q -> Q) (fR : R -> R) :
  (forall q, Q2R (fQ q) = fR (Q2R q)) ->
  Q2R (integrate_func_Q zs ws x1 x2 fQ) = integrate_func (map Q2R zs) (map Q2R ws) (Q2R x1) (Q2R x2) fR.
Proof.
  intros Hf. unfold integrate_func_Q, integrate_func.
  rewrite Q2R_mult, Q2R_mult, Q2R_minus, Q2R_half, Q2R_Qsum. unfold Rdiv. f_equal.
  f_equal. revert ws; induction zs as [|z zt IH]; intros [|w wt]; simpl; try reflexivity.
  rewrite IH. f_equal. rewrite Q2R_mult, Hf. f_equal. f_equal.
  rewrite Q2R_plus, !Q2R_mult, Q2R_minus, Q2R_plus, Q2R_half. reflexivity.
Qed.

Lemma Q2R_Qabsb a : Q2R (Qabsb a) = Rabs (Q2R a).
Proof.
  unfold Qabsb. destruct (Qle_bool 0 a) eqn:E.
  - apply Qle_bool_iff in E. apply Qle_Rle in E. rewrite RMicromega.Q2R_0 in E.
    rewrite Rabs_pos_eq; [reflexivity | exact E].
  - assert (L : (a < 0)%Q) by (apply Qnot_le_lt; intros C; apply Qle_bool_iff in C; congruence).
    apply Qlt_Rlt in L. rewrite RMicromega.Q2R_0 in L. rewrite Q2R_opp, Rabs_left; [reflexivity | exact L].
Qed.

Theorem data_check_sound zs ws xv yv res :
  data_check zs ws xv yv res = true ->
  data_ok (map Q2R zs) (map Q2R ws) (map Q2R xv) (map Q2R yv) (Q2R res).
Proof.
  unfold data_check, data_ok. intros H.
  apply andb_true_iff in H as [H H4]. apply andb_true_iff in H as [H H3].
  apply andb_true_iff in H as [H1 H2]. apply Nat.leb_le in H2.
  apply existsb_exists in H4. destruct H4 as [y [Hin Hy]].
  exists (Q2R y). split; [apply in_map; exact Hin|].
  apply Qle_bool_iff in Hy. apply Qle_Rle in Hy.
  rewrite !Q2R_mult, !Q2R_Qabsb, !Q2R_minus, Q2R_inject_Z, IZR_1e9 in Hy.
  rewrite Q2R_Qmax_list, Q2R_Qmin_list in Hy.
  unfold integrate_data_Q in Hy.
  rewrite (Q2R_integrate_func_Q zs ws _ _ (interplin_Q yv xv) (interplin (map Q2R yv) (map Q2R xv))) in Hy
    by (intros q; apply Q2R_interplin_Q; assumption).
  rewrite Q2R_Qmax_list, Q2R_Qmin_list in Hy.
  fold (integrate_data (map Q2R zs) (map Q2R ws) (map Q2R xv) (map Q2R yv)) in Hy.
  unfold tol. assert (P : (0 < 10 ^ 9)%R) by (simpl; lra).
  apply Rmult_le_reg_l with (10 ^ 9)%R; [exact P|].
  rewrite <- !Rmult_assoc, Rinv_r, Rmult_1_l by lra. exact Hy.
Qed.

Corollary data_check_sound_dy zs ws xv yv res :
  data_check (map d2Q zs) (map d2Q ws) (map d2Q xv) (map d2Q yv) (d2Q res) = true ->
  data_ok (map dR zs) (map dR ws) (map dR xv) (map dR yv) (dR res).
Proof.
  intros H. apply data_check_sound in H. rewrite !map_map, Q2R_d2Q in H.
  rewrite !(map_ext (fun x => Q2R (d2Q x)) dR) in H by apply Q2R_d2Q. exact H.
Qed.

(* ------------------------------------------------------------------ histories *)
Theorem history_check_sound ops : forall cur os,
  counts_valid cur ops = true -> history_check cur ops os = true -> history_ok cur ops os.
Proof.
  unfold history_ok, counts_valid.
  induction ops as [|n t IH]; intros cur os Hv H; destruct os as [|o ot]; simpl in H; try discriminate.
  - split; [reflexivity | constructor].
  - apply andb_true_iff in H as [Ho Ht].
    simpl in Hv. apply andb_true_iff in Hv as [Hc Hv]. apply andb_true_iff in Hv as [Hn Hv].
    assert (Hvalid : match spec_eff cur n with Some k => (0 <? k)%Z = true | None => True end).
    { destruct n as [k|]; simpl; [exact Hn|]. destruct cur as [k|]; [exact Hc | exact Logic.I]. }
    destruct (IH (spec_eff cur n) ot) as [E1 E2]; [|exact Ht|].
    { simpl. apply andb_true_iff. split; [|exact Hv].
      destruct (spec_eff cur n); [exact Hvalid | reflexivity]. }
    split.
    + simpl. rewrite E1. f_equal. unfold obs_ok in Ho.
      destruct (spec_eff cur n) as [m|]; destruct o as [[k [r fr]]|e]; try discriminate; simpl.
      * apply andb_true_iff in Ho as [Hk _]. apply Z.eqb_eq in Hk. subst k.
        unfold G_count. destruct (m <=? 0)%Z eqn:Em; [lia | reflexivity].
      * reflexivity.
    + constructor; [|exact E2]. unfold obs_ok in Ho.
      destruct (spec_eff cur n) as [m|]; destruct o as [[k [r fr]]|e]; try discriminate; simpl; [|exact Logic.I].
      apply andb_true_iff in Ho as [_ Hb]. exact Hb.
Qed.

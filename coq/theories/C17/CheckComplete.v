(* C17 — the rule checker is not only sound but COMPLETE: it accepts every output that satisfies rule_ok
   (so a rejection is always a genuine violation of the stated bounds, never an artefact of the checker);
   plus small frame / consistency facts of the models. *)
From Coq Require Import Reals QArith Lra Lia ZifyBool.
From EsVerif.Common Require Import Base.
From EsVerif.C17 Require Import Model Dyadic Spec Proofs CheckProofs.
Import RM.

Local Open Scope R_scope.

Ltac dsimp := repeat first [rewrite dR_abs | rewrite dR_sub | rewrite dR_add | rewrite dR_mul | rewrite dR_half
                           | rewrite dR_scale | rewrite dR_dz | rewrite dR_opp].

Lemma tol_le_complete e s : dR e <= tol * dR s -> tol_le e s = true.
Proof.
  unfold tol_le, tol. intros H. apply dleb_spec. rewrite dR_scale, IZR_1e9.
  assert (P : 0 < 10 ^ 9) by (simpl; lra).
  apply Rmult_le_compat_l with (r := 10 ^ 9) in H; [|lra].
  rewrite <- Rmult_assoc, Rinv_r, Rmult_1_l in H by lra. exact H.
Qed.

Lemma Forall2_forallb2 {A B} (f : A -> B -> bool) (P : R -> R -> Prop) (g : A -> R) (h : B -> R) :
  (forall a b, P (g a) (h b) -> f a b = true) ->
  forall l1 l2, Forall2 P (map g l1) (map h l2) -> forallb2 f l1 l2 = true.
Proof.
  intros Hf. induction l1 as [|a t IH]; intros [|b t2] H; simpl in *; inversion H; subst; try reflexivity.
  apply andb_true_iff. split; [apply Hf; assumption | apply IH; assumption].
Qed.

Lemma increasing_b_complete l : increasing (map dR l) -> increasing_b l = true.
Proof.
  induction l as [|x t IH]; intros H; simpl in *; [reflexivity|]. destruct H as [H1 H2].
  apply andb_true_iff. split; [|apply IH; exact H2].
  destruct t as [|y t']; simpl in *; [reflexivity|]. apply dltb_spec. exact H1.
Qed.

Lemma Forall_forallb_dR (f : dy -> bool) (P : R -> Prop) :
  (forall a, P (dR a) -> f a = true) -> forall l, Forall P (map dR l) -> forallb f l = true.
Proof.
  intros Hf. induction l as [|a t IH]; intros H; simpl in *; [reflexivity|]. inversion H; subst.
  apply andb_true_iff. split; [apply Hf; assumption | apply IH; assumption].
Qed.

Theorem rule_check_complete a b xs ws refz refw :
  rule_ok (dR a) (dR b) (map dR xs) (map dR ws) (map dR refz) (map dR refw) ->
  rule_check a b xs ws refz refw = true.
Proof.
  unfold rule_check, rule_ok. intros [Hlen [Hord [Hxs [Hws [Hsum [Hrx Hrw]]]]]].
  rewrite !andb_true_iff. repeat split.
  - rewrite !map_length in Hlen. apply Nat.eqb_eq. exact Hlen.
  - apply orb_true_iff. destruct Hord as [[Hab [Hinc Hpos]]|[Hab [Hinc Hneg]]]; [left|right];
      rewrite !andb_true_iff; repeat split.
    + apply dltb_spec. exact Hab.
    + apply increasing_b_complete. simpl. rewrite map_app. exact Hinc.
    + apply (Forall_forallb_dR _ (fun w => 0 < w)); [|exact Hpos].
      intros w Hw. apply dltb_spec. rewrite dR_dz. exact Hw.
    + apply dltb_spec. exact Hab.
    + apply increasing_b_complete. simpl. rewrite map_app, map_rev. exact Hinc.
    + apply (Forall_forallb_dR _ (fun w => w < 0)); [|exact Hneg].
      intros w Hw. apply dltb_spec. rewrite dR_dz. exact Hw.
  - rewrite <- map_rev in Hxs. revert Hxs. apply Forall2_forallb2. intros x x' Hx.
    apply tol_le_complete. dsimp. exact Hx.
  - rewrite <- map_rev in Hws. revert Hws. apply Forall2_forallb2. intros w w' Hw.
    apply tol_le_complete. dsimp. exact Hw.
  - apply tol_le_complete. dsimp. rewrite dR_dsum_Rsum. exact Hsum.
  - revert Hrx. apply Forall2_forallb2. intros x z Hx. apply tol_le_complete. dsimp. exact Hx.
  - revert Hrw. apply Forall2_forallb2. intros w v Hw. apply tol_le_complete. dsimp. exact Hw.
Qed.

Theorem rule_check_iff a b xs ws refz refw :
  rule_check a b xs ws refz refw = true <->
  rule_ok (dR a) (dR b) (map dR xs) (map dR ws) (map dR refz) (map dR refw).
Proof. split; [apply rule_check_sound | apply rule_check_complete]. Qed.

(* ---- the two readings of the data integrator agree when the abscissae are the exact mapped ones *)
Theorem data_ok_at_exact zs ws xv yv res :
  data_ok_at zs ws xv yv
    (map (fun z => z * ((Rmax_list xv - Rmin_list xv) / 2) + (Rmax_list xv + Rmin_list xv) / 2) zs) res ->
  data_ok zs ws xv yv res.
Proof.
  unfold data_ok_at, data_ok. intros [_ [y [Hin Hy]]]. exists y. split; [exact Hin|].
  unfold integrate_data, integrate_func. rewrite map2_map_l in Hy. exact Hy.
Qed.

(* ---- frame conditions *)
(* an interval of zero width integrates to 0 (function integrator, any rule, any integrand) *)
Lemma integrate_func_zero_width zs ws a f : integrate_func zs ws a a f = 0.
Proof. unfold integrate_func. replace ((a - a) / 2) with 0 by field. ring. Qed.

(* QGauss.setup leaves the object untouched when no count or the current count is passed *)
Lemma setup_frame {T} (G : Z -> result T) (st : @qstate T) :
  setup G st None = (st, None) /\ forall n, st_npts st = Some n -> setup G st (Some n) = (st, None).
Proof.
  split; [reflexivity|]. intros n H. unfold setup, same_npts. rewrite H, Z.eqb_refl. reflexivity.
Qed.

(* ---- every abscissa the data integrator uses lies strictly inside the table, hence between two
        neighbouring tabulated points: interplin never extrapolates there and is the chord *)
Lemma mapped_abscissa_inside x1 x2 z : x1 < x2 -> -1 < z < 1 ->
  x1 < z * ((x2 - x1) / 2) + (x2 + x1) / 2 < x2.
Proof. intros H [Hz1 Hz2]. split; nra. Qed.

Lemma bracket_exists : forall (xv : list R) u, increasing xv -> (2 <= length xv)%nat ->
  nth 0 xv 0 <= u <= nth (length xv - 1) xv 0 ->
  exists j, (S j < length xv)%nat /\ nth j xv 0 <= u <= nth (S j) xv 0.
Proof.
  induction xv as [|a t IH]; intros u Hinc L Hu; [simpl in L; lia|].
  destruct t as [|b t']; [simpl in L; lia|].
  destruct (Rle_dec u b) as [Hub|Hub].
  - exists 0%nat. simpl in *. split; [lia | lra].
  - destruct t' as [|c t''].
    + simpl in Hu. lra.
    + destruct (IH u) as [j [Hj Hb]].
      * destruct Hinc as [_ H]. exact H.
      * simpl. lia.
      * split; [simpl; lra|]. simpl in Hu |- *. replace (length t'' - 0)%nat with (length t'') in Hu by lia.
        replace (S (length t'') - 0)%nat with (S (length t'')) by lia. simpl. exact (proj2 Hu).
      * exists (S j). split; [simpl in *; lia | exact Hb].
Qed.

Theorem interplin_is_chord_everywhere_inside xv yv u :
  increasing xv -> (2 <= length xv)%nat -> nth 0 xv 0 <= u <= nth (length xv - 1) xv 0 ->
  exists j, (S j < length xv)%nat /\ nth j xv 0 <= u <= nth (S j) xv 0 /\ interplin yv xv u = chord xv yv j u.
Proof.
  intros Hinc L Hu. destruct (bracket_exists xv u Hinc L Hu) as [j [Hj Hb]].
  exists j. split; [exact Hj|]. split; [exact Hb|]. apply interplin_is_chord; assumption.
Qed.

(* ---- the history checker is complete as well: it accepts every observation list that satisfies history_ok *)
Theorem history_check_complete ops : forall cur os,
  counts_valid cur ops = true -> history_ok cur ops os -> history_check cur ops os = true.
Proof.
  unfold history_ok, counts_valid.
  induction ops as [|n t IH]; intros cur os Hv [E1 E2]; destruct os as [|o ot]; simpl in E1; try discriminate; [reflexivity|].
  simpl in Hv. apply andb_true_iff in Hv as [Hc Hv]. apply andb_true_iff in Hv as [Hn Hv].
  assert (Hvalid : match spec_eff cur n with Some k => (0 <? k)%Z = true | None => True end).
  { destruct n as [k|]; simpl; [exact Hn|]. destruct cur as [k|]; [exact Hc | exact Logic.I]. }
  injection E1 as Eo Et. inversion E2 as [|? ? Hb Hbt]; subst.
  cbn [history_check]. apply andb_true_iff. split.
  - unfold obs_ok. destruct (spec_eff cur n) as [m|]; destruct o as [[k [r fr]]|e]; simpl in Eo, Hb |- *.
    + unfold G_count in Eo. destruct (m <=? 0)%Z eqn:Em; [lia|]. injection Eo as ->.
      rewrite Z.eqb_refl. exact Hb.
    + unfold G_count in Eo. destruct (m <=? 0)%Z eqn:Em; [lia | discriminate].
    + discriminate.
    + reflexivity.
  - apply IH; [|split; assumption].
    simpl. apply andb_true_iff. split; [|exact Hv].
    destruct (spec_eff cur n); [exact Hvalid | reflexivity].
Qed.

Theorem history_check_iff ops cur os : counts_valid cur ops = true ->
  (history_check cur ops os = true <-> history_ok cur ops os).
Proof. intros Hv. split; [apply history_check_sound | apply history_check_complete]; exact Hv. Qed.
